/-
  C03 — model-level operations on loaded catalogs (same model as C01: `Catalog.load`):

  * `glue`       : what "the row-wise concatenation of two loads" is (rows appended, particle slices re-based
                   by the A and B totals),
  * `applyMask`  : what "the masked unfiltered load" is (kept rows, their slices re-indexed contiguously),
  * `filterView` : the count columns, by NAME, of the per-superslab table handed to `filter_func`
                   (`_setup_fields` drops `N` and adds `N_total` in a cleaned non-passthrough load and
                   `_read_halo_info` renames `N_total` to `N` just before calling the filter),
  * `setupPaths` : decision model of `_setup_file_paths` for a list of files.
-/
import AbacusVerif.Model.C01

namespace AbacusVerif.Catalog
open AbacusVerif

/-! ### filter view -/

/-- the count columns the filter sees on one row, by name.  A row carries cleaning columns iff the load is
cleaned (`rowsOf`). -/
def filterView (passthrough : Bool) (r : Row) : List (String × Nat) :=
  match r.2 with
  | some c => if passthrough then [("N", r.1.n), ("N_total", c.nTotal)] else [("N", c.nTotal)]
  | none => [("N", r.1.n)]

def lookupCol (name : String) : List (String × Nat) → Option Nat
  | [] => none
  | (k, v) :: rest => if k = name then some v else lookupCol name rest

/-! ### glue / applyMask on results -/

/-- length of the X block of a result's subsample table -/
def blockLen {α} (r : Result α) (X : Sub) : Nat :=
  match idxOf X r.idx with
  | some p => total p.2
  | none => 0

/-- the X block of the subsample table: A first, then B -/
def block {α} (r : Result α) : Sub → List (Option α)
  | .A => r.sub.take (blockLen r .A)
  | .B => (r.sub.drop (blockLen r .A)).take (blockLen r .B)

/-- contiguous index columns and table for given per-row counts and per-row particle lists, A before B -/
def rebuild {α} (subs : List Sub) (counts : Sub → List Nat) (blocks : Sub → List (Option α)) :
    List (Sub × List Nat × List Nat) × List (Option α) :=
  let offA := 0
  let offB := if subs.contains .A then total (counts .A) else 0
  (subs.map (fun X => (X, (offsets (match X with | .A => offA | .B => offB) (counts X)).dropLast, counts X)),
   subs.flatMap blocks)

/-- concatenation of two loads of the same options -/
def glue {α} (r1 r2 : Result α) : Result α :=
  let subs := r1.idx.map (·.1)
  let counts := fun X => (match idxOf X r1.idx with | some p => p.2 | none => []) ++
                         (match idxOf X r2.idx with | some p => p.2 | none => [])
  let blocks := fun X => block r1 X ++ block r2 X
  let (idx, sub) := rebuild subs counts blocks
  { rows := r1.rows ++ r2.rows, nPer := r1.nPer ++ r2.nPer, idx := idx, sub := sub }

/-- split a flat mask into per-file pieces of the given lengths -/
def splitBy {β} : List Nat → List β → List (List β)
  | [], _ => []
  | n :: ns, l => l.take n :: splitBy ns (l.drop n)

/-- slices of a table at the given starts/counts -/
def slicesOf {β} (tbl : List β) : List Nat → List Nat → List (List β)
  | s :: ss, n :: ns => pySlice tbl s (s + n) :: slicesOf tbl ss ns
  | _, _ => []

/-- the masked unfiltered load: `m` is the flat row mask (per-superslab masks appended) -/
def applyMask {α} (m : List Bool) (r : Result α) : Result α :=
  let subs := r.idx.map (·.1)
  let counts := fun X => match idxOf X r.idx with | some p => maskRows p.2 m | none => []
  let blocks := fun X => match idxOf X r.idx with
    | some p => (maskRows (slicesOf r.sub p.1 p.2) m).flatten
    | none => []
  let (idx, sub) := rebuild subs counts blocks
  { rows := maskRows r.rows m,
    nPer := (splitBy r.nPer m).map (fun piece => (piece.filter id).length),
    idx := idx, sub := sub }

/-! ### `_setup_file_paths` for a list of files -/

/-- one entry of the file list; `σ` is the type of file-name stems (`String` in the driver) -/
structure PathIn (σ : Type) where
  /-- identity of `p.parents[1]` (the catalog directory the file belongs to) -/
  group : Nat
  /-- `p.stem` -/
  stem : σ
  deriving Repr, DecidableEq

inductive PathErr where
  | empty
  | mixed
  | duplicate
  | badIndex
  deriving Repr, DecidableEq

def PathErr.toString : PathErr → String
  | .empty => "empty"
  | .mixed => "mixed"
  | .duplicate => "duplicate"
  | .badIndex => "bad-index"

/-- `int(stem.split('_')[-1])` for plain decimal tokens (signs, blanks and non-ASCII digits, which `int`
also accepts, are outside the model) -/
def parseIndex (stem : String) : Option Nat :=
  match (stem.splitOn "_").getLast? with
  | some t => if t.all Char.isDigit then t.toNat? else none
  | none => none

def hasDup {σ} [DecidableEq σ] : List (PathIn σ) → Bool
  | [] => false
  | p :: rest => rest.contains p || hasDup rest

/-- `[int(hfn.stem.split('_')[-1]) for hfn in halo_fns]`; `parse` is the token parser (`parseIndex`) -/
def parseAll {σ} (parse : σ → Option Nat) : List (PathIn σ) → Except PathErr (List Nat)
  | [] => .ok []
  | p :: rest =>
    match parse p.stem with
    | none => .error .badIndex
    | some i =>
      match parseAll parse rest with
      | .error e => .error e
      | .ok is => .ok (i :: is)

def setupPaths {σ} [DecidableEq σ] (parse : σ → Option Nat) (ps : List (PathIn σ)) : Except PathErr (List Nat) :=
  match ps with
  | [] => .error .empty
  | p0 :: _ =>
    if ps.any (fun p => p.group ≠ p0.group) then .error .mixed
    else if hasDup ps then .error .duplicate
    else parseAll parse ps

/-! ### driver -/

def parsePath? (s : String) : Option (PathIn String) :=
  match s.splitOn "/" with
  | [g, stem] => (g.toNat?).map (fun g => { group := g, stem := stem })
  | _ => none

/-- split a token list at the `|` tokens -/
def splitBar : List String → List (List String)
  | [] => [[]]
  | t :: rest =>
    match splitBar rest with
    | [] => [[t]]
    | seg :: segs => if t = "|" then [] :: seg :: segs else (t :: seg) :: segs

def loadOf (args : List String) : Option (Except Fault (Result Nat)) :=
  (parseLoad? args).map (fun p => load p.1 p.2)

/-- fold `glue` over the loads, left to right -/
def glueAll : List (Result Nat) → Option (Result Nat)
  | [] => none
  | r :: rs => some (rs.foldl glue r)

/-- requests (besides those of C01): `glue load … | load … | …` (the `glue` of the model loads, folded left to
right), `applymask <bits> load …` (`applyMask` of the model load), `view <cleaned> <passthrough> <H> <C>` and `paths <g>/<stem> …` -/
def handle3 (args : List String) : String :=
  match args with
  | ["view", cl, pt, h, c] =>
    match parseBool? cl, parseBool? pt, parseNatList? h, parseNatList? c with
    | some cl, some pt, some h, some c =>
      match chunk5 h, chunk5 c with
      | some hs, some cs =>
        let s : Slab Nat := { halos := hs.map (fun (a, b, c, d, e) => ⟨a, b, c, d, e⟩),
                              clean := cs.map (fun (a, b, c, d, e) => ⟨a, b, c, d, e⟩),
                              partA := [], partB := [], cleanA := [], cleanB := [] }
        match rowsOf cl s with
        | .error f => s!"err {f}"
        | .ok rows =>
          let col := fun name => rows.map (fun r => match lookupCol name (filterView pt r) with
            | some v => toString v | none => "x")
          s!"ok N={",".intercalate (col "N")} N_total={",".intercalate (col "N_total")}"
      | _, _ => "bad-op"
    | _, _, _, _ => "bad-op"
  | "glue" :: rest =>
    match (splitBar rest).mapM loadOf with
    | none => "bad-op"
    | some rs =>
      match rs.mapM (fun r => match r with | .ok v => some v | .error _ => none) with
      | none => "err load-fault"
      | some vs =>
        match glueAll vs with
        | some g => showResult (.ok (g, []))
        | none => "bad-op"
  | "applymask" :: bits :: rest =>
    match parseMask? bits, loadOf rest with
    | some m, some (.ok r) => showResult (.ok (applyMask m r, []))
    | some _, some (.error f) => s!"err {f}"
    | _, _ => "bad-op"
  | "paths" :: ps =>
    match ps.mapM parsePath? with
    | some ps =>
      match setupPaths parseIndex ps with
      | .ok is => s!"ok {showList is}"
      | .error e => s!"err {e.toString}"
    | none => "bad-op"
  | _ => handle args

end AbacusVerif.Catalog
