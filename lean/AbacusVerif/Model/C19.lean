/-
  Model of `abacusnbody.util.cumsum` (abacusnbody/util.py), line by line.

  ```python
  N = len(arr)
  N_out = N - 1 + int(initial) + int(final)
  if len(out) != N_out: raise ValueError(...)
  total = dtype(offset)
  if N == 0:
      if initial and final: out[0] = total
      return total
  if initial: out[0] = total
  for i in range(N - 1):
      total += arr[i]
      out[i + int(initial)] = total
  total += arr[-1]
  if final: out[-1] = total
  return total
  ```

  Every array access goes through the Python index rule (`idx`), so an access
  outside an array is a `Fault.oob`; the access trace is part of the result.
  The element type is any type with `+` (instances used: `Int`, `BitVec 64`).
-/
import AbacusVerif.Model.Common

namespace AbacusVerif.Cumsum
open AbacusVerif

inductive Access where
  | readArr (i : Nat)
  | writeOut (i : Nat)
  deriving Repr, DecidableEq

structure St (α : Type) where
  total : α
  writes : List (Nat × α)
  trace : List Access

def b2n (b : Bool) : Nat := if b then 1 else 0

/-- `out[i] = total` -/
def writeOut {α} (outLen : Nat) (i : Int) (s : St α) : Except Fault (St α) :=
  match pyIndex outLen i with
  | some k => .ok { s with writes := s.writes ++ [(k, s.total)], trace := s.trace ++ [.writeOut k] }
  | none => .error .oob

/-- `total += arr[i]` -/
def addArr {α} [Add α] (arr : List α) (i : Int) (s : St α) : Except Fault (St α) :=
  match pyIndex arr.length i with
  | some k =>
    match arr[k]? with
    | some x => .ok { s with total := s.total + x, trace := s.trace ++ [.readArr k] }
    | none => .error .oob
  | none => .error .oob

/-- one iteration of `for i in range(N-1)` -/
def body {α} [Add α] (arr : List α) (outLen : Nat) (ini : Nat) (s : St α) (i : Nat) : Except Fault (St α) :=
  addArr arr (i : Int) s >>= writeOut outLen ((i + ini : Nat) : Int)

def loop {α} [Add α] (arr : List α) (outLen : Nat) (ini : Nat) (s : St α) (m : Nat) : Except Fault (St α) :=
  (List.range m).foldlM (body arr outLen ini) s

def cumsum {α} [Add α] (arr : List α) (outLen : Nat) (initial final : Bool) (offset : α) :
    Except Fault (St α) :=
  let N := arr.length
  let nOut : Int := (N : Int) - 1 + (b2n initial : Int) + (b2n final : Int)
  if (outLen : Int) ≠ nOut then .error .badLength
  else
    let s0 : St α := { total := offset, writes := [], trace := [] }
    if N = 0 then
      if initial && final then writeOut outLen 0 s0 else .ok s0
    else do
      let s1 ← if initial then writeOut outLen 0 s0 else .ok s0
      let s2 ← loop arr outLen (b2n initial) s1 (N - 1)
      let s3 ← addArr arr (-1) s2
      if final then writeOut outLen (-1) s3 else .ok s3

/-! ### specification vocabulary -/

/-- `s_k = offset + arr[0] + … + arr[k-1]`, accumulated left to right as the code does. -/
def psum {α} [Add α] (offset : α) (arr : List α) (k : Nat) : α :=
  (arr.take k).foldl (· + ·) offset

/-- the partial sums selected by the flags: `s_0 … s_N` without `s_0` unless `initial`,
without `s_N` unless `final`. -/
def selected {α} [Add α] (offset : α) (arr : List α) (initial final : Bool) : List α :=
  let all := (List.range (arr.length + 1)).map (psum offset arr)
  let a := if initial then all else all.drop 1
  if final then a else a.dropLast

/-! ### driver -/

def showAccess : Access → String
  | .readArr i => s!"r{i}"
  | .writeOut i => s!"w{i}"

def showRes {α} [ToString α] : Except Fault (St α) → String
  | .error f => s!"err {f}"
  | .ok s =>
    let ws := s.writes.map (fun w => s!"{w.1}:{w.2}")
    s!"ok total={s.total} writes={showList ws} trace={showList (s.trace.map showAccess)}"

/-- request: `cumsum <mode> <initial> <final> <outLen> <offset> <arr>` with mode `int` (unbounded)
or `u64` (wrap-around 64-bit). -/
def handle (args : List String) : String :=
  match args with
  | ["cumsum", mode, ini, fin, outLen, offset, arr] =>
    match parseBool? ini, parseBool? fin, parseNat? outLen, parseInt? offset, parseIntList? arr with
    | some ini, some fin, some outLen, some offset, some arr =>
      if mode = "int" then showRes (cumsum arr outLen ini fin offset)
      else if mode = "u64" then
        let r := cumsum (arr.map (BitVec.ofInt 64)) outLen ini fin (BitVec.ofInt 64 offset)
        match r with
        | .error f => s!"err {f}"
        | .ok s =>
          let ws := s.writes.map (fun w => s!"{w.1}:{w.2.toNat}")
          s!"ok total={s.total.toNat} writes={showList ws} trace={showList (s.trace.map showAccess)}"
      else "bad-op"
    | _, _, _, _, _ => "bad-op"
  | _ => "bad-op"

end AbacusVerif.Cumsum
