/-
  Vocabulary shared by the C05 (units) and C02 (column independence) models and by the generated
  tables `Generated/Loaders.lean`, `Generated/Dtypes.lean` (core Lean only).

  `Expr` is the expression language of the per-column loader closures of
  `CompaSOHaloCatalog._setup_halo_field_loaders`: what one element (one halo, one component) of a
  column is computed from.  `raw n` / `halo n` are the element of raw column / already loaded halo
  column `n` at the same halo and the same component (a scalar column broadcasts over components:
  `reshape(-1, 1)`), `box` / `vel` are `BoxSize` / `VelZSpace_to_kms` (or `1.0` with
  `convert_units=False`), `anyrow w e` is `np.any(e, axis=1)` over the `w` components of the row,
  `wher c a b` is `np.where(c, a, b)`, `euler w e` is axis `w` (0 minor, 1 middle, 2 major) of
  `_unpack_euler16(e)`.
-/
namespace AbacusVerif.Units

inductive Expr where
  | raw (name : String)
  | halo (name : String)
  | const (num : Int) (den : Nat)
  | box
  | vel
  | add (a b : Expr)
  | sub (a b : Expr)
  | mul (a b : Expr)
  | div (a b : Expr)
  | pow (a : Expr) (n : Nat)
  | sqrt (a : Expr)
  | mod (a b : Expr)
  | wher (c a b : Expr)
  | anyrow (w : Nat) (a : Expr)
  | euler (which : Nat) (a : Expr)
  deriving Repr, DecidableEq, Inhabited

/-- one row of the generated loader table -/
structure Loader where
  name : String
  /-- the element of this column as an expression -/
  expr : Expr
  /-- raw columns accessed during dependency capture (access order, duplicates kept) -/
  rawDeps : List String
  /-- halo columns accessed during dependency capture (access order, duplicates kept) -/
  haloDeps : List String
  /-- `[]` for a loader returning one column; else the columns its dict can contain -/
  group : List String
  /-- dict loaders: the requested field is returned even when `halos.colnames` lacks it -/
  selfAlways : Bool
  /-- number of components (1 for scalars) declared by the dtype table -/
  width : Nat
  deriving Repr, DecidableEq, Inhabited

inductive BaseKind where
  | u | i | f
  deriving Repr, DecidableEq, Inhabited

/-- a field of one of the structured numpy dtypes `user_dt`, `clean_dt`, `clean_dt_progen`, `halo_lc_dt` -/
structure Dt where
  kind : BaseKind
  bits : Nat
  shape : List Nat
  deriving Repr, DecidableEq, Inhabited

def Dt.toString (d : Dt) : String :=
  let k := match d.kind with | .u => "u" | .i => "i" | .f => "f"
  let s := if d.shape.isEmpty then "" else "x" ++ "x".intercalate (d.shape.map (fun n => s!"{n}"))
  s!"{k}{d.bits}{s}"

instance : ToString Dt := ⟨Dt.toString⟩

end AbacusVerif.Units
