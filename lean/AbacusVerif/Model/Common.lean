/-
  Shared executable vocabulary of the models (core Lean only, no Mathlib):
  the Python/numba index rule, faults, write lists, and the small parsing
  helpers of the line protocol used by the drivers.
-/
namespace AbacusVerif

/-- What the real code can do instead of returning: an out-of-bounds access (an
`IndexError` under `NUMBA_BOUNDSCHECK=1`, silent memory corruption otherwise), a
length check that raises `ValueError`, or an explicit rejection of the request. -/
inductive Fault where
  | oob
  | badLength
  | rejected
  deriving Repr, DecidableEq, Inhabited

def Fault.toString : Fault → String
  | .oob => "oob"
  | .badLength => "bad-length"
  | .rejected => "rejected"

instance : ToString Fault := ⟨Fault.toString⟩

/-- numba/Python indexing of a length-`len` array by a signed integer: a negative
index wraps once (`i + len`), anything still outside is out of bounds. -/
def pyIndex (len : Nat) (i : Int) : Option Nat :=
  if 0 ≤ i then
    if i.toNat < len then some i.toNat else none
  else
    if 0 ≤ i + len then some (i + len).toNat else none

theorem pyIndex_lt {len : Nat} {i : Int} {k : Nat} (h : pyIndex len i = some k) : k < len := by
  unfold pyIndex at h
  split at h
  · split at h
    · cases h; assumption
    · cases h
  · split at h
    · cases h; omega
    · cases h

theorem pyIndex_nonneg {len : Nat} {i : Nat} (h : i < len) : pyIndex len (i : Int) = some i := by
  unfold pyIndex
  simp [h]

theorem pyIndex_neg_one {len : Nat} (h : 0 < len) : pyIndex len (-1) = some (len - 1) := by
  unfold pyIndex
  have : ¬ (0 : Int) ≤ -1 := by omega
  simp only [this, if_false]
  have h2 : (0 : Int) ≤ -1 + (len : Int) := by omega
  simp only [h2, if_true]
  congr 1
  omega

/-- `idx len i` as an `Except`: the access either resolves or faults. -/
def idx (len : Nat) (i : Int) : Except Fault Nat :=
  match pyIndex len i with
  | some k => .ok k
  | none => .error .oob

/-- Apply a write list (in order) to a list-backed array; the last write to a cell wins.
Indices are assumed already resolved and in range (the models resolve them through `idx`). -/
def applyWrites {α} (a : List α) (ws : List (Nat × α)) : List α :=
  ws.foldl (fun acc w => acc.set w.1 w.2) a

/-! ### line-protocol helpers -/

def parseInt? (s : String) : Option Int := s.toInt?
def parseNat? (s : String) : Option Nat := s.toNat?

def parseBool? (s : String) : Option Bool :=
  if s = "1" then some true else if s = "0" then some false else none

/-- comma separated integers; the empty string or "-" is the empty list -/
def parseIntList? (s : String) : Option (List Int) :=
  if s = "" ∨ s = "-" then some []
  else (s.splitOn ",").mapM (fun t => t.toInt?)

def parseNatList? (s : String) : Option (List Nat) :=
  if s = "" ∨ s = "-" then some []
  else (s.splitOn ",").mapM (fun t => t.toNat?)

def showList {α} [ToString α] (l : List α) : String :=
  if l.isEmpty then "-" else ",".intercalate (l.map toString)

def tokens (line : String) : List String :=
  (line.trimAscii.toString.splitOn " ").filter (· ≠ "")

/-- Generic driver loop: one request line in, one response line out. -/
partial def driverLoop (h : IO.FS.Stream) (out : IO.FS.Stream) (f : List String → String) : IO Unit := do
  let line ← h.getLine
  if line.isEmpty then
    out.flush
    return ()
  out.putStrLn (f (tokens line))
  driverLoop h out f

def driverMain (f : List String → String) : IO Unit := do
  let i ← IO.getStdin
  let o ← IO.getStdout
  driverLoop i o f

end AbacusVerif
