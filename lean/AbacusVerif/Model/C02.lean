/-
  C02 — a halo column's values do not depend on what else was requested.

  Model (core Lean only) of the non-passthrough path of
  `CompaSOHaloCatalog._setup_fields`, `_read_halo_info`, `_get_halo_fields_dependencies`,
  `_load_halo_field` and of the halo-table bookkeeping of `_compute_new_subsample_indices` /
  `_update_subsample_index_cols` / the final `rename_column('N_total', 'N')`, as the code stands now,
  generic over the loader table and the dtype tables (`Spec`; instantiated with the generated
  tables) and over abstract column values `V` with
    `app c args`  — the loader closure of column `c` applied to the values of the halo columns it reads,
    `cast k b v`  — the assignment `halos[c][:] = v` into a column of base type `k` with `b` bits,
    `uninit`      — the content of an `np.empty` column that was never written.

  The Python worklist of `_get_halo_fields_dependencies` (a `for` over a list that is appended to while
  it is iterated) processes the requested fields, then everything they appended, and so on: the
  iteration order is the concatenation of the *levels* `L0 = fields`, `L(i+1) = concat (haloDeps f | f ∈ Li)`.
  `levels` computes exactly that list of lists; a table with a dependency cycle makes Python loop
  forever and the model run out of fuel (`rejected`).
-/
import AbacusVerif.Model.Common
import AbacusVerif.Model.C05Expr
import AbacusVerif.Generated.Loaders
import AbacusVerif.Generated.Dtypes

namespace AbacusVerif.Fields
open AbacusVerif AbacusVerif.Units

structure Spec where
  loaders : List Loader
  user_dt : List (String × Dt)
  clean_dt : List (String × Dt)
  clean_dt_progen : List (String × Dt)
  halo_lc_dt : List (String × Dt)

/-- the tables of the current source -/
def Spec.generated : Spec :=
  { loaders := Loaders.table, user_dt := Dtypes.user_dt, clean_dt := Dtypes.clean_dt,
    clean_dt_progen := Dtypes.clean_dt_progen, halo_lc_dt := Dtypes.halo_lc_dt }

def names (t : List (String × Dt)) : List String := t.map (·.1)

/-- `dt[name]` of a structured dtype (`KeyError` = `none`) -/
def dtLookup (t : List (String × Dt)) (n : String) : Option Dt := (t.find? (fun p => p.1 == n)).map (·.2)

/-- the regex dispatch of `_load_halo_field` / `_get_halo_fields_dependencies`: the loader whose pattern
fullmatches (the translator checks that exactly one does for every declared column) -/
def findLoader (S : Spec) (n : String) : Option Loader := S.loaders.find? (fun l => l.name == n)

/-- the `fields` argument -/
inductive Req where
  | default            -- 'DEFAULT_FIELDS'
  | all                -- 'all'
  | list (l : List String)
  deriving Repr, DecidableEq

def appendIfMissing (l : List String) (x : String) : List String := if x ∈ l then l else l ++ [x]

/-- `pat in s` on character lists (structural, so that the kernel can evaluate it) -/
def infixChars (p : List Char) : List Char → Bool
  | [] => p.isEmpty
  | c :: cs => p.isPrefixOf (c :: cs) || infixChars p cs

/-- Python's `pat in s` for strings -/
def hasInfix (pat s : String) : Bool := infixChars pat.toList s.toList

/-- `'L2' in item` -/
def hasL2 (s : String) : Bool := hasInfix "L2" s

/-- `_setup_fields` (non-passthrough): returns `(fields, cleaned_fields)` -/
def setupFields (S : Spec) (req : Req) (cleaned : Bool) (loadAB : List String) (haloLc : Bool) :
    List String × List String :=
  let fields : List String :=
    match req with
    | .default => names S.user_dt ++ (if cleaned then names S.clean_dt else []) ++
                    (if haloLc then names S.halo_lc_dt else [])
    | .all => names S.user_dt ++ (if cleaned then names S.clean_dt_progen else []) ++
                    (if haloLc then names S.halo_lc_dt else [])
    | .list l => l
  -- minimum requirement for cleaned haloes: 'N' is dropped, 'N_total' is loaded
  let fields := if cleaned then appendIfMissing (if "N" ∈ fields then fields.erase "N" else fields) "N_total" else fields
  -- split off the cleaning columns
  let fc : List String × List String :=
    if cleaned then
      (names S.clean_dt_progen).foldl
        (fun fc item => if item ∈ fc.1 then (fc.1.erase item, fc.2 ++ [item]) else fc) (fields, [])
    else (fields, [])
  -- light cones: drop what is not recorded
  let fields := if haloLc then
      fc.1.foldl (fun f item => if !hasL2 item && !(item ∈ names S.halo_lc_dt) then f.erase item else f) fc.1
    else fc.1
  -- subsample indexing columns
  loadAB.foldl (fun fc ab =>
    let f := appendIfMissing (appendIfMissing fc.1 ("npstart" ++ ab)) ("npout" ++ ab)
    let c := if cleaned then
        appendIfMissing (appendIfMissing fc.2 ("npstart" ++ ab ++ "_merge")) ("npout" ++ ab ++ "_merge")
      else fc.2
    (f, c)) (fields, fc.2)

/-- `cols[col] = …` on an insertion-ordered dict -/
def insertCol (cols : List (String × Dt)) (n : String) (d : Dt) : List (String × Dt) :=
  if cols.any (fun p => p.1 == n) then cols.map (fun p => if p.1 == n then (n, d) else p) else cols ++ [(n, d)]

/-- `cols[c] = np.empty(N_halos, dtype=dt[c])`: `KeyError` when the dtype table has no such field -/
def allocStep (dt : Option Dt) (cols : List (String × Dt)) (c : String) : Except Fault (List (String × Dt)) :=
  match dt with
  | some d => .ok (insertCol cols c d)
  | none => .error .rejected

/-- the allocation of the requested columns with their declared dtypes (`KeyError` for an unknown name) -/
def allocate (S : Spec) (fields cleanedFields : List String) : Except Fault (List (String × Dt)) :=
  match fields.foldlM (fun cols c =>
      allocStep (if c ∈ names S.halo_lc_dt then dtLookup S.halo_lc_dt c else dtLookup S.user_dt c) cols c) [] with
  | .error e => .error e
  | .ok cols => cleanedFields.foldlM (fun cols c => allocStep (dtLookup S.clean_dt_progen c) cols c) cols

/-- `re.match('.*mainprog', f)` -/
def isMainprog (s : String) : Bool := hasInfix "mainprog" s

/-- main-progenitor columns get one entry per earlier output -/
def reshapeMainprog (nprev : Nat) (cleanedFields : List String) (cols : List (String × Dt)) : List (String × Dt) :=
  cols.map (fun p =>
    if p.1 ∈ cleanedFields && isMainprog p.1 && p.1 != "v_L2com_mainprog" && p.1 != "haloindex_mainprog"
    then (p.1, { p.2 with shape := nprev :: p.2.shape }) else p)

/-- what one level of the worklist appends: the captured halo dependencies of every field, in order -/
def nextLevel (S : Spec) : List String → Except Fault (List String)
  | [] => .ok []
  | f :: fs =>
    match findLoader S f with
    | none => .error .rejected        -- KeyError: Don't know how to load halo field
    | some ld =>
      match nextLevel S fs with
      | .ok r => .ok (ld.haloDeps ++ r)
      | .error e => .error e

def levels (S : Spec) : Nat → List String → Except Fault (List (List String))
  | 0, l => if l.isEmpty then .ok [] else .error .rejected
  | fuel + 1, l =>
    if l.isEmpty then .ok []
    else
      match nextLevel S l with
      | .error e => .error e
      | .ok next =>
        match levels S fuel next with
        | .ok rest => .ok (l :: rest)
        | .error e => .error e

/-- `list(dict.fromkeys(xs))`: unique, order of first occurrence -/
def dedup : List String → List String
  | [] => []
  | x :: xs => x :: (dedup xs).filter (fun y => y != x)

structure Deps where
  /-- `raw_dependencies` (a set in the code; here in first-occurrence order) -/
  raw : List String
  fieldsWithDeps : List String
  extra : List String
  deriving Repr

/-- `_get_halo_fields_dependencies(fields)` -/
def deps (S : Spec) (fields : List String) : Except Fault Deps :=
  match levels S (S.loaders.length + 1) fields with
  | .error e => .error e
  | .ok lv =>
    let iter := lv.flatten      -- `iter_fields` when the loop ends
    let raw := iter.flatMap (fun f => match findLoader S f with | some l => l.rawDeps | none => [])
    let fdeps := (iter.flatMap (fun f => match findLoader S f with | some l => l.haloDeps | none => [])).filter
      (fun k => !(k ∈ fields))
    .ok { raw := dedup raw, fieldsWithDeps := dedup iter.reverse, extra := dedup fdeps.reverse }

/-! ### column values -/

structure ValOps (V : Type) where
  uninit : V
  app : String → List V → V
  /-- assignment into a column of base type (kind, bits); the sub-array shape only broadcasts -/
  cast : BaseKind → Nat → V → V

/-- (a per-file view of) the halo table: its columns with their dtypes, and the content of each -/
structure Halos (V : Type) where
  cols : List (String × Dt)
  val : String → V

def Halos.has {V} (h : Halos V) (n : String) : Bool := h.cols.any (fun p => p.1 == n)

/-- `halos[n]` -/
def Halos.read {V} (h : Halos V) (n : String) : Except Fault V :=
  if h.has n then .ok (h.val n) else .error .rejected

/-- `halos[n][:] = v` -/
def Halos.write {V} (O : ValOps V) (h : Halos V) (n : String) (v : V) : Except Fault (Halos V) :=
  match dtLookup h.cols n with
  | none => .error .rejected
  | some d => .ok { h with val := fun m => if m == n then O.cast d.kind d.bits v else h.val m }

def readAll {V} (h : Halos V) : List String → Except Fault (List V)
  | [] => .ok []
  | n :: ns =>
    match h.read n, readAll h ns with
    | .ok v, .ok vs => .ok (v :: vs)
    | .error e, _ => .error e
    | _, .error e => .error e

/-- one group member written from its own loader entry -/
def writeMember {V} (S : Spec) (O : ValOps V) (rawAvail : List String) (h : Halos V) (g : String) :
    Except Fault (Halos V) :=
  match findLoader S g with
  | none => .error .rejected
  | some lg =>
    if !(lg.rawDeps.all (fun r => r ∈ rawAvail)) then .error .rejected
    else
      match readAll h lg.haloDeps with
      | .error e => .error e
      | .ok args => h.write O g (O.app g args)

def writeMembers {V} (S : Spec) (O : ValOps V) (rawAvail : List String) : Halos V → List String → Except Fault (Halos V)
  | h, [] => .ok h
  | h, g :: gs =>
    match writeMember S O rawAvail h g with
    | .error e => .error e
    | .ok h' => writeMembers S O rawAvail h' gs

/-- `_load_halo_field(halos, rawhalos, field)`: returns the table and `loaded_fields` -/
def loadField {V} (S : Spec) (O : ValOps V) (rawAvail : List String) (h : Halos V) (field : String) :
    Except Fault (Halos V × List String) :=
  match findLoader S field with
  | none => .error .rejected
  | some ld =>
    if ld.group.isEmpty then
      match writeMember S O rawAvail h field with
      | .error e => .error e
      | .ok h' => .ok (h', [field])
    else
      if !(ld.rawDeps.all (fun r => r ∈ rawAvail)) then .error .rejected
      else
        -- the dict holds the group members that are columns of `halos` (and the field itself for the
        -- loaders that always return it)
        let members := ld.group.filter (fun g => h.has g || (ld.selfAlways && g == field))
        if !(field ∈ members) then .error .rejected      -- `assert field in column`
        else
          match writeMembers S O rawAvail h members with
          | .error e => .error e
          | .ok h' => .ok (h', members)

/-- the loop over `fields_with_deps` -/
def loadAll {V} (S : Spec) (O : ValOps V) (rawAvail : List String) :
    List String → Halos V × List String → Except Fault (Halos V × List String)
  | [], st => .ok st
  | f :: fs, st =>
    if f ∈ st.2 then loadAll S O rawAvail fs st
    else
      match loadField S O rawAvail st.1 f with
      | .error e => .error e
      | .ok (h', l) => loadAll S O rawAvail fs (h', st.2 ++ l)

/-- the temporary columns of one file: `np.empty(len(rawhalos), dtype=src[field])` -/
def extraCols (S : Spec) : List String → Except Fault (List (String × Dt))
  | [] => .ok []
  | f :: fs =>
    match dtLookup (if f ∈ names S.clean_dt_progen then S.clean_dt_progen else S.user_dt) f, extraCols S fs with
    | some d, .ok r => .ok ((f, d) :: r)
    | none, _ => .error .rejected
    | _, .error e => .error e

structure Loaded (V : Type) where
  fields : List String
  cleanedFields : List String
  deps : Deps
  table : Halos V

/-- `_read_halo_info` for one halo_info file whose raw columns are `rawCols` (and `cleanCols` in the
cleaned_halo_info file); `cleaned` is the local flag (false for light cones) -/
def readHaloInfo {V} (S : Spec) (O : ValOps V) (nprev : Nat) (rawCols cleanCols : List String)
    (req : Req) (cleaned : Bool) (loadAB : List String) (haloLc : Bool) : Except Fault (Loaded V) :=
  let fc := setupFields S req cleaned loadAB haloLc
  match allocate S fc.1 fc.2 with
  | .error e => .error e
  | .ok cols0 =>
    match deps S (cols0.map (·.1)) with
    | .error e => .error e
    | .ok d =>
      let cols := reshapeMainprog nprev fc.2 cols0
      -- raw IO: `src = caf if field in clean_dt_progen.names else af`
      if !(d.raw.all (fun r => if r ∈ names S.clean_dt_progen then cleaned && r ∈ cleanCols else r ∈ rawCols))
      then .error .rejected
      else
        match extraCols S d.extra with
        | .error e => .error e
        | .ok ex =>
          -- `del af, caf, src` at the end of the per-file loop: `src` is only bound by the loops over
          -- `raw_dependencies` and `extra_fields`; with nothing to read it raises UnboundLocalError
          if d.raw.isEmpty && d.extra.isEmpty then .error .rejected else
          let h0 : Halos V := { cols := cols ++ ex, val := fun _ => O.uninit }
          match loadAll S O d.raw d.fieldsWithDeps (h0, []) with
          | .error e => .error e
          | .ok (h, _) =>
            .ok { fields := fc.1, cleanedFields := fc.2, deps := d, table := { cols := cols, val := h.val } }

def removeCol {V} (h : Halos V) (n : String) : Except Fault (Halos V) :=
  if h.has n then .ok { h with cols := h.cols.filter (fun p => p.1 != n) } else .error .rejected

/-- the halo-table side of `_compute_new_subsample_indices` + `_update_subsample_index_cols` for one of A/B -/
def reindexOne {V} (O : ValOps V) (cleaned : Bool) (h : Halos V) (ab : String) : Except Fault (Halos V) := do
  let _ ← h.read ("npout" ++ ab)
  let _ ← if cleaned then h.read ("npout" ++ ab ++ "_merge") else .ok O.uninit
  let h ← removeCol h ("npstart" ++ ab)
  let h ← removeCol h ("npout" ++ ab)
  let h ← if cleaned then do
      let h ← removeCol h ("npstart" ++ ab ++ "_merge")
      removeCol h ("npout" ++ ab ++ "_merge")
    else .ok h
  let s := "npstart" ++ ab
  let o := "npout" ++ ab
  .ok { cols := h.cols ++ [(s, ⟨.u, 64, []⟩), (o, ⟨.u, 32, []⟩)],
        val := fun m => if m == s then O.app ("new:" ++ s) [] else if m == o then O.app ("new:" ++ o) [] else h.val m }

/-- `_compute_new_subsample_indices` / `_load_subsamples` / `_update_subsample_index_cols` as far as the halo
table is concerned (light cones load their subsamples without touching the halo table) -/
def reindexAll {V} (O : ValOps V) (cleaned : Bool) (loadAB : List String) (haloLc : Bool) (h : Halos V) :
    Except Fault (Halos V) :=
  if haloLc || loadAB.isEmpty then .ok h
  else
    -- `cleaned_mask = self.halos['N_total'] == 0`
    match (if cleaned then h.read "N_total" else .ok O.uninit) with
    | .error e => .error e
    | .ok _ => loadAB.foldlM (reindexOne O cleaned) h

/-- `if cleaned and not passthrough: self.halos.rename_column('N_total', 'N')` -/
def renameN {V} (cleaned : Bool) (h : Halos V) : Except Fault (Halos V) :=
  if cleaned then
    if !h.has "N_total" || h.has "N" then .error .rejected
    else .ok { cols := h.cols.map (fun p => if p.1 == "N_total" then ("N", p.2) else p),
               val := fun m => if m == "N" then h.val "N_total" else h.val m }
  else .ok h

/-- what `__init__` does to `self.halos` after `_read_halo_info` -/
def finish {V} (O : ValOps V) (cleaned : Bool) (loadAB : List String) (haloLc : Bool) (h : Halos V) :
    Except Fault (Halos V) :=
  match reindexAll O cleaned loadAB haloLc h with
  | .error e => .error e
  | .ok h1 => renameN cleaned h1

/-- the whole constructor, as far as `self.halos` is concerned -/
def construct {V} (S : Spec) (O : ValOps V) (nprev : Nat) (rawCols cleanCols : List String)
    (req : Req) (cleanedArg : Bool) (loadAB : List String) (haloLc : Bool) : Except Fault (Loaded V) :=
  let cleaned := cleanedArg && !haloLc
  let loadAB := if haloLc && !loadAB.isEmpty then ["A"] else loadAB
  match readHaloInfo S O nprev rawCols cleanCols req cleaned loadAB haloLc with
  | .error e => .error e
  | .ok r =>
    match finish O cleaned loadAB haloLc r.table with
    | .error e => .error e
    | .ok t => .ok { r with table := t }

/-! ### driver -/

/-- column values as printable terms: `<f32>sigmavMid_com(<f32>sigmavMaj_com(),<f32>sigmavMin_com())` -/
def strOps : ValOps String :=
  { uninit := "?"
    app := fun c args => c ++ "(" ++ ",".intercalate args ++ ")"
    cast := fun k b v => "<" ++ toString (Dt.mk k b []) ++ ">" ++ v }

def parseNames (s : String) : List String := if s = "-" ∨ s = "" then [] else s.splitOn ","

def parseReq (s : String) : Option Req :=
  if s = "default" then some .default
  else if s = "all" then some .all
  else if s.startsWith "list:" then some (.list (parseNames (s.drop 5).toString))
  else none

/-- request `load <req> <cleaned> <AB> <halo_lc> <nprev> <rawcols> <cleancols>` →
`ok fields=… cleaned=… fwd=… extra=… raw=… cols=name:dtype:term;…` | `err rejected` -/
def handle (args : List String) : String :=
  match args with
  | ["load", req, cleaned, ab, lc, nprev, rawc, cleanc] =>
    match parseReq req, parseBool? cleaned, parseBool? lc, parseNat? nprev with
    | some req, some cleaned, some lc, some nprev =>
      match construct Spec.generated strOps nprev (parseNames rawc) (parseNames cleanc) req cleaned (parseNames ab) lc with
      | .error e => s!"err {e}"
      | .ok r =>
        let cols := r.table.cols.map (fun p => s!"{p.1}:{p.2}:{r.table.val p.1}")
        s!"ok fields={showList r.fields} cleaned={showList r.cleanedFields} fwd={showList r.deps.fieldsWithDeps} extra={showList r.deps.extra} raw={showList r.deps.raw} cols={if cols.isEmpty then "-" else ";".intercalate cols}"
    | _, _, _, _ => "bad-op"
  | _ => "bad-op"

end AbacusVerif.Fields
