/-
  C05 — halo statistics are unpacked into consistent physical units.

  Model (core Lean only): the evaluator of the loader expression language (`Model/C05Expr.lean`) over any
  type with the field operations, the degree checker `homog` (degree of an expression in
  `BoxSize` and `VelZSpace_to_kms`), and `denote`: the value of a *loaded* column, i.e. its
  expression evaluated with every halo-column dependency itself loaded first (what
  `_read_halo_info` does through the temporary columns).  The loader table itself is
  `Generated/Loaders.lean`, regenerated from /repo on every run.

  `sqrt`, Python's `%`, "is non-zero" and the Euler16 decoder are parameters (`Prim`): the theorems
  instantiate them with `Real.sqrt` etc., the driver with exact rational stand-ins.
-/
import AbacusVerif.Model.Num
import AbacusVerif.Model.C05Expr
import AbacusVerif.Generated.Loaders
import AbacusVerif.Generated.Dtypes

namespace AbacusVerif.Units

structure Prim (α : Type) where
  sqrt : α → α
  mod : α → α → α
  /-- truth value of an array element (`np.where` condition, `np.any`) -/
  nz : α → Bool
  /-- `euler which component code` -/
  euler : Nat → Nat → α → α

section Eval
variable {α : Type} [Add α] [Sub α] [Mul α] [Div α] [NatCast α] [IntCast α]

/-- `x ** n` for a literal natural exponent -/
def npow (x : α) : Nat → α
  | 0 => ((1 : Nat) : α)
  | n + 1 => npow x n * x

/-- the value of one element (component `k` of one halo) of an expression.
`r n k` / `h n k`: component `k` of raw / loaded halo column `n` for this halo. -/
def eval (P : Prim α) (box vel : α) (r h : String → Nat → α) (k : Nat) : Expr → α
  | .raw n => r n k
  | .halo n => h n k
  | .const a b => (a : α) / (b : α)
  | .box => box
  | .vel => vel
  | .add a b => eval P box vel r h k a + eval P box vel r h k b
  | .sub a b => eval P box vel r h k a - eval P box vel r h k b
  | .mul a b => eval P box vel r h k a * eval P box vel r h k b
  | .div a b => eval P box vel r h k a / eval P box vel r h k b
  | .pow a n => npow (eval P box vel r h k a) n
  | .sqrt a => P.sqrt (eval P box vel r h k a)
  | .mod a b => P.mod (eval P box vel r h k a) (eval P box vel r h k b)
  | .wher c a b => if P.nz (eval P box vel r h k c) then eval P box vel r h k a else eval P box vel r h k b
  | .anyrow w a => if (List.range w).any (fun j => P.nz (eval P box vel r h j a)) then ((1 : Nat) : α) else ((0 : Nat) : α)
  | .euler w a => P.euler w k (eval P box vel r h k a)

end Eval

/-- `(a, b)`: the expression is homogeneous of degree `a` in `BoxSize` and `b` in `VelZSpace_to_kms`.
`hd n` is the degree of the loaded halo column `n`. -/
def homog (hd : String → Option (Int × Int)) : Expr → Option (Int × Int)
  | .raw _ => some (0, 0)
  | .halo n => hd n
  | .const _ _ => some (0, 0)
  | .box => some (1, 0)
  | .vel => some (0, 1)
  | .add a b | .sub a b =>
    match homog hd a, homog hd b with
    | some x, some y => if x = y then some x else none
    | _, _ => none
  | .mul a b =>
    match homog hd a, homog hd b with
    | some x, some y => some (x.1 + y.1, x.2 + y.2)
    | _, _ => none
  | .div a b =>
    match homog hd a, homog hd b with
    | some x, some y => some (x.1 - y.1, x.2 - y.2)
    | _, _ => none
  | .pow a n =>
    match homog hd a with
    | some x => some (x.1 * n, x.2 * n)
    | none => none
  | .sqrt a =>
    match homog hd a with
    | some x => if x.1 % 2 = 0 ∧ x.2 % 2 = 0 then some (x.1 / 2, x.2 / 2) else none
    | none => none
  | .mod a b =>
    match homog hd a, homog hd b with
    | some x, some y => if x = (0, 0) ∧ y = (0, 0) then some (0, 0) else none
    | _, _ => none
  | .wher c a b =>
    match homog hd c, homog hd a, homog hd b with
    | some _, some x, some y => if x = y then some x else none
    | _, _, _ => none
  | .anyrow _ a =>
    match homog hd a with
    | some _ => some (0, 0)
    | none => none
  | .euler _ a =>
    match homog hd a with
    | some x => if x = (0, 0) then some (0, 0) else none
    | none => none

/-! ### loaded columns -/

def lookup (tbl : List Loader) (n : String) : Option Loader := tbl.find? (fun l => l.name == n)

/-- the halo columns an expression reads -/
def haloRefs : Expr → List String
  | .halo n => [n]
  | .raw _ | .const _ _ | .box | .vel => []
  | .add a b | .sub a b | .mul a b | .div a b | .mod a b => haloRefs a ++ haloRefs b
  | .pow a _ | .sqrt a | .anyrow _ a | .euler _ a => haloRefs a
  | .wher c a b => haloRefs c ++ haloRefs a ++ haloRefs b

def rawRefs : Expr → List String
  | .raw n => [n]
  | .halo _ | .const _ _ | .box | .vel => []
  | .add a b | .sub a b | .mul a b | .div a b | .mod a b => rawRefs a ++ rawRefs b
  | .pow a _ | .sqrt a | .anyrow _ a | .euler _ a => rawRefs a
  | .wher c a b => rawRefs c ++ rawRefs a ++ rawRefs b

/-- every halo column that `n` (transitively) reads is in the table and resolves within `fuel` levels -/
def resolves (tbl : List Loader) : Nat → String → Bool
  | 0, _ => false
  | fuel + 1, n =>
    match lookup tbl n with
    | none => false
    | some l => (haloRefs l.expr).all (resolves tbl fuel)

section Denote
variable {α : Type} [Add α] [Sub α] [Mul α] [Div α] [NatCast α] [IntCast α]

/-- the loaded value of column `n` (component `k`): its expression over the raw columns and the
loaded values of the halo columns it reads.  Meaningful when `resolves tbl fuel n`; `junk`
otherwise (the theorems assume `resolves`, the driver rejects). -/
def denote (P : Prim α) (tbl : List Loader) (box vel : α) (r : String → Nat → α) (junk : α) :
    Nat → String → Nat → α
  | 0, _, _ => junk
  | fuel + 1, n, k =>
    match lookup tbl n with
    | none => junk
    | some l => eval P box vel r (denote P tbl box vel r junk fuel) k l.expr

end Denote

/-! ### driver -/

/-- exact rational square root, if there is one -/
def natSqrt? (n : Nat) : Option Nat :=
  let s := n.sqrt
  if s * s = n then some s else none

def ratSqrt? (q : Rat) : Option Rat :=
  if q < 0 then none
  else match natSqrt? q.num.toNat, natSqrt? q.den with
    | some a, some b => some (mkRat a b)
    | _, _ => none

/-- Python `%` on exact values: `a - b * floor(a / b)` -/
def pyMod (a b : Rat) : Rat := a - b * ((a / b).floor : Rat)

/-- driver instance: `sqrt` and `euler` are not evaluated inside an expression (the driver strips them
at top level and reports anything deeper as unsupported) -/
def ratPrim : Prim Rat :=
  { sqrt := fun x => x, mod := pyMod, nz := fun x => x != 0, euler := fun _ _ x => x }

/-- does the expression contain `sqrt`/`euler` (below the top)? -/
def hasOpaque : Expr → Bool
  | .sqrt _ | .euler _ _ => true
  | .raw _ | .halo _ | .const _ _ | .box | .vel => false
  | .add a b | .sub a b | .mul a b | .div a b | .mod a b => hasOpaque a || hasOpaque b
  | .pow a _ | .anyrow _ a => hasOpaque a
  | .wher c a b => hasOpaque c || hasOpaque a || hasOpaque b

/-- division by zero anywhere?  (`Rat` totalises `x / 0 = 0`; numpy gives inf/nan: the driver rejects) -/
def divZero (box vel : Rat) (r h : String → Nat → Rat) (k : Nat) : Expr → Bool
  | .div a b => divZero box vel r h k a || divZero box vel r h k b || eval ratPrim box vel r h k b == 0
  | .mod a b => divZero box vel r h k a || divZero box vel r h k b || eval ratPrim box vel r h k b == 0
  | .const _ d => d == 0
  | .raw _ | .halo _ | .box | .vel => false
  | .add a b | .sub a b | .mul a b => divZero box vel r h k a || divZero box vel r h k b
  | .pow a _ | .sqrt a | .euler _ a => divZero box vel r h k a
  | .anyrow w a => (List.range w).any (fun j => divZero box vel r h j a)
  | .wher c a b => divZero box vel r h k c || divZero box vel r h k a || divZero box vel r h k b

/-- `name=v0|v1|v2;name=v` → environment; a column given with one component broadcasts -/
def parseEnv (s : String) : Option (List (String × List Rat)) :=
  if s = "-" ∨ s = "" then some []
  else (s.splitOn ";").mapM (fun item =>
    match item.splitOn "=" with
    | [n, vs] => ((vs.splitOn "|").mapM parseRat?).map (fun l => (n, l))
    | _ => none)

def envGet (env : List (String × List Rat)) (n : String) (k : Nat) : Option Rat :=
  match env.find? (fun p => p.1 == n) with
  | none => none
  | some (_, [v]) => some v
  | some (_, vs) => vs[k]?

def showDeg : Option (Int × Int) → String
  | none => "none"
  | some (a, b) => s!"{a},{b}"

/-- all names an evaluation needs are bound, for all components it touches -/
def bound (env : List (String × List Rat)) (names : List String) (ks : List Nat) : Bool :=
  names.all (fun n => ks.all (fun k => (envGet env n k).isSome))

def compsOf : Expr → Nat → List Nat
  | .anyrow w a, k => (List.range w) ++ compsOf a k
  | .add a b, k | .sub a b, k | .mul a b, k | .div a b, k | .mod a b, k => compsOf a k ++ compsOf b k
  | .pow a _, k | .sqrt a, k | .euler _ a, k => compsOf a k
  | .wher c a b, k => compsOf c k ++ compsOf a k ++ compsOf b k
  | _, k => [k]

/-- requests
* `eval <col> <k> <box> <vel> <rawenv> <haloenv>` → `ok <v>` | `ok sqrt <radicand>` | `ok euler <which> <code>` | `err …`
  (the column's own expression with the given halo values: what one loader call computes)
* `loaded <col> <k> <box> <vel> <rawenv>` → same, with halo dependencies loaded recursively (`denote`);
  a dependency under a square root is given as `… sqrt` only at top level, so dependencies that are
  themselves roots are rejected as `err opaque-dependency`
* `homog <col>` → degree of the column's expression given the degrees of the halo columns it reads
  computed recursively (no spec involved) | `none`
* `info <col>` → `rawDeps|haloDeps|group|selfAlways|width`
* `columns` → all column names of the generated table -/
def handle (args : List String) : String :=
  let tbl := Loaders.table
  match args with
  | ["columns"] => showList (tbl.map (·.name))
  | ["info", c] =>
    match lookup tbl c with
    | none => "err unknown-column"
    | some l => s!"ok {showList l.rawDeps} {showList l.haloDeps} {showList l.group} {l.selfAlways} {l.width}"
  | ["homog", c] =>
    let rec deg (fuel : Nat) (n : String) : Option (Int × Int) :=
      match fuel with
      | 0 => none
      | f + 1 =>
        match lookup tbl n with
        | none => none
        | some l => homog (deg f) l.expr
    s!"ok {showDeg (deg 8 c)}"
  | ["eval", c, k, box, vel, renv, henv] =>
    match lookup tbl c, parseNat? k, parseRat? box, parseRat? vel, parseEnv renv, parseEnv henv with
    | some l, some k, some box, some vel, some renv, some henv =>
      let top (e : Expr) : String :=
        if hasOpaque e then "err unsupported-inner-sqrt-or-euler"
        else if !(bound renv (rawRefs e) (compsOf e k) && bound henv (haloRefs e) (compsOf e k)) then "err unbound"
        else
          let r := fun n j => (envGet renv n j).getD 0
          let h := fun n j => (envGet henv n j).getD 0
          if divZero box vel r h k e then "err div-zero"
          else showRat (eval ratPrim box vel r h k e)
      match l.expr with
      | .sqrt e => let s := top e; if s.startsWith "err" then s else s!"ok sqrt {s}"
      | .euler w e => let s := top e; if s.startsWith "err" then s else s!"ok euler {w} {s}"
      | e => let s := top e; if s.startsWith "err" then s else s!"ok {s}"
    | none, _, _, _, _, _ => "err unknown-column"
    | _, _, _, _, _, _ => "bad-op"
  | ["loaded", c, k, box, vel, renv] =>
    match lookup tbl c, parseNat? k, parseRat? box, parseRat? vel, parseEnv renv with
    | some l, some k, some box, some vel, some renv =>
      if !resolves tbl 8 c then "err unresolved-dependency"
      else
        let depsOpaque := (haloRefs l.expr).any (fun d =>
          match lookup tbl d with
          | some ld => hasOpaque ld.expr || !(haloRefs ld.expr).isEmpty
          | none => true)
        if depsOpaque then "err opaque-dependency"
        else
          let r := fun n j => (envGet renv n j).getD 0
          let h := denote ratPrim tbl box vel r 0 7
          let top (e : Expr) : String :=
            if hasOpaque e then "err unsupported-inner-sqrt-or-euler"
            else
              let needed := rawRefs e ++ (haloRefs e).flatMap (fun d =>
                match lookup tbl d with | some ld => rawRefs ld.expr | none => [])
              if !(bound renv needed (compsOf e k)) then "err unbound"
              else if divZero box vel r h k e ||
                  (haloRefs e).any (fun d => match lookup tbl d with
                    | some ld => divZero box vel r h k ld.expr | none => true) then "err div-zero"
              else showRat (eval ratPrim box vel r h k e)
          match l.expr with
          | .sqrt e => let s := top e; if s.startsWith "err" then s else s!"ok sqrt {s}"
          | .euler w e => let s := top e; if s.startsWith "err" then s else s!"ok euler {w} {s}"
          | e => let s := top e; if s.startsWith "err" then s else s!"ok {s}"
    | none, _, _, _, _ => "err unknown-column"
    | _, _, _, _, _ => "bad-op"
  | _ => "bad-op"

end AbacusVerif.Units
