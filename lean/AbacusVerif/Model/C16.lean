/-
  Model of `abacusnbody.data.read_abacus.read_asdf` / `_resolve_columns` (abacusnbody/data/read_abacus.py):
  which raw column is read, which output columns the table gets (and in which order), how many rows, which
  warning is issued and whether the header gains `SubsampleFraction`.  Column *values* are not part of this
  model: they are the outputs of `bitpacked.unpack_rvint` / `unpack_pids` (C04) and `pack9.unpack_pack9` (C15)
  on the raw column, and the harness compares them with direct calls of those functions.

  ```python
  if colname is None:
      for cn in ['rvint', 'pack9', 'packedpid', 'pid']:
          if cn in af.tree[data_key]:
              if colname is not None: raise ValueError('More than one key ...')
              colname = cn
      if colname is None: raise ValueError('Could not find any of ...')
  load = _resolve_columns(colname, load, kwargs)
  header = af.tree[header_key]; data = af.tree[data_key][colname]        # KeyError if absent
  Nmax = len(data)
  if header.get('OutputType') == 'LightCone' and header['SimSet'] == 'AbacusSummit':
      header['SubsampleFraction'] = header['ParticleSubsampleA'] + header['ParticleSubsampleB']
  table = Table(meta=header)
  if 'pos' in load: table.add_column(empty((Nmax,3)), name='pos')
  if 'vel' in load: table.add_column(empty((Nmax,3)), name='vel')
  if 'aux' in load: table.add_column(data, name='aux')
  if colname == 'rvint':   npos, nvel = unpack_rvint(data, box, posout=table['pos'] or False, velout=...); nread = max(npos, nvel)
  elif colname == 'pack9': npos, nvel = unpack_pack9(...);                                             nread = max(npos, nvel)
  elif 'pid' in colname:   cols = unpack_pids(data, ..., pid='pid' in load, lagr_pos=..., tagged=..., density=..., lagr_idx=...)
                           for n, col in cols.items(): table.add_column(col, name=n); nread = len(data)
  table = table[:nread]                                                  # UnboundLocalError for any other colname

  def _resolve_columns(colname, load, kwargs):
      load_pos = kwargs.pop('load_pos', None); load_vel = kwargs.pop('load_vel', None)
      if load_pos is not None or load_vel is not None:
          if load is None:
              warn(FutureWarning); load = []
              if load_pos or (load_pos is None and load_vel is False): load += ['pos']
              if load_vel or (load_vel is None and load_pos is False): load += ['vel']
          else: warn('Ignoring deprecated parameters.')
      if load is None:
          load = []
          if colname in ('pack9', 'rvint'): load += ['pos']; load += ['vel']
          if 'pid' in colname: load += ['pid']
      return tuple(load)
  ```
-/
import AbacusVerif.Model.Common

namespace AbacusVerif.ReadAsdf
open AbacusVerif

/-- names that may appear in `load`; `other` is any name the function does not know (silently ignored) -/
inductive Col where
  | pos | vel | pid | lagr_pos | tagged | density | lagr_idx | aux | other
  deriving DecidableEq, Repr

/-- the raw column names that are auto-detected, in the order of the detection loop -/
inductive RawKey where
  | rvint | pack9 | packedpid | pid
  deriving DecidableEq, Repr

def knownKeys : List RawKey := [.rvint, .pack9, .packedpid, .pid]

/-- a raw column name: one of the four known ones, or any other string, of which only `'pid' in colname` matters -/
inductive ColName where
  | known (k : RawKey)
  | other (hasPid : Bool)
  deriving DecidableEq, Repr

/-- `'pid' in colname` -/
def ColName.hasPid : ColName → Bool
  | .known .packedpid => true
  | .known .pid => true
  | .known _ => false
  | .other b => b

/-- `colname in ('pack9', 'rvint')` -/
def ColName.isRV : ColName → Bool
  | .known .rvint => true
  | .known .pack9 => true
  | _ => false

inductive Err where
  | moreThanOne      -- ValueError "More than one key of ..."
  | noneFound        -- ValueError "Could not find any of ..."
  | keyError         -- the named column is not in the file
  | unboundNread     -- UnboundLocalError: no decoding branch for this colname
  | decode (f : Fault)  -- raised inside unpack_rvint / unpack_pack9 / unpack_pids (only in the value model, Model/C16Values.lean)
  deriving DecidableEq, Repr

def Err.toString : Err → String
  | .moreThanOne => "more-than-one"
  | .noneFound => "none-found"
  | .keyError => "key-error"
  | .unboundNread => "unbound-nread"
  | .decode f => s!"decode-{f}"

inductive Warn where
  | future     -- FutureWarning: load_pos / load_vel are deprecated
  | ignored    -- UserWarning: load and deprecated flags given, flags ignored
  deriving DecidableEq, Repr

/-- the detection loop `for cn in _colnames`, carrying `colname` -/
def detectLoop (present : RawKey → Bool) : List RawKey → Option RawKey → Except Err (Option RawKey)
  | [], cur => .ok cur
  | cn :: rest, cur =>
    if present cn then
      match cur with
      | some _ => .error .moreThanOne
      | none => detectLoop present rest (some cn)
    else detectLoop present rest cur

def detect (present : RawKey → Bool) (colname : Option ColName) : Except Err ColName :=
  match colname with
  | some c => .ok c
  | none =>
    match detectLoop present knownKeys none with
    | .error e => .error e
    | .ok none => .error .noneFound
    | .ok (some k) => .ok (.known k)

/-- `_resolve_columns(colname, load, kwargs)`: the tuple of names to load and the warning issued -/
def resolve (cn : ColName) (load : Option (List Col)) (lp lv : Option Bool) : List Col × Option Warn :=
  let (load, warn) : Option (List Col) × Option Warn :=
    if lp.isSome || lv.isSome then
      match load with
      | none =>
        let l0 : List Col := []
        let l1 := if lp == some true || (lp == none && lv == some false) then l0 ++ [.pos] else l0
        let l2 := if lv == some true || (lv == none && lp == some false) then l1 ++ [.vel] else l1
        (some l2, some .future)
      | some l => (some l, some .ignored)
    else (load, none)
  match load with
  | some l => (l, warn)
  | none =>
    let l0 : List Col := []
    let l1 := if cn.isRV then l0 ++ [.pos] ++ [.vel] else l0
    let l2 := if cn.hasPid then l1 ++ [.pid] else l1
    (l2, warn)

/-- the table as observed: column names in order and number of rows -/
structure Table where
  cols : List Col
  rows : Nat
  deriving DecidableEq, Repr

/-- order in which `unpack_pids` builds its result dictionary -/
def pidOrder : List Col := [.pid, .lagr_pos, .lagr_idx, .tagged, .density]

/-- table construction and truncation.  `nmax = len(data)`; `npart` = what `unpack_pack9` counts (the non-header
records, C15 `unpack_count`).  A table without columns has no rows whatever slice is taken. -/
def assemble (cn : ColName) (load : List Col) (nmax npart : Nat) : Except Err Table :=
  let c0 : List Col := []
  let c1 := if Col.pos ∈ load then c0 ++ [.pos] else c0
  let c2 := if Col.vel ∈ load then c1 ++ [.vel] else c1
  let c3 := if Col.aux ∈ load then c2 ++ [.aux] else c2
  let finish (cols : List Col) (nread : Nat) : Except Err Table :=
    .ok { cols := cols, rows := if cols.isEmpty then 0 else nread }
  match cn with
  | .known .rvint =>
    let npos := if Col.pos ∈ load then nmax else 0      -- `N` for a supplied output, `0` for `False`
    let nvel := if Col.vel ∈ load then nmax else 0
    finish c3 (max npos nvel)
  | .known .pack9 =>
    let npos := if Col.pos ∈ load then npart else 0
    let nvel := if Col.vel ∈ load then npart else 0
    finish c3 (max npos nvel)
  | _ =>
    if cn.hasPid then
      finish (c3 ++ pidOrder.filter (· ∈ load)) nmax
    else .error .unboundNread

structure Outcome where
  colname : ColName
  table : Table
  warn : Option Warn
  addsSubsample : Bool      -- `SubsampleFraction` added to the header / table meta
  deriving DecidableEq, Repr

/-- the file as far as this function looks at it -/
structure FileDesc where
  present : RawKey → Bool        -- which known keys are in `tree[data_key]`
  otherPresent : Bool            -- an explicitly named non-standard column exists
  len : ColName → Nat            -- `len(tree[data_key][colname])`
  npart : Nat                    -- particle (non-header) records of the pack9 column, if any
  lightcone : Bool               -- `header.get('OutputType') == 'LightCone'`
  summit : Bool                  -- `header['SimSet'] == 'AbacusSummit'`

def FileDesc.has (f : FileDesc) : ColName → Bool
  | .known k => f.present k
  | .other _ => f.otherPresent

def readAsdf (f : FileDesc) (colname : Option ColName) (load : Option (List Col)) (lp lv : Option Bool) :
    Except Err Outcome := do
  let cn ← detect f.present colname
  let (l, warn) := resolve cn load lp lv
  if !f.has cn then .error .keyError
  else do
    let t ← assemble cn l (f.len cn) f.npart
    .ok { colname := cn, table := t, warn := warn, addsSubsample := f.lightcone && f.summit }

/-! ### driver -/

def Col.name : Col → String
  | .pos => "pos" | .vel => "vel" | .pid => "pid" | .lagr_pos => "lagr_pos" | .tagged => "tagged"
  | .density => "density" | .lagr_idx => "lagr_idx" | .aux => "aux" | .other => "other"

def parseCol (s : String) : Col :=
  if s = "pos" then .pos else if s = "vel" then .vel else if s = "pid" then .pid
  else if s = "lagr_pos" then .lagr_pos else if s = "tagged" then .tagged else if s = "density" then .density
  else if s = "lagr_idx" then .lagr_idx else if s = "aux" then .aux else .other

def RawKey.name : RawKey → String
  | .rvint => "rvint" | .pack9 => "pack9" | .packedpid => "packedpid" | .pid => "pid"

def ColName.show : ColName → String
  | .known k => k.name
  | .other b => if b then "other-pid" else "other"

/-- explicit colname: a known key, or `other:<0|1>` (`1`: the name contains "pid"), `-` for None -/
def parseColName? (s : String) : Option (Option ColName) :=
  if s = "-" then some none
  else if s = "rvint" then some (some (.known .rvint))
  else if s = "pack9" then some (some (.known .pack9))
  else if s = "packedpid" then some (some (.known .packedpid))
  else if s = "pid" then some (some (.known .pid))
  else if s = "other:1" then some (some (.other true))
  else if s = "other:0" then some (some (.other false))
  else none

/-- `N` None, `T` True, `F` False -/
def parseTri? (s : String) : Option (Option Bool) :=
  if s = "N" then some none else if s = "T" then some (some true) else if s = "F" then some (some false) else none

/-- `-` None, `[]` the empty list, else comma separated names -/
def parseLoad (s : String) : Option (List Col) :=
  if s = "-" then none else if s = "[]" then some [] else some ((s.splitOn ",").map parseCol)

def showWarn : Option Warn → String
  | none => "none" | some .future => "future" | some .ignored => "ignored"

/-- request: `read <present: 4 bits rvint,pack9,packedpid,pid> <otherPresent 0|1> <lens: 4 numbers + other, comma separated>
<npart> <lightcone 0|1> <summit 0|1> <colname> <load> <load_pos> <load_vel>` -/
def handle (args : List String) : String :=
  match args with
  | ["read", pres, oth, lens, npart, lc, sm, cn, load, lp, lv] =>
    match pres.toList.map (· == '1'), parseBool? oth, parseNatList? lens, parseNat? npart, parseBool? lc, parseBool? sm,
          parseColName? cn, parseTri? lp, parseTri? lv with
    | [a, b, c, d], some oth, some [n0, n1, n2, n3, n4], some npart, some lc, some sm, some cn, some lp, some lv =>
      let f : FileDesc :=
        { present := fun k => match k with | .rvint => a | .pack9 => b | .packedpid => c | .pid => d
          otherPresent := oth
          len := fun c => match c with
            | .known .rvint => n0 | .known .pack9 => n1 | .known .packedpid => n2 | .known .pid => n3 | .other _ => n4
          npart := npart, lightcone := lc, summit := sm }
      match readAsdf f cn (parseLoad load) lp lv with
      | .error e => s!"err {e.toString}"
      | .ok o =>
        s!"ok colname={o.colname.show} cols={showList (o.table.cols.map Col.name)} rows={o.table.rows} warn={showWarn o.warn} subsample={if o.addsSubsample then 1 else 0}"
    | _, _, _, _, _, _, _, _, _ => "bad-op"
  | _ => "bad-op"

end AbacusVerif.ReadAsdf
