/-
  Model of `abacusnbody/data/pack9.py` (`unpack_pack9`, `_unpack_pack9`, `_expand_to_short`),
  statement by statement, over exact rationals.

  ```python
  def _expand_to_short(c, s):
      s[0] = (c[1] & 0x0F) | (c[0] << 4)
      s[1] = ((c[1] & 0xF0) << 4) | c[2]
      s[2] = (c[4] & 0x0F) | (c[3] << 4)
      s[3] = ((c[4] & 0xF0) << 4) | c[5]
      s[4] = (c[7] & 0x0F) | (c[6] << 4)
      s[5] = ((c[7] & 0xF0) << 4) | c[8]
      for i in range(6): s[i] -= 2048

  def _unpack_pack9(data, boxsize, velzspace_to_kms, posout, velout, dtype):
      w = 0; N = len(data); halfbox = boxsize / 2
      csize = vscale = cellx = celly = cellz = pscale = nan
      for i in range(N):
          p9 = data[i]; _expand_to_short(p9, sh)
          if p9[0] == 0xFF:                       # header
              invcpd = 1.0 / (sh[1] + 2000)       # ZeroDivisionError in nopython mode when the field is 0
              csize = boxsize * invcpd
              vscale = (sh[2] + 2000) * 0.0005 * invcpd * velzspace_to_kms
              cellx = (sh[3] + 2000.5) * csize - halfbox   (celly, cellz alike from sh[4], sh[5])
              pscale = 0.0005 * csize
          else:                                   # particle
              if dop: posout[w, k] = sh[k] * pscale + cell_k      (k = 0, 1, 2)
              if dov: velout[w, k] = sh[3 + k] * vscale
              w += 1
      return w
  ```

  A record is one row of the `(N, 9)` `ubyte` array: nine `UInt8`.  numba promotes the bitwise
  operations to 64 bits, so they are modelled on `Nat` (no wrap-around can occur below 2^12).
  Real numbers are exact `Rat`; the NaN header state before the first header is `none`
  (every product/sum with NaN is NaN, so all six outputs of such a particle are `none`).
  The row index of every output write goes through the Python index rule (`idx`).
-/
import AbacusVerif.Model.Num

namespace AbacusVerif.Pack9
open AbacusVerif

/-- one 9-byte record `data[i]` -/
structure Rec where
  c0 : UInt8
  c1 : UInt8
  c2 : UInt8
  c3 : UInt8
  c4 : UInt8
  c5 : UInt8
  c6 : UInt8
  c7 : UInt8
  c8 : UInt8
  deriving DecidableEq, Repr

/-- six values `s[0..5]` -/
structure Six (α : Type) where
  s0 : α
  s1 : α
  s2 : α
  s3 : α
  s4 : α
  s5 : α
  deriving DecidableEq, Repr

/-- `(lo & 0x0F) | (hi << 4)` -/
def nibLo (hi lo : UInt8) : Nat := (lo.toNat &&& 0x0F) ||| (hi.toNat <<< 4)
/-- `((hi & 0xF0) << 4) | lo` -/
def nibHi (hi lo : UInt8) : Nat := ((hi.toNat &&& 0xF0) <<< 4) ||| lo.toNat

/-- the six 12-bit fields, before the bias is removed (the first six statements of `_expand_to_short`) -/
def fields (c : Rec) : Six Nat :=
  { s0 := nibLo c.c0 c.c1
    s1 := nibHi c.c1 c.c2
    s2 := nibLo c.c3 c.c4
    s3 := nibHi c.c4 c.c5
    s4 := nibLo c.c6 c.c7
    s5 := nibHi c.c7 c.c8 }

/-- `_expand_to_short`: the fields minus 2048 (as `int16`; no overflow: the fields are below 4096) -/
def expandToShort (c : Rec) : Six Int :=
  let f := fields c
  { s0 := (f.s0 : Int) - 2048, s1 := (f.s1 : Int) - 2048, s2 := (f.s2 : Int) - 2048,
    s3 := (f.s3 : Int) - 2048, s4 := (f.s4 : Int) - 2048, s5 := (f.s5 : Int) - 2048 }

/-- the format's encoder (inverse of `fields`; not in the package, which only decodes): six 12-bit
fields to nine bytes -/
def pack (f : Six Nat) : Rec :=
  { c0 := UInt8.ofNat (f.s0 / 16)
    c1 := UInt8.ofNat (f.s0 % 16 + (f.s1 / 256) * 16)
    c2 := UInt8.ofNat (f.s1 % 256)
    c3 := UInt8.ofNat (f.s2 / 16)
    c4 := UInt8.ofNat (f.s2 % 16 + (f.s3 / 256) * 16)
    c5 := UInt8.ofNat (f.s3 % 256)
    c6 := UInt8.ofNat (f.s4 / 16)
    c7 := UInt8.ofNat (f.s4 % 16 + (f.s5 / 256) * 16)
    c8 := UInt8.ofNat (f.s5 % 256) }

/-- all six fields fit in 12 bits -/
def Six.wf12 (f : Six Nat) : Prop :=
  f.s0 < 4096 ∧ f.s1 < 4096 ∧ f.s2 < 4096 ∧ f.s3 < 4096 ∧ f.s4 < 4096 ∧ f.s5 < 4096

instance (f : Six Nat) : Decidable f.wf12 := by unfold Six.wf12; infer_instance

/-- `p9[0] == 0xFF` -/
def isHeader (c : Rec) : Bool := c.c0 == 0xFF

/-- header state (all in user units) -/
structure Hdr where
  csize : Rat
  vscale : Rat
  cellx : Rat
  celly : Rat
  cellz : Rat
  pscale : Rat
  deriving DecidableEq, Repr

/-- the header branch of the loop body -/
def mkHdr (box velz : Rat) (sh : Six Int) : Except Fault Hdr :=
  let cpd : Int := sh.s1 + 2000
  if cpd = 0 then .error .rejected        -- `1.0 / 0`: ZeroDivisionError
  else
    let halfbox : Rat := box / 2
    let invcpd : Rat := 1 / (cpd : Rat)
    let csize : Rat := box * invcpd
    let vscale : Rat := ((sh.s2 + 2000 : Int) : Rat) * (1 / 2000) * invcpd * velz
    .ok { csize := csize
          vscale := vscale
          cellx := ((sh.s3 : Rat) + 4001 / 2) * csize - halfbox
          celly := ((sh.s4 : Rat) + 4001 / 2) * csize - halfbox
          cellz := ((sh.s5 : Rat) + 4001 / 2) * csize - halfbox
          pscale := (1 / 2000) * csize }

/-- a float value: `none` is NaN -/
abbrev Val := Option Rat
abbrev V3 := Val × Val × Val

/-- `sh[k] * pscale + cell_k` -/
def decodePos (h : Option Hdr) (sh : Six Int) : V3 :=
  match h with
  | none => (none, none, none)
  | some h => (some ((sh.s0 : Rat) * h.pscale + h.cellx),
               some ((sh.s1 : Rat) * h.pscale + h.celly),
               some ((sh.s2 : Rat) * h.pscale + h.cellz))

/-- `sh[3+k] * vscale` -/
def decodeVel (h : Option Hdr) (sh : Six Int) : V3 :=
  match h with
  | none => (none, none, none)
  | some h => (some ((sh.s3 : Rat) * h.vscale),
               some ((sh.s4 : Rat) * h.vscale),
               some ((sh.s5 : Rat) * h.vscale))

/-- result of the kernel: the returned count and the writes to `posout` / `velout` in program order -/
structure Out where
  npart : Nat
  posW : List (Nat × V3)
  velW : List (Nat × V3)
  deriving DecidableEq, Repr

/-- `out[w, :] = v` when the output exists (`len = some L`: an array with `L` rows) -/
def writeRow (len : Option Nat) (w : Nat) (v : V3) : Except Fault (List (Nat × V3)) :=
  match len with
  | none => .ok []
  | some L => do
    let k ← idx L (w : Int)
    .ok [(k, v)]

/-- the `for i in range(N)` loop of `_unpack_pack9` from record `i` on, carrying the header state `h`
and the write counter `w` -/
def loop (box velz : Rat) (posLen velLen : Option Nat) : List Rec → Option Hdr → Nat → Except Fault Out
  | [], _, w => .ok { npart := w, posW := [], velW := [] }
  | c :: rest, h, w =>
    let sh := expandToShort c
    if isHeader c then do
      let h' ← mkHdr box velz sh
      loop box velz posLen velLen rest (some h') w
    else do
      let pw ← writeRow posLen w (decodePos h sh)
      let vw ← writeRow velLen w (decodeVel h sh)
      let o ← loop box velz posLen velLen rest h (w + 1)
      .ok { npart := o.npart, posW := pw ++ o.posW, velW := vw ++ o.velW }

/-- `_unpack_pack9(data, boxsize, velzspace_to_kms, posout, velout, dtype)`; `posLen = none` is `posout=None` -/
def unpackKernel (data : List Rec) (box velz : Rat) (posLen velLen : Option Nat) : Except Fault Out :=
  loop box velz posLen velLen data none 0

/-- the `posout` / `velout` argument of `unpack_pack9` -/
inductive OutOpt where
  | alloc                    -- `None`: allocate `(len(data), 3)`
  | skip                     -- `False`
  | supplied (len : Nat)     -- an array with `len` rows
  deriving DecidableEq, Repr

/-- one element of the returned tuple -/
inductive Ret where
  | arr (rows : List (Option V3))   -- `_out[:npart]`; a row that was never written (`np.empty` garbage) is `none`
  | count (n : Nat)
  deriving DecidableEq, Repr

def OutOpt.len (nmax : Nat) : OutOpt → Option Nat
  | .alloc => some nmax
  | .skip => none
  | .supplied l => some l

def mkRet (nmax npart : Nat) (ws : List (Nat × V3)) : OutOpt → Ret
  | .alloc => .arr ((applyWrites (List.replicate nmax none) (ws.map (fun w => (w.1, some w.2)))).take npart)
  | .skip => .count 0
  | .supplied _ => .count npart

structure Result where
  retPos : Ret
  retVel : Ret
  out : Out
  deriving DecidableEq, Repr

/-- `unpack_pack9(data, boxsize, velzspace_to_kms, float_dtype, posout, velout)` -/
def unpackPack9 (data : List Rec) (box velz : Rat) (posout velout : OutOpt) : Except Fault Result := do
  let nmax := data.length
  let o ← unpackKernel data box velz (posout.len nmax) (velout.len nmax)
  .ok { retPos := mkRet nmax o.npart o.posW posout
        retVel := mkRet nmax o.npart o.velW velout
        out := o }

/-! ### driver -/

def hexVal (ch : Char) : Option Nat :=
  if '0' ≤ ch ∧ ch ≤ '9' then some (ch.toNat - '0'.toNat)
  else if 'a' ≤ ch ∧ ch ≤ 'f' then some (ch.toNat - 'a'.toNat + 10)
  else if 'A' ≤ ch ∧ ch ≤ 'F' then some (ch.toNat - 'A'.toNat + 10)
  else none

def parseHexBytes : List Char → Option (List UInt8)
  | [] => some []
  | [_] => none
  | a :: b :: rest => do
    let x ← hexVal a
    let y ← hexVal b
    let r ← parseHexBytes rest
    some (UInt8.ofNat (x * 16 + y) :: r)

def toRecs : List UInt8 → Option (List Rec)
  | [] => some []
  | a :: b :: c :: d :: e :: f :: g :: h :: i :: rest => do
    let r ← toRecs rest
    some ({ c0 := a, c1 := b, c2 := c, c3 := d, c4 := e, c5 := f, c6 := g, c7 := h, c8 := i } :: r)
  | _ => none

def parseStream (s : String) : Option (List Rec) :=
  if s = "-" then some [] else parseHexBytes s.toList >>= toRecs

def parseOutOpt (s : String) : Option OutOpt :=
  if s = "A" then some .alloc
  else if s = "F" then some .skip
  else if s.startsWith "S" then (s.drop 1).toNat?.map .supplied
  else none

def showVal : Val → String
  | none => "nan"
  | some q => showRat q

def showV3 (v : V3) : String := s!"{showVal v.1},{showVal v.2.1},{showVal v.2.2}"

def showRet : Ret → String
  | .count n => s!"cnt:{n}"
  | .arr rows =>
    let rs := rows.map (fun r => match r with | none => "uninit" | some v => showV3 v)
    "arr:" ++ (if rs.isEmpty then "-" else ";".intercalate rs)

def showWrites (ws : List (Nat × V3)) : String :=
  if ws.isEmpty then "-" else ";".intercalate (ws.map (fun w => s!"{w.1}:{showV3 w.2}"))

def hexDigit (n : Nat) : Char := "0123456789abcdef".toList.getD n '?'
def showByte (b : UInt8) : String := String.ofList [hexDigit (b.toNat / 16), hexDigit (b.toNat % 16)]
def showRec (c : Rec) : String :=
  String.join ([c.c0, c.c1, c.c2, c.c3, c.c4, c.c5, c.c6, c.c7, c.c8].map showByte)

/-- requests:
* `expand <18 hex digits>` → `ok s0,…,s5`
* `pack f0,…,f5` → `ok <18 hex digits>` (rejected unless all fields < 4096)
* `unpack <box> <velz> <posopt> <velopt> <hex stream | ->` with options `A` (allocate), `F` (False), `S<len>`
  → `ok npart=… rp=… rv=… pw=… vw=…` or `err <fault>` -/
def handle (args : List String) : String :=
  match args with
  | ["expand", hex] =>
    match parseStream hex with
    | some [c] =>
      let s := expandToShort c
      s!"ok {s.s0},{s.s1},{s.s2},{s.s3},{s.s4},{s.s5}"
    | _ => "bad-op"
  | ["pack", fs] =>
    match parseNatList? fs with
    | some [a, b, c, d, e, f] =>
      let x : Six Nat := ⟨a, b, c, d, e, f⟩
      if x.wf12 then s!"ok {showRec (pack x)}" else "err rejected"
    | _ => "bad-op"
  | ["unpack", box, velz, po, vo, hex] =>
    match parseRat? box, parseRat? velz, parseOutOpt po, parseOutOpt vo, parseStream hex with
    | some box, some velz, some po, some vo, some data =>
      match unpackPack9 data box velz po vo with
      | .error f => s!"err {f}"
      | .ok r =>
        s!"ok npart={r.out.npart} rp={showRet r.retPos} rv={showRet r.retVel} pw={showWrites r.out.posW} vw={showWrites r.out.velW}"
    | _, _, _, _, _ => "bad-op"
  | _ => "bad-op"

end AbacusVerif.Pack9
