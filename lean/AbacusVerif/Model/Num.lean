/-
  Exact-rational numerics shared by the gridding models: numba's `round` / `np.rint`
  (round half to even) and truncation, over core Lean's `Rat`.
-/
import AbacusVerif.Model.Common

namespace AbacusVerif

/-- round half to even (`round(x)` in nopython mode, `np.rint`) -/
def rhe (x : Rat) : Int :=
  let f := x.floor
  let r := x - (f : Rat)
  if r < 1/2 then f
  else if 1/2 < r then f + 1
  else if f % 2 = 0 then f else f + 1

/-- `.astype(int64)` / `int(x)`: truncation toward zero -/
def truncInt (x : Rat) : Int :=
  if 0 ≤ x then x.floor else -((-x).floor)

/-- parse `num/den` or an integer -/
def parseRat? (s : String) : Option Rat :=
  match s.splitOn "/" with
  | [n] => n.toInt?.map (fun k => (k : Rat))
  | [n, d] =>
    match n.toInt?, d.toNat? with
    | some n, some d => if d = 0 then none else some (mkRat n d)
    | _, _ => none
  | _ => none

def showRat (q : Rat) : String :=
  if q.den = 1 then toString q.num else s!"{q.num}/{q.den}"

def parseRatList? (s : String) : Option (List Rat) :=
  if s = "" ∨ s = "-" then some []
  else (s.splitOn ",").mapM parseRat?

end AbacusVerif
