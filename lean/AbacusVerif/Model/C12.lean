/-
  Model of `AbacusHOD.staging` (abacusnbody/hod/abacus_hod.py) as far as property C12 is concerned:
  which slab files are loaded, how the per-halo arrays are filled, the sort block, the particle host index.

  The real code keeps one *named array per attribute* (`hpos`, `hvel`, `hmass`, `hid`, …), fills each of
  them slab after slab, and then

  ```python
  if not np.all(hid[:-1] <= hid[1:]):
      sortind = np.argsort(hid)
      hpos = hpos[sortind]; hvel = hvel[sortind]; …          # one statement per array
      if self.want_AB: hdeltac = hdeltac[sortind]; hfenv = hfenv[sortind]
      if self.want_shear: hshear = hshear[sortind]
  assert np.all(hid[:-1] <= hid[1:])
  …
  pinds = _searchsorted_parallel(hid, phid)                   # res[i] = np.searchsorted(a, b[i])
  ```

  The model keeps that shape: a table is `hid` plus a list of *named columns*, and the sort block takes
  the explicit list `permuted` of the array names that have an `X = X[sortind]` statement (regenerated
  from the source into `Generated/StagingCols.lean`).  A column whose name is not in `permuted` is left
  in file order, exactly as the code would leave it — the model can exhibit that failure.
  The record-wise view (`HaloRec`, `toCols`) is what the theorems in `Props/C12.lean` relate it to.

  Core Lean only.  numpy's `argsort` (as a stable sort of the (id, index) pairs), `searchsorted`, fancy indexing `arr[sortind]`, slice assignment of
  consecutive slabs (= concatenation) are modelled by their specifications.
-/
import AbacusVerif.Model.Common
import AbacusVerif.Generated.StagingCols

namespace AbacusVerif.Staging
open AbacusVerif

/-! ### small executable vocabulary -/

/-- `mapM` in `Except Fault`, written out so that it unfolds by structural recursion -/
def mapE {α β : Type} (f : α → Except Fault β) : List α → Except Fault (List β)
  | [] => .ok []
  | a :: as =>
    match f a with
    | .error e => .error e
    | .ok b =>
      match mapE f as with
      | .error e => .error e
      | .ok bs => .ok (b :: bs)

/-- `arr[i]` for a non-negative index through the Python index rule -/
def getAt {α : Type} (arr : List α) (i : Nat) : Except Fault α :=
  match pyIndex arr.length (i : Int) with
  | some k =>
    match arr[k]? with
    | some v => .ok v
    | none => .error .oob
  | none => .error .oob

/-- numpy fancy indexing `arr[ind]` -/
def gather {α : Type} (arr : List α) (ind : List Nat) : Except Fault (List α) :=
  mapE (getAt arr) ind

/-- `np.all(hid[:-1] <= hid[1:])` -/
def sortedB (hid : List Nat) : Bool :=
  (hid.dropLast.zip hid.tail).all (fun p => decide (p.1 ≤ p.2))

/-- insert an (id, index) pair into a list ordered by id, before the first pair whose id is not smaller -/
def insertPair (p : Nat × Nat) : List (Nat × Nat) → List (Nat × Nat)
  | [] => [p]
  | q :: qs => if p.1 ≤ q.1 then p :: q :: qs else q :: insertPair p qs

/-- stable insertion sort of (id, index) pairs by id (structural recursion, so that it evaluates in proofs) -/
def sortPairs (l : List (Nat × Nat)) : List (Nat × Nat) := l.foldr insertPair []

/-- `np.argsort(hid)`: the indices `0 … n-1` ordered by the id they point to (ties keep file order; numpy's
default sort is not stable, so ties are outside the correspondence — the property is about duplicate-free ids). -/
def argsort (hid : List Nat) : List Nat :=
  (sortPairs hid.zipIdx).map (·.2)

/-- `np.searchsorted(a, v)` (default `side='left'`) on a non-decreasing `a`: the first index whose element is
`≥ v`, `len(a)` if there is none. -/
def searchsortedLeft (a : List Nat) (v : Nat) : Nat :=
  a.findIdx (fun x => decide (v ≤ x))

/-! ### tables of named parallel arrays -/

abbrev NamedCols (Val : Type) := List (String × List Val)

/-- the per-halo arrays of `staging`: the id array and the other named arrays -/
structure HaloCols (Val : Type) where
  hid : List Nat
  cols : NamedCols Val

/-- the per-particle arrays: host id and the other named arrays -/
structure PartCols (Val : Type) where
  phid : List Nat
  cols : NamedCols Val

/-- column `n` of one slab file; a missing field is a `KeyError` (rejected), a column whose length differs
from the number of rows cannot be stored in a structured dataset (bad length) -/
def getCol {Val : Type} (cols : NamedCols Val) (n : String) (len : Nat) : Except Fault (List Val) :=
  match cols.lookup n with
  | some v => if v.length = len then .ok v else .error .badLength
  | none => .error .rejected

/-- array `n` after the fill loop, `X[halo_ticker : halo_ticker + Nhalos[k]] = slab_k's X` for `k = 0, 1, …`
into an array of the total length: the concatenation of the slabs' columns -/
def slabCol {Val : Type} (slabs : List (HaloCols Val)) (n : String) : Except Fault (String × List Val) :=
  match mapE (fun s => getCol s.cols n s.hid.length) slabs with
  | .error e => .error e
  | .ok parts => .ok (n, parts.flatten)

/-- the fill loop for every allocated array name -/
def concatCols {Val : Type} (names : List String) (slabs : List (HaloCols Val)) : Except Fault (HaloCols Val) :=
  match mapE (slabCol slabs) names with
  | .error e => .error e
  | .ok cols => .ok { hid := (slabs.map (·.hid)).flatten, cols := cols }

/-- one statement `X = X[sortind]`, present only for the arrays named in `permuted` -/
def permuteCol {Val : Type} (permuted : List String) (sortind : List Nat) (c : String × List Val) :
    Except Fault (String × List Val) :=
  if c.1 ∈ permuted then
    match gather c.2 sortind with
    | .error e => .error e
    | .ok v => .ok (c.1, v)
  else .ok c

def permuteCols {Val : Type} (permuted : List String) (sortind : List Nat) (cols : NamedCols Val) :
    Except Fault (NamedCols Val) :=
  mapE (permuteCol permuted sortind) cols

/-- the sort block followed by the `assert` -/
def sortBlock {Val : Type} (permuted : List String) (t : HaloCols Val) : Except Fault (HaloCols Val) :=
  let r : Except Fault (HaloCols Val) :=
    if sortedB t.hid then .ok t
    else
      let sortind := argsort t.hid
      match (if "hid" ∈ permuted then gather t.hid sortind else .ok t.hid) with
      | .error e => .error e
      | .ok hid' =>
        match permuteCols permuted sortind t.cols with
        | .error e => .error e
        | .ok cols' => .ok { hid := hid', cols := cols' }
  match r with
  | .error e => .error e
  | .ok t' => if sortedB t'.hid then .ok t' else .error .rejected   -- AssertionError

/-- `pinds = _searchsorted_parallel(hid, phid)` -/
def pinds (hid : List Nat) (phid : List Nat) : List Nat :=
  phid.map (searchsortedLeft hid)

/-! ### which slab files are loaded -/

/-- `chunk == -1 → 0`, `n_jump = ceil(nfiles / n_chunks)`, `start = chunk * n_jump`,
`end = min((chunk+1) * n_jump, nfiles)`; returns `(start, end - start)`.  The constructor asserts
`chunk < n_chunks`; `halo_info_fns[0]` needs a file; a negative slab count makes `np.zeros` raise. -/
def slabRange (nfiles nChunks : Nat) (chunk : Int) : Except Fault (Nat × Nat) :=
  if ¬ (chunk < (nChunks : Int)) then .error .rejected
  else if nfiles = 0 ∨ nChunks = 0 ∨ chunk < -1 then .error .rejected
  else
    let c : Nat := if chunk = -1 then 0 else chunk.toNat
    let nJump := (nfiles + nChunks - 1) / nChunks
    let start := c * nJump
    let stop := if (c + 1) * nJump > nfiles then nfiles else (c + 1) * nJump
    if stop < start then .error .rejected else .ok (start, stop - start)

/-- the slabs `range(start, end)`; a slab file that does not exist is an error -/
def pickSlabs {α : Type} (slabs : List α) (r : Nat × Nat) : Except Fault (List α) :=
  if r.1 + r.2 ≤ slabs.length then .ok ((slabs.drop r.1).take r.2) else .error .rejected

/-! ### the halo side of `staging` -/

/-- fill all allocated arrays from the loaded slabs, sort block, assert -/
def stageHalos {Val : Type} (permuted names : List String) (slabs : List (HaloCols Val)) :
    Except Fault (HaloCols Val) :=
  match concatCols names slabs with
  | .error e => .error e
  | .ok t => sortBlock permuted t

/-- legacy halo files with a 1-D velocity-deviate column: `np.stack((v, v, v), axis=1)` -/
def stackVelDev {Val : Type} (triple : Val → Val) (veldev1d : Bool) (s : HaloCols Val) : HaloCols Val :=
  if veldev1d then
    { s with cols := s.cols.map (fun c => if c.1 = "hveldev" then (c.1, c.2.map triple) else c) }
  else s

/-! ### the particle side -/

def partCol {Val : Type} (slabs : List (PartCols Val)) (n : String) : Except Fault (String × List Val) :=
  match mapE (fun s => getCol s.cols n s.phid.length) slabs with
  | .error e => .error e
  | .ok parts => .ok (n, parts.flatten)

def concatParts {Val : Type} (names : List String) (slabs : List (PartCols Val)) : Except Fault (PartCols Val) :=
  match mapE (partCol slabs) names with
  | .error e => .error e
  | .ok cols => .ok { phid := (slabs.map (·.phid)).flatten, cols := cols }

def rankNames : List String := ["pranks", "pranksv", "pranksp", "pranksr", "pranksc"]
def optionalRankNames : List String := ["pranksp", "pranksr", "pranksc"]

/-- the rank arrays: all ones without `want_ranks`; with it `ranks`/`ranksv` are required and a missing
`ranksp`/`ranksr`/`ranksc` field is replaced by zeros -/
def rankCols {Val : Type} (one zero : Val) (wantRanks : Bool) (slabs : List (PartCols Val)) :
    Except Fault (NamedCols Val) :=
  let n := ((slabs.map (·.phid)).flatten).length
  if ¬ wantRanks then .ok (rankNames.map (fun r => (r, List.replicate n one)))
  else
    mapE (fun r =>
      match mapE (fun s =>
          match s.cols.lookup r with
          | some v => if v.length = s.phid.length then .ok v else .error .badLength
          | none => if r ∈ optionalRankNames then .ok (List.replicate s.phid.length zero) else .error .rejected)
          slabs with
      | .error e => .error e
      | .ok parts => .ok (r, parts.flatten)) rankNames

/-! ### driver -/

abbrev DVal := List Int

def parseVal? (s : String) : Option DVal := (s.splitOn ":").mapM (fun t => t.toInt?)

def parseCol? (s : String) : Option (List DVal) :=
  if s = "-" then some [] else (s.splitOn ",").mapM parseVal?

def showVal (v : DVal) : String := ":".intercalate (v.map toString)
def showCol (c : List DVal) : String := if c.isEmpty then "-" else ",".intercalate (c.map showVal)

structure Slab where
  halos : HaloCols DVal
  parts : PartCols DVal

/-- tokens of one slab: `hid <list> (col <name> <vals>)* phid <list> (pcol <name> <vals>)*` -/
def parseSlab? (toks : List String) : Option Slab :=
  let rec go (toks : List String) (s : Slab) : Option Slab :=
    match toks with
    | [] => some s
    | "hid" :: l :: rest => do
      let ids ← parseNatList? l
      go rest { s with halos := { s.halos with hid := ids } }
    | "phid" :: l :: rest => do
      let ids ← parseNatList? l
      go rest { s with parts := { s.parts with phid := ids } }
    | "col" :: n :: v :: rest => do
      let c ← parseCol? v
      go rest { s with halos := { s.halos with cols := s.halos.cols ++ [(n, c)] } }
    | "pcol" :: n :: v :: rest => do
      let c ← parseCol? v
      go rest { s with parts := { s.parts with cols := s.parts.cols ++ [(n, c)] } }
    | _ => none
  go toks { halos := { hid := [], cols := [] }, parts := { phid := [], cols := [] } }

/-- split the token list at every `slab` keyword -/
def splitSlabs (toks : List String) : List (List String) :=
  let r := toks.foldl (fun (acc : List (List String) × List String) t =>
    if t = "slab" then (acc.1 ++ [acc.2], []) else (acc.1, acc.2 ++ [t])) ([], [])
  (r.1 ++ [r.2]).drop 1

def kv? (key : String) (tok : String) : Option String :=
  if tok.startsWith (key ++ "=") then some ((tok.drop (key.length + 1)).toString) else none

structure Req where
  nfiles : Nat
  nChunks : Nat
  chunk : Int
  flags : List String     -- active `want_*` flags
  loadParts : Bool
  veldev1d : Bool
  unit : Int

def parseReq? (hd : List String) : Option Req :=
  match hd with
  | [a, b, c, d, e, f, g] => do
    let nfiles ← (kv? "nfiles" a) >>= parseNat?
    let nChunks ← (kv? "nchunks" b) >>= parseNat?
    let chunk ← (kv? "chunk" c) >>= parseInt?
    let fl ← kv? "flags" d
    let lp ← (kv? "parts" e) >>= parseBool?
    let v1 ← (kv? "veldev1d" f) >>= parseBool?
    let unit ← (kv? "unit" g) >>= parseInt?
    some { nfiles, nChunks, chunk, flags := if fl = "-" then [] else fl.splitOn ",",
           loadParts := lp, veldev1d := v1, unit }
  | _ => none

def showNamed (pre : String) (cols : NamedCols DVal) : String :=
  " ".intercalate (cols.map (fun c => s!"{pre}:{c.1}={showCol c.2}"))

open AbacusVerif.Generated.StagingCols in
def runStaging (q : Req) (slabs : List Slab) : Except Fault String :=
  match slabRange q.nfiles q.nChunks q.chunk with
  | .error e => .error e
  | .ok r =>
  match pickSlabs slabs r with
  | .error e => .error e
  | .ok loaded =>
  let names := (returnedVars q.flags).filter (· ≠ "hid")
  let hslabs := loaded.map (fun s => stackVelDev (fun x => x ++ x ++ x) q.veldev1d s.halos)
  match stageHalos (permutedVars q.flags) names hslabs with
  | .error e => .error e
  | .ok h =>
  let pslabs := if q.loadParts then loaded.map (·.parts) else []
  match concatParts (partVars q.flags) pslabs with
  | .error e => .error e
  | .ok p =>
  match rankCols [q.unit] [0] (q.flags.contains "want_ranks") pslabs with
  | .error e => .error e
  | .ok rk =>
    .ok s!"ok numslabs={r.2} hid={showList h.hid} {showNamed "h" h.cols} phid={showList p.phid} pinds={showList (pinds h.hid p.phid)} {showNamed "p" (p.cols ++ rk)}"

/-- request: `staging nfiles=<n> nchunks=<n> chunk=<int> flags=<want_AB,…|-> parts=<0|1> veldev1d=<0|1> unit=<int>
(slab hid <ids> (col <name> <vals>)* phid <ids> (pcol <name> <vals>)*)*` — one `slab` group per slab *file*
(all of them; the model picks the loaded range).  A value is `:`-joined integers, a column `,`-joined values. -/
def handle (args : List String) : String :=
  match args with
  | "staging" :: rest =>
    let hd := rest.takeWhile (· ≠ "slab")
    let body := rest.dropWhile (· ≠ "slab")
    match parseReq? hd, (splitSlabs body).mapM parseSlab? with
    | some q, some slabs =>
      match runStaging q slabs with
      | .ok s => s
      | .error f => s!"err {f}"
    | _, _ => "bad-op"
  | ["argsort", l] =>
    match parseNatList? l with
    | some ids => showList (argsort ids)
    | none => "bad-op"
  | ["searchsorted", l, v] =>
    match parseNatList? l, parseNat? v with
    | some a, some v => toString (searchsortedLeft a v)
    | _, _ => "bad-op"
  | _ => "bad-op"

end AbacusVerif.Staging
