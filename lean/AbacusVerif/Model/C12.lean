/-
  Model of `AbacusHOD.staging` (abacusnbody/hod/abacus_hod.py) as far as property C12 is concerned:
  which slab files are loaded, what each array is filled from, the per-slab fill loop with its ticker,
  the sort block, the particle host index.

  The real code keeps one *named array per attribute* (`hpos`, `hvel`, `hmass`, `hid`, …):

  ```python
  hpos = np.empty((Nhalos_tot, 3)); …                         # one allocation per array
  halo_ticker = 0
  for eslab in range(start, end):
      maskedhalos = newfile['halos']
      halo_pos = maskedhalos['x_L2com']; halo_c = maskedhalos['r98_L2com'] / maskedhalos['r25_L2com']; …
      hpos[halo_ticker : halo_ticker + Nhalos[eslab - start]] = halo_pos; …      # one statement per array
      halo_ticker += Nhalos[eslab - start]
  if not np.all(hid[:-1] <= hid[1:]):
      sortind = np.argsort(hid)
      hpos = hpos[sortind]; hvel = hvel[sortind]; …          # one statement per array
      if self.want_AB: hdeltac = hdeltac[sortind]; hfenv = hfenv[sortind]
      if self.want_shear: hshear = hshear[sortind]
  assert np.all(hid[:-1] <= hid[1:])
  …
  pinds = _searchsorted_parallel(hid, phid)                   # res[i] = np.searchsorted(a, b[i])
  ```

  The model keeps that shape.  A table is an id column plus a list of *named columns*.
  * What an array is filled from is an expression `Src` over the columns of the slab's dataset, taken from the
    table `haloSources` / `partSources` that `harness/props/c12.py` regenerates from the source
    (`Generated/StagingCols.lean`); `evalSrc` evaluates it column-wise, as numpy does.
  * The fill loop is modelled as coded: an array of `Nhalos_tot` cells without a value (`np.empty`), per slab a
    slice assignment `arr[ticker : ticker + n] = values` turned into a *write list* whose indices go through
    the Python index rule, and the ticker advanced by the slab's count.  A wrong ticker shows up as a shape
    mismatch (numpy clips the slice), an overwritten cell or a cell that never gets a value.
  * The sort block takes the explicit list `permuted` of the array names that have an `X = X[sortind]`
    statement (regenerated from the source).  A column whose name is not in `permuted` is left in file
    order, exactly as the code would leave it — the model can exhibit that failure.
  The record-wise view (`HaloRec`, `toCols`) is what the theorems in `Props/C12.lean` relate it to.

  Core Lean only.  numpy's `argsort` (as a stable sort of the (id, index) pairs), `searchsorted`, fancy
  indexing `arr[sortind]`, element-wise `/` and `*` are modelled by their specifications.
-/
import AbacusVerif.Model.Common
import AbacusVerif.Generated.StagingCols

namespace AbacusVerif.Staging
open AbacusVerif

/-! ### small executable vocabulary -/

/-- `mapM` in `Except Fault`, written out so that it unfolds by structural recursion -/
def mapE {α β : Type} (f : α → Except Fault β) : List α → Except Fault (List β)
  | [] => .ok []
  | a :: as =>
    match f a with
    | .error e => .error e
    | .ok b =>
      match mapE f as with
      | .error e => .error e
      | .ok bs => .ok (b :: bs)

/-- `arr[i]` for a non-negative index through the Python index rule -/
def getAt {α : Type} (arr : List α) (i : Nat) : Except Fault α :=
  match pyIndex arr.length (i : Int) with
  | some k =>
    match arr[k]? with
    | some v => .ok v
    | none => .error .oob
  | none => .error .oob

/-- numpy fancy indexing `arr[ind]` -/
def gather {α : Type} (arr : List α) (ind : List Nat) : Except Fault (List α) :=
  mapE (getAt arr) ind

/-- `np.all(hid[:-1] <= hid[1:])` -/
def sortedB (hid : List Nat) : Bool :=
  (hid.dropLast.zip hid.tail).all (fun p => decide (p.1 ≤ p.2))

/-- insert an (id, index) pair into a list ordered by id, before the first pair whose id is not smaller -/
def insertPair (p : Nat × Nat) : List (Nat × Nat) → List (Nat × Nat)
  | [] => [p]
  | q :: qs => if p.1 ≤ q.1 then p :: q :: qs else q :: insertPair p qs

/-- stable insertion sort of (id, index) pairs by id (structural recursion, so that it evaluates in proofs) -/
def sortPairs (l : List (Nat × Nat)) : List (Nat × Nat) := l.foldr insertPair []

/-- `np.argsort(hid)`: the indices `0 … n-1` ordered by the id they point to (ties keep file order; numpy's
default sort is not stable, so ties are outside the correspondence — the property is about duplicate-free ids). -/
def argsort (hid : List Nat) : List Nat :=
  (sortPairs hid.zipIdx).map (·.2)

/-- `np.searchsorted(a, v)` (default `side='left'`) on a non-decreasing `a`: the first index whose element is
`≥ v`, `len(a)` if there is none. -/
def searchsortedLeft (a : List Nat) (v : Nat) : Nat :=
  a.findIdx (fun x => decide (v ≤ x))

/-! ### tables of named parallel arrays -/

abbrev NamedCols (Val : Type) := List (String × List Val)

/-- an id column and named parallel columns: the per-halo arrays of `staging` (`hid` and the others), the
per-particle arrays (`phid` as the id column), and equally one slab *dataset* (its id field and its fields) -/
structure HaloCols (Val : Type) where
  hid : List Nat
  cols : NamedCols Val

/-- column `n` of one slab file; a missing field is a `KeyError` (rejected), a column whose length differs
from the number of rows cannot be stored in a structured dataset (bad length) -/
def getCol {Val : Type} (cols : NamedCols Val) (n : String) (len : Nat) : Except Fault (List Val) :=
  match cols.lookup n with
  | some v => if v.length = len then .ok v else .error .badLength
  | none => .error .rejected

/-! ### the fill loop -/

/-- the writes of `arr[ticker : ticker + n] = vals` on an array of length `len`.  numpy clips the slice to
the array; the value must have the length of the (clipped) slice, except that a single value is broadcast.
Every written index goes through the Python index rule. -/
def sliceWrites {α : Type} (len ticker n : Nat) (vals : List α) : Except Fault (List (Nat × α)) :=
  let lo := min ticker len
  let hi := min (ticker + n) len
  let put (p : α × Nat) : Except Fault (Nat × α) :=
    match idx len (p.2 : Int) with
    | .ok k => .ok (k, p.1)
    | .error e => .error e
  if vals.length = hi - lo then mapE put (vals.zipIdx lo)
  else
    match vals with
    | [v] => mapE put ((List.replicate (hi - lo) v).zipIdx lo)       -- broadcast of a length-1 value
    | _ => .error .badLength                                           -- ValueError: could not broadcast

/-- the loop `for eslab in range(start, end)` for one array: slab `k` contributes
`arr[ticker : ticker + counts[k]] = vals_k`, then `ticker += counts[incIdx k]` (the code has `incIdx k = k`:
`halo_ticker += Nhalos[eslab - start]`).  Returns all writes in program order. -/
def fillLoop {α : Type} (total : Nat) (counts : List Nat) (incIdx : Nat → Nat) :
    List (List α) → Nat → Nat → List (Nat × α) → Except Fault (List (Nat × α))
  | [], _, _, ws => .ok ws
  | vals :: rest, k, ticker, ws =>
    match getAt counts k with
    | .error e => .error e
    | .ok n =>
      match sliceWrites total ticker n vals with
      | .error e => .error e
      | .ok w =>
        match getAt counts (incIdx k) with
        | .error e => .error e
        | .ok inc => fillLoop total counts incIdx rest (k + 1) (ticker + inc) (ws ++ w)

def fillArr {α : Type} (total : Nat) (counts : List Nat) (parts : List (List α)) : Except Fault (List (Nat × α)) :=
  fillLoop total counts id parts 0 0 []

/-- `np.empty(total)`: cells without a value -/
def allocate {α : Type} (total : Nat) : List (Option α) := List.replicate total none

/-- reading the array afterwards: a cell that never got a value is uninitialised memory, for which the
model has no value (rejected) -/
def cellValue {α : Type} : Option α → Except Fault α
  | some v => .ok v
  | none => .error .rejected

def readBack {α : Type} (a : List (Option α)) : Except Fault (List α) :=
  mapE cellValue a

/-- one array after the fill loop: `Nhalos_tot = sum(Nhalos)` cells, the slabs' writes applied in program order
(`incIdx` as in `fillLoop`; a later write to the same cell overwrites, as in numpy) -/
def fillColumnWith {α : Type} (incIdx : Nat → Nat) (counts : List Nat) (parts : List (List α)) :
    Except Fault (List α) :=
  let total := counts.sum
  match fillLoop total counts incIdx parts 0 0 [] with
  | .error e => .error e
  | .ok ws => readBack (applyWrites (allocate total) (ws.map (fun w => (w.1, some w.2))))

/-- the fill loop as coded: `ticker += counts[k]` after slab `k` -/
def fillColumn {α : Type} (counts : List Nat) (parts : List (List α)) : Except Fault (List α) :=
  fillColumnWith id counts parts

/-- array `n` after the fill loop, `X[halo_ticker : halo_ticker + Nhalos[k]] = slab_k's X` for `k = 0, 1, …`;
`Nhalos[k] = len(newfile['halos'])` is the row count of slab `k` -/
def slabCol {Val : Type} (slabs : List (HaloCols Val)) (n : String) : Except Fault (String × List Val) :=
  match mapE (fun s => getCol s.cols n s.hid.length) slabs with
  | .error e => .error e
  | .ok parts =>
    match fillColumn (slabs.map (·.hid.length)) parts with
    | .error e => .error e
    | .ok v => .ok (n, v)

/-- the fill loop for the id array and every allocated array name -/
def concatCols {Val : Type} (names : List String) (slabs : List (HaloCols Val)) : Except Fault (HaloCols Val) :=
  match fillColumn (slabs.map (·.hid.length)) (slabs.map (·.hid)) with
  | .error e => .error e
  | .ok hid =>
    match mapE (slabCol slabs) names with
    | .error e => .error e
    | .ok cols => .ok { hid := hid, cols := cols }

/-- one statement `X = X[sortind]`, present only for the arrays named in `permuted` -/
def permuteCol {Val : Type} (permuted : List String) (sortind : List Nat) (c : String × List Val) :
    Except Fault (String × List Val) :=
  if c.1 ∈ permuted then
    match gather c.2 sortind with
    | .error e => .error e
    | .ok v => .ok (c.1, v)
  else .ok c

def permuteCols {Val : Type} (permuted : List String) (sortind : List Nat) (cols : NamedCols Val) :
    Except Fault (NamedCols Val) :=
  mapE (permuteCol permuted sortind) cols

/-- the sort block followed by the `assert` -/
def sortBlock {Val : Type} (permuted : List String) (t : HaloCols Val) : Except Fault (HaloCols Val) :=
  let r : Except Fault (HaloCols Val) :=
    if sortedB t.hid then .ok t
    else
      let sortind := argsort t.hid
      match (if "hid" ∈ permuted then gather t.hid sortind else .ok t.hid) with
      | .error e => .error e
      | .ok hid' =>
        match permuteCols permuted sortind t.cols with
        | .error e => .error e
        | .ok cols' => .ok { hid := hid', cols := cols' }
  match r with
  | .error e => .error e
  | .ok t' => if sortedB t'.hid then .ok t' else .error .rejected   -- AssertionError

/-- `pinds = _searchsorted_parallel(hid, phid)` -/
def pinds (hid : List Nat) (phid : List Nat) : List Nat :=
  phid.map (searchsortedLeft hid)

/-! ### which slab files are loaded -/

/-- `chunk == -1 → 0`, `n_jump = ceil(nfiles / n_chunks)`, `start = chunk * n_jump`,
`end = min((chunk+1) * n_jump, nfiles)`; returns `(start, end - start)`.  The constructor asserts
`chunk < n_chunks`; `halo_info_fns[0]` needs a file; a negative slab count makes `np.zeros` raise. -/
def slabRange (nfiles nChunks : Nat) (chunk : Int) : Except Fault (Nat × Nat) :=
  if ¬ (chunk < (nChunks : Int)) then .error .rejected
  else if nfiles = 0 ∨ nChunks = 0 ∨ chunk < -1 then .error .rejected
  else
    let c : Nat := if chunk = -1 then 0 else chunk.toNat
    let nJump := (nfiles + nChunks - 1) / nChunks
    let start := c * nJump
    let stop := if (c + 1) * nJump > nfiles then nfiles else (c + 1) * nJump
    if stop < start then .error .rejected else .ok (start, stop - start)

/-- the slabs `range(start, end)`; a slab file that does not exist is an error -/
def pickSlabs {α : Type} (slabs : List α) (r : Nat × Nat) : Except Fault (List α) :=
  if r.1 + r.2 ≤ slabs.length then .ok ((slabs.drop r.1).take r.2) else .error .rejected

/-! ### the halo side of `staging` -/

/-- fill all allocated arrays from the loaded slabs, sort block, assert -/
def stageHalos {Val : Type} (permuted names : List String) (slabs : List (HaloCols Val)) :
    Except Fault (HaloCols Val) :=
  match concatCols names slabs with
  | .error e => .error e
  | .ok t => sortBlock permuted t

/-! ### what each array is filled from -/

open AbacusVerif.Generated.StagingCols in
/-- the value operations the source expressions need (`/`, `* params[...]`), the constants of the defaults
and `np.stack((v, v, v), axis=1)` on one value -/
structure Ops (Val : Type) where
  div : Val → Val → Val
  mulParam : String → Val → Val
  invProd : Val → Val → Val
  zero : Val
  one : Val
  triple : Val → Val

open AbacusVerif.Generated.StagingCols in
/-- a source expression evaluated on one slab dataset, column-wise.  The id column is kept apart (`hid`),
so `astype(int)` only occurs on it and is the identity on exact values. -/
def evalSrc {Val : Type} (ops : Ops Val) (t : HaloCols Val) : Src → Except Fault (List Val)
  | .field f => getCol t.cols f t.hid.length
  | .asInt a => evalSrc ops t a
  | .div a b =>
    match evalSrc ops t a, evalSrc ops t b with
    | .ok x, .ok y => .ok (List.zipWith ops.div x y)
    | .error e, _ => .error e
    | _, .error e => .error e
  | .mulParam a p =>
    match evalSrc ops t a with
    | .ok x => .ok (x.map (ops.mulParam p))
    | .error e => .error e
  | .fieldOrZeros f =>
    match t.cols.lookup f with
    | some v => if v.length = t.hid.length then .ok v else .error .badLength
    | none => .ok (List.replicate t.hid.length ops.zero)
  | .invProd a b =>
    match evalSrc ops t a, evalSrc ops t b with
    | .ok x, .ok y => .ok (List.zipWith ops.invProd x y)
    | .error e, _ => .error e
    | _, .error e => .error e

open AbacusVerif.Generated.StagingCols in
/-- the one source expression recorded for array `v`; none or several is not a program the model can mirror -/
def singleSource (tab : List (String × Src)) (v : String) : Except Fault Src :=
  match sourcesOf tab v with
  | [s] => .ok s
  | _ => .error .rejected

open AbacusVerif.Generated.StagingCols in
/-- the values slab `t` contributes to array `v`; a 1-D velocity-deviate column is stacked three times -/
def slabArray {Val : Type} (ops : Ops Val) (tab : List (String × Src)) (veldev1d : Bool) (t : HaloCols Val)
    (v : String) : Except Fault (String × List Val) :=
  match singleSource tab v with
  | .error e => .error e
  | .ok src =>
    match evalSrc ops t src with
    | .error e => .error e
    | .ok col => .ok (v, if veldev1d && v == "hveldev" then col.map ops.triple else col)

open AbacusVerif.Generated.StagingCols in
def slabArrays {Val : Type} (ops : Ops Val) (tab : List (String × Src)) (veldev1d : Bool) (names : List String)
    (t : HaloCols Val) : Except Fault (HaloCols Val) :=
  match mapE (slabArray ops tab veldev1d t) names with
  | .error e => .error e
  | .ok cols => .ok { hid := t.hid, cols := cols }

/-! ### driver -/

/-- driver values: vectors of exact rationals (sent scaled by `unit`) -/
abbrev DVal := List Rat

def dOps (params : List (String × Rat)) : Ops DVal where
  div := fun x y => List.zipWith (· / ·) x y
  mulParam := fun p x => match params.lookup p with
    | some c => x.map (· * c)
    | none => []                       -- an unknown parameter leaves no value (shows up as a disagreement)
  invProd := fun x y => List.zipWith (fun a b => 1 / a / b) x y
  zero := [0]
  one := [1]
  triple := fun x => x ++ x ++ x

def parseVal? (unit : Int) (s : String) : Option DVal :=
  (s.splitOn ":").mapM (fun t => t.toInt?.map (fun i => (i : Rat) / (unit : Rat)))

def parseCol? (unit : Int) (s : String) : Option (List DVal) :=
  if s = "-" then some [] else (s.splitOn ",").mapM (parseVal? unit)

def showRatScaled (unit : Int) (x : Rat) : String :=
  let y := x * (unit : Rat)
  if y.den = 1 then toString y.num else s!"{y.num}/{y.den}"

def showVal (unit : Int) (v : DVal) : String := ":".intercalate (v.map (showRatScaled unit))
def showCol (unit : Int) (c : List DVal) : String :=
  if c.isEmpty then "-" else ",".intercalate (c.map (showVal unit))

/-- one slab file pair: the `halos` dataset and the `particles` dataset (id column + named columns) -/
structure Slab where
  halos : HaloCols DVal
  parts : HaloCols DVal

/-- tokens of one slab: `hid <ids> (col <field> <vals>)* phid <ids> (pcol <field> <vals>)*` -/
def parseSlab? (unit : Int) (toks : List String) : Option Slab :=
  let rec go (toks : List String) (s : Slab) : Option Slab :=
    match toks with
    | [] => some s
    | "hid" :: l :: rest => do
      let ids ← parseNatList? l
      go rest { s with halos := { s.halos with hid := ids } }
    | "phid" :: l :: rest => do
      let ids ← parseNatList? l
      go rest { s with parts := { s.parts with hid := ids } }
    | "col" :: n :: v :: rest => do
      let c ← parseCol? unit v
      go rest { s with halos := { s.halos with cols := s.halos.cols ++ [(n, c)] } }
    | "pcol" :: n :: v :: rest => do
      let c ← parseCol? unit v
      go rest { s with parts := { s.parts with cols := s.parts.cols ++ [(n, c)] } }
    | _ => none
  go toks { halos := { hid := [], cols := [] }, parts := { hid := [], cols := [] } }

/-- split the token list at every `slab` keyword -/
def splitSlabs (toks : List String) : List (List String) :=
  let r := toks.foldl (fun (acc : List (List String) × List String) t =>
    if t = "slab" then (acc.1 ++ [acc.2], []) else (acc.1, acc.2 ++ [t])) ([], [])
  (r.1 ++ [r.2]).drop 1

def kv? (key : String) (tok : String) : Option String :=
  if tok.startsWith (key ++ "=") then some ((tok.drop (key.length + 1)).toString) else none

structure Req where
  nfiles : Nat
  nChunks : Nat
  chunk : Int
  flags : List String     -- active `want_*` flags
  loadParts : Bool
  veldev1d : Bool
  unit : Int
  params : List (String × Rat)

def parseParams? (unit : Int) (s : String) : Option (List (String × Rat)) :=
  if s = "-" then some []
  else (s.splitOn ",").mapM (fun t =>
    match t.splitOn ":" with
    | [k, v] => v.toInt?.map (fun i => (k, (i : Rat) / (unit : Rat)))
    | _ => none)

def parseReq? (hd : List String) : Option Req :=
  match hd with
  | [a, b, c, d, e, f, g, h] => do
    let nfiles ← (kv? "nfiles" a) >>= parseNat?
    let nChunks ← (kv? "nchunks" b) >>= parseNat?
    let chunk ← (kv? "chunk" c) >>= parseInt?
    let fl ← kv? "flags" d
    let lp ← (kv? "parts" e) >>= parseBool?
    let v1 ← (kv? "veldev1d" f) >>= parseBool?
    let unit ← (kv? "unit" g) >>= parseInt?
    let params ← (kv? "params" h) >>= parseParams? unit
    some { nfiles, nChunks, chunk, flags := if fl = "-" then [] else fl.splitOn ",",
           loadParts := lp, veldev1d := v1, unit, params }
  | _ => none

def showNamed (unit : Int) (pre : String) (cols : NamedCols DVal) : String :=
  " ".intercalate (cols.map (fun c => s!"{pre}:{c.1}={showCol unit c.2}"))

open AbacusVerif.Generated.StagingCols in
def runStaging (q : Req) (slabs : List Slab) : Except Fault String :=
  match slabRange q.nfiles q.nChunks q.chunk with
  | .error e => .error e
  | .ok r =>
  match pickSlabs slabs r with
  | .error e => .error e
  | .ok loaded =>
  match entryOf q.flags with
  | none => .error .rejected                                          -- a flag set that was not observed
  | some ent =>
  if q.veldev1d && velDev1d ≠ "stack-axis1" then .error .rejected   -- a 1-D branch the model does not know
  else
  let ops := dOps q.params
  -- halo side: per slab the arrays of the returned keys, fill loop, sort block, assert
  let names := ent.returned.filter (· ≠ "hid")
  match mapE (fun s => slabArrays ops ent.haloSources q.veldev1d names s.halos) loaded with
  | .error e => .error e
  | .ok hslabs =>
  match stageHalos ent.permuted names hslabs with
  | .error e => .error e
  | .ok h =>
  -- particle side: every returned array that has a source (the id array `phid` apart), fill loop
  let pkeys := (ent.partSources.map (·.1)).filter (· ≠ "phid")
  let ploaded := if q.loadParts then loaded else []
  match mapE (fun s => slabArrays ops ent.partSources false pkeys s.parts) ploaded with
  | .error e => .error e
  | .ok pslabs =>
  match concatCols pkeys pslabs with
  | .error e => .error e
  | .ok p =>
  let dflt := ent.partDefaults.map (fun e =>
    (e.1, List.replicate p.hid.length (if e.2 = "ones" then ops.one else ops.zero)))
  .ok s!"ok numslabs={r.2} hid={showList h.hid} {showNamed q.unit "h" h.cols} phid={showList p.hid} pinds={showList (pinds h.hid p.hid)} {showNamed q.unit "p" (p.cols ++ dflt)}"

/-- request: `staging nfiles=<n> nchunks=<n> chunk=<int> flags=<want_AB,…|-> parts=<0|1> veldev1d=<0|1> unit=<int>
params=<name:scaled,…|-> (slab hid <ids> (col <field> <vals>)* phid <ids> (pcol <field> <vals>)*)*` — one `slab`
group per slab *file* (all of them; the model picks the loaded range), columns named by dataset *field*.
A value is `:`-joined integers (the exact value times `unit`), a column `,`-joined values. -/
def handle (args : List String) : String :=
  match args with
  | "staging" :: rest =>
    let hd := rest.takeWhile (· ≠ "slab")
    let body := rest.dropWhile (· ≠ "slab")
    match parseReq? hd with
    | some q =>
      match (splitSlabs body).mapM (parseSlab? q.unit) with
      | some slabs =>
        match runStaging q slabs with
        | .ok s => s
        | .error f => s!"err {f}"
      | none => "bad-op"
    | none => "bad-op"
  | ["argsort", l] =>
    match parseNatList? l with
    | some ids => showList (argsort ids)
    | none => "bad-op"
  | ["searchsorted", l, v] =>
    match parseNatList? l, parseNat? v with
    | some a, some v => toString (searchsortedLeft a v)
    | _, _ => "bad-op"
  | ["fill", c, l] =>   -- `fill <counts> <slab lengths>`: the fill loop on arrays of serial numbers (debug aid)
    match parseNatList? c, parseNatList? l with
    | some counts, some lens =>
      match fillColumn counts (lens.map (fun n => List.range n)) with
      | .ok v => showList v
      | .error f => s!"err {f}"
    | _, _ => "bad-op"
  | _ => "bad-op"

end AbacusVerif.Staging
