/-
  C11 — index models of the kernels that no other property models:

  * `linear_interp` (abacusnbody/analysis/power_spectrum.py)
  * the plain `for i in range(N)` element-wise kernels (`_unpack_rvint`, `_unpack_pids`,
    `_wrap_inplace`, `normalize_field`, `_normalize`, `get_raw_power`): row `i` of each array,
    a fixed set of column indices.

  The index models of the other kernels live with their properties: cumsum (C19), subsample zipper
  (C01), pack9 (C15), TSC/CIC (C06), partition (C17), `_tsc_parallel` (C07), mode binning (C08),
  HOD two-pass and `fast_concatenate` (C10).  Props/C11.lean collects the in-bounds corollaries.
-/
import AbacusVerif.Model.Num

namespace AbacusVerif.Inbounds
open AbacusVerif

inductive Access where
  | x (i : Nat)
  | y (i : Nat)
  deriving Repr, DecidableEq

def rd (len : Nat) (i : Int) (mk : Nat → Access) : Except Fault (List Access) :=
  match pyIndex len i with
  | some k => .ok [mk k]
  | none => .error .oob

/--
```python
if xd <= x[0]:   return y[0]
elif xd >= x[-1]: return y[-1]
dx = x[1] - x[0]
f = (xd - x[0]) / dx
fl = min(np.int64(f), len(x) - 2)
yd = y[fl] + (f - fl) * (y[fl + 1] - y[fl])
```
`leLeft` / `geRight` are the outcomes of the two floating-point comparisons and `f` is whatever value
the floating-point division produced (any rational): the model does not assume exact arithmetic. -/
def linearInterp (xLen yLen : Nat) (leLeft geRight : Bool) (f : Rat) : Except Fault (List Access) := do
  let a0 ← rd xLen 0 .x
  if leLeft then
    let b ← rd yLen 0 .y
    return a0 ++ b
  let a1 ← rd xLen (-1) .x
  if geRight then
    let b ← rd yLen (-1) .y
    return a0 ++ a1 ++ b
  let a2 ← rd xLen 1 .x
  let a3 ← rd xLen 0 .x
  let a4 ← rd xLen 0 .x
  let fl : Int := min (truncInt f) ((xLen : Int) - 2)
  let b0 ← rd yLen fl .y
  let b1 ← rd yLen (fl + 1) .y
  let b2 ← rd yLen fl .y
  return a0 ++ a1 ++ a2 ++ a3 ++ a4 ++ b0 ++ b1 ++ b2

/-- `for i in range(N): touch a[i, c] for c in cols` on an array with `rows` rows and `ncol` columns:
the list of resolved (row, col) pairs or a fault. -/
def rowLoop (N rows ncol : Nat) (cols : List Nat) : Except Fault (List (Nat × Nat)) :=
  (List.range N).foldlM (fun (acc : List (Nat × Nat)) (i : Nat) => do
    let r ← idx rows (i : Int)
    let cs ← cols.mapM (fun (c : Nat) => idx ncol (c : Int))
    pure (acc ++ cs.map (fun c => (r, c)))) []

def showAccess : Access → String
  | .x i => s!"x{i}"
  | .y i => s!"y{i}"

/-- requests:
 `interp <xLen> <yLen> <leLeft> <geRight> <f>`
 `rowloop <N> <rows> <ncol> <cols>` -/
def handle (args : List String) : String :=
  match args with
  | ["interp", xl, yl, a, b, f] =>
    match parseNat? xl, parseNat? yl, parseBool? a, parseBool? b, parseRat? f with
    | some xl, some yl, some a, some b, some f =>
      match linearInterp xl yl a b f with
      | .ok l => "ok " ++ showList (l.map showAccess)
      | .error e => s!"err {e}"
    | _, _, _, _, _ => "bad-op"
  | ["rowloop", n, rows, ncol, cols] =>
    match parseNat? n, parseNat? rows, parseNat? ncol, parseNatList? cols with
    | some n, some rows, some ncol, some cols =>
      match rowLoop n rows ncol cols with
      | .ok l => s!"ok {l.length}"
      | .error e => s!"err {e}"
    | _, _, _, _ => "bad-op"
  | _ => "bad-op"

end AbacusVerif.Inbounds
