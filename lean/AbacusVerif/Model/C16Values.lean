/-
  Values of the table columns returned by `read_asdf` (extends Model/C16.lean, which models names, order, row
  count, warning and metadata).  The raw column is handed to the *model decoders* of C04 (`Bitpacked.unpackRvint`,
  `Bitpacked.unpackPids`) and C15 (`Pack9.unpackPack9`) exactly as `read_asdf` hands it to the real ones:

  ```python
  table = Table(meta=header)
  if 'pos' in load: table.add_column(np.empty((Nmax, 3), dtype=dtype), copy=False, name='pos')
  if 'vel' in load: table.add_column(np.empty((Nmax, 3), dtype=dtype), copy=False, name='vel')
  if 'aux' in load: table.add_column(data, copy=False, name='aux')
  if colname == 'rvint':
      npos, nvel = unpack_rvint(data, header['BoxSize'], float_dtype=dtype,
                                posout=table['pos'] if 'pos' in load else False, velout=... 'vel' ...)
      nread = max(npos, nvel)
  elif colname == 'pack9':
      npos, nvel = unpack_pack9(data, header['BoxSize'], header['VelZSpace_to_kms'], float_dtype=dtype, posout=…, velout=…)
      nread = max(npos, nvel)
  elif 'pid' in colname:
      ppd = int(round(header['ppd']))
      cols = unpack_pids(data, box=header['BoxSize'], ppd=ppd, float_dtype=dtype,
                         pid='pid' in load, lagr_pos=…, tagged=…, density=…, lagr_idx=…)
      for n, col in cols.items(): table.add_column(col, name=n, copy=False)
      nread = len(data)
  table = table[:nread]
  ```

  A cell of a column is what was stored there: never written (`np.empty` memory), a value written by a C04 kernel,
  a value written by the pack9 kernel, or a raw word/record (the `aux` pass-through).  The float dtype only enters
  through `unpack_pack9`, which casts box and velocity scale to it first: `cast` is that rounding (`float_dtype(x)`).
-/
import AbacusVerif.Model.C16
import AbacusVerif.Model.C04
import AbacusVerif.Model.C15

namespace AbacusVerif.ReadAsdf
open AbacusVerif

/-- the raw column `data` -/
inductive Raw where
  | rvint (rows : List Bitpacked.Row32)     -- `(N, 3)` int32
  | pack9 (recs : List Pack9.Rec)           -- `(N, 9)` ubyte
  | pids (packed : List (BitVec 64))        -- `(N,)` uint64
  deriving DecidableEq

/-- `len(data)` -/
def Raw.len : Raw → Nat
  | .rvint rows => rows.length
  | .pack9 recs => recs.length
  | .pids p => p.length

inductive Cell where
  | uninit                                   -- `np.empty`, never written
  | bp (v : Bitpacked.Val)                   -- stored by `_unpack_rvint` / `_unpack_pids`
  | p9 (v : Pack9.V3)                        -- stored by `_unpack_pack9`
  | raw32 (r : Bitpacked.Row32)
  | raw9 (r : Pack9.Rec)
  | raw64 (w : BitVec 64)
  deriving DecidableEq

/-- the raw column as table column (`aux`) -/
def Raw.cells : Raw → List Cell
  | .rvint rows => rows.map .raw32
  | .pack9 recs => recs.map .raw9
  | .pids p => p.map .raw64

/-- `data` as `unpack_rvint` sees it before its own `reshape(-1, 3)` -/
def flatten (rows : List Bitpacked.Row32) : List (BitVec 32) :=
  rows.flatMap (fun r => [r.1, r.2.1, r.2.2])

/-- the header entries the decoders are given -/
structure HdrVals where
  box : Rat       -- header['BoxSize']
  velz : Rat      -- header['VelZSpace_to_kms']
  ppd : Rat       -- header['ppd']

abbrev Column := Col × List Cell

/-- a fresh `np.empty((n, …))` column -/
def emptyCol (n : Nat) : List Cell := List.replicate n .uninit

def bpWrites (w : Bitpacked.Writes) : List (Nat × Cell) := w.map (fun kv => (kv.1, Cell.bp kv.2))
def p9Writes (w : List (Nat × Pack9.V3)) : List (Nat × Cell) := w.map (fun kv => (kv.1, Cell.p9 kv.2))

/-- what an `unpack_rvint` return element tells the caller: the count, and what it stored into the caller's array -/
def bpCount : Bitpacked.Ret → Nat
  | .arr n _ => n
  | .cnt n _ => n
def bpRetWrites : Bitpacked.Ret → Bitpacked.Writes
  | .arr _ w => w
  | .cnt _ w => w

def p9Count : Pack9.Ret → Nat
  | .arr rows => rows.length
  | .count n => n

/-- the dictionary key of `unpack_pids` as column name -/
def colOfName (s : String) : Col := parseCol s

/-- `[x] if c in load else []` -/
def optCol (load : List Col) (c : Col) (cells : List Cell) : List Column :=
  if c ∈ load then [(c, cells)] else []

def truncate (nread : Nat) (cols : List Column) : List Column := cols.map (fun c => (c.1, c.2.take nread))

/-- table construction, decoding and truncation, with values -/
def assembleV (cn : ColName) (raw : Raw) (load : List Col) (h : HdrVals) (cast : Rat → Rat) :
    Except Err (List Column) :=
  let nmax := raw.len
  match cn, raw with
  | .known .rvint, .rvint rows =>
    let po : Bitpacked.OutReq := if Col.pos ∈ load then .supplied (3 * nmax) else .skip
    let vo : Bitpacked.OutReq := if Col.vel ∈ load then .supplied (3 * nmax) else .skip
    match Bitpacked.unpackRvint (flatten rows) h.box po vo with
    | .error e => .error (.decode e)
    | .ok (p, v) =>
      let nread := max (bpCount p) (bpCount v)
      .ok (truncate nread
        (optCol load .pos (applyWrites (emptyCol nmax) (bpWrites (bpRetWrites p))) ++
         optCol load .vel (applyWrites (emptyCol nmax) (bpWrites (bpRetWrites v))) ++
         optCol load .aux raw.cells))
  | .known .pack9, .pack9 recs =>
    let po : Pack9.OutOpt := if Col.pos ∈ load then .supplied nmax else .skip
    let vo : Pack9.OutOpt := if Col.vel ∈ load then .supplied nmax else .skip
    match Pack9.unpackPack9 recs (cast h.box) (cast h.velz) po vo with
    | .error e => .error (.decode e)
    | .ok r =>
      let nread := max (p9Count r.retPos) (p9Count r.retVel)
      .ok (truncate nread
        (optCol load .pos (applyWrites (emptyCol nmax) (p9Writes r.out.posW)) ++
         optCol load .vel (applyWrites (emptyCol nmax) (p9Writes r.out.velW)) ++
         optCol load .aux raw.cells))
  | cn, .pids packed =>
    if cn.hasPid then
      let sel : Bitpacked.PidSel :=
        ⟨decide (Col.pid ∈ load), decide (Col.lagr_pos ∈ load), decide (Col.tagged ∈ load),
         decide (Col.density ∈ load), decide (Col.lagr_idx ∈ load)⟩
      let ppd : Int := rhe h.ppd        -- `int(round(header['ppd']))`
      match Bitpacked.unpackPids packed (some h.box) (some (ppd : Rat)) sel with
      | .error e => .error (.decode e)
      | .ok d =>
        .ok (truncate nmax
          (optCol load .pos (emptyCol nmax) ++ optCol load .vel (emptyCol nmax) ++ optCol load .aux raw.cells ++
           d.map (fun e => (colOfName e.1, applyWrites (emptyCol e.2.1) (bpWrites e.2.2)))))
    else .error .unboundNread
  | .other false, _ => .error .unboundNread
  | _, _ => .error (.decode .rejected)      -- the raw column does not have the type its name promises

/-- the file with its contents -/
structure FileData where
  raw : ColName → Option Raw      -- `tree[data_key].get(colname)`
  hdr : HdrVals
  lightcone : Bool
  summit : Bool

def pack9Particles : Option Raw → Nat
  | some (.pack9 recs) => (recs.filter (fun c => !Pack9.isHeader c)).length
  | _ => 0

/-- what Model/C16.lean looks at -/
def FileData.toDesc (f : FileData) : FileDesc :=
  { present := fun k => (f.raw (.known k)).isSome
    otherPresent := (f.raw (.other true)).isSome || (f.raw (.other false)).isSome
    len := fun c => match f.raw c with | some r => r.len | none => 0
    npart := pack9Particles (f.raw (.known .pack9))
    lightcone := f.lightcone
    summit := f.summit }

structure OutcomeV where
  colname : ColName
  cols : List Column
  warn : Option Warn
  addsSubsample : Bool
  deriving DecidableEq

/-- `read_asdf` with values -/
def readAsdfV (f : FileData) (cast : Rat → Rat) (colname : Option ColName) (load : Option (List Col))
    (lp lv : Option Bool) : Except Err OutcomeV := do
  let cn ← detect f.toDesc.present colname
  let (l, warn) := resolve cn load lp lv
  match f.raw cn with
  | none => .error .keyError
  | some raw =>
    let cols ← assembleV cn raw l f.hdr cast
    .ok { colname := cn, cols := cols, warn := warn, addsSubsample := f.lightcone && f.summit }

/-! ### the direct decoding: every output requested, freshly allocated -/

def optV3Cell : Option Pack9.V3 → Cell
  | none => .uninit
  | some v => .p9 v

def p9RetCells : Pack9.Ret → List Cell
  | .arr rows => rows.map optV3Cell
  | .count _ => []

def bpRetCells : Bitpacked.Ret → List Cell
  | .arr n w => applyWrites (emptyCol n) (bpWrites w)
  | .cnt _ _ => []

/-- `unpack_rvint(data, box)` / `unpack_pack9(data, box, velz)` / `unpack_pids(data, box, ppd, <all True>)` called
directly on the raw column, plus the raw column itself -/
def directAll (cn : ColName) (raw : Raw) (h : HdrVals) (cast : Rat → Rat) : Except Err (List Column) :=
  match cn, raw with
  | .known .rvint, .rvint rows =>
    match Bitpacked.unpackRvint (flatten rows) h.box .allocate .allocate with
    | .error e => .error (.decode e)
    | .ok (p, v) => .ok [(.pos, bpRetCells p), (.vel, bpRetCells v)]
  | .known .pack9, .pack9 recs =>
    match Pack9.unpackPack9 recs (cast h.box) (cast h.velz) .alloc .alloc with
    | .error e => .error (.decode e)
    | .ok r => .ok [(.pos, p9RetCells r.retPos), (.vel, p9RetCells r.retVel)]
  | cn, .pids packed =>
    if cn.hasPid then
      match Bitpacked.unpackPids packed (some h.box) (some ((rhe h.ppd : Int) : Rat)) ⟨true, true, true, true, true⟩ with
      | .error e => .error (.decode e)
      | .ok d => .ok (d.map (fun e => (colOfName e.1, applyWrites (emptyCol e.2.1) (bpWrites e.2.2))) ++ [(.aux, raw.cells)])
    else .error .unboundNread
  | .other false, _ => .error .unboundNread
  | _, _ => .error (.decode .rejected)

/-! ### driver -/

def showRatV (q : Rat) : String := showRat q

def showBpVal : Bitpacked.Val → String
  | .int v => toString v
  | .tri a b c => s!"{a}:{b}:{c}"
  | .rat q => showRat q
  | .triRat a b c => s!"{showRat a}:{showRat b}:{showRat c}"

def showCell : Cell → String
  | .uninit => "U"
  | .bp v => showBpVal v
  | .p9 v => s!"{Pack9.showVal v.1}:{Pack9.showVal v.2.1}:{Pack9.showVal v.2.2}"
  | .raw32 r => s!"{r.1.toInt}:{r.2.1.toInt}:{r.2.2.toInt}"
  | .raw9 r => Pack9.showRec r
  | .raw64 w => toString w.toNat

def showColumn (c : Column) : String :=
  s!"{c.1.name}=" ++ (if c.2.isEmpty then "-" else ";".intercalate (c.2.map showCell))

def rows32 : List (BitVec 32) → Option (List Bitpacked.Row32) := Bitpacked.triples

def parseRaw (key data : String) : Option Raw :=
  if key = "rvint" then
    (parseIntList? data).bind (fun l => (rows32 (Bitpacked.words32 l)).map Raw.rvint)
  else if key = "pack9" then (Pack9.parseStream data).map Raw.pack9
  else (parseNatList? data).map (fun l => Raw.pids (Bitpacked.words64 l))

/-- `readv <key: the one raw column of the file> <box> <velz> <ppd> <cast box> <cast velz> <lightcone> <summit>
<colname> <load> <load_pos> <load_vel> <raw data>`; everything else is passed to `handle` of Model/C16.lean -/
def handleV (args : List String) : String :=
  match args with
  | ["readv", key, box, velz, ppd, cbox, cvelz, lc, sm, cn, load, lp, lv, data] =>
    match parseColName? key, parseRat? box, parseRat? velz, parseRat? ppd, parseRat? cbox, parseRat? cvelz with
    | some (some kcn), some box, some velz, some ppd, some cbox, some cvelz =>
      match parseBool? lc, parseBool? sm, parseColName? cn, parseTri? lp, parseTri? lv, parseRaw key data with
      | some lc, some sm, some cn, some lp, some lv, some raw =>
        let f : FileData :=
          { raw := fun c => if c = kcn then some raw else none
            hdr := ⟨box, velz, ppd⟩, lightcone := lc, summit := sm }
        let cast : Rat → Rat := fun x => if x = box then cbox else if x = velz then cvelz else x
        match readAsdfV f cast cn (parseLoad load) lp lv with
        | .error e => s!"err {e.toString}"
        | .ok o =>
          let cs := if o.cols.isEmpty then "-" else "|".intercalate (o.cols.map showColumn)
          s!"ok colname={o.colname.show} warn={showWarn o.warn} subsample={if o.addsSubsample then 1 else 0} cols={cs}"
      | _, _, _, _, _, _ => "bad-op"
    | _, _, _, _, _, _ => "bad-op"
  | _ => handle args

end AbacusVerif.ReadAsdf
