/-
  Model of `abacusnbody.analysis.tsc.partition_parallel` (abacusnbody/analysis/tsc.py), statement
  by statement.

  ```python
  inv_pwidth = dtype(npartition / boxsize)
  keys = np.empty(len(pos), dtype=np.int32)
  counts = np.zeros((nthread, npartition), dtype=np.int32)
  tstart = np.linspace(0, len(pos), nthread + 1).astype(np.int64)
  for t in numba.prange(nthread):
      for i in range(tstart[t], tstart[t + 1]):
          keys[i] = min(np.int32(pos[i, coord] * inv_pwidth), npartition - 1)
          counts[t, keys[i]] += 1

  pointers = np.empty(nthread * npartition, dtype=np.int64)
  pointers[0] = 0
  pointers[1:] = np.cumsum(counts.T)[:-1]
  pointers = np.ascontiguousarray(pointers.reshape(npartition, nthread).T)

  starts = np.empty(npartition + 1, dtype=np.int64)
  starts[:-1] = pointers[0]
  starts[-1] = len(pos)

  psort = np.empty_like(pos)
  for t in numba.prange(nthread):
      for i in range(tstart[t], tstart[t + 1]):
          k = keys[i]
          s = pointers[t, k]
          psort[s] = pos[i];  wsort[s] = weights[i]
          pointers[t, k] += 1

  if sort:
      for i in numba.prange(npartition):
          part = psort[starts[i] : starts[i + 1]]
          iord = part[:, coord].argsort()
          part[:] = part[iord];  weightspart[:] = weightspart[iord]
  return psort, starts, wsort
  ```

  Conventions.
  * A particle is a row of an arbitrary type `α` (the driver uses `(input index, coordinate)`, the
    theorems are generic; positions and weights are written with the same slot `s`, so a row is the
    pair).  The model works on `keyed : List (Nat × α)`, the rows paired with their stripe key.
  * `keyInt` is the expression `min(np.int32(x * inv_pwidth), npartition - 1)` over exact rationals
    (`np.int32(float)` truncates toward zero).  The key indexes `counts[t, ·]` and `pointers[t, ·]`,
    both of length `npartition`, through the Python index rule (`effKey`): a key in `[-np, 0)` wraps,
    anything else faults.
  * `tstart` is a parameter `b` (list of block boundaries); `linspaceBlocks` is the concrete sequence
    `⌊i·N/T⌋` the real `linspace(...).astype(int64)` produces.  The theorems hold for every monotone
    `b` from 0 to N.
  * `np.cumsum` is modelled by its specification: the flat exclusive prefix sum at flat index `j` is
    the sum of the first `j` entries of `counts.T` in row-major order; `reshape(np, T).T` makes
    `pointers[t, s]` the entry at flat index `s·T + t`.
  * `np.empty_like(pos)` is an arbitrary list `init` of the right length (uninitialised memory).
  * The scatter is a write list `(slot, row)`; `applyWritesChk` faults on a slot outside the array.
  * `argsort` (numba: quicksort, not stable) is modelled by a merge sort on the coordinate; only
    "sorted permutation of the stripe" is claimed about it.
-/
import AbacusVerif.Model.Num

namespace AbacusVerif.Partition
open AbacusVerif

/-! ### keys -/

/-- `min(np.int32(x * inv_pwidth), npartition - 1)` with `inv_pwidth = npartition / boxsize` exact -/
def keyInt (np : Nat) (box x : Rat) : Int :=
  min (truncInt (x * ((np : Rat) / box))) ((np : Int) - 1)

/-- the key as an index into a length-`np` row (`counts[t, key]`, `pointers[t, key]`) -/
def effKey (np : Nat) (box x : Rat) : Except Fault Nat := idx np (keyInt np box x)

/-! ### thread blocks -/

/-- `np.linspace(0, n, T + 1).astype(np.int64)` in exact arithmetic -/
def linspaceBlocks (n T : Nat) : List Nat := (List.range (T + 1)).map (fun i => i * n / T)

/-- `[(tstart[t], tstart[t+1]) for t in range(nthread)]` -/
def threadsOf (b : List Nat) : List (Nat × Nat) := b.zip b.tail

/-- the elements with index in `range(lo, hi)` -/
def slice {α} (lo hi : Nat) (l : List α) : List α := (l.drop lo).take (hi - lo)

/-! ### first pass: per-thread histograms, transposed prefix sums -/

/-- `counts[t, s]` after the first pass, for the thread with block `th` -/
def cnt (keys : List Nat) (th : Nat × Nat) (s : Nat) : Nat := (slice th.1 th.2 keys).count s

/-- the matrix `counts` (one row per thread) -/
def countsMatrix (np : Nat) (threads : List (Nat × Nat)) (keys : List Nat) : List (List Nat) :=
  threads.map (fun th => (List.range np).map (cnt keys th))

/-- `counts.T` flattened in row-major order: for each stripe, for each thread -/
def countsTFlat (np : Nat) (threads : List (Nat × Nat)) (keys : List Nat) : List Nat :=
  (List.range np).flatMap (fun s => threads.map (fun th => cnt keys th s))

/-- `pointers[t, s]`: entry `s·T + t` of the exclusive prefix sums of `flat = counts.T.ravel()` -/
def ptr (flat : List Nat) (T t s : Nat) : Nat := (flat.take (s * T + t)).sum

/-- `starts[:-1] = pointers[0]; starts[-1] = len(pos)` -/
def starts (flat : List Nat) (np T n : Nat) : List Nat :=
  (List.range np).map (fun s => ptr flat T 0 s) ++ [n]

/-! ### second pass: scatter -/

/-- `pointers[t, k] += 1` on thread `t`'s private row -/
def bump (cur : Nat → Nat) (k : Nat) : Nat → Nat := fun s => if s = k then cur s + 1 else cur s

/-- the inner loop of one thread: for every particle of its block, in order, write it at the cursor of
its key and advance that cursor -/
def scatterThread {α} : (Nat → Nat) → List (Nat × α) → List (Nat × α)
  | _, [] => []
  | cur, (k, a) :: rest => (cur k, a) :: scatterThread (bump cur k) rest

/-- all writes to `psort`, threads in order (any interleaving of the threads is a permutation of it) -/
def allWrites {α} (flat : List Nat) (T : Nat) (threads : List (Nat × Nat)) (keyed : List (Nat × α)) :
    List (Nat × α) :=
  threads.zipIdx.flatMap (fun tht => scatterThread (ptr flat T tht.2) (slice tht.1.1 tht.1.2 keyed))

/-- apply a write list in order; a slot outside the array is a fault -/
def applyWritesChk {β} : List β → List (Nat × β) → Except Fault (List β)
  | a, [] => .ok a
  | a, (i, v) :: ws => if i < a.length then applyWritesChk (a.set i v) ws else .error .oob

/-! ### optional per-stripe sort -/

/-- `part = psort[lo:hi]; part[:] = part[part[:, coord].argsort()]` for each stripe in turn
(Python slices clip, and an inverted slice is empty) -/
def sortSlices {α} (le : α → α → Bool) : List (Nat × Nat) → List α → List α
  | [], a => a
  | (lo, hi) :: rest, a =>
    let hi' := max lo hi
    sortSlices le rest (a.take lo ++ (slice lo hi' a).mergeSort le ++ a.drop hi')

/-! ### the routine -/

structure Out (α : Type) where
  psort : List α
  starts : List Nat
  writes : List (Nat × α)

def partition {α} (np T : Nat) (b : List Nat) (keyed : List (Nat × α)) (init : List α)
    (sort : Option (α → α → Bool)) : Except Fault (Out α) :=
  if b.length ≠ T + 1 ∨ init.length ≠ keyed.length then .error .badLength
  else if np = 0 ∨ T = 0 then .error .oob      -- `pointers[0] = 0` on an empty array
  else
    let threads := threadsOf b
    let keys := keyed.map (·.1)
    let flat := countsTFlat np threads keys
    let st := starts flat np T keyed.length
    let ws := allWrites flat T threads keyed
    match applyWritesChk init ws with
    | .error f => .error f
    | .ok ps =>
      match sort with
      | none => .ok ⟨ps, st, ws⟩
      | some le => .ok ⟨sortSlices le (threadsOf st) ps, st, ws⟩

/-! ### specification vocabulary -/

/-- the stable partition: for each stripe in increasing order, its members in input order -/
def stable {α} (np : Nat) (keyed : List (Nat × α)) : List α :=
  (List.range np).flatMap (fun s => (keyed.filter (fun ka => ka.1 = s)).map (·.2))

/-- `starts[s]` should be the number of particles with key `< s` -/
def startsSpec (np : Nat) (keys : List Nat) : List Nat :=
  (List.range (np + 1)).map (fun s => keys.countP (· < s))

/-! ### driver -/

/-- request: `part <np> <T> <blocks | auto> <box> <sort 0|1> <xs>`; the rows are `(input index, x)`;
answer: `ok starts=… order=<input index at each output slot> slots=<slot of each write, thread order>`.
`blocks <n> <T>` answers the concrete block sequence. -/
def handle (args : List String) : String :=
  match args with
  | ["blocks", n, t] =>
    match parseNat? n, parseNat? t with
    | some n, some t => if t = 0 then "bad-op" else showList (linspaceBlocks n t)
    | _, _ => "bad-op"
  | ["key", np, box, x] =>
    match parseNat? np, parseRat? box, parseRat? x with
    | some np, some box, some x =>
      match effKey np box x with
      | .ok k => s!"ok {k}"
      | .error f => s!"err {f}"
    | _, _, _ => "bad-op"
  | ["part", np, t, blocks, box, srt, xs] =>
    match parseNat? np, parseNat? t, parseRat? box, parseBool? srt, parseRatList? xs with
    | some np, some t, some box, some srt, some xs =>
      let b? : Option (List Nat) := if blocks = "auto" then (if t = 0 then none else some (linspaceBlocks xs.length t))
        else parseNatList? blocks
      match b? with
      | none => "bad-op"
      | some b =>
        if box ≤ 0 then "bad-op" else
        match xs.mapM (effKey np box) with
        | .error f => s!"err {f}"
        | .ok keys =>
          let rows : List (Nat × Rat) := xs.zipIdx.map (fun xi => (xi.2, xi.1))
          let keyed := keys.zip rows
          let init : List (Nat × Rat) := List.replicate xs.length (xs.length + 777, 0)
          let le : Option ((Nat × Rat) → (Nat × Rat) → Bool) :=
            if srt then some (fun a c => decide (a.2 ≤ c.2)) else none
          match partition np t b keyed init le with
          | .error f => s!"err {f}"
          | .ok o =>
            s!"ok starts={showList o.starts} order={showList (o.psort.map (·.1))} slots={showList (o.writes.map (·.1))}"
    | _, _, _, _, _ => "bad-op"
  | _ => "bad-op"

end AbacusVerif.Partition
