/-
  Model of the subsample indexing of `CompaSOHaloCatalog`
  (abacusnbody/data/compaso_halo_catalog.py: `_read_halo_info` compaction, `_compute_new_subsample_indices`,
  `_load_subsamples`, `_unpack_rv_subsamples` / `_unpack_pid_subsamples`, `_update_subsample_index_cols`,
  `_load_halo_lc_subsamples`), step by step.  Core Lean only.

  Particles are abstract words of any type `α` (the correspondence uses `Nat` tokens, one per record that
  `catgen` wrote; the rv file and the pid file of a subsample have the same indexing, so one token stands
  for the particle in both).  A filter function is, per superslab, the Boolean mask it returns.

  What the stages mirror
  ----------------------
  * `rowsOf` / `readFile` / `readAll` : `_read_halo_info` — the cleaned/regular length assert, the view
    `halos = self.halos[N_written : N_written+len(raw)]`, `halos[:nmask] = halos[mask]`,
    `N_written += nmask`, `N_halo_per_file[i] = nmask`, final `self.halos[:N_written]`.  The model keeps the
    written prefix of the preallocated table (cells past `N_written` are dead: overwritten by the next file
    or truncated).
  * `newIdx` : `_compute_new_subsample_indices` — for AB in load_AB: `npoutAB[cleaned_mask] = 0` (in place),
    `npoutAB + npoutAB_merge`, `util.cumsum(..., initial=True, final=True, offset=offset)` (the C19 model),
    the running total carried from A into B.
  * `load` : `N_subsamp = new['B'][-1] if 'B' in load_AB else new['A'][-1]`, `halo_file_offsets`
    = cumsum (C19 model) of the post-filter counts, loops `for AB in load_AB: for i in range(nslab)`.
  * `zipSlabs` : the slices `self.halos[k][hfo[i]:hfo[i+1]]`, `new[hfo[i]:hfo[i+1]+1]` (clipped).
  * `zipRows` : the njit kernels.  `wstart :: wend :: _` is `slab_write_offsets[i]`, `[i+1]` (a missing
    element is an out-of-bounds read).  `out[wstart:wend]` is clipped to the table; `view[:len(src)] = src`
    clips the target to the view and then needs equal lengths (numba raises ValueError); when no raw word
    column is present the unpack kernel writes `view[k]` for `k < len(src)` without a length test, so a
    short view is an out-of-bounds write.
  * result: `new[:-1]` and `diff new` replace the index columns.
-/
import AbacusVerif.Model.C19

namespace AbacusVerif.Catalog
open AbacusVerif

inductive Sub where
  | A
  | B
  deriving Repr, DecidableEq

/-- raw halo_info index columns of one halo (`n` is the raw `N`) -/
structure Halo where
  startA : Nat
  npA : Nat
  startB : Nat
  npB : Nat
  n : Nat
  deriving Repr, DecidableEq

/-- cleaned_halo_info columns of one halo -/
structure Clean where
  mStartA : Nat
  mNpA : Nat
  mStartB : Nat
  mNpB : Nat
  nTotal : Nat
  deriving Repr, DecidableEq

def Halo.start (h : Halo) : Sub → Nat
  | .A => h.startA
  | .B => h.startB

def Halo.np (h : Halo) : Sub → Nat
  | .A => h.npA
  | .B => h.npB

def Halo.zeroNp (h : Halo) : Sub → Halo
  | .A => { h with npA := 0 }
  | .B => { h with npB := 0 }

def Clean.mStart (c : Clean) : Sub → Nat
  | .A => c.mStartA
  | .B => c.mStartB

def Clean.mNp (c : Clean) : Sub → Nat
  | .A => c.mNpA
  | .B => c.mNpB

/-- one superslab: halo_info rows, cleaned_halo_info rows, the A/B particle files and the
`cleaned_rvpid` A/B columns -/
structure Slab (α : Type) where
  halos : List Halo
  clean : List Clean
  partA : List α
  partB : List α
  cleanA : List α
  cleanB : List α

def Slab.part {α} (s : Slab α) : Sub → List α
  | .A => s.partA
  | .B => s.partB

def Slab.cleanPart {α} (s : Slab α) : Sub → List α
  | .A => s.cleanA
  | .B => s.cleanB

structure Opts where
  cleaned : Bool
  loadA : Bool
  loadB : Bool
  /-- a raw word column (`rvint` / `packedpid`) is among the outputs -/
  rawCol : Bool
  /-- `none`: no `filter_func`; `some ms`: the mask the filter returns for each superslab -/
  masks : Option (List (List Bool))

/-- a row of the halo table: the raw columns and, in a cleaned load, the cleaning columns -/
abbrev Row := Halo × Option Clean

/-- `load_AB` -/
def loadList (o : Opts) : List Sub :=
  (if o.loadA then [Sub.A] else []) ++ (if o.loadB then [Sub.B] else [])

/-- basic slice `a[lo:hi]` with non-negative bounds: clipped, empty when `hi ≤ lo` -/
def pySlice {β} (a : List β) (lo hi : Nat) : List β := (a.drop lo).take (hi - lo)

/-! ### `_read_halo_info` -/

def rowsOf {α} (cleaned : Bool) (s : Slab α) : Except Fault (List Row) :=
  if cleaned then
    if s.clean.length ≠ s.halos.length then .error .badLength
    else .ok (s.halos.zip (s.clean.map some))
  else .ok (s.halos.map (fun h => (h, none)))

/-- `halos[mask]` -/
def maskRows {β} (rows : List β) (m : List Bool) : List β :=
  ((rows.zip m).filter (fun p => p.2)).map (fun p => p.1)

/-- one file: its kept rows (`len` of the result is `N_halo_per_file[i]`) -/
def readFile {α} (cleaned : Bool) (s : Slab α) (mask : Option (List Bool)) : Except Fault (List Row) :=
  match rowsOf cleaned s with
  | .error e => .error e
  | .ok rows =>
    match mask with
    | none => .ok rows
    | some m => if m.length ≠ rows.length then .error .badLength else .ok (maskRows rows m)

def masksFor (masks : Option (List (List Bool))) (n : Nat) : Except Fault (List (Option (List Bool))) :=
  match masks with
  | none => .ok (List.replicate n none)
  | some ms => if ms.length ≠ n then .error .rejected else .ok (ms.map some)

def readAll {α} (cleaned : Bool) : List (Slab α) → List (Option (List Bool)) → Except Fault (List (List Row))
  | [], _ => .ok []
  | s :: ss, m :: ms =>
    match readFile cleaned s m with
    | .error e => .error e
    | .ok k =>
      match readAll cleaned ss ms with
      | .error e => .error e
      | .ok ks => .ok (k :: ks)
  | _ :: _, [] => .error .rejected

/-! ### `_compute_new_subsample_indices` -/

/-- `self.halos['npoutX'][N_total == 0] = 0` on one row -/
def zeroCleaned (X : Sub) (r : Row) : Row :=
  match r.2 with
  | some c => if c.nTotal = 0 then (r.1.zeroNp X, r.2) else r
  | none => r

/-- `npoutX + npoutX_merge` (the second term only in a cleaned load) -/
def cnt (X : Sub) (r : Row) : Nat :=
  r.1.np X + (match r.2 with | some c => c.mNp X | none => 0)

/-- what the code computes: both columns are `uint32`, so `npoutX + npoutX_merge` is taken modulo 2^32
(numpy / astropy Column addition wraps) before `util.cumsum` accumulates it into `uint64` -/
def cnt32 (X : Sub) (r : Row) : Nat := cnt X r % 2 ^ 32

/-- `out = np.empty(len(arr)+1); total = util.cumsum(arr, out, initial=True, final=True, offset=off)` -/
def cumsumArr (arr : List Nat) (off : Nat) : Except Fault (List Nat × Nat) :=
  match Cumsum.cumsum arr (arr.length + 1) true true off with
  | .error e => .error e
  | .ok s => .ok (applyWrites (List.replicate (arr.length + 1) 0) s.writes, s.total)

def newIdx : List Sub → List Row → Nat → Except Fault (List Row × List (Sub × List Nat))
  | [], tbl, _ => .ok (tbl, [])
  | X :: rest, tbl, off =>
    let tbl' := tbl.map (zeroCleaned X)
    match cumsumArr (tbl'.map (cnt32 X)) off with
    | .error e => .error e
    | .ok (new, off') =>
      match newIdx rest tbl' off' with
      | .error e => .error e
      | .ok (tbl'', more) => .ok (tbl'', (X, new) :: more)

/-- `a[-1]` -/
def lastOf (a : List Nat) : Except Fault Nat :=
  match pyIndex a.length (-1) with
  | some k => match a[k]? with
    | some v => .ok v
    | none => .error .oob
  | none => .error .oob

def lookupSub (X : Sub) : List (Sub × List Nat) → Option (List Nat)
  | [] => none
  | (Y, l) :: rest => if X = Y then some l else lookupSub X rest

/-- `npstartAB_new['B'][-1] if 'B' in load_AB else npstartAB_new['A'][-1]` -/
def nSubsamp (news : List (Sub × List Nat)) : Except Fault Nat :=
  match lookupSub .B news with
  | some nb => lastOf nb
  | none => match lookupSub .A news with
    | some na => lastOf na
    | none => .error .rejected

/-! ### the zipper -/

/-- `view[:len(src)] = src` (raw word column) / the unpack loop `view[k] = decode(src[k])`, for the view
`out[vs : vs+vl]`; returns the write list -/
def assign {α} (rawCol : Bool) (vs vl : Nat) (src : List α) : Except Fault (List (Nat × α)) :=
  if src.length ≤ vl then .ok ((List.range' vs src.length).zip src)
  else .error (if rawCol then .badLength else .oob)

def zipRows {α} (rawCol : Bool) (nSub : Nat) (X : Sub) (part cl : List α) :
    List Row → List Nat → Except Fault (List (Nat × α))
  | [], _ => .ok []
  | r :: rs, wstart :: wend :: more =>
    let hp := pySlice part (r.1.start X) (r.1.start X + r.1.np X)
    -- out[wstart:wend], clipped to the table
    let vs := min wstart nSub
    let vl := min wend nSub - vs
    match assign rawCol vs vl hp with
    | .error e => .error e
    | .ok w1 =>
      let second : Except Fault (List (Nat × α)) :=
        match r.2 with
        | some c =>
          let cp := pySlice cl (c.mStart X) (c.mStart X + c.mNp X)
          let woff := r.1.np X          -- fast-forward by the read LENGTH column, not by len(hp)
          assign rawCol (vs + min woff vl) (vl - woff) cp
        | none => .ok []
      match second with
      | .error e => .error e
      | .ok w2 =>
        match zipRows rawCol nSub X part cl rs (wend :: more) with
        | .error e => .error e
        | .ok rest => .ok (w1 ++ w2 ++ rest)
  | _ :: _, _ => .error .oob

def zipSlabs {α} (rawCol : Bool) (nSub : Nat) (X : Sub) (tbl : List Row) (new : List Nat) :
    List (Slab α) → List Nat → Except Fault (List (Nat × α))
  | [], _ => .ok []
  | s :: ss, h0 :: h1 :: more =>
    let rows := pySlice tbl h0 h1
    let swo := pySlice new h0 (h1 + 1)
    match zipRows rawCol nSub X (s.part X) (s.cleanPart X) rows swo with
    | .error e => .error e
    | .ok w =>
      match zipSlabs rawCol nSub X tbl new ss (h1 :: more) with
      | .error e => .error e
      | .ok rest => .ok (w ++ rest)
  | _ :: _, _ => .error .oob

def zipAll {α} (rawCol : Bool) (nSub : Nat) (tbl : List Row) (slabs : List (Slab α)) (hfo : List Nat) :
    List (Sub × List Nat) → Except Fault (List (Nat × α))
  | [] => .ok []
  | (X, new) :: rest =>
    match zipSlabs rawCol nSub X tbl new slabs hfo with
    | .error e => .error e
    | .ok w =>
      match zipAll rawCol nSub tbl slabs hfo rest with
      | .error e => .error e
      | .ok ws => .ok (w ++ ws)

/-- `np.diff` of a non-decreasing list -/
def diff : List Nat → List Nat
  | a :: b :: rest => (b - a) :: diff (b :: rest)
  | _ => []

/-- `np.diff(new).astype(np.uint32)` -/
def diff32 (l : List Nat) : List Nat := (diff l).map (· % 2 ^ 32)

/-! ### the same loops with every offset read through the index rule, as coded -/

/-- `a[i]` for a non-negative loop index -/
def getAt {β} (a : List β) (i : Nat) : Except Fault β :=
  match idx a.length (i : Int) with
  | .error e => .error e
  | .ok k => match a[k]? with
    | some v => .ok v
    | none => .error .oob

/-- `for i in range(N_halo)` of the njit kernels, iteration `i` with `n` iterations left: reads
`slab_read_offsets[i]`, `slab_read_lens[i]` (the row), `slab_write_offsets[i]`, `slab_write_offsets[i+1]` -/
def zipRowsI.go {α} (rawCol : Bool) (nSub : Nat) (X : Sub) (part cl : List α) (rows : List Row) (swo : List Nat) :
    Nat → Nat → Except Fault (List (Nat × α))
  | _, 0 => .ok []
  | i, n + 1 =>
    match getAt rows i with
    | .error e => .error e
    | .ok r =>
    let hp := pySlice part (r.1.start X) (r.1.start X + r.1.np X)
    match getAt swo i with
    | .error e => .error e
    | .ok wstart =>
    match getAt swo (i + 1) with
    | .error e => .error e
    | .ok wend =>
    let vs := min wstart nSub
    let vl := min wend nSub - vs
    match assign rawCol vs vl hp with
    | .error e => .error e
    | .ok w1 =>
      let second : Except Fault (List (Nat × α)) :=
        match r.2 with
        | some c =>
          let cp := pySlice cl (c.mStart X) (c.mStart X + c.mNp X)
          let woff := r.1.np X
          assign rawCol (vs + min woff vl) (vl - woff) cp
        | none => .ok []
      match second with
      | .error e => .error e
      | .ok w2 =>
        match zipRowsI.go rawCol nSub X part cl rows swo (i + 1) n with
        | .error e => .error e
        | .ok rest => .ok (w1 ++ w2 ++ rest)

/-- `N_halo = len(slab_read_offsets); for i in range(N_halo): …` -/
def zipRowsI {α} (rawCol : Bool) (nSub : Nat) (X : Sub) (part cl : List α) (rows : List Row) (swo : List Nat) :
    Except Fault (List (Nat × α)) :=
  zipRowsI.go rawCol nSub X part cl rows swo 0 rows.length

/-- `for i in range(len(self.superslab_inds))`: the particle files of superslab `i`,
`halo_file_offsets[i]`, `halo_file_offsets[i+1]` -/
def zipSlabsI.go {α} (rawCol : Bool) (nSub : Nat) (X : Sub) (tbl : List Row) (new : List Nat)
    (slabs : List (Slab α)) (hfo : List Nat) : Nat → Nat → Except Fault (List (Nat × α))
  | _, 0 => .ok []
  | i, n + 1 =>
    match getAt slabs i with
    | .error e => .error e
    | .ok s =>
    match getAt hfo i with
    | .error e => .error e
    | .ok h0 =>
    match getAt hfo (i + 1) with
    | .error e => .error e
    | .ok h1 =>
    let rows := pySlice tbl h0 h1
    let swo := pySlice new h0 (h1 + 1)
    match zipRowsI rawCol nSub X (s.part X) (s.cleanPart X) rows swo with
    | .error e => .error e
    | .ok w =>
      match zipSlabsI.go rawCol nSub X tbl new slabs hfo (i + 1) n with
      | .error e => .error e
      | .ok rest => .ok (w ++ rest)

def zipSlabsI {α} (rawCol : Bool) (nSub : Nat) (X : Sub) (tbl : List Row) (new : List Nat)
    (slabs : List (Slab α)) (hfo : List Nat) : Except Fault (List (Nat × α)) :=
  zipSlabsI.go rawCol nSub X tbl new slabs hfo 0 slabs.length

/-- `for AB in load_AB` -/
def zipAllI {α} (rawCol : Bool) (nSub : Nat) (tbl : List Row) (slabs : List (Slab α)) (hfo : List Nat) :
    List (Sub × List Nat) → Except Fault (List (Nat × α))
  | [] => .ok []
  | (X, new) :: rest =>
    match zipSlabsI rawCol nSub X tbl new slabs hfo with
    | .error e => .error e
    | .ok w =>
      match zipAllI rawCol nSub tbl slabs hfo rest with
      | .error e => .error e
      | .ok ws => .ok (w ++ ws)

/-! ### `_read_halo_info` with the preallocated table

`N_halos = sum(N_halo_per_file)` rows are allocated (`np.empty`: cells are `none`), after ALL files were opened
and the cleaned/regular lengths asserted.  File `i` is unpacked into the window
`self.halos[N_written : N_written + len(raw)]`, then `halos[:nmask] = halos[mask]` copies the kept rows to
the front of that window, `N_written += nmask`; finally `self.halos = self.halos[:N_written]`. -/

def allRowsOf {α} (cleaned : Bool) : List (Slab α) → Except Fault (List (List Row))
  | [] => .ok []
  | s :: ss =>
    match rowsOf cleaned s with
    | .error e => .error e
    | .ok r =>
      match allRowsOf cleaned ss with
      | .error e => .error e
      | .ok rs => .ok (r :: rs)

/-- the per-file loop as a write list into the allocation: returns the writes in program order, the final
`N_written` and the post-filter `N_halo_per_file` -/
def compact : List (List Row) → List (Option (List Bool)) → Nat →
    Except Fault (List (Nat × Row) × Nat × List Nat)
  | [], _, nW => .ok ([], nW, [])
  | rows :: rest, m :: ms, nW =>
    let wLoad := (List.range' nW rows.length).zip rows
    let filtered : Except Fault (List Row × List (Nat × Row)) :=
      match m with
      | none => .ok (rows, [])
      | some m =>
        if m.length ≠ rows.length then .error .badLength
        else
          let kept := maskRows rows m
          .ok (kept, (List.range' nW kept.length).zip kept)
    match filtered with
    | .error e => .error e
    | .ok (kept, wMask) =>
      match compact rest ms (nW + kept.length) with
      | .error e => .error e
      | .ok (ws, nW', nPer) => .ok (wLoad ++ wMask ++ ws, nW', kept.length :: nPer)
  | _ :: _, [], _ => .error .rejected

/-- every exposed cell must have been written (an unwritten cell would expose `np.empty` garbage) -/
def allSome {β} : List (Option β) → Option (List β)
  | [] => some []
  | some v :: rest => (allSome rest).map (v :: ·)
  | none :: _ => none

/-- the halo table after `_read_halo_info` and `N_halo_per_file` -/
def readTable {α} (cleaned : Bool) (slabs : List (Slab α)) (mks : List (Option (List Bool))) :
    Except Fault (List Row × List Nat) :=
  match allRowsOf cleaned slabs with
  | .error e => .error e
  | .ok rowss =>
    let nHalos := (rowss.map List.length).foldr (· + ·) 0
    match compact rowss mks 0 with
    | .error e => .error e
    | .ok (ws, nW, nPer) =>
      if ws.all (fun w => w.1 < nHalos) then
        let alloc : List (Option Row) := List.replicate nHalos none
        let tbl := applyWrites alloc (ws.map (fun w => (w.1, some w.2)))
        match allSome (tbl.take nW) with
        | some rows => .ok (rows, nPer)
        | none => .error .rejected
      else .error .oob

structure Result (α : Type) where
  /-- the kept halo rows (all other columns), in table order -/
  rows : List Row
  /-- `N_halo_per_file` after filtering -/
  nPer : List Nat
  /-- per loaded subsample the new `npstartX`, `npoutX` columns -/
  idx : List (Sub × List Nat × List Nat)
  /-- the subsample table; `none` = a cell no write reached -/
  sub : List (Option α)

/-- the load, together with the zipper's write list in program order -/
def loadW {α} (o : Opts) (slabs : List (Slab α)) : Except Fault (Result α × List (Nat × α)) :=
  match masksFor o.masks slabs.length with
  | .error e => .error e
  | .ok mks =>
  match readTable o.cleaned slabs mks with
  | .error e => .error e
  | .ok (tbl, nPer) =>
  let subs := loadList o
  if subs = [] then .ok ({ rows := tbl, nPer := nPer, idx := [], sub := [] }, [])
  else
  match newIdx subs tbl 0 with
  | .error e => .error e
  | .ok (tblZ, news) =>
  match nSubsamp news with
  | .error e => .error e
  | .ok nSub =>
  match cumsumArr nPer 0 with
  | .error e => .error e
  | .ok (hfo, _) =>
  match zipAllI o.rawCol nSub tblZ slabs hfo news with
  | .error e => .error e
  | .ok ws =>
    .ok ({ rows := tbl, nPer := nPer,
           idx := news.map (fun p => (p.1, p.2.dropLast, diff32 p.2)),
           sub := applyWrites (List.replicate nSub none) (ws.map (fun w => (w.1, some w.2))) }, ws)

/-- the same load written with the structural forms of the loops (`readAll`, `zipRows`, `zipSlabs`): the form
the proofs work on; `Lemmas/C01.lean` proves the loops equal, faults included (`zipRowsI_eq`, `zipSlabsI_eq`)
and the table equal whenever the compaction goes through (`readTable_eq`) -/
def loadWS {α} (o : Opts) (slabs : List (Slab α)) : Except Fault (Result α × List (Nat × α)) :=
  match masksFor o.masks slabs.length with
  | .error e => .error e
  | .ok mks =>
  match readAll o.cleaned slabs mks with
  | .error e => .error e
  | .ok kept =>
  let tbl := kept.flatten
  let nPer := kept.map List.length
  let subs := loadList o
  if subs = [] then .ok ({ rows := tbl, nPer := nPer, idx := [], sub := [] }, [])
  else
  match newIdx subs tbl 0 with
  | .error e => .error e
  | .ok (tblZ, news) =>
  match nSubsamp news with
  | .error e => .error e
  | .ok nSub =>
  match cumsumArr nPer 0 with
  | .error e => .error e
  | .ok (hfo, _) =>
  match zipAll o.rawCol nSub tblZ slabs hfo news with
  | .error e => .error e
  | .ok ws =>
    .ok ({ rows := tbl, nPer := nPer,
           idx := news.map (fun p => (p.1, p.2.dropLast, diff32 p.2)),
           sub := applyWrites (List.replicate nSub none) (ws.map (fun w => (w.1, some w.2))) }, ws)

def load {α} (o : Opts) (slabs : List (Slab α)) : Except Fault (Result α) :=
  match loadW o slabs with
  | .error e => .error e
  | .ok p => .ok p.1

/-! ### specification vocabulary -/

def total (ns : List Nat) : Nat := ns.foldr (· + ·) 0

/-- running starts: `offsets off [n0, n1, …] = [off, off+n0, off+n0+n1, …]` (one longer than the input) -/
def offsets (off : Nat) : List Nat → List Nat
  | [] => [off]
  | n :: ns => off :: offsets (off + n) ns

/-- what the zipper reads for one row of the (zeroed) table: `part[start : start+np]` then, in a cleaned
load, `clean[mstart : mstart+mnp]` -/
def rowParts {α} (X : Sub) (part cl : List α) (r : Row) : List α :=
  pySlice part (r.1.start X) (r.1.start X + r.1.np X) ++
    (match r.2 with
     | some c => pySlice cl (c.mStart X) (c.mStart X + c.mNp X)
     | none => [])

/-- THE SPECIFICATION of a halo's particles: the original range unless the halo was cleaned away
(`N_total = 0`), then the merged-in range -/
def ownParts {α} (X : Sub) (part cl : List α) (r : Row) : List α :=
  match r.2 with
  | some c => (if c.nTotal = 0 then [] else pySlice part (r.1.start X) (r.1.start X + r.1.np X)) ++
              pySlice cl (c.mStart X) (c.mStart X + c.mNp X)
  | none => pySlice part (r.1.start X) (r.1.start X + r.1.np X)

/-- number of particles the specification gives a halo -/
def ownCnt (X : Sub) (r : Row) : Nat :=
  match r.2 with
  | some c => (if c.nTotal = 0 then 0 else r.1.np X) + c.mNp X
  | none => r.1.np X

/-- well-formed row: the ranges the specification mentions lie inside their files, and the halo has fewer
than 2^32 particles in the subsample (`npout + npout_merge` is a `uint32` sum) -/
def rowWF {α} (X : Sub) (part cl : List α) (r : Row) : Bool :=
  (match r.2 with
   | some c => (c.nTotal = 0 || r.1.start X + r.1.np X ≤ part.length) && c.mStart X + c.mNp X ≤ cl.length
   | none => r.1.start X + r.1.np X ≤ part.length) &&
  -- the sum of the two uint32 columns does not wrap
  decide (ownCnt X r < 2 ^ 32)

/-- well-formed input: the compaction goes through (clean lists as long as halo lists, one mask of the right
length per superslab) and every kept row of every superslab is well-formed for every loaded subsample -/
def wf {α} (o : Opts) (slabs : List (Slab α)) : Bool :=
  match masksFor o.masks slabs.length with
  | .error _ => false
  | .ok mks =>
    match readAll o.cleaned slabs mks with
    | .error _ => false
    | .ok kept =>
      (slabs.zip kept).all (fun p => p.2.all (fun r => (loadList o).all (fun X =>
        rowWF X (p.1.part X) (p.1.cleanPart X) r)))

def idxOf (X : Sub) {β} : List (Sub × β) → Option β
  | [] => none
  | (Y, v) :: rest => if X = Y then some v else idxOf X rest

/-- the `npoutX` column of a result (empty when X was not loaded) -/
def blockCounts {α} (r : Result α) (X : Sub) : List Nat :=
  match idxOf X r.idx with
  | some p => p.2
  | none => []

/-! ### light-cone layout: one file, stored indices, no rewrite -/

structure LcResult (α : Type) where
  rows : List (Nat × Nat)      -- stored (npstartA, npoutA) of the kept rows, unchanged
  sub : List α                 -- the whole `lc_pid_rv` file

def loadLc {α} (halos : List (Nat × Nat)) (parts : List α) (mask : Option (List Bool)) :
    Except Fault (LcResult α) :=
  match mask with
  | none => .ok { rows := halos, sub := parts }
  | some m => if m.length ≠ halos.length then .error .badLength
              else .ok { rows := maskRows halos m, sub := parts }

/-! ### driver -/

def chunk5 : List Nat → Option (List (Nat × Nat × Nat × Nat × Nat))
  | [] => some []
  | a :: b :: c :: d :: e :: rest => (chunk5 rest).map (fun t => (a, b, c, d, e) :: t)
  | _ => none

def chunk2 : List Nat → Option (List (Nat × Nat))
  | [] => some []
  | a :: b :: rest => (chunk2 rest).map (fun t => (a, b) :: t)
  | _ => none

def parseMask? (s : String) : Option (List Bool) :=
  if s = "-" then some []
  else s.toList.mapM (fun c => if c = '1' then some true else if c = '0' then some false else none)

def parseSlab? : List String → Option (Slab Nat × String)
  | [h, c, pa, pb, ca, cb, m] =>
    match parseNatList? h, parseNatList? c, parseNatList? pa, parseNatList? pb, parseNatList? ca, parseNatList? cb with
    | some h, some c, some pa, some pb, some ca, some cb =>
      match chunk5 h, chunk5 c with
      | some hs, some cs =>
        some ({ halos := hs.map (fun (a, b, c, d, e) => ⟨a, b, c, d, e⟩),
                clean := cs.map (fun (a, b, c, d, e) => ⟨a, b, c, d, e⟩),
                partA := pa, partB := pb, cleanA := ca, cleanB := cb }, m)
      | _, _ => none
    | _, _, _, _, _, _ => none
  | _ => none

def parseSlabs? : Nat → List String → Option (List (Slab Nat × String))
  | 0, [] => some []
  | 0, _ => none
  | n + 1, h :: c :: pa :: pb :: ca :: cb :: m :: rest =>
    match parseSlab? [h, c, pa, pb, ca, cb, m], parseSlabs? n rest with
    | some s, some ss => some (s :: ss)
    | _, _ => none
  | _ + 1, _ => none

def showRow (r : Row) : List Nat :=
  [r.1.startA, r.1.npA, r.1.startB, r.1.npB, r.1.n] ++
    (match r.2 with | some c => [c.mStartA, c.mNpA, c.mStartB, c.mNpB, c.nTotal] | none => [])

def showIdx (X : Sub) (idx : List (Sub × List Nat × List Nat)) : String :=
  match idx.find? (fun p => p.1 = X) with
  | some p => s!"{showList p.2.1}/{showList p.2.2}"
  | none => "x"

def showOpt (o : Option Nat) : String := match o with | some v => toString v | none => "_"

def showResult (r : Except Fault (Result Nat × List (Nat × Nat))) : String :=
  match r with
  | .error f => s!"err {f}"
  | .ok (r, ws) =>
    s!"ok nper={showList r.nPer} rows={showList (r.rows.flatMap showRow)} a={showIdx .A r.idx} b={showIdx .B r.idx} sub={showList (r.sub.map showOpt)} widx={showList (ws.map (·.1))}"

/-- a `load …` request as options and superslabs -/
def parseLoad? (args : List String) : Option (Opts × List (Slab Nat)) :=
  match args with
  | "load" :: cl :: la :: lb :: rc :: n :: rest =>
    match parseBool? cl, parseBool? la, parseBool? lb, parseBool? rc, parseNat? n with
    | some cl, some la, some lb, some rc, some n =>
      match parseSlabs? n rest with
      | some ss =>
        let nofilter := ss.all (fun p => p.2 = "x")
        let masks? : Option (Option (List (List Bool))) :=
          if nofilter ∧ n > 0 then some none
          else (ss.mapM (fun p => parseMask? p.2)).map some
        match masks? with
        | some masks =>
          some ({ cleaned := cl, loadA := la, loadB := lb, rawCol := rc, masks := masks }, ss.map (·.1))
        | none => none
      | none => none
    | _, _, _, _, _ => none
  | _ => none

/-- requests:
`load <cleaned> <loadA> <loadB> <rawCol> <nslabs> (<H> <C> <PA> <PB> <CA> <CB> <M>)*` with `H`, `C` flat lists of
5 numbers per halo, `P*`/`C*` token lists, `M` = `x` (no filter), `-` (empty mask) or a 0/1 string;
`lc <H pairs> <parts> <M>`. -/
def handle (args : List String) : String :=
  match args with
  | "load" :: _ =>
    match parseLoad? args with
    | some (o, slabs) => showResult (loadW o slabs)
    | none => "bad-op"
  | ["cnt32", np, mnp] =>
    match parseNat? np, parseNat? mnp with
    | some np, some mnp => toString (cnt32 .A (⟨0, np, 0, 0, 0⟩, some ⟨0, mnp, 0, 0, 1⟩))
    | _, _ => "bad-op"
  | ["lc", h, p, m] =>
    match parseNatList? h, parseNatList? p with
    | some h, some p =>
      match chunk2 h with
      | some hs =>
        let mask? : Option (Option (List Bool)) := if m = "x" then some none else (parseMask? m).map some
        match mask? with
        | some mask =>
          match loadLc hs p mask with
          | .error f => s!"err {f}"
          | .ok r => s!"ok rows={showList (r.rows.flatMap (fun q => [q.1, q.2]))} sub={showList r.sub}"
        | none => "bad-op"
      | none => "bad-op"
    | _, _ => "bad-op"
  | _ => "bad-op"

end AbacusVerif.Catalog
