/-
  C04 — executable model of abacusnbody/data/bitpacked.py (core Lean only).

  * `_unpack_rvint` : `rvPos`, `rvVel` (the integer fields, with numba's int32→int64 promotion made
    explicit), physical values as exact rationals; the kernel loop as a write list (`kernel`).
  * `_unpack_pids`  : `lagrIdx`, `lagrCoord`, `lagrPos`, `tagged`, `density`, `pid`, over the
    *generated* constants of `Generated/BitConsts.lean`.
  * wrappers `unpack_rvint`, `unpack_pids`, `empty_bitpacked_arrays`: which outputs exist for which
    request and what is returned.
  * the documented encoder (`encPos`, `encVel`, `encWord`) used by the round-trip theorems.
  * `handle` : the line protocol of the driver.

  Floating point is not modelled: every physical value is the exact rational the float expression
  denotes (DESIGN §3).
-/
import AbacusVerif.Model.Common
import AbacusVerif.Model.Num
import AbacusVerif.Generated.BitConsts

namespace AbacusVerif.Bitpacked
open AbacusVerif AbacusVerif.BitConsts

/-! ## RVint words -/

/-- `intdata[i,j] >> np.uint32(12)`: numba promotes (int32, uint32) to int64, so the word is
sign-extended and shifted arithmetically. -/
def rvPos (w : BitVec 32) : Int :=
  ((w.signExtend 64).sshiftRight rvShift).toInt

/-- `(intdata[i,j] & vmask) - 2048`: again in int64 (word sign-extended, mask zero-extended). -/
def rvVel (w : BitVec 32) : Int :=
  ((w.signExtend 64) &&& BitVec.ofNat 64 rvVelMask).toInt - (rvVelOffset : Int)

/-- `posscale = boxsize / 1e6` -/
def posScale (box : Rat) : Rat := box / (rvPosDen : Rat)

/-- `velscale = 6000.0 / 2048` (extracted as the reduced fraction) -/
def velScale : Rat := (rvVelScaleNum : Rat) / (rvVelScaleDen : Rat)

def rvPosPhys (box : Rat) (w : BitVec 32) : Rat := (rvPos w : Rat) * posScale box
def rvVelPhys (w : BitVec 32) : Rat := (rvVel w : Rat) * velScale

/-! ### the documented encoder (R paragraph of DESIGN §7 C04) -/

/-- position → signed 20-bit integer: `round(x · 10^6 / Box)` -/
def encPos (box x : Rat) : Int := rhe (x / posScale box)

/-- velocity → 12-bit integer: `round(v · 2048/6000) + 2048` -/
def encVel (v : Rat) : Int := rhe (v / velScale) + (rvVelOffset : Int)

/-- the word with `p` in the signed upper 20 bits and `v` in the lower 12 -/
def encWord (p v : Int) : BitVec 32 := BitVec.ofInt 32 (p * 4096 + v)

/-! ## aux (packed PID) words -/

/-- `(packed & mask) >> shift` in uint64 -/
def field (w : BitVec 64) (mask shift : Nat) : BitVec 64 :=
  (w &&& BitVec.ofNat 64 mask) >>> shift

def lagrMask : Fin 3 → Nat
  | 0 => AUXXPID | 1 => AUXYPID | 2 => AUXZPID

def lagrShift : Fin 3 → Nat
  | 0 => lagrShiftX | 1 => lagrShiftY | 2 => lagrShiftZ

/-- the uint64 value `(packed & AUX?PID) >> shift` that `lagr_pos` is computed from -/
def lagrCoord (k : Fin 3) (w : BitVec 64) : Nat := (field w (lagrMask k) (lagrShift k)).toNat

/-- the same value stored into the `int16` array `lagr_idx` -/
def lagrIdx (k : Fin 3) (w : BitVec 64) : Int := ((field w (lagrMask k) (lagrShift k)).setWidth 16).toInt

/-- `coord * inv_ppd - half` with `inv_ppd = box/ppd`, `half = box/2` -/
def lagrPos (box : Rat) (ppd : Int) (k : Fin 3) (w : BitVec 64) : Rat :=
  (lagrCoord k w : Rat) * (box / (ppd : Rat)) - box / 2

/-- `(packed >> AUXTAGGED) & 1` stored into a `uint8` array -/
def tagged (w : BitVec 64) : Nat := (((w >>> AUXTAGGED) &&& BitVec.ofNat 64 tagMask).setWidth 8).toNat

/-- the density bit field `(packed & AUXDENS) >> ZERODEN` -/
def densField (w : BitVec 64) : Nat := (field w AUXDENS ZERODEN).toNat

/-- `densField ** 2`, computed in uint64 and stored as a float -/
def density (w : BitVec 64) : Nat := (densField w ^ densExp) % 2 ^ 64

/-- `packed & AUXPID` stored into an `int64` array -/
def pid (w : BitVec 64) : Int := (w &&& BitVec.ofNat 64 AUXPID).toInt

/-! ## kernels as write lists -/

/-- a value written to one row of an output array -/
inductive Val where
  | int (v : Int)
  | tri (a b c : Int)
  | rat (q : Rat)
  | triRat (a b c : Rat)
  deriving DecidableEq, Inhabited

/-- one optional output of a kernel: `rows = none` is Python `None` (not requested), `some r` an array
with `r` rows; `f` is the value the kernel stores in row `i` for input `i`. -/
structure Slot (ι : Type) where
  rows : Option Nat
  f : ι → Val

abbrev Writes := List (Nat × Val)

/-- loop body: `if out is not None: out[i] = f(x)` for every output in source order; every store goes
through the Python index rule. -/
def stepSlots {ι : Type} (i : Nat) (x : ι) :
    List (Slot ι × Writes) → Except Fault (List (Slot ι × Writes))
  | [] => .ok []
  | (s, acc) :: rest =>
    match s.rows with
    | none =>
      match stepSlots i x rest with
      | .ok r => .ok ((s, acc) :: r)
      | .error e => .error e
    | some n =>
      match idx n (i : Int) with
      | .error e => .error e
      | .ok k =>
        match stepSlots i x rest with
        | .ok r => .ok ((s, acc ++ [(k, s.f x)]) :: r)
        | .error e => .error e

/-- `for i in range(N): body` -/
def runSlots {ι : Type} : Nat → List ι → List (Slot ι × Writes) → Except Fault (List (Slot ι × Writes))
  | _, [], st => .ok st
  | i, x :: xs, st =>
    match stepSlots i x st with
    | .ok st' => runSlots (i + 1) xs st'
    | .error e => .error e

/-- run a kernel: the write list of every output, in slot order -/
def kernel {ι : Type} (slots : List (Slot ι)) (xs : List ι) : Except Fault (List Writes) :=
  match runSlots 0 xs (slots.map (fun s => (s, []))) with
  | .ok st => .ok (st.map Prod.snd)
  | .error e => .error e

abbrev Row32 := BitVec 32 × BitVec 32 × BitVec 32

def posRow (box : Rat) (r : Row32) : Val :=
  .triRat (rvPosPhys box r.1) (rvPosPhys box r.2.1) (rvPosPhys box r.2.2)

def velRow (r : Row32) : Val :=
  .triRat (rvVelPhys r.1) (rvVelPhys r.2.1) (rvVelPhys r.2.2)

/-- `_unpack_rvint(intdata, boxsize, posout, velout)` -/
def kernelRvint (data : List Row32) (box : Rat) (posRows velRows : Option Nat) : Except Fault (List Writes) :=
  kernel [⟨posRows, posRow box⟩, ⟨velRows, velRow⟩] data

/-- which outputs `_unpack_pids` was given (rows of each array) -/
structure PidBufs where
  pid : Option Nat
  lagrPos : Option Nat
  tagged : Option Nat
  density : Option Nat
  lagrIdx : Option Nat

def lagrIdxRow (w : BitVec 64) : Val := .tri (lagrIdx 0 w) (lagrIdx 1 w) (lagrIdx 2 w)
def lagrPosRow (box : Rat) (ppd : Int) (w : BitVec 64) : Val :=
  .triRat (lagrPos box ppd 0 w) (lagrPos box ppd 1 w) (lagrPos box ppd 2 w)

/-- the five outputs in the order of the statements in the loop body of `_unpack_pids` -/
def pidSlots (box : Rat) (ppd : Int) (b : PidBufs) : List (Slot (BitVec 64)) :=
  [⟨b.lagrIdx, lagrIdxRow⟩, ⟨b.lagrPos, lagrPosRow box ppd⟩,
   ⟨b.tagged, fun w => .int (tagged w)⟩, ⟨b.density, fun w => .int (density w)⟩,
   ⟨b.pid, fun w => .int (pid w)⟩]

/-- `_unpack_pids(packed, box, ppd, pid=…, lagr_pos=…, tagged=…, density=…, lagr_idx=…)`;
`box / ppd` is evaluated unconditionally, so `ppd = 0` raises `ZeroDivisionError` in the compiled kernel.
Result: writes of lagr_idx, lagr_pos, tagged, density, pid. -/
def kernelPids (packed : List (BitVec 64)) (box : Rat) (ppd : Int) (b : PidBufs) : Except Fault (List Writes) :=
  if ppd = 0 then .error .rejected
  else kernel (pidSlots box ppd b) packed

/-! ## wrappers -/

/-- `posout` / `velout` of `unpack_rvint`: `None` (allocate and return), `False` (skip), or a supplied
array with the given number of *elements* (it is viewed as `(-1, 3)`). -/
inductive OutReq where
  | allocate
  | skip
  | supplied (nelem : Nat)
  deriving DecidableEq

/-- what `unpack_rvint` returns for one output, and what it wrote where -/
inductive Ret where
  /-- a freshly allocated `(rows, 3)` array with these rows written -/
  | arr (rows : Nat) (writes : Writes)
  /-- an integer; `writes` went into the caller's array (empty when skipped) -/
  | cnt (n : Nat) (writes : Writes)
  deriving DecidableEq

/-- `intdata.reshape(-1, 3)` -/
def triples : List (BitVec 32) → Option (List Row32)
  | [] => some []
  | a :: b :: c :: rest => (triples rest).map ((a, b, c) :: ·)
  | _ => none

def OutReq.rows (N : Nat) : OutReq → Except Fault (Option Nat)
  | .allocate => .ok (some N)
  | .skip => .ok none
  | .supplied n => if n % 3 = 0 then .ok (some (n / 3)) else .error .rejected

def OutReq.ret (N : Nat) (w : Writes) : OutReq → Ret
  | .allocate => .arr N w
  | .skip => .cnt 0 w
  | .supplied _ => .cnt N w

/-- `unpack_rvint(intdata, boxsize, float_dtype, posout, velout)` -/
def unpackRvint (flat : List (BitVec 32)) (box : Rat) (posout velout : OutReq) : Except Fault (Ret × Ret) :=
  match triples flat with
  | none => .error .rejected
  | some data =>
    let N := data.length
    match posout.rows N, velout.rows N with
    | .ok pr, .ok vr =>
      match kernelRvint data box pr vr with
      | .ok [pw, vw] => .ok (posout.ret N pw, velout.ret N vw)
      | .ok _ => .error .rejected   -- not reachable: `kernel` returns one write list per slot (Props: unpackRvint_spec)
      | .error e => .error e
    | .error e, _ => .error e
    | _, .error e => .error e

/-- the boolean switches of `unpack_pids` -/
structure PidSel where
  pid : Bool
  lagrPos : Bool
  tagged : Bool
  density : Bool
  lagrIdx : Bool
  deriving DecidableEq

/-- `np.isclose(ppd, int(round(ppd)))` with the default `rtol = 1e-5`, `atol = 1e-8` -/
def ppdValid (ppd : Rat) : Bool :=
  let r : Rat := (rhe ppd : Int)
  decide ((if ppd - r < 0 then r - ppd else ppd - r) ≤ 1 / 100000000 + (if r < 0 then -r else r) / 100000)

def optRows (b : Bool) (N : Nat) : Option Nat := if b then some N else none

/-- `if box is None: box = float_dtype(1.0)` -/
def boxOf : Option Rat → Rat
  | none => 1
  | some b => b

/-- the allocation of the requested arrays, the kernel call and the returned dict of `unpack_pids`, after
`box` and `ppd` have been defaulted / validated -/
def unpackPidsCore (packed : List (BitVec 64)) (boxR : Rat) (ppdI : Int) (sel : PidSel) :
    Except Fault (List (String × Nat × Writes)) :=
  let N := packed.length
  let bufs : PidBufs := ⟨optRows sel.pid N, optRows sel.lagrPos N, optRows sel.tagged N,
                         optRows sel.density N, optRows sel.lagrIdx N⟩
  match kernelPids packed boxR ppdI bufs with
  | .ok [wIdx, wPos, wTag, wDen, wPid] =>
    .ok ((if sel.pid then [("pid", N, wPid)] else []) ++
         (if sel.lagrPos then [("lagr_pos", N, wPos)] else []) ++
         (if sel.lagrIdx then [("lagr_idx", N, wIdx)] else []) ++
         (if sel.tagged then [("tagged", N, wTag)] else []) ++
         (if sel.density then [("density", N, wDen)] else []))
  | .ok _ => .error .rejected   -- not reachable (Props: unpackPids_spec)
  | .error e => .error e

/-- `unpack_pids(packed, box, ppd, pid, lagr_pos, tagged, density, lagr_idx, float_dtype)`:
the returned dict as an association list in insertion order (pid, lagr_pos, lagr_idx, tagged, density). -/
def unpackPids (packed : List (BitVec 64)) (box ppd : Option Rat) (sel : PidSel) :
    Except Fault (List (String × Nat × Writes)) :=
  if sel.lagrPos && (box.isNone || ppd.isNone) then .error .rejected
  else
    match ppd with
    | some q =>
      if ppdValid q then unpackPidsCore packed (boxOf box) (rhe q) sel   -- `box = float_dtype(1.0)` when absent
      else .error .rejected
    | none => unpackPidsCore packed (boxOf box) 1 sel                    -- `ppd = 1` when absent

/-- the `unpack_bits` argument of `empty_bitpacked_arrays` -/
inductive UnpackBits where
  | all                      -- `True`
  | pidOnly                  -- `False`
  | one (s : String)         -- a single name
  | many (l : List String)   -- a list of names

def UnpackBits.names : UnpackBits → List String
  | .all => PID_FIELDS
  | .pidOnly => ["pid"]
  | .one s => [s]
  | .many l => l

/-- `empty_bitpacked_arrays(N, unpack_bits, float_dtype)`: (name, dtype kind, columns) in insertion order;
dtype kinds: `i8` int64, `f` the float dtype, `i2` int16, `u1` uint8, `u8` uint64; columns 1 = shape `(N,)`,
3 = shape `(N,3)`. -/
def emptyArrays (bits : UnpackBits) : List (String × String × Nat) :=
  let nm := bits.names
  (if "pid" ∈ nm then [("pid", "i8", 1)] else []) ++
  (if "lagr_pos" ∈ nm then [("lagr_pos", "f", 3)] else []) ++
  (if "lagr_idx" ∈ nm then [("lagr_idx", "i2", 3)] else []) ++
  (if "tagged" ∈ nm then [("tagged", "u1", 1)] else []) ++
  (if "density" ∈ nm then [("density", "f", 1)] else []) ++
  (if "packedpid" ∈ nm then [("packedpid", "u8", 1)] else [])

/-! ## line protocol -/

def showVal : Val → String
  | .int v => toString v
  | .tri a b c => s!"{a};{b};{c}"
  | .rat q => showRat q
  | .triRat a b c => s!"{showRat a};{showRat b};{showRat c}"

def showWrites (w : Writes) : String :=
  if w.isEmpty then "-" else ",".intercalate (w.map (fun kv => s!"{kv.1}:{showVal kv.2}"))

def showRet : Ret → String
  | .arr r w => s!"arr:{r}:{showWrites w}"
  | .cnt n w => s!"cnt:{n}:{showWrites w}"

def parseReq? (s : String) : Option OutReq :=
  if s = "A" then some .allocate
  else if s = "S" then some .skip
  else if s.startsWith "U" then (s.drop 1).toNat?.map .supplied
  else none

def parseOptRat? (s : String) : Option (Option Rat) :=
  if s = "None" then some none else (parseRat? s).map some

def parseOptNat? (s : String) : Option (Option Nat) :=
  if s = "N" then some none else s.toNat?.map some

def words32 (l : List Int) : List (BitVec 32) := l.map (BitVec.ofInt 32)
def words64 (l : List Nat) : List (BitVec 64) := l.map (BitVec.ofNat 64)

def showErr (e : Fault) : String := s!"err {e}"

def showInts (l : List Int) : String := showList l
def showNats (l : List Nat) : String := showList l

def parseSel? (s : String) : Option PidSel :=
  match s.toList with
  | [a, b, c, d, e] =>
    let f (ch : Char) : Option Bool := if ch = '1' then some true else if ch = '0' then some false else none
    match f a, f b, f c, f d, f e with
    | some a, some b, some c, some d, some e => some ⟨a, b, c, d, e⟩
    | _, _, _, _, _ => none
  | _ => none

def parseBits? (s : String) : Option UnpackBits :=
  if s = "T" then some .all
  else if s = "F" then some .pidOnly
  else if s.startsWith "s:" then some (.one (s.drop 2).toString)
  else if s = "l:" then some (.many [])
  else if s.startsWith "l:" then some (.many ((s.drop 2).toString.splitOn ","))
  else none

def tableLine (n : Nat) (f : Nat → Int) : String :=
  ",".intercalate ((List.range n).map (fun u => toString (f u)))

def handle : List String → String
  | ["consts"] =>
    s!"ok AUXDENS={AUXDENS} ZERODEN={ZERODEN} AUXXPID={AUXXPID} AUXYPID={AUXYPID} AUXZPID={AUXZPID} AUXPID={AUXPID} AUXTAGGED={AUXTAGGED} lagrShiftX={lagrShiftX} lagrShiftY={lagrShiftY} lagrShiftZ={lagrShiftZ} tagMask={tagMask} densExp={densExp} rvShift={rvShift} rvPosDen={rvPosDen} rvPosTopBit={rvPosTopBit} rvVelMask={rvVelMask} rvVelOffset={rvVelOffset} rvVelScaleNum={rvVelScaleNum} rvVelScaleDen={rvVelScaleDen} PID_FIELDS={",".intercalate PID_FIELDS}"
  | ["rvscale", box] =>
    match parseRat? box with
    | some b => s!"ok {showRat (posScale b)} {showRat velScale}"
    | none => "bad-op"
  | ["rvint", ws] =>
    match parseIntList? ws with
    | some l =>
      let w := words32 l
      s!"ok {showInts (w.map rvPos)} {showInts (w.map rvVel)}"
    | none => "bad-op"
  | ["rvtable", "pos"] => "ok " ++ tableLine (2 ^ 20) (fun u => rvPos (BitVec.ofNat 32 (u * 4096)))
  | ["rvtable", "vel"] => "ok " ++ tableLine (2 ^ 12) (fun l => rvVel (BitVec.ofNat 32 l))
  | ["enc", box, x, v] =>
    match parseRat? box, parseRat? x, parseRat? v with
    | some b, some x, some v =>
      let p := encPos b x
      let q := encVel v
      let w := encWord p q
      s!"ok p={p} v={q} word={w.toInt} pos={showRat (rvPosPhys b w)} vel={showRat (rvVelPhys w)}"
    | _, _, _ => "bad-op"
  | ["unpack_rvint", box, pr, vr, ws] =>
    match parseRat? box, parseReq? pr, parseReq? vr, parseIntList? ws with
    | some b, some pr, some vr, some l =>
      match unpackRvint (words32 l) b pr vr with
      | .ok (p, v) => s!"ok pos={showRet p} vel={showRet v}"
      | .error e => showErr e
    | _, _, _, _ => "bad-op"
  | ["kernel_rvint", box, pr, vr, ws] =>
    match parseRat? box, parseOptNat? pr, parseOptNat? vr, parseIntList? ws with
    | some b, some pr, some vr, some l =>
      match triples (words32 l) with
      | none => "bad-op"
      | some data =>
        match kernelRvint data b pr vr with
        | .ok ws => "ok " ++ " ".intercalate (ws.map showWrites)
        | .error e => showErr e
    | _, _, _, _ => "bad-op"
  | ["aux", ws] =>
    match parseNatList? ws with
    | some l =>
      let w := words64 l
      let parts : List String :=
        [showInts (w.map pid),
         showInts (w.map (lagrIdx 0)), showInts (w.map (lagrIdx 1)), showInts (w.map (lagrIdx 2)),
         showNats (w.map (lagrCoord 0)), showNats (w.map (lagrCoord 1)), showNats (w.map (lagrCoord 2)),
         showNats (w.map tagged), showNats (w.map density)]
      "ok " ++ " ".intercalate parts
    | none => "bad-op"
  | ["unpack_pids", box, ppd, sel, ws] =>
    match parseOptRat? box, parseOptRat? ppd, parseSel? sel, parseNatList? ws with
    | some b, some p, some s, some l =>
      match unpackPids (words64 l) b p s with
      | .ok d =>
        if d.isEmpty then "ok -"
        else "ok " ++ " ".intercalate (d.map (fun e => s!"{e.1}={e.2.1}={showWrites e.2.2}"))
      | .error e => showErr e
    | _, _, _, _ => "bad-op"
  | ["kernel_pids", box, ppd, bPid, bPos, bTag, bDen, bIdx, ws] =>
    match parseRat? box, parseInt? ppd, parseNatList? ws with
    | some b, some p, some l =>
      match parseOptNat? bPid, parseOptNat? bPos, parseOptNat? bTag, parseOptNat? bDen, parseOptNat? bIdx with
      | some a1, some a2, some a3, some a4, some a5 =>
        match kernelPids (words64 l) b p ⟨a1, a2, a3, a4, a5⟩ with
        | .ok [wIdx, wPos, wTag, wDen, wPid] =>
          s!"ok pid={showWrites wPid} lagr_pos={showWrites wPos} tagged={showWrites wTag} density={showWrites wDen} lagr_idx={showWrites wIdx}"
        | .ok _ => "bad-op"
        | .error e => showErr e
      | _, _, _, _, _ => "bad-op"
    | _, _, _ => "bad-op"
  | ["empty", bits] =>
    match parseBits? bits with
    | some b =>
      let r := emptyArrays b
      if r.isEmpty then "ok -" else "ok " ++ ",".intercalate (r.map (fun e => s!"{e.1}:{e.2.1}:{e.2.2}"))
    | none => "bad-op"
  | _ => "bad-op"

end AbacusVerif.Bitpacked
