/-
  C18 — Euler16 eigenvector codes: executable model of
  `abacusnbody/data/compaso_halo_catalog.py:_unpack_euler16` (core Lean only, no Mathlib).

  Two layers, statement by statement as in the Python code.

  * integer layer (`splitWith`, `split`): how the 16-bit value is taken apart — exact, over `Nat`;
  * real layer (`tParam`, `rParam`, `direction`, `majorOf`, `minorRaw`, `triadOf`, `decode`):
    polymorphic over a carrier `α` with `+ - * / neg` and a small class `ROps α` providing
    `sqrt cos sin ofRat pi`.  It is instantiated with `Float` in the driver (below, `handle`) and with
    `ℝ` in `Lemmas/C18.lean` / `Props/C18.lean`.

  The Python source is quoted on the right of each line.
-/
import AbacusVerif.Model.Common
import AbacusVerif.Generated.EulerConsts

namespace AbacusVerif.Euler16
open AbacusVerif AbacusVerif.EulerConsts

/-! ### integer layer -/

/-- the four fields of a code -/
structure Split where
  cap : Nat
  it : Nat
  ir : Nat
  iaz : Nat
  deriving DecidableEq, Repr

/-- `A = EULER_ABIN`, `T = EULER_TBIN`.  The input is a `uint16` array; every intermediate value is
at most the input, so the unsigned 16-bit arithmetic never wraps and `Nat` is exact. -/
def splitWith (A T : Nat) (code : Nat) : Split :=
  let cap0 := code / A                 -- cap = bin_this // EULER_ABIN
  let iaz := code - cap0 * A           -- iaz = bin_this - cap * EULER_ABIN
  let bin0 := cap0                     -- bin_this = cap
  let cap := bin0 / (T * T)            -- cap = bin_this // (EULER_TBIN * EULER_TBIN)
  let bin := bin0 - cap * (T * T)      -- bin_this = bin_this - cap * (EULER_TBIN * EULER_TBIN)
  let it := Nat.sqrt bin               -- it = (np.floor(np.sqrt(bin_this))).astype(int)
  let ir := bin - it * it              -- ir = bin_this - it * it
  ⟨cap, it, ir, iaz⟩

def split (code : Nat) : Split := splitWith EULER_ABIN EULER_TBIN code

/-- number of caps: the twelve `cap == k` branches of the code -/
def NCAP : Nat := 12

/-- number of valid codes -/
def NCODE : Nat := NCAP * (EULER_TBIN * EULER_TBIN) * EULER_ABIN

/-! ### real layer -/

/-- the operations of the real layer that are not ring operations -/
class ROps (α : Type) where
  sqrt : α → α
  cos : α → α
  sin : α → α
  ofRat : Rat → α
  pi : α

structure V3 (α : Type) where
  x : α
  y : α
  z : α

structure Triad (α : Type) where
  minor : V3 α
  middle : V3 α
  major : V3 α

section real
variable {α : Type} [Add α] [Sub α] [Mul α] [Div α] [Neg α] [ROps α]
open ROps

/-- `yy/zz` as a function of the `t` bin -/
def tParam (it : Nat) : α :=
  let t0 : α := (ofRat (it : Rat) + ofRat (1/2)) * (ofRat 1 / ofRat (EULER_TBIN : Rat))
                                       -- t = (it + 0.5) * (1.0 / EULER_TBIN)
  let t1 : α := t0 * (ofRat 1 / ofRat EULER_NORM)
                                       -- t *= 1 / EULER_NORM
  t1 * sqrt (ofRat 2 - t1 * t1) / (ofRat 1 - t1 * t1)
                                       -- t = t * np.sqrt(2.0 - t * t) / (1.0 - t * t)

/-- `xx/yy` as a function of the two in-cap indices -/
def rParam (it ir : Nat) : α :=
  (ofRat (ir : Rat) + ofRat (1/2)) / (ofRat (it : Rat) + ofRat (1/2)) - ofRat 1
                                       -- r = (ir + 0.5) / (it + 0.5) - 1.0

/-- azimuth of the minor axis -/
def azOf (iaz : Nat) : α :=
  (ofRat (iaz : Rat) + ofRat (1/2)) * (ofRat 1 / ofRat (EULER_ABIN : Rat)) * pi
                                       -- az = (iaz + 0.5) * (1.0 / EULER_ABIN) * np.pi

/-- `(xx, yy, zz)` after normalisation, from the un-normalised `(xx, yy, 1)` -/
def direction (xx0 yy0 : α) : α × α × α :=
  let norm : α := ofRat 1 / sqrt (ofRat 1 + xx0 * xx0 + yy0 * yy0)
                                       -- norm = 1.0 / np.sqrt(1.0 + xx * xx + yy * yy)
  let zz := norm                       -- zz = norm
  let yy := yy0 * norm                 -- yy *= norm
  let xx := xx0 * norm                 -- xx *= norm
  (xx, yy, zz)

def zero3 : V3 α := ⟨ofRat 0, ofRat 0, ofRat 0⟩       -- np.zeros((N, 3))

/-- the twelve `major[cap == k, j] = ...` assignments; rows of other caps keep their zeros -/
def majorOf (cap : Nat) (xx yy zz : α) : V3 α :=
  match cap with
  | 0 => ⟨zz, yy, xx⟩
  | 1 => ⟨zz, -yy, xx⟩
  | 2 => ⟨zz, xx, yy⟩
  | 3 => ⟨zz, xx, -yy⟩
  | 4 => ⟨xx, zz, yy⟩
  | 5 => ⟨xx, zz, -yy⟩
  | 6 => ⟨yy, zz, xx⟩
  | 7 => ⟨-yy, zz, xx⟩
  | 8 => ⟨yy, xx, zz⟩
  | 9 => ⟨-yy, xx, zz⟩
  | 10 => ⟨xx, yy, zz⟩
  | 11 => ⟨xx, -yy, zz⟩
  | _ => zero3

/-- the minor axis before normalisation: two components are `cos az`, `sin az`, the third is solved
from `minor · major = 0`; which is which depends on `cap // 4` -/
def minorRaw (cap : Nat) (M : V3 α) (c s : α) : V3 α :=
  match cap / 4 with
  | 2 => ⟨c, s, (c * M.x + s * M.y) / (-M.z)⟩
      -- minor[eq2,0] = xx; minor[eq2,1] = yy
      -- minor[eq2,2] = (minor[eq2,0]*major[eq2,0] + minor[eq2,1]*major[eq2,1]) / (-major[eq2,2])
  | 0 => ⟨(c * M.y + s * M.z) / (-M.x), c, s⟩
      -- minor[eq4,1] = xx; minor[eq4,2] = yy
      -- minor[eq4,0] = (minor[eq4,1]*major[eq4,1] + minor[eq4,2]*major[eq4,2]) / (-major[eq4,0])
  | 1 => ⟨s, (c * M.z + s * M.x) / (-M.y), c⟩
      -- minor[eq1,2] = xx; minor[eq1,0] = yy
      -- minor[eq1,1] = (minor[eq1,2]*major[eq1,2] + minor[eq1,0]*major[eq1,0]) / (-major[eq1,1])
  | _ => zero3

/-- `np.linalg.norm(v, axis=1)` = `sqrt(add.reduce(v*v, axis=1))` -/
def norm3 (v : V3 α) : α := sqrt (v.x * v.x + v.y * v.y + v.z * v.z)

def scale3 (v : V3 α) (k : α) : V3 α := ⟨v.x * k, v.y * k, v.z * k⟩

def cross (a b : V3 α) : V3 α :=
  ⟨a.y * b.z - a.z * b.y, a.z * b.x - a.x * b.z, a.x * b.y - a.y * b.x⟩

/-- everything after `yy = t; xx = r * t`, for arbitrary un-normalised `(xx0, yy0)` and azimuth -/
def triadOf (cap : Nat) (xx0 yy0 az : α) : Triad α :=
  let d := direction xx0 yy0
  let major := majorOf cap d.1 d.2.1 d.2.2
  let m := minorRaw cap major (cos az) (sin az)           -- xx = np.cos(az); yy = np.sin(az)
  let minor := scale3 m (ofRat 1 / norm3 m)               -- minor *= 1.0 / np.linalg.norm(minor, axis=1)
  let mid := cross minor major                            -- middle[:, j] = ...
  let middle := scale3 mid (ofRat 1 / norm3 mid)          -- middle *= 1.0 / np.linalg.norm(middle, axis=1)
  ⟨minor, middle, major⟩

/-- `_unpack_euler16` on one code -/
def decode (code : Nat) : Triad α :=
  let s := split code
  let t : α := tParam s.it
  let r : α := rParam s.it s.ir
  triadOf s.cap (r * t) t (azOf s.iaz)                    -- yy = t; xx = r * t

end real

/-! ### `Float` instance and line protocol -/

/-- exact for the rationals used here: integers below 2^53 and quotients of two such with a
power-of-two denominator -/
def floatOfRat (q : Rat) : Float := Float.ofInt q.num / Float.ofNat q.den

instance : ROps Float where
  sqrt := Float.sqrt
  cos := Float.cos
  sin := Float.sin
  ofRat := floatOfRat
  pi := Float.ofBits 0x400921FB54442D18      -- np.pi = 3.141592653589793

def showBits (v : V3 Float) : String :=
  s!"{v.x.toBits} {v.y.toBits} {v.z.toBits}"

/-- requests
    * `decode <code>` → `ok <cap> <it> <ir> <iaz> <9 IEEE bit patterns: minor xyz, middle xyz, major xyz>`
      for a 16-bit `code` (anything else: `rejected`, as a `uint16` array cannot hold it)
    * `split <code>` → `ok <cap> <it> <ir> <iaz>` -/
def handle (toks : List String) : String :=
  match toks with
  | ["decode", c] =>
    match parseNat? c with
    | some code =>
      if code < 65536 then
        let s := split code
        let t : Triad Float := decode code
        s!"ok {s.cap} {s.it} {s.ir} {s.iaz} {showBits t.minor} {showBits t.middle} {showBits t.major}"
      else "rejected"
    | none => "bad-op"
  | ["split", c] =>
    match parseNat? c with
    | some code =>
      let s := split code
      s!"ok {s.cap} {s.it} {s.ir} {s.iaz}"
    | none => "bad-op"
  | _ => "bad-op"

end AbacusVerif.Euler16
