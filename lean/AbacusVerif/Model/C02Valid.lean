/-
  C02 — the guard of the full `no_request_dependent_failure`: which requests the real constructor accepts.
  Specification-side definitions (not a model of code), kept next to the model so that the compiled driver can
  evaluate the guard and the harness can compare it with the real class on every run.
-/
import AbacusVerif.Model.C02

namespace AbacusVerif.Fields
open AbacusVerif AbacusVerif.Units

/-- the request expanded to a list -/
def fields0 (S : Spec) (req : Req) (cleaned haloLc : Bool) : List String :=
  match req with
  | .default => names S.user_dt ++ (if cleaned then names S.clean_dt else []) ++
                  (if haloLc then names S.halo_lc_dt else [])
  | .all => names S.user_dt ++ (if cleaned then names S.clean_dt_progen else []) ++
                  (if haloLc then names S.halo_lc_dt else [])
  | .list l => l

/-- a column that is not recorded in light-cone catalogs -/
def lcBad (S : Spec) (item : String) : Bool := !hasL2 item && !(item ∈ names S.halo_lc_dt)

def loadABs : List (List String) := [[], ["A"], ["B"], ["A", "B"]]

/-- the column names that can end up in the halo table of a catalog kind (`cleaned`: the cleaning files are
read; light cones are never `cleaned` in this sense) -/
def kindCols (S : Spec) (cleaned haloLc : Bool) : List String :=
  if haloLc then (names S.user_dt ++ names S.halo_lc_dt).filter (fun n => !lcBad S n)
  else names S.user_dt ++ (if cleaned then names S.clean_dt_progen else [])

/-- **the requests the real constructor accepts** (every other list makes the real class raise, see the
comment before `no_request_dependent_failure` in Props/C02.lean) -/
def validRequest (S : Spec) (req : Req) (cleaned : Bool) (loadAB : List String) (haloLc : Bool) : Bool :=
  let l := fields0 S req cleaned haloLc
  -- every name is a declared column of this catalog kind (light cones: or a name without 'L2' that is not a
  -- light-cone column — `_setup_fields` drops those silently, misspellings included)
  l.all (fun n => decide (n ∈ names S.user_dt) || (cleaned && decide (n ∈ names S.clean_dt_progen)) ||
                  (haloLc && (decide (n ∈ names S.halo_lc_dt) || lcBad S n))) &&
  -- cleaned catalogs: a cleaning column, and `N`, at most once (other names may repeat)
  (!cleaned || ((names S.clean_dt_progen).all (fun x => decide (l.count x ≤ 1)) && decide (l.count "N" ≤ 1))) &&
  -- the subsample selection
  (if haloLc then (loadAB == [] || loadAB == ["A"]) else decide (loadAB ∈ loadABs)) &&
  -- something is left to load (an empty effective request raises UnboundLocalError)
  (cleaned || !loadAB.isEmpty || l.any (fun n => !haloLc || !lcBad S n))

/-- driver request `valid <req> <cleaned> <AB> <halo_lc>` → `valid` | `invalid`: the guard on the arguments as
`__init__` normalises them (light cones are never `cleaned`, and load subsample A only) -/
def handleValid (args : List String) : String :=
  match args with
  | ["valid", req, cleaned, ab, lc] =>
    match parseReq req, parseBool? cleaned, parseBool? lc with
    | some req, some cleaned, some lc =>
      let ab := parseNames ab
      if validRequest Spec.generated req (cleaned && !lc) (if lc && !ab.isEmpty then ["A"] else ab) lc
      then "valid" else "invalid"
    | _, _, _ => "bad-op"
  | _ => handle args

end AbacusVerif.Fields
