/-
  Byte strings for the stream models (C14 blosc framing, C20 pipe framing): hex transport for the
  line protocol and the fixed-width big/little-endian integer encodings of `struct.pack` /
  the numpy scalar buffers.  Core Lean only.  All helpers that see long inputs are tail recursive.
-/
namespace AbacusVerif

abbrev Bytes := List UInt8

/-- results of the stream models are compared by `decide` in the non-vacuity examples -/
instance {ε α} [DecidableEq ε] [DecidableEq α] : DecidableEq (Except ε α)
  | .ok a, .ok b => if h : a = b then isTrue (by rw [h]) else isFalse (by intro e; cases e; exact h rfl)
  | .error a, .error b => if h : a = b then isTrue (by rw [h]) else isFalse (by intro e; cases e; exact h rfl)
  | .ok _, .error _ => isFalse (by intro e; cases e)
  | .error _, .ok _ => isFalse (by intro e; cases e)

/-! ### fixed-width integers -/

/-- `struct.pack('!I', n)` for `n < 2^32` (the caller checks the range; see `C14.packBE32`). -/
def be32 (n : Nat) : Bytes :=
  [UInt8.ofNat (n / 2 ^ 24), UInt8.ofNat (n / 2 ^ 16), UInt8.ofNat (n / 2 ^ 8), UInt8.ofNat n]

/-- little-endian bytes of `n`, `k` of them (the value modulo `256^k`) -/
def leBytes : Nat → Nat → Bytes
  | 0, _ => []
  | k + 1, n => UInt8.ofNat n :: leBytes k (n / 256)

/-- the little-endian value of a byte string -/
def leVal : Bytes → Nat
  | [] => 0
  | b :: bs => b.toNat + 256 * leVal bs

/-! ### hex transport -/

def hexDigit (n : Nat) : Char :=
  if n < 10 then Char.ofNat (48 + n) else Char.ofNat (87 + n)

def hexVal? (c : Char) : Option Nat :=
  if '0' ≤ c ∧ c ≤ '9' then some (c.toNat - 48)
  else if 'a' ≤ c ∧ c ≤ 'f' then some (c.toNat - 87)
  else if 'A' ≤ c ∧ c ≤ 'F' then some (c.toNat - 55)
  else none

def hexToBytesAux : List Char → Array UInt8 → Option (Array UInt8)
  | [], acc => some acc
  | [_], _ => none
  | a :: b :: rest, acc =>
    match hexVal? a, hexVal? b with
    | some x, some y => hexToBytesAux rest (acc.push (UInt8.ofNat (16 * x + y)))
    | _, _ => none

/-- `"-"` (or the empty string) is the empty byte string -/
def hexToBytes? (s : String) : Option Bytes :=
  if s = "-" ∨ s = "" then some []
  else (hexToBytesAux s.toList #[]).map Array.toList

def bytesToHex (b : Bytes) : String :=
  if b.isEmpty then "-"
  else b.foldl (fun s x => (s.push (hexDigit (x.toNat / 16))).push (hexDigit (x.toNat % 16))) ""

/-- comma separated list of hex strings; `"."` is the empty list (so that `"-"` can be a list
holding one empty byte string) -/
def hexListToBytes? (s : String) : Option (List Bytes) :=
  if s = "." then some []
  else (s.splitOn ",").mapM hexToBytes?

def bytesListToHex (l : List Bytes) : String :=
  if l.isEmpty then "." else ",".intercalate (l.map bytesToHex)

end AbacusVerif
