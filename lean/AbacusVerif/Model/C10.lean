/-
  C10 — thread structure of the HOD galaxy generators (abacusnbody/hod/GRAND_HOD.py) and of
  `_searchsorted_parallel` (abacusnbody/hod/abacus_hod.py).

  What is modelled (statement by statement; `κ` = the keep code of a row is an *input*: how it is
  computed from the markers and the random number is C09's subject):

  ```python
  # gen_cent / gen_sats (identical thread structure)
  H = len(mass)
  numba.set_num_threads(Nthread)                       # raises for Nthread = 0
  Nout = np.zeros((Nthread, 3, 8), dtype=np.int64)
  hstart = np.rint(np.linspace(0, H, Nthread + 1)).astype(np.int64)
  keep = np.empty(H, dtype=np.int8)
  for tid in numba.prange(Nthread):                    # count pass
      for i in range(hstart[tid], hstart[tid + 1]):
          ... keep[i] = κ(i);  if κ(i) in (1,2,3): Nout[tid, κ(i)-1, 0] += 1
  gstart = np.empty((Nthread + 1, 3), dtype=np.int64)
  gstart[0, :] = 0
  gstart[1:, c] = Nout[:, c, 0].cumsum()               # c = 0, 1, 2
  N_lrg, N_elg, N_qso = gstart[-1]
  lrg_* = np.empty(N_lrg) ...                          # uninitialised
  for tid in numba.prange(Nthread):                    # fill pass
      j1, j2, j3 = gstart[tid]
      for i in range(hstart[tid], hstart[tid + 1]):
          if keep[i] == 1:   lrg_*[j1] = row i;  j1 += 1
          elif keep[i] == 2: elg_*[j2] = row i;  j2 += 1
          elif keep[i] == 3: qso_*[j3] = row i;  j3 += 1
  ```

  The block boundaries `hstart` are an **input list** of the model (`b`); the concrete function the real
  code uses is `rintLinspace` (exact rationals `i·H/T`, rounded half to even).  Every array access goes
  through `idx`, so a boundary beyond the table, a cursor beyond the allocated output or a too short
  `hstart`/`gstart` is a `Fault.oob`.  A `prange` is modelled by the write list of each thread
  (`fills`); the canonical order is thread 0, 1, …; that every other order/interleaving gives the same
  arrays is theorem `schedule_independent`.
-/
import AbacusVerif.Model.Num

namespace AbacusVerif.TwoPass
open AbacusVerif

/-! ### small total vocabulary -/

/-- `a[i]` with the Python index rule -/
def readAt {α} (a : List α) (i : Int) : Except Fault α :=
  match idx a.length i with
  | .ok k =>
    match a[k]? with
    | some x => .ok x
    | none => .error .oob
  | .error e => .error e

/-- run `f` on every element in order, stop at the first fault -/
def mapE {α β} (f : α → Except Fault β) : List α → Except Fault (List β)
  | [] => .ok []
  | a :: l =>
    match f a with
    | .error e => .error e
    | .ok y =>
      match mapE f l with
      | .error e => .error e
      | .ok ys => .ok (y :: ys)

/-- left fold that stops at the first fault -/
def foldE {σ α} (f : σ → α → Except Fault σ) : σ → List α → Except Fault σ
  | s, [] => .ok s
  | s, a :: l =>
    match f s a with
    | .error e => .error e
    | .ok s' => foldE f s' l

/-- `range(lo, hi)` -/
def pyRange (lo hi : Nat) : List Nat := List.range' lo (hi - lo)

/-- three per-tracer counters / cursors (`Nout[tid, :, 0]`, `gstart[tid]`, `(j1, j2, j3)`) -/
structure Cur where
  j1 : Nat
  j2 : Nat
  j3 : Nat
  deriving Repr, DecidableEq

def Cur.zero : Cur := ⟨0, 0, 0⟩

def Cur.add (a b : Cur) : Cur := ⟨a.j1 + b.j1, a.j2 + b.j2, a.j3 + b.j3⟩

/-- counter of class `c ∈ {1,2,3}` (class 0 and anything else has no counter) -/
def Cur.get (s : Cur) : Nat → Nat
  | 1 => s.j1
  | 2 => s.j2
  | 3 => s.j3
  | _ => 0

/-- a block sequence of `T` blocks over the rows `0 .. H`: `b_0 = 0 ≤ b_1 ≤ … ≤ b_T = H` -/
def BlockSeq (b : List Nat) (T H : Nat) : Prop :=
  b.length = T + 1 ∧ b.head? = some 0 ∧ b.getLast? = some H ∧ b.Pairwise (· ≤ ·)

instance (b : List Nat) (T H : Nat) : Decidable (BlockSeq b T H) := by
  unfold BlockSeq; infer_instance

/-- `np.rint(np.linspace(0, H, T + 1)).astype(np.int64)` over exact rationals -/
def rintLinspace (H T : Nat) : List Nat :=
  (List.range (T + 1)).map (fun i => (rhe (((i * H : Nat) : Rat) / ((T : Nat) : Rat))).toNat)

/-! ### count pass -/

/-- one row of the count pass: `Nout[tid, κ-1, 0] += 1` -/
def countStep (keep : List Nat) (c : Cur) (i : Nat) : Except Fault Cur :=
  match readAt keep (i : Int) with
  | .error e => .error e
  | .ok k =>
    if k = 1 then .ok { c with j1 := c.j1 + 1 }
    else if k = 2 then .ok { c with j2 := c.j2 + 1 }
    else if k = 3 then .ok { c with j3 := c.j3 + 1 }
    else .ok c

/-- `for i in range(lo, hi)` of one thread, counters start at zero -/
def countThread (keep : List Nat) (lo hi : Nat) : Except Fault Cur :=
  foldE (countStep keep) Cur.zero (pyRange lo hi)

/-- the body of `for tid in numba.prange(Nthread)` in the count pass -/
def countBody (keep : List Nat) (b : List Nat) (tid : Nat) : Except Fault Cur :=
  match readAt b (tid : Int) with
  | .error e => .error e
  | .ok lo =>
    match readAt b ((tid : Int) + 1) with
    | .error e => .error e
    | .ok hi => countThread keep lo hi

/-- `Nout[tid]` for every thread -/
def countPass (keep : List Nat) (b : List Nat) (T : Nat) : Except Fault (List Cur) :=
  mapE (countBody keep b) (List.range T)

/-- `gstart[0] = 0; gstart[1:] = Nout.cumsum(axis 0)`: `acc, acc + x_0, acc + x_0 + x_1, …` -/
def prefixSums : Cur → List Cur → List Cur
  | acc, [] => [acc]
  | acc, x :: xs => acc :: prefixSums (acc.add x) xs

/-! ### fill pass -/

/-- a write `(class, output index, source row)` -/
abbrev W := Nat × Nat × Nat

/-- one row of the fill pass; `N` are the allocated output lengths -/
def fillStep (keep : List Nat) (N : Cur) (st : Cur × List W) (i : Nat) : Except Fault (Cur × List W) :=
  match readAt keep (i : Int) with
  | .error e => .error e
  | .ok k =>
    if k = 1 then
      match idx N.j1 (st.1.j1 : Int) with
      | .error e => .error e
      | .ok j => .ok ({ st.1 with j1 := st.1.j1 + 1 }, st.2 ++ [(1, j, i)])
    else if k = 2 then
      match idx N.j2 (st.1.j2 : Int) with
      | .error e => .error e
      | .ok j => .ok ({ st.1 with j2 := st.1.j2 + 1 }, st.2 ++ [(2, j, i)])
    else if k = 3 then
      match idx N.j3 (st.1.j3 : Int) with
      | .error e => .error e
      | .ok j => .ok ({ st.1 with j3 := st.1.j3 + 1 }, st.2 ++ [(3, j, i)])
    else .ok st

/-- one thread of the fill pass: cursors start at `g = gstart[tid]`; returns the final cursors and the writes -/
def fillThread (keep : List Nat) (N g : Cur) (lo hi : Nat) : Except Fault (Cur × List W) :=
  foldE (fillStep keep N) (g, []) (pyRange lo hi)

/-- the body of `for tid in numba.prange(Nthread)` in the fill pass -/
def fillBody (keep : List Nat) (b : List Nat) (gstart : List Cur) (N : Cur) (tid : Nat) :
    Except Fault (Cur × List W) :=
  match readAt gstart (tid : Int) with
  | .error e => .error e
  | .ok g =>
    match readAt b (tid : Int) with
    | .error e => .error e
    | .ok lo =>
      match readAt b ((tid : Int) + 1) with
      | .error e => .error e
      | .ok hi => fillThread keep N g lo hi

def fillPass (keep : List Nat) (b : List Nat) (T : Nat) (gstart : List Cur) (N : Cur) :
    Except Fault (List (Cur × List W)) :=
  mapE (fillBody keep b gstart N) (List.range T)

structure Out where
  nout : List Cur
  gstart : List Cur
  N : Cur
  /-- per thread: final cursors and the thread's writes -/
  fills : List (Cur × List W)
  deriving Repr

/-- both passes; `T = 0` is rejected by `numba.set_num_threads` -/
def twoPass (keep : List Nat) (b : List Nat) (T : Nat) : Except Fault Out :=
  if T = 0 then .error .rejected
  else
    match countPass keep b T with
    | .error e => .error e
    | .ok nout =>
      let gstart := prefixSums Cur.zero nout
      match readAt gstart (-1) with
      | .error e => .error e
      | .ok N =>
        match fillPass keep b T gstart N with
        | .error e => .error e
        | .ok fills => .ok { nout := nout, gstart := gstart, N := N, fills := fills }

/-- all writes of the fill pass in the canonical schedule (thread 0 first) -/
def Out.writes (o : Out) : List W := o.fills.flatMap (·.2)

/-- the writes that go to the arrays of class `c`, as `(index, some row)` -/
def proj (c : Nat) (ws : List W) : List (Nat × Option Nat) :=
  ws.filterMap (fun w => if w.1 = c then some (w.2.1, some w.2.2) else none)

/-- the output array of class `c` after a list of writes: `np.empty(N_c)` (all cells `none` =
uninitialised), then the writes -/
def arrayOf (N : Cur) (c : Nat) (ws : List W) : List (Option Nat) :=
  applyWrites (List.replicate (N.get c) none) (proj c ws)

/-- the sequential answer: the rows of class `c` in row order -/
def rowsOf (keep : List Nat) (c : Nat) : List Nat :=
  (List.range keep.length).filter (fun i => keep[i]? = some c)

/-! ### fast_concatenate

  ```python
  N1 = len(array1); N2 = len(array2)
  if N1 == 0: return array2
  elif N2 == 0: return array1
  final_array = np.empty(N1 + N2)
  if Nthread == 1:
      for i in range(N1): final_array[i] = array1[i]
      for j in range(N2): final_array[j + N1] = array2[j]
      return final_array
  numba.set_num_threads(Nthread)
  Nthread1 = max(1, int(np.floor(Nthread * N1 / (N1 + N2))))
  Nthread2 = Nthread - Nthread1
  hstart1 = np.rint(np.linspace(0, N1, Nthread1 + 1)).astype(np.int64)
  hstart2 = np.rint(np.linspace(0, N2, Nthread2 + 1)).astype(np.int64) + N1
  for tid in numba.prange(Nthread):
      if tid < Nthread1:
          for i in range(hstart1[tid], hstart1[tid + 1]): final_array[i] = array1[i]
      else:
          for i in range(hstart2[tid - Nthread1], hstart2[tid + 1 - Nthread1]): final_array[i] = array2[i - N1]
  return final_array
  ```
-/

inductive FC (α : Type) where
  /-- the function returned `array1` itself -/
  | same1
  /-- the function returned `array2` itself -/
  | same2
  /-- a fresh `np.empty(len)` and the writes of every thread, thread 0 first -/
  | fresh (len : Nat) (writes : List (Nat × α))
  deriving Repr

/-- `(Nthread1, Nthread2)` -/
def threadSplit (N1 N2 T : Nat) : Nat × Int :=
  let T1 := max 1 (T * N1 / (N1 + N2))
  (T1, (T : Int) - (T1 : Int))

/-- `final_array[i + off] = a[i + shift]` for `i` in `l` (`off`, `shift` as in the three copy loops) -/
def copyLoop {α} (a : List α) (len : Nat) (shift : Int) (off : Nat) (l : List Nat) :
    Except Fault (List (Nat × α)) :=
  mapE (fun (i : Nat) =>
    match readAt a ((i : Int) + shift) with
    | .error e => .error e
    | .ok v =>
      match idx len ((i + off : Nat) : Int) with
      | .error e => .error e
      | .ok k => .ok (k, v)) l

/-- one thread's block of a copy loop: `for i in range(h[k], h[k+1]): final_array[i] = a[i + shift]` -/
def blockCopy {α} (a : List α) (len : Nat) (shift : Int) (h : List Nat) (k : Int) :
    Except Fault (List (Nat × α)) :=
  match readAt h k with
  | .error e => .error e
  | .ok lo =>
    match readAt h (k + 1) with
    | .error e => .error e
    | .ok hi => copyLoop a len shift 0 (pyRange lo hi)

/-- the body of `for tid in numba.prange(Nthread)` -/
def fcBody {α} (a1 a2 : List α) (T1 : Nat) (hstart1 hstart2 : List Nat) (tid : Nat) :
    Except Fault (List (Nat × α)) :=
  if tid < T1 then blockCopy a1 (a1.length + a2.length) 0 hstart1 (tid : Int)
  else blockCopy a2 (a1.length + a2.length) (-(a1.length : Int)) hstart2 ((tid : Int) - (T1 : Int))

/-- `blocks H T` stands for `np.rint(np.linspace(0, H, T + 1)).astype(np.int64)` -/
def fastConcatWith {α} (blocks : Nat → Nat → List Nat) (a1 a2 : List α) (T : Nat) :
    Except Fault (FC α) :=
  let N1 := a1.length
  let N2 := a2.length
  if N1 = 0 then .ok .same2
  else if N2 = 0 then .ok .same1
  else if T = 1 then
    match copyLoop a1 (N1 + N2) 0 0 (pyRange 0 N1) with
    | .error e => .error e
    | .ok w1 =>
      match copyLoop a2 (N1 + N2) 0 N1 (pyRange 0 N2) with
      | .error e => .error e
      | .ok w2 => .ok (.fresh (N1 + N2) (w1 ++ w2))
  else if T = 0 then .error .rejected          -- numba.set_num_threads(0) raises
  else
    let T1 := (threadSplit N1 N2 T).1
    let T2i := (threadSplit N1 N2 T).2
    if T2i < 0 then .error .rejected           -- linspace with a negative count raises
    else
      let hstart1 := blocks N1 T1
      let hstart2 := (blocks N2 T2i.toNat).map (· + N1)
      match mapE (fcBody a1 a2 T1 hstart1 hstart2) (List.range T) with
      | .error e => .error e
      | .ok ws => .ok (.fresh (N1 + N2) ws.flatten)

/-- the real routine: blocks from `np.rint(np.linspace(...))` -/
def fastConcat {α} (a1 a2 : List α) (T : Nat) : Except Fault (FC α) :=
  fastConcatWith rintLinspace a1 a2 T

/-- the array a caller sees -/
def FC.result {α} (a1 a2 : List α) : FC α → List (Option α)
  | .same1 => a1.map some
  | .same2 => a2.map some
  | .fresh len ws => applyWrites (List.replicate len none) (ws.map (fun w => (w.1, some w.2)))

/-! ### _searchsorted_parallel

  ```python
  res = np.empty(len(b), dtype=np.int64)
  for i in numba.prange(len(b)):
      res[i] = np.searchsorted(a, b[i])       # side='left': binary search
  ```
-/

/-- `np.searchsorted(a, v)` (left): the binary search, `fuel` bounds the number of halvings -/
def bsearch (a : List Int) (v : Int) : Nat → Nat → Nat → Except Fault Nat
  | 0, lo, _ => .ok lo
  | fuel + 1, lo, hi =>
    if lo < hi then
      let mid := (lo + hi) / 2
      match readAt a (mid : Int) with
      | .error e => .error e
      | .ok x => if x < v then bsearch a v fuel (mid + 1) hi else bsearch a v fuel lo mid
    else .ok lo

def searchsorted (a : List Int) (v : Int) : Except Fault Nat :=
  bsearch a v (a.length + 1) 0 a.length

/-- the write list of the parallel loop, iteration 0 first -/
def searchsortedPar (a b : List Int) : Except Fault (List (Nat × Nat)) :=
  mapE (fun (i : Nat) =>
    match readAt b (i : Int) with
    | .error e => .error e
    | .ok v =>
      match searchsorted a v with
      | .error e => .error e
      | .ok r =>
        match idx b.length (i : Int) with
        | .error e => .error e
        | .ok k => .ok (k, r)) (List.range b.length)

/-! ### driver -/

def showCur (c : Cur) : String := s!"{c.j1}:{c.j2}:{c.j3}"

def showOpt : Option Nat → String
  | some r => toString r
  | none => "x"

def showOptI : Option Int → String
  | some r => toString r
  | none => "x"

/-- requests
  * `twopass <T> <keep> <blocks>` — both passes on the given boundaries
  * `blocks <H> <T>` — the concrete `rint(linspace)` boundaries
  * `fastconcat <T> <array1> <array2>`
  * `searchsorted <a> <b>` -/
def handle (args : List String) : String :=
  match args with
  | ["twopass", t, keep, blocks] =>
    match parseNat? t, parseNatList? keep, parseNatList? blocks with
    | some t, some keep, some blocks =>
      match twoPass keep blocks t with
      | .error f => s!"err {f}"
      | .ok o =>
        let ws := o.writes.map (fun w => s!"{w.1}:{w.2.1}:{w.2.2}")
        let arr (c : Nat) := showList ((arrayOf o.N c o.writes).map showOpt)
        s!"ok nout={showList (o.nout.map showCur)} gstart={showList (o.gstart.map showCur)} N={showCur o.N} cur={showList (o.fills.map (fun f => showCur f.1))} writes={showList ws} r1={arr 1} r2={arr 2} r3={arr 3}"
    | _, _, _ => "bad-op"
  | ["blocks", h, t] =>
    match parseNat? h, parseNat? t with
    | some h, some t => s!"ok {showList (rintLinspace h t)}"
    | _, _ => "bad-op"
  | ["fastconcat", t, a1, a2] =>
    match parseNat? t, parseIntList? a1, parseIntList? a2 with
    | some t, some a1, some a2 =>
      let sp := threadSplit a1.length a2.length t
      match fastConcat a1 a2 t with
      | .error f => s!"err {f}"
      | .ok r =>
        let kind := match r with
          | .same1 => "same1"
          | .same2 => "same2"
          | .fresh _ ws => "fresh writes=" ++ showList (ws.map (fun (w : Nat × Int) => s!"{w.1}:{w.2}"))
        s!"ok T1={sp.1} T2={sp.2} res={showList ((r.result a1 a2).map showOptI)} {kind}"
    | _, _, _ => "bad-op"
  | ["searchsorted", a, b] =>
    match parseIntList? a, parseIntList? b with
    | some a, some b =>
      match searchsortedPar a b with
      | .error f => s!"err {f}"
      | .ok ws =>
        let res := applyWrites (List.replicate b.length (none : Option Nat)) (ws.map (fun w => (w.1, some w.2)))
        s!"ok {showList (res.map showOpt)}"
    | _, _ => "bad-op"
  | _ => "bad-op"

end AbacusVerif.TwoPass
