/-
  C13 — executable part of the power-spectrum model (core Lean only, `Float` = IEEE binary64).

  Mirrors, statement by statement, the part of `abacusnbody/analysis/power_spectrum.py` that turns a
  real-space overdensity grid into the Fourier field handed to the binning:

  * `normalize_field`:   `norm = dtype(field.size / tot_weight)` ; `flat[i] = flat[i] * norm - 1`
  * `_normalize`:        `flat[i] *= a`
  * `get_field_fft`, non-interlaced:  `rfftn(field)` ; `_normalize(field_fft, dtype(1 / field.size))`
  * `shift_field_fft` (interlaced):

    ```python
    kzlen = n1d // 2 + 1 ; dk = dtype(2.0 * np.pi / L) ; d = dtype(d)
    norm = dtype(0.5 / n1d**3) ; fac = dtype(0.5 * d) * 1j
    kx = dtype(i) * dk if i < n1d // 2 else dtype(i - n1d) * dk      # note: n1d // 2, also for odd n1d
    ky = dtype(j) * dk if j < n1d // 2 else dtype(j - n1d) * dk
    kz = dtype(k) * dk
    field_fft[i, j, k] += field_shift_fft[i, j, k] * np.exp(fac * (kx + ky + kz))
    field_fft[i, j, k] *= norm
    ```
  * compensation: `field_fft /= W[i] * W[j] * W[k]`, `k < nmesh // 2 + 1`
  * `get_W_compensated`:

    ```python
    d = Lbox / nmesh ; kN = np.pi / d ; k = (fftfreq(nmesh, d=d) * 2.0 * np.pi).astype(np.float32)
    interlaced:      W = np.sinc(0.5 * k / kN) ** p          # p = 3 (TSC), 2 (CIC); sinc(x) = sin(pi x)/(pi x)
    not interlaced:  s = np.sin(0.5 * np.pi * k / kN) ** 2
                     W = (1 - s + 2.0 / 15 * s**2) ** 0.5    # TSC
                     W = (1 - 2.0 / 3 * s) ** 0.5            # CIC
    ```

  `scipy.fft.rfftn` is replaced by the defining finite sum (a naive DFT over the `n1d**3` cells, output
  restricted to the half-plane `k < n1d // 2 + 1` that `rfftn` returns).  Everything is computed in
  binary64 whatever the dtype of the real pipeline; the correspondence compares under a stated bound.
  The integer maps (`foldShift`, `fftfreqInt`, `kzlen`) are shared with the theorems in `Props/C13.lean`.

  Line protocol: floats travel as the decimal value of their IEEE-754 binary64 bit pattern.
-/
import AbacusVerif.Model.Common

namespace AbacusVerif.Power
open AbacusVerif

/-! ### integer maps -/

/-- length of the last axis of `rfftn`'s output -/
def kzlen (n : Nat) : Nat := n / 2 + 1

/-- the signed frequency `shift_field_fft` assigns to row/column `i`: `i if i < n1d // 2 else i - n1d`.
(For odd `n1d` this sends the middle index `(n1d-1)/2` to a negative frequency, unlike `fftfreq`.) -/
def foldShift (n i : Nat) : Int := if i < n / 2 then (i : Int) else (i : Int) - (n : Int)

/-- `fftfreq(n) * n`: `0, 1, …, (n-1)//2, -(n//2), …, -1` -/
def fftfreqInt (n i : Nat) : Int := if i < (n + 1) / 2 then (i : Int) else (i : Int) - (n : Int)

/-! ### complex numbers over `Float` -/

structure Cx where
  re : Float
  im : Float
  deriving Inhabited

namespace Cx
def add (a b : Cx) : Cx := ⟨a.re + b.re, a.im + b.im⟩
def mul (a b : Cx) : Cx := ⟨a.re * b.re - a.im * b.im, a.re * b.im + a.im * b.re⟩
def scale (a : Cx) (c : Float) : Cx := ⟨a.re * c, a.im * c⟩
def divReal (a : Cx) (c : Float) : Cx := ⟨a.re / c, a.im / c⟩
/-- `exp(i t)` -/
def cis (t : Float) : Cx := ⟨Float.cos t, Float.sin t⟩
def zero : Cx := ⟨0.0, 0.0⟩
end Cx

def pi : Float := 3.141592653589793

/-! ### normalisations -/

/-- `normalize_field`'s loop body applied to every cell: `x * norm - 1` -/
def normalizeField (norm : Float) (field : List Float) : List Float :=
  field.map (fun x => x * norm - 1.0)

/-- `_normalize`: every complex cell times the real scalar `a` -/
def normalizeScalar (a : Float) (field : List Cx) : List Cx :=
  field.map (fun z => z.scale a)

/-! ### the DFT as the defining finite sum, on the `rfftn` half-plane -/

/-- the `n` roots of unity `exp(-2 pi i t / n)`, `t = 0 … n-1` -/
def twiddles (n : Nat) : Array Cx :=
  (Array.range n).map (fun t => Cx.cis (-(2.0 * pi * Float.ofNat t / Float.ofNat n)))

/-- one output mode `(a, b, c)`: `Σ_{x,y,z} g[x,y,z] · exp(-2 pi i (a x + b y + c z)/n)`.
`none` if a subscript falls outside the grid (cannot happen when `g.size = n^3`). -/
def dftMode (n : Nat) (g : Array Float) (tw : Array Cx) (a b c : Nat) : Option Cx :=
  (List.range n).foldlM (fun (acc : Cx) x =>
    (List.range n).foldlM (fun (acc : Cx) y =>
      (List.range n).foldlM (fun (acc : Cx) z => do
        let v ← g[(x * n + y) * n + z]?
        let w ← tw[(a * x + b * y + c * z) % n]?
        pure (acc.add (w.scale v))) acc) acc) Cx.zero

/-- `rfftn` of an `(n, n, n)` real grid (row-major), as a row-major `(n, n, n//2+1)` list -/
def rfftn3 (n : Nat) (g : Array Float) : Option (List Cx) :=
  if g.size ≠ n * n * n then none else
  let tw := twiddles n
  (List.range n).foldrM (fun a (rest : List Cx) =>
    (List.range n).foldrM (fun b (rest : List Cx) =>
      (List.range (kzlen n)).foldrM (fun c (rest : List Cx) => do
        let m ← dftMode n g tw a b c
        pure (m :: rest)) rest) rest) []

/-- apply `f i j k z` to every cell of a row-major `(n, n, kzlen n)` list -/
def mapModes (n : Nat) (f : Nat → Nat → Nat → Cx → Cx) (field : List Cx) : List Cx :=
  let kz := kzlen n
  (field.zipIdx).map (fun (z, t) => f (t / (kz * n)) ((t / kz) % n) (t % kz) z)

/-! ### interlacing -/

/-- the real number `0.5 * d * (kx + ky + kz)` whose `exp(i ·)` multiplies the shifted field -/
def phaseArg (n : Nat) (L : Float) (i j k : Nat) : Float :=
  let dk := 2.0 * pi / L
  let d := L / Float.ofNat n
  let kx := Float.ofInt (foldShift n i) * dk
  let ky := Float.ofInt (foldShift n j) * dk
  let kz := Float.ofNat k * dk
  (0.5 * d) * (kx + ky + kz)

/-- `shift_field_fft`: `(F + F' · exp(i·phaseArg)) · norm`, `norm = 0.5 / n^3` -/
def shiftFieldFft (n : Nat) (L : Float) (F F' : List Cx) : List Cx :=
  let norm := 0.5 / Float.ofNat (n * n * n)
  let kz := kzlen n
  ((F.zip F').zipIdx).map (fun ((z, z'), t) =>
    let i := t / (kz * n)
    let j := (t / kz) % n
    let k := t % kz
    ((z.add (z'.mul (Cx.cis (phaseArg n L i j k)))).scale norm))

/-! ### compensation window -/

inductive Paste where
  | tsc
  | cic
  deriving DecidableEq

def sinc (x : Float) : Float :=
  if x == 0.0 then 1.0 else Float.sin (pi * x) / (pi * x)

/-- `get_W_compensated(Lbox, nmesh, paste, interlaced)` -/
def wCompensated (L : Float) (n : Nat) (paste : Paste) (interlaced : Bool) : List Float :=
  let d := L / Float.ofNat n
  let kN := pi / d
  (List.range n).map (fun i =>
    let k := (Float.ofInt (fftfreqInt n i) / (d * Float.ofNat n)) * 2.0 * pi
    if interlaced then
      let p : Float := match paste with | .tsc => 3.0 | .cic => 2.0
      (sinc (0.5 * k / kN)).pow p
    else
      let s := (Float.sin (0.5 * pi * k / kN)).pow 2.0
      match paste with
      | .tsc => (1.0 - s + 2.0 / 15.0 * s * s).sqrt
      | .cic => (1.0 - 2.0 / 3.0 * s).sqrt)

/-- `field_fft /= W[:,None,None] * W[None,:,None] * W[None,None,:kzlen]` -/
def compensate (n : Nat) (W : Array Float) (F : List Cx) : Option (List Cx) :=
  let kz := kzlen n
  (F.zipIdx).mapM (fun (z, t) => do
    let wi ← W[t / (kz * n)]?
    let wj ← W[(t / kz) % n]?
    let wk ← W[t % kz]?
    pure (z.divReal (wi * wj * wk)))

/-- `get_field_fft` from the real-space grid(s) that `get_field` returned:
not interlaced: `rfftn(field) * (1/size)`; interlaced: `shift_field_fft(rfftn(field), rfftn(field_shift))`;
then the optional compensation. -/
def fieldFft (n : Nat) (L : Float) (paste : Paste) (interlaced compensated : Bool)
    (g : Array Float) (gShift : Array Float) : Option (List Cx) := do
  let F ← rfftn3 n g
  let F ← if interlaced then do
      let F' ← rfftn3 n gShift
      pure (shiftFieldFft n L F F')
    else
      pure (normalizeScalar (1.0 / Float.ofNat (n * n * n)) F)
  if compensated then
    compensate n (wCompensated L n paste interlaced).toArray F
  else
    pure F

/-! ### raw power -/

/-- `get_raw_power`: `|F|^2`, or `Re(conj(F) · G)` when a second field is given -/
def rawPower (F : List Cx) (G : Option (List Cx)) : List Float :=
  match G with
  | none => F.map (fun z => z.re * z.re + z.im * z.im)
  | some G => (F.zip G).map (fun (z, w) => z.re * w.re + z.im * w.im)

/-! ### line protocol -/

def parseFloatBits? (s : String) : Option Float :=
  match s.toNat? with
  | some v => if v < 2 ^ 64 then some (Float.ofBits (UInt64.ofNat v)) else none
  | none => none

def parseFloats? (s : String) : Option (List Float) :=
  if s = "" ∨ s = "-" then some [] else (s.splitOn ",").mapM parseFloatBits?

def showFloats (l : List Float) : String :=
  if l.isEmpty then "-" else ",".intercalate (l.map (fun x => toString x.toBits.toNat))

def toCxList? : List Float → Option (List Cx)
  | [] => some []
  | re :: im :: rest => (toCxList? rest).map (fun t => ⟨re, im⟩ :: t)
  | [_] => none

def showCx (l : List Cx) : String :=
  showFloats (l.flatMap (fun z => [z.re, z.im]))

def parsePaste? (s : String) : Option Paste :=
  if s = "TSC" then some .tsc else if s = "CIC" then some .cic else none

def handle (args : List String) : String :=
  match args with
  | ["fold", n] =>
    match parseNat? n with
    | some n => s!"{showList ((List.range n).map (foldShift n))} {showList ((List.range n).map (fftfreqInt n))} {kzlen n}"
    | none => "bad-op"
  | ["normfield", norm, field] =>
    match parseFloatBits? norm, parseFloats? field with
    | some norm, some field => showFloats (normalizeField norm field)
    | _, _ => "bad-op"
  | ["scale", a, field] =>
    match parseFloatBits? a, (parseFloats? field).bind toCxList? with
    | some a, some field => showCx (normalizeScalar a field)
    | _, _ => "bad-op"
  | ["W", L, n, paste, inter] =>
    match parseFloatBits? L, parseNat? n, parsePaste? paste, parseBool? inter with
    | some L, some n, some paste, some inter => showFloats (wCompensated L n paste inter)
    | _, _, _, _ => "bad-op"
  | ["rfftn", n, g] =>
    match parseNat? n, parseFloats? g with
    | some n, some g =>
      match rfftn3 n g.toArray with
      | some F => showCx F
      | none => "bad-length"
    | _, _ => "bad-op"
  | ["fieldfft", n, L, paste, inter, comp, g, gs] =>
    match parseNat? n, parseFloatBits? L, parsePaste? paste, parseBool? inter, parseBool? comp,
        parseFloats? g, parseFloats? gs with
    | some n, some L, some paste, some inter, some comp, some g, some gs =>
      if n = 0 then "rejected" else
      match fieldFft n L paste inter comp g.toArray gs.toArray with
      | some F => showCx F
      | none => "bad-length"
    | _, _, _, _, _, _, _ => "bad-op"
  | ["rawpower", f, g] =>
    match (parseFloats? f).bind toCxList?, parseFloats? g with
    | some F, some [] => showFloats (rawPower F none)
    | some F, some gl =>
      match toCxList? gl with
      | some G => if G.length = F.length then showFloats (rawPower F (some G)) else "bad-length"
      | none => "bad-op"
    | _, _ => "bad-op"
  | _ => "bad-op"

end AbacusVerif.Power
