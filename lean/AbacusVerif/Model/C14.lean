/-
  Model of `BloscCompressor.decompress` / `.compress` (abacusnbody/data/asdf.py): the
  length-prefixed frame reassembly state machine, branch by branch.  The codec is a parameter.

  ```python
  _size = 0; _pos = 0; _buffer = None; _partial_len = b''; bytesout = 0
  for block in blocks:
      while len(block):
          if not _size:
              if len(_partial_len) + len(block) < 4:            # (partial prefix)
                  _partial_len += block
                  break
              if _partial_len:                                   # (finish prefix)
                  remaining = 4 - len(_partial_len)
                  if remaining:
                      _partial_len += block[:remaining]
                      block = block[remaining:]
                  _size = struct.unpack('!I', _partial_len)[0]
                  _partial_len = b''
              else:                                              # (direct prefix)
                  _size = struct.unpack('!I', block[:4])[0]
                  block = block[4:]
          if len(block) < _size or _buffer is not None:          # (buffer path)
              if _buffer is None:
                  _buffer = np.empty(_size, dtype=np.byte); _pos = 0
              newbytes = min(_size - _pos, len(block))
              _buffer[_pos:_pos + newbytes] = block[:newbytes]
              _pos += newbytes
              block = block[newbytes:]
              if _pos == _size:
                  bytesout += blosc.decompress_ptr(memoryview(_buffer), out + bytesout)
                  _buffer = None; _size = 0
          else:                                                  # (direct path)
              bytesout += blosc.decompress_ptr(memoryview(block[:_size]), out + bytesout)
              block = block[_size:]
              _size = 0
  return bytesout
  ```

  State: `size`, `partialLen`, `buffer` (`none` = `_buffer is None`; `some b` = a buffer of `size`
  bytes whose filled part `_buffer[:_pos]` is `b`), `pos`.  What is observable is the list of
  byte strings handed to the codec, in order; `bytesout`/the output buffer are functions of it
  (`output`, `bytesOut`).  `struct.unpack` on a string that is not 4 bytes long and a loop that
  would not terminate are errors of the model (`Err`), never defaults.
-/
import AbacusVerif.Model.Common
import AbacusVerif.Model.HexBytes

namespace AbacusVerif.Blsc
open AbacusVerif

inductive Err where
  | structError   -- struct.error: unpack of a string that is not 4 bytes / pack of a number ≥ 2^32
  | diverges      -- an iteration of `while len(block)` that consumes nothing (the real loop would spin)
  | zeroStep      -- range() arg 3 must not be zero (compression_block_size < itemsize)
  | valueError    -- `raise ValueError(shuffle)`: an unknown shuffle keyword
  deriving Repr, DecidableEq

def Err.toString : Err → String
  | .structError => "struct"
  | .diverges => "diverges"
  | .zeroStep => "zero-step"
  | .valueError => "value-error"

structure St where
  size : Nat
  partialLen : Bytes
  buffer : Option Bytes
  pos : Nat
  deriving Repr, DecidableEq

def St.init : St := { size := 0, partialLen := [], buffer := none, pos := 0 }

/-- `struct.unpack('!I', s)[0]` -/
def unpackBE32 : Bytes → Except Err Nat
  | [a, b, c, d] => .ok (a.toNat * 2 ^ 24 + b.toNat * 2 ^ 16 + c.toNat * 2 ^ 8 + d.toNat)
  | _ => .error .structError

/-- `struct.pack('!I', n)` -/
def packBE32 (n : Nat) : Except Err Bytes :=
  if n < 2 ^ 32 then .ok (be32 n) else .error .structError

/-- outcome of the `if not _size:` part of one iteration -/
inductive Pre where
  | brk (st : St)                    -- `break`: the chunk is exhausted inside a length prefix
  | go (st : St) (block : Bytes)     -- fall through to the payload part

def readPrefix (st : St) (block : Bytes) : Except Err Pre :=
  if st.size ≠ 0 then .ok (.go st block)
  else if st.partialLen.length + block.length < 4 then
    -- partial prefix
    .ok (.brk { st with partialLen := st.partialLen ++ block })
  else if st.partialLen ≠ [] then
    -- finish prefix
    let remaining := 4 - st.partialLen.length
    let pl := if remaining ≠ 0 then st.partialLen ++ block.take remaining else st.partialLen
    let block' := if remaining ≠ 0 then block.drop remaining else block
    match unpackBE32 pl with
    | .error e => .error e
    | .ok n => .ok (.go { st with size := n, partialLen := [] } block')
  else
    -- direct prefix
    match unpackBE32 (block.take 4) with
    | .error e => .error e
    | .ok n => .ok (.go { st with size := n } (block.drop 4))

/-- the payload part of one iteration: new state, rest of the chunk, frames handed to the codec -/
def body (st : St) (block : Bytes) : St × Bytes × List Bytes :=
  if block.length < st.size ∨ st.buffer.isSome then
    -- buffer path
    let buf := match st.buffer with | none => [] | some b => b
    let pos := match st.buffer with | none => 0 | some _ => st.pos
    let newbytes := min (st.size - pos) block.length
    let buf := buf ++ block.take newbytes
    let pos := pos + newbytes
    let block := block.drop newbytes
    if pos = st.size then
      ({ st with size := 0, buffer := none, pos := pos }, block, [buf])
    else
      ({ st with buffer := some buf, pos := pos }, block, [])
  else
    -- direct path
    ({ st with size := 0 }, block.drop st.size, [block.take st.size])

/-- `while len(block): …` with fuel (one unit per iteration; every iteration of a run that the
real loop finishes consumes at least one byte, so `len(block)` units suffice — `feed_ok` proves
that the fuel never runs out on a well-formed stream) -/
def loop : Nat → St → Bytes → Except Err (St × List Bytes)
  | _, st, [] => .ok (st, [])
  | 0, _, _ :: _ => .error .diverges
  | fuel + 1, st, b :: bs =>
    match readPrefix st (b :: bs) with
    | .error e => .error e
    | .ok (.brk st') => .ok (st', [])
    | .ok (.go st' block') =>
      match loop fuel (body st' block').1 (body st' block').2.1 with
      | .error e => .error e
      | .ok (st'', out) => .ok (st'', (body st' block').2.2 ++ out)

/-- one `for block in blocks` step -/
def feed (st : St) (chunk : Bytes) : Except Err (St × List Bytes) :=
  loop chunk.length st chunk

/-- all chunks, tail recursively; `acc` = frames handed to the codec so far -/
def feedAll : St → List Bytes → List Bytes → Except Err (List Bytes × St)
  | st, acc, [] => .ok (acc, st)
  | st, acc, c :: cs =>
    match feed st c with
    | .error e => .error e
    | .ok (st', out) => feedAll st' (acc ++ out) cs

/-- `decompress(blocks, out)`: (frames handed to `blosc.decompress_ptr` in order, final state) -/
def decompress (chunks : List Bytes) : Except Err (List Bytes × St) :=
  feedAll St.init [] chunks

/-- what ends up in `out`: the decoded frames one after the other (`out + bytesout`) -/
def output (dec : Bytes → Bytes) (frames : List Bytes) : Bytes := frames.flatMap dec

/-- the returned `bytesout` -/
def bytesOut (dec : Bytes → Bytes) (frames : List Bytes) : Nat := (output dec frames).length

/-! ### the same state machine in linear time

`_buffer` is kept as the reversed list of the segments copied into it (`buf ++ seg` on a byte list
costs the length of `buf` every time; a 1-byte chunking of a long payload is then quadratic).
`Lemmas/C14.lean` proves `decompressF` equal to `decompress` (`decompressF_eq`); the driver runs
this one. -/

structure StF where
  size : Nat
  partialLen : Bytes
  segs : Option (List Bytes)
  pos : Nat
  deriving Repr, DecidableEq

def StF.init : StF := { size := 0, partialLen := [], segs := none, pos := 0 }

/-- the simple state a fast state stands for -/
def StF.abs (st : StF) : St :=
  { size := st.size, partialLen := st.partialLen,
    buffer := st.segs.map (fun l => l.reverse.flatten), pos := st.pos }

inductive PreF where
  | brk (st : StF)
  | go (st : StF) (block : Bytes)

/-- the prefix part never looks at the buffer: run it on the buffer-less core of the state -/
def readPrefixF (st : StF) (block : Bytes) : Except Err PreF :=
  match readPrefix { size := st.size, partialLen := st.partialLen, buffer := none, pos := 0 } block with
  | .error e => .error e
  | .ok (.brk s) => .ok (.brk { st with size := s.size, partialLen := s.partialLen })
  | .ok (.go s b) => .ok (.go { st with size := s.size, partialLen := s.partialLen } b)

def bodyF (st : StF) (block : Bytes) : StF × Bytes × List Bytes :=
  if block.length < st.size ∨ st.segs.isSome then
    let segs := match st.segs with | none => [] | some l => l
    let pos := match st.segs with | none => 0 | some _ => st.pos
    let newbytes := min (st.size - pos) block.length
    let segs := block.take newbytes :: segs
    let pos := pos + newbytes
    let block := block.drop newbytes
    if pos = st.size then
      ({ st with size := 0, segs := none, pos := pos }, block, [segs.reverse.flatten])
    else
      ({ st with segs := some segs, pos := pos }, block, [])
  else
    ({ st with size := 0 }, block.drop st.size, [block.take st.size])

def loopF : Nat → StF → Bytes → Except Err (StF × List Bytes)
  | _, st, [] => .ok (st, [])
  | 0, _, _ :: _ => .error .diverges
  | fuel + 1, st, b :: bs =>
    match readPrefixF st (b :: bs) with
    | .error e => .error e
    | .ok (.brk st') => .ok (st', [])
    | .ok (.go st' block') =>
      match loopF fuel (bodyF st' block').1 (bodyF st' block').2.1 with
      | .error e => .error e
      | .ok (st'', out) => .ok (st'', (bodyF st' block').2.2 ++ out)

def feedF (st : StF) (chunk : Bytes) : Except Err (StF × List Bytes) :=
  loopF chunk.length st chunk

def feedAllF : StF → List Bytes → List Bytes → Except Err (List Bytes × StF)
  | st, acc, [] => .ok (acc, st)
  | st, acc, c :: cs =>
    match feedF st c with
    | .error e => .error e
    | .ok (st', out) => feedAllF st' (acc ++ out) cs

def decompressF (chunks : List Bytes) : Except Err (List Bytes × StF) :=
  feedAllF StF.init [] chunks

/-! ### compress -/

/-- `range(0, n, step)` for `step > 0` -/
def pyRange (n step : Nat) : List Nat := (List.range ((n + step - 1) / step)).map (· * step)

/-- `[data[i : i + nelem] for i in range(0, len(data), nelem)]` -/
def blocksOf {α} (nelem : Nat) (items : List α) : List (List α) :=
  (pyRange items.length nelem).map (fun i => (items.drop i).take nelem)

/-- `header + compressed` for one compression block -/
def frameOf (enc : Bytes → Bytes) (raw : Bytes) : Except Err Bytes :=
  match packBE32 (enc raw).length with
  | .error e => .error e
  | .ok h => .ok (h ++ enc raw)

/-- the frames of successive raw compression blocks (`yield header + compressed` per block) -/
def framesOf (enc : Bytes → Bytes) : List Bytes → Except Err (List Bytes)
  | [] => .ok []
  | raw :: rest =>
    match frameOf enc raw with
    | .error e => .error e
    | .ok f =>
      match framesOf enc rest with
      | .error e => .error e
      | .ok fs => .ok (f :: fs)

/-- `list(compress(data, compression_block_size=blockSize))` for a buffer of `items` (each of
`data.itemsize = itemsize` bytes): the yielded byte strings -/
def compress (enc : Bytes → Bytes) (itemsize blockSize : Nat) (items : List Bytes) :
    Except Err (List Bytes) :=
  let nelem := blockSize / itemsize
  if nelem = 0 then .error .zeroStep
  else framesOf enc ((blocksOf nelem items).map List.flatten)

/-! ### compress with its keyword arguments

```python
nthreads = kwargs.pop('nthreads', 1)
compression_block_size = kwargs.pop('compression_block_size', 1 << 22)
blosc_block_size = kwargs.pop('blosc_block_size', 512 * 1024)
typesize = kwargs.pop('typesize', 'auto')
clevel = kwargs.pop('clevel', 1)
cname = kwargs.pop('cname', 'zstd')
shuffle = kwargs.pop('shuffle', 'shuffle')        # 'shuffle' | 'bitshuffle' | None | else ValueError
blosc.set_nthreads(nthreads); blosc.set_blocksize(blosc_block_size)
this_typesize = data.itemsize if typesize == 'auto' else typesize
nelem = compression_block_size // data.itemsize
for i in range(0, len(data), nelem):
    blosc.compress(data[i:i+nelem], typesize=this_typesize, clevel=clevel, shuffle=shuffle, cname=cname, **kwargs)
```
A keyword that is absent is `none`; what is left in `kwargs` after the pops (`extra`) is passed to the
codec untouched. -/

inductive ShuffleArg where
  | shuffle | bitshuffle | noshuffle      -- 'shuffle', 'bitshuffle', None
  | other (s : String)                    -- anything else
  deriving Repr, DecidableEq

structure Kwargs where
  nthreads : Option Nat := none
  compressionBlockSize : Option Nat := none
  bloscBlockSize : Option Nat := none
  typesize : Option Nat := none           -- `none` = absent or 'auto'
  clevel : Option Nat := none
  cname : Option String := none
  shuffle : Option ShuffleArg := none
  extra : List (String × String) := []
  deriving Repr, DecidableEq

/-- the keyword arguments of one `blosc.compress` call -/
structure CodecArgs where
  typesize : Nat
  clevel : Nat
  shuffle : Nat                           -- blosc.NOSHUFFLE = 0, SHUFFLE = 1, BITSHUFFLE = 2
  cname : String
  extra : List (String × String)
  deriving Repr, DecidableEq

/-- everything the codec module sees from one `list(compress(data, **kwargs))` -/
structure CompressTrace where
  nthreads : Nat                          -- blosc.set_nthreads(…)
  bloscBlockSize : Nat                    -- blosc.set_blocksize(…)
  args : CodecArgs                        -- the same for every block
  blocks : List Bytes                     -- the raw blocks handed to blosc.compress, in order
  pieces : List Bytes                     -- the yielded strings
  deriving Repr, DecidableEq

def shuffleConst : ShuffleArg → Except Err Nat
  | .shuffle => .ok 1
  | .bitshuffle => .ok 2
  | .noshuffle => .ok 0
  | .other _ => .error .valueError

def codecArgs (kw : Kwargs) (itemsize : Nat) : Except Err CodecArgs :=
  match shuffleConst (kw.shuffle.getD .shuffle) with
  | .error e => .error e
  | .ok sh => .ok { typesize := kw.typesize.getD itemsize, clevel := kw.clevel.getD 1, shuffle := sh,
                    cname := kw.cname.getD "zstd", extra := kw.extra }

/-- `list(compress(data, **kw))` with the codec a function of the call's keyword arguments -/
def compressK (enc : CodecArgs → Bytes → Bytes) (kw : Kwargs) (itemsize : Nat) (items : List Bytes) :
    Except Err CompressTrace :=
  match codecArgs kw itemsize with
  | .error e => .error e             -- raised before set_nthreads / set_blocksize / any codec call
  | .ok ca =>
    let blockSize := kw.compressionBlockSize.getD (2 ^ 22)
    let nelem := blockSize / itemsize
    if nelem = 0 then .error .zeroStep
    else
      let raws := (blocksOf nelem items).map List.flatten
      match framesOf (enc ca) raws with
      | .error e => .error e
      | .ok pieces => .ok { nthreads := kw.nthreads.getD 1, bloscBlockSize := kw.bloscBlockSize.getD (512 * 1024),
                            args := ca, blocks := raws, pieces := pieces }

/-! ### specification vocabulary -/

/-- one frame of the stream: big-endian length prefix, then the (compressed) payload -/
def frame (p : Bytes) : Bytes := be32 p.length ++ p

/-- the stream that carries the payloads `ps` -/
def stream (ps : List Bytes) : Bytes := ps.flatMap frame

/-- well-formed payload list: every payload non-empty (the code uses `_size == 0` for "length not
known yet"; a blosc frame has a 16-byte header) and short enough for a 4-byte prefix -/
def WF (ps : List Bytes) : Prop := ∀ p ∈ ps, p ≠ [] ∧ p.length < 2 ^ 32

instance (ps : List Bytes) : Decidable (WF ps) := by unfold WF; infer_instance

/-- only the length bound: payloads may be empty (a malformed stream; the state machine hands the
codec an empty frame and goes on with the next 4 bytes) -/
def WFlen (ps : List Bytes) : Prop := ∀ p ∈ ps, p.length < 2 ^ 32

instance (ps : List Bytes) : Decidable (WFlen ps) := by unfold WFlen; infer_instance

/-- equal up to a dead `_pos`: `_pos` is only meaningful while `_buffer is not None` -/
def St.Eqv (a b : St) : Prop :=
  a.size = b.size ∧ a.partialLen = b.partialLen ∧ a.buffer = b.buffer ∧ (a.buffer ≠ none → a.pos = b.pos)

/-- the state between frames: nothing pending (`_pos` is dead while `_buffer is None`: it is
reset to 0 before it is read again) -/
def St.Idle (st : St) : Prop := st.size = 0 ∧ st.partialLen = [] ∧ st.buffer = none

/-- the bytes of the current, incomplete frame that the state holds -/
def St.pending (st : St) : Bytes :=
  match st.buffer with
  | none => st.partialLen
  | some b => be32 st.size ++ b

/-- shape of a state between two iterations of the loop -/
def St.Shaped (st : St) : Prop :=
  match st.buffer with
  | none => st.size = 0 ∧ st.partialLen.length < 4
  | some b => st.size ≠ 0 ∧ st.size < 2 ^ 32 ∧ st.partialLen = [] ∧ st.pos = b.length ∧ b.length < st.size

/-! ### driver: a tiny codec so that frames can be 1–3 bytes long

`enc x = [(7·len x + 3) mod 256] ++ map (xor 0xA5) x`, `dec f = map (xor 0xA5) (tail f)`. -/

def toyEnc (x : Bytes) : Bytes := UInt8.ofNat (7 * x.length + 3) :: x.map (· ^^^ 0xA5)
def toyDec (f : Bytes) : Bytes := (f.drop 1).map (· ^^^ 0xA5)

/-- sizes as `n` or `nxk` (k chunks of n bytes), comma separated; `.` = no chunk at all -/
def parseSize1? (acc : List Nat) (t : String) : Option (List Nat) :=
  match t.splitOn "x" with
  | [n] => (String.toNat? n).map (fun n => n :: acc)
  | [n, k] =>
    match String.toNat? n, String.toNat? k with
    | some n, some k => some (List.replicate k n ++ acc)
    | _, _ => none
  | _ => none

def parseSizes? (s : String) : Option (List Nat) :=
  if s = "." then some []
  else ((s.splitOn ",").foldlM parseSize1? []).map List.reverse

/-- cut `s` into consecutive chunks of the given sizes (tail recursive); `none` unless they add up -/
def cutAux : Bytes → List Nat → Array Bytes → Option (List Bytes)
  | [], [], acc => some acc.toList
  | _ :: _, [], _ => none
  | s, n :: ns, acc =>
    let c := s.take n
    if c.length = n then cutAux (s.drop n) ns (acc.push c) else none

def showSt (st : St) : String :=
  s!"{st.size}:{bytesToHex st.partialLen}:{match st.buffer with | none => "none" | some b => bytesToHex b}:{st.pos}"

/-- frames handed to the codec after each chunk (cumulative counts), tail recursive -/
def perChunkF : StF → Nat → List Bytes → Array Nat → Except Err (List Nat)
  | _, _, [], acc => .ok acc.toList
  | st, n, c :: cs, acc =>
    match feedF st c with
    | .error e => .error e
    | .ok (st', out) => perChunkF st' (n + out.length) cs (acc.push (n + out.length))

/-- run-length form of a list of numbers: `v` or `vxk`, comma separated -/
def rle (l : List Nat) : String :=
  let groups := l.foldl (fun (acc : List (Nat × Nat)) v =>
    match acc with
    | (w, k) :: rest => if w = v then (w, k + 1) :: rest else (v, 1) :: acc
    | [] => [(v, 1)]) []
  if groups.isEmpty then "." else
  ",".intercalate (groups.reverse.map (fun (v, k) => if k = 1 then s!"{v}" else s!"{v}x{k}"))

/-- the buffer as a list of items of `isz` bytes -/
def itemsOf (isz : Nat) (d : Bytes) : List Bytes :=
  (List.range (d.length / isz)).map (fun k => (d.drop (k * isz)).take isz)

/-- one `key=value` token of an `enck` request -/
def parseKw1? (kw : Kwargs) (t : String) : Option Kwargs :=
  match t.splitOn "=" with
  | [k, v] =>
    if k = "nthreads" then (String.toNat? v).map (fun n => { kw with nthreads := some n })
    else if k = "cbs" then (String.toNat? v).map (fun n => { kw with compressionBlockSize := some n })
    else if k = "bbs" then (String.toNat? v).map (fun n => { kw with bloscBlockSize := some n })
    else if k = "typesize" then
      if v = "auto" then some { kw with typesize := none }
      else (String.toNat? v).map (fun n => { kw with typesize := some n })
    else if k = "clevel" then (String.toNat? v).map (fun n => { kw with clevel := some n })
    else if k = "cname" then some { kw with cname := some v }
    else if k = "shuffle" then
      some { kw with shuffle := some (if v = "shuffle" then .shuffle else if v = "bitshuffle" then .bitshuffle
                                      else if v = "none" then .noshuffle else .other v) }
    else if k.startsWith "x:" then some { kw with extra := kw.extra ++ [((k.drop 2).toString, v)] }
    else none
  | _ => none

def showArgs (a : CodecArgs) : String :=
  let ex := if a.extra.isEmpty then "." else ";".intercalate (a.extra.map (fun (k, v) => s!"{k}~{v}"))
  s!"{a.typesize}:{a.clevel}:{a.shuffle}:{a.cname}:{ex}"

/-- requests
* `dec <hexstream> <sizes>` → `ok n=<bytesout> frames=<hex,…> per=<rle of cumulative counts> st=<state> out=<hex>`
  (run on the linear-time machine; `decs` runs the simple one, for small inputs)
* `enc <itemsize> <blockSize> <hexdata>` → `ok <hex,…>` (the yielded strings)
* `enck <itemsize> <hexdata> [key=value …]` → `ok nthreads=… bbs=… args=… blocks=… pieces=…` -/
def handle (args : List String) : String :=
  match args with
  | ["dec", hs, sizes] =>
    match hexToBytes? hs, parseSizes? sizes with
    | some s, some ns =>
      match cutAux s ns #[] with
      | none => "bad-op"
      | some chunks =>
        match decompressF chunks, perChunkF StF.init 0 chunks #[] with
        | .ok (frames, st), .ok per =>
          s!"ok n={bytesOut toyDec frames} frames={bytesListToHex frames} per={rle per} st={showSt st.abs} out={bytesToHex (output toyDec frames)}"
        | .error e, _ => s!"err {e.toString}"
        | _, .error e => s!"err {e.toString}"
    | _, _ => "bad-op"
  | ["decs", hs, sizes] =>
    match hexToBytes? hs, parseSizes? sizes with
    | some s, some ns =>
      match cutAux s ns #[] with
      | none => "bad-op"
      | some chunks =>
        match decompress chunks with
        | .ok (frames, st) => s!"ok n={bytesOut toyDec frames} frames={bytesListToHex frames} st={showSt st}"
        | .error e => s!"err {e.toString}"
    | _, _ => "bad-op"
  | ["enc", isz, bsz, hd] =>
    match isz.toNat?, bsz.toNat?, hexToBytes? hd with
    | some isz, some bsz, some d =>
      if isz = 0 ∨ d.length % isz ≠ 0 then "bad-op"
      else
        match compress toyEnc isz bsz (itemsOf isz d) with
        | .ok cs => s!"ok {bytesListToHex cs}"
        | .error e => s!"err {e.toString}"
    | _, _, _ => "bad-op"
  | "enck" :: isz :: hd :: kws =>
    match isz.toNat?, hexToBytes? hd, kws.foldlM parseKw1? ({} : Kwargs) with
    | some isz, some d, some kw =>
      if isz = 0 ∨ d.length % isz ≠ 0 then "bad-op"
      else
        match compressK (fun _ => toyEnc) kw isz (itemsOf isz d) with
        | .ok t => s!"ok nthreads={t.nthreads} bbs={t.bloscBlockSize} args={showArgs t.args} blocks={bytesListToHex t.blocks} pieces={bytesListToHex t.pieces}"
        | .error e => s!"err {e.toString}"
    | _, _, _ => "bad-op"
  | _ => "bad-op"

end AbacusVerif.Blsc
