/-
  C09 — vocabulary of the width-expression tables regenerated from the source
  (`harness/hodwidths09.py` -> `Generated/HodWidths.lean`).  Core Lean only.

  A width (what the first pass of `gen_cent` / `gen_sats` adds to a marker) is a product
  `occupation(args…) * factor * factor …`.  Arguments and factors are sums of products of atoms
  (a literal, a HOD parameter `X_hod_dict['key']`, a table column at row `i`), or `10 ** (such a sum)`.
  Tables are compared up to the order of summands / factors (`tableEqv`), by evaluation of a Boolean.
-/
import AbacusVerif.Model.C09

namespace AbacusVerif.Hod.W
open AbacusVerif.Hod

/-- keys of the HOD parameter dictionaries -/
inductive Par where
  | logM_cut | logM1 | sigma | alpha | kappa | ic | Acent | Asat | Bcent | Bsat | Ccent | Csat
  | p_max | Q | gamma | A_s | s | s_v | s_p | s_r | logM1_EE | alpha_EE | logM1_EL | alpha_EL
  | alpha_c | alpha_s | f_sigv | exp_frac | exp_scale | nfw_rescale
  deriving DecidableEq, Repr

/-- table columns, named by meaning: `mass` is `halo_data['hmass']` / `particle_data['phmass']` (the host's
mass), `multis` the halo multiplicity, `weights` the particle weight, `deltac`/`fenv`/`shear` the
assembly-bias columns of the host, `ranks…` the particle ranks, `random` the stored uniform number -/
inductive Col where
  | mass | multis | weights | deltac | fenv | shear | ranks | ranksv | ranksp | ranksr | ranksc | random
  deriving DecidableEq, Repr

/-- the package's mean-occupation functions -/
inductive Occ where
  | n_cen_LRG | N_cen_ELG_v1 | N_cen_QSO | n_sat_LRG_modified | N_sat_elg | N_sat_generic
  deriving DecidableEq, Repr

inductive Atom where
  | lit (n : Nat)
  | par (t : Tracer) (p : Par)
  | col (c : Col)
  deriving DecidableEq, Repr

/-- a product of atoms -/
abbrev Term := List Atom
/-- a sum of products -/
abbrev Poly := List Term

inductive Arg where
  | poly (p : Poly)
  | pow10 (p : Poly)
  deriving DecidableEq, Repr

/-- one width: pass (`sat`), tracer, rank decoration on/off, host central code class (0 = neither 1 nor 2) -/
structure WidthRow where
  sat : Bool
  tracer : Tracer
  ranks : Bool
  kc : Nat
  occ : Occ
  args : List Arg
  factors : List Poly
  deriving DecidableEq, Repr

inductive CmpOp where
  | le | lt | ge | gt
  deriving DecidableEq, Repr

/-- one branch of the `if … elif …` chain: `[want_guard and] randoms[i] op marker_marker: keep[i] = code` -/
structure ChainRow where
  guard : Option Tracer
  op : CmpOp
  marker : Tracer
  code : Nat
  deriving DecidableEq, Repr

/-! ### equality up to the order of factors and summands -/

/-- multiset equality of two lists under an equivalence test `e` -/
def msetEqv {α} (e : α → α → Bool) (a b : List α) : Bool :=
  a.length == b.length && a.all (fun x => (a.filter (e x)).length == (b.filter (e x)).length)

def termEqv (a b : Term) : Bool := msetEqv (fun x y => decide (x = y)) a b
def polyEqv (a b : Poly) : Bool := msetEqv termEqv a b

def argEqv : Arg → Arg → Bool
  | .poly a, .poly b => polyEqv a b
  | .pow10 a, .pow10 b => polyEqv a b
  | _, _ => false

/-- positional lists equal under `e` -/
def listEqv {α} (e : α → α → Bool) : List α → List α → Bool
  | [], [] => true
  | x :: xs, y :: ys => e x y && listEqv e xs ys
  | _, _ => false

def rowEqv (a b : WidthRow) : Bool :=
  a.sat == b.sat && decide (a.tracer = b.tracer) && a.ranks == b.ranks && a.kc == b.kc &&
    decide (a.occ = b.occ) && listEqv argEqv a.args b.args && msetEqv polyEqv a.factors b.factors

/-- the two tables describe the same widths (rows matched as a multiset) -/
def tableEqv (a b : List WidthRow) : Bool := msetEqv rowEqv a b

end AbacusVerif.Hod.W
