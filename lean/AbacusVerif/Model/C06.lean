/-
  Model of the mass-assignment kernels (core Lean only, exact rationals):

  * `abacusnbody/analysis/tsc.py`: `_rightwrap`, `_tsc_scatter`, `_wrap_inplace`,
    `tsc_parallel` with one thread (= optional `_wrap_inplace`, then one `_tsc_scatter`);
  * `abacusnbody/analysis/cic.py`: `rightwrap`, `cic_serial`.

  Per particle and per axis the code does (TSC, `tsc.py`)

  ```python
  px = (positions[n, 0] + offset) * inv_hx          # inv_hx = ftype(gx / boxsize)
  ix = itype(round(px))                             # numba round: half to even
  dx = ftype(ix) - px
  wx = P75 - dx**2 ; wxm1 = HALF * (HALF + dx) ** 2 ; wxp1 = HALF * (HALF - dx) ** 2
  ixm1 = _rightwrap(ix - itype(1), gx) ; ixw = _rightwrap(ix, gx) ; ixp1 = _rightwrap(ix + itype(1), gx)
  ```

  and (CIC, `cic.py`)

  ```python
  px = (positions[n, 0] / boxsize) * gx
  ix = np.int32(round(px)) ; dx = ix - px
  wx = 1.0 - np.abs(dx)
  if dx > 0.0: wxm1 = dx ; wxp1 = 0.0
  else:        wxp1 = -dx ; wxm1 = 0.0
  ixm1 = rightwrap(ix - 1, gx) ; ixw = rightwrap(ix, gx) ; ixp1 = rightwrap(ix + 1, gx)
  ```

  followed, in both files, by the same 9 (`threeD` false: third axis of size 1, `izw = 0`, `wz = 1`)
  or 27 statements `density[i, j, k] += w_i * w_j * w_k * W` in a fixed order.  Every subscript goes
  through `_rightwrap` (`while x >= L: x -= L`) and then the Python index rule (`idx`): a negative
  index wraps once, anything else outside `[0, g)` is `Fault.oob` (an `IndexError` in `py_func` / under `NUMBA_BOUNDSCHECK=1`, a stray
  write otherwise).

  Floating point is not modelled: all inputs are exact rationals (the harness transmits each
  float as the rational it denotes) and all arithmetic is exact.  The grid is a flat
  row-major `List Rat` of length `gx*gy*gz`.  Integer widths (`int16` indices in TSC, `int32` in
  CIC, `uint32` shape in CIC) are not modelled: grids wider than 2^15 cells are out of scope.
-/
import AbacusVerif.Model.Num

namespace AbacusVerif.Mass
open AbacusVerif

/-! ### one axis -/

/-- what the code computes per axis: the nearest cell `ix` and the weights it sends to
`ix-1`, `ix`, `ix+1` -/
structure Axis where
  ix : Int
  wm : Rat
  w0 : Rat
  wp : Rat
  deriving Repr

/-- TSC: `ix = round(p)`, `dx = ix - p`, `0.5(0.5+dx)^2`, `0.75-dx^2`, `0.5(0.5-dx)^2` -/
def tscAxis (p : Rat) : Axis :=
  let ix := rhe p
  let dx : Rat := (ix : Rat) - p
  { ix := ix
    w0 := 3/4 - dx ^ 2
    wm := 1/2 * (1/2 + dx) ^ 2
    wp := 1/2 * (1/2 - dx) ^ 2 }

/-- `np.abs` -/
def rabs (x : Rat) : Rat := if x < 0 then -x else x

/-- CIC: `wx = 1 - |dx|`; `dx > 0` sends `dx` to the left neighbour, otherwise `-dx` to the right -/
def cicAxis (p : Rat) : Axis :=
  let ix := rhe p
  let dx : Rat := (ix : Rat) - p
  let w0 := 1 - rabs dx
  if dx > 0 then { ix := ix, w0 := w0, wm := dx, wp := 0 }
  else { ix := ix, w0 := w0, wp := -dx, wm := 0 }

/-- the loop `while x >= L: x -= L` with an explicit iteration budget -/
def rightwrapLoop : Nat → Int → Int → Int
  | 0, x, _ => x
  | n + 1, x, L => if x ≥ L then rightwrapLoop n (x - L) L else x

/-- `_rightwrap(x, L)` (tsc.py) / `rightwrap(x, L)` (cic.py) as they stand now:

```python
while x >= L:
    x -= L
return x
```

For `L ≥ 1` every iteration lowers a positive `x` by at least one, so `x.toNat` iterations are enough and the
budget is never exhausted (`Lemmas/C06.lean: rightwrap_eq`: the result is `x % L` when `x ≥ L`, else `x`
unchanged — a negative subscript is left to the Python negative-index rule).  For a zero-sized axis (`L = 0`)
the real loop does not terminate on `x ≥ 0`; such grids are outside the model (the driver rejects them). -/
def rightwrap (x L : Int) : Int := rightwrapLoop x.toNat x L

/-- the cell an axis subscript `i` finally addresses on an axis of `g` cells:
`_rightwrap`, then the Python negative-index rule -/
def cellOf (g : Nat) (i : Int) : Except Fault Nat := idx g (rightwrap i (g : Int))

/-- the three neighbours in the order the code names them: `m1`, `w`, `p1` -/
inductive Slot where
  | m | c | p
  deriving DecidableEq, Repr

/-- an axis whose three subscripts have been resolved to cells -/
structure RAxis where
  cm : Nat
  c0 : Nat
  cp : Nat
  wm : Rat
  w0 : Rat
  wp : Rat
  deriving Repr

def RAxis.cell (a : RAxis) : Slot → Nat
  | .m => a.cm | .c => a.c0 | .p => a.cp

def RAxis.w (a : RAxis) : Slot → Rat
  | .m => a.wm | .c => a.w0 | .p => a.wp

def resolve (g : Nat) (a : Axis) : Except Fault RAxis := do
  let cm ← cellOf g (a.ix - 1)
  let c0 ← cellOf g a.ix
  let cp ← cellOf g (a.ix + 1)
  pure { cm := cm, c0 := c0, cp := cp, wm := a.wm, w0 := a.w0, wp := a.wp }

/-- the third axis when `threeD` is false: `izw = 0`, `wz = 1`, no `izm1`/`izp1` -/
def flatZ : RAxis := { cm := 0, c0 := 0, cp := 0, wm := 0, w0 := 1, wp := 0 }

/-- total weight the code sends to cell `c` of one axis -/
def RAxis.weightAt (a : RAxis) (c : Nat) : Rat :=
  (if a.cm = c then a.wm else 0) + (if a.c0 = c then a.w0 else 0) + (if a.cp = c then a.wp else 0)

/-! ### the 9 / 27 accumulations, in the order of the source -/

open Slot in
/-- `(x, y)` slots of the nine statements `density[ix?, iy?, izw] += …` -/
def pairs9 : List (Slot × Slot) :=
  [(m, m), (m, c), (m, p), (c, m), (c, c), (c, p), (p, m), (p, c), (p, p)]

/-- the nine statements executed in both modes (z slot `w`) -/
def order9 : List (Slot × Slot × Slot) := pairs9.map (fun ab => (ab.1, ab.2, Slot.c))

/-- the eighteen further statements of the `if threeD:` block: for each `(x, y)` pair, `izm1` then `izp1` -/
def order18 : List (Slot × Slot × Slot) :=
  pairs9.flatMap (fun ab => [(ab.1, ab.2, Slot.m), (ab.1, ab.2, Slot.p)])

/-- row-major offset of cell `(i, j, k)` in a grid of shape `(gx, gy, gz)` -/
def flat (gy gz : Nat) (i j k : Nat) : Nat := (i * gy + j) * gz + k

/-- `density[X.cell a, Y.cell b, Z.cell c] += X.w a * Y.w b * Z.w c * W` for each slot triple -/
def writes (gy gz : Nat) (X Y Z : RAxis) (W : Rat) (slots : List (Slot × Slot × Slot)) :
    List (Nat × Rat) :=
  slots.map (fun s => (flat gy gz (X.cell s.1) (Y.cell s.2.1) (Z.cell s.2.2),
                       X.w s.1 * Y.w s.2.1 * Z.w s.2.2 * W))

/-! ### configuration, particles -/

inductive Kind where
  | tsc | cic
  deriving DecidableEq, Repr

structure Cfg where
  kind : Kind
  gx : Nat
  gy : Nat
  gz : Nat
  box : Rat
  /-- `offset` of `_tsc_scatter` (CIC has none: `get_field` adds it to the positions) -/
  off : Rat

structure Particle where
  x : Rat
  y : Rat
  z : Rat
  w : Rat

def axisOf : Kind → Rat → Axis
  | .tsc => tscAxis
  | .cic => cicAxis

/-- grid coordinate as coded: TSC `(x + offset) * (g / boxsize)`, CIC `(x / boxsize) * g` -/
def gridCoord (c : Cfg) (x : Rat) (g : Nat) : Rat :=
  match c.kind with
  | .tsc => (x + c.off) * ((g : Rat) / c.box)
  | .cic => (x / c.box) * (g : Rat)

/-- `threeD`: TSC `density.ndim == 3 and density.shape[2] != 1`, CIC `gz != 1` (grids are 3-d arrays here) -/
def Cfg.threeD (c : Cfg) : Bool := c.gz != 1

/-- the accumulate list of one particle (one loop iteration), or the fault it raises.
A zero `boxsize` makes the division raise `ZeroDivisionError` (`rejected`). -/
def particleWrites (c : Cfg) (pt : Particle) : Except Fault (List (Nat × Rat)) :=
  if c.box = 0 then .error .rejected
  else do
    let X ← resolve c.gx (axisOf c.kind (gridCoord c pt.x c.gx))
    let Y ← resolve c.gy (axisOf c.kind (gridCoord c pt.y c.gy))
    if c.threeD then
      let Z ← resolve c.gz (axisOf c.kind (gridCoord c pt.z c.gz))
      pure (writes c.gy c.gz X Y Z pt.w (order9 ++ order18))
    else
      pure (writes c.gy c.gz X Y flatZ pt.w order9)

/-! ### the grid -/

/-- `grid[i] += v` on a list-backed array (`i` already resolved; out of range leaves the list unchanged,
which never happens for resolved cells of a grid of the declared length) -/
def addAt : List Rat → Nat → Rat → List Rat
  | [], _, _ => []
  | x :: xs, 0, v => (x + v) :: xs
  | x :: xs, i + 1, v => x :: addAt xs i v

/-- perform a list of `+=` in order -/
def accumulate (grid : List Rat) (ws : List (Nat × Rat)) : List Rat :=
  ws.foldl (fun g w => addAt g w.1 w.2) grid

/-- one loop iteration of `_tsc_scatter` / `cic_serial` -/
def step (c : Cfg) (grid : List Rat) (pt : Particle) : Except Fault (List Rat) :=
  (particleWrites c pt).map (accumulate grid)

/-- `_tsc_scatter(positions, density, boxsize, weights, offset)` / `cic_serial(positions, density,
boxsize, weights)`: the loop over particles onto the supplied grid.  `_tsc_scatter` divides by
`boxsize` before the loop, `cic_serial` inside it. -/
def scatter (c : Cfg) (grid : List Rat) (parts : List Particle) : Except Fault (List Rat) :=
  if c.kind = .tsc ∧ c.box = 0 then .error .rejected
  else parts.foldlM (step c) grid

/-! ### `_wrap_inplace` and single-thread `tsc_parallel` -/

/-- `if x >= box: x -= box  elif x < 0: x += box` -/
def wrap1 (box x : Rat) : Rat :=
  if x ≥ box then x - box else if x < 0 then x + box else x

def wrapParticle (box : Rat) (pt : Particle) : Particle :=
  { x := wrap1 box pt.x, y := wrap1 box pt.y, z := wrap1 box pt.z, w := pt.w }

def wrapInplace (box : Rat) (parts : List Particle) : List Particle := parts.map (wrapParticle box)

/-- `tsc_parallel(pos, densgrid, box, weights, nthread=1, wrap=…, offset=…)`: `npartition = 1`, so
one `_tsc_scatter` over all particles after the optional in-place wrap.  Returns the (possibly
wrapped) positions too, since the caller's array is modified. -/
def tscParallel1 (c : Cfg) (grid : List Rat) (parts : List Particle) (wrap : Bool) :
    List Particle × Except Fault (List Rat) :=
  let ps := if wrap then wrapInplace c.box parts else parts
  (ps, scatter c grid ps)

/-! ### `power_spectrum.get_field` and `normalize_field` -/

/-- `normalize_field(field, tot_weight=N, inplace=True)`:
`norm = dtype(field.size / tot_weight)`, `flatfield[i] = flatfield[i] * norm - 1`.
`tot_weight = 0` makes the division raise `ZeroDivisionError` (`rejected`). -/
def normalizeField (field : List Rat) (totWeight : Nat) : Except Fault (List Rat) :=
  if totWeight = 0 then .error .rejected
  else
    let norm : Rat := (field.length : Rat) / (totWeight : Rat)
    .ok (field.map (fun v => v * norm - 1))

/-- `pos + d` of the CIC branch (a new array; the caller's positions are not modified) -/
def shiftParticle (d : Rat) (pt : Particle) : Particle :=
  { x := pt.x + d, y := pt.y + d, z := pt.z + d, w := pt.w }

/-- `get_field(pos, Lbox, nmesh, paste, w, d, nthread=1, dtype)`:

```python
field = np.zeros((nmesh, nmesh, nmesh), dtype=dtype)
if paste == 'TSC':   tsc_parallel(pos, field, Lbox, weights=w, nthread=nthread, offset=d)     # wrap=True: pos wrapped in place
elif paste == 'CIC': cic_serial(pos + d, field, Lbox, weights=w) if d != 0.0 else cic_serial(pos, field, Lbox, weights=w)
normalize_field(field, inplace=True, tot_weight=len(pos))
```

TSC wraps the caller's positions in place and applies the offset inside the kernel; CIC adds the offset to the
positions and **never wraps**.  Returns the caller's positions after the call and the field (or the fault). -/
def getField (kind : Kind) (nmesh : Nat) (box d : Rat) (parts : List Particle) :
    List Particle × Except Fault (List Rat) :=
  let zeros : List Rat := List.replicate (nmesh * nmesh * nmesh) 0
  match kind with
  | .tsc =>
    let r := tscParallel1 { kind := .tsc, gx := nmesh, gy := nmesh, gz := nmesh, box := box, off := d } zeros parts true
    (r.1, r.2 >>= fun f => normalizeField f parts.length)
  | .cic =>
    let ps := if d ≠ 0 then parts.map (shiftParticle d) else parts
    (parts, scatter { kind := .cic, gx := nmesh, gy := nmesh, gz := nmesh, box := box, off := 0 } zeros ps
              >>= fun f => normalizeField f parts.length)

/-! ### driver -/

def parseParticle? (s : String) : Option Particle :=
  match (s.splitOn ",").mapM parseRat? with
  | some [x, y, z, w] => some { x := x, y := y, z := z, w := w }
  | _ => none

def parseParticles? (s : String) : Option (List Particle) :=
  if s = "-" then some [] else (s.splitOn ";").mapM parseParticle?

def parseKind? (s : String) : Option Kind :=
  if s = "tsc" then some .tsc else if s = "cic" then some .cic else none

/-- `z` = all zeros of the right length, otherwise an explicit list (must have length `n`) -/
def parseGrid? (n : Nat) (s : String) : Option (List Rat) :=
  if s = "z" then some (List.replicate n 0)
  else match parseRatList? s with
    | some l => if l.length = n then some l else none
    | none => none

def showGrid : Except Fault (List Rat) → String
  | .error f => s!"err {f}"
  | .ok g => s!"ok {showList (g.map showRat)}"

def showParticles (ps : List Particle) : String :=
  if ps.isEmpty then "-" else ";".intercalate (ps.map fun p => s!"{showRat p.x},{showRat p.y},{showRat p.z}")

def showAxis (g : Nat) (a : Axis) : String :=
  let cell := fun i => match cellOf g i with | .ok k => toString k | .error f => toString f
  s!"ix={a.ix} w={showRat a.wm},{showRat a.w0},{showRat a.wp} cells={cell (a.ix - 1)},{cell a.ix},{cell (a.ix + 1)}"

/-- requests
* `scatter <tsc|cic> gx gy gz box offset <grid|z> <particles>` → `ok v0,v1,…` (row-major) | `err …`
* `tscpar <wrap 0|1> gx gy gz box offset <grid|z> <particles>` → `<wrapped positions> ok …`
* `getfield <tsc|cic> nmesh box d <particles>` → `<positions after the call> ok f0,f1,…` (normalised field)
* `wrap box <particles>` → wrapped positions
* `axis <tsc|cic> g p` → `ix=… w=wm,w0,wp cells=…`
particles: `x,y,z,w;x,y,z,w;…` or `-`. -/
def handle (args : List String) : String :=
  match args with
  | ["scatter", kind, gx, gy, gz, box, off, grid, parts] =>
    match parseKind? kind, parseNat? gx, parseNat? gy, parseNat? gz, parseRat? box, parseRat? off,
        parseParticles? parts with
    | some kind, some gx, some gy, some gz, some box, some off, some parts =>
      if gx = 0 ∨ gy = 0 ∨ gz = 0 then "err rejected" else
      match parseGrid? (gx * gy * gz) grid with
      | some grid =>
        showGrid (scatter { kind := kind, gx := gx, gy := gy, gz := gz, box := box, off := off } grid parts)
      | none => "bad-length"
    | _, _, _, _, _, _, _ => "bad-op"
  | ["tscpar", wrap, gx, gy, gz, box, off, grid, parts] =>
    match parseBool? wrap, parseNat? gx, parseNat? gy, parseNat? gz, parseRat? box, parseRat? off,
        parseParticles? parts with
    | some wrap, some gx, some gy, some gz, some box, some off, some parts =>
      if gx = 0 ∨ gy = 0 ∨ gz = 0 then "- err rejected" else
      match parseGrid? (gx * gy * gz) grid with
      | some grid =>
        let r := tscParallel1 { kind := .tsc, gx := gx, gy := gy, gz := gz, box := box, off := off } grid parts wrap
        s!"{showParticles r.1} {showGrid r.2}"
      | none => "bad-length"
    | _, _, _, _, _, _, _ => "bad-op"
  | ["getfield", kind, n, box, d, parts] =>
    match parseKind? kind, parseNat? n, parseRat? box, parseRat? d, parseParticles? parts with
    | some kind, some n, some box, some d, some parts =>
      if n = 0 then "- err rejected" else
      let r := getField kind n box d parts
      s!"{showParticles r.1} {showGrid r.2}"
    | _, _, _, _, _ => "bad-op"
  | ["wrap", box, parts] =>
    match parseRat? box, parseParticles? parts with
    | some box, some parts => showParticles (wrapInplace box parts)
    | _, _ => "bad-op"
  | ["axis", kind, g, p] =>
    match parseKind? kind, parseNat? g, parseRat? p with
    | some kind, some g, some p => showAxis g (axisOf kind p)
    | _, _, _ => "bad-op"
  | _ => "bad-op"

end AbacusVerif.Mass
