/-
  C09 — model of the selection rule and the galaxy content of
  `abacusnbody/hod/GRAND_HOD.py`: `gen_cent`, `gen_sats`, `gen_gals` / `gen_gal_cat`, `wrap`.

  First pass of `gen_cent` / `gen_sats` (identical comparison chain in both), per host row `i`:

  ```python
  LRG_marker = 0
  if want_LRG: LRG_marker += <LRG width at row i>
  ELG_marker = LRG_marker
  if want_ELG: ELG_marker += <ELG width at row i>        # gen_sats: chosen by keep_cent[i] (conformity)
  QSO_marker = ELG_marker
  if want_QSO: QSO_marker += <QSO width at row i>
  if   want_LRG and randoms[i] <= LRG_marker: keep[i] = 1
  elif want_ELG and randoms[i] <= ELG_marker: keep[i] = 2
  elif want_QSO and randoms[i] <= QSO_marker: keep[i] = 3
  else:                                        keep[i] = 0
  ```

  Second pass (per tracer `T` with code `c`, rows in increasing `i`, `keep[i] == c`):

  ```python
  x, y, z    = pos[i]                                  # gen_sats: ppos[i]
  vx, vy, vz = vel[i] + alpha_c_T * vdev[i]            # gen_sats: hvel[i] + alpha_s_T * (pvel[i] - hvel[i])
  if rsd and origin is not None:
      n = (x, y, z) - origin; inv_norm = 1/sqrt(n.n); n *= inv_norm
      proj = inv_velz2kms * (v . n);  (x, y, z) += proj * n
  elif rsd:
      z = wrap(z + vz * inv_velz2kms, lbox)
  mass = mass[i]; id = ids[i]                          # gen_sats: hmass[i], hid[i]
  ```

  `gen_gals`: `keep_cent` of `gen_cent` is passed to `gen_sats` as `keep_cent[pinds]`; for every
  tracer in `tracers`: `Ncent = len(centrals)`, every column `fast_concatenate(centrals, satellites)`.

  NFW satellites (`gen_gals(..., nfw=True)` -> `gen_sats_nfw`, `compute_fast_NFW`): the selection rule of
  this property does NOT apply to that path — the number of `T`-satellites of a halo is
  `np.random.poisson(occupation × ic)` drawn from numba's global generator, independently per tracer (a halo
  can host several satellites, of several tracers; the stored random numbers, the particle table, the
  particle weights and ranks are not used), positions are host + random direction × NFW radius, velocities
  `normal(v_host, vrms·0.577·f_sigv)`.  What does apply, and is modelled (`mkNfw`, `genSatsNfw`,
  `genGalCatNfw`, with the drawn counts / positions / velocities as INPUTS): centrals are unchanged
  (`gen_cent`), every NFW satellite carries its host's id and mass (`np.repeat` of the host columns by the
  counts, host order), centrals precede satellites, `Ncent`; RSD as coded there (after the repair of the
  `[0, L)` range): `half = lbox/2; z = (z + vz * inv_velz2kms + half) % lbox - half`, any number of periods,
  into `[-L/2, L/2)`; no light-cone branch.

  The widths (mean occupation × ic × multiplicity | particle weight × rank decorator, including the
  assembly-bias shifts and, for satellites, the three conformity variants of the ELG width) are
  INPUTS: they involve erfc / log10 / pow and are computed by the harness with the package's own
  functions.  `1/sqrt` of the light-cone branch is likewise an input (`invn`).  Real quantities are
  exact rationals.  The thread-block structure of the two passes is the subject of C10; here the
  fill pass is the sequential one (rows in increasing order).
-/
import AbacusVerif.Model.Num

namespace AbacusVerif.Hod
open AbacusVerif

inductive Tracer where
  | LRG | ELG | QSO
  deriving DecidableEq, Repr

/-- the value written to `keep[i]` for a host selected as this tracer -/
def Tracer.code : Tracer → Nat
  | .LRG => 1
  | .ELG => 2
  | .QSO => 3

/-- position in the comparison chain -/
def Tracer.rank : Tracer → Nat
  | .LRG => 0
  | .ELG => 1
  | .QSO => 2

/-- one value per tracer (`want_*` flags, widths, velocity-bias parameters) -/
structure Tri (α : Type) where
  lrg : α
  elg : α
  qso : α
  deriving Repr

def Tri.get {α} (t : Tri α) : Tracer → α
  | .LRG => t.lrg
  | .ELG => t.elg
  | .QSO => t.qso

abbrev Enabled := Tri Bool
abbrev Widths := Tri Rat

/-! ### first pass: the stacked markers and the keep code -/

def markerL (en : Enabled) (w : Widths) : Rat := if en.lrg then 0 + w.lrg else 0
def markerE (en : Enabled) (w : Widths) : Rat := if en.elg then markerL en w + w.elg else markerL en w
def markerQ (en : Enabled) (w : Widths) : Rat := if en.qso then markerE en w + w.qso else markerE en w

def marker (en : Enabled) (w : Widths) : Tracer → Rat
  | .LRG => markerL en w
  | .ELG => markerE en w
  | .QSO => markerQ en w

/-- the `if … elif … elif … else` chain -/
def keepCode (en : Enabled) (w : Widths) (r : Rat) : Nat :=
  if en.lrg && decide (r ≤ markerL en w) then 1
  else if en.elg && decide (r ≤ markerE en w) then 2
  else if en.qso && decide (r ≤ markerQ en w) then 3
  else 0

/-! ### second pass: galaxy content -/

structure V3 where
  x : Rat
  y : Rat
  z : Rat
  deriving Repr

def V3.add (a b : V3) : V3 := ⟨a.x + b.x, a.y + b.y, a.z + b.z⟩
def V3.sub (a b : V3) : V3 := ⟨a.x - b.x, a.y - b.y, a.z - b.z⟩
def V3.smul (c : Rat) (a : V3) : V3 := ⟨c * a.x, c * a.y, c * a.z⟩
def V3.dot (a b : V3) : Rat := a.x * b.x + a.y * b.y + a.z * b.z

structure Gal where
  id : Int
  mass : Rat
  pos : V3
  vel : V3
  deriving Repr

/-- `wrap(x, L)`: a single wrap -/
def wrap (x L : Rat) : Rat :=
  let L2 := L / 2
  if x ≥ L2 then x - L
  else if x < -L2 then x + L
  else x

/-- run-wide configuration: `want_*`, `rsd`, `origin` (None | 3-vector), `inv_velz2kms`, `lbox` -/
structure Cfg where
  en : Enabled
  rsd : Bool
  origin : Option V3
  inv : Rat
  lbox : Rat

/-- the RSD block of the fill pass; `invn` stands for `1/sqrt(n.n)` of this row -/
def applyRsd (cfg : Cfg) (invn : Rat) (pos vel : V3) : V3 :=
  match cfg.rsd, cfg.origin with
  | true, some o =>
    let nx := (pos.x - o.x) * invn
    let ny := (pos.y - o.y) * invn
    let nz := (pos.z - o.z) * invn
    let proj := cfg.inv * (vel.x * nx + vel.y * ny + vel.z * nz)
    ⟨pos.x + proj * nx, pos.y + proj * ny, pos.z + proj * nz⟩
  | true, none => ⟨pos.x, pos.y, wrap (pos.z + vel.z * cfg.inv) cfg.lbox⟩
  | false, _ => pos

/-- one row of the halo table as `gen_cent` reads it -/
structure Host where
  id : Int
  mass : Rat
  pos : V3
  vel : V3
  vdev : V3
  r : Rat
  w : Widths
  invn : Rat
  deriving Repr

/-- one row of the particle table as `gen_sats` reads it; `wE0/wE1/wE2` are the ELG width when the
host's central code is neither 1 nor 2 / is 1 (`logM1_EL, alpha_EL`) / is 2 (`logM1_EE, alpha_EE`);
`kc` is `keep_cent[i]` for a direct `gen_sats` call and `pinds[i]` for `gen_gals`. -/
structure Part where
  hid : Int
  hmass : Rat
  ppos : V3
  pvel : V3
  hvel : V3
  r : Rat
  wL : Rat
  wE0 : Rat
  wE1 : Rat
  wE2 : Rat
  wQ : Rat
  invn : Rat
  kc : Int
  deriving Repr

/-- central galaxy of host `h` with velocity-bias parameter `a = alpha_c` of its tracer -/
def mkCent (cfg : Cfg) (a : Rat) (h : Host) : Gal :=
  let v : V3 := ⟨h.vel.x + a * h.vdev.x, h.vel.y + a * h.vdev.y, h.vel.z + a * h.vdev.z⟩
  { id := h.id, mass := h.mass, pos := applyRsd cfg h.invn h.pos v, vel := v }

/-- satellite galaxy on particle `p` with `a = alpha_s` of its tracer -/
def mkSat (cfg : Cfg) (a : Rat) (p : Part) : Gal :=
  let v : V3 := ⟨p.hvel.x + a * (p.pvel.x - p.hvel.x), p.hvel.y + a * (p.pvel.y - p.hvel.y),
                 p.hvel.z + a * (p.pvel.z - p.hvel.z)⟩
  { id := p.hid, mass := p.hmass, pos := applyRsd cfg p.invn p.ppos v, vel := v }

/-- conformity switch of `gen_sats` on `keep_cent[i]` -/
def satWidths (p : Part) (keepCent : Int) : Widths :=
  { lrg := p.wL
    elg := if keepCent = 1 then p.wE1 else if keepCent = 2 then p.wE2 else p.wE0
    qso := p.wQ }

/-- the fill pass for one tracer: rows in increasing order whose keep code is the tracer's -/
def fill {ρ} (mk : ρ → Gal) (code : Nat) (rows : List ρ) (keep : List Nat) : List Gal :=
  (rows.zip keep).filterMap (fun rk => if rk.2 = code then some (mk rk.1) else none)

structure CentOut where
  keep : List Nat
  gals : Tracer → List Gal

/-- `gen_cent` -/
def genCent (cfg : Cfg) (alphaC : Tri Rat) (hosts : List Host) : CentOut :=
  let keep := hosts.map (fun h => keepCode cfg.en h.w h.r)
  { keep := keep
    gals := fun T => fill (mkCent cfg (alphaC.get T)) T.code hosts keep }

/-- `gen_sats`; each particle row comes with its `keep_cent[i]` -/
def genSats (cfg : Cfg) (alphaS : Tri Rat) (pks : List (Part × Int)) : CentOut :=
  let keep := pks.map (fun pk => keepCode cfg.en (satWidths pk.1 pk.2) pk.1.r)
  { keep := keep
    gals := fun T => fill (fun pk => mkSat cfg (alphaS.get T) pk.1) T.code pks keep }

/-- one element of `keep_cent[subsample['pinds']]` (numpy fancy indexing: a negative index wraps once,
anything still outside raises IndexError) -/
def gatherOne (keepCent : List Nat) (i : Int) : Except Fault Int :=
  match pyIndex keepCent.length i with
  | some k =>
    match keepCent[k]? with
    | some c => .ok (c : Int)
    | none => .error .oob
  | none => .error .oob

/-- `keep_cent[subsample['pinds']]` -/
def gatherKeep (keepCent : List Nat) (pinds : List Int) : Except Fault (List Int) :=
  pinds.mapM (gatherOne keepCent)

structure TracerOut where
  ncent : Nat
  gals : List Gal

structure CatOut where
  keepCent : List Nat
  keepSat : List Nat
  /-- `none` for a tracer that is not in `tracers` -/
  cat : Tracer → Option TracerOut

/-- `gen_gals` / `gen_gal_cat`: centrals, then satellites, `Ncent` = number of centrals -/
def genGalCat (cfg : Cfg) (alphaC alphaS : Tri Rat) (hosts : List Host) (parts : List Part) :
    Except Fault CatOut := do
  let c := genCent cfg alphaC hosts
  let kcs ← gatherKeep c.keep (parts.map (·.kc))
  let s := genSats cfg alphaS (parts.zip kcs)
  pure { keepCent := c.keep
         keepSat := s.keep
         cat := fun T => if cfg.en.get T then
                           some { ncent := (c.gals T).length, gals := c.gals T ++ s.gals T }
                         else none }

/-! ### NFW satellites (`nfw=True`): counts, positions and velocities are random draws, hence inputs -/

/-- Python / numpy float `x % L` for `L ≠ 0`: the result has the sign of `L` -/
def pyMod (x L : Rat) : Rat := x - L * ((x / L).floor : Rat)

/-- one satellite as `compute_fast_NFW` returns it (before RSD) -/
structure Draw where
  pos : V3
  vel : V3
  deriving Repr

/-- `gen_sats_nfw`: id and mass are `np.repeat`-ed from the host row; RSD is
`half = lbox / 2; z = (z + vz*inv + half) % lbox - half` whenever `rsd` (no light-cone branch there) -/
def mkNfw (cfg : Cfg) (h : Host) (d : Draw) : Gal :=
  { id := h.id, mass := h.mass, vel := d.vel,
    pos := if cfg.rsd then
        ⟨d.pos.x, d.pos.y, pyMod (d.pos.z + d.vel.z * cfg.inv + cfg.lbox / 2) cfg.lbox - cfg.lbox / 2⟩
      else d.pos }

/-- the satellites of one tracer: host rows in order, each with its drawn satellites -/
def genSatsNfw (cfg : Cfg) (rows : List (Host × List Draw)) : List Gal :=
  rows.flatMap (fun hd => hd.2.map (mkNfw cfg hd.1))

/-- `gen_gals(nfw=True)`: centrals from `gen_cent`, satellites from `gen_sats_nfw`.  `draws T` lists, host by
host, the satellites drawn for tracer `T` (it is zipped with the host table). -/
def genGalCatNfw (cfg : Cfg) (alphaC : Tri Rat) (hosts : List Host) (draws : Tracer → List (List Draw)) :
    Tracer → Option TracerOut :=
  let c := genCent cfg alphaC hosts
  fun T => if cfg.en.get T then
             some { ncent := (c.gals T).length, gals := c.gals T ++ genSatsNfw cfg (hosts.zip (draws T)) }
           else none

/-! ### line protocol

```
cent <eL><eE><eQ> <rsd 0|1> <origin: - | x,y,z> <inv> <lbox> <aL>,<aE>,<aQ> <host>*
sats <eL><eE><eQ> <rsd> <origin> <inv> <lbox> <aL>,<aE>,<aQ> <part>*            (kc = keep_cent[i])
cat  <eL><eE><eQ> <rsd> <origin> <inv> <lbox> <acL>,<acE>,<acQ> <asL>,<asE>,<asQ> <H> <host>*H <part>*   (kc = pinds[i])
nfw  <eL><eE><eQ> <rsd> <origin> <inv> <lbox> <acL>,<acE>,<acQ> <H> <host>*H <draw>*   (nfw=True)
host = id,mass,px,py,pz,vx,vy,vz,dx,dy,dz,r,wL,wE,wQ,invn
draw = <L|E|Q>,<host row>,px,py,pz,vx,vy,vz      (satellites in output order; grouped per host by the model)
part = hid,hmass,px,py,pz,pvx,pvy,pvz,hvx,hvy,hvz,r,wL,wE0,wE1,wE2,wQ,invn,kc
```
answers: `ok keep=<codes> L=<gals> E=<gals> Q=<gals>` (cent, sats),
`ok keepc=<codes> keeps=<codes> L=<Ncent>:<gals>|x E=… Q=…` (cat), `err <fault>`, `bad-op`.
A galaxy is `id,mass,x,y,z,vx,vy,vz`; galaxies are separated by `;`, the empty list is `-`.
-/

def parseEnabled? (s : String) : Option Enabled :=
  match s.toList with
  | [a, b, c] =>
    match parseBool? (String.singleton a), parseBool? (String.singleton b), parseBool? (String.singleton c) with
    | some a, some b, some c => some ⟨a, b, c⟩
    | _, _, _ => none
  | _ => none

def parseV3? (s : String) : Option V3 :=
  match parseRatList? s with
  | some [x, y, z] => some ⟨x, y, z⟩
  | _ => none

def parseTri? (s : String) : Option (Tri Rat) :=
  match parseRatList? s with
  | some [x, y, z] => some ⟨x, y, z⟩
  | _ => none

def parseOrigin? (s : String) : Option (Option V3) :=
  if s = "-" then some none else (parseV3? s).map some

def parseHost? (s : String) : Option Host :=
  match s.splitOn "," with
  | [id, mass, px, py, pz, vx, vy, vz, dx, dy, dz, r, wL, wE, wQ, invn] => do
    let id ← id.toInt?
    let f ← [mass, px, py, pz, vx, vy, vz, dx, dy, dz, r, wL, wE, wQ, invn].mapM parseRat?
    match f with
    | [mass, px, py, pz, vx, vy, vz, dx, dy, dz, r, wL, wE, wQ, invn] =>
      some { id := id, mass := mass, pos := ⟨px, py, pz⟩, vel := ⟨vx, vy, vz⟩, vdev := ⟨dx, dy, dz⟩,
             r := r, w := ⟨wL, wE, wQ⟩, invn := invn }
    | _ => none
  | _ => none

def parsePart? (s : String) : Option Part :=
  match s.splitOn "," with
  | [hid, hmass, px, py, pz, pvx, pvy, pvz, hvx, hvy, hvz, r, wL, wE0, wE1, wE2, wQ, invn, kc] => do
    let hid ← hid.toInt?
    let kc ← kc.toInt?
    let f ← [hmass, px, py, pz, pvx, pvy, pvz, hvx, hvy, hvz, r, wL, wE0, wE1, wE2, wQ, invn].mapM parseRat?
    match f with
    | [hmass, px, py, pz, pvx, pvy, pvz, hvx, hvy, hvz, r, wL, wE0, wE1, wE2, wQ, invn] =>
      some { hid := hid, hmass := hmass, ppos := ⟨px, py, pz⟩, pvel := ⟨pvx, pvy, pvz⟩,
             hvel := ⟨hvx, hvy, hvz⟩, r := r, wL := wL, wE0 := wE0, wE1 := wE1, wE2 := wE2, wQ := wQ,
             invn := invn, kc := kc }
    | _ => none
  | _ => none

def parseCfg? (en rsd origin inv lbox : String) : Option Cfg := do
  let en ← parseEnabled? en
  let rsd ← parseBool? rsd
  let origin ← parseOrigin? origin
  let inv ← parseRat? inv
  let lbox ← parseRat? lbox
  pure { en := en, rsd := rsd, origin := origin, inv := inv, lbox := lbox }

def showGal (g : Gal) : String :=
  ",".intercalate [toString g.id, showRat g.mass, showRat g.pos.x, showRat g.pos.y, showRat g.pos.z,
    showRat g.vel.x, showRat g.vel.y, showRat g.vel.z]

def showGals (l : List Gal) : String :=
  if l.isEmpty then "-" else ";".intercalate (l.map showGal)

def showCentOut (o : CentOut) : String :=
  s!"ok keep={showList o.keep} L={showGals (o.gals .LRG)} E={showGals (o.gals .ELG)} Q={showGals (o.gals .QSO)}"

def showTracerOut : Option TracerOut → String
  | none => "x"
  | some t => s!"{t.ncent}:{showGals t.gals}"

def showCatOut (o : CatOut) : String :=
  s!"ok keepc={showList o.keepCent} keeps={showList o.keepSat} L={showTracerOut (o.cat .LRG)} E={showTracerOut (o.cat .ELG)} Q={showTracerOut (o.cat .QSO)}"

def parseDraw? (s : String) : Option (Tracer × Nat × Draw) :=
  match s.splitOn "," with
  | [t, i, px, py, pz, vx, vy, vz] => do
    let t ← if t = "L" then some Tracer.LRG else if t = "E" then some Tracer.ELG else if t = "Q" then some Tracer.QSO else none
    let i ← i.toNat?
    let f ← [px, py, pz, vx, vy, vz].mapM parseRat?
    match f with
    | [px, py, pz, vx, vy, vz] => some (t, i, { pos := ⟨px, py, pz⟩, vel := ⟨vx, vy, vz⟩ })
    | _ => none
  | _ => none

/-- the draws of tracer `T`, host by host (row index order), each host's draws in the order given -/
def groupDraws (n : Nat) (ds : List (Tracer × Nat × Draw)) (T : Tracer) : List (List Draw) :=
  (List.range n).map (fun i => (ds.filter (fun d => decide (d.1 = T) && d.2.1 == i)).map (·.2.2))

def showNfwOut (o : Tracer → Option TracerOut) : String :=
  s!"ok L={showTracerOut (o .LRG)} E={showTracerOut (o .ELG)} Q={showTracerOut (o .QSO)}"

def handle : List String → String
  | "nfw" :: en :: rsd :: origin :: inv :: lbox :: ac :: nh :: rows =>
    match parseCfg? en rsd origin inv lbox, parseTri? ac, nh.toNat? with
    | some cfg, some ac, some nh =>
      if rows.length < nh then "bad-op" else
      match (rows.take nh).mapM parseHost?, (rows.drop nh).mapM parseDraw? with
      | some hosts, some ds =>
        if ds.any (fun d => d.2.1 ≥ nh) then "err oob"
        else showNfwOut (genGalCatNfw cfg ac hosts (groupDraws nh ds))
      | _, _ => "bad-op"
    | _, _, _ => "bad-op"
  | "cent" :: en :: rsd :: origin :: inv :: lbox :: al :: rows =>
    match parseCfg? en rsd origin inv lbox, parseTri? al, rows.mapM parseHost? with
    | some cfg, some al, some hosts => showCentOut (genCent cfg al hosts)
    | _, _, _ => "bad-op"
  | "sats" :: en :: rsd :: origin :: inv :: lbox :: al :: rows =>
    match parseCfg? en rsd origin inv lbox, parseTri? al, rows.mapM parsePart? with
    | some cfg, some al, some parts => showCentOut (genSats cfg al (parts.map (fun p => (p, p.kc))))
    | _, _, _ => "bad-op"
  | "cat" :: en :: rsd :: origin :: inv :: lbox :: ac :: as :: nh :: rows =>
    match parseCfg? en rsd origin inv lbox, parseTri? ac, parseTri? as, nh.toNat? with
    | some cfg, some ac, some as, some nh =>
      if rows.length < nh then "bad-op" else
      match (rows.take nh).mapM parseHost?, (rows.drop nh).mapM parsePart? with
      | some hosts, some parts =>
        match genGalCat cfg ac as hosts parts with
        | .ok o => showCatOut o
        | .error f => s!"err {f}"
      | _, _ => "bad-op"
    | _, _, _, _ => "bad-op"
  | _ => "bad-op"

end AbacusVerif.Hod
