/-
  Model of the mode binning of `abacusnbody/analysis/power_spectrum.py`
  (`bin_kmu`, `bin_kppi`, `P_n`, `n_choose_k`, `factorial`), statement by statement, over exact
  numbers (`Nat`, `Int`, core `Rat`).  Core Lean only.

  ```python
  kzlen = n1d // 2 + 1
  kedges2 = ((kedges / dk) ** 2).astype(dtype)          # <- the model is GIVEN these (exact rationals)
  muedges2 = (muedges**2).astype(dtype)                 # <- likewise
  for i in numba.prange(n1d):
      tid = numba.get_thread_id()
      i2 = i**2 if i < (n1d + 1) // 2 else (i - n1d) ** 2
      for j in range(n1d):
          bk, bmu = 0, 0
          j2 = j**2 if j < (n1d + 1) // 2 else (j - n1d) ** 2
          for k in range(kzlen):
              kmag2 = dtype(i2 + j2 + k**2)
              mu2 = dtype(k**2) * kmag2**-1 if kmag2 > 0 else dtype(0.0)
              if kmag2 < kedges2[0]: continue
              if kmag2 >= kedges2[-1]: break
              while kmag2 > kedges2[bk + 1]: bk += 1
              while mu2 > muedges2[bmu + 1]: bmu += 1
              single = k == 0 or 2 * k == n1d
              counts[tid, bk, bmu] += 1 if single else 2
              weighted_counts[tid, bk, bmu] += weights[i, j, k] (x2 unless single)
              weighted_counts_k[tid, bk, bmu] += sqrt(kmag2) * dk (x2 unless single)
              for ip, pole in enumerate(poles):
                  if pole != 0:
                      weighted_counts_poles[tid, ip, bk] += weights[i,j,k] * (2*pole+1) * P_n(mu2, pole) (x2 unless single)
  (sum over tid; counts_poles = counts.sum(axis=1); pole 0 := weighted_counts.sum(axis=1);
   divide by the counts where they are non-zero)
  ```

  The loop is modelled as a *contribution list* (DESIGN §3: write lists): one `Contrib` per
  accumulated half-mesh cell, carrying the cell `(i, j, k)`, the bin `(b, m)` found by the carried
  two-pointer search and the weight 1 or 2.  Every accumulator of the real code is a sum over that
  list.  Every array access (`kedges2[0]`, `kedges2[-1]`, `kedges2[bk+1]`, `muedges2[bmu+1]`,
  `counts[tid, bk, bmu]`, `weights[i, j, k]`) goes through the Python index rule, so a search that
  runs past an edge array is a `Fault.oob`.  `prange` is an arbitrary assignment `row -> thread`.
-/
import AbacusVerif.Model.Num

namespace AbacusVerif.Binning
open AbacusVerif

/-! ### frequencies -/

/-- `i if i < (n1d + 1) // 2 else i - n1d` : the signed mode number of mesh index `i` as coded -/
def fold (n i : Nat) : Int :=
  if i < (n + 1) / 2 then (i : Int) else (i : Int) - (n : Int)

/-- `x**2` of a signed mode number -/
def sq (x : Int) : Nat := x.natAbs * x.natAbs

/-- `numpy.fft.fftfreq(n) * n`: `arange(0, (n-1)//2 + 1)` followed by `arange(-(n//2), 0)` -/
def fftfreq (n : Nat) : List Int :=
  (List.range ((n + 1) / 2)).map (fun (t : Nat) => (t : Int)) ++
    (List.range (n / 2)).map (fun (t : Nat) => (t : Int) - ((n / 2 : Nat) : Int))

/-- weight of the half-mesh plane `kz = k`: `1 if (k == 0 or 2*k == n1d) else 2` -/
def hw (n k : Nat) : Nat := if k = 0 ∨ 2 * k = n then 1 else 2

/-- `mu2 = k**2 / kmag2 if kmag2 > 0 else 0` for `kmag2 = p + k**2` (exact) -/
def mu2 (p k : Nat) : Rat :=
  if 0 < p + k * k then ((k * k : Nat) : Rat) / ((p + k * k : Nat) : Rat) else 0

/-! ### array access and the incremental bin search -/

/-- `e[i]` with the Python index rule -/
def getE (e : List Rat) (i : Int) : Except Fault Rat :=
  match pyIndex e.length i with
  | some k =>
    match e[k]? with
    | some v => .ok v
    | none => .error .oob
  | none => .error .oob

/-- `while x > e[b + 1]: b += 1` with `fuel` iterations allowed — the read `e[b + 1]` resolves exactly
when `b + 1 < len(e)` (`idx e.length (b+1) = ok (b+1)`, lemma `getE_succ`) and is a fault otherwise. -/
def searchAux (e : List Rat) (x : Rat) : (fuel b : Nat) → Except Fault Nat
  | 0, _ => .error .oob
  | fuel + 1, b =>
    if h : b + 1 < e.length then
      if e[b + 1] < x then searchAux e x fuel (b + 1) else .ok b
    else .error .oob

/-- the bin search from the carried `b`.  The loop can advance at most `len(e) - b` times before its
read leaves the array, so that much fuel never runs out early (lemma `search_unfold`: `search`
satisfies the plain `while` equation). -/
def search (e : List Rat) (x : Rat) (b : Nat) : Except Fault Nat :=
  searchAux e x (e.length - b) b

/-- mesh shape `weights.shape` -/
structure Shape where
  s0 : Nat
  s1 : Nat
  s2 : Nat
  deriving Repr, DecidableEq

/-- the mesh shape of a half-complex mesh of size `n` -/
def halfShape (n : Nat) : Shape := ⟨n, n, n / 2 + 1⟩

/-- one accumulated cell: `counts[tid, b, m] += w`, `weighted_counts[tid, b, m] += w * weights[i,j,k]`;
`q` is the integer `kmag2` (for `bin_kppi`: `k_perp**2`) -/
structure Contrib where
  i : Nat
  j : Nat
  k : Nat
  q : Nat
  b : Nat
  m : Nat
  w : Nat
  deriving Repr, DecidableEq

/-- the `weights[i, j, k]` and `counts[tid, b, m]` index checks of one accumulation -/
def touch (sh : Shape) (nb nm : Nat) (i j k b m : Nat) : Except Fault Unit := do
  let _ ← idx nb (b : Int)
  let _ ← idx nm (m : Int)
  let _ ← idx sh.s0 (i : Int)
  let _ ← idx sh.s1 (j : Int)
  let _ ← idx sh.s2 (k : Int)
  .ok ()

/-- `for k in range(kzlen)` of `bin_kmu` from `k` on (`fuel` iterations left) with the carried
`(bk, bmu)`; `p = i2 + j2`. -/
def kzLoop (n : Nat) (ek em : List Rat) (sh : Shape) (i j p : Nat) :
    (fuel k bk bmu : Nat) → Except Fault (List Contrib)
  | 0, _, _, _ => .ok []
  | fuel + 1, k, bk, bmu =>
    let q := p + k * k
    match getE ek 0 with
    | .error f => .error f
    | .ok e0 =>
      if ((q : Nat) : Rat) < e0 then kzLoop n ek em sh i j p fuel (k + 1) bk bmu   -- continue
      else
        match getE ek (-1) with
        | .error f => .error f
        | .ok el =>
          if el ≤ ((q : Nat) : Rat) then .ok []                                      -- break
          else
            match search ek ((q : Nat) : Rat) bk with
            | .error f => .error f
            | .ok bk' =>
              match search em (mu2 p k) bmu with
              | .error f => .error f
              | .ok bmu' =>
                match touch sh (ek.length - 1) (em.length - 1) i j k bk' bmu' with
                | .error f => .error f
                | .ok _ =>
                  match kzLoop n ek em sh i j p fuel (k + 1) bk' bmu' with
                  | .error f => .error f
                  | .ok rest => .ok (⟨i, j, k, q, bk', bmu', hw n k⟩ :: rest)

/-- body of `for j in range(n1d)` of `bin_kmu`: `bk, bmu = 0, 0` and the `kz` loop -/
def kmuCol (n : Nat) (ek em : List Rat) (sh : Shape) (i j : Nat) : Except Fault (List Contrib) :=
  kzLoop n ek em sh i j (sq (fold n i) + sq (fold n j)) (n / 2 + 1) 0 0 0

/-- body of `for i in prange(n1d)` of `bin_kmu` -/
def kmuRow (n : Nat) (ek em : List Rat) (sh : Shape) (i : Nat) : Except Fault (List Contrib) :=
  ((List.range n).mapM (kmuCol n ek em sh i)).map List.flatten

/-! ### `bin_kppi` -/

/-- `for k in range(kzlen)` of `bin_kppi` with the carried `bpi`; `b` is the `k_perp` bin -/
def piLoop (n : Nat) (ep : List Rat) (sh : Shape) (nb : Nat) (i j p b : Nat) :
    (fuel k bpi : Nat) → Except Fault (List Contrib)
  | 0, _, _ => .ok []
  | fuel + 1, k, bpi =>
    match getE ep (-1) with
    | .error f => .error f
    | .ok pl =>
      if pl ≤ ((k * k : Nat) : Rat) then .ok []                                       -- break
      else
        match search ep ((k * k : Nat) : Rat) bpi with
        | .error f => .error f
        | .ok bpi' =>
          match touch sh nb (ep.length - 1) i j k b bpi' with
          | .error f => .error f
          | .ok _ =>
            match piLoop n ep sh nb i j p b fuel (k + 1) bpi' with
            | .error f => .error f
            | .ok rest => .ok (⟨i, j, k, p, b, bpi', hw n k⟩ :: rest)

/-- body of `for j in range(n1d)` of `bin_kppi` -/
def kppiCol (n : Nat) (ek ep : List Rat) (sh : Shape) (i j : Nat) : Except Fault (List Contrib) :=
  let p := sq (fold n i) + sq (fold n j)
  match getE ek 0 with
  | .error f => .error f
  | .ok e0 =>
    if ((p : Nat) : Rat) < e0 then .ok []                                             -- continue
    else
      match getE ek (-1) with
      | .error f => .error f
      | .ok el =>
        if el ≤ ((p : Nat) : Rat) then .ok []                                         -- continue
        else
          match search ek ((p : Nat) : Rat) 0 with
          | .error f => .error f
          | .ok bk => piLoop n ep sh (ek.length - 1) i j p bk (n / 2 + 1) 0 0

def kppiRow (n : Nat) (ek ep : List Rat) (sh : Shape) (i : Nat) : Except Fault (List Contrib) :=
  ((List.range n).mapM (kppiCol n ek ep sh i)).map List.flatten

/-! ### accumulators: sums over the contribution list -/

def natSum (l : List Nat) : Nat := l.foldr (· + ·) 0
def ratSum (l : List Rat) : Rat := l.foldr (· + ·) 0

def inBin (b m : Nat) (c : Contrib) : Bool := c.b == b && c.m == m

/-- `counts[b, m]` -/
def cnt (cs : List Contrib) (b m : Nat) : Nat :=
  natSum ((cs.filter (inBin b m)).map (·.w))

/-- `weighted_counts[b, m]` before the division -/
def wsum (F : Nat → Nat → Nat → Rat) (cs : List Contrib) (b m : Nat) : Rat :=
  ratSum ((cs.filter (inBin b m)).map (fun c => (c.w : Rat) * F c.i c.j c.k))

/-- the exact content of `weighted_counts_k[b, m]`: the list of `(kmag2, weight)` whose
`weight * sqrt(kmag2) * dk` are summed -/
def kqs (cs : List Contrib) (b m : Nat) : List (Nat × Nat) :=
  (cs.filter (inBin b m)).map (fun c => (c.q, c.w))

/-! ### Legendre polynomials as coded -/

def factTable : List Nat :=
  [1, 1, 2, 6, 24, 120, 720, 5040, 40320, 362880, 3628800, 39916800, 479001600, 6227020800,
   87178291200, 1307674368000, 20922789888000, 355687428096000, 6402373705728000,
   121645100408832000, 2432902008176640000]

/-- `factorial(n)`: `ValueError` outside `0..20`, else the table entry -/
def factorial (n : Int) : Except Fault Nat :=
  if n > 20 ∨ n < 0 then .error .rejected
  else
    match pyIndex factTable.length n with
    | some k =>
      match factTable[k]? with
      | some v => .ok v
      | none => .error .oob
    | none => .error .oob

/-- `factorial(n) // (factorial(k) * factorial(n - k))` -/
def nChooseK (n k : Int) : Except Fault Nat := do
  let a ← factorial n
  let b ← factorial k
  let c ← factorial (n - k)
  .ok (a / (b * c))

/-- the integer `factor` of term `k` of `P_n`: `n_choose_k(n, k) * n_choose_k(2n - 2k, n)` -/
def pnFactor (n k : Nat) : Except Fault Nat := do
  let a ← nChooseK n k
  let b ← nChooseK (2 * (n : Int) - 2 * (k : Int)) n
  .ok (a * b)

/-- the loop of `P_n(x, n)` for `x = mu**2`; the exponent `0.5 * (n - 2k)` is the integer
`n/2 - k` for even `n`.  Odd `n` (a half-integer power of `mu**2`) is outside the model: `rejected`. -/
def PnLoop (x : Rat) (n : Nat) : List Nat → Rat → Except Fault Rat
  | [], s => .ok s
  | k :: ks, s =>
    match pnFactor n k with
    | .error f => .error f
    | .ok fac =>
      let term := (fac : Rat) * x ^ (n / 2 - k)
      PnLoop x n ks (if k % 2 = 0 then s + term else s - term)

def Pn (x : Rat) (n : Nat) : Except Fault Rat :=
  if n % 2 = 1 then .error .rejected
  else
    match PnLoop x n (List.range (n / 2 + 1)) 0 with
    | .error f => .error f
    | .ok s => .ok (s * (1 / 2 : Rat) ^ n)

/-- `P_n(x, n)` for **any** order, expressed with one extra parameter: a rational `mu` with
`mu * mu = x` (`x ** (0.5 * (n - 2k))` is then `mu ^ (n - 2k)`).  For even `n` it is `Pn (mu * mu) n`
(lemma `PnMu_even`); for odd `n` the code computes `mu · (polynomial in mu²)` with `mu = sqrt(mu²) ≥ 0`. -/
def PnMuLoop (mu : Rat) (n : Nat) : List Nat → Rat → Except Fault Rat
  | [], s => .ok s
  | k :: ks, s =>
    match pnFactor n k with
    | .error f => .error f
    | .ok fac =>
      let term := (fac : Rat) * mu ^ (n - 2 * k)
      PnMuLoop mu n ks (if k % 2 = 0 then s + term else s - term)

def PnMu (mu : Rat) (n : Nat) : Except Fault Rat :=
  match PnMuLoop mu n (List.range (n / 2 + 1)) 0 with
  | .error f => .error f
  | .ok s => .ok (s * (1 / 2 : Rat) ^ n)

/-- coefficient of `x^(n/2 - k)` in `P_n` as coded (before the common factor `0.5**n`) -/
def pnCoeff (n k : Nat) : Except Fault Int :=
  match pnFactor n k with
  | .error f => .error f
  | .ok fac => .ok (if k % 2 = 0 then (fac : Int) else -(fac : Int))

/-- `2^n * P_n` as coded, as the list of integer coefficients of `x^(n/2), x^(n/2-1), …, x^0` -/
def pnCoeffs (n : Nat) : Except Fault (List Int) :=
  (List.range (n / 2 + 1)).mapM (pnCoeff n)

/-- `weighted_counts_poles[ip, b]` (pole ≠ 0) before the division:
`Σ w * weights[i,j,k] * (2 pole + 1) * P_n(mu2, pole)` over the contributions of `k` bin `b` -/
def poleSum (F : Nat → Nat → Nat → Rat) (pole : Nat) (b : Nat) : List Contrib → Except Fault Rat
  | [] => .ok 0
  | c :: cs =>
    if c.b == b then
      match Pn (mu2 (c.q - c.k * c.k) c.k) pole with
      | .error f => .error f
      | .ok pv =>
        match poleSum F pole b cs with
        | .error f => .error f
        | .ok r => .ok ((c.w : Rat) * (F c.i c.j c.k * (((2 * pole + 1 : Nat) : Rat) * pv)) + r)
    else poleSum F pole b cs

/-! ### the whole routines, per thread -/

/-- the contributions accumulated by thread `t`: the rows `i` with `assign i = t`, in order -/
def threadContribs (row : Nat → Except Fault (List Contrib)) (n : Nat) (assign : Nat → Nat) (t : Nat) :
    Except Fault (List Contrib) :=
  (((List.range n).filter (fun i => assign i == t)).mapM row).map List.flatten

/-- all threads; `counts[tid, …]` needs `tid < nthread` -/
def allThreads (row : Nat → Except Fault (List Contrib)) (n T : Nat) (assign : Nat → Nat) :
    Except Fault (List (List Contrib)) :=
  if (List.range n).all (fun i => assign i < T) then
    (List.range T).mapM (threadContribs row n assign)
  else .error .oob

/-- `x / dtype(c)` where `c != 0`, else `x` unchanged -/
def divIf (x : Rat) (c : Nat) : Rat := if c = 0 then x else x / (c : Rat)

structure KmuOut where
  counts : List (List Nat)                    -- Nk × Nmu
  power : List (List Rat)                     -- Nk × Nmu, means
  kq : List (List (List (Nat × Nat)))         -- Nk × Nmu, content of the k average
  poles : List (List Rat)                     -- Np × Nk, means
  cpoles : List Nat                           -- Nk
  deriving Repr

/-- reduced `counts[b, m] = Σ_tid counts[tid, b, m]` -/
def cntT (ts : List (List Contrib)) (b m : Nat) : Nat := natSum (ts.map (fun cs => cnt cs b m))
def wsumT (F : Nat → Nat → Nat → Rat) (ts : List (List Contrib)) (b m : Nat) : Rat :=
  ratSum (ts.map (fun cs => wsum F cs b m))
def cpoleT (ts : List (List Contrib)) (nm b : Nat) : Nat :=
  natSum ((List.range nm).map (fun m => cntT ts b m))

def poleSumT (F : Nat → Nat → Nat → Rat) (pole b : Nat) (ts : List (List Contrib)) : Except Fault Rat :=
  (ts.mapM (poleSum F pole b)).map ratSum

/-- one row `weighted_counts_poles[ip, :]` after the division -/
def poleRow (F : Nat → Nat → Nat → Rat) (ts : List (List Contrib)) (nb nm pole : Nat) :
    Except Fault (List Rat) :=
  (List.range nb).mapM (fun b =>
    if pole = 0 then
      .ok (divIf (ratSum ((List.range nm).map (fun m => wsumT F ts b m))) (cpoleT ts nm b))
    else
      (poleSumT F pole b ts).map (fun s => divIf s (cpoleT ts nm b)))

/-- `bin_kmu(n1d, L, kedges, muedges, weights, poles, dtype, fourier, nthread)` given the squared
dimensionless edges the code computes; `np.zeros` with a negative dimension is a `ValueError`. -/
def binKmu (n : Nat) (sh : Shape) (T : Nat) (assign : Nat → Nat) (ek em : List Rat)
    (poles : List Nat) (F : Nat → Nat → Nat → Rat) : Except Fault KmuOut :=
  if ek.length = 0 ∨ em.length = 0 then .error .rejected
  else
    let nb := ek.length - 1
    let nm := em.length - 1
    match allThreads (kmuRow n ek em sh) n T assign with
    | .error f => .error f
    | .ok ts =>
      match poles.mapM (poleRow F ts nb nm) with
      | .error f => .error f
      | .ok prow =>
        .ok {
          counts := (List.range nb).map (fun b => (List.range nm).map (fun m => cntT ts b m))
          power := (List.range nb).map (fun b => (List.range nm).map (fun m =>
            divIf (wsumT F ts b m) (cntT ts b m)))
          kq := (List.range nb).map (fun b => (List.range nm).map (fun m =>
            (ts.map (fun cs => kqs cs b m)).flatten))
          poles := prow
          cpoles := (List.range nb).map (cpoleT ts nm) }

structure KppiOut where
  counts : List (List Nat)
  power : List (List Rat)
  deriving Repr

/-- `bin_kppi` given `kedges2`, `piedges2` -/
def binKppi (n : Nat) (sh : Shape) (T : Nat) (assign : Nat → Nat) (ek ep : List Rat)
    (F : Nat → Nat → Nat → Rat) : Except Fault KppiOut :=
  if ek.length = 0 ∨ ep.length = 0 then .error .rejected
  else
    let nb := ek.length - 1
    let np := ep.length - 1
    match allThreads (kppiRow n ek ep sh) n T assign with
    | .error f => .error f
    | .ok ts =>
      .ok {
        counts := (List.range nb).map (fun b => (List.range np).map (fun m => cntT ts b m))
        power := (List.range nb).map (fun b => (List.range np).map (fun m =>
          divIf (wsumT F ts b m) (cntT ts b m))) }

/-! ### specification vocabulary (the bin convention, independent of the search) -/

/-- number of leading elements `v` of `l` with `v < x`, i.e. the least index `b` with `x ≤ l[b]`
(`l.length` when there is none) -/
def lead (x : Rat) : List Rat → Nat
  | [] => 0
  | v :: t => if x ≤ v then 0 else lead x t + 1

/-- the bin of `x` for edges `e`: in range iff `e_0 ≤ x < e_last`; the least `b` with `x ≤ e_{b+1}` -/
def classify (e : List Rat) (x : Rat) : Option Nat :=
  match e.head?, e.getLast? with
  | some e0, some el => if e0 ≤ x ∧ x < el then some (lead x e.tail) else none
  | _, _ => none

/-- `(k, mu)` classification of the full-mesh mode `(a, b, c)` (signed mode numbers) -/
def clsKmu (ek em : List Rat) (a b c : Int) : Option (Nat × Nat) :=
  let p := sq a + sq b
  match classify ek ((p + sq c : Nat) : Rat) with
  | some bk => some (bk, lead (mu2 p c.natAbs) em.tail)
  | none => none

/-- `(k_perp, pi)` classification of the full-mesh mode `(a, b, c)`: `k_perp²` classified by the `k`
edges, `kz²` in range iff `kz² < pi_last`, bin the least `t` with `kz² ≤ pi_{t+1}` -/
def clsKppi (ek ep : List Rat) (a b c : Int) : Option (Nat × Nat) :=
  match classify ek ((sq a + sq b : Nat) : Rat) with
  | some bk =>
    match ep.getLast? with
    | some pl =>
      if ((sq c : Nat) : Rat) < pl then some (bk, lead ((sq c : Nat) : Rat) ep.tail) else none
    | none => none
  | none => none

/-- sum over the full mesh (all `n³` triples of `fftfreq` frequencies) -/
def fullSumNat (n : Nat) (g : Int → Int → Int → Nat) : Nat :=
  natSum ((fftfreq n).map fun a => natSum ((fftfreq n).map fun b => natSum ((fftfreq n).map fun c => g a b c)))

/-- number of full-mesh modes classified into `(b, m)` -/
def fullCount (n : Nat) (cls : Int → Int → Int → Option (Nat × Nat)) (b m : Nat) : Nat :=
  fullSumNat n (fun a bb c => if cls a bb c = some (b, m) then 1 else 0)

/-- the mesh shape of a real-space mesh of size `n` (`fourier=False`: `bin_kmu` / `bin_kppi` read the
planes `k < n // 2 + 1` of it and double the non-self-conjugate ones) -/
def fullShape (n : Nat) : Shape := ⟨n, n, n⟩

/-- the fold still coded in the sibling loops `expand_poles_to_3d`, `get_smoothing`, `get_delta_mu2`:
`i if i < n1d // 2 else i - n1d` -/
def foldOld (n i : Nat) : Int :=
  if i < n / 2 then (i : Int) else (i : Int) - (n : Int)

/-! ### `get_k_mu_edges` -/

/-- `np.linspace(a, b, num)` over exact rationals: `a + i * (b - a) / (num - 1)`, last point `b` -/
def linspace (a b : Rat) (num : Nat) : List Rat :=
  match num with
  | 0 => []
  | 1 => [a]
  | m + 2 => (List.range (m + 1)).map (fun (i : Nat) => a + (i : Rat) * ((b - a) / ((m + 1 : Nat) : Rat))) ++ [b]

/-- `get_k_mu_edges(Lbox, k_max, kbins, mubins, logk=False)[0]` for an integer `kbins` -/
def kEdgesLinear (kmax : Rat) (kbins : Nat) : List Rat := linspace 0 kmax (kbins + 1)

/-- `get_k_mu_edges(…)[1]` for an integer `mubins` -/
def muEdgesLinear (mubins : Nat) : List Rat := linspace 0 1 (mubins + 1)

/-- `((kedges / dk) ** 2)` -/
def sqEdges (dk : Rat) (e : List Rat) : List Rat := e.map (fun x => (x / dk) * (x / dk))

/-- the mesh index of the conjugate mode along one axis: `-i mod n` -/
def negIdx (n i : Nat) : Nat := (n - i) % n

/-- sum of a per-mode quantity over the full `n³` mesh, by mesh indices -/
def fullSumRat (n : Nat) (g : Nat → Nat → Nat → Rat) : Rat :=
  ratSum ((List.range n).map fun i => ratSum ((List.range n).map fun j => ratSum ((List.range n).map fun l => g i j l)))

/-! ### Legendre polynomials by Bonnet's recursion (specification side) -/

def padd : List Rat → List Rat → List Rat
  | [], q => q
  | p, [] => p
  | a :: p, b :: q => (a + b) :: padd p q

def pscale (c : Rat) (p : List Rat) : List Rat := p.map (c * ·)

/-- multiplication by `mu` -/
def pshift (p : List Rat) : List Rat := 0 :: p

/-- `P_l(mu)` as the list of coefficients of `mu^0, mu^1, …`:
`P_0 = 1`, `P_1 = mu`, `(l+2) P_{l+2} = (2l+3) mu P_{l+1} - (l+1) P_l` -/
def legendre : Nat → List Rat
  | 0 => [1]
  | 1 => [0, 1]
  | k + 2 => pscale (1 / ((k : Rat) + 2))
      (padd (pscale (2 * (k : Rat) + 3) (pshift (legendre (k + 1)))) (pscale (-((k : Rat) + 1)) (legendre k)))

/-- a polynomial in `x = mu²` (coefficients of `x^0, x^1, …`) as a polynomial in `mu` -/
def interleave0 : List Rat → List Rat
  | [] => []
  | [a] => [a]
  | a :: t => a :: 0 :: interleave0 t

/-- the coefficients at even positions: a polynomial in `mu` with only even powers, as a polynomial in `mu²` -/
def evens : List Rat → List Rat
  | [] => []
  | [a] => [a]
  | a :: _ :: t => a :: evens t

/-- evaluation of an ascending coefficient list -/
def peval (p : List Rat) (x : Rat) : Rat := p.foldr (fun c acc => c + x * acc) 0

/-! ### driver -/

def showRats (l : List Rat) : String := showList (l.map showRat)

def showKq (l : List (Nat × Nat)) : String :=
  if l.isEmpty then "-" else ";".intercalate (l.map (fun p => s!"{p.1}:{p.2}"))

def meshF (sh : Shape) (mesh : Array Rat) (i j k : Nat) : Rat :=
  mesh.getD ((i * sh.s1 + j) * sh.s2 + k) 0

/-- requests
* `fold n i`, `foldold n i`
* `linspace a b num`
* `pnmu n mu`
* `fftfreq n`
* `pn n x`
* `kmu n s0 s1 s2 T assign ek em poles mesh`
* `kppi n s0 s1 s2 T assign ek ep mesh`

`assign` is the list of thread ids of the rows `0..n-1`; `mesh` is the row-major list of the
`s0*s1*s2` cell values (the driver refuses a list of another length, so the `getD` default in
`meshF` is never used for an index that passed `touch`). -/
def handle (args : List String) : String :=
  match args with
  | ["fold", n, i] =>
    match parseNat? n, parseNat? i with
    | some n, some i => toString (fold n i)
    | _, _ => "bad-op"
  | ["fftfreq", n] =>
    match parseNat? n with
    | some n => showList (fftfreq n)
    | _ => "bad-op"
  | ["foldold", n, i] =>
    match parseNat? n, parseNat? i with
    | some n, some i => toString (foldOld n i)
    | _, _ => "bad-op"
  | ["linspace", a, b, num] =>
    match parseRat? a, parseRat? b, parseNat? num with
    | some a, some b, some num => showRats (linspace a b num)
    | _, _, _ => "bad-op"
  | ["pnmu", n, mu] =>
    match parseNat? n, parseRat? mu with
    | some n, some mu =>
      match PnMu mu n with
      | .ok v => s!"ok {showRat v}"
      | .error f => s!"err {f}"
    | _, _ => "bad-op"
  | ["pn", n, x] =>
    match parseNat? n, parseRat? x with
    | some n, some x =>
      match Pn x n with
      | .ok v => s!"ok {showRat v}"
      | .error f => s!"err {f}"
    | _, _ => "bad-op"
  | ["kmu", n, s0, s1, s2, T, assign, ek, em, poles, mesh] =>
    match parseNat? n, parseNat? s0, parseNat? s1, parseNat? s2, parseNat? T, parseNatList? assign,
          parseRatList? ek, parseRatList? em, parseNatList? poles, parseRatList? mesh with
    | some n, some s0, some s1, some s2, some T, some assign, some ek, some em, some poles, some mesh =>
      if assign.length ≠ n ∨ mesh.length ≠ s0 * s1 * s2 then "bad-op"
      else
        let sh : Shape := ⟨s0, s1, s2⟩
        let marr := mesh.toArray
        let asg := assign.toArray
        match binKmu n sh T (fun i => asg.getD i T) ek em poles (meshF sh marr) with
        | .error f => s!"err {f}"
        | .ok o =>
          let counts := showList o.counts.flatten
          let power := showRats o.power.flatten
          let kq := "|".intercalate (o.kq.flatten.map showKq)
          let poles := showRats o.poles.flatten
          s!"ok counts={counts} power={power} kq={kq} poles={poles} cpoles={showList o.cpoles}"
    | _, _, _, _, _, _, _, _, _, _ => "bad-op"
  | ["kppi", n, s0, s1, s2, T, assign, ek, ep, mesh] =>
    match parseNat? n, parseNat? s0, parseNat? s1, parseNat? s2, parseNat? T, parseNatList? assign,
          parseRatList? ek, parseRatList? ep, parseRatList? mesh with
    | some n, some s0, some s1, some s2, some T, some assign, some ek, some ep, some mesh =>
      if assign.length ≠ n ∨ mesh.length ≠ s0 * s1 * s2 then "bad-op"
      else
        let sh : Shape := ⟨s0, s1, s2⟩
        let marr := mesh.toArray
        let asg := assign.toArray
        match binKppi n sh T (fun i => asg.getD i T) ek ep (meshF sh marr) with
        | .error f => s!"err {f}"
        | .ok o => s!"ok counts={showList o.counts.flatten} power={showRats o.power.flatten}"
    | _, _, _, _, _, _, _, _, _ => "bad-op"
  | _ => "bad-op"

end AbacusVerif.Binning
