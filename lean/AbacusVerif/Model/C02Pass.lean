/-
  C02 — passthrough mode (`passthrough=True`) of `CompaSOHaloCatalog`: the raw columns of the halo_info /
  cleaned_halo_info files are loaded as they are.  Model (core Lean only) of the passthrough branch of
  `_setup_fields`, of `_read_halo_info` with the single `.*` loader of `_setup_halo_field_loaders`, and of
  what `_compute_new_subsample_indices` / `_update_subsample_index_cols` leave in `cat.halos` (no final
  rename in this mode), as the code stands at 7d0940d.

  The files are given by their column lists *in file order* with the dtype of each column
  (`rawFile`, `cleanFile`); the cleaned file is only opened when `cleaned` is set.
  Snapshot catalogs only (a light cone has no cleaning files and loads its subsamples elsewhere).
-/
import AbacusVerif.Model.C02Valid

namespace AbacusVerif.Fields
open AbacusVerif AbacusVerif.Units

/-- the names `_setup_fields` adds to a passthrough request so that the subsamples can be loaded -/
def ptIndexNames (loadAB : List String) : List String :=
  loadAB.flatMap (fun ab => ["npstart" ++ ab, "npout" ++ ab, "npstart" ++ ab ++ "_merge", "npout" ++ ab ++ "_merge"]) ++
    (if loadAB.isEmpty then [] else ["N_total"])

/-- the passthrough branch of `_setup_fields`: `(fields, cleaned_fields)`, both in file order.
`'DEFAULT_FIELDS'` is not special in this branch: it is the one-element list of that name. -/
def setupFieldsPT (rawFile cleanFile : List (String × Dt)) (req : Req) (cleaned : Bool) (loadAB : List String) :
    List String × List String :=
  let rawFields := names rawFile
  let rawCleaned := if cleaned then names cleanFile else []      -- `cleaned_halo_info_af is None`
  match req with
  | .all => (rawFields, rawCleaned)
  | .default =>
    let requested := ["DEFAULT_FIELDS"] ++ ptIndexNames loadAB
    (rawFields.filter (fun r => r ∈ requested), rawCleaned.filter (fun r => r ∈ requested))
  | .list l =>
    let requested := l ++ ptIndexNames loadAB
    (rawFields.filter (fun r => r ∈ requested), rawCleaned.filter (fun r => r ∈ requested))

/-- the allocation from the file dtypes: `cols[field] = np.empty((N,) + col.shape[1:], dtype=col.dtype)` -/
def allocatePT (rawFile cleanFile : List (String × Dt)) (fields cleanedFields : List String) :
    Except Fault (List (String × Dt)) :=
  match fields.foldlM (fun cols c => allocStep (dtLookup rawFile c) cols c) [] with
  | .error e => .error e
  | .ok cols => cleanedFields.foldlM (fun cols c => allocStep (dtLookup cleanFile c) cols c) cols

/-- `halos[field][:] = raw[field]` for every field of `fields_with_deps` (the `.*` loader reads `raw[m[0]]`) -/
def loadAllPT {V} (O : ValOps V) : List String → Halos V → Except Fault (Halos V)
  | [], h => .ok h
  | f :: fs, h =>
    match h.write O f (O.app ("raw:" ++ f) []) with
    | .error e => .error e
    | .ok h' => loadAllPT O fs h'

/-- `_read_halo_info(passthrough=True)` for one file pair -/
def readHaloInfoPT {V} (S : Spec) (O : ValOps V) (rawFile cleanFile : List (String × Dt))
    (req : Req) (cleaned : Bool) (loadAB : List String) : Except Fault (Loaded V) :=
  let fc := setupFieldsPT rawFile cleanFile req cleaned loadAB
  match allocatePT rawFile cleanFile fc.1 fc.2 with
  | .error e => .error e
  | .ok cols =>
    let allFields := cols.map (·.1)
    -- every field is its own raw dependency; `fields_with_deps` is the reversed list; no temporaries
    let d : Deps := { raw := dedup allFields, fieldsWithDeps := dedup allFields.reverse, extra := [] }
    -- raw IO: `src = caf if field in clean_dt_progen.names else af`
    if !(d.raw.all (fun r =>
        if r ∈ names S.clean_dt_progen then cleaned && r ∈ names cleanFile else r ∈ names rawFile))
    then .error .rejected
    else if d.raw.isEmpty then .error .rejected          -- `del af, caf, src`: UnboundLocalError
    else
      match loadAllPT O d.fieldsWithDeps { cols := cols, val := fun _ => O.uninit } with
      | .error e => .error e
      | .ok h => .ok { fields := fc.1, cleanedFields := fc.2, deps := d, table := h }

/-- the constructor in passthrough mode, as far as `self.halos` is concerned (no `N_total -> N` rename) -/
def constructPT {V} (S : Spec) (O : ValOps V) (rawFile cleanFile : List (String × Dt))
    (req : Req) (cleaned : Bool) (loadAB : List String) : Except Fault (Loaded V) :=
  match readHaloInfoPT S O rawFile cleanFile req cleaned loadAB with
  | .error e => .error e
  | .ok r =>
    match reindexAll O cleaned loadAB false r.table with
    | .error e => .error e
    | .ok t => .ok { r with table := t }

/-! ### driver -/

/-- `f32x3`, `u64`, … -/
def parseDt? (s : String) : Option Dt :=
  match s.toList with
  | k :: rest =>
    let kind? : Option BaseKind := if k = 'u' then some .u else if k = 'i' then some .i else if k = 'f' then some .f else none
    match kind?, (String.ofList rest).splitOn "x" with
    | some kind, b :: shape =>
      match b.toNat?, shape.mapM (fun t => t.toNat?) with
      | some bits, some sh => some ⟨kind, bits, sh⟩
      | _, _ => none
    | _, _ => none
  | [] => none

/-- `name:dtype,name:dtype` in file order -/
def parseFile? (s : String) : Option (List (String × Dt)) :=
  if s = "-" ∨ s = "" then some []
  else (s.splitOn ",").mapM (fun item =>
    match item.splitOn ":" with
    | [n, d] => (parseDt? d).map (fun dt => (n, dt))
    | _ => none)

/-- request `loadpt <req> <cleaned> <AB> <rawfile> <cleanfile>` → same answer format as `load` -/
def handlePT (args : List String) : String :=
  match args with
  | ["loadpt", req, cleaned, ab, rawf, cleanf] =>
    match parseReq req, parseBool? cleaned, parseFile? rawf, parseFile? cleanf with
    | some req, some cleaned, some rawf, some cleanf =>
      match constructPT Spec.generated strOps rawf cleanf req cleaned (parseNames ab) with
      | .error e => s!"err {e}"
      | .ok r =>
        let cols := r.table.cols.map (fun p => s!"{p.1}:{p.2}:{r.table.val p.1}")
        s!"ok fields={showList r.fields} cleaned={showList r.cleanedFields} fwd={showList r.deps.fieldsWithDeps} extra={showList r.deps.extra} raw={showList r.deps.raw} cols={if cols.isEmpty then "-" else ";".intercalate cols}"
    | _, _, _, _ => "bad-op"
  | _ => handleValid args

end AbacusVerif.Fields
