/-
  Model of `abacusnbody.data.pipe_asdf.unpack_to_pipe` (abacusnbody/data/pipe_asdf.py).

  ```python
  if pipe.isatty(): raise RuntimeError(...)
  for fn in asdf_fns:
      if not isfile(fn): raise FileNotFoundError(fn)
  afs = [asdf.open(fn, ...) for fn in asdf_fns]
  for af in afs:
      for field in fields:
          if field not in af.tree[data_key]: raise ValueError(...)
  for field in fields:
      N = np.int64(0)
      for af in afs:
          N += np.prod(af[data_key][field].shape)
          field_width = np.int32(af[data_key][field].dtype.itemsize)
      pipe.write(N)                 # 8 bytes, native (little) endian
      pipe.write(field_width)       # 4 bytes
      for af in afs:
          pipe.write(af[data_key][field][:])     # the array's bytes, C order
  pipe.close()
  ```

  A file is `none` (no such file) or `some tree` (its `data` dictionary as an association list
  field ↦ column); a column is its shape, item size and raw bytes.  The result records the bytes
  written so far **together with** the error, so "an error is reported before any byte is written"
  is a statement about the model and not a by-product of a result type.

  Inputs outside the property's quantifier are modelled as the code behaves, too:
  * no input file: `N = 0` is written, then `field_width` is unbound (`UnboundLocalError`);
  * a 0-d column: `np.prod(())` is the float `1.0`, so `N` becomes a float64 — the real code writes the
    count as a float64, the width, the arrays of the files before the first 0-d one, and then fails in
    `[:]` (`IndexError`).
  The command line (`main`) is modelled by `parseArgv` / `cli`.
-/
import AbacusVerif.Model.Common
import AbacusVerif.Model.HexBytes

namespace AbacusVerif.Pipe
open AbacusVerif

structure Column where
  shape : List Nat
  itemsize : Nat
  raw : Bytes
  deriving Repr, DecidableEq

abbrev Tree := List (String × Column)

inductive Err where
  | tty                                        -- RuntimeError: the pipe is a terminal
  | missingFile (i : Nat)                      -- FileNotFoundError(asdf_fns[i])
  | missingField (file : Nat) (field : String) -- ValueError: field not in the i-th file
  | unboundWidth                               -- no input file: `field_width` is never assigned
  | keyError                                   -- af[data_key][field] on an absent field
  | indexError                                 -- `[:]` on a 0-d column
  deriving Repr, DecidableEq

def Err.toString : Err → String
  | .tty => "tty"
  | .missingFile i => s!"missing-file:{i}"
  | .missingField i f => s!"missing-field:{i}:{f}"
  | .unboundWidth => "unbound-width"
  | .keyError => "key-error"
  | .indexError => "index-error"

/-- what the caller of `unpack_to_pipe` can observe on the pipe, and the exception if any -/
structure Result where
  written : Bytes
  err : Option Err
  closed : Bool
  deriving Repr, DecidableEq

/-- `np.prod(shape)` for a non-empty shape -/
def Column.count (c : Column) : Nat := c.shape.foldl (· * ·) 1

/-- index of the first path that is not a file -/
def firstMissingFile : List (Option Tree) → Nat → Option Nat
  | [], _ => none
  | none :: _, i => some i
  | some _ :: rest, i => firstMissingFile rest (i + 1)

/-- the opened files (only called when all exist) -/
def openAll : List (Option Tree) → List Tree
  | [] => []
  | some t :: rest => t :: openAll rest
  | none :: rest => openAll rest

/-- first requested field that the tree does not have -/
def firstMissingField (t : Tree) : List String → Option String
  | [] => none
  | f :: fs => if (t.lookup f).isNone then some f else firstMissingField t fs

/-- `for af in afs: for field in fields: if field not in …: raise` -/
def validateFields : List Tree → Nat → List String → Option Err
  | [], _, _ => none
  | t :: rest, i, fields =>
    match firstMissingField t fields with
    | some f => some (.missingField i f)
    | none => validateFields rest (i + 1) fields

/-- `[af[data_key][field] for af in afs]` -/
def columnsOf : List Tree → String → Option (List Column)
  | [], _ => some []
  | t :: rest, f =>
    match t.lookup f, columnsOf rest f with
    | some c, some cs => some (c :: cs)
    | _, _ => none

def le64 (n : Nat) : Bytes := leBytes 8 n
def le32 (n : Nat) : Bytes := leBytes 4 n

/-- the 8 bytes of the float64 equal to the integer `v` (exact for `v < 2^53`): what
`pipe.write(np.float64(v))` writes -/
def f64le (v : Nat) : Bytes :=
  if v = 0 then leBytes 8 0
  else
    let e := Nat.log2 v
    leBytes 8 ((1023 + e) * 2 ^ 52 + (v * 2 ^ (52 - e) - 2 ^ 52))

/-- the bytes written for one field, or (bytes written before the failure, error) -/
def fieldRecord (afs : List Tree) (field : String) : Except (Bytes × Err) Bytes :=
  match columnsOf afs field with
  | none => .error ([], .keyError)
  | some cols =>
    let n := (cols.map Column.count).sum
    if cols.any (fun c => c.shape.isEmpty) then
      -- `N` is a float64 from the first 0-d column on; `[:]` fails on that column
      match cols.getLast? with
      | none => .error (f64le n, .unboundWidth)
      | some last =>
        .error (f64le n ++ (le32 last.itemsize ++
          ((cols.takeWhile (fun c => !c.shape.isEmpty)).map (·.raw)).flatten), .indexError)
    else
      match cols.getLast? with
      | none => .error (le64 n, .unboundWidth)
      | some last => .ok (le64 n ++ (le32 last.itemsize ++ (cols.map (·.raw)).flatten))

/-- the IO loop over the requested fields, then `pipe.close()` -/
def emitFields (afs : List Tree) : List String → Result
  | [] => { written := [], err := none, closed := true }
  | f :: fs =>
    match fieldRecord afs f with
    | .error (pre, e) => { written := pre, err := some e, closed := false }
    | .ok rec =>
      let r := emitFields afs fs
      { written := rec ++ r.written, err := r.err, closed := r.closed }

/-- `unpack_to_pipe(asdf_fns, fields, pipe=…)` -/
def emit (isatty : Bool) (files : List (Option Tree)) (fields : List String) : Result :=
  if isatty then { written := [], err := some .tty, closed := false }
  else
    match firstMissingFile files 0 with
    | some i => { written := [], err := some (.missingFile i), closed := false }
    | none =>
      let afs := openAll files
      match validateFields afs 0 fields with
      | some e => { written := [], err := some e, closed := false }
      | none => emitFields afs fields

/-! ### the command line (`main`)

```python
parser.add_argument('asdf-file', nargs='+')
parser.add_argument('-f', '--field', action='append')
parser.add_argument('--nthread', type=int, default=4)
args = vars(parser.parse_args()); args['asdf_fns'] = args.pop('asdf-file'); args['fields'] = args.pop('field')
unpack_to_pipe(**args)        # pipe = sys.stdout.buffer, verbose = True (stderr only)
```
argparse, as far as the harness exercises it: `-f V`, `-fV`, `--field V`, `--field=V` and unique prefixes
of the long options, `--nthread N` / `--nthread=N` (`N` must be an integer), `--` (everything after it is
positional); option values must not look like options; the positionals must form one contiguous group
and there must be at least one; anything else is a usage error (exit status 2, nothing on stdout).
`nthread` and `verbose` do not influence the bytes; without any `-f` the field list is `None` and the
call dies with a `TypeError` before writing. -/

inductive Tok where
  | dashdash
  | optF (attached : Option String)
  | optN (attached : Option String)
  | help
  | unknown
  | plain (s : String)
  deriving Repr, DecidableEq

/-- `name` is a non-empty prefix of `full` (argparse accepts unique abbreviations of long options) -/
def isAbbrev (name : List Char) (full : String) : Bool := !name.isEmpty && name.isPrefixOf full.toList

/-- decimal digits only (what the harness generates; Python's `int()` accepts more) -/
def natOfDigits? (cs : List Char) : Option Nat :=
  if cs.isEmpty then none
  else cs.foldlM (fun acc c => if '0' ≤ c ∧ c ≤ '9' then some (10 * acc + (c.toNat - 48)) else none) 0

/-- (string helpers are written over `List Char` so that the kernel can evaluate them in the examples) -/
def classify (s : String) : Tok :=
  let cs := s.toList
  if s = "--" then .dashdash
  else if s = "-f" then .optF none
  else if s = "-h" then .help
  else if ['-', '-'].isPrefixOf cs then
    let body := cs.drop 2
    let name := (body.span (· ≠ '=')).1
    let val : Option String :=
      match (body.span (· ≠ '=')).2 with
      | [] => none
      | _ :: v => some (String.ofList v)
    if isAbbrev name "field" then .optF val
    else if isAbbrev name "nthread" then .optN val
    else if isAbbrev name "help" && val.isNone then .help
    else .unknown
  else if ['-', 'f'].isPrefixOf cs then .optF (some (String.ofList (cs.drop 2)))
  else if ['-'].isPrefixOf cs then .unknown
  else .plain s

structure CliArgs where
  fields : Option (List String)
  files : List String
  nthread : Nat
  deriving Repr, DecidableEq

inductive Parsed where
  | usage                    -- argparse error: exit status 2
  | help                     -- help text on stdout, exit status 0 (text not modelled)
  | run (a : CliArgs)
  deriving Repr, DecidableEq

/-- parser state: fields so far, nthread, positionals so far, "an option was seen after the
positional group started", "after `--`" -/
structure PState where
  fields : Option (List String) := none
  nthread : Nat := 4
  files : List String := []
  closed : Bool := false
  raw : Bool := false

def PState.addField (st : PState) (v : String) : PState :=
  { st with fields := some (st.fields.getD [] ++ [v]), closed := st.closed || !st.files.isEmpty }

def PState.addFile (st : PState) (v : String) : Option PState :=
  if st.closed then none else some { st with files := st.files ++ [v] }

/-- does the token qualify as the value of an option? (it must not look like an option) -/
def isValue (s : String) : Bool := !((['-'] : List Char).isPrefixOf s.toList) || s = "-"

def parseLoop : Nat → PState → List String → Parsed
  | _, st, [] => if st.files.isEmpty then .usage else .run ⟨st.fields, st.files, st.nthread⟩
  | 0, _, _ :: _ => .usage
  | fuel + 1, st, t :: rest =>
    if st.raw then
      match st.addFile t with
      | none => .usage
      | some st' => parseLoop fuel st' rest
    else
      match classify t with
      | .dashdash => parseLoop fuel { st with raw := true } rest
      | .help => .help
      | .unknown => .usage
      | .plain s =>
        match st.addFile s with
        | none => .usage
        | some st' => parseLoop fuel st' rest
      | .optF (some v) => parseLoop fuel (st.addField v) rest
      | .optF none =>
        match rest with
        | v :: rest' => if isValue v then parseLoop fuel (st.addField v) rest' else .usage
        | [] => .usage
      | .optN (some v) =>
        match natOfDigits? v.toList with
        | some n => parseLoop fuel { st with nthread := n, closed := st.closed || !st.files.isEmpty } rest
        | none => .usage
      | .optN none =>
        match rest with
        | v :: rest' =>
          match natOfDigits? v.toList with
          | some n => parseLoop fuel { st with nthread := n, closed := st.closed || !st.files.isEmpty } rest'
          | none => .usage
        | [] => .usage

def parseArgv (argv : List String) : Parsed := parseLoop argv.length {} argv

/-- `pipe_asdf argv…` on a file system `fs` (name ↦ data dictionary): (bytes on stdout, exit status) -/
def cli (fs : List (String × Tree)) (tty : Bool) (argv : List String) : Bytes × Nat :=
  match parseArgv argv with
  | .usage => ([], 2)
  | .help => ([], 0)
  | .run a =>
    match a.fields with
    | none => ([], 1)          -- RuntimeError / FileNotFoundError / TypeError('NoneType' is not iterable)
    | some fields =>
      let r := emit tty (a.files.map (fun fn => fs.lookup fn)) fields
      (r.written, if r.err.isNone then 0 else 1)

/-! ### the client -/

/-- read `nfields` records "int64 count, int32 width, count·width bytes" and expect end of file -/
def parse : Nat → Bytes → Option (List (Nat × Nat × Bytes))
  | 0, [] => some []
  | 0, _ :: _ => none
  | n + 1, s =>
    if s.length < 12 then none
    else
      let count := leVal (s.take 8)
      let width := leVal ((s.drop 8).take 4)
      let body := s.drop 12
      if body.length < count * width then none
      else
        match parse n (body.drop (count * width)) with
        | none => none
        | some rest => some ((count, width, body.take (count * width)) :: rest)

/-! ### specification vocabulary -/

/-- what the client must see for one field: element count over all files, item width, and the
concatenation of the per-file raw bytes in file order -/
def expected (afs : List Tree) (w : Nat) (field : String) : Option (Nat × Nat × Bytes) :=
  (columnsOf afs field).map (fun cols => ((cols.map Column.count).sum, w, (cols.map (·.raw)).flatten))

/-! ### driver -/

/-- column syntax `name:shape:itemsize:hex` with shape `d1xd2…` (`s` for a 0-d shape); file syntax
`!` (missing) or `+` followed by `;`-separated columns (`+` alone: empty data dictionary) -/
def parseColumn? (s : String) : Option (String × Column) :=
  match s.splitOn ":" with
  | [name, shape, isz, hex] =>
    let dims := if shape = "s" then some [] else (shape.splitOn "x").mapM String.toNat?
    match dims, String.toNat? isz, hexToBytes? hex with
    | some d, some w, some raw => some (name, { shape := d, itemsize := w, raw := raw })
    | _, _, _ => none
  | _ => none

def parseFile? (s : String) : Option (Option Tree) :=
  if s = "!" then some none
  else if s = "+" then some (some [])
  else if s.startsWith "+" then ((s.drop 1).toString.splitOn ";").mapM parseColumn? |>.map some
  else none

def showResult (r : Result) : String :=
  s!"written={bytesToHex r.written} err={match r.err with | none => "none" | some e => e.toString} closed={if r.closed then 1 else 0}"

def showParsed : Option (List (Nat × Nat × Bytes)) → String
  | none => "none"
  | some l => if l.isEmpty then "." else ",".intercalate (l.map (fun (c, w, p) => s!"{c}:{w}:{bytesToHex p}"))

def parseFsEntry? (s : String) : Option (String × Tree) :=
  match s.splitOn "=" with
  | [name, f] =>
    match parseFile? f with
    | some (some t) => some (name, t)
    | _ => none
  | _ => none

/-- requests
* `emit <tty 0|1> <nfiles> <file>… <field>…` → `written=<hex> err=<…> closed=<0|1> parsed=<…>`
  (`parsed` = the client run on what was written, for the number of requested fields)
* `cli <tty 0|1> <name>=<file>… @@ <argv>…` → `stdout=<hex> exit=<n>` -/
def handle (args : List String) : String :=
  match args with
  | "cli" :: tty :: rest =>
    match parseBool? tty, (rest.takeWhile (· ≠ "@@")).mapM parseFsEntry? with
    | some tty, some fs =>
      let argv := (rest.dropWhile (· ≠ "@@")).drop 1
      let (out, code) := cli fs tty argv
      s!"stdout={bytesToHex out} exit={code}"
    | _, _ => "bad-op"
  | "emit" :: tty :: nf :: rest =>
    match parseBool? tty, parseNat? nf with
    | some tty, some nf =>
      if rest.length < nf then "bad-op"
      else
        match (rest.take nf).mapM parseFile? with
        | none => "bad-op"
        | some files =>
          let fields := rest.drop nf
          let r := emit tty files fields
          s!"{showResult r} parsed={showParsed (parse fields.length r.written)}"
    | _, _ => "bad-op"
  | _ => "bad-op"

end AbacusVerif.Pipe
