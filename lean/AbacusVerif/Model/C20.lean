/-
  Model of `abacusnbody.data.pipe_asdf.unpack_to_pipe` (abacusnbody/data/pipe_asdf.py).

  ```python
  if pipe.isatty(): raise RuntimeError(...)
  for fn in asdf_fns:
      if not isfile(fn): raise FileNotFoundError(fn)
  afs = [asdf.open(fn, ...) for fn in asdf_fns]
  for af in afs:
      for field in fields:
          if field not in af.tree[data_key]: raise ValueError(...)
  for field in fields:
      N = np.int64(0)
      for af in afs:
          N += np.prod(af[data_key][field].shape)
          field_width = np.int32(af[data_key][field].dtype.itemsize)
      pipe.write(N)                 # 8 bytes, native (little) endian
      pipe.write(field_width)       # 4 bytes
      for af in afs:
          pipe.write(af[data_key][field][:])     # the array's bytes, C order
  pipe.close()
  ```

  A file is `none` (no such file) or `some tree` (its `data` dictionary as an association list
  field ↦ column); a column is its shape, item size and raw bytes.  The result records the bytes
  written so far **together with** the error, so "an error is reported before any byte is written"
  is a statement about the model and not a by-product of a result type.

  Outside the model (reported as `Err.zeroDim`, never produced by the harness generators): 0-d
  columns, for which `np.prod(())` is the float `1.0` — the real code then writes a float64 count and
  fails in `[:]`.
-/
import AbacusVerif.Model.Common
import AbacusVerif.Model.HexBytes

namespace AbacusVerif.Pipe
open AbacusVerif

structure Column where
  shape : List Nat
  itemsize : Nat
  raw : Bytes
  deriving Repr, DecidableEq

abbrev Tree := List (String × Column)

inductive Err where
  | tty                                        -- RuntimeError: the pipe is a terminal
  | missingFile (i : Nat)                      -- FileNotFoundError(asdf_fns[i])
  | missingField (file : Nat) (field : String) -- ValueError: field not in the i-th file
  | unboundWidth                               -- no input file: `field_width` is never assigned
  | keyError                                   -- af[data_key][field] on an absent field
  | zeroDim                                    -- 0-d column: outside the model
  deriving Repr, DecidableEq

def Err.toString : Err → String
  | .tty => "tty"
  | .missingFile i => s!"missing-file:{i}"
  | .missingField i f => s!"missing-field:{i}:{f}"
  | .unboundWidth => "unbound-width"
  | .keyError => "key-error"
  | .zeroDim => "zero-dim"

/-- what the caller of `unpack_to_pipe` can observe on the pipe, and the exception if any -/
structure Result where
  written : Bytes
  err : Option Err
  closed : Bool
  deriving Repr, DecidableEq

/-- `np.prod(shape)` for a non-empty shape -/
def Column.count (c : Column) : Nat := c.shape.foldl (· * ·) 1

/-- index of the first path that is not a file -/
def firstMissingFile : List (Option Tree) → Nat → Option Nat
  | [], _ => none
  | none :: _, i => some i
  | some _ :: rest, i => firstMissingFile rest (i + 1)

/-- the opened files (only called when all exist) -/
def openAll : List (Option Tree) → List Tree
  | [] => []
  | some t :: rest => t :: openAll rest
  | none :: rest => openAll rest

/-- first requested field that the tree does not have -/
def firstMissingField (t : Tree) : List String → Option String
  | [] => none
  | f :: fs => if (t.lookup f).isNone then some f else firstMissingField t fs

/-- `for af in afs: for field in fields: if field not in …: raise` -/
def validateFields : List Tree → Nat → List String → Option Err
  | [], _, _ => none
  | t :: rest, i, fields =>
    match firstMissingField t fields with
    | some f => some (.missingField i f)
    | none => validateFields rest (i + 1) fields

/-- `[af[data_key][field] for af in afs]` -/
def columnsOf : List Tree → String → Option (List Column)
  | [], _ => some []
  | t :: rest, f =>
    match t.lookup f, columnsOf rest f with
    | some c, some cs => some (c :: cs)
    | _, _ => none

def le64 (n : Nat) : Bytes := leBytes 8 n
def le32 (n : Nat) : Bytes := leBytes 4 n

/-- the bytes written for one field, or (bytes written before the failure, error) -/
def fieldRecord (afs : List Tree) (field : String) : Except (Bytes × Err) Bytes :=
  match columnsOf afs field with
  | none => .error ([], .keyError)
  | some cols =>
    if cols.any (fun c => c.shape.isEmpty) then .error ([], .zeroDim)
    else
      let n := (cols.map Column.count).sum
      match cols.getLast? with
      | none => .error (le64 n, .unboundWidth)
      | some last => .ok (le64 n ++ (le32 last.itemsize ++ (cols.map (·.raw)).flatten))

/-- the IO loop over the requested fields, then `pipe.close()` -/
def emitFields (afs : List Tree) : List String → Result
  | [] => { written := [], err := none, closed := true }
  | f :: fs =>
    match fieldRecord afs f with
    | .error (pre, e) => { written := pre, err := some e, closed := false }
    | .ok rec =>
      let r := emitFields afs fs
      { written := rec ++ r.written, err := r.err, closed := r.closed }

/-- `unpack_to_pipe(asdf_fns, fields, pipe=…)` -/
def emit (isatty : Bool) (files : List (Option Tree)) (fields : List String) : Result :=
  if isatty then { written := [], err := some .tty, closed := false }
  else
    match firstMissingFile files 0 with
    | some i => { written := [], err := some (.missingFile i), closed := false }
    | none =>
      let afs := openAll files
      match validateFields afs 0 fields with
      | some e => { written := [], err := some e, closed := false }
      | none => emitFields afs fields

/-! ### the client -/

/-- read `nfields` records "int64 count, int32 width, count·width bytes" and expect end of file -/
def parse : Nat → Bytes → Option (List (Nat × Nat × Bytes))
  | 0, [] => some []
  | 0, _ :: _ => none
  | n + 1, s =>
    if s.length < 12 then none
    else
      let count := leVal (s.take 8)
      let width := leVal ((s.drop 8).take 4)
      let body := s.drop 12
      if body.length < count * width then none
      else
        match parse n (body.drop (count * width)) with
        | none => none
        | some rest => some ((count, width, body.take (count * width)) :: rest)

/-! ### specification vocabulary -/

/-- what the client must see for one field: element count over all files, item width, and the
concatenation of the per-file raw bytes in file order -/
def expected (afs : List Tree) (w : Nat) (field : String) : Option (Nat × Nat × Bytes) :=
  (columnsOf afs field).map (fun cols => ((cols.map Column.count).sum, w, (cols.map (·.raw)).flatten))

/-! ### driver -/

/-- column syntax `name:shape:itemsize:hex` with shape `d1xd2…` (`s` for a 0-d shape); file syntax
`!` (missing) or `+` followed by `;`-separated columns (`+` alone: empty data dictionary) -/
def parseColumn? (s : String) : Option (String × Column) :=
  match s.splitOn ":" with
  | [name, shape, isz, hex] =>
    let dims := if shape = "s" then some [] else (shape.splitOn "x").mapM String.toNat?
    match dims, String.toNat? isz, hexToBytes? hex with
    | some d, some w, some raw => some (name, { shape := d, itemsize := w, raw := raw })
    | _, _, _ => none
  | _ => none

def parseFile? (s : String) : Option (Option Tree) :=
  if s = "!" then some none
  else if s = "+" then some (some [])
  else if s.startsWith "+" then ((s.drop 1).toString.splitOn ";").mapM parseColumn? |>.map some
  else none

def showResult (r : Result) : String :=
  s!"written={bytesToHex r.written} err={match r.err with | none => "none" | some e => e.toString} closed={if r.closed then 1 else 0}"

def showParsed : Option (List (Nat × Nat × Bytes)) → String
  | none => "none"
  | some l => if l.isEmpty then "." else ",".intercalate (l.map (fun (c, w, p) => s!"{c}:{w}:{bytesToHex p}"))

/-- requests
* `emit <tty 0|1> <nfiles> <file>… <field>…` → `written=<hex> err=<…> closed=<0|1> parsed=<…>`
  (`parsed` = the client run on what was written, for the number of requested fields) -/
def handle (args : List String) : String :=
  match args with
  | "emit" :: tty :: nf :: rest =>
    match parseBool? tty, parseNat? nf with
    | some tty, some nf =>
      if rest.length < nf then "bad-op"
      else
        match (rest.take nf).mapM parseFile? with
        | none => "bad-op"
        | some files =>
          let fields := rest.drop nf
          let r := emit tty files fields
          s!"{showResult r} parsed={showParsed (parse fields.length r.written)}"
    | _, _ => "bad-op"
  | _ => "bad-op"

end AbacusVerif.Pipe
