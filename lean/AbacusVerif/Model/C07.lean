/-
  Model of the parallel TSC driver in abacusnbody/analysis/tsc.py: the choice and validation of
  `npartition` in `tsc_parallel`, the stripe of a particle (`partition_parallel`'s key), the grid rows
  a particle's TSC cloud touches along the partition axis (`_tsc_scatter` with `_rightwrap` and the
  Python negative-index rule) and the two-phase loop of `_tsc_parallel`.

  ```python
  # tsc_parallel
  numba.set_num_threads(nthread)
  n1d = densgrid.shape[coord]
  if not npartition:
      if nthread > 1:
          npartition = min(n1d // 3, 2 * nthread)
          npartition = 2 * (npartition // 2)  # must be even
          npartition = max(npartition, 1)
      else:
          npartition = 1
  if npartition > max(n1d // 3, 2) and nthread > 1:
      raise ValueError(...)
  if npartition > 1 and npartition % 2 != 0 and nthread > 1:
      raise ValueError(...)
  ...
  if npartition > 1:
      ppart, starts, wpart = partition_parallel(pos, npartition, box, ...)   # len(starts) = npartition + 1
  else:
      ppart = pos; wpart = weights; starts = np.array([0, len(pos)])
  _tsc_parallel(ppart, starts, densgrid, box, weights=wpart, offset=offset)

  # _tsc_parallel
  npartition = len(starts) - 1
  for i in numba.prange((npartition + 1) // 2):
      _tsc_scatter(ppart[starts[2 * i] : starts[2 * i + 1]], dens, ...)
  if npartition > 1:
      for i in numba.prange(npartition // 2):
          _tsc_scatter(ppart[starts[2 * i + 1] : starts[2 * i + 2]], dens, ...)

  # _tsc_scatter, along one axis of g cells
  px = (positions[n, 0] + offset) * inv_hx
  ix = itype(round(px))
  ixm1 = _rightwrap(ix - 1, gx); ixw = _rightwrap(ix, gx); ixp1 = _rightwrap(ix + 1, gx)
  density[ixm1, ...] += ...; density[ixw, ...] += ...; density[ixp1, ...] += ...

  def _rightwrap(x, L):
      while x >= L:
          x -= L
      return x
  ```
-/
import AbacusVerif.Model.Num

namespace AbacusVerif.TscPar
open AbacusVerif

/-! ### choice and validation of `npartition` -/

/-- `tsc_parallel`'s decision.  `nthread` is the value after `nthread < 0` has been replaced by the
number of cores; `npartition? = none` is Python's `None`.  The result is the number of stripes the
kernel is run with (`len(starts) - 1`), or `rejected` for a `ValueError`. -/
def choosePartition (n1d nthread : Nat) (npartition? : Option Int) : Except Fault Nat :=
  if nthread = 0 then .error .rejected          -- numba.set_num_threads(0) raises ValueError
  else
    let n1d : Int := n1d
    let nthread : Int := nthread
    -- `if not npartition:` is true for None and for 0
    let isUnset : Bool := match npartition? with
      | none => true
      | some v => v == 0
    let np : Int :=
      if isUnset then
        if nthread > 1 then
          let a := min (n1d / 3) (2 * nthread)
          let a := 2 * (a / 2)
          max a 1
        else 1
      else
        match npartition? with
        | some v => v
        | none => 1
    if np > max (n1d / 3) 2 ∧ nthread > 1 then .error .rejected
    else if np > 1 ∧ np % 2 ≠ 0 ∧ nthread > 1 then .error .rejected
    else if np > 1 then .ok np.toNat      -- partition_parallel: len(starts) = npartition + 1
    else .ok 1                            -- starts = [0, len(pos)]

/-! ### stripes and rows (grid units: one cell = 1, the axis has `g` cells, positions in `[0, g]`) -/

/-- the stripe of a particle at grid coordinate `p` (before the offset is added):
`min(int32(x * (np / box)), np - 1)` with `x / box = p / g` -/
def stripeOf (np g : Nat) (p : Rat) : Int :=
  min (truncInt (p * ((np : Rat) / (g : Rat)))) ((np : Int) - 1)

/-- `_rightwrap(x, L)`: subtract `L` while `x >= L` (for `L ≥ 1`); negative values are returned as is -/
def rightwrap (g : Nat) (x : Int) : Int := if 0 ≤ x then x % (g : Int) else x

/-- the three rows `density[ixm1], density[ixw], density[ixp1]` touched along the axis by a particle
whose grid coordinate including the offset is `u`: `_rightwrap`, then the Python index rule -/
def rowsOf (g : Nat) (u : Rat) : Except Fault (List Nat) :=
  [(-1 : Int), 0, 1].mapM (fun d => idx g (rightwrap g (rhe u + d)))

/-! ### the two-phase loop of `_tsc_parallel` -/

/-- `starts[i]` -/
def readStarts (starts : List Nat) (i : Nat) : Except Fault Nat :=
  match pyIndex starts.length (i : Int) with
  | some k =>
    match starts[k]? with
    | some v => .ok v
    | none => .error .oob
  | none => .error .oob

/-- one `prange` iteration: which stripe it processes and the particle slice it reads from `starts` -/
structure Job where
  stripe : Nat
  loIdx : Nat        -- index into `starts` of the slice's lower end
  hiIdx : Nat
  lo : Nat
  hi : Nat
  deriving Repr, DecidableEq

def job (starts : List Nat) (a : Nat) : Except Fault Job := do
  let lo ← readStarts starts a
  let hi ← readStarts starts (a + 1)
  pure ⟨a, a, a + 1, lo, hi⟩

/-- the first loop: iterations `i < (np + 1) // 2`, slices `starts[2i] : starts[2i + 1]` -/
def phase1 (starts : List Nat) : Except Fault (List Job) :=
  let np := starts.length - 1
  (List.range ((np + 1) / 2)).mapM (fun i => job starts (2 * i))

/-- the second loop: if `np > 1`, iterations `i < np // 2`, slices `starts[2i + 1] : starts[2i + 2]` -/
def phase2 (starts : List Nat) : Except Fault (List Job) :=
  let np := starts.length - 1
  if np > 1 then (List.range (np / 2)).mapM (fun i => job starts (2 * i + 1)) else .ok []

/-- both loops; the iterations inside one loop run concurrently, the loops one after the other -/
def phases (starts : List Nat) : Except Fault (List Job × List Job) := do
  let p1 ← phase1 starts
  let p2 ← phase2 starts
  pure (p1, p2)

/-! ### driver -/

def showJobs (js : List Job) : String :=
  showList (js.map (fun j => s!"{j.stripe}:{j.loIdx}:{j.hiIdx}:{j.lo}:{j.hi}"))

/-- requests:
`choose <n1d> <nthread> <none | int>` → `ok <stripes>` | `err rejected`;
`stripe <np> <g> <p>` → `<int>`;
`rows <g> <u>` → `ok r,r,r` | `err oob`;
`phases <starts>` → `ok <jobs of loop 1>|<jobs of loop 2>` | `err oob` (a job is `stripe:loIdx:hiIdx:lo:hi`). -/
def handle (args : List String) : String :=
  match args with
  | ["choose", n1d, nthread, np] =>
    match parseNat? n1d, parseNat? nthread with
    | some n1d, some nthread =>
      let np? : Option (Option Int) := if np = "none" then some none else (parseInt? np).map some
      match np? with
      | none => "bad-op"
      | some np? =>
        match choosePartition n1d nthread np? with
        | .ok k => s!"ok {k}"
        | .error f => s!"err {f}"
    | _, _ => "bad-op"
  | ["stripe", np, g, p] =>
    match parseNat? np, parseNat? g, parseRat? p with
    | some np, some g, some p => if g = 0 then "bad-op" else toString (stripeOf np g p)
    | _, _, _ => "bad-op"
  | ["rows", g, u] =>
    match parseNat? g, parseRat? u with
    | some g, some u =>
      if g = 0 then "bad-op" else
      match rowsOf g u with
      | .ok r => s!"ok {showList r}"
      | .error f => s!"err {f}"
    | _, _ => "bad-op"
  | ["phases", st] =>
    match parseNatList? st with
    | some st =>
      match phases st with
      | .ok (p1, p2) => s!"ok {showJobs p1}|{showJobs p2}"
      | .error f => s!"err {f}"
    | none => "bad-op"
  | _ => "bad-op"

end AbacusVerif.TscPar
