/-
  C13 — the source-level premise of the thread-schedule theorems: every store inside a `numba.prange`
  loop of the anchored kernels goes to memory owned by the iteration (or thread) that performs it.
  The table is regenerated from /repo by harness/extract/prange.py on every run; an edit that makes two
  iterations write the same cell shows up as a "shared" entry and this theorem stops checking.

  Why these kinds are private: the element-wise normalisations and the interlacing combination write only the element / row of the iteration.

  `loopvar`, `tid` (the executing thread's own row) and `local` (an array created inside the loop body) are
  unconditionally private and allowed everywhere; `block` / `cursor` kinds are allowed only where a theorem of this
  property proves the blocks / cursors disjoint.
-/
import AbacusVerif.Generated.PrangeC13

namespace AbacusVerif.PrangeC13

def allowedKinds : List String := ["loopvar", "tid", "local"]

/-- every store in every `prange` loop is of a private kind -/
theorem prange_writes_private : ∀ e ∈ prangeWrites, e.2.2 ∈ allowedKinds := by decide +kernel

/-- the table is not empty (the translator found the loops) -/
theorem prange_table_nonempty : prangeWrites ≠ [] := by decide +kernel

end AbacusVerif.PrangeC13
