/-
  C10 ← C09: the thread structure of C10 composed with the selection rule and the galaxy content of C09 —
  no hypothesis about the keep codes left.

  C10's theorems (Props/C10.lean) take the per-row keep code as an arbitrary input list and store *row
  numbers* in the output arrays; C09's model (Model/C09.lean) defines the decision (`keepCode`: which tracer,
  if any, captures a halo / a particle, from the stacked markers, with the particle's ELG width chosen by its
  host's central code `keep_cent[pinds]`) and the galaxy record (`mkCent`, `mkSat`: position incl. the RSD
  displacement, velocity, mass, id), but runs the fill pass sequentially.

  `catalogueT` below is `gen_gals` with both: the count/fill passes of `gen_cent` and `gen_sats` are C10's
  `twoPass` on `T` threads over the keep codes that C09's `keepCode` assigns, the rows found in the output
  arrays are turned into galaxies by C09's record functions (the adapter `records`), and each tracer's
  centrals and satellites are joined by C10's `fast_concatenate` model on the same `T` threads.

  Adapters (both proved faithful):
  * decision → class: C09's `keepCode … = T.code` is C10's class `T.code ∈ {1,2,3}` (`code_cls`,
    `Hod.keepCode_eq_code_iff`: that is exactly C09's slice rule `inSlice`);
  * row number → record: `records mk rows` reads the row stored in a cell and applies C09's `mk`; an unwritten
    cell stays `none` (`records_rowsOf`: on the rows of one class it is C09's `fill`).
-/
import AbacusVerif.Props.C10
import AbacusVerif.Props.C09

namespace AbacusVerif.HodLink
open AbacusVerif AbacusVerif.Hod AbacusVerif.TwoPass

/-! ### adapters -/

/-- a tracer's keep code is one of C10's three classes -/
theorem code_cls (Tr : Tracer) : Cls Tr.code := by
  cases Tr
  · exact Or.inl rfl
  · exact Or.inr (Or.inl rfl)
  · exact Or.inr (Or.inr rfl)

/-- C10's output array (cells hold the number of the source row, `none` = never written) read as galaxy
records with C09's record function -/
def records {ρ} (mk : ρ → Gal) (rows : List ρ) (arr : List (Option Nat)) : List (Option Gal) :=
  arr.map (fun cell => cell.bind (fun i => (rows[i]?).map mk))

/-- the record adapter is faithful: over the rows that C10 selects for class `code` (row numbers in table
order) it yields exactly C09's sequential `fill` — every selected row's record, once, in table order -/
theorem records_rowsOf {ρ} (mk : ρ → Gal) (rows : List ρ) (f : ρ → Nat) (code : Nat) :
    records mk rows ((rowsOf (rows.map f) code).map some) =
      (fill mk code rows (rows.map f)).map some ∧
    (rowsOf (rows.map f) code).length = (fill mk code rows (rows.map f)).length := by
  have key : ∀ rows : List ρ,
      ((List.range rows.length).filter (fun i => (rows.map f)[i]? = some code)).map
          (fun i => (rows[i]?).map mk) =
        ((rows.filter (fun x => f x = code)).map mk).map some := by
    intro rows
    induction rows with
    | nil => rfl
    | cons x xs ih =>
      rw [List.length_cons, List.range_succ_eq_map, List.filter_cons, List.filter_map, List.filter_cons]
      have e1 : ((fun i => decide (((x :: xs).map f)[i]? = some code)) ∘ Nat.succ) =
          fun i => decide ((xs.map f)[i]? = some code) := by
        funext i; simp
      rw [e1]
      by_cases h : f x = code
      · simp only [List.map_cons, List.getElem?_cons_zero, h, decide_true, if_true, Option.map_some]
        rw [List.map_map]
        have e2 : ((fun i => ((x :: xs)[i]?).map mk) ∘ Nat.succ) = fun i => (xs[i]?).map mk := by
          funext i; simp
        rw [e2, ih]
      · have h' : ¬ (some (f x) = some code) := fun e => h (Option.some.inj e)
        simp only [List.map_cons, List.getElem?_cons_zero, h', decide_false, h, Bool.false_eq_true, if_false]
        rw [List.map_map]
        have e2 : ((fun i => ((x :: xs)[i]?).map mk) ∘ Nat.succ) = fun i => (xs[i]?).map mk := by
          funext i; simp
        rw [e2]
        simpa using ih
  constructor
  · unfold records rowsOf
    rw [List.map_map, fill_map, ← key rows, List.length_map]
    rfl
  · have := congrArg List.length (key rows)
    simp only [List.length_map] at this
    unfold rowsOf
    rw [fill_map, List.length_map, List.length_map]
    exact this

/-! ### `gen_gals` on `T` threads -/

/-- one tracer of the catalogue: `Ncent` and the rows (`none` = a cell no thread wrote) -/
abbrev TracerCells := Nat × List (Option Gal)

/-- `gen_gals` with the thread structure of C10 and the decisions / records of C09.
`bH`, `bP`: the block boundaries (`hstart`) of `gen_cent` / `gen_sats`; `blocks`: those of `fast_concatenate`. -/
def catalogueT (cfg : Cfg) (alphaC alphaS : Tri Rat) (hosts : List Host) (parts : List Part)
    (T : Nat) (bH bP : List Nat) (blocks : Nat → Nat → List Nat) :
    Except Fault (Tracer → Option TracerCells) :=
  -- gen_cent: count pass decisions are C09's keepCode; both passes are C10's twoPass
  let keepC := hosts.map (fun h => keepCode cfg.en h.w h.r)
  match twoPass keepC bH T with
  | .error e => .error e
  | .ok oc =>
    -- keep_cent[subsample['pinds']]
    match gatherKeep keepC (parts.map (·.kc)) with
    | .error e => .error e
    | .ok kcs =>
      -- gen_sats
      let pks := parts.zip kcs
      let keepS := pks.map (fun pk => keepCode cfg.en (satWidths pk.1 pk.2) pk.1.r)
      match twoPass keepS bP T with
      | .error e => .error e
      | .ok os =>
        -- per tracer: fast_concatenate(centrals, satellites, Nthread)
        let one (Tr : Tracer) : Except Fault TracerCells :=
          let cent := records (mkCent cfg (alphaC.get Tr)) hosts (arrayOf oc.N Tr.code oc.writes)
          let sat := records (fun pk => mkSat cfg (alphaS.get Tr) pk.1) pks (arrayOf os.N Tr.code os.writes)
          match fastConcatWith blocks cent sat T with
          | .error e => .error e
          | .ok r => .ok (oc.N.get Tr.code, (r.result cent sat).map Option.join)
        match one .LRG, one .ELG, one .QSO with
        | .ok l, .ok e, .ok q =>
          .ok (fun Tr => if cfg.en.get Tr then some (match Tr with | .LRG => l | .ELG => e | .QSO => q) else none)
        | .error e, _, _ => .error e
        | _, .error e, _ => .error e
        | _, _, .error e => .error e

/-- the real boundaries everywhere: `np.rint(np.linspace(0, n, T + 1))` -/
def catalogueReal (cfg : Cfg) (alphaC alphaS : Tri Rat) (hosts : List Host) (parts : List Part) (T : Nat) :
    Except Fault (Tracer → Option TracerCells) :=
  catalogueT cfg alphaC alphaS hosts parts T (rintLinspace hosts.length T) (rintLinspace parts.length T)
    rintLinspace

/-- C09's sequential catalogue in the shape of `catalogueT`'s result: every row written (`some`) -/
def ofC09 (o : CatOut) : Tracer → Option TracerCells :=
  fun Tr => (o.cat Tr).map (fun t => (t.ncent, t.gals.map some))

/-- `fast_concatenate` on any `T ≥ 1` threads, any inputs (empty or not): the concatenation -/
theorem fastConcat_any {α} (blocks : Nat → Nat → List Nat)
    (hbl : ∀ H T, 1 ≤ T → BlockSeq (blocks H T) T H) (a1 a2 : List α) (T : Nat) (hT : 1 ≤ T) :
    ∃ r, fastConcatWith blocks a1 a2 T = .ok r ∧ r.result a1 a2 = (a1 ++ a2).map some := by
  obtain ⟨b1, b2, b3⟩ := fastConcat_branches blocks a1 a2 T
  by_cases h1 : a1.length = 0
  · exact ⟨_, (b1 h1).1, (b1 h1).2⟩
  by_cases h2 : a2.length = 0
  · exact ⟨_, (b2 h1 h2).1, (b2 h1 h2).2⟩
  by_cases h3 : T = 1
  · obtain ⟨ws, hw, _, _, hr⟩ := b3 h1 h2 h3
    exact ⟨_, hw, hr⟩
  · have hT2 : 2 ≤ T := by omega
    obtain ⟨t1, _, _, t4⟩ := threadSplit_bounds a1.length a2.length T (by omega) (by omega) hT2
    obtain ⟨_, _, _, ws, hw, _, _, hr⟩ := fastConcat_spec blocks a1 a2 T (by omega) (by omega) hT2
      (hbl _ _ t1) (hbl _ _ t4)
    exact ⟨_, hw, hr⟩

/-- **catalogue_is_c09_filter.**  For every configuration, parameter set, halo table and particle table,
every thread count `T ≥ 1`, every monotone block sequence of `gen_cent`'s and of `gen_sats`'s rows and every
block function of `fast_concatenate` — with NO hypothesis on the keep codes, which are C09's `keepCode` of
each row's markers and random number, the particles' through `keep_cent[pinds]` —
the catalogue of the threaded two-pass pipeline is C09's catalogue (`genGalCat`): it fails (an out-of-range
`pinds`) exactly when C09's does, and otherwise for every tracer `Ncent` is C09's and the rows are C09's
galaxies, every cell written: the centrals, i.e. the hosts whose random number lies in the tracer's slice
(`inSliceB`), each exactly once, in table order, as C09's record `mkCent` (id, mass, velocity with the bias
term, position with the RSD displacement), followed by the satellites, i.e. the particles in the tracer's
slice for the widths selected by the host's central code, in table order, as `mkSat`. -/
theorem catalogue_is_c09_filter (cfg : Cfg) (aC aS : Tri Rat) (hosts : List Host) (parts : List Part)
    (T : Nat) (hT : 1 ≤ T) (bH bP : List Nat) (blocks : Nat → Nat → List Nat)
    (hbH : BlockSeq bH T hosts.length) (hbP : BlockSeq bP T parts.length)
    (hbl : ∀ H T, 1 ≤ T → BlockSeq (blocks H T) T H) :
    catalogueT cfg aC aS hosts parts T bH bP blocks =
      (genGalCat cfg aC aS hosts parts).map ofC09 ∧
    (∀ o, genGalCat cfg aC aS hosts parts = .ok o → ∀ Tr, cfg.en.get Tr = true →
      ∃ kcs, gatherKeep (genCent cfg aC hosts).keep (parts.map (·.kc)) = .ok kcs ∧
        ofC09 o Tr = some
          (((hosts.filter (fun h => inSliceB cfg.en h.w Tr h.r)).map (mkCent cfg (aC.get Tr))).length,
           (((hosts.filter (fun h => inSliceB cfg.en h.w Tr h.r)).map (mkCent cfg (aC.get Tr))) ++
            (((parts.zip kcs).filter (fun pk => inSliceB cfg.en (satWidths pk.1 pk.2) Tr pk.1.r)).map
              (fun pk => mkSat cfg (aS.get Tr) pk.1))).map some)) := by
  constructor
  · -- the equation
    obtain ⟨oc, hoc, hfc⟩ := fill_is_filter (hosts.map (fun h => keepCode cfg.en h.w h.r)) bH T hosts.length hT hbH
      (by simp)
    unfold catalogueT genGalCat
    simp only [hoc, bind, Except.bind, pure, Except.pure]
    have hk : (genCent cfg aC hosts).keep = hosts.map (fun h => keepCode cfg.en h.w h.r) := rfl
    rw [hk]
    cases hg : gatherKeep (hosts.map (fun h => keepCode cfg.en h.w h.r)) (parts.map (·.kc)) with
    | error e => rfl
    | ok kcs =>
      have hlen : kcs.length = parts.length := by
        have := gatherKeep_length hg; simpa using this
      obtain ⟨os, hos, hfs⟩ := fill_is_filter
        ((parts.zip kcs).map (fun pk => keepCode cfg.en (satWidths pk.1 pk.2) pk.1.r)) bP T parts.length hT hbP
        (by simp [hlen])
      simp only [hos]
      -- one tracer
      have hone : ∀ Tr : Tracer,
          (match fastConcatWith blocks
              (records (mkCent cfg (aC.get Tr)) hosts (arrayOf oc.N Tr.code oc.writes))
              (records (fun pk : Part × Int => mkSat cfg (aS.get Tr) pk.1) (parts.zip kcs) (arrayOf os.N Tr.code os.writes)) T with
            | .error e => (.error e : Except Fault TracerCells)
            | .ok r => .ok (oc.N.get Tr.code,
                (r.result (records (mkCent cfg (aC.get Tr)) hosts (arrayOf oc.N Tr.code oc.writes))
                  (records (fun pk : Part × Int => mkSat cfg (aS.get Tr) pk.1) (parts.zip kcs)
                    (arrayOf os.N Tr.code os.writes))).map Option.join)) =
          .ok (((genCent cfg aC hosts).gals Tr).length,
            ((genCent cfg aC hosts).gals Tr ++ (genSats cfg aS (parts.zip kcs)).gals Tr).map some) := by
        intro Tr
        obtain ⟨n1, _, _, _, a1⟩ := hfc Tr.code (code_cls Tr)
        obtain ⟨_, _, _, _, a2⟩ := hfs Tr.code (code_cls Tr)
        obtain ⟨r1, l1⟩ := records_rowsOf (mkCent cfg (aC.get Tr)) hosts (fun h => keepCode cfg.en h.w h.r) Tr.code
        obtain ⟨r2, _⟩ := records_rowsOf (fun pk : Part × Int => mkSat cfg (aS.get Tr) pk.1) (parts.zip kcs)
          (fun pk : Part × Int => keepCode cfg.en (satWidths pk.1 pk.2) pk.1.r) Tr.code
        rw [a1, a2, r1, r2, n1, l1]
        obtain ⟨r, hr, hres⟩ := fastConcat_any blocks hbl
          ((fill (mkCent cfg (aC.get Tr)) Tr.code hosts (hosts.map fun h => keepCode cfg.en h.w h.r)).map some)
          ((fill (fun pk : Part × Int => mkSat cfg (aS.get Tr) pk.1) Tr.code (parts.zip kcs)
            ((parts.zip kcs).map fun pk : Part × Int => keepCode cfg.en (satWidths pk.1 pk.2) pk.1.r)).map some) T hT
        rw [hr]
        simp only []
        rw [hres]
        congr 2
        simp [genCent, genSats, List.map_append, Function.comp_def]
      simp only [hone]
      simp only [Except.map]
      congr 1
      funext Tr
      unfold ofC09
      simp only []
      by_cases h : Tri.get cfg.en Tr = true
      · simp only [h, if_true, Option.map_some]; cases Tr <;> rfl
      · simp [h]
  · -- the rows, spelled out with C09's slice rule
    intro o ho Tr hTr
    obtain ⟨t, kcs, h1, h2, _, h4, h5, _⟩ := order_and_ncent cfg aC aS hosts parts o Tr hTr ho
    obtain ⟨c1, c2⟩ := threshold_rule_catalogue cfg aC aS hosts (parts.zip kcs) Tr
    refine ⟨kcs, h2, ?_⟩
    unfold ofC09
    rw [h1, Option.map_some, h5, h4, c1, c2]

/-- the same for the boundaries the real code computes -/
theorem catalogue_real_is_c09 (cfg : Cfg) (aC aS : Tri Rat) (hosts : List Host) (parts : List Part)
    (T : Nat) (hT : 1 ≤ T) :
    catalogueReal cfg aC aS hosts parts T = (genGalCat cfg aC aS hosts parts).map ofC09 :=
  (catalogue_is_c09_filter cfg aC aS hosts parts T hT _ _ rintLinspace (rint_linspace_blocks _ _ hT)
    (rint_linspace_blocks _ _ hT) (fun H T hT => rint_linspace_blocks H T hT)).1

/-- **catalogue_thread_independent_c09.**  Stated over the C09 inputs only (configuration, parameters, the
two tables with their markers/widths and random numbers): any two thread counts, with any block sequences —
in particular the real `rint(linspace)` ones —, give the identical catalogue (same failure, or the same
`Ncent` and the same rows for every tracer). -/
theorem catalogue_thread_independent_c09 (cfg : Cfg) (aC aS : Tri Rat) (hosts : List Host) (parts : List Part)
    (T T' : Nat) (hT : 1 ≤ T) (hT' : 1 ≤ T') (bH bP bH' bP' : List Nat) (blocks blocks' : Nat → Nat → List Nat)
    (hbH : BlockSeq bH T hosts.length) (hbP : BlockSeq bP T parts.length)
    (hbl : ∀ H T, 1 ≤ T → BlockSeq (blocks H T) T H)
    (hbH' : BlockSeq bH' T' hosts.length) (hbP' : BlockSeq bP' T' parts.length)
    (hbl' : ∀ H T, 1 ≤ T → BlockSeq (blocks' H T) T H) :
    catalogueT cfg aC aS hosts parts T bH bP blocks = catalogueT cfg aC aS hosts parts T' bH' bP' blocks' ∧
    catalogueReal cfg aC aS hosts parts T = catalogueReal cfg aC aS hosts parts T' := by
  constructor
  · rw [(catalogue_is_c09_filter cfg aC aS hosts parts T hT bH bP blocks hbH hbP hbl).1,
      (catalogue_is_c09_filter cfg aC aS hosts parts T' hT' bH' bP' blocks' hbH' hbP' hbl').1]
  · rw [catalogue_real_is_c09 cfg aC aS hosts parts T hT, catalogue_real_is_c09 cfg aC aS hosts parts T' hT']

/-! ### non-vacuity: 3 halos, 4 particles, LRG + ELG, one and three threads

  halos (widths LRG 1/4, ELG 1/4): r = 1/8 → LRG, r = 3/8 → ELG, r = 7/8 → dropped;
  particles (host row `kc`): r = 1/16 (host 0) → LRG, r = 5/16 (host 1, an ELG central: conformity width
  `wE2 = 1/4` → marker 3/8) → ELG, r = 15/16 → dropped, r = 1/8 (host 2) → LRG. -/

def exCfg : Cfg := ⟨⟨true, true, false⟩, true, none, 1/2, 100⟩

def exHosts : List Host :=
  [⟨70, 10, ⟨1, 2, 3⟩, ⟨10, 20, 30⟩, ⟨4, 8, 12⟩, 1/8, ⟨1/4, 1/4, 0⟩, 0⟩,
   ⟨71, 11, ⟨2, 3, 49⟩, ⟨11, 21, 4⟩, ⟨4, 8, 12⟩, 3/8, ⟨1/4, 1/4, 0⟩, 0⟩,
   ⟨72, 12, ⟨3, 4, 5⟩, ⟨12, 22, 32⟩, ⟨4, 8, 12⟩, 7/8, ⟨1/4, 1/4, 0⟩, 0⟩]

def exParts : List Part :=
  [⟨70, 10, ⟨5, 6, 7⟩, ⟨1, 1, 1⟩, ⟨10, 20, 30⟩, 1/16, 1/8, 0, 0, 0, 0, 0, 0⟩,
   ⟨71, 11, ⟨6, 7, 8⟩, ⟨2, 2, 2⟩, ⟨11, 21, 4⟩, 5/16, 1/8, 1/16, 1/16, 1/4, 0, 0, 1⟩,
   ⟨71, 11, ⟨7, 8, 9⟩, ⟨3, 3, 3⟩, ⟨11, 21, 4⟩, 15/16, 1/8, 1/16, 1/16, 1/4, 0, 0, 1⟩,
   ⟨72, 12, ⟨8, 9, 1⟩, ⟨4, 4, 4⟩, ⟨12, 22, 32⟩, 1/8, 1/8, 0, 0, 0, 0, 0, 2⟩]

/-- `Ncent` and the id column per tracer (`none` would be an unwritten row) -/
def idsOf (r : Except Fault (Tracer → Option TracerCells)) (Tr : Tracer) : Option (Nat × List (Option Int)) :=
  match r with
  | .ok cat => (cat Tr).map (fun t => (t.1, t.2.map (fun g => g.map (·.id))))
  | .error _ => none

-- the hypotheses of the theorems hold for the real boundaries of this table with 1 and 3 threads
example : BlockSeq (rintLinspace exHosts.length 3) 3 exHosts.length ∧
    BlockSeq (rintLinspace exParts.length 3) 3 exParts.length := by
  constructor <;> decide +kernel
-- the threaded model, run: kept and dropped rows, centrals before satellites, two tracers, QSO disabled
example : idsOf (catalogueReal exCfg ⟨0, 0, 0⟩ ⟨1, 1, 1⟩ exHosts exParts 3) .LRG = some (1, [some 70, some 70, some 72]) ∧
    idsOf (catalogueReal exCfg ⟨0, 0, 0⟩ ⟨1, 1, 1⟩ exHosts exParts 3) .ELG = some (1, [some 71, some 71]) ∧
    idsOf (catalogueReal exCfg ⟨0, 0, 0⟩ ⟨1, 1, 1⟩ exHosts exParts 3) .QSO = none ∧
    idsOf (catalogueReal exCfg ⟨0, 0, 0⟩ ⟨1, 1, 1⟩ exHosts exParts 1) .LRG = some (1, [some 70, some 70, some 72]) := by
  refine ⟨?_, ?_, ?_, ?_⟩ <;> decide +kernel
-- C09's decisions on the same rows: host 0 in the LRG slice, host 1 in the ELG slice, host 2 in none
example : inSliceB exCfg.en ⟨1/4, 1/4, 0⟩ .LRG (1/8) = true ∧ inSliceB exCfg.en ⟨1/4, 1/4, 0⟩ .ELG (3/8) = true ∧
    inSliceB exCfg.en ⟨1/4, 1/4, 0⟩ .LRG (7/8) = false ∧ inSliceB exCfg.en ⟨1/4, 1/4, 0⟩ .ELG (7/8) = false := by
  refine ⟨?_, ?_, ?_, ?_⟩ <;> decide +kernel
-- and the theorem instantiated: one thread and three threads give the identical catalogue
example : catalogueReal exCfg ⟨0, 0, 0⟩ ⟨1, 1, 1⟩ exHosts exParts 1 =
    catalogueReal exCfg ⟨0, 0, 0⟩ ⟨1, 1, 1⟩ exHosts exParts 3 :=
  (catalogue_thread_independent_c09 exCfg ⟨0, 0, 0⟩ ⟨1, 1, 1⟩ exHosts exParts 1 3 (by omega) (by omega)
    _ _ _ _ rintLinspace rintLinspace (rint_linspace_blocks _ _ (by omega)) (rint_linspace_blocks _ _ (by omega))
    (fun H T h => rint_linspace_blocks H T h) (rint_linspace_blocks _ _ (by omega))
    (rint_linspace_blocks _ _ (by omega)) (fun H T h => rint_linspace_blocks H T h)).2

end AbacusVerif.HodLink
