/-
  C19 — chaining two `cumsum` calls through the returned total (how the catalogue reader lays subsample B after
  subsample A: `offset = cumsum(npoutA, startsA, initial=True, final=True, offset=offset)` and then the same for B).

  `cumsum_chain`: calling `cumsum` on `a` with offset `off`, and then on `b` with the total the first call RETURNED,
  yields — for every pair of flag settings of the second call — exactly the partial sums of the concatenated array
  `a ++ b` from position `|a|` on, and returns the grand total of `a ++ b`.  No algebraic law of `+` is used
  (left-to-right accumulation), so it holds for wrap-around `BitVec 64` as well as for `Int`.
-/
import AbacusVerif.Props.C19

namespace AbacusVerif.Cumsum
open AbacusVerif

variable {α : Type} [Add α]

theorem psum_append (off : α) (a b : List α) (k : Nat) :
    psum off (a ++ b) (a.length + k) = psum (psum off a a.length) b k := by
  unfold psum
  rw [List.take_length_add_append, List.foldl_append, List.take_length]

/-- **cumsum_chain.** -/
theorem cumsum_chain (a b : List α) (outA outB : Nat) (iA fA iB fB : Bool) (off : α)
    (hA : (outA : Int) = expectedLen a.length iA fA) (hB : (outB : Int) = expectedLen b.length iB fB) :
    ∃ sA sB, cumsum a outA iA fA off = .ok sA ∧ cumsum b outB iB fB sA.total = .ok sB ∧
      sB.total = psum off (a ++ b) (a ++ b).length ∧
      selected sA.total b iB fB =
        (List.range outB).map (fun k => psum off (a ++ b) (a.length + (k + (1 - b2n iB)))) := by
  obtain ⟨sA, hsA, htA, _⟩ := cumsum_spec a outA iA fA off hA
  obtain ⟨sB, hsB, htB, _⟩ := cumsum_spec b outB iB fB sA.total hB
  refine ⟨sA, sB, hsA, hsB, ?_, ?_⟩
  · rw [htB, htA, List.length_append, psum_append]
  · rw [selected_eq b outB iB fB sA.total hB, htA]
    apply List.map_congr_left
    intro k _
    rw [psum_append]

/-- non-vacuity, on the reader's call pattern (initial = final = True): A = [2, 0, 3] from offset 10, then B = [1, 4] -/
example :
    ∃ sA sB, cumsum [2, 0, 3] 4 true true (10 : Int) = .ok sA ∧ cumsum [1, 4] 3 true true sA.total = .ok sB ∧
      applyWrites [0, 0, 0, 0] sA.writes = [10, 12, 12, 15] ∧ applyWrites [0, 0, 0] sB.writes = [15, 16, 20] ∧
      sB.total = 20 := by
  refine ⟨_, _, rfl, rfl, ?_, ?_, ?_⟩ <;> decide

end AbacusVerif.Cumsum
