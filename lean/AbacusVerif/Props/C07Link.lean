/-
  C07 — the link between the three models of the parallel TSC pipeline.

  `tsc_parallel` = `partition_parallel` (Model/C17: keys, stable partition, `starts`), then `_tsc_parallel`
  (Model/C07: which `starts[...]` slices each `prange` iteration of the two loops takes), each iteration
  running `_tsc_scatter` on the shared grid (Model/C06: the `+=` list of every particle).  This file proves
  that the three models fit together and that, for every accepted configuration and every schedule of the
  two loops, the grid is the one C06's serial `scatter` of the original particle list leaves.

  Layers: `writes_rows_subset` (C06's subscripts along the partition axis are C07's `rowsOf`),
  `keyInt_eq_stripeOf` (C17's key is C07's stripe), `stripe_slice` / `stable_perm` (stripe `s` of C17's output
  is the slice `starts[s] : starts[s+1]`, holds exactly `members s`, and the whole is a permutation of the
  input), `tsc_parallel_eq_serial` (the composition).
-/
import AbacusVerif.Props.C07
import AbacusVerif.Props.C17
import AbacusVerif.Props.C06

namespace AbacusVerif.TscLink
open AbacusVerif AbacusVerif.Conc

/-! ### the partition axis -/

/-- `coord` of `tsc_parallel`: the axis along which the particles are partitioned -/
inductive Ax where
  | x | y | z
  deriving DecidableEq, Repr

/-- `n1d = densgrid.shape[coord]` -/
def Ax.g (c : Mass.Cfg) : Ax → Nat
  | .x => c.gx | .y => c.gy | .z => c.gz

/-- `pos[i, coord]` -/
def Ax.pos (pt : Mass.Particle) : Ax → ℚ
  | .x => pt.x | .y => pt.y | .z => pt.z

/-- the row along the axis of a flat (row-major) grid cell -/
def Ax.row (c : Mass.Cfg) : Ax → Nat → Nat
  | .x => fun n => n / c.gz / c.gy
  | .y => fun n => n / c.gz % c.gy
  | .z => fun n => n % c.gz

/-- the `+=` list of one particle (C06's `particleWrites`; empty if the iteration faults) -/
def pw (c : Mass.Cfg) (pt : Mass.Particle) : List (Nat × ℚ) :=
  match Mass.particleWrites c pt with
  | .ok ws => ws
  | .error _ => []

/-! ### bridge: C06's subscripts are C07's rows -/

/-- the two models of `_rightwrap` + index rule agree on every axis with at least one cell -/
theorem cellOf_eq_idx {g : Nat} (hg : 1 ≤ g) (i : Int) :
    Mass.cellOf g i = idx g (TscPar.rightwrap g i) := by
  have hg' : (0 : Int) < (g : Int) := by exact_mod_cast hg
  unfold Mass.cellOf TscPar.rightwrap
  rw [Mass.rightwrap_eq hg']
  by_cases h : i ≥ (g : Int)
  · have h0 : 0 ≤ i := by omega
    simp only [h, h0, if_true]
  · by_cases h0 : 0 ≤ i
    · simp only [h, h0, if_true, if_false]
      rw [Int.emod_eq_of_lt h0 (by omega)]
    · simp only [h, h0, if_false]

/-- if C06 resolves the three subscripts of an axis, they are exactly C07's `rowsOf` -/
theorem rowsOf_of_resolve {g : Nat} (hg : 1 ≤ g) {u : ℚ} {X : Mass.RAxis}
    (h : Mass.resolve g (Mass.tscAxis u) = .ok X) : TscPar.rowsOf g u = .ok [X.cm, X.c0, X.cp] := by
  obtain ⟨h1, h2, h3, _⟩ := Mass.resolve_ok h
  rw [Mass.tscAxis_ix, cellOf_eq_idx hg] at h1 h2 h3
  unfold TscPar.rowsOf
  have e1 : rhe u + -1 = rhe u - 1 := by ring
  simp [List.mapM_cons, e1, h1, h2, h3, bind, Except.bind, pure, Except.pure]

theorem flat_row_x {gy gz i j k : Nat} (hj : j < gy) (hk : k < gz) : Mass.flat gy gz i j k / gz / gy = i := by
  unfold Mass.flat
  have hgz : 0 < gz := by omega
  have hgy : 0 < gy := by omega
  rw [Nat.add_comm, Nat.add_mul_div_right _ _ hgz, Nat.div_eq_of_lt hk, Nat.zero_add,
    Nat.add_comm, Nat.add_mul_div_right _ _ hgy, Nat.div_eq_of_lt hj, Nat.zero_add]

theorem flat_row_y {gy gz i j k : Nat} (hj : j < gy) (hk : k < gz) : Mass.flat gy gz i j k / gz % gy = j := by
  unfold Mass.flat
  have hgz : 0 < gz := by omega
  rw [Nat.add_comm, Nat.add_mul_div_right _ _ hgz, Nat.div_eq_of_lt hk, Nat.zero_add,
    Nat.add_comm, Nat.add_mul_mod_self_right, Nat.mod_eq_of_lt hj]

theorem flat_row_z {gy gz i j k : Nat} (hk : k < gz) : Mass.flat gy gz i j k % gz = k := by
  unfold Mass.flat
  rw [Nat.add_comm, Nat.add_mul_mod_self_right, Nat.mod_eq_of_lt hk]

theorem cell_mem (X : Mass.RAxis) (s : Mass.Slot) : X.cell s ∈ [X.cm, X.c0, X.cp] := by
  cases s <;> simp [Mass.RAxis.cell]

/-- **bridge.**  Every `density[…] += …` of a TSC particle lands, along each axis, in one of the three rows
`rowsOf g u` of C07's model, `u` being the grid coordinate (offset included) the kernel computes. -/
theorem writes_rows_subset (c : Mass.Cfg) (hk : c.kind = .tsc) (hc : Mass.GoodCfg c) (ax : Ax)
    (pt : Mass.Particle) (hu : 0 ≤ Mass.gridCoord c (ax.pos pt) (ax.g c))
    {ws : List (Nat × ℚ)} (h : Mass.particleWrites c pt = .ok ws) :
    ∃ r, TscPar.rowsOf (ax.g c) (Mass.gridCoord c (ax.pos pt) (ax.g c)) = .ok r ∧
      ∀ cv ∈ ws, ax.row c cv.1 ∈ r := by
  obtain ⟨hb, hgx, hgy, hgz⟩ := hc
  obtain ⟨_, X, Y, hX, hY, hcase⟩ := Mass.particleWrites_elim h
  unfold Mass.axX at hX
  unfold Mass.axY at hY
  rw [hk] at hX hY
  simp only [Mass.axisOf] at hX hY
  -- the three cells of the other axes are inside their axis
  have hYlt := fun s => Mass.resolve_cell_lt hY s
  rcases hcase with ⟨hz1, rfl⟩ | ⟨hz3, Z, hZ, rfl⟩
  · -- 2-d deposit: the third subscript is the constant 0
    have hZlt : ∀ s, Mass.flatZ.cell s < c.gz := fun s => by rw [hz1]; exact Mass.flatZ_cell_lt s
    cases ax with
    | x =>
      refine ⟨_, rowsOf_of_resolve hgx hX, ?_⟩
      intro cv hcv
      simp only [Mass.writes, List.mem_map] at hcv
      obtain ⟨s, _, rfl⟩ := hcv
      simp only [Ax.row, flat_row_x (hYlt _) (hZlt _)]
      exact cell_mem X _
    | y =>
      refine ⟨_, rowsOf_of_resolve hgy hY, ?_⟩
      intro cv hcv
      simp only [Mass.writes, List.mem_map] at hcv
      obtain ⟨s, _, rfl⟩ := hcv
      simp only [Ax.row, flat_row_y (hYlt _) (hZlt _)]
      exact cell_mem Y _
    | z =>
      -- on a one-cell axis every row is row 0
      have hi : 0 ≤ rhe (Mass.gridCoord c pt.z c.gz) := by
        have := rhe_mono hu
        rwa [show rhe (0 : ℚ) = 0 from rhe_int 0] at this
      obtain ⟨r1, h1, hl1, _⟩ := TscPar.wrap_spec c.gz (by omega) (rhe (Mass.gridCoord c pt.z c.gz) + -1) (by omega)
      obtain ⟨r2, h2, hl2, _⟩ := TscPar.wrap_spec c.gz (by omega) (rhe (Mass.gridCoord c pt.z c.gz) + 0) (by omega)
      obtain ⟨r3, h3, hl3, _⟩ := TscPar.wrap_spec c.gz (by omega) (rhe (Mass.gridCoord c pt.z c.gz) + 1) (by omega)
      refine ⟨[r1, r2, r3], ?_, ?_⟩
      · simp only [Ax.g, Ax.pos]
        unfold TscPar.rowsOf
        rw [add_zero] at h2
        simp [List.mapM_cons, h1, h2, h3, bind, Except.bind, pure, Except.pure]
      · intro cv hcv
        simp only [Mass.writes, List.mem_map] at hcv
        obtain ⟨s, _, rfl⟩ := hcv
        simp only [Ax.row, flat_row_z (hZlt _)]
        have : Mass.flatZ.cell s.2.2 = 0 := by have := hZlt s.2.2; omega
        have : r1 = 0 := by omega
        simp [*]
  · unfold Mass.axZ at hZ
    rw [hk] at hZ
    simp only [Mass.axisOf] at hZ
    have hZlt := fun s => Mass.resolve_cell_lt hZ s
    cases ax with
    | x =>
      refine ⟨_, rowsOf_of_resolve hgx hX, ?_⟩
      intro cv hcv
      simp only [Mass.writes, List.mem_map] at hcv
      obtain ⟨s, _, rfl⟩ := hcv
      simp only [Ax.row, flat_row_x (hYlt _) (hZlt _)]
      exact cell_mem X _
    | y =>
      refine ⟨_, rowsOf_of_resolve hgy hY, ?_⟩
      intro cv hcv
      simp only [Mass.writes, List.mem_map] at hcv
      obtain ⟨s, _, rfl⟩ := hcv
      simp only [Ax.row, flat_row_y (hYlt _) (hZlt _)]
      exact cell_mem Y _
    | z =>
      refine ⟨_, rowsOf_of_resolve hgz hZ, ?_⟩
      intro cv hcv
      simp only [Mass.writes, List.mem_map] at hcv
      obtain ⟨s, _, rfl⟩ := hcv
      simp only [Ax.row, flat_row_z (hZlt _)]
      exact cell_mem Z _


-- a particle at x = Box with a half-cell offset on a 12 x 2 x 2 grid: 27 updates, rows 11, 0, 1 across the wrap
example : TscPar.rowsOf 12 (Mass.gridCoord { kind := .tsc, gx := 12, gy := 2, gz := 2, box := 12, off := 1/2 } 12 12) =
      .ok [11, 0, 1] ∧
    (pw { kind := .tsc, gx := 12, gy := 2, gz := 2, box := 12, off := 1/2 } { x := 12, y := 12, z := 12, w := 1/2 }).length = 27 ∧
    ((pw { kind := .tsc, gx := 12, gy := 2, gz := 2, box := 12, off := 1/2 } { x := 12, y := 12, z := 12, w := 1/2 }).all
      (fun cv => decide (Ax.x.row { kind := .tsc, gx := 12, gy := 2, gz := 2, box := 12, off := 1/2 } cv.1 ∈ [11, 0, 1]))) = true := by
  decide +kernel

/-! ### C17's output, stripe by stripe -/

section Stripes
variable {α : Type}

/-- stripe `s` of the partitioned array is the slice `starts[s] : starts[s+1]` and holds exactly the
members of stripe `s`, in input order -/
theorem stripe_slice (np : Nat) (keyed : List (Nat × α)) (s : Nat) (hs : s < np) :
    Partition.slice (Partition.cur0 (keyed.map (·.1)) s) (Partition.cur0 (keyed.map (·.1)) (s + 1))
      (Partition.stable np keyed) = Partition.members keyed s := by
  obtain ⟨B, hB⟩ := Partition.stable_split np s keyed hs
  rw [hB, Partition.cur0_succ, ← Partition.stable_prefix_length]
  unfold Partition.slice
  rw [List.drop_left' rfl, Nat.add_sub_cancel_left, List.take_left' rfl]

theorem filter_lt_succ_perm (l : List (Nat × α)) (n : Nat) :
    (l.filter (fun ka => ka.1 < n + 1)).Perm
      (l.filter (fun ka => ka.1 < n) ++ l.filter (fun ka => ka.1 = n)) := by
  induction l with
  | nil => simp
  | cons ka r ih =>
    obtain ⟨k, a⟩ := ka
    by_cases h1 : k < n
    · have h2 : k < n + 1 := by omega
      have h3 : ¬ k = n := by omega
      simp only [List.filter_cons, h1, h2, h3, decide_true, decide_false, if_true, List.cons_append]
      exact List.Perm.cons _ ih
    · by_cases h2 : k = n
      · subst h2
        have h3 : k < k + 1 := by omega
        have h4 : ¬ k < k := by omega
        simp only [List.filter_cons, h3, h4, decide_true, decide_false, if_true]
        exact (List.Perm.cons _ ih).trans List.perm_middle.symm
      · have h3 : ¬ k < n + 1 := by omega
        simp only [List.filter_cons, h1, h2, h3, decide_false]
        exact ih

example : Partition.cur0 [0, 2, 1, 1, 0, 2, 0] 1 = 3 ∧ Partition.cur0 [0, 2, 1, 1, 0, 2, 0] 2 = 5 ∧
    Partition.slice 3 5 (Partition.stable 3 [(0, 10), (2, 11), (1, 12), (1, 13), (0, 14), (2, 15), (0, 16)]) =
      Partition.members [(0, 10), (2, 11), (1, 12), (1, 13), (0, 14), (2, 15), (0, 16)] 1 := by decide

/-- the stable partition is a permutation of the input rows -/
theorem stable_perm (np : Nat) (keyed : List (Nat × α)) (hk : Partition.KeysOK np keyed) :
    (Partition.stable np keyed).Perm (keyed.map (·.2)) := by
  have key : ∀ n, ((List.range n).flatMap (Partition.members keyed)).Perm
      ((keyed.filter (fun ka => ka.1 < n)).map (·.2)) := by
    intro n
    induction n with
    | zero => simp
    | succ n ih =>
      rw [List.range_succ, List.flatMap_append]
      simp only [List.flatMap_cons, List.flatMap_nil, List.append_nil]
      refine (List.Perm.append_right _ ih).trans ?_
      unfold Partition.members
      rw [← List.map_append]
      exact ((filter_lt_succ_perm keyed n).map _).symm
  have hall : keyed.filter (fun ka => ka.1 < np) = keyed := by
    rw [List.filter_eq_self]
    intro ka hka
    simpa using hk ka hka
  have := key np
  rwa [hall] at this

example : Partition.KeysOK 3 [(0, 10), (2, 11), (1, 12), (1, 13), (0, 14), (2, 15), (0, 16)] ∧
    Partition.stable 3 [(0, 10), (2, 11), (1, 12), (1, 13), (0, 14), (2, 15), (0, 16)] =
      [10, 14, 16, 12, 13, 11, 15] := by decide

theorem zip_map_self {β : Type} (f : α → β) (l : List α) : (l.map f).zip l = l.map (fun a => (f a, a)) := by
  induction l with
  | nil => rfl
  | cons a r ih => simp [ih]

end Stripes

/-! ### keys and stripes -/

/-- C17's key of a position is C07's stripe of the corresponding grid coordinate -/
theorem keyInt_eq_stripeOf (np g : Nat) (hg : 0 < g) (box x : ℚ) (hbox : box ≠ 0) :
    Partition.keyInt np box x = TscPar.stripeOf np g (x * g / box) := by
  have hgq : (g : ℚ) ≠ 0 := by exact_mod_cast (Nat.pos_iff_ne_zero.mp hg)
  unfold Partition.keyInt TscPar.stripeOf
  have : x * ((np : ℚ) / box) = x * g / box * ((np : ℚ) / (g : ℚ)) := by field_simp
  rw [this]

-- Box = 12, twelve cells, four stripes: x = 7 has key 2 and grid coordinate 7 in stripe 2; x = Box is clamped
example : Partition.keyInt 4 12 7 = 2 ∧ TscPar.stripeOf 4 12 (7 * 12 / 12) = 2 ∧
    Partition.keyInt 4 12 12 = 3 ∧ TscPar.stripeOf 4 12 (12 * 12 / 12) = 3 := by decide +kernel

/-- the key `partition_parallel` computes for a position `x ≥ 0` -/
def keyOf (np : Nat) (box x : ℚ) : Nat := min (x * np / box).floor.toNat (np - 1)

/-! ### C06's deposit as a list of atomic updates -/

theorem allWrites_flatMap (c : Mass.Cfg) (ps : List Mass.Particle)
    (h : ∀ pt ∈ ps, ∃ ws, Mass.particleWrites c pt = .ok ws) :
    Mass.allWrites c ps = .ok (ps.flatMap (pw c)) := by
  induction ps with
  | nil => rfl
  | cons pt r ih =>
    obtain ⟨ws, hws⟩ := h pt (by simp)
    have hr := ih (fun q hq => h q (by simp [hq]))
    rw [Mass.allWrites_cons_of hws hr]
    simp [pw, hws]

/-- the value the atomic updates leave in a cell: initial content plus everything sent to it -/
theorem applyAdds_apply (l : List (Nat × ℚ)) : ∀ (m : Mem ℚ) (i : Nat),
    applyAdds m l i = m i + Mass.contrib l i := by
  induction l with
  | nil => intro m i; simp [applyAdds, Mass.contrib]
  | cons cv r ih =>
    intro m i
    rw [TscPar.applyAdds_cons, ih, Mass.contrib_cons]
    simp only [Mem.set]
    by_cases h : i = cv.1
    · subst h; simp; ring
    · have h' : ¬ cv.1 = i := fun e => h e.symm
      simp [h, h']


theorem startsSpec_get (np : Nat) (keys : List Nat) (s : Nat) (h : s ≤ np) :
    (Partition.startsSpec np keys)[s]? = some (Partition.cur0 keys s) := by
  unfold Partition.startsSpec Partition.cur0
  rw [List.getElem?_map, List.getElem?_range (by omega)]
  rfl

theorem mem_members {α : Type} (keyed : List (Nat × α)) (s : Nat) (a : α) :
    a ∈ Partition.members keyed s ↔ (s, a) ∈ keyed := by
  unfold Partition.members
  simp only [List.mem_map, List.mem_filter, decide_eq_true_eq]
  constructor
  · rintro ⟨⟨k, a'⟩, ⟨hm, hk⟩, rfl⟩
    simp only at hk
    subst hk
    exact hm
  · intro h
    exact ⟨(s, a), ⟨h, rfl⟩, rfl⟩

/-! ### the composition -/

/-- a particle the theorem speaks about: inside the box along the partition axis, and inside the domain in
which C06's kernel does not fault on the other axes -/
def PartOK (c : Mass.Cfg) (ax : Ax) (pt : Mass.Particle) : Prop :=
  0 ≤ ax.pos pt ∧ ax.pos pt ≤ c.box ∧ Mass.InDomain c pt

/-- **tsc_parallel_eq_serial.**  The real pipeline, model by model: the keys are C17's `effKey` of the positions
along the partition axis; the particle list is partitioned by C17's `partition` (any thread count `T`, any
monotone thread blocks `b`, any uninitialised output buffer `init`); C07's `phases` turns that routine's
`starts` into the jobs of the two loops of `_tsc_parallel`; job `j` deposits the slice
`psort[starts[s] : starts[s+1]]` of THAT output with C06's TSC kernel (`Mass.allWrites` = the `+=` of
`Mass.scatter`, each performed as a separate load and store on the shared grid).  For an accepted stripe count
(`np = 1`, `np = 2`, or even with stripes at least three cells wide), positions in `[0, Box]` along the axis and
an offset between 0 and one cell, nothing faults and, for **every** schedule of the first loop followed by
**every** schedule of the second, the grid is, cell by cell, the grid C06's serial `scatter` of the ORIGINAL
particle list leaves. -/
theorem tsc_parallel_eq_serial (c : Mass.Cfg) (ax : Ax) (hk : c.kind = .tsc) (hc : Mass.GoodCfg c)
    (hbox : 0 < c.box) (np T : Nat) (hnp : 1 ≤ np)
    (hsafe : np = 1 ∨ np = 2 ∨ (2 ∣ np ∧ 3 * np ≤ ax.g c))
    (ho0 : 0 ≤ c.off * ((ax.g c : ℚ) / c.box)) (ho1 : c.off * ((ax.g c : ℚ) / c.box) ≤ 1)
    (parts : List Mass.Particle) (hparts : ∀ pt ∈ parts, PartOK c ax pt)
    (b : List Nat) (hT : 0 < T) (hb : Partition.BlocksOK T parts.length b)
    (init : List Mass.Particle) (hinit : init.length = parts.length) (grid : List ℚ) :
    ∃ keys o p1 p2 W1 W2 r,
      parts.mapM (fun pt => Partition.effKey np c.box (ax.pos pt)) = .ok keys ∧
      Partition.partition np T b (keys.zip parts) init none = .ok o ∧
      TscPar.phases o.starts = .ok (p1, p2) ∧
      p1.mapM (fun j => Mass.allWrites c (Partition.slice j.lo j.hi o.psort)) = .ok W1 ∧
      p2.mapM (fun j => Mass.allWrites c (Partition.slice j.lo j.hi o.psort)) = .ok W2 ∧
      Mass.scatter c grid parts = .ok r ∧
      ∀ (r0 : ℚ) (m : Mem ℚ), (∀ i (h : i < grid.length), m i = grid[i]) →
      ∀ (sched1 sched2 : List Nat),
        ((start r0 m (W1.map rmwProg)).run sched1).finished →
        ((start r0 ((start r0 m (W1.map rmwProg)).run sched1).mem (W2.map rmwProg)).run sched2).finished →
        ∀ i (h : i < r.length),
          ((start r0 ((start r0 m (W1.map rmwProg)).run sched1).mem (W2.map rmwProg)).run sched2).mem i = r[i] := by
  have hg : 0 < ax.g c := by
    obtain ⟨_, h1, h2, h3⟩ := hc
    cases ax <;> simp only [Ax.g] <;> omega
  have hgq : (0 : ℚ) < (ax.g c : ℚ) := by exact_mod_cast hg
  have hboxne : c.box ≠ 0 := ne_of_gt hbox
  -- keys
  let kf : Mass.Particle → Nat := fun pt => keyOf np c.box (ax.pos pt)
  have hkeys : parts.mapM (fun pt => Partition.effKey np c.box (ax.pos pt)) = .ok (parts.map kf) :=
    TscPar.mapM_except_ok _ kf parts
      (fun pt hpt => Partition.key_spec np c.box (ax.pos pt) hnp hbox (hparts pt hpt).1)
  have hkeyed : (parts.map kf).zip parts = parts.map (fun pt => (kf pt, pt)) := zip_map_self kf parts
  set keyed := (parts.map kf).zip parts with hkd
  have hmem : ∀ s pt, (s, pt) ∈ keyed ↔ pt ∈ parts ∧ kf pt = s := by
    intro s pt
    rw [hkeyed, List.mem_map]
    constructor
    · rintro ⟨q, hq, e⟩
      injection e with e1 e2
      subst e2
      exact ⟨hq, e1⟩
    · rintro ⟨hq, e⟩
      exact ⟨pt, hq, by rw [e]⟩
  have hkf : ∀ pt, kf pt < np := by
    intro pt
    have : kf pt ≤ np - 1 := min_le_right _ _
    omega
  have hKO : Partition.KeysOK np keyed := by
    intro ka hka
    obtain ⟨k, a⟩ := ka
    have := ((hmem k a).1 hka).2
    simp only
    rw [← this]
    exact hkf a
  have hklen : keyed.length = parts.length := by rw [hkeyed]; simp
  have hkfst : keyed.map (·.1) = parts.map kf := by rw [hkeyed]; simp [Function.comp_def]
  have hksnd : keyed.map (·.2) = parts := by rw [hkeyed]; simp [Function.comp_def]
  -- C17
  obtain ⟨o, ho, hps, hst, _⟩ := Partition.partition_stable np T b keyed init hnp hT
    (by rw [hklen]; exact hb) hKO (by rw [hklen]; exact hinit)
  rw [hkfst] at hst
  -- C07: the two loops
  have hl : o.starts.length = np + 1 := by rw [hst]; simp [Partition.startsSpec]
  obtain ⟨p1, p2, hph, hj, hs1, hs2⟩ := TscPar.phases_spec o.starts np hnp hl
  let S : Nat → List Mass.Particle := Partition.members keyed
  have hSmem : ∀ s pt, pt ∈ S s ↔ pt ∈ parts ∧ kf pt = s := fun s pt => by
    rw [← hmem]; exact mem_members keyed s pt
  have hnf : ∀ pt ∈ parts, ∃ ws, Mass.particleWrites c pt = .ok ws :=
    fun pt hpt => Mass.particle_no_fault hc (hparts pt hpt).2.2
  have hjob : ∀ j ∈ p1 ++ p2,
      Mass.allWrites c (Partition.slice j.lo j.hi o.psort) = .ok ((S j.stripe).flatMap (pw c)) := by
    intro j hjm
    obtain ⟨a1, a2, a3, a4, a5⟩ := hj j hjm
    have hs : j.stripe < np := by omega
    rw [hst, a2, startsSpec_get np _ j.stripe (by omega)] at a4
    rw [hst, a3, startsSpec_get np _ (j.stripe + 1) (by omega)] at a5
    injection a4 with a4
    injection a5 with a5
    rw [← a4, ← a5, hps, ← hkfst, stripe_slice np keyed j.stripe hs]
    exact allWrites_flatMap c _ (fun pt hpt => hnf pt ((hSmem _ pt).1 hpt).1)
  have hW1 : p1.mapM (fun j => Mass.allWrites c (Partition.slice j.lo j.hi o.psort)) =
      .ok (p1.map (fun j => (S j.stripe).flatMap (pw c))) :=
    TscPar.mapM_except_ok _ _ p1 (fun j hjm => hjob j (List.mem_append_left _ hjm))
  have hW2 : p2.mapM (fun j => Mass.allWrites c (Partition.slice j.lo j.hi o.psort)) =
      .ok (p2.map (fun j => (S j.stripe).flatMap (pw c))) :=
    TscPar.mapM_except_ok _ _ p2 (fun j hjm => hjob j (List.mem_append_right _ hjm))
  have eW1 : p1.map (fun j => (S j.stripe).flatMap (pw c)) =
      (List.range ((np + 1) / 2)).map (fun i => (S (2 * i)).flatMap (pw c)) := by
    have : p1.map (fun j => (S j.stripe).flatMap (pw c)) =
        (p1.map (·.stripe)).map (fun s => (S s).flatMap (pw c)) := by rw [List.map_map]; rfl
    rw [this, hs1, List.map_map]; rfl
  have eW2 : p2.map (fun j => (S j.stripe).flatMap (pw c)) =
      (List.range (np / 2)).map (fun i => (S (2 * i + 1)).flatMap (pw c)) := by
    have : p2.map (fun j => (S j.stripe).flatMap (pw c)) =
        (p2.map (·.stripe)).map (fun s => (S s).flatMap (pw c)) := by rw [List.map_map]; rfl
    rw [this, hs2, List.map_map]; rfl
  -- C06: the serial deposit of the original list
  obtain ⟨r, hr⟩ := Mass.scatter_no_fault hc grid (fun pt hpt => (hparts pt hpt).2.2)
  refine ⟨parts.map kf, o, p1, p2, _, _, r, hkeys, ho, hph, hW1, hW2, hr, ?_⟩
  intro r0 m hm sched1 sched2 h1 h2 i hi
  rw [eW1] at h1
  rw [eW1, eW2] at h2
  rw [eW1, eW2]
  -- geometry of the stripes
  have hS : ∀ s, ∀ x ∈ S s, 0 ≤ ax.pos x * (ax.g c : ℚ) / c.box ∧ ax.pos x * (ax.g c : ℚ) / c.box ≤ (ax.g c : ℚ) ∧
      TscPar.stripeOf np (ax.g c) (ax.pos x * (ax.g c : ℚ) / c.box) = s := by
    intro s x hx
    obtain ⟨hxp, hxs⟩ := (hSmem s x).1 hx
    obtain ⟨p0, p1', _⟩ := hparts x hxp
    refine ⟨by positivity, ?_, ?_⟩
    · rw [div_le_iff₀ hbox]
      nlinarith
    · rw [← keyInt_eq_stripeOf np (ax.g c) hg c.box (ax.pos x) hboxne,
        Partition.keyInt_nonneg np c.box (ax.pos x) hnp hbox p0]
      exact_mod_cast hxs
  have hdep : ∀ s, ∀ x ∈ S s, ∃ rw', TscPar.rowsOf (ax.g c)
        (ax.pos x * (ax.g c : ℚ) / c.box + c.off * ((ax.g c : ℚ) / c.box)) = .ok rw' ∧
      ∀ cv ∈ pw c x, ax.row c cv.1 ∈ rw' := by
    intro s x hx
    obtain ⟨hxp, _⟩ := (hSmem s x).1 hx
    obtain ⟨ws, hws⟩ := hnf x hxp
    have hgc : Mass.gridCoord c (ax.pos x) (ax.g c) =
        ax.pos x * (ax.g c : ℚ) / c.box + c.off * ((ax.g c : ℚ) / c.box) := by
      unfold Mass.gridCoord; rw [hk]; simp only; ring
    have hu : 0 ≤ Mass.gridCoord c (ax.pos x) (ax.g c) := by
      rw [hgc]
      have := (hS s x hx).1
      linarith
    obtain ⟨rw', h1', h2'⟩ := writes_rows_subset c hk hc ax x hu hws
    rw [hgc] at h1'
    refine ⟨rw', h1', ?_⟩
    have : pw c x = ws := by simp [pw, hws]
    rw [this]; exact h2'
  have hsafe' : np ≤ 2 ∨ (2 ∣ np ∧ 3 * np ≤ ax.g c) := by
    rcases hsafe with h | h | h
    · left; omega
    · left; omega
    · right; exact h
  rw [TscPar.parallel_eq_serial (ax.g c) np (c.off * ((ax.g c : ℚ) / c.box)) hsafe' ho0 ho1
    (fun x => ax.pos x * (ax.g c : ℚ) / c.box) (pw c) (ax.row c) S hS hdep r0 m sched1 sched2 h1 h2,
    TscPar.parallel_eq_serial_stripe_order np (pw c) S m, applyAdds_apply]
  -- the serial side: reorder by stripes (perm_invariant), then read the cell
  have hperm : (Partition.stable np keyed).Perm parts := by
    have := stable_perm np keyed hKO
    rwa [hksnd] at this
  have hr' : Mass.scatter c grid (Partition.stable np keyed) = .ok r := by
    rw [Mass.perm_invariant c grid hperm]; exact hr
  obtain ⟨W, hW, hrW⟩ := Mass.scatter_ok hr'
  have hWst : Mass.allWrites c (Partition.stable np keyed) = .ok ((Partition.stable np keyed).flatMap (pw c)) :=
    allWrites_flatMap c _ (fun pt hpt => hnf pt (hperm.subset hpt))
  rw [hWst] at hW
  injection hW with hW
  subst hW
  subst hrW
  have hi' : i < grid.length := by rwa [Mass.accumulate_length] at hi
  rw [Mass.accumulate_getElem _ _ _ hi', hm i hi']
  congr 2
  rw [Partition.stable_eq, List.flatMap_assoc]


/-! ### non-vacuity: a 12 x 2 x 2 grid, four stripes along x, half-cell offset, three particles (one at `Box`),
partitioned with two threads -/

def exC : Mass.Cfg := { kind := .tsc, gx := 12, gy := 2, gz := 2, box := 12, off := 1/2 }
def exP : List Mass.Particle :=
  [{ x := 7, y := 1, z := 0, w := 1 }, { x := 1, y := 0, z := 3, w := 2 }, { x := 12, y := 12, z := 12, w := 1/2 }]

theorem exP_ok : ∀ pt ∈ exP, PartOK exC .x pt := by
  intro pt hpt
  simp only [exP, List.mem_cons, List.not_mem_nil, or_false] at hpt
  rcases hpt with rfl | rfl | rfl <;>
    (unfold PartOK Mass.InDomain Mass.gridCoord; norm_num [exC, Ax.pos])

example : exP.mapM (fun pt => Partition.effKey 4 exC.box (Ax.x.pos pt)) = .ok [2, 0, 3] := by decide +kernel

example : ∃ keys o p1 p2 W1 W2 r,
    exP.mapM (fun pt => Partition.effKey 4 exC.box (Ax.x.pos pt)) = .ok keys ∧
    Partition.partition 4 2 [0, 1, 3] (keys.zip exP) exP none = .ok o ∧
    TscPar.phases o.starts = .ok (p1, p2) ∧
    p1.mapM (fun j => Mass.allWrites exC (Partition.slice j.lo j.hi o.psort)) = .ok W1 ∧
    p2.mapM (fun j => Mass.allWrites exC (Partition.slice j.lo j.hi o.psort)) = .ok W2 ∧
    Mass.scatter exC (List.replicate 48 0) exP = .ok r := by
  obtain ⟨keys, o, p1, p2, W1, W2, r, h1, h2, h3, h4, h5, h6, _⟩ :=
    tsc_parallel_eq_serial exC .x rfl (by unfold Mass.GoodCfg; norm_num [exC]) (by norm_num [exC]) 4 2
      (by omega) (Or.inr (Or.inr ⟨by decide, by decide⟩)) (by norm_num [exC, Ax.g]) (by norm_num [exC, Ax.g])
      exP exP_ok [0, 1, 3] (by omega) (by decide) exP rfl (List.replicate 48 0)
  exact ⟨keys, o, p1, p2, W1, W2, r, h1, h2, h3, h4, h5, h6⟩

end AbacusVerif.TscLink
