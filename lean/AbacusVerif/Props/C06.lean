/-
  C06 — mass assignment conserves weight and applies the TSC/CIC kernel.

  Property theorems about the model of `_tsc_scatter` / `cic_serial` / `_wrap_inplace`
  (Model/C06.lean), over exact rationals, for every particle list, every grid shape (anisotropic,
  third axis of size 1 included), every box, offset, weight and supplied grid.
-/
import AbacusVerif.Lemmas.C06Kernel
import Mathlib.Tactic.FieldSimp
import Mathlib.Algebra.BigOperators.Group.Finset.Basic

namespace AbacusVerif.Mass
open AbacusVerif

/-! ### per-axis weights -/

/-- the three TSC weights of an axis add up to one, wherever the particle is -/
theorem tsc_axis_weights_sum (p : ℚ) : (tscAxis p).wm + (tscAxis p).w0 + (tscAxis p).wp = 1 := tsc_sum p

/-- … and are non-negative (the nearest cell always receives at least one half) -/
theorem tsc_axis_weights_nonneg (p : ℚ) :
    0 ≤ (tscAxis p).wm ∧ 1/2 ≤ (tscAxis p).w0 ∧ 0 ≤ (tscAxis p).wp := by
  have h := abs_le.mp (rhe_close p)
  simp only [tscAxis]
  refine ⟨by positivity, by nlinarith [h.1, h.2], by positivity⟩

theorem cic_axis_weights_sum (p : ℚ) : (cicAxis p).wm + (cicAxis p).w0 + (cicAxis p).wp = 1 := cic_sum p

theorem cic_axis_weights_nonneg (p : ℚ) :
    0 ≤ (cicAxis p).wm ∧ 1/2 ≤ (cicAxis p).w0 ∧ 0 ≤ (cicAxis p).wp := by
  have h := abs_le.mp (rhe_close p)
  unfold cicAxis
  simp only [rabs]
  split_ifs with h1 h2 <;> simp only <;> refine ⟨?_, ?_, ?_⟩ <;> linarith

example : (tscAxis (7/4)).ix = 2 ∧ (tscAxis (7/4)).wm = 9/32 ∧ (tscAxis (7/4)).w0 = 11/16 ∧
    (tscAxis (7/4)).wp = 1/32 := by decide +kernel
example : (cicAxis (7/4)).ix = 2 ∧ (cicAxis (7/4)).wm = 1/4 ∧ (cicAxis (7/4)).w0 = 3/4 ∧
    (cicAxis (7/4)).wp = 0 := by decide +kernel

/-! ### the three subscripts of an axis -/

/-- **Whatever** non-negative nearest-cell index the (floating-point) rounding produced, the three
subscripts `ix-1, ix, ix+1` resolve to cells of the axis, namely to `(ix+δ) mod g` — for every `g ≥ 1`.
In-boundedness therefore does not depend on how the product `(x+offset)*inv_h` was rounded. -/
theorem axis_indices_inbounds_any_ix {g : ℕ} (hg : 1 ≤ g) {ix : ℤ} (hix : 0 ≤ ix) {δ : ℤ}
    (hδ : δ = -1 ∨ δ = 0 ∨ δ = 1) :
    cellOf g (ix + δ) = .ok ((ix + δ) % (g : ℤ)).toNat ∧ ((ix + δ) % (g : ℤ)).toNat < g := by
  have h := cellOf_eq hg (i := ix + δ) (by omega)
  exact ⟨h, cellOf_lt h⟩

/-- With exact arithmetic: for every axis of `g ≥ 1` cells and every grid coordinate `p ≥ -g + 1`
(no upper bound: the wrap loop removes as many periods as needed) the three subscripts of both kernels
resolve to `(round(p)+δ) mod g`. -/
theorem axis_indices_inbounds {g : ℕ} (hg : 1 ≤ g) {p : ℚ} (hp : -(g : ℚ) + 1 ≤ p) {δ : ℤ}
    (hδ : δ = -1 ∨ δ = 0 ∨ δ = 1) :
    cellOf g (rhe p + δ) = .ok ((rhe p + δ) % (g : ℤ)).toNat ∧ ((rhe p + δ) % (g : ℤ)).toNat < g := by
  have h1 : -(g : ℤ) + 1 ≤ rhe p := rhe_ge_of_domain hp
  have h := cellOf_eq hg (i := rhe p + δ) (by omega)
  exact ⟨h, cellOf_lt h⟩

/-- the hypothesis `p ≥ -g + 1` cannot be dropped: one cell further left the left neighbour is `-g-1` -/
example : cellOf 3 (rhe (-3) - 1) = .error .oob := by decide +kernel
example : cellOf 2 (rhe (5/2 + 1/1000) + 1) = .ok 0 := by decide +kernel   -- ix = 3, ixp1 = 4: two periods
example : cellOf 3 (rhe (-1/2) - 1) = .ok 2 := by decide +kernel

/-! ### the kernel -/

/-- **TSC.**  For every cell `c` of an axis of `g ≥ 1` cells, the total weight the code sends to `c` equals the
sum of the documented piecewise-quadratic kernel over the periodic images of `c`, for any finite set `K` of
images that contains every image within the kernel's support — in particular it does not depend on how a
half-cell tie is rounded. -/
theorem tsc_axis_is_kernel {g : ℕ} (hg : 1 ≤ g) {p : ℚ} (hp : -(g : ℚ) + 1 ≤ p) {c : ℕ} (hc : c < g)
    (K : Finset ℤ) (hK : Covers (3/2) g p c K) :
    ∃ R, resolve g (tscAxis p) = .ok R ∧ R.weightAt c = imageSum Wtsc g p c K :=
  ⟨_, resolve_in_domain hg .tsc hp, tsc_weightAt_eq hg hp hc K hK⟩

/-- **CIC**, with the kernel `max(0, 1 - |u|)`. -/
theorem cic_axis_is_kernel {g : ℕ} (hg : 1 ≤ g) {p : ℚ} (hp : -(g : ℚ) + 1 ≤ p) {c : ℕ} (hc : c < g)
    (K : Finset ℤ) (hK : Covers 1 g p c K) :
    ∃ R, resolve g (cicAxis p) = .ok R ∧ R.weightAt c = imageSum Wcic g p c K :=
  ⟨_, resolve_in_domain hg .cic hp, cic_weightAt_eq hg hp hc K hK⟩

/-- a covering set of images always exists, so the two theorems above are not vacuous -/
theorem covers_exists (s : ℚ) {g : ℕ} (hg : 1 ≤ g) (p : ℚ) (c : ℕ) : ∃ K : Finset ℤ, Covers s g p c K :=
  covers_Icc s hg p c

example : ∃ R, resolve 4 (tscAxis (7/2)) = .ok R ∧
    R.weightAt 0 = Wtsc (0 - 7/2) + Wtsc (4 - 7/2) ∧ R.weightAt 0 = 1/2 := by
  have hK : Covers (3/2) 4 (7/2) 0 {0, 1} := by
    intro k hk
    rw [abs_lt] at hk
    have h1 : (k : ℚ) < 5/4 := by push_cast at hk; linarith [hk.2]
    have h2 : (1/2 : ℚ) < k := by push_cast at hk; linarith [hk.1]
    have h3 : k < 2 := by
      have : (k : ℚ) < 2 := by linarith
      exact_mod_cast this
    have h4 : 0 < k := by
      have : (0 : ℚ) < k := by linarith
      exact_mod_cast this
    simp; omega
  obtain ⟨R, hR, hw⟩ := tsc_axis_is_kernel (g := 4) (by norm_num) (p := 7/2) (by norm_num) (c := 0) (by norm_num) _ hK
  refine ⟨R, hR, ?_, ?_⟩
  · rw [hw]; simp [imageSum]
  · rw [hw]; simp [imageSum, Wtsc]; norm_num [abs_of_neg, abs_of_pos]

/-! ### the whole deposit -/

/-- a configuration the kernels accept: non-zero box, no empty axis -/
def GoodCfg (c : Cfg) : Prop := c.box ≠ 0 ∧ 1 ≤ c.gx ∧ 1 ≤ c.gy ∧ 1 ≤ c.gz

/-- the particle's grid coordinates are not more than `g - 1` cells to the left of the grid
(positions in `[0, Box]` with a non-negative offset satisfy this; there is no upper limit) -/
def InDomain (c : Cfg) (pt : Particle) : Prop :=
  -(c.gx : ℚ) + 1 ≤ gridCoord c pt.x c.gx ∧ -(c.gy : ℚ) + 1 ≤ gridCoord c pt.y c.gy ∧
    (c.gz ≠ 1 → -(c.gz : ℚ) + 1 ≤ gridCoord c pt.z c.gz)

theorem particle_no_fault {c : Cfg} (hc : GoodCfg c) {pt : Particle} (hd : InDomain c pt) :
    ∃ ws, particleWrites c pt = .ok ws := by
  obtain ⟨hb, hx, hy, hz⟩ := hc
  obtain ⟨dx, dy, dz⟩ := hd
  have hX := resolve_in_domain hx c.kind dx
  have hY := resolve_in_domain hy c.kind dy
  by_cases h1 : c.gz = 1
  · exact ⟨_, particleWrites_2d hb h1 hX hY⟩
  · exact ⟨_, particleWrites_3d hb h1 hX hY (resolve_in_domain hz c.kind (dz h1))⟩

/-- **No fault inside the domain**, for every grid shape with non-empty axes (2-cell and 1-cell axes included). -/
theorem scatter_no_fault {c : Cfg} (hc : GoodCfg c) (grid : List ℚ) {parts : List Particle}
    (hd : ∀ pt ∈ parts, InDomain c pt) : ∃ r, scatter c grid parts = .ok r := by
  have hall : ∃ W, allWrites c parts = .ok W := by
    induction parts with
    | nil => exact ⟨[], rfl⟩
    | cons pt ps ih =>
      obtain ⟨ws, hws⟩ := particle_no_fault hc (hd pt (by simp))
      obtain ⟨r, hr⟩ := ih (fun q hq => hd q (by simp [hq]))
      exact ⟨_, allWrites_cons_of hws hr⟩
  obtain ⟨W, hW⟩ := hall
  rw [scatter_eq, hW]
  have : ¬ (c.kind = .tsc ∧ c.box = 0) := fun h => hc.1 h.2
  simp only [this, if_false]
  exact ⟨_, rfl⟩

/-- what `scatter` returns when it does not fault: the supplied grid plus all `+=` of all particles -/
theorem scatter_ok {c : Cfg} {grid r : List ℚ} {parts : List Particle} (h : scatter c grid parts = .ok r) :
    ∃ W, allWrites c parts = .ok W ∧ r = accumulate grid W := by
  rw [scatter_eq] at h
  split_ifs at h
  cases hW : allWrites c parts with
  | error e => rw [hW] at h; cases h
  | ok W => rw [hW] at h; cases h; exact ⟨W, rfl, rfl⟩

/-- **total_conserved.**  Whenever the deposit does not fault, the grid total increases by exactly the
total weight — for both kernels, every shape, offset, supplied grid and particle position. -/
theorem total_conserved (c : Cfg) (grid r : List ℚ) (parts : List Particle)
    (hlen : grid.length = c.gx * c.gy * c.gz) (h : scatter c grid parts = .ok r) :
    r.sum = grid.sum + (parts.map (·.w)).sum ∧ r.length = grid.length := by
  obtain ⟨W, hW, rfl⟩ := scatter_ok h
  obtain ⟨h1, h2, _⟩ := allWrites_props hW
  refine ⟨?_, accumulate_length _ _⟩
  rw [sum_accumulate _ _ (by rw [hlen]; exact h1), h2]

/-- **deposit_nonneg.**  With non-negative weights no cell decreases. -/
theorem deposit_nonneg (c : Cfg) (grid r : List ℚ) (parts : List Particle)
    (hw : ∀ pt ∈ parts, 0 ≤ pt.w) (h : scatter c grid parts = .ok r) :
    ∀ (i : ℕ) (x y : ℚ), grid[i]? = some x → r[i]? = some y → x ≤ y := by
  obtain ⟨W, hW, rfl⟩ := scatter_ok h
  obtain ⟨_, _, h3⟩ := allWrites_props hW
  intro i x y hx hy
  rw [accumulate_getElem?, hx] at hy
  simp only [Option.map_some, Option.some.injEq] at hy
  have : 0 ≤ contrib W i := contrib_nonneg (h3 hw) i
  linarith

/-- **additive.**  Depositing `ps ++ qs` onto a supplied grid gives the supplied grid plus the deposit of `ps`
onto zeros plus the deposit of `qs` onto zeros, cell by cell. -/
theorem additive (c : Cfg) (grid a b : List ℚ) (ps qs : List Particle) {n : ℕ} (hn : grid.length = n)
    (ha : scatter c (List.replicate n 0) ps = .ok a) (hb : scatter c (List.replicate n 0) qs = .ok b) :
    scatter c grid (ps ++ qs) = .ok (List.zipWith (· + ·) (List.zipWith (· + ·) grid a) b) := by
  obtain ⟨wa, hwa, rfl⟩ := scatter_ok ha
  obtain ⟨wb, hwb, rfl⟩ := scatter_ok hb
  have hbox : ¬ (c.kind = .tsc ∧ c.box = 0) := by
    intro hh; rw [scatter_eq] at ha; simp [hh] at ha
  rw [scatter_eq, allWrites_append hwa hwb]
  simp only [hbox, if_false, Except.map]
  congr 1
  apply List.ext_getElem
  · simp [accumulate_length, hn]
  · intro i h1 h2
    rw [accumulate_length] at h1
    rw [accumulate_getElem _ _ _ h1, List.getElem_zipWith, List.getElem_zipWith,
      accumulate_getElem _ _ _ (by simpa [hn] using h1), accumulate_getElem _ _ _ (by simpa [hn] using h1),
      contrib_append]
    simp only [List.getElem_replicate]
    ring

/-- sequential form: depositing `ps ++ qs` is depositing `qs` onto the result of depositing `ps` -/
theorem additive_seq (c : Cfg) (grid : List ℚ) (ps qs : List Particle) :
    scatter c grid (ps ++ qs) = scatter c grid ps >>= fun g => scatter c g qs := by
  unfold scatter
  by_cases h : c.kind = .tsc ∧ c.box = 0
  · simp only [h, and_self, if_true]; rfl
  · simp only [h, if_false, List.foldlM_append]

/-- **perm_invariant.**  The result — grid or fault — does not depend on the order of the particles. -/
theorem perm_invariant (c : Cfg) (grid : List ℚ) {ps qs : List Particle} (h : ps.Perm qs) :
    scatter c grid ps = scatter c grid qs := by
  rw [scatter_eq, scatter_eq]
  split_ifs
  · rfl
  cases ha : allWrites c ps with
  | ok wa =>
    obtain ⟨wb, hb, hp⟩ := allWrites_perm h ha
    rw [hb]
    simp only [Except.map]
    congr 1
    exact accumulate_congr grid (fun i => contrib_perm hp i)
  | error e =>
    cases hb : allWrites c qs with
    | ok wb =>
      obtain ⟨wa, ha', _⟩ := allWrites_perm h.symm hb
      rw [ha] at ha'; cases ha'
    | error e' => rw [allWrites_error ha, allWrites_error hb]

/-! ### the deposit is the separable kernel -/

/-- the documented kernel and its support radius, per assignment scheme -/
def kern : Kind → ℚ → ℚ
  | .tsc => Wtsc
  | .cic => Wcic

def supp : Kind → ℚ
  | .tsc => 3/2
  | .cic => 1

theorem kind_weightAt_eq (k : Kind) {g : ℕ} (hg : 1 ≤ g) {p : ℚ} (hp : -(g : ℚ) + 1 ≤ p) {c : ℕ} (hc : c < g)
    (K : Finset ℤ) (hK : Covers (supp k) g p c K) :
    (modAxis g (axisOf k p)).weightAt c = imageSum (kern k) g p c K := by
  cases k
  · exact tsc_weightAt_eq hg hp hc K hK
  · exact cic_weightAt_eq hg hp hc K hK

/-- **deposit_is_kernel** (3-d, anisotropic).  Inside the domain one particle sends to every cell `(i, j, k)`
its weight times the product of the three periodic kernel sums — for TSC and CIC, any shape `gx, gy, gz ≥ 1`
with `gz ≠ 1`, any offset, and any covering sets of images. -/
theorem deposit_is_kernel {c : Cfg} (hc : GoodCfg c) (h3 : c.gz ≠ 1) {pt : Particle} (hd : InDomain c pt) :
    ∃ ws, particleWrites c pt = .ok ws ∧
      ∀ i j k, i < c.gx → j < c.gy → k < c.gz → ∀ Kx Ky Kz : Finset ℤ,
        Covers (supp c.kind) c.gx (gridCoord c pt.x c.gx) i Kx →
        Covers (supp c.kind) c.gy (gridCoord c pt.y c.gy) j Ky →
        Covers (supp c.kind) c.gz (gridCoord c pt.z c.gz) k Kz →
        contrib ws (flat c.gy c.gz i j k) =
          imageSum (kern c.kind) c.gx (gridCoord c pt.x c.gx) i Kx *
          imageSum (kern c.kind) c.gy (gridCoord c pt.y c.gy) j Ky *
          imageSum (kern c.kind) c.gz (gridCoord c pt.z c.gz) k Kz * pt.w := by
  obtain ⟨hb, hx, hy, hz⟩ := hc
  obtain ⟨dx, dy, dz⟩ := hd
  have hX := resolve_in_domain hx c.kind dx
  have hY := resolve_in_domain hy c.kind dy
  have hZ := resolve_in_domain hz c.kind (dz h3)
  refine ⟨_, particleWrites_3d hb h3 hX hY hZ, ?_⟩
  intro i j k hi hj hk Kx Ky Kz cx cy cz
  rw [contrib_writes27 _ _ _ _ (resolve_cell_lt hY) (resolve_cell_lt hZ) hj hk,
    kind_weightAt_eq c.kind hx dx hi Kx cx, kind_weightAt_eq c.kind hy dy hj Ky cy,
    kind_weightAt_eq c.kind hz (dz h3) hk Kz cz]

/-- the 2-d mode (third axis of one cell): the product of the two in-plane kernel sums -/
theorem deposit_is_kernel_2d {c : Cfg} (hc : GoodCfg c) (h1 : c.gz = 1) {pt : Particle} (hd : InDomain c pt) :
    ∃ ws, particleWrites c pt = .ok ws ∧
      ∀ i j, i < c.gx → j < c.gy → ∀ Kx Ky : Finset ℤ,
        Covers (supp c.kind) c.gx (gridCoord c pt.x c.gx) i Kx →
        Covers (supp c.kind) c.gy (gridCoord c pt.y c.gy) j Ky →
        contrib ws (flat c.gy c.gz i j 0) =
          imageSum (kern c.kind) c.gx (gridCoord c pt.x c.gx) i Kx *
          imageSum (kern c.kind) c.gy (gridCoord c pt.y c.gy) j Ky * pt.w := by
  obtain ⟨hb, hx, hy, _⟩ := hc
  obtain ⟨dx, dy, _⟩ := hd
  have hX := resolve_in_domain hx c.kind dx
  have hY := resolve_in_domain hy c.kind dy
  refine ⟨_, particleWrites_2d hb h1 hX hY, ?_⟩
  intro i j hi hj Kx Ky cx cy
  rw [h1, contrib_writes9 _ _ _ (resolve_cell_lt hY) hj,
    kind_weightAt_eq c.kind hx dx hi Kx cx, kind_weightAt_eq c.kind hy dy hj Ky cy]

/-- what one particle sends to a flat cell (zero if its iteration faults) -/
def dep (c : Cfg) (pt : Particle) (cell : ℕ) : ℚ :=
  match particleWrites c pt with
  | .ok ws => contrib ws cell
  | .error _ => 0

theorem allWrites_contrib {c : Cfg} {ps : List Particle} {W : List (ℕ × ℚ)} (hW : allWrites c ps = .ok W)
    (cell : ℕ) : contrib W cell = (ps.map (fun pt => dep c pt cell)).sum := by
  induction ps generalizing W with
  | nil => cases hW; rfl
  | cons pt ps ih =>
    obtain ⟨ws, r', h1, h2, rfl⟩ := allWrites_cons_ok hW
    rw [contrib_append, ih h2, List.map_cons, List.sum_cons]
    congr 1
    unfold dep; rw [h1]

/-- **superposition.**  The deposit of a particle list onto a supplied grid is, cell by cell, the supplied value
plus the sum of the single-particle deposits (each given by `deposit_is_kernel`). -/
theorem deposit_superposition (c : Cfg) (grid r : List ℚ) (parts : List Particle)
    (h : scatter c grid parts = .ok r) (cell : ℕ) :
    r[cell]? = grid[cell]?.map (· + (parts.map (fun pt => dep c pt cell)).sum) := by
  obtain ⟨W, hW, rfl⟩ := scatter_ok h
  rw [accumulate_getElem?, allWrites_contrib hW]

/-! ### roll equivariance -/

theorem imageSum_shift (W : ℚ → ℚ) (g : ℕ) (p : ℚ) (c c' : ℕ) (s m q : ℤ)
    (hc' : (c' : ℤ) = (c : ℤ) + s - q * (g : ℤ)) (K' : Finset ℤ) :
    imageSum W g (p + s - m * g) c' K' = imageSum W g p c (K'.image (fun k => k + (m - q))) := by
  unfold imageSum
  rw [Finset.sum_image (by intro x _ y _ h; exact add_right_cancel h)]
  apply Finset.sum_congr rfl
  intro k _
  congr 1
  have : (c' : ℚ) = (c : ℚ) + s - q * g := by exact_mod_cast hc'
  rw [this]; push_cast; ring

theorem covers_shift {sup : ℚ} {g : ℕ} {p : ℚ} {c c' : ℕ} {s m q : ℤ}
    (hc' : (c' : ℤ) = (c : ℤ) + s - q * (g : ℤ)) {K' : Finset ℤ}
    (hK' : Covers sup g (p + s - m * g) c' K') : Covers sup g p c (K'.image (fun k => k + (m - q))) := by
  intro k hk
  rw [Finset.mem_image]
  refine ⟨k - (m - q), hK' _ ?_, by ring⟩
  have hq : (c' : ℚ) = (c : ℚ) + s - q * g := by exact_mod_cast hc'
  have : (c' : ℚ) + ((k - (m - q) : ℤ) : ℚ) * g - (p + s - m * g) = (c : ℚ) + k * g - p := by
    rw [hq]; push_cast; ring
  rw [this]; exact hk

/-- **axis_roll_equivariant.**  Moving a particle by `s` whole cells, and by any number `m` of whole periods
(periodic wrap, also across the boundary and onto `p = g`), moves what it sends to cell `c` to cell
`(c + s) mod g` — for both kernels, including at half-cell ties where the two positions round differently. -/
theorem axis_roll_equivariant (k : Kind) {g : ℕ} (hg : 1 ≤ g) {p : ℚ} (hp : -(g : ℚ) + 1 ≤ p) (s m : ℤ)
    (hp' : -(g : ℚ) + 1 ≤ p + s - m * g) {c : ℕ} (hc : c < g) :
    (modAxis g (axisOf k (p + s - m * g))).weightAt (((c : ℤ) + s) % (g : ℤ)).toNat =
      (modAxis g (axisOf k p)).weightAt c := by
  have hg' : (0 : ℤ) < (g : ℤ) := by exact_mod_cast hg
  have hm0 := Int.emod_nonneg ((c : ℤ) + s) (ne_of_gt hg')
  have hm1 := Int.emod_lt_of_pos ((c : ℤ) + s) hg'
  have hdm := Int.emod_add_mul_ediv ((c : ℤ) + s) (g : ℤ)
  have hc'lt : (((c : ℤ) + s) % (g : ℤ)).toNat < g := by omega
  have hc'eq : (((((c : ℤ) + s) % (g : ℤ)).toNat : ℕ) : ℤ) =
      (c : ℤ) + s - (((c : ℤ) + s) / (g : ℤ)) * (g : ℤ) := by
    rw [Int.toNat_of_nonneg hm0]; linarith
  obtain ⟨K', hK'⟩ := covers_Icc (supp k) hg (p + s - m * g) (((c : ℤ) + s) % (g : ℤ)).toNat
  rw [kind_weightAt_eq k hg hp' hc'lt K' hK', imageSum_shift _ g p c _ s m _ hc'eq K',
    ← kind_weightAt_eq k hg hp hc _ (covers_shift hc'eq hK')]

theorem gridCoord_shift (c : Cfg) (hb : c.box ≠ 0) {g : ℕ} (hg : 1 ≤ g) (x : ℚ) (s m : ℤ) :
    gridCoord c (x + s * (c.box / g) - m * c.box) g = gridCoord c x g + s - m * g := by
  have hg0 : (g : ℚ) ≠ 0 := Nat.cast_ne_zero.mpr (by omega)
  unfold gridCoord
  split <;> (field_simp; try ring)

theorem emod_toNat_lt {g : ℕ} (hg : 1 ≤ g) (t : ℤ) : (t % (g : ℤ)).toNat < g := by
  have hg' : (0 : ℤ) < (g : ℤ) := by exact_mod_cast hg
  have := Int.emod_nonneg t (ne_of_gt hg')
  have := Int.emod_lt_of_pos t hg'
  omega

/-- **roll_equivariant.**  Shift a particle by `(sx, sy, sz)` whole cells and wrap it periodically by any whole
numbers of boxes: what it sent to cell `(i, j, k)` it now sends to `((i+sx) mod gx, (j+sy) mod gy, (k+sz) mod gz)`
— the single-particle deposit rolls with the shift (3-d, anisotropic, TSC and CIC); by `deposit_superposition`
so does the deposit of any particle list onto a zero grid. -/
theorem roll_equivariant {c : Cfg} (hc : GoodCfg c) (h3 : c.gz ≠ 1) {pt pt' : Particle}
    (sx sy sz mx my mz : ℤ)
    (hx' : pt'.x = pt.x + sx * (c.box / c.gx) - mx * c.box)
    (hy' : pt'.y = pt.y + sy * (c.box / c.gy) - my * c.box)
    (hz' : pt'.z = pt.z + sz * (c.box / c.gz) - mz * c.box) (hw : pt'.w = pt.w)
    (hd : InDomain c pt) (hd' : InDomain c pt') :
    ∃ ws ws', particleWrites c pt = .ok ws ∧ particleWrites c pt' = .ok ws' ∧
      ∀ i j k, i < c.gx → j < c.gy → k < c.gz →
        contrib ws' (flat c.gy c.gz (((i : ℤ) + sx) % (c.gx : ℤ)).toNat (((j : ℤ) + sy) % (c.gy : ℤ)).toNat
            (((k : ℤ) + sz) % (c.gz : ℤ)).toNat) =
          contrib ws (flat c.gy c.gz i j k) := by
  obtain ⟨hb, hx, hy, hz⟩ := hc
  obtain ⟨dx, dy, dz⟩ := hd
  obtain ⟨dx', dy', dz'⟩ := hd'
  have dz := dz h3
  have dz' := dz' h3
  have hX := resolve_in_domain hx c.kind dx
  have hY := resolve_in_domain hy c.kind dy
  have hZ := resolve_in_domain hz c.kind dz
  have hX' := resolve_in_domain hx c.kind dx'
  have hY' := resolve_in_domain hy c.kind dy'
  have hZ' := resolve_in_domain hz c.kind dz'
  refine ⟨_, _, particleWrites_3d hb h3 hX hY hZ, particleWrites_3d hb h3 hX' hY' hZ', ?_⟩
  intro i j k hi hj hk
  rw [contrib_writes27 _ _ _ _ (resolve_cell_lt hY') (resolve_cell_lt hZ') (emod_toNat_lt hy _) (emod_toNat_lt hz _),
    contrib_writes27 _ _ _ _ (resolve_cell_lt hY) (resolve_cell_lt hZ) hj hk, hw]
  rw [hx', gridCoord_shift c hb hx] at dx' ⊢
  rw [hy', gridCoord_shift c hb hy] at dy' ⊢
  rw [hz', gridCoord_shift c hb hz] at dz' ⊢
  rw [axis_roll_equivariant c.kind hx dx sx mx dx' hi, axis_roll_equivariant c.kind hy dy sy my dy' hj,
    axis_roll_equivariant c.kind hz dz sz mz dz' hk]

/-! ### roll equivariance of a whole deposit -/

/-- `pt'` is `pt` moved by `(sx, sy, sz)` whole cells and wrapped periodically by some whole numbers of boxes -/
def Shifted (c : Cfg) (sx sy sz : ℤ) (pt pt' : Particle) : Prop :=
  ∃ mx my mz : ℤ, pt'.x = pt.x + sx * (c.box / c.gx) - mx * c.box ∧
    pt'.y = pt.y + sy * (c.box / c.gy) - my * c.box ∧
    pt'.z = pt.z + sz * (c.box / c.gz) - mz * c.box ∧ pt'.w = pt.w

/-- the cell `(i, j, k)` rolled by `(sx, sy, sz)` -/
def rollCell (c : Cfg) (sx sy sz : ℤ) (i j k : ℕ) : ℕ :=
  flat c.gy c.gz (((i : ℤ) + sx) % (c.gx : ℤ)).toNat (((j : ℤ) + sy) % (c.gy : ℤ)).toNat
    (((k : ℤ) + sz) % (c.gz : ℤ)).toNat

theorem rollCell_lt {c : Cfg} (hc : GoodCfg c) (sx sy sz : ℤ) (i j k : ℕ) :
    rollCell c sx sy sz i j k < c.gx * c.gy * c.gz :=
  flat_lt (emod_toNat_lt hc.2.1 _) (emod_toNat_lt hc.2.2.1 _) (emod_toNat_lt hc.2.2.2 _)

/-- one particle, both modes (3-d and third axis of one cell): the shifted particle's deposit is the rolled deposit -/
theorem dep_roll {c : Cfg} (hc : GoodCfg c) {sx sy sz : ℤ} {pt pt' : Particle} (hS : Shifted c sx sy sz pt pt')
    (hd : InDomain c pt) (hd' : InDomain c pt') {i j k : ℕ} (hi : i < c.gx) (hj : j < c.gy) (hk : k < c.gz) :
    dep c pt' (rollCell c sx sy sz i j k) = dep c pt (flat c.gy c.gz i j k) := by
  obtain ⟨mx, my, mz, hx', hy', hz', hw⟩ := hS
  by_cases h3 : c.gz = 1
  · -- 2-d mode: nine statements, `izw = 0`
    obtain ⟨hb, hx, hy, hz⟩ := hc
    obtain ⟨dx, dy, _⟩ := hd
    obtain ⟨dx', dy', _⟩ := hd'
    have hX := resolve_in_domain hx c.kind dx
    have hY := resolve_in_domain hy c.kind dy
    have hX' := resolve_in_domain hx c.kind dx'
    have hY' := resolve_in_domain hy c.kind dy'
    have hk0 : k = 0 := by omega
    subst hk0
    unfold dep rollCell
    rw [particleWrites_2d hb h3 hX hY, particleWrites_2d hb h3 hX' hY']
    simp only [h3, Nat.cast_one, Int.emod_one, Int.toNat_zero]
    rw [contrib_writes9 _ _ _ (resolve_cell_lt hY') (emod_toNat_lt hy _),
      contrib_writes9 _ _ _ (resolve_cell_lt hY) hj, hw]
    rw [hx', gridCoord_shift c hb hx] at dx' ⊢
    rw [hy', gridCoord_shift c hb hy] at dy' ⊢
    rw [axis_roll_equivariant c.kind hx dx sx mx dx' hi, axis_roll_equivariant c.kind hy dy sy my dy' hj]
  · obtain ⟨ws, ws', h1, h2, h⟩ := roll_equivariant hc h3 sx sy sz mx my mz hx' hy' hz' hw hd hd'
    unfold dep rollCell
    rw [h1, h2]
    exact h i j k hi hj hk

theorem dep_sum_roll {c : Cfg} (hc : GoodCfg c) {sx sy sz : ℤ} {ps ps' : List Particle}
    (hS : List.Forall₂ (Shifted c sx sy sz) ps ps') (hd : ∀ pt ∈ ps, InDomain c pt)
    (hd' : ∀ pt ∈ ps', InDomain c pt) {i j k : ℕ} (hi : i < c.gx) (hj : j < c.gy) (hk : k < c.gz) :
    (ps'.map (fun pt => dep c pt (rollCell c sx sy sz i j k))).sum =
      (ps.map (fun pt => dep c pt (flat c.gy c.gz i j k))).sum := by
  induction hS with
  | nil => rfl
  | cons h _ ih =>
    simp only [List.map_cons, List.sum_cons]
    rw [dep_roll hc h (hd _ (by simp)) (hd' _ (by simp)) hi hj hk,
      ih (fun q hq => hd q (by simp [hq])) (fun q hq => hd' q (by simp [hq]))]

/-- **roll_equivariant (particle lists, supplied grids).**  Shift every particle of a list by `(sx, sy, sz)` whole
cells, each wrapped periodically by its own whole number of boxes.  Then, for TSC and CIC, every shape with
`gx, gy, gz ≥ 1` (third axis of one cell included) and any two supplied grids, the amount `D` deposited into cell
`(i, j, k)` by the original list is exactly the amount deposited into the rolled cell by the shifted list. -/
theorem roll_equivariant_list {c : Cfg} (hc : GoodCfg c) (sx sy sz : ℤ) {ps ps' : List Particle}
    (hS : List.Forall₂ (Shifted c sx sy sz) ps ps') (hd : ∀ pt ∈ ps, InDomain c pt)
    (hd' : ∀ pt ∈ ps', InDomain c pt) (grid grid' : List ℚ) :
    ∃ r r', scatter c grid ps = .ok r ∧ scatter c grid' ps' = .ok r' ∧
      ∀ i j k, i < c.gx → j < c.gy → k < c.gz → ∃ D : ℚ,
        r[flat c.gy c.gz i j k]? = grid[flat c.gy c.gz i j k]?.map (· + D) ∧
        r'[rollCell c sx sy sz i j k]? = grid'[rollCell c sx sy sz i j k]?.map (· + D) := by
  obtain ⟨r, hr⟩ := scatter_no_fault hc grid hd
  obtain ⟨r', hr'⟩ := scatter_no_fault hc grid' hd'
  refine ⟨r, r', hr, hr', ?_⟩
  intro i j k hi hj hk
  refine ⟨_, deposit_superposition c grid r ps hr _, ?_⟩
  rw [deposit_superposition c grid' r' ps' hr', dep_sum_roll hc hS hd hd' hi hj hk]

/-- … in particular a supplied grid that is itself rolled gives the rolled result, and (taking both grids zero)
the deposit onto a zero grid of the shifted particles is the rolled deposit. -/
theorem roll_equivariant_grid {c : Cfg} (hc : GoodCfg c) (sx sy sz : ℤ) {ps ps' : List Particle}
    (hS : List.Forall₂ (Shifted c sx sy sz) ps ps') (hd : ∀ pt ∈ ps, InDomain c pt)
    (hd' : ∀ pt ∈ ps', InDomain c pt) (grid grid' : List ℚ)
    (hg : ∀ i j k, i < c.gx → j < c.gy → k < c.gz →
      grid'[rollCell c sx sy sz i j k]? = grid[flat c.gy c.gz i j k]?) :
    ∃ r r', scatter c grid ps = .ok r ∧ scatter c grid' ps' = .ok r' ∧
      ∀ i j k, i < c.gx → j < c.gy → k < c.gz →
        r'[rollCell c sx sy sz i j k]? = r[flat c.gy c.gz i j k]? := by
  obtain ⟨r, r', hr, hr', h⟩ := roll_equivariant_list hc sx sy sz hS hd hd' grid grid'
  refine ⟨r, r', hr, hr', ?_⟩
  intro i j k hi hj hk
  obtain ⟨D, h1, h2⟩ := h i j k hi hj hk
  rw [h1, h2, hg i j k hi hj hk]

theorem roll_equivariant_zero {c : Cfg} (hc : GoodCfg c) (sx sy sz : ℤ) {ps ps' : List Particle}
    (hS : List.Forall₂ (Shifted c sx sy sz) ps ps') (hd : ∀ pt ∈ ps, InDomain c pt)
    (hd' : ∀ pt ∈ ps', InDomain c pt) :
    ∃ r r', scatter c (List.replicate (c.gx * c.gy * c.gz) 0) ps = .ok r ∧
      scatter c (List.replicate (c.gx * c.gy * c.gz) 0) ps' = .ok r' ∧
      ∀ i j k, i < c.gx → j < c.gy → k < c.gz →
        r'[rollCell c sx sy sz i j k]? = r[flat c.gy c.gz i j k]? := by
  apply roll_equivariant_grid hc sx sy sz hS hd hd'
  intro i j k hi hj hk
  rw [List.getElem?_replicate, List.getElem?_replicate, if_pos (rollCell_lt hc sx sy sz i j k),
    if_pos (flat_lt hi hj hk)]

/-! ### non-vacuity: a concrete anisotropic deposit -/

/-- a 2 x 3 x 4 TSC grid on a box of 12 with a half-cell-of-x offset … -/
def exCfg : Cfg := { kind := .tsc, gx := 2, gy := 3, gz := 4, box := 12, off := 3 }
/-- … and two particles, one of them at `x = Box` on the 2-cell axis (grid coordinate 5/2: a tie) -/
def exParts : List Particle := [{ x := 12, y := 2, z := 9/2, w := 3/2 }, { x := 1, y := 0, z := 12, w := 1/4 }]

theorem exCfg_good : GoodCfg exCfg := by unfold GoodCfg exCfg; norm_num
theorem exParts_dom : ∀ pt ∈ exParts, InDomain exCfg pt := by
  intro pt hpt
  simp only [exParts, List.mem_cons, List.not_mem_nil, or_false] at hpt
  rcases hpt with rfl | rfl <;> (unfold InDomain gridCoord exCfg; norm_num)

example : ∃ r, scatter exCfg (List.replicate 24 0) exParts = .ok r ∧ r.sum = 7/4 ∧ r.length = 24 ∧
    (∀ (i : ℕ) (y : ℚ), r[i]? = some y → 0 ≤ y) ∧ scatter exCfg (List.replicate 24 0) exParts.reverse = .ok r := by
  obtain ⟨r, hr⟩ := scatter_no_fault exCfg_good (List.replicate 24 0) exParts_dom
  have ht := total_conserved exCfg _ r exParts (by simp [exCfg]) hr
  refine ⟨r, hr, ?_, ?_, ?_, ?_⟩
  · rw [ht.1]; simp [exParts]; norm_num
  · rw [ht.2]; simp
  · intro i y hy
    have hi : i < 24 := by
      have := (List.getElem?_eq_some_iff.mp hy).1
      rw [ht.2] at this; simpa using this
    exact deposit_nonneg exCfg _ r exParts (by intro pt hpt; simp [exParts] at hpt; rcases hpt with rfl | rfl <;> norm_num)
      hr i 0 y (by rw [List.getElem?_replicate, if_pos hi]) hy
  · rw [← perm_invariant exCfg _ (List.reverse_perm exParts).symm]; exact hr

example : ∃ a b, scatter exCfg (List.replicate 24 0) [exParts[0]] = .ok a ∧
    scatter exCfg (List.replicate 24 0) [exParts[1]] = .ok b ∧
    scatter exCfg (List.replicate 24 1) exParts =
      .ok (List.zipWith (· + ·) (List.zipWith (· + ·) (List.replicate 24 1) a) b) := by
  obtain ⟨a, ha⟩ := scatter_no_fault exCfg_good (List.replicate 24 0) (parts := [exParts[0]])
    (fun pt hpt => exParts_dom pt (by simp at hpt; subst hpt; simp [exParts]))
  obtain ⟨b, hb⟩ := scatter_no_fault exCfg_good (List.replicate 24 0) (parts := [exParts[1]])
    (fun pt hpt => exParts_dom pt (by simp at hpt; subst hpt; simp [exParts]))
  exact ⟨a, b, ha, hb, additive exCfg (List.replicate 24 1) a b _ _ (by simp) ha hb⟩

/-- deposit_is_kernel, superposition and roll on the concrete anisotropic example -/
example : ∃ ws Kx Ky Kz, particleWrites exCfg exParts[0] = .ok ws ∧
    contrib ws (flat exCfg.gy exCfg.gz 0 1 2) =
      imageSum (kern exCfg.kind) exCfg.gx (gridCoord exCfg exParts[0].x exCfg.gx) 0 Kx *
      imageSum (kern exCfg.kind) exCfg.gy (gridCoord exCfg exParts[0].y exCfg.gy) 1 Ky *
      imageSum (kern exCfg.kind) exCfg.gz (gridCoord exCfg exParts[0].z exCfg.gz) 2 Kz * exParts[0].w := by
  obtain ⟨ws, hws, h⟩ := deposit_is_kernel exCfg_good (by decide) (exParts_dom exParts[0] (by simp [exParts]))
  obtain ⟨Kx, hKx⟩ := covers_exists (supp exCfg.kind) exCfg_good.2.1 (gridCoord exCfg exParts[0].x exCfg.gx) 0
  obtain ⟨Ky, hKy⟩ := covers_exists (supp exCfg.kind) exCfg_good.2.2.1 (gridCoord exCfg exParts[0].y exCfg.gy) 1
  obtain ⟨Kz, hKz⟩ := covers_exists (supp exCfg.kind) exCfg_good.2.2.2 (gridCoord exCfg exParts[0].z exCfg.gz) 2
  exact ⟨ws, Kx, Ky, Kz, hws, h 0 1 2 (by decide) (by decide) (by decide) Kx Ky Kz hKx hKy hKz⟩

example : ∃ r, scatter exCfg (List.replicate 24 0) exParts = .ok r ∧
    r[6]? = some (0 + (dep exCfg exParts[0] 6 + (dep exCfg exParts[1] 6 + 0))) := by
  obtain ⟨r, hr⟩ := scatter_no_fault exCfg_good (List.replicate 24 0) exParts_dom
  refine ⟨r, hr, ?_⟩
  rw [deposit_superposition exCfg _ r exParts hr 6]
  simp [exParts]

/-- one cell to the right in `x` across the boundary (`x = Box → Box/2`, wrapped by one box), one cell to the
left in `y` (`2 → 10`, wrapped the other way): the deposit moves from `(0, 1, 2)` to `(1, 0, 2)` -/
example : ∃ ws ws', particleWrites exCfg { x := 12, y := 2, z := 9/2, w := 3/2 } = .ok ws ∧
    particleWrites exCfg { x := 6, y := 10, z := 9/2, w := 3/2 } = .ok ws' ∧
    contrib ws' (flat 3 4 1 0 2) = contrib ws (flat 3 4 0 1 2) := by
  have hd : InDomain exCfg { x := 12, y := 2, z := 9/2, w := 3/2 } := by
    unfold InDomain gridCoord exCfg; norm_num
  have hd' : InDomain exCfg { x := 6, y := 10, z := 9/2, w := 3/2 } := by
    unfold InDomain gridCoord exCfg; norm_num
  obtain ⟨ws, ws', h1, h2, h⟩ := roll_equivariant exCfg_good (by decide)
    (pt := { x := 12, y := 2, z := 9/2, w := 3/2 }) (pt' := { x := 6, y := 10, z := 9/2, w := 3/2 }) 1 (-1) 0 1 (-1) 0
    (by simp [exCfg]; norm_num) (by simp [exCfg]; norm_num) (by simp [exCfg]) rfl hd hd'
  exact ⟨ws, ws', h1, h2, h 0 1 2 (by decide) (by decide) (by decide)⟩

example : (modAxis 3 (axisOf .tsc (5/2 + 1 - 1 * 3))).weightAt 1 = (modAxis 3 (axisOf .tsc (5/2))).weightAt 0 :=
  axis_roll_equivariant .tsc (g := 3) (p := 5/2) (by norm_num) (by norm_num) 1 1 (by norm_num) (c := 0) (by norm_num)

/-! ### `_wrap_inplace` -/

/-- **wrap_inplace_spec.**  A coordinate within one box either side of the domain is brought into `[0, Box)`
by a shift of a whole number of boxes; coordinates already inside are untouched (the hypotheses force `Box > 0`).  (The closed end `Box` is
produced only by floating-point rounding of `x + Box`; the deposit theorems above accept it.) -/
theorem wrap_inplace_spec {box x : ℚ} (h1 : -box ≤ x) (h2 : x < 2 * box) :
    0 ≤ wrap1 box x ∧ wrap1 box x < box ∧
      (wrap1 box x = x - box ∨ wrap1 box x = x ∨ wrap1 box x = x + box) ∧
      (0 ≤ x → x < box → wrap1 box x = x) := by
  unfold wrap1
  split_ifs with h3 h4
  · exact ⟨by linarith, by linarith, Or.inl rfl, fun _ h => absurd h (not_lt.mpr h3)⟩
  · exact ⟨by linarith, by linarith, Or.inr (Or.inr rfl), fun h _ => absurd h4 (not_lt.mpr h)⟩
  · exact ⟨by linarith, by linarith, Or.inr (Or.inl rfl), fun _ _ => rfl⟩

/-- the list version: every coordinate of every particle is wrapped, weights and order are kept -/
theorem wrapInplace_spec (box : ℚ) (parts : List Particle) :
    (wrapInplace box parts).length = parts.length ∧
      ∀ i (h : i < parts.length), ((wrapInplace box parts)[i]'(by simp [wrapInplace, h])) =
        { x := wrap1 box parts[i].x, y := wrap1 box parts[i].y, z := wrap1 box parts[i].z, w := parts[i].w } := by
  refine ⟨by simp [wrapInplace], ?_⟩
  intro i h
  simp [wrapInplace, wrapParticle]

example : wrap1 12 (-1/2) = 23/2 ∧ wrap1 12 12 = 0 ∧ wrap1 12 (47/2) = 23/2 ∧ wrap1 12 5 = 5 := by
  decide +kernel

/-! ### `get_field` end to end -/

/-- the kernel configuration `get_field` uses: cubic mesh; the offset goes into the TSC kernel, not into CIC's -/
def gfCfg (kind : Kind) (n : ℕ) (box d : ℚ) : Cfg :=
  match kind with
  | .tsc => { kind := .tsc, gx := n, gy := n, gz := n, box := box, off := d }
  | .cic => { kind := .cic, gx := n, gy := n, gz := n, box := box, off := 0 }

/-- the particles `get_field` hands to the kernel: wrapped in place (TSC), or shifted by `d` and **not** wrapped (CIC) -/
def gfParts (kind : Kind) (box d : ℚ) (parts : List Particle) : List Particle :=
  match kind with
  | .tsc => wrapInplace box parts
  | .cic => if d ≠ 0 then parts.map (shiftParticle d) else parts

theorem getField_eq (kind : Kind) (n : ℕ) (box d : ℚ) (parts : List Particle) :
    getField kind n box d parts =
      ((match kind with | .tsc => wrapInplace box parts | .cic => parts),
       scatter (gfCfg kind n box d) (List.replicate (n * n * n) 0) (gfParts kind box d parts) >>=
         fun f => normalizeField f parts.length) := by
  cases kind <;> rfl

/-- the caller's positions after the call: wrapped for TSC, untouched for CIC -/
theorem get_field_positions (kind : Kind) (n : ℕ) (box d : ℚ) (parts : List Particle) :
    (getField kind n box d parts).1 = match kind with | .tsc => wrapInplace box parts | .cic => parts := by
  rw [getField_eq]

theorem gfCfg_dims (kind : Kind) (n : ℕ) (box d : ℚ) :
    (gfCfg kind n box d).gx = n ∧ (gfCfg kind n box d).gy = n ∧ (gfCfg kind n box d).gz = n ∧
      (gfCfg kind n box d).box = box ∧ (gfCfg kind n box d).kind = kind := by
  cases kind <;> exact ⟨rfl, rfl, rfl, rfl, rfl⟩

theorem gfParts_length (kind : Kind) (box d : ℚ) (parts : List Particle) :
    (gfParts kind box d parts).length = parts.length := by
  cases kind
  · simp [gfParts, wrapInplace]
  · simp only [gfParts]; split_ifs <;> simp

theorem gfParts_weights (kind : Kind) (box d : ℚ) (parts : List Particle) :
    (gfParts kind box d parts).map (·.w) = parts.map (·.w) := by
  cases kind
  · simp [gfParts, wrapInplace, wrapParticle, Function.comp_def]
  · simp only [gfParts]; split_ifs <;> simp [shiftParticle, Function.comp_def]

theorem gfParts_append (kind : Kind) (box d : ℚ) (ps qs : List Particle) :
    gfParts kind box d (ps ++ qs) = gfParts kind box d ps ++ gfParts kind box d qs := by
  cases kind
  · simp [gfParts, wrapInplace]
  · simp only [gfParts]; split_ifs <;> simp

theorem sum_replicate_zero (m : ℕ) : (List.replicate m (0 : ℚ)).sum = 0 := by
  induction m with
  | zero => rfl
  | succ m ih => simp [List.replicate_succ, ih]

theorem sum_unit_weights (parts : List Particle) (hw : ∀ pt ∈ parts, pt.w = 1) :
    (parts.map (·.w)).sum = (parts.length : ℚ) := by
  induction parts with
  | nil => simp
  | cons p ps ih =>
    simp only [List.map_cons, List.sum_cons, List.length_cons]
    rw [hw p (by simp), ih (fun q hq => hw q (by simp [hq]))]; push_cast; ring

theorem sum_map_affine (l : List ℚ) (a : ℚ) : (l.map (fun v => v * a - 1)).sum = l.sum * a - l.length := by
  induction l with
  | nil => simp
  | cons x xs ih => simp only [List.map_cons, List.sum_cons, ih, List.length_cons]; push_cast; ring

theorem normalizeField_ok {f g : List ℚ} {N : ℕ} (h : normalizeField f N = .ok g) :
    N ≠ 0 ∧ g = f.map (fun v => v * ((f.length : ℚ) / (N : ℚ)) - 1) := by
  unfold normalizeField at h
  split_ifs at h with h0
  cases h
  exact ⟨h0, rfl⟩

/-- the deposit `get_field` normalises, from a successful call -/
theorem getField_ok {kind : Kind} {n : ℕ} {box d : ℚ} {parts : List Particle} {f : List ℚ}
    (h : (getField kind n box d parts).2 = .ok f) :
    parts.length ≠ 0 ∧ ∃ r, scatter (gfCfg kind n box d) (List.replicate (n * n * n) 0) (gfParts kind box d parts) = .ok r ∧
      r.length = n * n * n ∧
      f = r.map (fun v => v * (((n * n * n : ℕ) : ℚ) / (parts.length : ℚ)) - 1) := by
  rw [getField_eq] at h
  simp only at h
  cases hs : scatter (gfCfg kind n box d) (List.replicate (n * n * n) 0) (gfParts kind box d parts) with
  | error e => rw [hs] at h; cases h
  | ok r =>
    rw [hs] at h
    obtain ⟨hN, hf⟩ := normalizeField_ok (show normalizeField r parts.length = .ok f from h)
    obtain ⟨d1, d2, d3, _, _⟩ := gfCfg_dims kind n box d
    have hl := (total_conserved _ _ r _ (by rw [d1, d2, d3]; simp) hs).2
    rw [List.length_replicate] at hl
    exact ⟨hN, r, rfl, hl, by rw [hf, hl]⟩

/-- **get_field_spec.**  Whenever `get_field` returns, it had at least one particle and the returned field is,
cell by cell, `(n³/N) · deposit − 1`, where the deposit of each particle is given by `deposit_is_kernel` at its
wrapped (TSC, offset inside the kernel) or shifted and unwrapped (CIC) position; its grid total is
`n³ · (Σw / N) − n³`. -/
theorem get_field_spec (kind : Kind) (n : ℕ) (box d : ℚ) (parts : List Particle) (f : List ℚ)
    (h : (getField kind n box d parts).2 = .ok f) :
    parts.length ≠ 0 ∧ f.length = n * n * n ∧
      f.sum = ((n * n * n : ℕ) : ℚ) * ((parts.map (·.w)).sum / (parts.length : ℚ)) - ((n * n * n : ℕ) : ℚ) ∧
      ∀ cell, f[cell]? =
        if cell < n * n * n then
          some (((gfParts kind box d parts).map (fun pt => dep (gfCfg kind n box d) pt cell)).sum *
            (((n * n * n : ℕ) : ℚ) / (parts.length : ℚ)) - 1)
        else none := by
  obtain ⟨hN, r, hs, hl, rfl⟩ := getField_ok h
  obtain ⟨d1, d2, d3, _, _⟩ := gfCfg_dims kind n box d
  have ht := (total_conserved _ _ r _ (by rw [d1, d2, d3]; simp) hs).1
  refine ⟨hN, by simp [hl], ?_, ?_⟩
  · have hN' : (parts.length : ℚ) ≠ 0 := Nat.cast_ne_zero.mpr hN
    rw [sum_map_affine, ht, gfParts_weights, hl, sum_replicate_zero, zero_add]
    field_simp
  · intro cell
    rw [List.getElem?_map, deposit_superposition _ _ r _ hs cell, List.getElem?_replicate]
    split_ifs <;> simp

/-- unit weights: the normalised field sums to zero -/
theorem get_field_total_unit (kind : Kind) (n : ℕ) (box d : ℚ) (parts : List Particle) (f : List ℚ)
    (h : (getField kind n box d parts).2 = .ok f) (hw : ∀ pt ∈ parts, pt.w = 1) : f.sum = 0 := by
  obtain ⟨hN, _, hs, _⟩ := get_field_spec kind n box d parts f h
  have hN' : (parts.length : ℚ) ≠ 0 := Nat.cast_ne_zero.mpr hN
  have := sum_unit_weights parts hw
  rw [hs, this, div_self hN']; ring

/-- **additivity up to normalisation.**  If `get_field` returns for `ps` and for `qs` it returns for `ps ++ qs`, and
`(Np + Nq)(f + 1) = Np (f_p + 1) + Nq (f_q + 1)` cell by cell. -/
theorem get_field_additive (kind : Kind) (n : ℕ) (box d : ℚ) (ps qs : List Particle) (fp fq : List ℚ)
    (hp : (getField kind n box d ps).2 = .ok fp) (hq : (getField kind n box d qs).2 = .ok fq) :
    ∃ f, (getField kind n box d (ps ++ qs)).2 = .ok f ∧
      ∀ (cell : ℕ) (x xp xq : ℚ), f[cell]? = some x → fp[cell]? = some xp → fq[cell]? = some xq →
        ((ps.length : ℚ) + qs.length) * (x + 1) = ps.length * (xp + 1) + qs.length * (xq + 1) := by
  obtain ⟨hNp, rp, hsp, hlp, _⟩ := getField_ok hp
  obtain ⟨hNq, rq, hsq, hlq, _⟩ := getField_ok hq
  have hsum := additive (gfCfg kind n box d) (List.replicate (n * n * n) 0) rp rq _ _ (by simp) hsp hsq
  have hex : ∃ f, (getField kind n box d (ps ++ qs)).2 = .ok f := by
    rw [getField_eq]
    simp only
    rw [gfParts_append, hsum]
    have hne : (ps ++ qs).length ≠ 0 := by rw [List.length_append]; omega
    simp only [bind, Except.bind, normalizeField, if_neg hne]
    exact ⟨_, rfl⟩
  obtain ⟨f, hf⟩ := hex
  refine ⟨f, hf, ?_⟩
  intro cell x xp xq hx hxp hxq
  obtain ⟨hN, _, _, hc⟩ := get_field_spec kind n box d _ f hf
  obtain ⟨_, _, _, hcp⟩ := get_field_spec kind n box d _ fp hp
  obtain ⟨_, _, _, hcq⟩ := get_field_spec kind n box d _ fq hq
  rw [hc cell] at hx; rw [hcp cell] at hxp; rw [hcq cell] at hxq
  split_ifs at hx hxp hxq
  simp only [Option.some.injEq] at hx hxp hxq
  have hNp' : (ps.length : ℚ) ≠ 0 := Nat.cast_ne_zero.mpr hNp
  have hNq' : (qs.length : ℚ) ≠ 0 := Nat.cast_ne_zero.mpr hNq
  have hN' : ((ps ++ qs).length : ℚ) ≠ 0 := Nat.cast_ne_zero.mpr hN
  rw [gfParts_append, List.map_append, List.sum_append] at hx
  rw [List.length_append] at hx hN'
  push_cast at hx hN'
  rw [← hx, ← hxp, ← hxq]
  field_simp
  push_cast
  ring

/-- **roll equivariance of `get_field`.**  If the particles handed to the kernel are shifted by whole cells (with
periodic wrap), the normalised field is rolled. -/
theorem get_field_roll (kind : Kind) {n : ℕ} (hn : 1 ≤ n) {box : ℚ} (hb : box ≠ 0) (d : ℚ) (sx sy sz : ℤ)
    {parts parts' : List Particle} (hN : parts.length ≠ 0)
    (hS : List.Forall₂ (Shifted (gfCfg kind n box d) sx sy sz) (gfParts kind box d parts) (gfParts kind box d parts'))
    (hd : ∀ pt ∈ gfParts kind box d parts, InDomain (gfCfg kind n box d) pt)
    (hd' : ∀ pt ∈ gfParts kind box d parts', InDomain (gfCfg kind n box d) pt) :
    ∃ f f', (getField kind n box d parts).2 = .ok f ∧ (getField kind n box d parts').2 = .ok f' ∧
      ∀ i j k, i < n → j < n → k < n →
        f'[rollCell (gfCfg kind n box d) sx sy sz i j k]? = f[flat n n i j k]? := by
  obtain ⟨d1, d2, d3, d4, _⟩ := gfCfg_dims kind n box d
  have hc : GoodCfg (gfCfg kind n box d) := ⟨by rw [d4]; exact hb, by rw [d1]; exact hn, by rw [d2]; exact hn,
    by rw [d3]; exact hn⟩
  obtain ⟨r, r', hr, hr', h⟩ := roll_equivariant_zero hc sx sy sz hS hd hd'
  rw [d1, d2, d3] at hr hr' h
  have hlen : parts'.length = parts.length := by
    have := hS.length_eq
    rw [gfParts_length, gfParts_length] at this
    exact this.symm
  have hl := (total_conserved _ _ r _ (by rw [d1, d2, d3]; simp) hr).2
  have hl' := (total_conserved _ _ r' _ (by rw [d1, d2, d3]; simp) hr').2
  refine ⟨r.map (fun v => v * ((r.length : ℚ) / (parts.length : ℚ)) - 1),
    r'.map (fun v => v * ((r'.length : ℚ) / (parts'.length : ℚ)) - 1), ?_, ?_, ?_⟩
  · rw [getField_eq]; simp only; rw [hr]
    simp only [bind, Except.bind, normalizeField, if_neg hN]
  · rw [getField_eq]; simp only; rw [hr']
    have hN2 : parts'.length ≠ 0 := by rw [hlen]; exact hN
    simp only [bind, Except.bind, normalizeField, if_neg hN2]
  · intro i j k hi hj hk
    rw [List.getElem?_map, List.getElem?_map, h i j k hi hj hk, hlen, hl, hl']

/-- inside the domain and with at least one particle `get_field` returns -/
theorem get_field_no_fault (kind : Kind) {n : ℕ} (hn : 1 ≤ n) {box : ℚ} (hb : box ≠ 0) (d : ℚ)
    {parts : List Particle} (hN : parts.length ≠ 0)
    (hd : ∀ pt ∈ gfParts kind box d parts, InDomain (gfCfg kind n box d) pt) :
    ∃ f, (getField kind n box d parts).2 = .ok f := by
  obtain ⟨d1, d2, d3, d4, _⟩ := gfCfg_dims kind n box d
  have hc : GoodCfg (gfCfg kind n box d) := ⟨by rw [d4]; exact hb, by rw [d1]; exact hn, by rw [d2]; exact hn,
    by rw [d3]; exact hn⟩
  obtain ⟨r, hr⟩ := scatter_no_fault hc (List.replicate (n * n * n) 0) hd
  rw [getField_eq]; simp only; rw [hr]
  simp only [bind, Except.bind, normalizeField, if_neg hN]
  exact ⟨_, rfl⟩

/-- non-vacuity: a 2³ TSC mesh on a box of 4 with the interlacing offset of half a cell; the first particle needs
the wrap on two coordinates (`-1/2 → 7/2`, `5 → 1`); weights 2 and 1 -/
def exG : List Particle := [{ x := -1/2, y := 1, z := 5, w := 2 }, { x := 3, y := 0, z := 0, w := 1 }]

theorem exG_dom (kind : Kind) : ∀ pt ∈ gfParts kind 4 1 exG, InDomain (gfCfg kind 2 4 1) pt := by
  intro pt hpt
  cases kind
  · simp only [gfParts, wrapInplace, exG, List.map_cons, List.map_nil, List.mem_cons, List.not_mem_nil,
      or_false] at hpt
    rcases hpt with rfl | rfl <;> (unfold InDomain gridCoord gfCfg wrapParticle wrap1; norm_num)
  · simp only [gfParts, exG, List.map_cons, List.map_nil, List.mem_cons, List.not_mem_nil, or_false, ne_eq,
      one_ne_zero, not_false_eq_true, if_true] at hpt
    rcases hpt with rfl | rfl <;> (unfold InDomain gridCoord gfCfg shiftParticle; norm_num)

example (kind : Kind) : ∃ f, (getField kind 2 4 1 exG).2 = .ok f ∧ f.length = 8 ∧ f.sum = 4 := by
  obtain ⟨f, hf⟩ := get_field_no_fault kind (n := 2) (by norm_num) (box := 4) (by norm_num) 1 (parts := exG)
    (by simp [exG]) (exG_dom kind)
  obtain ⟨_, hl, hs, _⟩ := get_field_spec kind 2 4 1 exG f hf
  refine ⟨f, hf, by simpa using hl, ?_⟩
  rw [hs]; simp [exG]; norm_num

example : (getField .tsc 2 4 1 exG).1 = [{ x := 7/2, y := 1, z := 1, w := 2 }, { x := 3, y := 0, z := 0, w := 1 }] ∧
    (getField .cic 2 4 1 exG).1 = exG := by
  constructor
  · rw [get_field_positions]; simp [wrapInplace, wrapParticle, wrap1, exG]; norm_num
  · rw [get_field_positions]

/-- roll of a whole deposit on the anisotropic example: both particles one cell right in `x`, one cell left in `y`,
with different wraps -/
def exParts' : List Particle := [{ x := 6, y := 10, z := 9/2, w := 3/2 }, { x := 7, y := 8, z := 12, w := 1/4 }]

example : ∃ r r', scatter exCfg (List.replicate 24 0) exParts = .ok r ∧
    scatter exCfg (List.replicate 24 0) exParts' = .ok r' ∧ r'[rollCell exCfg 1 (-1) 0 0 1 2]? = r[flat 3 4 0 1 2]? := by
  have hS : List.Forall₂ (Shifted exCfg 1 (-1) 0) exParts exParts' := by
    refine List.Forall₂.cons ⟨1, -1, 0, ?_, ?_, ?_, rfl⟩ (List.Forall₂.cons ⟨0, -1, 0, ?_, ?_, ?_, rfl⟩ List.Forall₂.nil)
      <;> (simp [exCfg]; try norm_num)
  have hd' : ∀ pt ∈ exParts', InDomain exCfg pt := by
    intro pt hpt
    simp only [exParts', List.mem_cons, List.not_mem_nil, or_false] at hpt
    rcases hpt with rfl | rfl <;> (unfold InDomain gridCoord exCfg; norm_num)
  obtain ⟨r, r', hr, hr', h⟩ := roll_equivariant_zero exCfg_good 1 (-1) 0 hS exParts_dom hd'
  exact ⟨r, r', hr, hr', h 0 1 2 (by decide) (by decide) (by decide)⟩

/-! ### forward error of the per-axis weights under the standard floating-point model

Every rounded operation returns its exact result times `1 + δ` with `|δ| ≤ u` (`u` the unit roundoff:
`2^-24` for float32, `2^-53` for float64).  All statements are over ℚ: the `δ`s are arbitrary rationals
bounded by `u`, so the theorems cover every rounding the hardware (or a `fastmath` re-association that keeps the
number of roundings) may have made. -/

theorem rel_two {a b s t : ℚ} (ha : |a| ≤ s) (hb : |b| ≤ t) : |(1 + a) * (1 + b) - 1| ≤ s + t + s * t := by
  have e : (1 + a) * (1 + b) - 1 = a + b + a * b := by ring
  have hs : 0 ≤ s := le_trans (abs_nonneg a) ha
  rw [e]
  calc |a + b + a * b| ≤ |a + b| + |a * b| := abs_add_le _ _
    _ ≤ (|a| + |b|) + |a| * |b| := by rw [abs_mul]; linarith [abs_add_le a b]
    _ ≤ s + t + s * t := by
        have := mul_le_mul ha hb (abs_nonneg b) hs
        linarith

theorem abs_one_add_le {a u : ℚ} (ha : |a| ≤ u) : |1 + a| ≤ 1 + u := by
  calc |1 + a| ≤ |(1 : ℚ)| + |a| := abs_add_le _ _
    _ ≤ 1 + u := by rw [abs_one]; linarith

theorem abs_mul_le_mul {a b A B : ℚ} (ha : |a| ≤ A) (hb : |b| ≤ B) : |a * b| ≤ A * B := by
  rw [abs_mul]
  exact mul_le_mul ha hb (abs_nonneg b) (le_trans (abs_nonneg a) ha)

/-- **coordinate.**  TSC computes `p̃ = fl(fl(x + offset) · fl(g / box))`: three roundings, so
`|p̃ − p| ≤ (31/10) u |p|`. -/
theorem coord_forward_error {u x off g box a b c : ℚ} (hu0 : 0 ≤ u) (hu : u ≤ 1/100)
    (ha : |a| ≤ u) (hb : |b| ≤ u) (hc : |c| ≤ u) :
    |((x + off) * (1 + a)) * ((g / box) * (1 + b)) * (1 + c) - (x + off) * (g / box)| ≤
      31/10 * u * |(x + off) * (g / box)| := by
  have h2 := rel_two ha hb
  have h3 := rel_two (a := (1 + a) * (1 + b) - 1) (b := c) h2 hc
  have e : ((x + off) * (1 + a)) * ((g / box) * (1 + b)) * (1 + c) - (x + off) * (g / box) =
      ((x + off) * (g / box)) * ((1 + ((1 + a) * (1 + b) - 1)) * (1 + c) - 1) := by ring
  rw [e, abs_mul, mul_comm]
  apply mul_le_mul_of_nonneg_right _ (abs_nonneg _)
  calc _ ≤ u + u + u * u + u + (u + u + u * u) * u := h3
    _ ≤ 31/10 * u := by nlinarith [mul_nonneg hu0 hu0, mul_nonneg (mul_nonneg hu0 hu0) hu0]

/-- the distance to the cell centre: `d̃ = fl(ix − p̃)`, where `ix` is nearest to the *computed* `p̃` -/
theorem dist_forward_error {u η p pt δ : ℚ} {ix : ℤ} (hp : |pt - p| ≤ η)
    (hix : |(ix : ℚ) - pt| ≤ 1/2) (hδ : |δ| ≤ u) :
    |((ix : ℚ) - pt) * (1 + δ) - ((ix : ℚ) - p)| ≤ η + u / 2 ∧
      |((ix : ℚ) - pt) * (1 + δ)| ≤ 1/2 * (1 + u) ∧ |(ix : ℚ) - p| ≤ 1/2 + η := by
  refine ⟨?_, ?_, ?_⟩
  · have e : ((ix : ℚ) - pt) * (1 + δ) - ((ix : ℚ) - p) = (p - pt) + ((ix : ℚ) - pt) * δ := by ring
    rw [e]
    have h1 : |p - pt| ≤ η := by rw [abs_sub_comm]; exact hp
    have h2 := abs_mul_le_mul hix hδ
    calc _ ≤ |p - pt| + |((ix : ℚ) - pt) * δ| := abs_add_le _ _
      _ ≤ η + u / 2 := by linarith
  · have := abs_mul_le_mul hix (abs_one_add_le hδ)
    linarith
  · have e : (ix : ℚ) - p = ((ix : ℚ) - pt) + (pt - p) := by ring
    rw [e]
    calc _ ≤ |(ix : ℚ) - pt| + |pt - p| := abs_add_le _ _
      _ ≤ 1/2 + η := by linarith

/-- centre weight `fl(3/4 − fl(d̃²))` -/
theorem centre_forward_error {u η d dt a b : ℚ} (hu0 : 0 ≤ u) (hu : u ≤ 1/100) (hη0 : 0 ≤ η) (hη : η ≤ 1/10)
    (he : |dt - d| ≤ η + u / 2) (hdt : |dt| ≤ 1/2 * (1 + u)) (hd : |d| ≤ 1/2 + η)
    (ha : |a| ≤ u) (hb : |b| ≤ u) :
    |(3/4 - dt ^ 2 * (1 + a)) * (1 + b) - (3/4 - d ^ 2)| ≤ 6/5 * η + 3 * u := by
  have e : (3/4 - dt ^ 2 * (1 + a)) * (1 + b) - (3/4 - d ^ 2) =
      (d - dt) * (d + dt) - dt ^ 2 * a + (3/4 - dt ^ 2 * (1 + a)) * b := by ring
  have h1 : |d - dt| ≤ η + u / 2 := by rw [abs_sub_comm]; exact he
  have h2 : |d + dt| ≤ (1/2 + η) + 1/2 * (1 + u) := le_trans (abs_add_le _ _) (by linarith)
  have t1 := abs_mul_le_mul h1 h2
  have hsq : |dt ^ 2| ≤ (1/2 * (1 + u)) * (1/2 * (1 + u)) := by rw [pow_two]; exact abs_mul_le_mul hdt hdt
  have t2 := abs_mul_le_mul hsq ha
  have h3 : |dt ^ 2 * (1 + a)| ≤ (1/2 * (1 + u)) * (1/2 * (1 + u)) * (1 + u) := abs_mul_le_mul hsq (abs_one_add_le ha)
  have h4 : |3/4 - dt ^ 2 * (1 + a)| ≤ 3/4 + (1/2 * (1 + u)) * (1/2 * (1 + u)) * (1 + u) := by
    calc _ ≤ |(3/4 : ℚ)| + |dt ^ 2 * (1 + a)| := abs_sub _ _
      _ ≤ _ := by rw [abs_of_pos (by norm_num : (0 : ℚ) < 3/4)]; linarith
  have t3 := abs_mul_le_mul h4 hb
  rw [e]
  have tri : |(d - dt) * (d + dt) - dt ^ 2 * a + (3/4 - dt ^ 2 * (1 + a)) * b| ≤
      |(d - dt) * (d + dt)| + |dt ^ 2 * a| + |(3/4 - dt ^ 2 * (1 + a)) * b| :=
    le_trans (abs_add_le _ _) (by linarith [abs_sub ((d - dt) * (d + dt)) (dt ^ 2 * a)])
  have hK : (1/2 * (1 + u)) * (1/2 * (1 + u)) ≤ 13/50 := by nlinarith
  have hK3 : (1/2 * (1 + u)) * (1/2 * (1 + u)) * (1 + u) ≤ 27/100 := by nlinarith
  have n1 : (η + u / 2) * ((1/2 + η) + 1/2 * (1 + u)) ≤ 111/100 * η + 3/5 * u := by nlinarith
  have n2 : (1/2 * (1 + u)) * (1/2 * (1 + u)) * u ≤ 13/50 * u := by nlinarith
  have n3 : (3/4 + (1/2 * (1 + u)) * (1/2 * (1 + u)) * (1 + u)) * u ≤ 102/100 * u := by nlinarith
  linarith

/-- side weight `fl(1/2 · fl(fl(1/2 + d̃)²))` (use `-d̃`, `-d` for the other side) -/
theorem side_forward_error {u η d dt a b c : ℚ} (hu0 : 0 ≤ u) (hu : u ≤ 1/100) (hη0 : 0 ≤ η) (hη : η ≤ 1/10)
    (he : |dt - d| ≤ η + u / 2) (hdt : |dt| ≤ 1/2 * (1 + u)) (hd : |d| ≤ 1/2 + η)
    (ha : |a| ≤ u) (hb : |b| ≤ u) (hc : |c| ≤ u) :
    |1/2 * (((1/2 + dt) * (1 + a)) ^ 2 * (1 + b)) * (1 + c) - 1/2 * (1/2 + d) ^ 2| ≤ 6/5 * η + 3 * u := by
  have hhalf : |(1/2 : ℚ)| = 1/2 := abs_of_pos (by norm_num)
  have ht : |1/2 + d| ≤ 1 + η := le_trans (abs_add_le _ _) (by rw [hhalf]; linarith)
  have h1 : |1/2 + dt| ≤ 1/2 + 1/2 * (1 + u) := le_trans (abs_add_le _ _) (by rw [hhalf]; linarith)
  have hst : |(1/2 + dt) * (1 + a)| ≤ (1/2 + 1/2 * (1 + u)) * (1 + u) := abs_mul_le_mul h1 (abs_one_add_le ha)
  have hK : (1/2 + 1/2 * (1 + u)) * (1 + u) ≤ 1016/1000 := by nlinarith
  have hdiff : |(1/2 + dt) * (1 + a) - (1/2 + d)| ≤ (η + u / 2) + (1/2 + 1/2 * (1 + u)) * u := by
    have e : (1/2 + dt) * (1 + a) - (1/2 + d) = (dt - d) + (1/2 + dt) * a := by ring
    rw [e]
    exact le_trans (abs_add_le _ _) (by linarith [abs_mul_le_mul h1 ha])
  have hsum : |(1/2 + dt) * (1 + a) + (1/2 + d)| ≤ 1016/1000 + (1 + η) :=
    le_trans (abs_add_le _ _) (by linarith)
  have t1 := abs_mul_le_mul hdiff hsum
  have hsq : |((1/2 + dt) * (1 + a)) ^ 2| ≤ 1016/1000 * (1016/1000) := by
    rw [pow_two]; exact abs_mul_le_mul (le_trans hst hK) (le_trans hst hK)
  have hrel := rel_two hb hc
  have t2 := abs_mul_le_mul hsq hrel
  have e : 1/2 * (((1/2 + dt) * (1 + a)) ^ 2 * (1 + b)) * (1 + c) - 1/2 * (1/2 + d) ^ 2 =
      1/2 * ((((1/2 + dt) * (1 + a)) - (1/2 + d)) * (((1/2 + dt) * (1 + a)) + (1/2 + d)) +
        ((1/2 + dt) * (1 + a)) ^ 2 * ((1 + b) * (1 + c) - 1)) := by ring
  rw [e, abs_mul, hhalf]
  have tri := abs_add_le ((((1/2 + dt) * (1 + a)) - (1/2 + d)) * (((1/2 + dt) * (1 + a)) + (1/2 + d)))
    (((1/2 + dt) * (1 + a)) ^ 2 * ((1 + b) * (1 + c) - 1))
  have n1 : ((η + u / 2) + (1/2 + 1/2 * (1 + u)) * u) * (1016/1000 + (1 + η)) ≤ 2117/1000 * η + 33/10 * u := by
    nlinarith
  have n2 : 1016/1000 * (1016/1000) * (u + u + u * u) ≤ 21/10 * u := by nlinarith
  linarith

/-- **axis_weights_forward_error** (TSC).  Let the grid coordinate be computed with error at most `η ≤ 1/10` cell
(`coord_forward_error`: `η ≤ 3.1 u |p|`), let `ix` be the nearest integer to the *computed* coordinate, and let the
seven further operations of `dx = ix − px`, `0.75 − dx²`, `0.5 (0.5 ± dx)²` each carry a relative error at most
`u ≤ 1/100`.  Then each computed weight differs from the exact polynomial weight at the same `ix` — the quantity
`axis_is_kernel` is about, valid on `|dx| ≤ 1/2 + η` — by at most `(6/5) η + 3 u`. -/
theorem axis_weights_forward_error {u η p pt : ℚ} {ix : ℤ} (hu0 : 0 ≤ u) (hu : u ≤ 1/100) (hη0 : 0 ≤ η)
    (hη : η ≤ 1/10) (hp : |pt - p| ≤ η) (hix : |(ix : ℚ) - pt| ≤ 1/2)
    {δ₂ δ₃ δ₄ δ₅ δ₆ δ₇ δ₈ δ₉ δ₁₀ : ℚ} (h₂ : |δ₂| ≤ u) (h₃ : |δ₃| ≤ u) (h₄ : |δ₄| ≤ u) (h₅ : |δ₅| ≤ u)
    (h₆ : |δ₆| ≤ u) (h₇ : |δ₇| ≤ u) (h₈ : |δ₈| ≤ u) (h₉ : |δ₉| ≤ u) (h₁₀ : |δ₁₀| ≤ u) :
    |(3/4 - (((ix : ℚ) - pt) * (1 + δ₂)) ^ 2 * (1 + δ₃)) * (1 + δ₄) - (3/4 - ((ix : ℚ) - p) ^ 2)| ≤ 6/5 * η + 3 * u ∧
    |1/2 * (((1/2 + ((ix : ℚ) - pt) * (1 + δ₂)) * (1 + δ₅)) ^ 2 * (1 + δ₆)) * (1 + δ₇) -
        1/2 * (1/2 + ((ix : ℚ) - p)) ^ 2| ≤ 6/5 * η + 3 * u ∧
    |1/2 * (((1/2 - ((ix : ℚ) - pt) * (1 + δ₂)) * (1 + δ₈)) ^ 2 * (1 + δ₉)) * (1 + δ₁₀) -
        1/2 * (1/2 - ((ix : ℚ) - p)) ^ 2| ≤ 6/5 * η + 3 * u := by
  obtain ⟨he, hdt, hd⟩ := dist_forward_error hp hix h₂
  refine ⟨centre_forward_error hu0 hu hη0 hη he hdt hd h₃ h₄,
    side_forward_error hu0 hu hη0 hη he hdt hd h₅ h₆ h₇, ?_⟩
  have he' : |-(((ix : ℚ) - pt) * (1 + δ₂)) - -((ix : ℚ) - p)| ≤ η + u / 2 := by
    rw [neg_sub_neg, abs_sub_comm]; exact he
  have := side_forward_error hu0 hu hη0 hη he' (by rw [abs_neg]; exact hdt) (by rw [abs_neg]; exact hd) h₈ h₉ h₁₀
  simpa [sub_eq_add_neg] using this

/-- when the computed coordinate rounds to the other neighbour (`1/2 < |dx| ≤ 1`), the polynomial weights at
that `ix` differ from the documented kernel at the three cells by at most `(3/2)(|dx| − 1/2)²` -/
theorem poly_vs_kernel {d : ℚ} (h1 : 1/2 ≤ d) (h2 : d ≤ 1) :
    |1/2 * (1/2 + d) ^ 2 - Wtsc (d - 1)| ≤ 3/2 * (d - 1/2) ^ 2 ∧
    |3/4 - d ^ 2 - Wtsc d| ≤ 3/2 * (d - 1/2) ^ 2 ∧
    |1/2 * (1/2 - d) ^ 2 - Wtsc (d + 1)| ≤ 3/2 * (d - 1/2) ^ 2 := by
  have hsq : 0 ≤ (d - 1/2) ^ 2 := sq_nonneg _
  refine ⟨?_, ?_, ?_⟩
  · have ha : |d - 1| = 1 - d := by rw [abs_of_nonpos (by linarith)]; ring
    unfold Wtsc
    rw [ha, if_pos (by linarith)]
    have : 1/2 * (1/2 + d) ^ 2 - (3/4 - (d - 1) ^ 2) = 3/2 * (d - 1/2) ^ 2 := by ring
    rw [this, abs_of_nonneg (by positivity)]
  · have ha : |d| = d := abs_of_nonneg (by linarith)
    unfold Wtsc
    rw [ha]
    by_cases h : d ≤ 1/2
    · have : d = 1/2 := le_antisymm h h1
      subst this; norm_num
    · rw [if_neg h, if_pos (by linarith)]
      have : 3/4 - d ^ 2 - (3/2 - d) ^ 2 / 2 = -(3/2 * (d - 1/2) ^ 2) := by ring
      rw [this, abs_neg, abs_of_nonneg (by positivity)]
  · have ha : |d + 1| = d + 1 := abs_of_nonneg (by linarith)
    unfold Wtsc
    rw [ha, if_neg (by linarith)]
    by_cases h : d + 1 ≤ 3/2
    · have : d = 1/2 := by linarith
      subst this; norm_num
    · rw [if_neg h, sub_zero, abs_of_nonneg (by positivity)]
      nlinarith

/-- CIC weights are piecewise linear in `dx`: `max(dx, 0)`, `1 − |dx|`, `max(−dx, 0)`; with one rounding on the
centre weight the same bound holds -/
theorem cic_axis_weights_forward_error {u η d dt b : ℚ} (hu0 : 0 ≤ u) (hu : u ≤ 1/100) (hη0 : 0 ≤ η)
    (he : |dt - d| ≤ η + u / 2) (hdt : |dt| ≤ 1/2 * (1 + u)) (hb : |b| ≤ u) :
    |(if dt > 0 then dt else 0) - (if d > 0 then d else 0)| ≤ 6/5 * η + 3 * u ∧
    |(1 - |dt|) * (1 + b) - (1 - |d|)| ≤ 6/5 * η + 3 * u ∧
    |(if dt > 0 then 0 else -dt) - (if d > 0 then 0 else -d)| ≤ 6/5 * η + 3 * u := by
  have habs := abs_le.mp he
  refine ⟨?_, ?_, ?_⟩
  · split_ifs with h1 h2 h2 <;> rw [abs_le] <;> constructor <;> linarith [habs.1, habs.2]
  · have e : (1 - |dt|) * (1 + b) - (1 - |d|) = (|d| - |dt|) + (1 - |dt|) * b := by ring
    have h1 : |(|d| - |dt|)| ≤ η + u / 2 := le_trans (abs_abs_sub_abs_le_abs_sub d dt) (by rw [abs_sub_comm]; exact he)
    have h2 : |(1 - |dt|)| ≤ 1 := by
      rw [abs_le]; constructor <;> linarith [abs_nonneg dt]
    have h3 := abs_mul_le_mul h2 hb
    rw [e]
    exact le_trans (abs_add_le _ _) (by linarith)
  · split_ifs with h1 h2 h2 <;> rw [abs_le] <;> constructor <;> linarith [habs.1, habs.2]

/-- **one `+=` term** `fl(fl(fl(w̃x · w̃y) · w̃z) · W)`: exact weights in `[0, 1]`, computed weights within `ε ≤ 1/10`
of them, three rounded multiplications: the term is within `(4 ε + 5 u) |W|` of `wx · wy · wz · W`. -/
theorem term_forward_error {u ε a b c at' bt ct W δ₁ δ₂ δ₃ : ℚ} (hu0 : 0 ≤ u) (hu : u ≤ 1/100) (hε0 : 0 ≤ ε)
    (hε : ε ≤ 1/10) (ha : 0 ≤ a ∧ a ≤ 1) (hb : 0 ≤ b ∧ b ≤ 1) (hc : 0 ≤ c ∧ c ≤ 1)
    (hat : |at' - a| ≤ ε) (hbt : |bt - b| ≤ ε) (hct : |ct - c| ≤ ε)
    (h₁ : |δ₁| ≤ u) (h₂ : |δ₂| ≤ u) (h₃ : |δ₃| ≤ u) :
    |((at' * bt * (1 + δ₁)) * ct * (1 + δ₂)) * W * (1 + δ₃) - a * b * c * W| ≤ (4 * ε + 5 * u) * |W| := by
  have hA : |at'| ≤ 1 + ε := by
    have : at' = a + (at' - a) := by ring
    rw [this]; exact le_trans (abs_add_le _ _) (by rw [abs_of_nonneg ha.1]; linarith [ha.2])
  have hB : |bt| ≤ 1 + ε := by
    have : bt = b + (bt - b) := by ring
    rw [this]; exact le_trans (abs_add_le _ _) (by rw [abs_of_nonneg hb.1]; linarith [hb.2])
  have hC : |ct| ≤ 1 + ε := by
    have : ct = c + (ct - c) := by ring
    rw [this]; exact le_trans (abs_add_le _ _) (by rw [abs_of_nonneg hc.1]; linarith [hc.2])
  have hab := abs_mul_le_mul hA hB
  have habc := abs_mul_le_mul hab hC
  -- product of the computed weights against the product of the exact ones
  have e1 : at' * bt * ct - a * b * c = (at' - a) * (bt * ct) + a * ((bt - b) * ct) + a * b * (ct - c) := by ring
  have p1 := abs_mul_le_mul hat (abs_mul_le_mul hB hC)
  have p2 : |a * ((bt - b) * ct)| ≤ 1 * (ε * (1 + ε)) :=
    abs_mul_le_mul (by rw [abs_of_nonneg ha.1]; exact ha.2) (abs_mul_le_mul hbt hC)
  have p3 : |a * b * (ct - c)| ≤ 1 * 1 * ε :=
    abs_mul_le_mul (abs_mul_le_mul (by rw [abs_of_nonneg ha.1]; exact ha.2) (by rw [abs_of_nonneg hb.1]; exact hb.2)) hct
  have hprod : |at' * bt * ct - a * b * c| ≤ ε * ((1 + ε) * (1 + ε)) + 1 * (ε * (1 + ε)) + 1 * 1 * ε := by
    rw [e1]
    exact le_trans (abs_add_le _ _) (by linarith [abs_add_le ((at' - a) * (bt * ct)) (a * ((bt - b) * ct))])
  -- the three roundings
  have r2 := rel_two h₁ h₂
  have r3 := rel_two (a := (1 + δ₁) * (1 + δ₂) - 1) (b := δ₃) r2 h₃
  have e : ((at' * bt * (1 + δ₁)) * ct * (1 + δ₂)) * W * (1 + δ₃) - a * b * c * W =
      ((at' * bt * ct - a * b * c) + (at' * bt * ct) * ((1 + ((1 + δ₁) * (1 + δ₂) - 1)) * (1 + δ₃) - 1)) * W := by ring
  rw [e, abs_mul]
  apply mul_le_mul_of_nonneg_right _ (abs_nonneg _)
  have q := abs_mul_le_mul habc r3
  have e2 : ε * ε ≤ 1/10 * ε := by nlinarith
  have e3 : ε * ε * ε ≤ 1/100 * ε := by nlinarith [mul_nonneg hε0 hε0]
  have u2 : u * u ≤ 1/100 * u := by nlinarith
  have u3 : u * u * u ≤ 1/10000 * u := by nlinarith [mul_nonneg hu0 hu0]
  have n1 : ε * ((1 + ε) * (1 + ε)) + 1 * (ε * (1 + ε)) + 1 * 1 * ε ≤ 4 * ε := by
    have : ε * ((1 + ε) * (1 + ε)) + 1 * (ε * (1 + ε)) + 1 * 1 * ε = 3 * ε + 3 * (ε * ε) + ε * ε * ε := by ring
    rw [this]; linarith
  have hk : (1 + ε) * (1 + ε) * (1 + ε) ≤ 1331/1000 := by
    have : (1 + ε) * (1 + ε) * (1 + ε) = 1 + 3 * ε + 3 * (ε * ε) + ε * ε * ε := by ring
    rw [this]; linarith
  have hr : u + u + u * u + u + (u + u + u * u) * u ≤ 304/100 * u := by
    have : u + u + u * u + u + (u + u + u * u) * u = 3 * u + 3 * (u * u) + u * u * u := by ring
    rw [this]; linarith
  have hr0 : 0 ≤ u + u + u * u + u + (u + u + u * u) * u := by positivity
  have n2 : (1 + ε) * (1 + ε) * (1 + ε) * (u + u + u * u + u + (u + u + u * u) * u) ≤ 5 * u := by
    have := mul_le_mul hk hr hr0 (by norm_num : (0 : ℚ) ≤ 1331/1000)
    linarith
  exact le_trans (abs_add_le _ _) (by linarith)

/-- floating-point accumulation `s ← fl(s + t)` of a list of terms onto a start value -/
def flSum : ℚ → List (ℚ × ℚ) → ℚ
  | s, [] => s
  | s, (t, δ) :: rest => flSum ((s + t) * (1 + δ)) rest

/-- **accumulation.**  `n` rounded additions of non-negative terms onto a non-negative start value: the result is
within `((1+u)^n − 1)` times the exact total of the exact total. -/
theorem sum_forward_error {u : ℚ} (ts : List (ℚ × ℚ)) (hpos : ∀ t ∈ ts, 0 ≤ t.1)
    (hδ : ∀ t ∈ ts, |t.2| ≤ u) (s₀ s : ℚ) (hs₀ : 0 ≤ s₀) (S : ℚ) (hS : s₀ + (ts.map (·.1)).sum ≤ S) (k : ℕ)
    (hk : |s - s₀| ≤ ((1 + u) ^ k - 1) * S) :
    |flSum s ts - (s₀ + (ts.map (·.1)).sum)| ≤ ((1 + u) ^ (k + ts.length) - 1) * S := by
  induction ts generalizing s s₀ k with
  | nil => simpa [flSum] using hk
  | cons t rest ih =>
    obtain ⟨t, δ⟩ := t
    have ht : 0 ≤ t := hpos (t, δ) (by simp)
    have hd : |δ| ≤ u := hδ (t, δ) (by simp)
    simp only [List.map_cons, List.sum_cons, List.length_cons] at hS ⊢
    have hrest : 0 ≤ (rest.map (·.1)).sum := by
      apply List.sum_nonneg
      intro x hx
      simp only [List.mem_map] at hx
      obtain ⟨y, hy, rfl⟩ := hx
      exact hpos y (by simp [hy])
    have hS0 : 0 ≤ S := by linarith
    have hstep : |(s + t) * (1 + δ) - (s₀ + t)| ≤ ((1 + u) ^ (k + 1) - 1) * S := by
      have e : (s + t) * (1 + δ) - (s₀ + t) = (s - s₀) * (1 + δ) + (s₀ + t) * δ := by ring
      have a1 := abs_mul_le_mul hk (abs_one_add_le hd)
      have a2 : |(s₀ + t) * δ| ≤ S * u :=
        abs_mul_le_mul (by rw [abs_of_nonneg (by linarith)]; linarith) hd
      rw [e]
      calc _ ≤ |(s - s₀) * (1 + δ)| + |(s₀ + t) * δ| := abs_add_le _ _
        _ ≤ ((1 + u) ^ k - 1) * S * (1 + u) + S * u := by linarith
        _ = ((1 + u) ^ (k + 1) - 1) * S := by ring
    have := ih (fun x hx => hpos x (by simp [hx])) (fun x hx => hδ x (by simp [hx])) (s₀ + t) ((s + t) * (1 + δ))
      (by linarith) (by linarith) (k + 1) hstep
    simp only [flSum]
    rw [show k + (rest.length + 1) = k + 1 + rest.length by ring, ← add_assoc]
    exact this

/-! non-vacuity: a coordinate that is exactly on the half-cell edge `p = 5/2` but is computed as `2.501`, so the
implementation rounds to `ix = 3` where exact arithmetic takes `2`; every rounding error at its bound -/
example :=
  (axis_weights_forward_error (u := 1/1000) (η := 1/1000) (p := 5/2) (pt := 2501/1000) (ix := 3)
    (by norm_num) (by norm_num) (by norm_num) (by norm_num) (by norm_num [abs_le]) (by norm_num [abs_le])
    (δ₂ := 1/1000) (δ₃ := -1/1000) (δ₄ := 1/1000) (δ₅ := 1/1000) (δ₆ := 1/1000) (δ₇ := 1/1000) (δ₈ := 1/1000)
    (δ₉ := 1/1000) (δ₁₀ := 1/1000)
    (by norm_num [abs_le]) (by norm_num [abs_le]) (by norm_num [abs_le]) (by norm_num [abs_le])
    (by norm_num [abs_le]) (by norm_num [abs_le]) (by norm_num [abs_le]) (by norm_num [abs_le])
    (by norm_num [abs_le])).1

example : |((7 + 1/2) * (1 + 1/1000)) * (((3 : ℚ) / 9) * (1 + -1/1000)) * (1 + 1/1000) - (7 + 1/2) * ((3 : ℚ) / 9)| ≤
    31/10 * (1/1000) * |(7 + 1/2) * ((3 : ℚ) / 9)| :=
  coord_forward_error (by norm_num) (by norm_num) (by norm_num [abs_le]) (by norm_num [abs_le]) (by norm_num [abs_le])

example : |flSum (1/4) [(1/2, 1/1000), (1/8, -1/1000)] - (1/4 + (1/2 + (1/8 + 0)))| ≤ ((1 + 1/1000) ^ 2 - 1) * (7/8) := by
  have := sum_forward_error (u := 1/1000) [(1/2, 1/1000), (1/8, -1/1000)] (by simp)
    (by simp; norm_num [abs_le]) (1/4) (1/4) (by norm_num) (7/8) (by simp; norm_num) 0 (by norm_num)
  simpa using this

end AbacusVerif.Mass
