/-
  C18 — the eigenvector COLUMNS of the catalogue are the decoded triads, axis by axis.

  `_unpack_euler16` returns (minor, middle, major); the loader closure `eigvecs_loader` hands them to the columns
  `…_eigenvecsMin_…`, `…Mid…`, `…Maj…`.  The table `Generated/Loaders.lean` is regenerated from /repo on every run of
  the C02 / C05 / C18 checks by symbolic execution of the loader closures; this file decides, over that table, that for
  each of the 3 tensors × 2 centres the column named Min / Mid / Maj is axis 0 / 1 / 2 of the decode of THAT tensor's
  raw `_u16` column and reads nothing else — so mis-zipping names and axes (seeded change C18-b), or reading another
  tensor's code, breaks a proof, whatever request list would be needed to see it at run time.
-/
import AbacusVerif.Generated.Loaders

namespace AbacusVerif.EulerLoaders
open AbacusVerif.Units AbacusVerif.Loaders

def tensors : List String := ["sigmar", "sigman", "sigmav"]
def centres : List String := ["com", "L2com"]
def axes : List (String × Nat) := [("Min", 0), ("Mid", 1), ("Maj", 2)]

/-- the 18 (column name, axis, raw code column) triples the documentation promises -/
def expected : List (String × Nat × String) :=
  tensors.flatMap fun t => centres.flatMap fun c => axes.map fun a =>
    (t ++ "_eigenvecs" ++ a.1 ++ "_" ++ c, a.2, t ++ "_eigenvecs_" ++ c ++ "_u16")

def lookup (n : String) : Option Loader := table.find? (fun l => l.name == n)

/-- **eigvec_columns_are_decoded_axes.**  Every documented eigenvector column is loaded as the promised axis of the
decode of its own tensor's raw code column, and depends on no other raw or halo column. -/
theorem eigvec_columns_are_decoded_axes :
    ∀ e ∈ expected, ∃ l, lookup e.1 = some l ∧ l.expr = .euler e.2.1 (.raw e.2.2) ∧
      l.rawDeps = [e.2.2] ∧ l.haloDeps = [] ∧ l.width = 3 := by
  decide +kernel

/-- (column name, the triad of its tensor and centre in (Min, Mid, Maj) order) -/
def expectedGroups : List (String × List String) :=
  tensors.flatMap fun t => centres.flatMap fun c => axes.map fun a =>
    (t ++ "_eigenvecs" ++ a.1 ++ "_" ++ c, axes.map fun b => t ++ "_eigenvecs" ++ b.1 ++ "_" ++ c)

/-- the group a request can fill at once is exactly the tensor's own triad, in (Min, Mid, Maj) order -/
theorem eigvec_groups_are_own_triads :
    ∀ e ∈ expectedGroups, ∃ l, lookup e.1 = some l ∧ l.group = e.2 := by
  decide +kernel

/-- no other loader of the table decodes eigenvector codes -/
theorem only_eigvec_columns_use_euler :
    ∀ l ∈ table, (∃ w a, l.expr = .euler w a) → l.name ∈ expected.map (·.1) := by
  intro l hl
  have : ∀ l ∈ table, (match l.expr with | .euler _ _ => true | _ => false) = true → l.name ∈ expected.map (·.1) := by
    decide +kernel
  rintro ⟨w, a, h⟩
  exact this l hl (by rw [h])

example : expected.length = 18 ∧ ("sigmav_eigenvecsMaj_L2com", 2, "sigmav_eigenvecs_L2com_u16") ∈ expected := by
  decide +kernel

end AbacusVerif.EulerLoaders
