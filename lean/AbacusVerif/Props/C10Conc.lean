/-
  C10 below the write-list level: the threads of each `numba.prange` as programs of atomic loads and stores
  on one shared memory (the sequentially consistent interleaving model of Lemmas/Conc.lean), and what EVERY
  complete schedule — every interleaving of the T threads' steps — leaves in memory.

  * fill pass: thread `tid` performs the stores of `o.fills[tid]` (cell `gaddr c j` = cell `j` of tracer `c`'s
    arrays); the initial contents of the arrays are arbitrary (`np.empty`);
  * count pass: thread `tid` performs, for each row `i` of its block, `Nout[tid, κ-1, 0] += 1` as a load and a
    store (when `κ ∈ {1,2,3}`) and the store `keep[i] = κ`; cells `keepAddr i`, `noutAddr tid c`;
  * `fast_concatenate`: thread `tid` performs the stores of its block(s).

  The two passes are separated by the end of the first `prange` (a barrier), so no step of the fill pass is
  interleaved with a step of the count pass; within a pass the theorems quantify over all schedules.
-/
import AbacusVerif.Props.C10
import AbacusVerif.Lemmas.C10Conc

namespace AbacusVerif.TwoPass
open AbacusVerif AbacusVerif.Conc

/-- **fill_interleave.**  For every thread count, block sequence and keep assignment: the fill threads'
footprints are pairwise disjoint, and for every initial content of the output arrays and EVERY schedule that
runs the T threads to completion (any interleaving of their atomic stores), the arrays read back from memory
are the rows of class `c` in table order — the sequential answer. -/
theorem fill_interleave (keep b : List Nat) (T H : Nat) (hT : 1 ≤ T) (hb : BlockSeq b T H)
    (hk : keep.length = H) :
    ∃ o, twoPass keep b T = .ok o ∧ (fillProgs o).length = T ∧ DisjointFootprints (fillProgs o) ∧
      ∀ (r0 : Option Nat) (m0 : Mem (Option Nat)) (sched : List Nat),
        ((start r0 m0 (fillProgs o)).run sched).finished →
        ∀ c, Cls c →
          readArr ((start r0 m0 (fillProgs o)).run sched).mem c (o.N.get c) = (rowsOf keep c).map some := by
  obtain ⟨o, ho, _, hg, hcf, hN, hproj, _⟩ := twoPass_run keep b T H hT hb hk
  obtain ⟨o', ho', hnd, hw, _⟩ := schedule_independent_all keep b T H hT hb hk
  have : o' = o := by rw [ho] at ho'; cases ho'; rfl
  subst this
  have hprogs : fillProgs o' = (o'.fills.map fillWrites).map storeProg := by
    simp [fillProgs, List.map_map, Function.comp_def]
  have hcells : ((o'.fills.map fillWrites).flatten.map (·.1)).Nodup := by
    rw [fillWrites_flatten, List.map_map]
    have e : ((fun (x : Nat × Option Nat) => x.1) ∘ fun (w : W) => (gaddr w.1 w.2.1, some w.2.2)) =
        (fun p : Nat × Nat => gaddr p.1 p.2) ∘ cellOf := rfl
    rw [e, ← List.map_map]
    unfold List.Nodup at hnd ⊢
    rw [List.pairwise_map]
    apply List.Pairwise.imp_of_mem _ hnd
    intro p q hp hq hne hpq
    apply hne
    obtain ⟨w, hw1, rfl⟩ := List.mem_map.mp hp
    obtain ⟨w', hw2, rfl⟩ := List.mem_map.mp hq
    have c1 := (hw w hw1).1
    have c2 := (hw w' hw2).1
    unfold Cls at c1 c2
    simp only [cellOf, gaddr] at hpq ⊢
    refine Prod.ext ?_ ?_ <;> simp only <;> omega
  refine ⟨o', ho, ?_, ?_, ?_⟩
  · have := congrArg List.length hcf
    simp only [List.length_map, List.length_tail] at this
    simp [fillProgs, this, hg]
  · rw [hprogs]; exact disjoint_of_nodup_flatten _ hcells
  · intro r0 m0 sched hfin c hc
    rw [hprogs] at hfin ⊢
    rw [store_interleave r0 m0 _ hcells sched hfin]
    unfold readArr
    apply List.ext_getElem
    · simp [hN c hc]
    · intro j h1 h2
      simp only [List.length_map, List.length_range] at h1
      have hj : j < (rowsOf keep c).length := by rw [← hN c hc]; exact h1
      simp only [List.getElem_map, List.getElem_range]
      -- the write (c, j, rows[j]) is in the list
      have hm : (j, some (rowsOf keep c)[j]) ∈ proj c o'.writes := by
        rw [hproj c hc]
        have := mem_place 0 (rowsOf keep c) j hj
        simpa using this
      unfold proj at hm
      obtain ⟨w, hwm, hwe⟩ := List.mem_filterMap.mp hm
      by_cases hwc : w.1 = c
      · simp only [hwc, if_true, Option.some.injEq, Prod.mk.injEq] at hwe
        have hin : (gaddr c j, some (rowsOf keep c)[j]) ∈ (o'.fills.map fillWrites).flatten := by
          rw [fillWrites_flatten]
          refine List.mem_map.mpr ⟨w, hwm, ?_⟩
          rw [hwc, hwe.1, hwe.2]
        exact memApply_of_mem m0 _ hcells _ hin
      · simp [hwc] at hwe

/-- **count_interleave.**  The count pass: thread `tid` only touches `Nout[tid]` and the `keep` cells of its own
block, the threads' footprints are pairwise disjoint although each `+=` is a separate load and store, and after
EVERY complete schedule `Nout[tid, c]` has grown by exactly the count the write-list model computes
(`o.nout[tid]`) and `keep[i]` holds row `i`'s keep code for every row of the table. -/
theorem count_interleave (keep b : List Nat) (T H : Nat) (hT : 1 ≤ T) (hb : BlockSeq b T H)
    (hk : keep.length = H) :
    ∃ o b', twoPass keep b T = .ok o ∧ b = 0 :: b' ∧
      (countProgsFrom keep 0 0 b').length = T ∧ DisjointFootprints (countProgsFrom keep 0 0 b') ∧
      ∀ (r0 : Nat) (m0 : Mem Nat) (sched : List Nat),
        ((start r0 m0 (countProgsFrom keep 0 0 b')).run sched).finished →
        (∀ t cur, o.nout[t]? = some cur → ∀ c, Cls c →
          ((start r0 m0 (countProgsFrom keep 0 0 b')).run sched).mem (noutAddr t c) =
            m0 (noutAddr t c) + cur.get c) ∧
        (∀ i κ, keep[i]? = some κ →
          ((start r0 m0 (countProgsFrom keep 0 0 b')).run sched).mem (keepAddr i) = κ) := by
  obtain ⟨o, ho, _⟩ := twoPass_run keep b T H hT hb hk
  obtain ⟨b', rfl, hlen, hlast, hp, hle⟩ := hb.decomp
  subst hk
  have hle' : ∀ x ∈ 0 :: b', x ≤ keep.length := hle
  have hnout : o.nout = countsOf keep 0 b' := by
    have hc := count_ok keep b' 0 hle'
    rw [hlen] at hc
    unfold twoPass at ho
    have hT0 : T ≠ 0 := by omega
    simp only [hT0, if_false, hc, readAt_neg_one _ (prefixSums_ne_nil _ _)] at ho
    cases hf : fillPass keep (0 :: b') T (prefixSums Cur.zero (countsOf keep 0 b'))
        ((prefixSums Cur.zero (countsOf keep 0 b')).getLast (prefixSums_ne_nil _ _)) with
    | error e => simp [hf] at ho
    | ok fills => simp only [hf] at ho; cases ho; rfl
  have hdis := countProgs_disjoint keep 0 0 b' hp
  obtain ⟨_, hfacts⟩ := blocksOf_facts 0 b' hp
  refine ⟨o, b', ho, rfl, by rw [countProgsFrom_length, hlen], hdis, ?_⟩
  intro r0 m0 sched hfin
  -- every block lies inside the table
  have hblk : ∀ (t : Nat) (blk : Nat × Nat), (blocksOf 0 b')[t]? = some blk → ∀ i ∈ pyRange blk.1 blk.2, i < keep.length := by
    intro t blk hb i hi
    have := hfacts blk (List.mem_of_getElem? hb)
    have := pyRange_mem hi
    omega
  constructor
  · intro t cur hcur c hc
    rw [hnout, countsOf_eq_map, List.getElem?_map] at hcur
    cases hbt : (blocksOf 0 b')[t]? with
    | none => simp [hbt] at hcur
    | some blk =>
      simp only [hbt, Option.map_some, Option.some.injEq] at hcur
      subst hcur
      have hprog : (countProgsFrom keep 0 0 b')[t]? = some (countProg keep t (pyRange blk.1 blk.2)) := by
        rw [countProgsFrom_getElem?, hbt]; simp
      have hsolo := solo_count_nout keep t c hc (pyRange blk.1 blk.2) m0 r0 (hblk t blk hbt)
      rw [cntB_get _ _ _ _ hc]
      by_cases hx : noutAddr t c ∈ footprint (countProg keep t (pyRange blk.1 blk.2))
      · rw [interleave_cell r0 m0 _ hdis sched hfin t _ hprog _ hx, hsolo]
      · have hun : ∀ p ∈ countProgsFrom keep 0 0 b', noutAddr t c ∉ footprint p := by
          intro p hp' hxp
          obtain ⟨t', ht'⟩ := List.mem_iff_getElem?.mp hp'
          obtain ⟨blk', hb', rfl⟩ := countProgs_get keep 0 0 b' t' p ht'
          rcases footprint_countProg keep _ _ _ hxp with ⟨a, _, e⟩ | ⟨c', hc', e⟩
          · exact keepAddr_ne_noutAddr _ _ _ e.symm
          · have htt : t' = t := by
              unfold noutAddr at e
              unfold Cls at hc hc'
              omega
            subst htt
            rw [hbt] at hb'
            have : blk' = blk := (Option.some.inj hb').symm
            subst this
            simp only [Nat.zero_add] at hxp
            exact hx hxp
        rw [interleave_untouched r0 m0 _ hdis sched hfin _ hun, ← hsolo,
          solo_not_footprint _ _ _ _ hx]
  · intro i κ hik
    obtain ⟨hil, rfl⟩ := List.getElem?_eq_some_iff.mp hik
    obtain ⟨t, blk, hbt, h1, h2⟩ := blocksOf_cover 0 b' i (Nat.zero_le _) (by rw [hlast]; exact hil)
    have hprog : (countProgsFrom keep 0 0 b')[t]? = some (countProg keep t (pyRange blk.1 blk.2)) := by
      rw [countProgsFrom_getElem?, hbt]; simp
    have hmem : i ∈ pyRange blk.1 blk.2 := by
      unfold pyRange; rw [List.mem_range'_1]; omega
    have hx : keepAddr i ∈ footprint (countProg keep t (pyRange blk.1 blk.2)) := by
      unfold footprint countProg
      refine List.mem_map.mpr ⟨Step.store (keepAddr i) (fun _ => keep[i]), ?_, rfl⟩
      refine List.mem_flatMap.mpr ⟨i, hmem, ?_⟩
      simp [List.getElem?_eq_getElem hil, countRowProg]
    rw [interleave_cell r0 m0 _ hdis sched hfin t _ hprog _ hx]
    exact solo_count_keep keep t _ m0 r0 (hblk t blk hbt) i hmem hil

/-- **fastConcat_interleave.**  `fast_concatenate` with both inputs non-empty and `T ≥ 2`: thread `tid`
performs the stores `wss[tid]`; for every initial content of the fresh array and EVERY complete schedule of
the T threads the array read back is `array1 ++ array2`. -/
theorem fastConcat_interleave {α} (blocks : Nat → Nat → List Nat) (a1 a2 : List α) (T : Nat)
    (h1 : 0 < a1.length) (h2 : 0 < a2.length) (hT : 2 ≤ T)
    (hb1 : BlockSeq (blocks a1.length (threadSplit a1.length a2.length T).1)
      (threadSplit a1.length a2.length T).1 a1.length)
    (hb2 : BlockSeq (blocks a2.length (T - (threadSplit a1.length a2.length T).1))
      (T - (threadSplit a1.length a2.length T).1) a2.length) :
    ∃ wss : List (List (Nat × α)), wss.length = T ∧
      fastConcatWith blocks a1 a2 T = .ok (.fresh (a1.length + a2.length) wss.flatten) ∧
      DisjointFootprints ((wss.map optW).map storeProg) ∧
      ∀ (r0 : Option α) (m0 : Mem (Option α)) (sched : List Nat),
        ((start r0 m0 ((wss.map optW).map storeProg)).run sched).finished →
        (List.range (a1.length + a2.length)).map ((start r0 m0 ((wss.map optW).map storeProg)).run sched).mem =
          (a1 ++ a2).map some := by
  obtain ⟨wss, hl, hw, hcells⟩ := fastConcat_threads blocks a1 a2 T h1 h2 hT hb1 hb2
  have hfl : (wss.map optW).flatten = (List.range (a1.length + a2.length)).map (fun i => (i, (a1 ++ a2)[i]?)) := by
    rw [optW_flatten_map, hcells]
  have hnd : ((wss.map optW).flatten.map (·.1)).Nodup := by
    rw [hfl, List.map_map]
    have : ((fun (x : Nat × Option α) => x.1) ∘ fun i => (i, (a1 ++ a2)[i]?)) = id := rfl
    rw [this, List.map_id]
    exact List.nodup_range
  refine ⟨wss, hl, hw, disjoint_of_nodup_flatten _ hnd, ?_⟩
  intro r0 m0 sched hfin
  rw [store_interleave r0 m0 _ hnd sched hfin, ← List.length_append, ← range_getElem?_eq_map_some]
  apply List.map_congr_left
  intro i hi
  have hin : (i, (a1 ++ a2)[i]?) ∈ (wss.map optW).flatten := by
    rw [hfl]
    exact List.mem_map.mpr ⟨i, by simpa using hi, rfl⟩
  exact memApply_of_mem m0 _ hnd _ hin

/-! ### non-vacuity -/

-- the hypotheses are the ones instantiated in Props/C10.lean (`BlockSeq [0, 2, 5, 7] 3 7` etc.); here: the
-- programs are not empty, and a concrete non-sequential interleaving of two fill threads is complete
example : (countProgsFrom [1, 0, 2, 1] 0 0 [2, 4]).map List.length = [4, 6] := by decide
example : (match twoPass [1, 0, 2, 1] [0, 2, 4] 2 with
    | .ok o => (fillProgs o).map List.length | .error _ => []) = [1, 2] := by decide
example : footprint (countProg [1, 0, 2, 1] 1 [2, 3]) =
    [noutAddr 1 2, noutAddr 1 2, keepAddr 2, noutAddr 1 1, noutAddr 1 1, keepAddr 3] := by decide
-- without disjoint footprints the conclusion fails: `Conc.lost_update_witness`

end AbacusVerif.TwoPass
