/-
  C09 — the width expressions, the marker structure and the comparison chain of `gen_cent` / `gen_sats`,
  as regenerated from the source on every run (`Generated/HodWidths.lean`), agree with the specification
  written from the property statement:

    "slices stacked in the order LRG, ELG, QSO with widths equal to the package's mean-occupation
     functions at the host mass and secondary ranks, times incompleteness and the halo multiplicity
     (particle weight)"

  plus, from the design reading (DESIGN §7 C09 R): the assembly-bias shifts of logM_cut / logM1, the rank
  decorator `1 + s·rank + s_v·rank_v + s_p·rank_p + s_r·rank_r` on satellites when ranks are enabled, and
  the ELG conformity variants (`logM1_EL, alpha_EL` when the host's central is an LRG, `logM1_EE, alpha_EE`
  when it is an ELG; no shear term on those).  All statements are closed Boolean facts about the generated
  tables, checked by kernel evaluation.
-/
import AbacusVerif.Generated.HodWidths
import AbacusVerif.Props.C09

namespace AbacusVerif.Hod.W
open AbacusVerif.Hod

/-! ### the specification -/

/-- `logM_cut + Acent·deltac + Bcent·fenv (+ Ccent·shear)` -/
def cutShift (T : Tracer) (shear : Bool) : Poly :=
  [[.par T .logM_cut], [.par T .Acent, .col .deltac], [.par T .Bcent, .col .fenv]] ++
    (if shear then [[.par T .Ccent, .col .shear]] else [])

/-- `base + Asat·deltac + Bsat·fenv (+ Csat·shear)` -/
def m1Shift (T : Tracer) (base : Par) (shear : Bool) : Poly :=
  [[.par T base], [.par T .Asat, .col .deltac], [.par T .Bsat, .col .fenv]] ++
    (if shear then [[.par T .Csat, .col .shear]] else [])

/-- `1 + s·ranks + s_v·ranksv + s_p·ranksp + s_r·ranksr` -/
def decorator (T : Tracer) : Poly :=
  [[.lit 1], [.par T .s, .col .ranks], [.par T .s_v, .col .ranksv], [.par T .s_p, .col .ranksp],
   [.par T .s_r, .col .ranksr]]

def atomP (T : Tracer) (k : Par) : Arg := .poly [[.par T k]]
def massArg : Arg := .poly [[.col .mass]]

/-- mean occupation of centrals at the host mass -/
def occCent : Tracer → Occ × List Arg
  | .LRG => (.n_cen_LRG, [massArg, .poly (cutShift .LRG false), atomP .LRG .sigma])
  | .ELG => (.N_cen_ELG_v1, [massArg, atomP .ELG .p_max, atomP .ELG .Q, .poly (cutShift .ELG true),
                             atomP .ELG .sigma, atomP .ELG .gamma])
  | .QSO => (.N_cen_QSO, [massArg, .poly (cutShift .QSO false), atomP .QSO .sigma])

/-- mean occupation of satellites at the host mass; `kc` = class of the host's central code -/
def occSat (kc : Nat) : Tracer → Occ × List Arg
  | .LRG => (.n_sat_LRG_modified, [massArg, .poly (cutShift .LRG false), .pow10 (cutShift .LRG false),
                                   .pow10 (m1Shift .LRG .logM1 false), atomP .LRG .sigma, atomP .LRG .alpha,
                                   atomP .LRG .kappa])
  | .ELG => (.N_sat_elg, [massArg, .pow10 (cutShift .ELG true), atomP .ELG .kappa,
                          .pow10 (if kc = 1 then m1Shift .ELG .logM1_EL false
                                  else if kc = 2 then m1Shift .ELG .logM1_EE false
                                  else m1Shift .ELG .logM1 true),
                          atomP .ELG (if kc = 1 then .alpha_EL else if kc = 2 then .alpha_EE else .alpha),
                          atomP .ELG .A_s])
  | .QSO => (.N_sat_generic, [massArg, .pow10 (cutShift .QSO false), atomP .QSO .kappa,
                              .pow10 (m1Shift .QSO .logM1 false), atomP .QSO .alpha])

/-- central width = occupation × ic × multiplicity -/
def specCent (T : Tracer) : WidthRow :=
  { sat := false, tracer := T, ranks := false, kc := 0, occ := (occCent T).1, args := (occCent T).2,
    factors := [[[.par T .ic]], [[.col .multis]]] }

/-- satellite width = occupation × ic × particle weight (× rank decorator) -/
def specSat (ranks : Bool) (kc : Nat) (T : Tracer) : WidthRow :=
  { sat := true, tracer := T, ranks := ranks, kc := kc, occ := (occSat kc T).1, args := (occSat kc T).2,
    factors := [[[.par T .ic]], [[.col .weights]]] ++ (if ranks then [decorator T] else []) }

def allTracers : List Tracer := [.LRG, .ELG, .QSO]

def specWidths : List WidthRow :=
  allTracers.map specCent ++
    ([false, true].flatMap fun ranks => [0, 1, 2].flatMap fun kc => allTracers.map (specSat ranks kc))

def enOfMask (m : Nat) : Enabled := ⟨m % 2 = 1, m / 2 % 2 = 1, m / 4 % 2 = 1⟩

/-- the tracers whose widths make up `T`'s marker: the enabled ones up to `T` — the list `cumWidth` sums -/
def contribs (en : Enabled) (T : Tracer) : List Tracer :=
  allTracers.filter (fun S => decide (S.rank ≤ T.rank) && en.get S)

def specMarkers : List (Bool × Nat × Tracer × List Tracer) :=
  [false, true].flatMap fun sat => (List.range 8).flatMap fun m =>
    allTracers.map fun T => (sat, m, T, contribs (enOfMask m) T)

def specChain : List ChainRow :=
  [⟨some .LRG, .le, .LRG, 1⟩, ⟨some .ELG, .le, .ELG, 2⟩, ⟨some .QSO, .le, .QSO, 3⟩]

/-- the chain table read as a program over the model's markers -/
def evalChain (rows : List ChainRow) (els : Nat) (en : Enabled) (w : Widths) (r : Rat) : Nat :=
  match rows with
  | [] => els
  | c :: cs =>
    let g := match c.guard with
      | some G => en.get G
      | none => true
    let t := match c.op with
      | .le => decide (r ≤ marker en w c.marker)
      | .lt => decide (r < marker en w c.marker)
      | .ge => decide (r ≥ marker en w c.marker)
      | .gt => decide (r > marker en w c.marker)
    if g && t then c.code else evalChain cs els en w r

/-! ### the theorems -/

/-- **widths_match_spec.**  Every width the source adds to a marker (3 central widths; 18 satellite widths:
3 tracers × ranks on/off × host central code other/1/2) is, up to the order of factors and summands, the
specified product: the tracer's own occupation function at the host mass with the specified shifted
arguments, times the tracer's `ic`, times the multiplicity (centrals) or particle weight (satellites), times
the rank decorator when ranks are enabled — and nothing else. -/
theorem widths_match_spec : tableEqv extractedWidths specWidths = true := by decide +kernel

example : specWidths.length = 21 ∧ extractedWidths.length = 21 := by decide +kernel
-- the check is not vacuous: a table without the `ic` factor of the ELG central is rejected
example : tableEqv (specWidths.map fun r =>
    if r.tracer = .ELG ∧ r.sat = false then { r with factors := [[[.col .multis]]] } else r) specWidths = false := by
  decide +kernel

/-- **markers_match_spec.**  For each of the 8 enable patterns, in both passes, each marker is the sum of
the widths of exactly the enabled tracers up to it, in the order LRG, ELG, QSO (the list `cumWidth` of
`marker_eq_cumsum` sums). -/
theorem markers_match_spec :
    msetEqv (fun a b => decide (a = b)) extractedMarkers specMarkers = true := by decide +kernel

example : specMarkers.length = 48 ∧ (false, 6, Tracer.QSO, [Tracer.ELG, Tracer.QSO]) ∈ specMarkers := by
  decide +kernel

/-- **chain_matches_model.**  In both passes the `keep[i]` chain is: LRG, ELG, QSO in this order, each branch
guarded by its own `want_X`, comparing `randoms[i] <=` the tracer's own marker, writing codes 1, 2, 3, else 0;
and that chain, read as a program, is the model's `keepCode`. -/
theorem chain_matches_model :
    extractedChains = [(false, specChain, 0), (true, specChain, 0)] ∧
    ∀ (en : Enabled) (w : Widths) (r : Rat), evalChain specChain 0 en w r = keepCode en w r := by
  refine ⟨by decide +kernel, ?_⟩
  intro en w r
  rfl

example : evalChain specChain 0 ⟨false, true, false⟩ ⟨0, 1/2, 0⟩ 0 = 2 := by decide +kernel

/-- the list of tracers of `specMarkers` is the one `cumWidth` sums (ties the table to `marker_eq_cumsum`) -/
theorem contribs_sum_eq_marker (en : Enabled) (w : Widths) (T : Tracer) :
    ((contribs en T).map w.get).sum = marker en w T := by
  rw [marker_eq_cumsum]
  rfl

end AbacusVerif.Hod.W
