import AbacusVerif.Model.C04
namespace AbacusVerif.Bitpacked
end AbacusVerif.Bitpacked
