/-
  C04 — RVint and PID bit fields decode exactly per the documented layout.

  Property theorems about Model/C04.lean (which is stated over the *generated* constants of
  Generated/BitConsts.lean, so every layout proof below re-checks what bitpacked.py says now):
  for all 2^32 RVint words, all 2^64 aux words, all rational Box / positions / velocities,
  all output selections and all input lengths.
-/
import AbacusVerif.Lemmas.C04

namespace AbacusVerif.Bitpacked
open AbacusVerif AbacusVerif.BitConsts

/-! ## the constants are the documented ones -/

/-- density: 10 bits from bit 49; Lagrangian indices: 15 bits at 0, 16, 32; tagged: bit 48; id mask: the
three index masks; the masks are pairwise disjoint; RVint: shift 12, mask 0xFFF, offset 2048, Box/10^6. -/
theorem consts_documented :
    AUXDENS = (2 ^ 10 - 1) * 2 ^ 49 ∧ ZERODEN = 49 ∧
    AUXXPID = 2 ^ 15 - 1 ∧ AUXYPID = (2 ^ 15 - 1) * 2 ^ 16 ∧ AUXZPID = (2 ^ 15 - 1) * 2 ^ 32 ∧
    AUXPID = AUXXPID + AUXYPID + AUXZPID ∧ AUXTAGGED = 48 ∧
    lagrShiftX = 0 ∧ lagrShiftY = 16 ∧ lagrShiftZ = 32 ∧ tagMask = 1 ∧ densExp = 2 ∧
    AUXXPID &&& AUXYPID = 0 ∧ AUXXPID &&& AUXZPID = 0 ∧ AUXYPID &&& AUXZPID = 0 ∧
    AUXPID &&& AUXDENS = 0 ∧ AUXPID &&& 2 ^ AUXTAGGED = 0 ∧ AUXDENS &&& 2 ^ AUXTAGGED = 0 ∧
    rvShift = 12 ∧ rvVelMask = 2 ^ 12 - 1 ∧ rvVelOffset = 2048 ∧ rvPosDen = 10 ^ 6 ∧
    PID_FIELDS = ["pid", "lagr_pos", "tagged", "density", "lagr_idx", "packedpid"] := by
  decide

example : AUXDENS = 0x07FE000000000000 ∧ AUXPID = 0x7FFF7FFF7FFF := by decide

/-! ## RVint -/

/-- The position field is the word, read as a signed 32-bit integer, floor-divided by 2^12 — i.e. the signed
upper 20 bits — and lies in `[-2^19, 2^19)`. -/
theorem rvPos_layout (w : BitVec 32) :
    rvPos w = w.toInt / 4096 ∧ -524288 ≤ rvPos w ∧ rvPos w < 524288 := by
  rw [rvPos_eq_div, toInt32_cond]
  have := w.isLt
  split <;> omega

example : rvPos 0xFFFFF000#32 = -1 ∧ rvPos 0x7FFFFABC#32 = 524287 ∧ rvPos 0x80000FFF#32 = -524288 := by decide

/-- The same in terms of the bit pattern: the upper 20 bits `u = w / 2^12` as an unsigned number,
minus `2^20` when the top bit is set (two's complement). -/
theorem rvPos_bits (w : BitVec 32) :
    rvPos w = ((w.toNat / 4096 : Nat) : Int) - (if w.toNat / 4096 < 524288 then 0 else 1048576) := by
  rw [rvPos_eq_div, toInt32_cond]
  have := w.isLt
  split <;> split <;> omega

example : rvPos 0x80000FFF#32 = ((0x80000 : Nat) : Int) - 1048576 := by decide

/-- The velocity field is the lower 12 bits minus 2048. -/
theorem rvVel_layout (w : BitVec 32) : rvVel w = ((w.toNat % 4096 : Nat) : Int) - 2048 :=
  rvVel_eq_mod w

example : rvVel 0xFFFFF000#32 = -2048 ∧ rvVel 0x12345FFF#32 = 2047 ∧ rvVel 0x80000800#32 = 0 := by decide

theorem rvVel_range (w : BitVec 32) : -2048 ≤ rvVel w ∧ rvVel w < 2048 := by
  rw [rvVel_layout]; omega

example : rvVel 0#32 = -2048 := by decide

/-- The sign extension is arithmetic: the word with only bit 31 set decodes to the most negative position
(this is the value the translator observed on the real kernel). -/
theorem rvPos_top_bit : rvPos 0x80000000#32 = rvPosTopBit ∧ rvPosTopBit = -524288 := by decide

example : rvPos 0x80000000#32 < 0 := by decide

/-- The position depends only on bits 12–31 and the velocity only on bits 0–11; in particular both are
given by the tables over the upper 20 / lower 12 bits that the exhaustive check uses. -/
theorem rv_fields_independent (w w' : BitVec 32) :
    (w.toNat / 4096 = w'.toNat / 4096 → rvPos w = rvPos w') ∧
    (w.toNat % 4096 = w'.toNat % 4096 → rvVel w = rvVel w') ∧
    rvPos w = rvPos (BitVec.ofNat 32 (w.toNat / 4096 * 4096)) ∧
    rvVel w = rvVel (BitVec.ofNat 32 (w.toNat % 4096)) := by
  refine ⟨fun h => by rw [rvPos_bits, rvPos_bits, h], fun h => by rw [rvVel_layout, rvVel_layout, h], ?_, ?_⟩
  · rw [rvPos_bits, rvPos_bits, BitVec.toNat_ofNat]
    have := w.isLt
    have : (w.toNat / 4096 * 4096) % 2 ^ 32 / 4096 = w.toNat / 4096 := by omega
    rw [this]
  · rw [rvVel_layout, rvVel_layout, BitVec.toNat_ofNat]
    have : w.toNat % 4096 % 2 ^ 32 % 4096 = w.toNat % 4096 := by omega
    rw [this]

example : rvPos 0x12345678#32 = rvPos 0x12345FFF#32 ∧ rvVel 0x12345678#32 = rvVel 0xFFFFF678#32 := by decide

/-- physical scales: `Box/10^6` per position unit, `6000/2048` km/s per velocity unit -/
theorem rv_scales (box : ℚ) (w : BitVec 32) :
    rvPosPhys box w = (rvPos w : ℚ) * box / 10 ^ 6 ∧ rvVelPhys w = (rvVel w : ℚ) * 6000 / 2048 := by
  unfold rvPosPhys rvVelPhys posScale velScale
  simp only [rvPosDen, rvVelScaleNum, rvVelScaleDen]
  constructor <;> ring

example : rvPosPhys 2000 0x00001000#32 = 1 / 500 ∧ rvVelPhys 0x00000801#32 = 375 / 128 := by
  constructor <;> decide +kernel

/-! ### decode ∘ encode -/

/-- A word built from an in-range position `p` and 12-bit velocity code `v` decodes to exactly `p` and `v - 2048`. -/
theorem rv_decode_encWord (p v : Int) (hp : -524288 ≤ p ∧ p < 524288) (hv : 0 ≤ v ∧ v < 4096) :
    rvPos (encWord p v) = p ∧ rvVel (encWord p v) = v - 2048 := by
  have hI : (encWord p v).toInt = p * 4096 + v := by
    unfold encWord
    rw [BitVec.toInt_ofInt, Int.bmod_def]
    split <;> omega
  have hN : ((encWord p v).toNat : Int) = (p * 4096 + v) % 4294967296 := by
    unfold encWord
    rw [BitVec.toNat_ofInt]
    have : (0 : Int) ≤ (p * 4096 + v) % ((2 ^ 32 : Nat) : Int) := Int.emod_nonneg _ (by decide)
    rw [Int.toNat_of_nonneg this]
    rfl
  constructor
  · rw [rvPos_eq_div, hI]; omega
  · rw [rvVel_layout]; omega

example : rvPos (encWord (-3) 5) = -3 ∧ rvVel (encWord (-3) 5) = 5 - 2048 := by decide

/-- **Round trip, positions.**  For every box size `box > 0` and every rational position `x` whose code
`round(x·10^6/box)` fits the signed 20 bits (and any velocity code), decoding the encoded word returns `x` to
within half a position quantum `box / (2·10^6)`. -/
theorem rv_roundtrip_pos (box x : ℚ) (v : Int) (hbox : 0 < box)
    (hp : -524288 ≤ encPos box x ∧ encPos box x < 524288) (hv : 0 ≤ v ∧ v < 4096) :
    |rvPosPhys box (encWord (encPos box x) v) - x| ≤ box / 10 ^ 6 / 2 := by
  have hs : 0 < posScale box := by
    unfold posScale; simp only [rvPosDen]; positivity
  have hsc : posScale box = box / 10 ^ 6 := by unfold posScale; simp only [rvPosDen]; norm_num
  unfold rvPosPhys
  rw [(rv_decode_encWord _ v hp hv).1, ← hsc]
  unfold encPos
  have h := rhe_close (x / posScale box)
  have hx : x = x / posScale box * posScale box := by field_simp
  generalize x / posScale box = y at h hx
  rw [hx, ← sub_mul, abs_mul, abs_of_pos hs]
  calc |((rhe y : Int) : ℚ) - y| * posScale box ≤ 1 / 2 * posScale box :=
        mul_le_mul_of_nonneg_right h hs.le
    _ = posScale box / 2 := by ring

example : (-524288 ≤ encPos 2000 (123456789 / 1000000) ∧ encPos 2000 (123456789 / 1000000) < 524288) := by
  decide +kernel

/-- **Round trip, velocities.**  For every rational velocity `u` whose code `round(u·2048/6000) + 2048` fits the
12 bits (and any in-range position code), decoding returns `u` to within half a velocity quantum. -/
theorem rv_roundtrip_vel (u : ℚ) (p : Int) (hp : -524288 ≤ p ∧ p < 524288)
    (hv : 0 ≤ encVel u ∧ encVel u < 4096) :
    |rvVelPhys (encWord p (encVel u)) - u| ≤ 6000 / 2048 / 2 := by
  have hs : (0 : ℚ) < velScale := by
    unfold velScale; simp only [rvVelScaleNum, rvVelScaleDen]; norm_num
  have hsc : velScale = 6000 / 2048 := by
    unfold velScale; simp only [rvVelScaleNum, rvVelScaleDen]; norm_num
  unfold rvVelPhys
  rw [(rv_decode_encWord p _ hp hv).2, ← hsc]
  unfold encVel
  simp only [rvVelOffset]
  have h := rhe_close (u / velScale)
  have hu : u = u / velScale * velScale := by field_simp
  generalize u / velScale = y at h hu
  have he : ((rhe y + ((2048 : Nat) : Int) - 2048 : Int) : ℚ) = ((rhe y : Int) : ℚ) := by push_cast; ring
  rw [he, hu, ← sub_mul, abs_mul, abs_of_pos hs]
  calc |((rhe y : Int) : ℚ) - y| * velScale ≤ 1 / 2 * velScale :=
        mul_le_mul_of_nonneg_right h hs.le
    _ = velScale / 2 := by ring

example : (0 ≤ encVel (-12345 / 10) ∧ encVel (-12345 / 10) < 4096) := by decide +kernel

/-! ## aux words -/

/-- The three Lagrangian indices are the 15-bit fields at bits 0–14, 16–30, 32–46 (the uint64 value used for
`lagr_pos`). -/
theorem aux_lagrCoord_layout (k : Fin 3) (w : BitVec 64) :
    lagrCoord k w = w.toNat / 2 ^ (16 * k.val) % 2 ^ 15 := lagrCoord_eq k w

example : lagrCoord 0 0xFFFF800180027FFF#64 = 0x7FFF ∧ lagrCoord 1 0xFFFF800180027FFF#64 = 2 ∧
    lagrCoord 2 0xFFFF800180027FFF#64 = 1 := by decide

/-- … and the `int16` array `lagr_idx` receives the same value (no wrap-around in the 16-bit store). -/
theorem aux_lagrIdx_layout (k : Fin 3) (w : BitVec 64) :
    lagrIdx k w = ((w.toNat / 2 ^ (16 * k.val) % 2 ^ 15 : Nat) : Int) := by
  rw [lagrIdx_eq, lagrCoord_eq]

example : lagrIdx 1 0xFFFFFFFFFFFFFFFF#64 = 32767 := by decide

/-- Lagrangian position = index · Box/ppd − Box/2. -/
theorem aux_lagrPos_layout (box : ℚ) (ppd : Int) (k : Fin 3) (w : BitVec 64) :
    lagrPos box ppd k w = ((w.toNat / 2 ^ (16 * k.val) % 2 ^ 15 : Nat) : ℚ) * box / (ppd : ℚ) - box / 2 := by
  unfold lagrPos
  rw [lagrCoord_eq]
  ring

example : lagrPos 2000 1000 1 0x0000000000030000#64 = -994 := by decide +kernel

/-- The tagged flag is bit 48. -/
theorem aux_tagged_layout (w : BitVec 64) : tagged w = w.toNat / 2 ^ 48 % 2 := tagged_eq w

example : tagged 0x0001000000000000#64 = 1 ∧ tagged 0xFFFEFFFFFFFFFFFF#64 = 0 := by decide

/-- The density is the square of the 10-bit field at bits 49–58 (no overflow in the uint64 square). -/
theorem aux_density_layout (w : BitVec 64) : density w = (w.toNat / 2 ^ 49 % 2 ^ 10) ^ 2 := by
  unfold density
  rw [densField_eq]
  simp only [densExp]
  have h : w.toNat / 2 ^ 49 % 2 ^ 10 < 2 ^ 10 := Nat.mod_lt _ (by decide)
  generalize w.toNat / 2 ^ 49 % 2 ^ 10 = d at h
  apply Nat.mod_eq_of_lt
  calc d ^ 2 = d * d := by ring
    _ ≤ 2 ^ 10 * 2 ^ 10 := Nat.mul_le_mul h.le h.le
    _ < 2 ^ 64 := by decide

example : density 0x07FE000000000000#64 = 1023 ^ 2 ∧ density 0xF801FFFFFFFFFFFF#64 = 0 := by decide

/-- The particle id is the non-negative number made of the three index fields in place. -/
theorem aux_pid_layout (w : BitVec 64) :
    pid w = ((w.toNat % 2 ^ 15 + (w.toNat / 2 ^ 16 % 2 ^ 15) * 2 ^ 16 + (w.toNat / 2 ^ 32 % 2 ^ 15) * 2 ^ 32 : Nat) : Int) := by
  rw [pid_eq]
  congr 1
  generalize w.toNat = a
  have e0 : (a &&& AUXPID) % 2 ^ 16 = a % 2 ^ 15 := by
    rw [Nat.and_mod_two_pow, show AUXPID % 2 ^ 16 = 2 ^ 15 - 1 by decide, Nat.and_two_pow_sub_one_eq_mod]
    omega
  have e1 : (a &&& AUXPID) / 2 ^ 16 % 2 ^ 16 = a / 2 ^ 16 % 2 ^ 15 := by
    rw [Nat.and_div_two_pow, Nat.and_mod_two_pow, show AUXPID / 2 ^ 16 % 2 ^ 16 = 2 ^ 15 - 1 by decide,
      Nat.and_two_pow_sub_one_eq_mod]
    omega
  have e2 : (a &&& AUXPID) / 2 ^ 16 / 2 ^ 16 = a / 2 ^ 32 % 2 ^ 15 := by
    rw [Nat.and_div_two_pow, Nat.and_div_two_pow, show AUXPID / 2 ^ 16 / 2 ^ 16 = 2 ^ 15 - 1 by decide,
      Nat.and_two_pow_sub_one_eq_mod]
    omega
  generalize a &&& AUXPID = x at e0 e1 e2
  omega

example : pid 0xFFFFFFFFFFFFFFFF#64 = 0x7FFF7FFF7FFF := by decide

/-- Bit `i` of the particle id is bit `i` of the word when `i` is one of the 45 id bits (`i < 47`, `i mod 16 < 15`)
and is clear otherwise: density, tagged and the spare bits 15, 31, 47, 59–63 never leak into the id. -/
theorem pid_has_only_id_bits (w : BitVec 64) :
    0 ≤ pid w ∧ ∀ i : Nat, (pid w).toNat.testBit i = (w.toNat.testBit i && decide (i < 47 ∧ i % 16 < 15)) := by
  rw [pid_eq]
  refine ⟨Int.natCast_nonneg _, fun i => ?_⟩
  rw [Int.toNat_natCast, Nat.testBit_and, auxpid_testBit]

example : (pid 0xFFFFFFFFFFFFFFFF#64).toNat.testBit 46 = true ∧ (pid 0xFFFFFFFFFFFFFFFF#64).toNat.testBit 47 = false ∧
    (pid 0xFFFFFFFFFFFFFFFF#64).toNat.testBit 48 = false := by decide

/-- Each field is a function of the word's bits under the field's own mask only: two words that agree there
decode to the same field, whatever their other bits are. -/
theorem aux_fields_independent (w w' : BitVec 64) :
    (∀ k : Fin 3, w &&& BitVec.ofNat 64 (lagrMask k) = w' &&& BitVec.ofNat 64 (lagrMask k) →
      lagrCoord k w = lagrCoord k w' ∧ lagrIdx k w = lagrIdx k w' ∧
      ∀ box ppd, lagrPos box ppd k w = lagrPos box ppd k w') ∧
    (w &&& BitVec.ofNat 64 (2 ^ AUXTAGGED) = w' &&& BitVec.ofNat 64 (2 ^ AUXTAGGED) → tagged w = tagged w') ∧
    (w &&& BitVec.ofNat 64 AUXDENS = w' &&& BitVec.ofNat 64 AUXDENS → density w = density w') ∧
    (w &&& BitVec.ofNat 64 AUXPID = w' &&& BitVec.ofNat 64 AUXPID → pid w = pid w') := by
  refine ⟨fun k h => ?_, fun h => ?_, fun h => ?_, fun h => ?_⟩
  · have hc : lagrCoord k w = lagrCoord k w' := by unfold lagrCoord field; rw [h]
    refine ⟨hc, by unfold lagrIdx field; rw [h], fun box ppd => by unfold lagrPos; rw [hc]⟩
  · rw [tagged_eq, tagged_eq]
    have h' := congrArg BitVec.toNat h
    simp only [BitVec.toNat_and, BitVec.toNat_ofNat, AUXTAGGED] at h'
    rw [Nat.mod_eq_of_lt (by decide)] at h'
    have hb : w.toNat.testBit 48 = w'.toNat.testBit 48 := by
      have := congrArg (fun n => Nat.testBit n 48) h'
      have t : Nat.testBit 281474976710656 48 = true := by decide
      simpa [Nat.testBit_and, t] using this
    rw [Nat.testBit_eq_decide_div_mod_eq, Nat.testBit_eq_decide_div_mod_eq] at hb
    have := Nat.mod_lt (w.toNat / 2 ^ 48) (show 0 < 2 by decide)
    have := Nat.mod_lt (w'.toNat / 2 ^ 48) (show 0 < 2 by decide)
    have hiff := decide_eq_decide.mp hb
    omega
  · unfold density densField field; rw [h]
  · unfold pid; rw [h]

example : tagged 0x0001FFFFFFFFFFFF#64 = tagged 0x0001000000000000#64 ∧
    lagrCoord 1 0xFFFF12345678FFFF#64 = lagrCoord 1 0x0000000056780000#64 := by decide

/-- Flipping any set of bits outside a field's mask leaves the field unchanged. -/
theorem aux_fields_ignore_other_bits (w d : BitVec 64) :
    (∀ k : Fin 3, d &&& BitVec.ofNat 64 (lagrMask k) = 0#64 → lagrCoord k (w ^^^ d) = lagrCoord k w ∧ lagrIdx k (w ^^^ d) = lagrIdx k w) ∧
    (d &&& BitVec.ofNat 64 (2 ^ AUXTAGGED) = 0#64 → tagged (w ^^^ d) = tagged w) ∧
    (d &&& BitVec.ofNat 64 AUXDENS = 0#64 → density (w ^^^ d) = density w) ∧
    (d &&& BitVec.ofNat 64 AUXPID = 0#64 → pid (w ^^^ d) = pid w) := by
  have key : ∀ m : BitVec 64, d &&& m = 0#64 → (w ^^^ d) &&& m = w &&& m := by
    intro m hm
    apply BitVec.eq_of_toNat_eq
    have h0 : d.toNat &&& m.toNat = 0 := by
      have := congrArg BitVec.toNat hm
      simpa using this
    rw [BitVec.toNat_and, BitVec.toNat_xor, Nat.and_xor_distrib_right, h0, BitVec.toNat_and]
    simp
  have ind := aux_fields_independent (w ^^^ d) w
  refine ⟨fun k h => ?_, fun h => ind.2.1 (key _ h), fun h => ind.2.2.1 (key _ h), fun h => ind.2.2.2 (key _ h)⟩
  have := ind.1 k (key _ h)
  exact ⟨this.1, this.2.1⟩

example : density (0x07FE000000000000#64 ^^^ 0xF801FFFFFFFFFFFF#64) = density 0x07FE000000000000#64 := by decide

/-! ## kernels and wrappers: output selection -/

/-- **The kernel loop.**  If every requested output array has at least `N = xs.length` rows, the kernel does not
fault and output `j` receives exactly the writes `(i, f_j(xs[i]))` for `i = 0 … N-1` (nothing for an output that
is `None`) — a function of that output's own slot and of the input only. -/
theorem kernel_spec {ι : Type} (slots : List (Slot ι)) (xs : List ι)
    (h : ∀ s ∈ slots, ∀ r, s.rows = some r → xs.length ≤ r) :
    kernel slots xs = .ok (slots.map (fun s => slotWrites s 0 xs)) := by
  unfold kernel
  have hf : Fits (slots.map (fun s => (s, ([] : Writes)))) (0 + xs.length) := by
    intro p hp r hr
    obtain ⟨s, hs, rfl⟩ := List.mem_map.mp hp
    simpa using h s hs r hr
  rw [runSlots_ok xs 0 _ hf]
  simp [List.map_map, Function.comp]

example : kernel [⟨some 2, fun (w : BitVec 64) => .int (pid w)⟩, ⟨none, fun w => .int (tagged w)⟩] [5#64, 6#64] =
    .ok [[(0, .int 5), (1, .int 6)], []] := by decide

/-- If some requested output array is shorter than the input, the kernel faults with an out-of-bounds store. -/
theorem kernel_oob {ι : Type} (slots : List (Slot ι)) (xs : List ι)
    (h : ∃ s ∈ slots, ∃ r, s.rows = some r ∧ r < xs.length) :
    kernel slots xs = .error .oob := by
  unfold kernel
  rw [runSlots_err xs 0]
  · obtain ⟨s, hs, r, hr, hlt⟩ := h
    exact ⟨(s, []), List.mem_map.mpr ⟨s, hs, rfl⟩, r, hr, by simpa using hlt⟩
  · intro p _ r _; exact Nat.zero_le r

example : kernel [⟨some 1, fun (w : BitVec 64) => .int (pid w)⟩] [5#64, 6#64] = .error .oob := by decide

/-- a supplied array must be viewable as `(-1, 3)` -/
def shapeOk : OutReq → Bool
  | .supplied n => n % 3 = 0
  | _ => true

/-- … and have at least `N` rows -/
def fits (N : Nat) : OutReq → Bool
  | .supplied n => N ≤ n / 3
  | _ => true

/-- what `unpack_rvint` returns for one output: a function of that output's request and of the data only -/
def expectedRet (req : OutReq) (f : Row32 → Val) (data : List Row32) : Ret :=
  match req with
  | .allocate => .arr data.length (fullWrites f data)
  | .skip => .cnt 0 []
  | .supplied _ => .cnt data.length (fullWrites f data)

/-- **`unpack_rvint`, completely.**  Input that is not a whole number of triples, or a supplied array that
cannot be viewed as `(-1,3)`, is rejected; a supplied array with fewer rows than the input is an out-of-bounds
store; otherwise each of the two returned values is `expectedRet` of *its own* request: a new `(N,3)` array
with every row decoded (`None`), the integer 0 and nothing written (`False`), or the integer `N` with rows
`0…N-1` of the caller's array written and the rest untouched (supplied). -/
theorem unpackRvint_spec (flat : List (BitVec 32)) (box : Rat) (posout velout : OutReq) :
    unpackRvint flat box posout velout =
      match triples flat with
      | none => .error .rejected
      | some data =>
        if shapeOk posout && shapeOk velout then
          if fits data.length posout && fits data.length velout then
            .ok (expectedRet posout (posRow box) data, expectedRet velout velRow data)
          else .error .oob
        else .error .rejected := by
  unfold unpackRvint
  cases htr : triples flat with
  | none => rfl
  | some data =>
    simp only
    have hrows : ∀ req : OutReq, req.rows data.length =
        if shapeOk req then .ok (match req with | .allocate => some data.length | .skip => none | .supplied n => some (n / 3))
        else .error .rejected := by
      intro req; cases req <;> simp [OutReq.rows, shapeOk]
    rw [hrows posout, hrows velout]
    cases hsp : shapeOk posout
    · cases hsv : shapeOk velout <;> simp
    cases hsv : shapeOk velout
    · simp
    simp only [Bool.and_self, if_true]
    unfold kernelRvint
    cases hfp : fits data.length posout <;> cases hfv : fits data.length velout <;>
      simp only [Bool.false_and, Bool.and_false, Bool.and_self, if_true, if_false, Bool.false_eq_true]
    · rw [kernel_oob]
      cases posout <;> simp [fits] at hfp
      exact ⟨_, List.mem_cons_self, _, rfl, by omega⟩
    · rw [kernel_oob]
      cases posout <;> simp [fits] at hfp
      exact ⟨_, List.mem_cons_self, _, rfl, by omega⟩
    · rw [kernel_oob]
      cases velout <;> simp [fits] at hfv
      exact ⟨_, List.mem_cons_of_mem _ List.mem_cons_self, _, rfl, by omega⟩
    · rw [kernel_spec]
      · cases posout <;> cases velout <;>
          simp [slotWrites_some, slotWrites_none, OutReq.ret, expectedRet]
      · intro s hs r hr
        simp only [List.mem_cons, List.mem_nil_iff, or_false] at hs
        rcases hs with rfl | rfl
        · cases posout <;> simp [fits] at hfp hr <;> omega
        · cases velout <;> simp [fits] at hfv hr <;> omega

example : unpackRvint [0xFFFFF000#32, 0x00001FFF#32, 0x80000800#32] 2000 (.supplied 6) .skip =
    .ok (.cnt 1 [(0, .triRat (-1/500) (1/500) (-131072/125))], .cnt 0 []) := by decide +kernel
example : unpackRvint [1#32, 2#32, 3#32, 4#32, 5#32, 6#32] 2000 (.supplied 3) .allocate = .error .oob := by decide +kernel

/-- the particles-per-dimension `unpack_pids` passes on: 1 when absent, the rounded value when it is close to an
integer, otherwise the call is rejected -/
def ppdOf : Option Rat → Option Int
  | none => some 1
  | some q => if ppdValid q then some (rhe q) else none

/-- the dict `unpack_pids` returns, as a function of the arguments: one entry per requested field, in the order
pid, lagr_pos, lagr_idx, tagged, density, each an `N`-row array with every row decoded -/
def expectedPids (packed : List (BitVec 64)) (box : Rat) (ppd : Int) (sel : PidSel) : List (String × Nat × Writes) :=
  (if sel.pid then [("pid", packed.length, fullWrites (fun w => .int (pid w)) packed)] else []) ++
  (if sel.lagrPos then [("lagr_pos", packed.length, fullWrites (lagrPosRow box ppd) packed)] else []) ++
  (if sel.lagrIdx then [("lagr_idx", packed.length, fullWrites lagrIdxRow packed)] else []) ++
  (if sel.tagged then [("tagged", packed.length, fullWrites (fun w => .int (tagged w)) packed)] else []) ++
  (if sel.density then [("density", packed.length, fullWrites (fun w => .int (density w)) packed)] else [])

private theorem mem_expectedPids (packed : List (BitVec 64)) (box : Rat) (ppd : Int) (sel : PidSel) (e : String × Nat × Writes) :
    e ∈ expectedPids packed box ppd sel ↔
      (sel.pid = true ∧ e = ("pid", packed.length, fullWrites (fun w => .int (pid w)) packed)) ∨
      (sel.lagrPos = true ∧ e = ("lagr_pos", packed.length, fullWrites (lagrPosRow box ppd) packed)) ∨
      (sel.lagrIdx = true ∧ e = ("lagr_idx", packed.length, fullWrites lagrIdxRow packed)) ∨
      (sel.tagged = true ∧ e = ("tagged", packed.length, fullWrites (fun w => .int (tagged w)) packed)) ∨
      (sel.density = true ∧ e = ("density", packed.length, fullWrites (fun w => .int (density w)) packed)) := by
  have aux : ∀ (c : Bool) (x : String × Nat × Writes), e ∈ (if c = true then [x] else []) ↔ (c = true ∧ e = x) := by
    intro c x; cases c <;> simp
  simp only [expectedPids, List.mem_append, aux, or_assoc]

/-- **`unpack_pids`, completely.**  `lagr_pos` without `box` or `ppd`, a `ppd` that is not (close to) an integer,
and `ppd = 0` are rejected; otherwise exactly the requested fields are returned, each decoded on every row
by its own formula — no entry depends on which other fields were requested. -/
theorem unpackPids_spec (packed : List (BitVec 64)) (box ppd : Option Rat) (sel : PidSel) :
    unpackPids packed box ppd sel =
      if sel.lagrPos && (box.isNone || ppd.isNone) then .error .rejected
      else match ppdOf ppd with
        | none => .error .rejected
        | some P => if P = 0 then .error .rejected else .ok (expectedPids packed (boxOf box) P sel) := by
  have core : ∀ (b : Rat) (P : Int), unpackPidsCore packed b P sel =
      if P = 0 then .error .rejected else .ok (expectedPids packed b P sel) := by
    intro b P
    unfold unpackPidsCore kernelPids
    by_cases hP0 : P = 0
    · simp [hP0]
    · simp only [hP0, if_false]
      rw [kernel_spec]
      · obtain ⟨a, b, c, d, e⟩ := sel
        cases a <;> cases b <;> cases c <;> cases d <;> cases e <;>
          simp [pidSlots, optRows, slotWrites_some, slotWrites_none, expectedPids]
      · intro s hs r hr
        obtain ⟨a, b, c, d, e⟩ := sel
        simp only [pidSlots, List.mem_cons, List.mem_nil_iff, or_false] at hs
        rcases hs with rfl | rfl | rfl | rfl | rfl <;>
          (simp only [optRows] at hr; split at hr <;> simp at hr; omega)
  unfold unpackPids
  split
  · rfl
  · cases ppd with
    | none => simp only [ppdOf, core]
    | some q =>
      simp only [ppdOf]
      by_cases hv : ppdValid q = true
      · simp only [hv, if_true, core]
      · simp only [hv]; rfl

example : unpackPids [0x0001000000030002#64] (some 2000) (some 1000) ⟨true, false, true, false, false⟩ =
    .ok [("pid", 1, [(0, .int 0x30002)]), ("tagged", 1, [(0, .int 1)])] := by decide +kernel
example : unpackPids [5#64] none none ⟨false, true, false, false, false⟩ = .error .rejected := by decide +kernel
example : unpackPids [5#64] (some 1) (some (3/2)) ⟨true, false, false, false, false⟩ = .error .rejected := by decide +kernel

/-- **Results are the same whichever outputs are requested.**
(a) `unpack_rvint`: when two calls on the same data both succeed, the value returned for (and the rows written
to) the position output are the same whatever was asked for the velocity output, and vice versa.
(b) `unpack_pids`: when two calls with the same `box`/`ppd` both succeed, a field requested in both is returned
identically, whatever else was requested; and a field is returned iff it was requested. -/
theorem outputs_independent_of_selection :
    (∀ (flat : List (BitVec 32)) (box : Rat) (po vo vo' : OutReq) (p v p' v' : Ret),
      unpackRvint flat box po vo = .ok (p, v) → unpackRvint flat box po vo' = .ok (p', v') → p = p') ∧
    (∀ (flat : List (BitVec 32)) (box : Rat) (po po' vo : OutReq) (p v p' v' : Ret),
      unpackRvint flat box po vo = .ok (p, v) → unpackRvint flat box po' vo = .ok (p', v') → v = v') ∧
    (∀ (packed : List (BitVec 64)) (box ppd : Option Rat) (sel sel' : PidSel) (d d' : List (String × Nat × Writes)),
      unpackPids packed box ppd sel = .ok d → unpackPids packed box ppd sel' = .ok d' →
      ∀ name, (∀ e ∈ d, ∀ e' ∈ d', e.1 = name → e'.1 = name → e = e') ∧
        ((∃ e ∈ d, e.1 = name) ↔
          (name = "pid" ∧ sel.pid) ∨ (name = "lagr_pos" ∧ sel.lagrPos) ∨ (name = "lagr_idx" ∧ sel.lagrIdx) ∨
          (name = "tagged" ∧ sel.tagged) ∨ (name = "density" ∧ sel.density))) := by
  refine ⟨?_, ?_, ?_⟩
  · intro flat box po vo vo' p v p' v' h h'
    rw [unpackRvint_spec] at h h'
    cases htr : triples flat with
    | none => simp [htr] at h
    | some data =>
      simp only [htr] at h h'
      split at h <;> [skip; cases h]
      split at h <;> [skip; cases h]
      split at h' <;> [skip; cases h']
      split at h' <;> [skip; cases h']
      cases h; cases h'; rfl
  · intro flat box po po' vo p v p' v' h h'
    rw [unpackRvint_spec] at h h'
    cases htr : triples flat with
    | none => simp [htr] at h
    | some data =>
      simp only [htr] at h h'
      split at h <;> [skip; cases h]
      split at h <;> [skip; cases h]
      split at h' <;> [skip; cases h']
      split at h' <;> [skip; cases h']
      cases h; cases h'; rfl
  · intro packed box ppd sel sel' d d' h h' name
    rw [unpackPids_spec] at h h'
    split at h <;> [cases h; skip]
    split at h' <;> [cases h'; skip]
    cases hP : ppdOf ppd with
    | none => simp [hP] at h
    | some P =>
      simp only [hP] at h h'
      split at h <;> [cases h; skip]
      split at h' <;> [cases h'; skip]
      cases h; cases h'
      constructor
      · intro x hx y hy hxn hyn
        rw [mem_expectedPids] at hx hy
        rcases hx with ⟨_, rfl⟩ | ⟨_, rfl⟩ | ⟨_, rfl⟩ | ⟨_, rfl⟩ | ⟨_, rfl⟩ <;>
          rcases hy with ⟨_, rfl⟩ | ⟨_, rfl⟩ | ⟨_, rfl⟩ | ⟨_, rfl⟩ | ⟨_, rfl⟩ <;>
          first
            | rfl
            | (exfalso; simp only at hxn hyn; subst hxn; simp at hyn)
      · constructor
        · rintro ⟨x, hx, rfl⟩
          rw [mem_expectedPids] at hx
          rcases hx with ⟨h, rfl⟩ | ⟨h, rfl⟩ | ⟨h, rfl⟩ | ⟨h, rfl⟩ | ⟨h, rfl⟩ <;> simp [h]
        · rintro (⟨rfl, h⟩ | ⟨rfl, h⟩ | ⟨rfl, h⟩ | ⟨rfl, h⟩ | ⟨rfl, h⟩)
          · exact ⟨_, (mem_expectedPids ..).mpr (Or.inl ⟨h, rfl⟩), rfl⟩
          · exact ⟨_, (mem_expectedPids ..).mpr (Or.inr (Or.inl ⟨h, rfl⟩)), rfl⟩
          · exact ⟨_, (mem_expectedPids ..).mpr (Or.inr (Or.inr (Or.inl ⟨h, rfl⟩))), rfl⟩
          · exact ⟨_, (mem_expectedPids ..).mpr (Or.inr (Or.inr (Or.inr (Or.inl ⟨h, rfl⟩)))), rfl⟩
          · exact ⟨_, (mem_expectedPids ..).mpr (Or.inr (Or.inr (Or.inr (Or.inr ⟨h, rfl⟩)))), rfl⟩

example : (unpackRvint [1#32, 2#32, 3#32] 2000 .allocate .skip).toBool = true ∧
    (unpackRvint [1#32, 2#32, 3#32] 2000 .allocate (.supplied 6)).toBool = true ∧
    (unpackPids [7#64] (some 2000) (some 1000) ⟨true, true, false, false, true⟩).toBool = true ∧
    (unpackPids [7#64] (some 2000) (some 1000) ⟨false, true, true, true, false⟩).toBool = true := by decide +kernel

/-- `empty_bitpacked_arrays(N, True)` creates an array for every name in `PID_FIELDS`, and for any request only
names from the documented set, each with its documented dtype and shape. -/
theorem emptyArrays_all :
    (∀ n ∈ PID_FIELDS, ∃ e ∈ emptyArrays .all, e.1 = n) ∧
    emptyArrays .all = [("pid", "i8", 1), ("lagr_pos", "f", 3), ("lagr_idx", "i2", 3), ("tagged", "u1", 1),
                        ("density", "f", 1), ("packedpid", "u8", 1)] ∧
    emptyArrays .pidOnly = [("pid", "i8", 1)] ∧
    (∀ bits, ∀ e ∈ emptyArrays bits, e ∈ emptyArrays .all ∧ e.1 ∈ bits.names) := by
  refine ⟨by decide, by decide, by decide, ?_⟩
  intro bits e he
  have hall : emptyArrays .all = [("pid", "i8", 1), ("lagr_pos", "f", 3), ("lagr_idx", "i2", 3), ("tagged", "u1", 1),
                        ("density", "f", 1), ("packedpid", "u8", 1)] := by decide
  rw [hall]
  have aux : ∀ (c : Prop) [Decidable c] (x : String × String × Nat), e ∈ (if c then [x] else []) ↔ (c ∧ e = x) := by
    intro c _ x; by_cases hc : c <;> simp [hc]
  simp only [emptyArrays, List.mem_append, aux] at he
  rcases he with ((((⟨h, rfl⟩ | ⟨h, rfl⟩) | ⟨h, rfl⟩) | ⟨h, rfl⟩) | ⟨h, rfl⟩) | ⟨h, rfl⟩ <;> exact ⟨by decide, h⟩

example : emptyArrays (.many ["tagged", "lagr_pos", "nonsense"]) = [("lagr_pos", "f", 3), ("tagged", "u1", 1)] := by decide

end AbacusVerif.Bitpacked
