/-
  C17 — `abacusnbody.analysis.tsc.partition_parallel`: the parallel counting sort is the stable
  partition by stripe key, for every thread count and block sequence and every interleaving of the
  threads' writes.  Model: `AbacusVerif.Model.C17`; helper lemmas: `AbacusVerif.Lemmas.C17`
  (which also holds the vocabulary `BlocksOK`, `KeysOK`, `members`).
-/
import AbacusVerif.Lemmas.C17

namespace AbacusVerif.Partition
open AbacusVerif

variable {α : Type}

/-- the key of a non-negative coordinate is `min(⌊x·np/box⌋, np − 1)` and the index never faults -/
theorem key_spec (np : Nat) (box x : ℚ) (hnp : 0 < np) (hbox : 0 < box) (hx0 : 0 ≤ x) :
    effKey np box x = .ok (min (x * np / box).floor.toNat (np - 1)) := by
  unfold effKey idx
  rw [keyInt_nonneg np box x hnp hbox hx0, pyIndex_nonneg (by omega)]

example : effKey 4 10 (99/10) = .ok 3 ∧ (0 : ℚ) < 10 ∧ (0 : ℚ) ≤ 99/10 := by decide +kernel
example : effKey 4 10 (26/10) = .ok 1 := by decide +kernel
-- the upper clamp is needed: `x = box` maps to `np - 1`, not `np`
example : effKey 4 10 10 = .ok 3 := by decide +kernel

/-- `linspace(0, n, T+1).astype(int64)` is a valid block sequence -/
theorem linspaceBlocks_ok (n T : Nat) (hT : 0 < T) : BlocksOK T n (linspaceBlocks n T) := by
  unfold BlocksOK linspaceBlocks
  refine ⟨by simp, ?_, ?_, ?_⟩
  · simp [List.head?_range]
  · simp [List.getLast?_range, Nat.mul_div_cancel_left n hT]
  · rw [List.pairwise_map]
    apply List.Pairwise.imp _ List.pairwise_lt_range
    intro i j h
    exact Nat.div_le_div_right (Nat.mul_le_mul_right n (Nat.le_of_lt h))

example : linspaceBlocks 7 3 = [0, 2, 4, 7] ∧ BlocksOK 3 7 [0, 2, 4, 7] := by decide

/-- the slots written by all threads are a permutation of `range N`, and the rows are written in
input order -/
theorem scatter_indices_perm (np T : Nat) (b : List Nat) (keyed : List (Nat × α))
    (hb : BlocksOK T keyed.length b) (hk : KeysOK np keyed) :
    let ws := allWrites (countsTFlat np (threadsOf b) (keyed.map (·.1))) T (threadsOf b) keyed
    (ws.map (·.1)).Perm (List.range keyed.length) ∧ ws.map (·.2) = keyed.map (·.2) := by
  intro ws
  have : ws = W keyed := allWrites_eq np T b keyed hb hk
  rw [this]
  exact ⟨W_slots_perm np keyed hk, W_snd keyed⟩

example : BlocksOK 3 7 [0, 2, 4, 7] ∧
    KeysOK 3 [(0, 10), (2, 11), (1, 12), (1, 13), (0, 14), (2, 15), (0, 16)] ∧
    (allWrites (countsTFlat 3 (threadsOf [0, 2, 4, 7]) [0, 2, 1, 1, 0, 2, 0]) 3 (threadsOf [0, 2, 4, 7])
      [(0, 10), (2, 11), (1, 12), (1, 13), (0, 14), (2, 15), (0, 16)]).map (·.1) =
      [0, 5, 3, 4, 1, 6, 2] := by decide

/-- `starts[s]` is the number of particles with key `< s`; it runs from 0 to `N`, non-decreasing
(no `0 < T` needed: with `T = 0` the only valid block list is `[0]` and `N = 0`) -/
theorem starts_spec (np T : Nat) (b : List Nat) (keyed : List (Nat × α))
    (hb : BlocksOK T keyed.length b) (hk : KeysOK np keyed) :
    let st := starts (countsTFlat np (threadsOf b) (keyed.map (·.1))) np T keyed.length
    st = startsSpec np (keyed.map (·.1)) ∧ st.length = np + 1 ∧ st.head? = some 0 ∧
      st.getLast? = some keyed.length ∧ st.Pairwise (· ≤ ·) := by
  intro st
  have hb' : BlocksOK T (keyed.map (·.1)).length b := by simpa using hb
  have hst : st = startsSpec np (keyed.map (·.1)) := by
    have := starts_eq np T b (keyed.map (·.1)) hb' (keysOK_keys hk)
    rw [List.length_map] at this
    exact this
  have hp := startsSpec_props np (keyed.map (·.1)) (keysOK_keys hk)
  rw [List.length_map] at hp
  rw [hst]
  exact ⟨rfl, hp⟩

example : BlocksOK 3 7 [0, 2, 4, 7] ∧
    KeysOK 3 [(0, 10), (2, 11), (1, 12), (1, 13), (0, 14), (2, 15), (0, 16)] ∧
    starts (countsTFlat 3 (threadsOf [0, 2, 4, 7]) [0, 2, 1, 1, 0, 2, 0]) 3 3 7 = [0, 3, 5, 7] := by
  decide

/-- the routine succeeds and returns the stable partition and the stripe offsets; the result does not
depend on the order in which the threads' writes land (`ws'` is any permutation of the write list) -/
theorem partition_stable (np T : Nat) (b : List Nat) (keyed : List (Nat × α)) (init : List α)
    (hnp : 0 < np) (hT : 0 < T) (hb : BlocksOK T keyed.length b) (hk : KeysOK np keyed)
    (hi : init.length = keyed.length) :
    ∃ o, partition np T b keyed init none = .ok o ∧ o.psort = stable np keyed ∧
      o.starts = startsSpec np (keyed.map (·.1)) ∧
      ∀ ws', ws'.Perm o.writes → applyWritesChk init ws' = .ok (stable np keyed) := by
  refine ⟨_, partition_eq np T b keyed init none hnp hT hb hk hi, rfl, rfl, ?_⟩
  intro ws' hperm
  apply applyWritesChk_eq init (stable np keyed) ws' keyed.length hi (stable_length np keyed hk)
  · exact (hperm.map (·.1)).trans (W_slots_perm np keyed hk)
  · intro w hw
    exact W_spec np keyed hk w.1 w.2 (hperm.subset hw)

example : BlocksOK 3 7 [0, 2, 4, 7] ∧
    KeysOK 3 [(0, 10), (2, 11), (1, 12), (1, 13), (0, 14), (2, 15), (0, 16)] ∧
    (partition 3 3 [0, 2, 4, 7] [(0, 10), (2, 11), (1, 12), (1, 13), (0, 14), (2, 15), (0, 16)]
      (List.replicate 7 0) none).toOption.map (·.psort) = some [10, 14, 16, 12, 13, 11, 15] := by decide
-- a different interleaving of the same writes (thread 2 first) gives the same array
example : applyWritesChk (List.replicate 7 0)
    [(1, 14), (6, 15), (2, 16), (3, 12), (4, 13), (0, 10), (5, 11)] =
    .ok [10, 14, 16, 12, 13, 11, 15] := by decide

/-- neither the thread count, nor the block boundaries, nor the uninitialised output buffer matter -/
theorem partition_nthread_independent (np T T' : Nat) (b b' : List Nat) (keyed : List (Nat × α))
    (init init' : List α) (hnp : 0 < np) (hT : 0 < T) (hT' : 0 < T')
    (hb : BlocksOK T keyed.length b) (hb' : BlocksOK T' keyed.length b') (hk : KeysOK np keyed)
    (hi : init.length = keyed.length) (hi' : init'.length = keyed.length) :
    (partition np T b keyed init none).map (fun o => (o.psort, o.starts)) =
    (partition np T' b' keyed init' none).map (fun o => (o.psort, o.starts)) := by
  rw [partition_eq np T b keyed init none hnp hT hb hk hi,
    partition_eq np T' b' keyed init' none hnp hT' hb' hk hi']

example : BlocksOK 3 7 [0, 2, 4, 7] ∧ BlocksOK 2 7 [0, 0, 7] ∧
    (partition 3 2 [0, 0, 7] [(0, 10), (2, 11), (1, 12), (1, 13), (0, 14), (2, 15), (0, 16)]
      (List.replicate 7 99) none).toOption.map (·.psort) = some [10, 14, 16, 12, 13, 11, 15] := by decide

/-- positions and weights scattered with the same slots stay paired -/
theorem weights_move_with_positions {π ω : Type} (np : Nat) (keys : List Nat) (ps : List π) (ws : List ω)
    (h1 : ps.length = keys.length) (h2 : ws.length = keys.length) :
    stable np (keys.zip (ps.zip ws)) = (stable np (keys.zip ps)).zip (stable np (keys.zip ws)) := by
  rw [stable_eq, stable_eq, stable_eq,
    ← flatMap_zip _ _ _ (fun s => (members_zip s keys ps ws h1 h2).2)]
  congr 1
  funext s
  exact (members_zip s keys ps ws h1 h2).1

example : stable 3 ([0, 2, 1, 0].zip ([10, 11, 12, 13].zip [20, 21, 22, 23])) =
    [(10, 20), (13, 23), (12, 22), (11, 21)] := by decide

/-- with `sort=True` every stripe of the output is the sorted permutation of that stripe's members -/
theorem sorted_stripes (np T : Nat) (b : List Nat) (keyed : List (Nat × α)) (init : List α)
    (le : α → α → Bool) (htot : ∀ a c, le a c || le c a) (htr : ∀ a c d, le a c → le c d → le a d)
    (hnp : 0 < np) (hT : 0 < T) (hb : BlocksOK T keyed.length b) (hk : KeysOK np keyed)
    (hi : init.length = keyed.length) :
    ∃ o, partition np T b keyed init (some le) = .ok o ∧
      o.psort = (List.range np).flatMap (fun s => (members keyed s).mergeSort le) ∧
      o.starts = startsSpec np (keyed.map (·.1)) ∧
      ∀ s, s < np →
        slice ((keyed.map (·.1)).countP (· < s)) ((keyed.map (·.1)).countP (· < s + 1)) o.psort =
          (members keyed s).mergeSort le ∧
        ((members keyed s).mergeSort le).Perm (members keyed s) ∧
        ((members keyed s).mergeSort le).Pairwise (fun a c => le a c) := by
  refine ⟨_, partition_eq np T b keyed init (some le) hnp hT hb hk hi, ?_, rfl, ?_⟩
  · exact sortSlices_stable le np keyed
  · intro s hs
    refine ⟨?_, List.mergeSort_perm _ _, List.pairwise_mergeSort htr htot _⟩
    show slice _ _ (sortSlices le _ (stable np keyed)) = _
    rw [sortSlices_stable]
    exact sorted_stripe_slice le np keyed s hs

-- (`mergeSort` is defined by well-founded recursion, so this instance goes through the theorem and
-- evaluates the specification with `simp` instead of `decide`)
example : ∃ o, partition 2 2 [0, 2, 5] [(1, 7), (0, 9), (1, 3), (0, 4), (1, 5)] (List.replicate 5 0)
    (some (fun a c => decide (a ≤ c))) = .ok o ∧ o.psort = [4, 9, 3, 5, 7] ∧ o.starts = [0, 2, 5] := by
  obtain ⟨o, h, hp, hs, _⟩ := sorted_stripes 2 2 [0, 2, 5] [(1, 7), (0, 9), (1, 3), (0, 4), (1, 5)]
    (List.replicate 5 0) (fun a c => decide (a ≤ c)) (by intro a c; simp; omega)
    (by intro a c d; simp; omega) (by decide) (by decide) (by decide) (by decide) rfl
  refine ⟨o, h, ?_, ?_⟩
  · rw [hp]
    simp [members, List.range, List.range.loop, List.mergeSort, List.MergeSort.Internal.splitInTwo]
  · rw [hs]; decide

/-- no particles: empty output, all offsets zero -/
theorem empty_input (np T : Nat) (hnp : 0 < np) (hT : 0 < T) (sort : Option (α → α → Bool)) :
    (partition np T (linspaceBlocks 0 T) ([] : List (Nat × α)) [] sort).map (fun o => (o.psort, o.starts)) =
      .ok ([], List.replicate (np + 1) 0) := by
  rw [partition_eq np T (linspaceBlocks 0 T) [] [] sort hnp hT (linspaceBlocks_ok 0 T hT)
    (fun ka h => by simp at h) rfl]
  have h1 : stable np ([] : List (Nat × α)) = [] := by simp [stable]
  have h2 : startsSpec np [] = List.replicate (np + 1) 0 := by
    simp [startsSpec]
  cases sort with
  | none => simp [Except.map, h1, h2]
  | some le => simp [Except.map, h1, h2, sortSlices_nil]

example : (partition 3 2 (linspaceBlocks 0 2) ([] : List (Nat × Nat)) [] none).map
    (fun o => (o.psort, o.starts)) = .ok ([], [0, 0, 0, 0]) := by decide

/-- more threads than particles (`N < T`: some blocks are empty) is an instance of `partition_stable` -/
theorem more_threads_than_particles (np T : Nat) (keyed : List (Nat × α)) (init : List α)
    (hnp : 0 < np) (hT : 0 < T) (_hlt : keyed.length < T) (hk : KeysOK np keyed)
    (hi : init.length = keyed.length) :
    ∃ o, partition np T (linspaceBlocks keyed.length T) keyed init none = .ok o ∧
      o.psort = stable np keyed ∧ o.starts = startsSpec np (keyed.map (·.1)) ∧
      ∀ ws', ws'.Perm o.writes → applyWritesChk init ws' = .ok (stable np keyed) :=
  partition_stable np T (linspaceBlocks keyed.length T) keyed init hnp hT
    (linspaceBlocks_ok keyed.length T hT) hk hi

example : linspaceBlocks 2 5 = [0, 0, 0, 1, 1, 2] ∧
    (partition 2 5 (linspaceBlocks 2 5) [(1, 7), (0, 9)] [0, 0] none).toOption.map (·.psort) =
      some [9, 7] := by decide

end AbacusVerif.Partition
