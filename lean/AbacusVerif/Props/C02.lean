/-
  C02 — a halo column's values do not depend on what else was requested.

  Property theorems about the model of `_setup_fields` / `_read_halo_info` /
  `_get_halo_fields_dependencies` / `_load_halo_field` in Model/C02.lean.  They hold for every `Spec`
  (loader table + dtype tables) that satisfies two decidable well-formedness checks, which the kernel
  evaluates on the tables generated from the current source (`generated_wf`), for every request
  (defaults / 'all' / any list in any order, duplicates included), cleaned on/off, every subsample
  selection, light cone or not, and every interpretation of column values (`ValOps`).
-/
import AbacusVerif.Lemmas.C02
import AbacusVerif.Lemmas.C02Setup
import AbacusVerif.Lemmas.C02Pass

namespace AbacusVerif.Fields
open AbacusVerif AbacusVerif.Units

variable {V : Type}

/-! ### dependency order -/

/-- **deps_order.**  Whenever the dependency worklist terminates (any table without a dependency cycle
deeper than the table is long), in `fields_with_deps` every captured halo dependency of a field precedes
that field, and every requested field is in `fields_with_deps`. -/
theorem deps_order (S : Spec) (fields : List String) (D : Deps) (h : deps S fields = .ok D) :
    SortedFrom S [] D.fieldsWithDeps ∧ (∀ f ∈ fields, f ∈ D.fieldsWithDeps) := by
  unfold deps at h
  cases hl : levels S (S.loaders.length + 1) fields with
  | error e => simp [hl] at h
  | ok lv =>
    simp only [hl] at h
    cases h
    obtain ⟨hs, hm⟩ := levels_sorted _ _ _ hl
    exact ⟨hs, fun f hf => by simpa [mem_dedup] using hm f hf⟩

/-- every dependency chain of `f` ends within `n` steps inside the table -/
def resolvesS (S : Spec) : Nat → String → Bool
  | 0, _ => false
  | n + 1, f =>
    match findLoader S f with
    | none => false
    | some ld => ld.haloDeps.all (resolvesS S n)

theorem nextLevel_ok (S : Spec) (n : Nat) : ∀ (l : List String), (∀ f ∈ l, resolvesS S (n + 1) f = true) →
    ∃ next, nextLevel S l = .ok next ∧ ∀ d ∈ next, resolvesS S n d = true
  | [], _ => ⟨[], rfl, by simp⟩
  | f :: fs, h => by
    have hf := h f List.mem_cons_self
    obtain ⟨r, hr, hrr⟩ := nextLevel_ok S n fs (fun g hg => h g (List.mem_cons_of_mem _ hg))
    unfold resolvesS at hf
    cases hl : findLoader S f with
    | none => simp [hl] at hf
    | some ld =>
      simp only [hl] at hf
      refine ⟨ld.haloDeps ++ r, by simp [nextLevel, hl, hr], ?_⟩
      intro d hd
      rcases List.mem_append.mp hd with hd | hd
      · exact List.all_eq_true.mp hf d hd
      · exact hrr d hd

theorem levels_ok (S : Spec) : ∀ (n : Nat) (l : List String), (∀ f ∈ l, resolvesS S n f = true) →
    ∃ lv, levels S n l = .ok lv
  | 0, l, h => by
    cases l with
    | nil => exact ⟨[], by simp [levels]⟩
    | cons f fs => have := h f List.mem_cons_self; simp [resolvesS] at this
  | n + 1, l, h => by
    cases l with
    | nil => exact ⟨[], by simp [levels]⟩
    | cons f fs =>
      obtain ⟨next, hn, hnr⟩ := nextLevel_ok S n (f :: fs) h
      obtain ⟨rest, hr⟩ := levels_ok S n next hnr
      exact ⟨(f :: fs) :: rest, by simp [levels, hn, hr]⟩

/-- the dependency capture never fails on fields of a table whose chains are shorter than the fuel -/
theorem deps_ok (S : Spec) (fields : List String)
    (h : ∀ f ∈ fields, resolvesS S (S.loaders.length + 1) f = true) : ∃ D, deps S fields = .ok D := by
  obtain ⟨lv, hlv⟩ := levels_ok S _ fields h
  unfold deps
  rw [hlv]
  exact ⟨_, rfl⟩

/-! ### what a loaded column must be -/

def base (d : Dt) : BaseKind × Nat := (d.kind, d.bits)

/-- the base type a column is declared with (`clean_dt_progen`, else `halo_lc_dt`, else `user_dt`) -/
def declaredBase (S : Spec) (n : String) : Option (BaseKind × Nat) :=
  match dtLookup S.clean_dt_progen n with
  | some d => some (base d)
  | none =>
    match dtLookup S.halo_lc_dt n with
    | some d => some (base d)
    | none => (dtLookup S.user_dt n).map base

/-- `Denotes c v`: `v` is the direct evaluation of column `c` — its loader applied to the direct
evaluations of the halo columns it reads, each cast to *its own* declared type, then cast to the
declared type of `c`.  Nothing in it refers to a request. -/
inductive Denotes (S : Spec) (O : ValOps V) : String → V → Prop where
  | mk (c : String) (ld : Loader) (k : BaseKind) (b : Nat) (val : String → V) :
      findLoader S c = some ld → declaredBase S c = some (k, b) →
      (∀ d ∈ ld.haloDeps, Denotes S O d (val d)) →
      Denotes S O c (O.cast k b (O.app c (ld.haloDeps.map val)))

/-- the direct evaluation is unique: `denote c` is a function of the catalog alone -/
theorem Denotes.unique {S : Spec} {O : ValOps V} {c : String} {v : V} (h : Denotes S O c v) :
    ∀ {v'}, Denotes S O c v' → v = v' := by
  induction h with
  | mk c ld k b val hl hd _ ih =>
    intro v' h'
    cases h' with
    | mk _ ld' k' b' val' hl' hd' hdeps' =>
      rw [hl] at hl'; cases hl'
      rw [hd] at hd'; cases hd'
      have : ld.haloDeps.map val = ld.haloDeps.map val' :=
        List.map_congr_left (fun d hdm => ih d hdm (hdeps' d hdm))
      rw [this]

/-! ### well-formedness of the tables (decidable; checked on the generated tables) -/

/-- group loaders only produce columns that have a loader of their own and read no halo column -/
def groupOK (S : Spec) : Bool :=
  S.loaders.all (fun ld => ld.group.all (fun g =>
    match findLoader S g with
    | some lg => lg.haloDeps.isEmpty
    | none => false))

/-- the dtype tables agree where they overlap: cleaning columns are disjoint from the others, and a
column declared in both `halo_lc_dt` and `user_dt` has the same base type -/
def dtypesOK (S : Spec) : Bool :=
  (names S.clean_dt_progen).all (fun n => !(n ∈ names S.user_dt) && !(n ∈ names S.halo_lc_dt)) &&
  S.halo_lc_dt.all (fun p =>
    match dtLookup S.user_dt p.1 with
    | some d => base d == base p.2
    | none => true)

theorem generated_wf : groupOK Spec.generated = true ∧ dtypesOK Spec.generated = true ∧
    Spec.generated.loaders.all (fun l => resolvesS Spec.generated (Spec.generated.loaders.length + 1) l.name) = true := by
  refine ⟨by decide +kernel, by decide +kernel, by decide +kernel⟩

/-! ### small facts about the tables -/

section DeclaredFacts
set_option linter.unusedSectionVars false
variable {S : Spec} (hd : dtypesOK S = true)
include hd

theorem clean_disjoint {n : String} (h : n ∈ names S.clean_dt_progen) :
    ¬ n ∈ names S.user_dt ∧ ¬ n ∈ names S.halo_lc_dt := by
  unfold dtypesOK at hd
  have := List.all_eq_true.mp (Bool.and_eq_true _ _ ▸ hd).1 n h
  simpa using this

theorem declared_clean {n : String} {d : Dt} (h : dtLookup S.clean_dt_progen n = some d) :
    declaredBase S n = some (base d) := by
  simp [declaredBase, h]

theorem declared_lc {n : String} {d : Dt} (h : dtLookup S.halo_lc_dt n = some d) :
    declaredBase S n = some (base d) := by
  have hn : ¬ n ∈ names S.clean_dt_progen := fun hc => (clean_disjoint hd hc).2 (dtLookup_names h)
  simp [declaredBase, dtLookup_none hn, h]

theorem declared_user {n : String} {d : Dt} (h : dtLookup S.user_dt n = some d) :
    declaredBase S n = some (base d) := by
  have hn : ¬ n ∈ names S.clean_dt_progen := fun hc => (clean_disjoint hd hc).1 (dtLookup_names h)
  cases hl : dtLookup S.halo_lc_dt n with
  | none => simp [declaredBase, dtLookup_none hn, hl, h]
  | some d' =>
    have hmem := dtLookup_mem hl
    unfold dtypesOK at hd
    have := List.all_eq_true.mp (Bool.and_eq_true _ _ ▸ hd).2 (n, d') hmem
    simp only [h] at this
    have hb : base d = base d' := by simpa using this
    simp [declaredBase, dtLookup_none hn, hl, hb]

end DeclaredFacts

/-! ### the table of one file has the declared types -/

/-- every column of the table has the base type it is declared with -/
def ColsOK (S : Spec) (cols : List (String × Dt)) : Prop :=
  ∀ p ∈ cols, declaredBase S p.1 = some (base p.2)

theorem allocate_ok {S : Spec} (hd : dtypesOK S = true) {fields cleanedFields : List String}
    {cols : List (String × Dt)} (h : allocate S fields cleanedFields = .ok cols) : ColsOK S cols := by
  unfold allocate at h
  split at h
  · cases h
  · rename_i cols1 h1
    have hc1 : ColsOK S cols1 := by
      refine foldlM_inv _ (ColsOK S) ?_ fields [] cols1 (by intro p hp; simp at hp) h1
      intro b c b' hb hf
      unfold allocStep at hf
      split at hf
      · rename_i d hdt
        cases hf
        intro p hp
        rcases insertCol_mem hp with hp | rfl
        · exact hb p hp
        · split at hdt
          · exact declared_lc hd hdt
          · exact declared_user hd hdt
      · cases hf
    refine foldlM_inv _ (ColsOK S) ?_ cleanedFields cols1 cols hc1 h
    intro b c b' hb hf
    unfold allocStep at hf
    split at hf
    · rename_i d hdt
      cases hf
      intro p hp
      rcases insertCol_mem hp with hp | rfl
      · exact hb p hp
      · exact declared_clean hd hdt
    · cases hf

theorem reshape_ok {S : Spec} {nprev : Nat} {cf : List String} {cols : List (String × Dt)} (h : ColsOK S cols) :
    ColsOK S (reshapeMainprog nprev cf cols) := by
  intro p hp
  obtain ⟨q, hq, hqp⟩ := List.mem_map.mp hp
  have := h q hq
  split at hqp
  · subst hqp; simpa [base] using this
  · subst hqp; exact this

theorem extraCols_ok {S : Spec} (hd : dtypesOK S = true) : ∀ {l : List String} {ex : List (String × Dt)},
    extraCols S l = .ok ex → ColsOK S ex
  | [], ex, h => by simp [extraCols] at h; subst h; intro p hp; simp at hp
  | f :: fs, ex, h => by
    unfold extraCols at h
    split at h
    · rename_i d r hdt hr
      cases h
      intro p hp
      rcases List.mem_cons.mp hp with rfl | hp
      · by_cases hc : f ∈ names S.clean_dt_progen
        · simp only [hc, if_true] at hdt; exact declared_clean hd hdt
        · simp only [hc, if_false] at hdt; exact declared_user hd hdt
      · exact extraCols_ok hd hr p hp
    · cases h
    · cases h

/-! ### the loop invariant of `loadAll` -/

/-- the table has the declared types and everything loaded so far holds its direct evaluation -/
def Inv (S : Spec) (O : ValOps V) (h : Halos V) (loaded : List String) : Prop :=
  ColsOK S h.cols ∧ ∀ x ∈ loaded, Denotes S O x (h.val x)

theorem readAll_ok {h : Halos V} : ∀ {ns : List String} {vs : List V}, readAll h ns = .ok vs → vs = ns.map h.val
  | [], vs, hr => by simp [readAll] at hr; subst hr; rfl
  | n :: ns, vs, hr => by
    unfold readAll at hr
    split at hr
    · rename_i v vs' hv hvs
      cases hr
      unfold Halos.read at hv
      split at hv
      · cases hv; rw [readAll_ok hvs]; rfl
      · cases hv
    · cases hr
    · cases hr

theorem writeMember_inv {S : Spec} {O : ValOps V} {rawAvail : List String} {h h' : Halos V} {g : String}
    {loaded : List String} (hinv : Inv S O h loaded) (hdeps : ∀ d ∈ depsOfField S g, d ∈ loaded)
    (hw : writeMember S O rawAvail h g = .ok h') : Inv S O h' (g :: loaded) ∧ h'.cols = h.cols := by
  unfold writeMember at hw
  cases hl : findLoader S g with
  | none => simp [hl] at hw
  | some lg =>
    simp only [hl] at hw
    split at hw
    · cases hw
    · cases hr : readAll h lg.haloDeps with
      | error e => simp [hr] at hw
      | ok args =>
        simp only [hr] at hw
        have hargs := readAll_ok hr
        unfold Halos.write at hw
        cases hdt : dtLookup h.cols g with
        | none => simp [hdt] at hw
        | some d =>
          simp only [hdt] at hw
          cases hw
          refine ⟨⟨hinv.1, ?_⟩, rfl⟩
          have hdecl := hinv.1 (g, d) (dtLookup_mem hdt)
          have hnew : Denotes S O g (O.cast d.kind d.bits (O.app g args)) := by
            rw [hargs]
            refine Denotes.mk g lg d.kind d.bits h.val hl hdecl ?_
            intro x hx
            have : x ∈ depsOfField S g := by simpa [depsOfField, hl] using hx
            exact hinv.2 x (hdeps x this)
          intro x hx
          by_cases hxg : x = g
          · subst hxg; simpa using hnew
          · have hx' : x ∈ loaded := by
              rcases List.mem_cons.mp hx with h1 | h1
              · exact absurd h1 hxg
              · exact h1
            simpa [hxg] using hinv.2 x hx'

theorem writeMembers_inv {S : Spec} {O : ValOps V} {rawAvail : List String} :
    ∀ {ms : List String} {h h' : Halos V} {loaded : List String}, Inv S O h loaded →
      (∀ m ∈ ms, depsOfField S m = []) → writeMembers S O rawAvail h ms = .ok h' →
      Inv S O h' (loaded ++ ms) ∧ h'.cols = h.cols
  | [], h, h', loaded, hinv, _, hw => by
    simp [writeMembers] at hw; subst hw; simpa using hinv
  | m :: ms, h, h', loaded, hinv, hnd, hw => by
    unfold writeMembers at hw
    cases h1 : writeMember S O rawAvail h m with
    | error e => simp [h1] at hw
    | ok hm =>
      simp only [h1] at hw
      have hm0 : depsOfField S m = [] := hnd m List.mem_cons_self
      obtain ⟨i1, c1⟩ := writeMember_inv hinv (by intro d hd; simp [hm0] at hd) h1
      obtain ⟨i2, c2⟩ := writeMembers_inv (loaded := m :: loaded) i1
        (fun x hx => hnd x (List.mem_cons_of_mem _ hx)) hw
      refine ⟨⟨i2.1, ?_⟩, c2.trans c1⟩
      intro x hx
      apply i2.2 x
      rcases List.mem_append.mp hx with hx | hx
      · exact List.mem_append_left _ (List.mem_cons_of_mem _ hx)
      · rcases List.mem_cons.mp hx with rfl | hx
        · exact List.mem_append_left _ List.mem_cons_self
        · exact List.mem_append_right _ hx

theorem loadField_inv {S : Spec} {O : ValOps V} (hg : groupOK S = true) {rawAvail : List String}
    {h h' : Halos V} {f : String} {loaded l : List String} (hinv : Inv S O h loaded)
    (hdeps : ∀ d ∈ depsOfField S f, d ∈ loaded) (hl : loadField S O rawAvail h f = .ok (h', l)) :
    Inv S O h' (loaded ++ l) ∧ f ∈ l ∧ h'.cols = h.cols := by
  unfold loadField at hl
  cases hf : findLoader S f with
  | none => simp [hf] at hl
  | some ld =>
    simp only [hf] at hl
    split at hl
    · -- plain loader
      cases hw : writeMember S O rawAvail h f with
      | error e => simp [hw] at hl
      | ok h1 =>
        simp only [hw, Except.ok.injEq, Prod.mk.injEq] at hl
        obtain ⟨rfl, rfl⟩ := hl
        obtain ⟨i1, c1⟩ := writeMember_inv hinv hdeps hw
        refine ⟨⟨i1.1, ?_⟩, by simp, c1⟩
        intro x hx
        apply i1.2 x
        rcases List.mem_append.mp hx with hx | hx
        · exact List.mem_cons_of_mem _ hx
        · have : x = f := by simpa using hx
          subst this; exact List.mem_cons_self
    · -- group loader
      split at hl
      · cases hl
      · split at hl
        · cases hl
        · rename_i hmem
          cases hw : writeMembers S O rawAvail h
              (ld.group.filter (fun g => h.has g || (ld.selfAlways && g == f))) with
          | error e => simp [hw] at hl
          | ok h1 =>
            simp only [hw, Except.ok.injEq, Prod.mk.injEq] at hl
            obtain ⟨rfl, rfl⟩ := hl
            have hnd : ∀ m ∈ ld.group.filter (fun g => h.has g || (ld.selfAlways && g == f)),
                depsOfField S m = [] := by
              intro m hm
              have hmg : m ∈ ld.group := (List.mem_filter.mp hm).1
              have hld := (findLoader_mem hf).1
              have := List.all_eq_true.mp (List.all_eq_true.mp hg ld hld) m hmg
              unfold depsOfField
              cases hm' : findLoader S m with
              | none => rfl
              | some lg => simp only [hm'] at this ⊢; simpa using this
            obtain ⟨i1, c1⟩ := writeMembers_inv hinv hnd hw
            refine ⟨i1, ?_, c1⟩
            exact Decidable.byContradiction
              (fun hc => hmem (by simp only [hc, decide_false, Bool.not_false]))

theorem loadAll_inv {S : Spec} {O : ValOps V} (hg : groupOK S = true) {rawAvail : List String} :
    ∀ {order : List String} {st st' : Halos V × List String} {seen : List String},
      Inv S O st.1 st.2 → SortedFrom S seen order → (∀ x ∈ seen, x ∈ st.2) →
      loadAll S O rawAvail order st = .ok st' →
      Inv S O st'.1 st'.2 ∧ (∀ x ∈ order, x ∈ st'.2) ∧ (∀ x ∈ st.2, x ∈ st'.2) ∧ st'.1.cols = st.1.cols
  | [], st, st', seen, hinv, _, _, hl => by
    simp [loadAll] at hl; subst hl; exact ⟨hinv, by simp, fun _ h => h, rfl⟩
  | f :: fs, st, st', seen, hinv, hs, hseen, hl => by
    unfold loadAll at hl
    split at hl
    · rename_i hmem
      obtain ⟨i, ho, hk, hc⟩ := loadAll_inv hg (seen := f :: seen) hinv hs.2
        (by
          intro x hx
          rcases List.mem_cons.mp hx with rfl | hx
          · exact hmem
          · exact hseen x hx) hl
      refine ⟨i, ?_, hk, hc⟩
      intro x hx
      rcases List.mem_cons.mp hx with rfl | hx
      · exact hk _ hmem
      · exact ho x hx
    · cases hf : loadField S O rawAvail st.1 f with
      | error e => simp [hf] at hl
      | ok r =>
        obtain ⟨h1, l⟩ := r
        simp only [hf] at hl
        obtain ⟨i1, hfl, c1⟩ := loadField_inv hg hinv (fun d hd => hseen d (hs.1 d hd)) hf
        obtain ⟨i, ho, hk, hc⟩ := loadAll_inv hg (st := (h1, st.2 ++ l)) (seen := f :: seen) i1 hs.2
          (by
            intro x hx
            rcases List.mem_cons.mp hx with rfl | hx
            · exact List.mem_append_right _ hfl
            · exact List.mem_append_left _ (hseen x hx)) hl
        refine ⟨i, ?_, fun x hx => hk x (List.mem_append_left _ hx), hc.trans c1⟩
        intro x hx
        rcases List.mem_cons.mp hx with rfl | hx
        · exact hk _ (List.mem_append_right _ hfl)
        · exact ho x hx

/-! ### the property -/

/-- **column_independent.**  For every well-formed table, every request (defaults, 'all', any list in any
order), cleaned on/off, any subsample selection, light cone or not: if `_read_halo_info` returns, the
value of *every* column `c` of the returned table is `Denotes c` — the direct evaluation of `c`'s loader
with each dependency cast to its own declared type — which does not mention the request. -/
theorem column_independent (S : Spec) (O : ValOps V) (hg : groupOK S = true) (hd : dtypesOK S = true)
    (nprev : Nat) (rawCols cleanCols : List String) (req : Req) (cleaned : Bool) (loadAB : List String)
    (haloLc : Bool) (r : Loaded V)
    (h : readHaloInfo S O nprev rawCols cleanCols req cleaned loadAB haloLc = .ok r) :
    ∀ p ∈ r.table.cols, Denotes S O p.1 (r.table.val p.1) := by
  unfold readHaloInfo at h
  simp only at h
  cases ha : allocate S (setupFields S req cleaned loadAB haloLc).1 (setupFields S req cleaned loadAB haloLc).2 with
  | error e => simp [ha] at h
  | ok cols0 =>
    simp only [ha] at h
    cases hdp : deps S (cols0.map (·.1)) with
    | error e => simp [hdp] at h
    | ok d =>
      simp only [hdp] at h
      split at h
      · cases h
      · cases hex : extraCols S d.extra with
        | error e => simp [hex] at h
        | ok ex =>
          simp only [hex] at h
          split at h
          · cases h
          cases hla : loadAll S O d.raw d.fieldsWithDeps
              ({ cols := reshapeMainprog nprev (setupFields S req cleaned loadAB haloLc).2 cols0 ++ ex,
                 val := fun _ => O.uninit }, []) with
          | error e => simp [hla] at h
          | ok st =>
            obtain ⟨hh, ll⟩ := st
            simp only [hla, Except.ok.injEq] at h
            subst h
            obtain ⟨hsort, hmem⟩ := deps_order S _ d hdp
            have hcols : ColsOK S (reshapeMainprog nprev (setupFields S req cleaned loadAB haloLc).2 cols0 ++ ex) := by
              intro p hp
              rcases List.mem_append.mp hp with hp | hp
              · exact reshape_ok (allocate_ok hd ha) p hp
              · exact extraCols_ok hd hex p hp
            obtain ⟨i, ho, _, _⟩ := loadAll_inv hg (seen := [])
              (st := ({ cols := _, val := fun _ => O.uninit }, [])) ⟨hcols, by simp⟩ hsort (by simp) hla
            intro p hp
            simp only at hp ⊢
            apply i.2
            apply ho
            apply hmem
            obtain ⟨q, hq, hqp⟩ := List.mem_map.mp hp
            have : p.1 = q.1 := by
              split at hqp <;> (subst hqp; rfl)
            rw [this]
            exact List.mem_map_of_mem hq

/-- the form in the statement: two loads of the same catalog — any two requests, orders, cleaning flags
that both load `c`, any subsample selections — return identical values for `c`. -/
theorem column_independent_pair (S : Spec) (O : ValOps V) (hg : groupOK S = true) (hd : dtypesOK S = true)
    (nprev : Nat) (rawCols cleanCols : List String)
    (req₁ req₂ : Req) (cleaned₁ cleaned₂ : Bool) (ab₁ ab₂ : List String) (lc : Bool) (r₁ r₂ : Loaded V)
    (h₁ : readHaloInfo S O nprev rawCols cleanCols req₁ cleaned₁ ab₁ lc = .ok r₁)
    (h₂ : readHaloInfo S O nprev rawCols cleanCols req₂ cleaned₂ ab₂ lc = .ok r₂)
    (c : String) (hc₁ : c ∈ r₁.table.cols.map (·.1)) (hc₂ : c ∈ r₂.table.cols.map (·.1)) :
    r₁.table.val c = r₂.table.val c := by
  obtain ⟨p₁, hp₁, rfl⟩ := List.mem_map.mp hc₁
  obtain ⟨p₂, hp₂, he⟩ := List.mem_map.mp hc₂
  have d₁ := column_independent S O hg hd nprev rawCols cleanCols req₁ cleaned₁ ab₁ lc r₁ h₁ p₁ hp₁
  have d₂ := column_independent S O hg hd nprev rawCols cleanCols req₂ cleaned₂ ab₂ lc r₂ h₂ p₂ hp₂
  rw [he] at d₂
  exact d₁.unique d₂

/-! ### no request-dependent failure -/

/-- a dict-returning loader lists its own field among the columns it can fill -/
def selfInGroup (S : Spec) : Bool :=
  S.loaders.all (fun ld => ld.group.isEmpty || decide (ld.name ∈ ld.group))

/-- every halo dependency of every loader is a declared column (so a temporary column can be made) -/
def depsDeclared (S : Spec) : Bool :=
  S.loaders.all (fun ld => ld.haloDeps.all (fun d =>
    decide (d ∈ names S.clean_dt_progen) || decide (d ∈ names S.user_dt)))

theorem generated_wf2 : selfInGroup Spec.generated = true ∧ depsDeclared Spec.generated = true := by
  refine ⟨by decide +kernel, by decide +kernel⟩

def colNames (h : Halos V) : List String := h.cols.map (·.1)

theorem has_iff {h : Halos V} {x : String} : h.has x = true ↔ x ∈ colNames h := by
  unfold Halos.has colNames
  rw [List.any_eq_true, List.mem_map]
  constructor
  · rintro ⟨p, hp, he⟩; exact ⟨p, hp, by simpa using he⟩
  · rintro ⟨p, hp, he⟩; exact ⟨p, hp, by simpa using he⟩

/-- everything `_load_halo_field(f)` touches is there: a loader, its raw columns among those read from
disk, its halo dependencies and `f` itself among the columns of the per-file table -/
def Ready (S : Spec) (rawAvail K : List String) (f : String) : Prop :=
  ∃ ld, findLoader S f = some ld ∧ (∀ r ∈ ld.rawDeps, r ∈ rawAvail) ∧ (∀ d ∈ ld.haloDeps, d ∈ K) ∧ f ∈ K

theorem readAll_some {h : Halos V} : ∀ {ns : List String}, (∀ n ∈ ns, n ∈ colNames h) → ∃ vs, readAll h ns = .ok vs
  | [], _ => ⟨[], rfl⟩
  | n :: ns, hn => by
    obtain ⟨vs, hvs⟩ := readAll_some (h := h) (ns := ns) (fun m hm => hn m (List.mem_cons_of_mem _ hm))
    have : h.has n = true := has_iff.mpr (hn n List.mem_cons_self)
    exact ⟨h.val n :: vs, by simp [readAll, Halos.read, this, hvs]⟩

theorem writeMember_some {S : Spec} {O : ValOps V} {rawAvail : List String} {h : Halos V} {g : String}
    (hr : Ready S rawAvail (colNames h) g) :
    ∃ h', writeMember S O rawAvail h g = .ok h' ∧ h'.cols = h.cols := by
  obtain ⟨lg, hl, hraw, hdeps, hg⟩ := hr
  obtain ⟨vs, hvs⟩ := readAll_some (h := h) hdeps
  obtain ⟨d, hd⟩ := dtLookup_some_of_mem (t := h.cols) hg
  have hall : (lg.rawDeps.all fun r => decide (r ∈ rawAvail)) = true := by
    rw [List.all_eq_true]; intro r hr'; simpa using hraw r hr'
  exact ⟨{ h with val := fun m => if m == g then O.cast d.kind d.bits (O.app g vs) else h.val m },
    by simp [writeMember, hl, hall, hvs, Halos.write, hd], rfl⟩

theorem writeMembers_some {S : Spec} {O : ValOps V} {rawAvail : List String} :
    ∀ {ms : List String} {h : Halos V}, (∀ m ∈ ms, Ready S rawAvail (colNames h) m) →
      ∃ h', writeMembers S O rawAvail h ms = .ok h' ∧ h'.cols = h.cols
  | [], h, _ => ⟨h, rfl, rfl⟩
  | m :: ms, h, hr => by
    obtain ⟨h1, hw, hc⟩ := writeMember_some (O := O) (hr m List.mem_cons_self)
    have hcn : colNames h1 = colNames h := by simp [colNames, hc]
    obtain ⟨h2, hw2, hc2⟩ := writeMembers_some (O := O) (ms := ms) (h := h1)
      (fun x hx => hcn ▸ hr x (List.mem_cons_of_mem _ hx))
    exact ⟨h2, by simp [writeMembers, hw, hw2], hc2.trans hc⟩

theorem loadField_some {S : Spec} {O : ValOps V} (hsg : selfInGroup S = true) (_hg : groupOK S = true)
    {rawAvail : List String} {h : Halos V} {f : String}
    (hK : ∀ x ∈ colNames h, Ready S rawAvail (colNames h) x) (hf : f ∈ colNames h) :
    ∃ h' l, loadField S O rawAvail h f = .ok (h', l) ∧ h'.cols = h.cols := by
  have hr := hK f hf
  obtain ⟨ld, hl, hraw, hdeps, _⟩ := hr
  unfold loadField
  simp only [hl]
  split
  · obtain ⟨h1, hw, hc⟩ := writeMember_some (O := O) (hK f hf)
    exact ⟨h1, [f], by simp [hw], hc⟩
  · rename_i hne
    have hall : (ld.rawDeps.all fun r => decide (r ∈ rawAvail)) = true := by
      rw [List.all_eq_true]; intro r hr'; simpa using hraw r hr'
    have hname := (findLoader_mem hl).2
    have hmemL := (findLoader_mem hl).1
    have hself : f ∈ ld.group := by
      have := List.all_eq_true.mp hsg ld hmemL
      simp only [Bool.or_eq_true, decide_eq_true_eq] at this
      rcases this with h0 | h0
      · exact absurd h0 hne
      · exact hname ▸ h0
    have hfm : f ∈ ld.group.filter (fun g => h.has g || (ld.selfAlways && g == f)) := by
      rw [List.mem_filter]
      exact ⟨hself, by simp [has_iff.mpr hf]⟩
    have hready : ∀ m ∈ ld.group.filter (fun g => h.has g || (ld.selfAlways && g == f)),
        Ready S rawAvail (colNames h) m := by
      intro m hm
      obtain ⟨_, hcond⟩ := List.mem_filter.mp hm
      have : m ∈ colNames h := by
        simp only [Bool.or_eq_true, Bool.and_eq_true, beq_iff_eq] at hcond
        rcases hcond with h1 | ⟨_, h2⟩
        · exact has_iff.mp h1
        · exact h2 ▸ hf
      exact hK m this
    obtain ⟨h1, hw, hc⟩ := writeMembers_some (O := O) hready
    refine ⟨h1, ld.group.filter (fun g => h.has g || (ld.selfAlways && g == f)), ?_, hc⟩
    simp [hall, hfm, hw]

theorem loadAll_some {S : Spec} {O : ValOps V} (hsg : selfInGroup S = true) (hg : groupOK S = true)
    {rawAvail : List String} :
    ∀ {order : List String} {st : Halos V × List String},
      (∀ x ∈ colNames st.1, Ready S rawAvail (colNames st.1) x) → (∀ f ∈ order, f ∈ colNames st.1) →
      ∃ st', loadAll S O rawAvail order st = .ok st'
  | [], st, _, _ => ⟨st, rfl⟩
  | f :: fs, st, hK, ho => by
    unfold loadAll
    split
    · exact loadAll_some hsg hg hK (fun x hx => ho x (List.mem_cons_of_mem _ hx))
    · obtain ⟨h1, l, hl, hc⟩ := loadField_some (O := O) hsg hg hK (ho f List.mem_cons_self)
      have hcn : colNames h1 = colNames st.1 := by simp [colNames, hc]
      simp only [hl]
      exact loadAll_some (st := (h1, st.2 ++ l)) hsg hg (by simpa [hcn] using hK)
        (fun x hx => by simpa [hcn] using ho x (List.mem_cons_of_mem _ hx))

theorem nextLevel_loader {S : Spec} : ∀ {l next : List String}, nextLevel S l = .ok next →
    ∀ x ∈ l, ∃ ld, findLoader S x = some ld
  | [], _, _, x, hx => by simp at hx
  | a :: as, next, hn, x, hx => by
    unfold nextLevel at hn
    cases ha : findLoader S a with
    | none => simp [ha] at hn
    | some la =>
      simp only [ha] at hn
      cases hr2 : nextLevel S as with
      | error e => simp [hr2] at hn
      | ok r2 =>
        rcases List.mem_cons.mp hx with rfl | hx
        · exact ⟨la, ha⟩
        · exact nextLevel_loader hr2 x hx

theorem nextLevel_src {S : Spec} : ∀ {l next : List String}, nextLevel S l = .ok next →
    ∀ x ∈ next, ∃ f ∈ l, x ∈ depsOfField S f
  | [], next, hn, x, hx => by simp [nextLevel] at hn; subst hn; simp at hx
  | a :: as, next, hn, x, hx => by
    unfold nextLevel at hn
    cases ha : findLoader S a with
    | none => simp [ha] at hn
    | some la =>
      simp only [ha] at hn
      cases hr2 : nextLevel S as with
      | error e => simp [hr2] at hn
      | ok r2 =>
        simp only [hr2] at hn
        cases hn
        rcases List.mem_append.mp hx with h4 | h4
        · exact ⟨a, by simp, by simp [depsOfField, ha, h4]⟩
        · obtain ⟨f, hf, hxf⟩ := nextLevel_src hr2 x h4
          exact ⟨f, List.mem_cons_of_mem _ hf, hxf⟩

theorem levels_loader {S : Spec} : ∀ (fuel : Nat) (l : List String) (lv : List (List String)),
    levels S fuel l = .ok lv →
      (∀ x ∈ lv.flatten, ∃ ld, findLoader S x = some ld) ∧
      (∀ x ∈ lv.flatten, ∀ d ∈ depsOfField S x, d ∈ lv.flatten) ∧
      (∀ x ∈ lv.flatten, x ∈ l ∨ ∃ f ∈ lv.flatten, x ∈ depsOfField S f)
  | 0, l, lv, h => by
    unfold levels at h
    split at h
    · cases h; simp
    · cases h
  | fuel + 1, l, lv, h => by
    unfold levels at h
    split at h
    · cases h; simp
    · cases hn : nextLevel S l with
      | error e => simp [hn] at h
      | ok next =>
        simp only [hn] at h
        cases hr : levels S fuel next with
        | error e => simp [hr] at h
        | ok rest =>
          simp only [hr] at h
          cases h
          obtain ⟨i1, i2, i3⟩ := levels_loader fuel next rest hr
          obtain ⟨_, hmem⟩ := levels_sorted fuel next rest hr
          have hlood : ∀ x ∈ l, ∃ ld, findLoader S x = some ld := nextLevel_loader hn
          refine ⟨?_, ?_, ?_⟩
          · intro x hx
            simp only [List.flatten_cons, List.mem_append] at hx
            rcases hx with hx | hx
            · exact hlood x hx
            · exact i1 x hx
          · intro x hx d hd
            simp only [List.flatten_cons, List.mem_append] at hx ⊢
            rcases hx with hx | hx
            · exact Or.inr (hmem d (nextLevel_mem hn x hx d hd))
            · exact Or.inr (i2 x hx d hd)
          · intro x hx
            simp only [List.flatten_cons, List.mem_append] at hx
            rcases hx with hx | hx
            · exact Or.inl hx
            · right
              rcases i3 x hx with h3 | ⟨f, hf, hxf⟩
              · obtain ⟨f, hf, hxf⟩ := nextLevel_src hn x h3
                exact ⟨f, by simp [hf], hxf⟩
              · exact ⟨f, by simp [hf], hxf⟩

theorem extraCols_names {S : Spec} : ∀ {l : List String} {ex : List (String × Dt)},
    extraCols S l = .ok ex → ex.map (·.1) = l
  | [], ex, h => by simp [extraCols] at h; subst h; rfl
  | f :: fs, ex, h => by
    unfold extraCols at h
    split at h
    · rename_i d r hdt hr
      cases h
      simp [extraCols_names hr]
    · cases h
    · cases h

theorem extraCols_some {S : Spec} : ∀ {l : List String},
    (∀ f ∈ l, f ∈ names S.clean_dt_progen ∨ f ∈ names S.user_dt) → ∃ ex, extraCols S l = .ok ex
  | [], _ => ⟨[], rfl⟩
  | f :: fs, h => by
    obtain ⟨r, hr⟩ := extraCols_some (S := S) (l := fs) (fun x hx => h x (List.mem_cons_of_mem _ hx))
    by_cases hc : f ∈ names S.clean_dt_progen
    · obtain ⟨d, hd⟩ := dtLookup_some_of_mem hc
      exact ⟨(f, d) :: r, by simp [extraCols, hc, hd, hr]⟩
    · have hu : f ∈ names S.user_dt := by
        rcases h f List.mem_cons_self with h1 | h1
        · exact absurd h1 hc
        · exact h1
      obtain ⟨d, hd⟩ := dtLookup_some_of_mem hu
      exact ⟨(f, d) :: r, by simp [extraCols, hc, hd, hr]⟩

/- FULL STATEMENT (DESIGN.md §7 C02, not proved in full):
     no_request_dependent_failure : for every valid request R (distinct declared column names that exist for the
     catalog kind), cleaned on/off, every subsample selection and a halo_info file that holds the raw columns,
     `construct … R …` (setup of the fields, allocation, dependency capture, temporaries, the loading loop, the
     subsample-index bookkeeping and the final rename) returns a table: it never fails.
   PROVED below (`no_request_dependent_failure_partial` + `setupFields_index_cols`): everything between the
   allocation and the end of the loading loop, for any combination of columns, and that `_setup_fields` always
   requests the index / merge columns the bookkeeping reads.  MISSING: that `allocate` succeeds for every valid
   name after the list surgery of `_setup_fields` (N -> N_total, split, light-cone pruning) and that `finish`
   (column removal / re-insertion / rename) succeeds given those columns; both are exercised by the correspondence
   on every run (the model and the real class must accept/reject the same requests). -/

/-- **no_request_dependent_failure_partial.**  Once the requested names are declared columns whose dependency
chains end inside the table (i.e. the allocation succeeded: the request is *valid*), nothing that follows
can fail because of *which* columns were or were not requested: the dependency capture terminates, every
temporary column can be created, and the loading loop finds, for every field of `fields_with_deps`, its
loader, its raw columns among `raw_dependencies`, and every halo column it reads or writes in the
per-file table — for any combination, any order, with any group members present or absent. -/
theorem no_request_dependent_failure_partial (S : Spec) (O : ValOps V)
    (hg : groupOK S = true) (hsg : selfInGroup S = true) (hdd : depsDeclared S = true)
    (cols0 : List (String × Dt))
    (hvalid : ∀ f ∈ cols0.map (·.1), resolvesS S (S.loaders.length + 1) f = true) :
    ∃ D ex, deps S (cols0.map (·.1)) = .ok D ∧ extraCols S D.extra = .ok ex ∧
      ∀ (cols : List (String × Dt)) (val : String → V), cols.map (·.1) = cols0.map (·.1) →
        ∃ st', loadAll S O D.raw D.fieldsWithDeps ({ cols := cols ++ ex, val := val }, []) = .ok st' := by
  obtain ⟨lv, hlv⟩ := levels_ok S _ _ hvalid
  obtain ⟨i1, i2, i3⟩ := levels_loader _ _ _ hlv
  obtain ⟨_, hmem0⟩ := levels_sorted _ _ _ hlv
  have hD : deps S (cols0.map (·.1)) = .ok
      { raw := dedup (lv.flatten.flatMap (fun f => match findLoader S f with | some l => l.rawDeps | none => [])),
        fieldsWithDeps := dedup lv.flatten.reverse,
        extra := dedup ((lv.flatten.flatMap (fun f => match findLoader S f with | some l => l.haloDeps | none => [])).filter
          (fun k => !(decide (k ∈ cols0.map (·.1))))).reverse } := by
    unfold deps; rw [hlv]; rfl
  -- the temporary columns are dependencies of processed fields
  have hextra : ∀ x, x ∈ dedup ((lv.flatten.flatMap (fun f => match findLoader S f with | some l => l.haloDeps | none => [])).filter
          (fun k => !(decide (k ∈ cols0.map (·.1))))).reverse ↔
      (∃ f ∈ lv.flatten, x ∈ depsOfField S f) ∧ ¬ x ∈ cols0.map (·.1) := by
    intro x
    simp only [mem_dedup, List.mem_reverse, List.mem_filter, List.mem_flatMap, depsOfField,
      Bool.not_eq_eq_eq_not, Bool.not_true, decide_eq_false_iff_not]
    exact Iff.rfl
  have hexdecl : ∀ f ∈ dedup ((lv.flatten.flatMap (fun f => match findLoader S f with | some l => l.haloDeps | none => [])).filter
          (fun k => !(decide (k ∈ cols0.map (·.1))))).reverse,
      f ∈ names S.clean_dt_progen ∨ f ∈ names S.user_dt := by
    intro x hx
    obtain ⟨⟨f, hf, hxf⟩, _⟩ := (hextra x).mp hx
    obtain ⟨ld, hld⟩ := i1 f hf
    have := List.all_eq_true.mp (List.all_eq_true.mp hdd ld (findLoader_mem hld).1) x
      (by simpa [depsOfField, hld] using hxf)
    simpa using this
  obtain ⟨ex, hex⟩ := extraCols_some hexdecl
  refine ⟨_, ex, hD, hex, ?_⟩
  intro cols val hnames
  have hexn := extraCols_names hex
  -- the columns of the per-file table are exactly the processed fields
  have hK : ∀ x, x ∈ colNames ({ cols := cols ++ ex, val := val } : Halos V) ↔ x ∈ lv.flatten := by
    intro x
    simp only [colNames, List.map_append, List.mem_append, hnames, hexn]
    constructor
    · rintro (hx | hx)
      · exact hmem0 x hx
      · obtain ⟨⟨f, hf, hxf⟩, _⟩ := (hextra x).mp hx
        exact i2 f hf x hxf
    · intro hx
      by_cases hc : x ∈ cols0.map (·.1)
      · exact Or.inl hc
      · rcases i3 x hx with h3 | h3
        · exact absurd h3 hc
        · exact Or.inr ((hextra x).mpr ⟨h3, hc⟩)
  apply loadAll_some hsg hg
  · intro x hx
    have hxi := (hK x).mp hx
    obtain ⟨ld, hld⟩ := i1 x hxi
    refine ⟨ld, hld, ?_, ?_, hx⟩
    · intro r hr
      simp only [mem_dedup, List.mem_flatMap]
      exact ⟨x, hxi, by simp [hld, hr]⟩
    · intro d hd
      exact (hK d).mpr (i2 x hxi d (by simp [depsOfField, hld, hd]))
  · intro f hf
    exact (hK f).mpr (by simpa [mem_dedup] using hf)

/-- the subsample bookkeeping finds its index columns whatever was requested: `_setup_fields` adds
`npstart{AB}` / `npout{AB}` (and the `_merge` columns for cleaned catalogs) for every loaded subsample. -/
theorem setupFields_index_cols (S : Spec) (req : Req) (cleaned : Bool) (loadAB : List String) (haloLc : Bool)
    (ab : String) (hab : ab ∈ loadAB) :
    ("npstart" ++ ab) ∈ (setupFields S req cleaned loadAB haloLc).1 ∧
    ("npout" ++ ab) ∈ (setupFields S req cleaned loadAB haloLc).1 ∧
    (cleaned = true → ("npstart" ++ ab ++ "_merge") ∈ (setupFields S req cleaned loadAB haloLc).2 ∧
                      ("npout" ++ ab ++ "_merge") ∈ (setupFields S req cleaned loadAB haloLc).2) := by
  unfold setupFields
  simp only
  generalize (if haloLc = true then _ else _ : List String) = f0
  generalize ((if cleaned = true then _ else _ : List String × List String)).2 = c0
  have mono1 : ∀ (l : List String) (x y : String), x ∈ l → x ∈ appendIfMissing l y := by
    intro l x y hx; unfold appendIfMissing; split
    · exact hx
    · exact List.mem_append_left _ hx
  have self1 : ∀ (l : List String) (y : String), y ∈ appendIfMissing l y := by
    intro l y; unfold appendIfMissing; split
    · assumption
    · simp
  -- once present, a column stays through the remaining iterations
  have keep : ∀ (abs : List String) (fc : List String × List String) (x : String),
      (x ∈ fc.1 → x ∈ (abs.foldl (fun fc ab =>
        (appendIfMissing (appendIfMissing fc.1 ("npstart" ++ ab)) ("npout" ++ ab),
         if cleaned = true then appendIfMissing (appendIfMissing fc.2 ("npstart" ++ ab ++ "_merge")) ("npout" ++ ab ++ "_merge")
         else fc.2)) fc).1) ∧
      (x ∈ fc.2 → x ∈ (abs.foldl (fun fc ab =>
        (appendIfMissing (appendIfMissing fc.1 ("npstart" ++ ab)) ("npout" ++ ab),
         if cleaned = true then appendIfMissing (appendIfMissing fc.2 ("npstart" ++ ab ++ "_merge")) ("npout" ++ ab ++ "_merge")
         else fc.2)) fc).2) := by
    intro abs
    induction abs with
    | nil => intro fc x; exact ⟨id, id⟩
    | cons a as ih =>
      intro fc x
      simp only [List.foldl_cons]
      constructor
      · intro hx; exact (ih _ x).1 (mono1 _ _ _ (mono1 _ _ _ hx))
      · intro hx
        apply (ih _ x).2
        split
        · exact mono1 _ _ _ (mono1 _ _ _ hx)
        · exact hx
  induction loadAB generalizing f0 c0 with
  | nil => simp at hab
  | cons a as ih =>
    simp only [List.foldl_cons]
    rcases List.mem_cons.mp hab with rfl | hab
    · refine ⟨(keep as _ _).1 (mono1 _ _ _ (self1 _ _)), (keep as _ _).1 (self1 _ _), ?_⟩
      intro hc
      subst hc
      simp only [if_true]
      exact ⟨(keep as _ _).2 (mono1 _ _ _ (self1 _ _)), (keep as _ _).2 (self1 _ _)⟩
    · exact ih hab _ _

/-! ### the full statement -/

/-- per catalog kind: every possible column has a loader with at least one raw column, its halo
dependencies stay inside the kind, and its dependency chains are short -/
def universeOK (S : Spec) (cleaned haloLc : Bool) : Bool :=
  (kindCols S cleaned haloLc).all (fun n =>
    match findLoader S n with
    | some ld => !ld.rawDeps.isEmpty && ld.haloDeps.all (fun d => decide (d ∈ kindCols S cleaned haloLc)) &&
                 resolvesS S (S.loaders.length + 1) n
    | none => false)

/-- the fixed names `_setup_fields` and `__init__` manipulate are declared where the code looks them up -/
def fixedNamesOK (S : Spec) : Bool :=
  decide ("N_total" ∈ names S.clean_dt_progen) && !decide ("N" ∈ names S.clean_dt_progen) &&
  ["npstartA", "npoutA", "npstartB", "npoutB"].all (fun n => decide (n ∈ names S.user_dt)) &&
  ["npstartA_merge", "npoutA_merge", "npstartB_merge", "npoutB_merge"].all (fun n => decide (n ∈ names S.clean_dt_progen)) &&
  ["npstartA", "npoutA"].all (fun n => decide (n ∈ names S.halo_lc_dt))

def wfFull (S : Spec) : Bool :=
  groupOK S && dtypesOK S && selfInGroup S && depsDeclared S && fixedNamesOK S &&
  universeOK S false false && universeOK S true false && universeOK S false true

theorem generated_wfFull : wfFull Spec.generated = true := by decide +kernel

/-- the files hold the raw columns of every column of the catalog kind -/
def rawsProvided (S : Spec) (rawCols cleanCols : List String) (cleaned haloLc : Bool) : Bool :=
  (kindCols S cleaned haloLc).all (fun n =>
    match findLoader S n with
    | some ld => ld.rawDeps.all (fun r =>
        if r ∈ names S.clean_dt_progen then cleaned && decide (r ∈ cleanCols) else decide (r ∈ rawCols))
    | none => false)

theorem levels_subset {S : Spec} (U : List String) (hU : ∀ x ∈ U, ∀ d ∈ depsOfField S x, d ∈ U) :
    ∀ (fuel : Nat) (l : List String) (lv : List (List String)), levels S fuel l = .ok lv →
      (∀ x ∈ l, x ∈ U) → ∀ x ∈ lv.flatten, x ∈ U
  | 0, l, lv, h, _ => by
    unfold levels at h
    split at h
    · cases h; simp
    · cases h
  | fuel + 1, l, lv, h, hl => by
    unfold levels at h
    split at h
    · cases h; simp
    · cases hn : nextLevel S l with
      | error e => simp [hn] at h
      | ok next =>
        simp only [hn] at h
        cases hr : levels S fuel next with
        | error e => simp [hr] at h
        | ok rest =>
          simp only [hr] at h
          cases h
          have hnext : ∀ x ∈ next, x ∈ U := by
            intro x hx
            obtain ⟨f, hf, hxf⟩ := nextLevel_src hn x hx
            exact hU f (hl f hf) x hxf
          intro x hx
          simp only [List.flatten_cons, List.mem_append] at hx
          rcases hx with hx | hx
          · exact hl x hx
          · exact levels_subset U hU fuel next rest hr hnext x hx

/-- what `_setup_fields` returns for a valid request -/
theorem setupFields_valid (S : Spec) (req : Req) (cleaned : Bool) (loadAB : List String) (haloLc : Bool)
    (hfix : fixedNamesOK S = true) (hcl : cleaned = true → haloLc = false)
    (hv : validRequest S req cleaned loadAB haloLc = true) :
    let fc := setupFields S req cleaned loadAB haloLc
    (∀ y ∈ fc.1, y ∈ kindCols S cleaned haloLc ∧ (y ∈ names S.halo_lc_dt ∨ y ∈ names S.user_dt)) ∧
    (∀ y ∈ fc.2, cleaned = true ∧ y ∈ names S.clean_dt_progen) ∧
    (∃ y, y ∈ fc.1 ∨ y ∈ fc.2) ∧
    (cleaned = true → "N_total" ∈ fc.2 ∧ ¬ "N" ∈ fc.1 ∧ ¬ "N" ∈ fc.2) := by
  intro fc
  -- unpack the guard
  unfold validRequest at hv
  simp only [Bool.and_eq_true] at hv
  obtain ⟨⟨⟨hv1, hv2⟩, hv3⟩, hv4⟩ := hv
  have hv1' : ∀ n ∈ fields0 S req cleaned haloLc, n ∈ names S.user_dt ∨
      (cleaned = true ∧ n ∈ names S.clean_dt_progen) ∨
      (haloLc = true ∧ (n ∈ names S.halo_lc_dt ∨ lcBad S n = true)) := by
    intro n hn
    have := List.all_eq_true.mp hv1 n hn
    simpa [or_assoc] using this
  -- the fixed names
  unfold fixedNamesOK at hfix
  simp only [Bool.and_eq_true, List.all_eq_true, decide_eq_true_eq, Bool.not_eq_eq_eq_not, Bool.not_true,
    decide_eq_false_iff_not] at hfix
  obtain ⟨⟨⟨⟨fNt, fN⟩, fIdx⟩, fMerge⟩, fLc⟩ := hfix
  -- which subsamples
  have hAB : ∀ ab ∈ loadAB, (ab = "A" ∨ ab = "B") ∧ (haloLc = true → ab = "A") := by
    intro ab hab
    cases haloLc with
    | true =>
      simp only [if_true, Bool.or_eq_true, beq_iff_eq] at hv3
      rcases hv3 with rfl | rfl
      · simp at hab
      · simp at hab; subst hab; exact ⟨Or.inl rfl, fun _ => rfl⟩
    | false =>
      simp only [Bool.false_eq_true, if_false, decide_eq_true_eq, loadABs, List.mem_cons, List.not_mem_nil,
        or_false] at hv3
      rcases hv3 with rfl | rfl | rfl | rfl <;> simp at hab
      · subst hab; exact ⟨Or.inl rfl, by simp⟩
      · subst hab; exact ⟨Or.inr rfl, by simp⟩
      · rcases hab with rfl | rfl
        · exact ⟨Or.inl rfl, by simp⟩
        · exact ⟨Or.inr rfl, by simp⟩
  -- step 1: N -> N_total
  let l := fields0 S req cleaned haloLc
  let f1 := stepN cleaned l
  have f1mem : ∀ y ∈ f1, y ∈ l ∨ (cleaned = true ∧ y = "N_total") := by
    intro y hy
    simp only [f1, stepN] at hy
    split at hy
    · rename_i hc
      rcases mem_appendIfMissing.mp hy with h | h
      · left; split at h
        · exact List.mem_of_mem_erase h
        · exact h
      · exact Or.inr ⟨hc, h⟩
    · exact Or.inl hy
  have f1cnt : cleaned = true → (∀ x ∈ names S.clean_dt_progen, f1.count x ≤ 1) ∧ f1.count "N" = 0 ∧ "N_total" ∈ f1 := by
    intro hc
    subst hc
    simp only [Bool.not_true, Bool.false_or, Bool.and_eq_true, List.all_eq_true, decide_eq_true_eq] at hv2
    obtain ⟨hc1, hcN⟩ := hv2
    have ecnt : ∀ x, (if "N" ∈ l then l.erase "N" else l).count x ≤ l.count x := by
      intro x; split
      · exact count_erase_le
      · exact Nat.le_refl _
    have eN : (if "N" ∈ l then l.erase "N" else l).count "N" = 0 := by
      split
      · rw [List.count_erase_self]; have : l.count "N" ≤ 1 := hcN; omega
      · rename_i h; exact List.count_eq_zero.mpr h
    refine ⟨?_, ?_, ?_⟩
    · intro x hx
      simp only [f1, stepN, if_true]
      by_cases hxn : x = "N_total"
      · subst hxn
        refine Nat.le_trans count_appendIfMissing_self ?_
        have := Nat.le_trans (ecnt "N_total") (hc1 _ hx)
        omega
      · rw [count_appendIfMissing_of_ne hxn]
        exact Nat.le_trans (ecnt x) (hc1 x hx)
    · simp only [f1, stepN, if_true]
      rw [count_appendIfMissing_of_ne (by decide)]
      exact eN
    · simp only [f1, stepN, if_true]
      exact mem_appendIfMissing.mpr (Or.inr rfl)
  -- step 2: the split
  let sp := stepSplit S cleaned f1
  have sp1 : ∀ y ∈ sp.1, y ∈ l ∧ (cleaned = true → ¬ y ∈ names S.clean_dt_progen) ∧ (cleaned = true → y ≠ "N") := by
    intro y hy
    cases hc : cleaned with
    | false =>
      have : sp = (f1, []) := by simp [sp, stepSplit, hc]
      rw [this] at hy
      rcases f1mem y hy with h | ⟨h, _⟩
      · exact ⟨h, by simp, by simp⟩
      · rw [hc] at h; cases h
    | true =>
      obtain ⟨c1, cN, _⟩ := f1cnt hc
      have hsp : sp = (names S.clean_dt_progen).foldl splitStep (f1, []) := by simp [sp, stepSplit, hc]
      obtain ⟨i1, i2, _, _, _⟩ := split_spec (names S.clean_dt_progen) (f1, [])
      rw [hsp] at hy
      have hpos : 0 < ((names S.clean_dt_progen).foldl splitStep (f1, [])).1.count y := List.count_pos_iff.mpr hy
      have hnc : ¬ y ∈ names S.clean_dt_progen := by
        intro hyc
        have a := i2 y hyc
        have b := c1 y hyc
        simp only at a
        omega
      have hyf1 : y ∈ f1 := by
        have := i1 y
        simp only at this
        exact List.count_pos_iff.mp (by omega)
      have hyN : y ≠ "N" := by
        rintro rfl
        have := List.count_eq_zero.mp cN
        exact this hyf1
      rcases f1mem y hyf1 with h | ⟨_, h⟩
      · exact ⟨h, fun _ => hnc, fun _ => hyN⟩
      · subst h; exact absurd fNt hnc
  have sp2 : ∀ y ∈ sp.2, cleaned = true ∧ y ∈ names S.clean_dt_progen := by
    intro y hy
    cases hc : cleaned with
    | false =>
      have : sp = (f1, []) := by simp [sp, stepSplit, hc]
      rw [this] at hy; simp at hy
    | true =>
      have hsp : sp = (names S.clean_dt_progen).foldl splitStep (f1, []) := by simp [sp, stepSplit, hc]
      obtain ⟨_, _, i3, _, _⟩ := split_spec (names S.clean_dt_progen) (f1, [])
      rw [hsp] at hy
      rcases i3 y hy with h | h
      · simp at h
      · exact ⟨rfl, h⟩
  have spNt : cleaned = true → "N_total" ∈ sp.2 := by
    intro hc
    obtain ⟨_, _, hNt⟩ := f1cnt hc
    have hsp : sp = (names S.clean_dt_progen).foldl splitStep (f1, []) := by simp [sp, stepSplit, hc]
    obtain ⟨_, _, _, i4, _⟩ := split_spec (names S.clean_dt_progen) (f1, [])
    rw [hsp]
    exact i4 "N_total" fNt (Or.inl hNt)
  -- step 3: light-cone pruning
  let p := stepPrune S haloLc sp.1
  have pmem : ∀ y ∈ p, y ∈ sp.1 ∧ (haloLc = true → lcBad S y = false) := by
    intro y hy
    cases hl : haloLc with
    | false =>
      have : p = sp.1 := by simp [p, stepPrune, hl]
      rw [this] at hy; exact ⟨hy, by simp⟩
    | true =>
      have hp : p = sp.1.foldl (pruneStep S) sp.1 := by simp [p, stepPrune, hl]
      obtain ⟨i1, i2, _⟩ := prune_spec S sp.1 sp.1
      rw [hp] at hy
      have hpos : 0 < (sp.1.foldl (pruneStep S) sp.1).count y := List.count_pos_iff.mpr hy
      refine ⟨List.count_pos_iff.mp (Nat.lt_of_lt_of_le hpos (i1 y)), fun _ => ?_⟩
      cases hb : lcBad S y with
      | false => rfl
      | true =>
        have := i2 y hb
        omega
  have psurv : ∀ y ∈ sp.1, (haloLc = true → lcBad S y = false) → y ∈ p := by
    intro y hy hgood
    cases hl : haloLc with
    | false => simpa [p, stepPrune, hl] using hy
    | true =>
      have hp : p = sp.1.foldl (pruneStep S) sp.1 := by simp [p, stepPrune, hl]
      obtain ⟨_, _, i3⟩ := prune_spec S sp.1 sp.1
      rw [hp]; exact i3 y (hgood hl) hy
  have puniv : ∀ y ∈ p, y ∈ kindCols S cleaned haloLc ∧ (y ∈ names S.halo_lc_dt ∨ y ∈ names S.user_dt) := by
    intro y hy
    obtain ⟨hysp, hgood⟩ := pmem y hy
    obtain ⟨hyl, hncl, _⟩ := sp1 y hysp
    have hdecl : y ∈ names S.user_dt ∨ (haloLc = true ∧ y ∈ names S.halo_lc_dt) := by
      rcases hv1' y hyl with h | ⟨hc, h⟩ | ⟨hl, h | h⟩
      · exact Or.inl h
      · exact absurd h (hncl hc)
      · exact Or.inr ⟨hl, h⟩
      · rw [hgood hl] at h; cases h
    constructor
    · unfold kindCols
      cases hl : haloLc with
      | true =>
        simp only [if_true, List.mem_filter, List.mem_append, hgood hl, Bool.not_false, and_true]
        rcases hdecl with h | ⟨_, h⟩
        · exact Or.inl h
        · exact Or.inr h
      | false =>
        simp only [Bool.false_eq_true, if_false, List.mem_append]
        rcases hdecl with h | ⟨h, _⟩
        · exact Or.inl h
        · rw [hl] at h; cases h
    · rcases hdecl with h | ⟨_, h⟩
      · exact Or.inr h
      · exact Or.inl h
  -- step 4: the index columns
  have hfc : fc = loadAB.foldl (abStep cleaned) (p, sp.2) := setupFields_eq S req cleaned loadAB haloLc
  obtain ⟨a1, a2⟩ := ab_spec cleaned loadAB (p, sp.2)
  rw [hfc]
  refine ⟨?_, ?_, ?_, ?_⟩
  · intro y hy
    rcases (a1 y).mp hy with h | ⟨ab, hab, h⟩
    · exact puniv y h
    · obtain ⟨hab1, hab2⟩ := hAB ab hab
      have hyI : y ∈ ["npstartA", "npoutA", "npstartB", "npoutB"] := by
        rcases hab1 with rfl | rfl <;> rcases h with rfl | rfl <;> decide
      have hyu : y ∈ names S.user_dt := fIdx y hyI
      refine ⟨?_, Or.inr hyu⟩
      unfold kindCols
      cases hl : haloLc with
      | false => simp only [Bool.false_eq_true, if_false, List.mem_append]; exact Or.inl hyu
      | true =>
        have := hab2 hl
        subst this
        have hyL : y ∈ names S.halo_lc_dt := by
          rcases h with rfl | rfl
          · exact fLc _ (by decide)
          · exact fLc _ (by decide)
        simp only [if_true, List.mem_filter, List.mem_append, lcBad, hyL, decide_true, Bool.not_true,
          Bool.and_false, Bool.not_false, and_true]
        exact Or.inl hyu
  · intro y hy
    rcases (a2 y).mp hy with h | ⟨hc, ab, hab, h⟩
    · exact sp2 y h
    · obtain ⟨hab1, _⟩ := hAB ab hab
      refine ⟨hc, fMerge y ?_⟩
      rcases hab1 with rfl | rfl <;> rcases h with rfl | rfl <;> decide
  · -- something is left
    simp only [Bool.or_eq_true, Bool.not_eq_eq_eq_not, Bool.not_true, List.any_eq_true] at hv4
    rcases hv4 with (hc | hne) | ⟨n, hn, hgood⟩
    · exact ⟨"N_total", Or.inr ((a2 _).mpr (Or.inl (spNt hc)))⟩
    · obtain ⟨ab, hab⟩ : ∃ ab, ab ∈ loadAB := by
        cases hL : loadAB with
        | nil => simp [hL] at hne
        | cons a r => exact ⟨a, by simp⟩
      exact ⟨"npstart" ++ ab, Or.inl ((a1 _).mpr (Or.inr ⟨ab, hab, Or.inl rfl⟩))⟩
    · by_cases hc : cleaned = true
      · exact ⟨"N_total", Or.inr ((a2 _).mpr (Or.inl (spNt hc)))⟩
      · have hcf : cleaned = false := by cases cleaned <;> simp_all
        have hsp : sp = (l, []) := by simp [sp, stepSplit, f1, stepN, hcf]
        have hnsp : n ∈ sp.1 := by rw [hsp]; exact hn
        have : n ∈ p := psurv n hnsp (by
          intro hl
          rcases hgood with h | h
          · rw [hl] at h; cases h
          · simpa using h)
        exact ⟨n, Or.inl ((a1 _).mpr (Or.inl this))⟩
  · intro hc
    refine ⟨(a2 _).mpr (Or.inl (spNt hc)), ?_, ?_⟩
    · intro hN
      rcases (a1 _).mp hN with h | ⟨ab, hab, h⟩
      · exact (sp1 _ (pmem _ h).1).2.2 hc rfl
      · obtain ⟨hab1, _⟩ := hAB ab hab
        rcases hab1 with rfl | rfl <;> rcases h with h | h <;> exact absurd h (by decide)
    · intro hN
      rcases (a2 _).mp hN with h | ⟨_, ab, hab, h⟩
      · exact fN (sp2 _ h).2
      · obtain ⟨hab1, _⟩ := hAB ab hab
        rcases hab1 with rfl | rfl <;> rcases h with h | h <;> exact absurd h (by decide)

theorem wfFull_unpack {S : Spec} (h : wfFull S = true) :
    groupOK S = true ∧ dtypesOK S = true ∧ selfInGroup S = true ∧ depsDeclared S = true ∧ fixedNamesOK S = true ∧
    universeOK S false false = true ∧ universeOK S true false = true ∧ universeOK S false true = true := by
  unfold wfFull at h
  simp only [Bool.and_eq_true] at h
  obtain ⟨⟨⟨⟨⟨⟨⟨h1, h2⟩, h3⟩, h4⟩, h5⟩, h6⟩, h7⟩, h8⟩ := h
  exact ⟨h1, h2, h3, h4, h5, h6, h7, h8⟩

/-- `_read_halo_info` returns for every valid request, and its table has exactly the requested columns -/
theorem readHaloInfo_ok (S : Spec) (O : ValOps V) (hwf : wfFull S = true)
    (nprev : Nat) (rawCols cleanCols : List String) (req : Req) (cleaned : Bool) (loadAB : List String)
    (haloLc : Bool) (hcl : cleaned = true → haloLc = false)
    (hv : validRequest S req cleaned loadAB haloLc = true)
    (hraw : rawsProvided S rawCols cleanCols cleaned haloLc = true) :
    ∃ r, readHaloInfo S O nprev rawCols cleanCols req cleaned loadAB haloLc = .ok r ∧
      ∀ x, x ∈ cnames r.table ↔
        x ∈ (setupFields S req cleaned loadAB haloLc).1 ∨ x ∈ (setupFields S req cleaned loadAB haloLc).2 := by
  obtain ⟨hg, hd, hsg, hdd, hfix, hu00, hu10, hu01⟩ := wfFull_unpack hwf
  have hU : universeOK S cleaned haloLc = true := by
    cases hc : cleaned <;> cases hl : haloLc
    · exact hu00
    · exact hu01
    · exact hu10
    · have := hcl hc; rw [hl] at this; cases this
  obtain ⟨hF, hC, hNE, _⟩ := setupFields_valid S req cleaned loadAB haloLc hfix hcl hv
  obtain ⟨cols0, ha, hn0⟩ := allocate_some S _ _ (fun y hy => (hF y hy).2) (fun y hy => (hC y hy).2)
  -- every column of the table belongs to the catalog kind
  have hkind : ∀ x ∈ cols0.map (·.1), x ∈ kindCols S cleaned haloLc := by
    intro x hx
    rcases (hn0 x).mp hx with h | h
    · exact (hF x h).1
    · obtain ⟨hc, hxc⟩ := hC x h
      have hl := hcl hc
      unfold kindCols
      simp only [hl, hc, Bool.false_eq_true, if_false, if_true, List.mem_append]
      exact Or.inr hxc
  have hUall := List.all_eq_true.mp hU
  have hUx : ∀ x ∈ kindCols S cleaned haloLc, ∃ ld, findLoader S x = some ld ∧ ld.rawDeps ≠ [] ∧
      (∀ d ∈ ld.haloDeps, d ∈ kindCols S cleaned haloLc) ∧ resolvesS S (S.loaders.length + 1) x = true := by
    intro x hx
    have := hUall x hx
    cases hl : findLoader S x with
    | none => simp [hl] at this
    | some ld =>
      simp only [hl, Bool.and_eq_true, Bool.not_eq_eq_eq_not, Bool.not_true, List.all_eq_true,
        decide_eq_true_eq] at this
      obtain ⟨⟨h1, h2⟩, h3⟩ := this
      exact ⟨ld, rfl, by intro he; rw [he] at h1; simp at h1, h2, h3⟩
  obtain ⟨D, ex, hD, hex, hload⟩ := no_request_dependent_failure_partial S O hg hsg hdd cols0
    (fun f hf => (hUx f (hkind f hf)).choose_spec.2.2.2)
  -- look inside the dependency capture
  have hD' := hD
  unfold deps at hD'
  cases hlv : levels S (S.loaders.length + 1) (cols0.map (·.1)) with
  | error e => simp [hlv] at hD'
  | ok lv =>
    simp only [hlv] at hD'
    have hclosed : ∀ x ∈ kindCols S cleaned haloLc, ∀ d ∈ depsOfField S x, d ∈ kindCols S cleaned haloLc := by
      intro x hx d hd
      obtain ⟨ld, hl, _, hdeps, _⟩ := hUx x hx
      exact hdeps d (by simpa [depsOfField, hl] using hd)
    have hsub := levels_subset _ hclosed _ _ _ hlv hkind
    obtain ⟨_, hmem0⟩ := levels_sorted _ _ _ hlv
    have hrawall := List.all_eq_true.mp hraw
    -- the raw columns are in the files
    have hcheck : (D.raw.all fun r =>
        if r ∈ names S.clean_dt_progen then cleaned && decide (r ∈ cleanCols) else decide (r ∈ rawCols)) = true := by
      cases hD'
      rw [List.all_eq_true]
      intro r hr
      simp only [mem_dedup, List.mem_flatMap] at hr
      obtain ⟨x, hx, hrx⟩ := hr
      obtain ⟨ld, hl, _, _, _⟩ := hUx x (hsub x hx)
      have := hrawall x (hsub x hx)
      simp only [hl] at this hrx
      exact List.all_eq_true.mp this r hrx
    -- and there is at least one
    have hne : D.raw.isEmpty = false := by
      cases hD'
      obtain ⟨y, hy⟩ := hNE
      have hy0 : y ∈ cols0.map (·.1) := (hn0 y).mpr hy
      have hyl := hmem0 y hy0
      obtain ⟨ld, hl, hnr, _, _⟩ := hUx y (hsub y hyl)
      cases hrd : ld.rawDeps with
      | nil => exact absurd hrd hnr
      | cons r rs =>
        have : r ∈ dedup (lv.flatten.flatMap (fun f => match findLoader S f with | some l => l.rawDeps | none => [])) := by
          simp only [mem_dedup, List.mem_flatMap]
          exact ⟨y, hyl, by simp [hl, hrd]⟩
        cases hE : dedup (lv.flatten.flatMap (fun f => match findLoader S f with | some l => l.rawDeps | none => [])) with
        | nil => rw [hE] at this; simp at this
        | cons a as => rfl
    obtain ⟨⟨hh, ll⟩, hst⟩ := hload (reshapeMainprog nprev (setupFields S req cleaned loadAB haloLc).2 cols0)
      (fun _ => O.uninit) (names_reshape _ _ _)
    refine ⟨{ fields := (setupFields S req cleaned loadAB haloLc).1,
              cleanedFields := (setupFields S req cleaned loadAB haloLc).2, deps := D,
              table := { cols := reshapeMainprog nprev (setupFields S req cleaned loadAB haloLc).2 cols0, val := hh.val } },
            ?_, ?_⟩
    · unfold readHaloInfo
      simp only [ha, hD, hcheck, hex, hne, hst, Bool.not_true, Bool.false_eq_true, if_false, Bool.false_and]
    · intro x
      simp only [cnames, names_reshape]
      exact hn0 x

/- The requests the real constructor rejects (each confirmed on the real class, /repo at 3aa904d, with a
   catgen catalog; the model rejects the same ones and the correspondence checks this agreement on every run):
     * a name that is not a declared column of the catalog kind — `fields=['foo']`, `fields=['N_total']` with
       `cleaned=False`, `fields=['v_L2com_mainprog']` or `['fooL2']` on a light cone: `KeyError "Field named … not
       found."` (on a light cone any name without 'L2' that is not a light-cone column — `'x_com'`, `'haloindex'`,
       even the misspelling `'foo'` — is dropped silently and is therefore accepted);
     * cleaned catalogs: a cleaning column listed twice — `fields=['haloindex','haloindex']`,
       `['N_total','N_total']`, `['npstartA_merge','npstartA_merge']`: only one occurrence is moved to
       `cleaned_fields`, the other is looked up in `user_dt`: `KeyError "Field named 'haloindex' not found."`;
     * cleaned catalogs: `N` listed twice — `fields=['N','N']`: one `N` survives `fields.remove('N')`, and the
       final `rename_column('N_total','N')` raises `KeyError 'Column N already exists'`;
       (any other name may be repeated, in any mode: `['x_com','x_com']`, uncleaned `['N','N']` load fine)
     * a request with nothing left to load — `fields=[]` with `cleaned=False` and no subsamples, or a light-cone
       request made only of columns that are not recorded (`['x_com']`): `UnboundLocalError` (`del af, caf, src`
       in `_read_halo_info` when `raw_dependencies` is empty).
   `validRequest` is exactly the complement; everything it accepts loads: -/

/-- **no_request_dependent_failure.**  For the tables of the current source (any tables passing the decidable
check `wfFull`), every request accepted by `validRequest` — defaults, 'all', or any list of declared column
names of the catalog kind in any order, repeats allowed except for cleaning columns and `N` in cleaned
catalogs, with something left to load —, every `cleaned` flag, every subsample selection, light cone or not,
and halo_info / cleaned_halo_info files that hold the raw columns of the catalog kind: the constructor
(`_setup_fields`, allocation, dependency capture, temporaries, the loading loop, the subsample-index
bookkeeping, the final rename) returns a table.  Nothing fails because of which other columns were or were
not requested. -/
theorem no_request_dependent_failure (S : Spec) (O : ValOps V) (hwf : wfFull S = true)
    (nprev : Nat) (rawCols cleanCols : List String) (req : Req) (cleanedArg : Bool) (loadAB : List String)
    (haloLc : Bool)
    (hv : validRequest S req (cleanedArg && !haloLc) (if haloLc && !loadAB.isEmpty then ["A"] else loadAB) haloLc = true)
    (hraw : rawsProvided S rawCols cleanCols (cleanedArg && !haloLc) haloLc = true) :
    ∃ r, construct S O nprev rawCols cleanCols req cleanedArg loadAB haloLc = .ok r := by
  obtain ⟨_, _, _, _, hfix, _, _, _⟩ := wfFull_unpack hwf
  have hcl : (cleanedArg && !haloLc) = true → haloLc = false := by
    cases cleanedArg <;> cases haloLc <;> simp
  obtain ⟨r, hr, hn⟩ := readHaloInfo_ok S O hwf nprev rawCols cleanCols req _ _ haloLc hcl hv hraw
  obtain ⟨_, _, _, hFin⟩ := setupFields_valid S req _ _ haloLc hfix hcl hv
  have hfin : ∃ t, finish O (cleanedArg && !haloLc) (if haloLc && !loadAB.isEmpty then ["A"] else loadAB) haloLc r.table = .ok t := by
    apply finish_ok
    · intro hl
      unfold validRequest at hv
      simp only [Bool.and_eq_true] at hv
      have h3 := hv.1.2
      simpa [hl] using h3
    · intro ab hab
      obtain ⟨i1, i2, i3⟩ := setupFields_index_cols S req (cleanedArg && !haloLc)
        (if haloLc && !loadAB.isEmpty then ["A"] else loadAB) haloLc ab hab
      exact ⟨(hn _).mpr (Or.inl i1), (hn _).mpr (Or.inl i2),
        fun hc => ⟨(hn _).mpr (Or.inr (i3 hc).1), (hn _).mpr (Or.inr (i3 hc).2)⟩⟩
    · intro hc
      obtain ⟨h1, h2, h3⟩ := hFin hc
      refine ⟨(hn _).mpr (Or.inr h1), ?_⟩
      intro hN
      rcases (hn _).mp hN with h | h
      · exact h2 h
      · exact h3 h
  obtain ⟨t, ht⟩ := hfin
  refine ⟨{ r with table := t }, ?_⟩
  unfold construct
  simp only [hr, ht]

/-! ### the data model's files (raw column lists of harness/catgen.py, transcribed from the HaloStat struct) -/

/-- raw columns of a snapshot `halo_info` file -/
def snapshotRawCols : List String :=
  ["id", "npstartA", "npstartB", "npoutA", "npoutB", "ntaggedA", "ntaggedB", "N", "L2_N", "L0_N",
   "x_com", "v_com", "sigmav3d_com", "meanSpeed_com", "sigmav3d_r50_com", "meanSpeed_r50_com",
   "r100_com", "vcirc_max_com", "SO_central_particle", "SO_central_density", "SO_radius", "x_L2com",
   "v_L2com", "sigmav3d_L2com", "meanSpeed_L2com", "sigmav3d_r50_L2com", "meanSpeed_r50_L2com",
   "r100_L2com", "vcirc_max_L2com", "SO_L2max_central_particle", "SO_L2max_central_density",
   "SO_L2max_radius", "sigmavMin_to_sigmav3d_com_i16", "sigmavMax_to_sigmav3d_com_i16",
   "sigmav_eigenvecs_com_u16", "sigmavrad_to_sigmav3d_com_i16", "sigmavtan_to_sigmav3d_com_i16",
   "r10_com_i16", "r25_com_i16", "r33_com_i16", "r50_com_i16", "r67_com_i16", "r75_com_i16",
   "r90_com_i16", "r95_com_i16", "r98_com_i16", "sigmar_com_i16", "sigman_com_i16",
   "sigmar_eigenvecs_com_u16", "sigman_eigenvecs_com_u16", "rvcirc_max_com_i16",
   "sigmavMin_to_sigmav3d_L2com_i16", "sigmavMax_to_sigmav3d_L2com_i16", "sigmav_eigenvecs_L2com_u16",
   "sigmavrad_to_sigmav3d_L2com_i16", "sigmavtan_to_sigmav3d_L2com_i16", "r10_L2com_i16",
   "r25_L2com_i16", "r33_L2com_i16", "r50_L2com_i16", "r67_L2com_i16", "r75_L2com_i16",
   "r90_L2com_i16", "r95_L2com_i16", "r98_L2com_i16", "sigmar_L2com_i16", "sigman_L2com_i16",
   "sigmar_eigenvecs_L2com_u16", "sigman_eigenvecs_L2com_u16", "rvcirc_max_L2com_i16"]

/-- columns of a `cleaned_halo_info` file -/
def cleanedCols : List String :=
  ["npstartA_merge", "npstartB_merge", "npoutA_merge", "npoutB_merge", "N_total", "N_merge",
   "haloindex", "is_merged_to", "N_mainprog", "vcirc_max_L2com_mainprog", "sigmav3d_L2com_mainprog",
   "haloindex_mainprog", "v_L2com_mainprog"]

/-- columns of a light-cone `lc_halo_info` file -/
def lightconeRawCols : List String :=
  ["N", "N_interp", "npstartA", "npoutA", "index_halo", "origin", "pos_avg", "pos_interp", "vel_avg",
   "vel_interp", "redshift_interp", "L2_N", "x_L2com", "v_L2com", "sigmav3d_L2com", "meanSpeed_L2com",
   "sigmav3d_r50_L2com", "meanSpeed_r50_L2com", "r100_L2com", "vcirc_max_L2com",
   "SO_L2max_central_particle", "SO_L2max_central_density", "SO_L2max_radius",
   "sigmavMin_to_sigmav3d_L2com_i16", "sigmavMax_to_sigmav3d_L2com_i16", "sigmav_eigenvecs_L2com_u16",
   "sigmavrad_to_sigmav3d_L2com_i16", "sigmavtan_to_sigmav3d_L2com_i16", "r10_L2com_i16",
   "r25_L2com_i16", "r33_L2com_i16", "r50_L2com_i16", "r67_L2com_i16", "r75_L2com_i16",
   "r90_L2com_i16", "r95_L2com_i16", "r98_L2com_i16", "sigmar_L2com_i16", "sigman_L2com_i16",
   "sigmar_eigenvecs_L2com_u16", "sigman_eigenvecs_L2com_u16", "rvcirc_max_L2com_i16"]

/-- the data-model files provide the raw columns of every column of each catalog kind -/
theorem datamodel_provides :
    rawsProvided Spec.generated snapshotRawCols [] false false = true ∧
    rawsProvided Spec.generated snapshotRawCols cleanedCols true false = true ∧
    rawsProvided Spec.generated lightconeRawCols [] false true = true := by
  refine ⟨by decide +kernel, by decide +kernel, by decide +kernel⟩

/-- `'all'` and the defaults are valid requests for every catalog kind and every subsample selection -/
theorem all_and_defaults_valid :
    ∀ req ∈ [Req.default, Req.all], ∀ ab ∈ loadABs,
      validRequest Spec.generated req false ab false = true ∧
      validRequest Spec.generated req true ab false = true ∧
      (ab ∈ [[], ["A"]] → validRequest Spec.generated req false ab true = true) := by
  decide +kernel

/-- **corollary for the current source and the data-model files**: every valid request on a snapshot catalog
(cleaned or not, any subsample selection) constructs. -/
theorem snapshot_constructs (O : ValOps V) (nprev : Nat) (req : Req) (cleaned : Bool) (loadAB : List String)
    (hv : validRequest Spec.generated req cleaned loadAB false = true) :
    ∃ r, construct Spec.generated O nprev snapshotRawCols (if cleaned then cleanedCols else []) req cleaned loadAB false
      = .ok r := by
  apply no_request_dependent_failure Spec.generated O generated_wfFull
  · simpa using hv
  · cases cleaned
    · simpa using datamodel_provides.1
    · simpa using datamodel_provides.2.1

/-- non-vacuity: the request of the repaired defects (`fields=['sigmavMid_com','N']`, uncleaned, subsample A), a
cleaned request with repeats and both subsamples, and a light-cone request satisfy the guard -/
example :
    validRequest Spec.generated (.list ["sigmavMid_com", "N"]) false ["A"] false = true ∧
    validRequest Spec.generated (.list ["x_com", "N", "x_com", "haloindex", "sigmavMid_L2com"]) true ["A", "B"] false = true ∧
    validRequest Spec.generated (.list ["vel_interp", "x_com", "sigmavMid_L2com"]) false ["A"] true = true := by
  decide +kernel

/-- non-vacuity of the guard: the four rejected request classes are rejected by `validRequest` *and* by the model
of the constructor (and by the real class, see the comment above) -/
example :
    let bad : List (Req × Bool × Bool) :=
      [(.list ["foo"], false, false), (.list ["N_total"], false, false), (.list ["v_L2com_mainprog"], false, true),
       (.list ["haloindex", "haloindex"], true, false), (.list ["N", "N"], true, false),
       (.list [], false, false), (.list ["x_com"], false, true)]
    bad.all (fun t =>
      !validRequest Spec.generated t.1 t.2.1 [] t.2.2 &&
      (construct Spec.generated strOps 3 (if t.2.2 then lightconeRawCols else snapshotRawCols)
        (if t.2.1 then cleanedCols else []) t.1 t.2.1 [] t.2.2).toOption.isNone) = true := by
  decide +kernel

/-! ### passthrough mode (`passthrough=True`) -/

/-- every column of the table `_read_halo_info(passthrough=True)` returns is the raw column in its file dtype -/
theorem passthrough_table (S : Spec) (O : ValOps V) (rawFile cleanFile : List (String × Dt)) (req : Req)
    (cleaned : Bool) (loadAB : List String) (r : Loaded V)
    (h : readHaloInfoPT S O rawFile cleanFile req cleaned loadAB = .ok r) :
    ∀ p ∈ r.table.cols, some (r.table.val p.1) = ptDenote O rawFile cleanFile cleaned p.1 := by
  obtain ⟨q, hq, _⟩ := setupFieldsPT_spec rawFile cleanFile req cleaned loadAB
  obtain ⟨cols, ha, _, hdt⟩ := allocatePT_spec rawFile cleanFile cleaned q
  unfold readHaloInfoPT at h
  simp only [hq, ha] at h
  split at h
  · cases h
  · split at h
    · cases h
    · cases hl : loadAllPT O (dedup (cols.map (·.1)).reverse) { cols := cols, val := fun _ => O.uninit } with
      | error e => simp [hl] at h
      | ok t =>
        simp only [hl, Except.ok.injEq] at h
        subst h
        obtain ⟨hc, hw, _⟩ := loadAllPT_spec O _ _ _ hl
        intro p hp
        simp only at hp ⊢
        rw [hc] at hp
        have hmem : p.1 ∈ dedup (cols.map (·.1)).reverse := by
          simp only [mem_dedup, List.mem_reverse]
          exact List.mem_map_of_mem hp
        obtain ⟨d, hd, hv⟩ := hw p.1 hmem
        have := hdt (p.1, d) (dtLookup_mem hd)
        simp only at this
        simp [ptDenote, this, hv]

/-- **passthrough_column_independent.**  In passthrough mode, for any request (a list in any order with repeats
and unknown names, 'all'), cleaned on/off and any subsample selection: if the constructor returns, every column of
`cat.halos` other than the re-indexed `npstart/npout` of the loaded subsamples holds `ptDenote c` — the raw column
`c` of the file in the file's dtype — which mentions neither the request nor the subsample selection. -/
theorem passthrough_column_independent (S : Spec) (O : ValOps V) (rawFile cleanFile : List (String × Dt))
    (req : Req) (cleaned : Bool) (loadAB : List String) (r : Loaded V)
    (h : constructPT S O rawFile cleanFile req cleaned loadAB = .ok r) :
    ∀ p ∈ r.table.cols, (∀ ab ∈ loadAB, p.1 ≠ "npstart" ++ ab ∧ p.1 ≠ "npout" ++ ab) →
      some (r.table.val p.1) = ptDenote O rawFile cleanFile cleaned p.1 := by
  unfold constructPT at h
  cases h0 : readHaloInfoPT S O rawFile cleanFile req cleaned loadAB with
  | error e => simp [h0] at h
  | ok r0 =>
    simp only [h0] at h
    cases h1 : reindexAll O cleaned loadAB false r0.table with
    | error e => simp [h1] at h
    | ok t =>
      simp only [h1, Except.ok.injEq] at h
      subst h
      obtain ⟨hv, hm⟩ := reindexAll_val h1
      intro p hp hne
      simp only at hp ⊢
      rw [hv p.1 hne]
      have hpn : p.1 ∈ cnames t := List.mem_map_of_mem hp
      rcases hm p.1 hpn with h2 | ⟨ab, hab, h2⟩
      · obtain ⟨p0, hp0, he⟩ := List.mem_map.mp h2
        have := passthrough_table S O rawFile cleanFile req cleaned loadAB r0 h0 p0 hp0
        rw [he] at this
        exact this
      · rcases h2 with h2 | h2
        · exact absurd h2 (hne ab hab).1
        · exact absurd h2 (hne ab hab).2

/-- two passthrough loads of the same files — any two requests, orders, subsample selections — agree on every
column they share that neither of them re-indexed -/
theorem passthrough_column_independent_pair (S : Spec) (O : ValOps V) (rawFile cleanFile : List (String × Dt))
    (cleaned : Bool) (req₁ req₂ : Req) (ab₁ ab₂ : List String) (r₁ r₂ : Loaded V)
    (h₁ : constructPT S O rawFile cleanFile req₁ cleaned ab₁ = .ok r₁)
    (h₂ : constructPT S O rawFile cleanFile req₂ cleaned ab₂ = .ok r₂)
    (c : String) (hc₁ : c ∈ cnames r₁.table) (hc₂ : c ∈ cnames r₂.table)
    (hn : ∀ ab ∈ ab₁ ++ ab₂, c ≠ "npstart" ++ ab ∧ c ≠ "npout" ++ ab) :
    r₁.table.val c = r₂.table.val c := by
  obtain ⟨p₁, hp₁, rfl⟩ := List.mem_map.mp hc₁
  obtain ⟨p₂, hp₂, he⟩ := List.mem_map.mp hc₂
  have d₁ := passthrough_column_independent S O rawFile cleanFile req₁ cleaned ab₁ r₁ h₁ p₁ hp₁
    (fun ab hab => hn ab (List.mem_append_left _ hab))
  have d₂ := passthrough_column_independent S O rawFile cleanFile req₂ cleaned ab₂ r₂ h₂ p₂ hp₂
    (fun ab hab => by rw [he]; exact hn ab (List.mem_append_right _ hab))
  rw [he] at d₂
  exact Option.some.inj (d₁.trans d₂.symm)

/-- the files are what the data model says: the halo_info file holds the subsample index columns and none of its
columns is named like a cleaning column; the cleaned file (if opened) holds `N_total` and the merge index columns
and only columns named in `clean_dt_progen` (the reader picks the file of a raw column by that name test) -/
def ptFilesOK (S : Spec) (rawFile cleanFile : List (String × Dt)) (cleaned : Bool) : Bool :=
  ["npstartA", "npoutA", "npstartB", "npoutB"].all (fun n => decide (n ∈ names rawFile)) &&
  (names rawFile).all (fun n => !decide (n ∈ names S.clean_dt_progen)) &&
  (!cleaned ||
    (["N_total", "npstartA_merge", "npoutA_merge", "npstartB_merge", "npoutB_merge"].all (fun n => decide (n ∈ names cleanFile)) &&
     (names cleanFile).all (fun n => decide (n ∈ names S.clean_dt_progen))))

/-- **passthrough_no_request_dependent_failure.**  In passthrough mode, for data-model files, every request whose
resolved field list is not empty — any list of names in any order, repeats and unknown names included, or 'all' —,
cleaned on/off, every subsample selection: the constructor returns a table.  (An empty resolved list raises
`UnboundLocalError` in the real reader, e.g. `fields=['haloindex']` with `cleaned=False`.) -/
theorem passthrough_no_request_dependent_failure (S : Spec) (O : ValOps V) (rawFile cleanFile : List (String × Dt))
    (req : Req) (cleaned : Bool) (loadAB : List String)
    (hAB : loadAB ∈ loadABs) (hfiles : ptFilesOK S rawFile cleanFile cleaned = true)
    (hne : (setupFieldsPT rawFile cleanFile req cleaned loadAB).1 ≠ [] ∨
           (setupFieldsPT rawFile cleanFile req cleaned loadAB).2 ≠ []) :
    ∃ r, constructPT S O rawFile cleanFile req cleaned loadAB = .ok r := by
  obtain ⟨q, hq, hqi⟩ := setupFieldsPT_spec rawFile cleanFile req cleaned loadAB
  obtain ⟨cols, ha, hn, _⟩ := allocatePT_spec rawFile cleanFile cleaned q
  rw [hq] at hne
  simp only at hne
  -- unpack the file facts
  unfold ptFilesOK at hfiles
  simp only [Bool.and_eq_true, List.all_eq_true, decide_eq_true_eq, Bool.not_eq_eq_eq_not, Bool.not_true,
    decide_eq_false_iff_not, Bool.or_eq_true] at hfiles
  obtain ⟨⟨fidx, fsrc⟩, fclean⟩ := hfiles
  have fclean' : cleaned = true →
      (∀ n ∈ ["N_total", "npstartA_merge", "npoutA_merge", "npstartB_merge", "npoutB_merge"], n ∈ names cleanFile) ∧
      (∀ n ∈ names cleanFile, n ∈ names S.clean_dt_progen) := by
    intro hc
    rcases fclean with h | h
    · rw [hc] at h; cases h
    · exact h
  -- the raw IO finds every column in the right file
  have hcheck : ((dedup (cols.map (·.1))).all fun r =>
      if r ∈ names S.clean_dt_progen then cleaned && decide (r ∈ names cleanFile) else decide (r ∈ names rawFile)) = true := by
    rw [List.all_eq_true]
    intro x hx
    have hx' : x ∈ names cols := by simpa [mem_dedup, names] using hx
    rcases (hn x).mp hx' with h | h
    · have hr := (List.mem_filter.mp h).1
      simp [fsrc x hr, hr]
    · have hm := (List.mem_filter.mp h).1
      cases hc : cleaned with
      | false => rw [hc] at hm; simp at hm
      | true =>
        rw [hc] at hm
        have hm' : x ∈ names cleanFile := by simpa using hm
        simp [(fclean' hc).2 x hm', hm']
  have hnonempty : (dedup (cols.map (·.1))).isEmpty = false := by
    have : ∃ x, x ∈ names cols := by
      rcases hne with h | h
      · cases hf : (names rawFile).filter q with
        | nil => exact absurd hf h
        | cons a _ => exact ⟨a, (hn a).mpr (Or.inl (by simp [hf]))⟩
      · cases hf : (if cleaned then names cleanFile else []).filter q with
        | nil => exact absurd hf h
        | cons a _ => exact ⟨a, (hn a).mpr (Or.inr (by simp [hf]))⟩
    obtain ⟨x, hx⟩ := this
    cases hE : dedup (cols.map (·.1)) with
    | nil =>
      have : x ∈ dedup (cols.map (·.1)) := by simpa [mem_dedup, names] using hx
      rw [hE] at this; simp at this
    | cons _ _ => rfl
  obtain ⟨t, ht⟩ := loadAllPT_some O (dedup (cols.map (·.1)).reverse) { cols := cols, val := fun _ => O.uninit }
    (by intro x hx; simpa [mem_dedup, cnames] using hx)
  obtain ⟨tc, _, _⟩ := loadAllPT_spec O _ _ _ ht
  have hr0 : readHaloInfoPT S O rawFile cleanFile req cleaned loadAB = .ok
      { fields := (names rawFile).filter q, cleanedFields := (if cleaned then names cleanFile else []).filter q,
        deps := { raw := dedup (cols.map (·.1)), fieldsWithDeps := dedup (cols.map (·.1)).reverse, extra := [] },
        table := t } := by
    unfold readHaloInfoPT
    simp only [hq, ha, hcheck, hnonempty, ht, Bool.not_true, Bool.false_eq_true, if_false]
  -- the index columns are in the table
  have hcn : ∀ x, x ∈ cnames t ↔ x ∈ (names rawFile).filter q ∨ x ∈ (if cleaned then names cleanFile else []).filter q := by
    intro x
    have : cnames t = names cols := by simp [cnames, names, tc]
    rw [this]; exact hn x
  have habAB : ∀ ab ∈ loadAB, ab = "A" ∨ ab = "B" := by
    intro ab hab
    simp only [loadABs, List.mem_cons, List.not_mem_nil, or_false] at hAB
    rcases hAB with rfl | rfl | rfl | rfl <;> simp at hab
    · exact Or.inl hab
    · exact Or.inr hab
    · exact hab
  have hidx : ∀ ab ∈ loadAB, ("npstart" ++ ab) ∈ cnames t ∧ ("npout" ++ ab) ∈ cnames t ∧
      (cleaned = true → ("npstart" ++ ab ++ "_merge") ∈ cnames t ∧ ("npout" ++ ab ++ "_merge") ∈ cnames t) := by
    intro ab hab
    have hin : ∀ y ∈ ["npstart" ++ ab, "npout" ++ ab, "npstart" ++ ab ++ "_merge", "npout" ++ ab ++ "_merge"],
        q y = true := by
      intro y hy
      apply hqi
      unfold ptIndexNames
      exact List.mem_append_left _ (List.mem_flatMap.mpr ⟨ab, hab, hy⟩)
    refine ⟨?_, ?_, ?_⟩
    · refine (hcn _).mpr (Or.inl (List.mem_filter.mpr ⟨fidx _ ?_, hin _ (by simp)⟩))
      rcases habAB ab hab with rfl | rfl <;> decide
    · refine (hcn _).mpr (Or.inl (List.mem_filter.mpr ⟨fidx _ ?_, hin _ (by simp)⟩))
      rcases habAB ab hab with rfl | rfl <;> decide
    · intro hc
      obtain ⟨fc1, _⟩ := fclean' hc
      constructor
      · refine (hcn _).mpr (Or.inr (List.mem_filter.mpr ⟨?_, hin _ (by simp)⟩))
        rw [hc]; simp only [if_true]
        apply fc1
        rcases habAB ab hab with rfl | rfl <;> decide
      · refine (hcn _).mpr (Or.inr (List.mem_filter.mpr ⟨?_, hin _ (by simp)⟩))
        rw [hc]; simp only [if_true]
        apply fc1
        rcases habAB ab hab with rfl | rfl <;> decide
  have hNt : cleaned = true → loadAB ≠ [] → "N_total" ∈ cnames t := by
    intro hc hl
    obtain ⟨fc1, _⟩ := fclean' hc
    refine (hcn _).mpr (Or.inr (List.mem_filter.mpr ⟨?_, ?_⟩))
    · rw [hc]; simp only [if_true]; exact fc1 _ (by simp)
    · apply hqi
      unfold ptIndexNames
      apply List.mem_append_right
      cases loadAB with
      | nil => exact absurd rfl hl
      | cons a as => simp
  have hre : ∃ t', reindexAll O cleaned loadAB false t = .ok t' := by
    by_cases hl : loadAB = []
    · subst hl; exact ⟨t, by simp [reindexAll]⟩
    · exact reindexAll_some O cleaned loadAB t hAB hidx (fun hc => hNt hc hl)
  obtain ⟨t', ht'⟩ := hre
  obtain ⟨r0, hr0', hr0t⟩ : ∃ r0 : Loaded V, readHaloInfoPT S O rawFile cleanFile req cleaned loadAB = .ok r0 ∧
      r0.table = t := ⟨_, hr0, rfl⟩
  refine ⟨{ r0 with table := t' }, ?_⟩
  unfold constructPT
  simp only [hr0', hr0t, ht']

/-- a snapshot `halo_info` file as asdf stores it (columns in file order, with dtypes; harness/catgen.py) -/
def ptRawFile : List (String × Dt) :=
  [("L0_N", ⟨.u, 32, []⟩), ("L2_N", ⟨.u, 32, [5]⟩), ("N", ⟨.u, 32, []⟩),
   ("SO_L2max_central_density", ⟨.f, 32, []⟩), ("SO_L2max_central_particle", ⟨.f, 32, [3]⟩),
   ("SO_L2max_radius", ⟨.f, 32, []⟩), ("SO_central_density", ⟨.f, 32, []⟩),
   ("SO_central_particle", ⟨.f, 32, [3]⟩), ("SO_radius", ⟨.f, 32, []⟩), ("id", ⟨.u, 64, []⟩),
   ("meanSpeed_L2com", ⟨.f, 32, []⟩), ("meanSpeed_com", ⟨.f, 32, []⟩), ("meanSpeed_r50_L2com", ⟨.f, 32, []⟩),
   ("meanSpeed_r50_com", ⟨.f, 32, []⟩), ("npoutA", ⟨.u, 32, []⟩), ("npoutB", ⟨.u, 32, []⟩),
   ("npstartA", ⟨.u, 64, []⟩), ("npstartB", ⟨.u, 64, []⟩), ("ntaggedA", ⟨.u, 32, []⟩),
   ("ntaggedB", ⟨.u, 32, []⟩), ("r100_L2com", ⟨.f, 32, []⟩), ("r100_com", ⟨.f, 32, []⟩),
   ("r10_L2com_i16", ⟨.i, 16, []⟩), ("r10_com_i16", ⟨.i, 16, []⟩), ("r25_L2com_i16", ⟨.i, 16, []⟩),
   ("r25_com_i16", ⟨.i, 16, []⟩), ("r33_L2com_i16", ⟨.i, 16, []⟩), ("r33_com_i16", ⟨.i, 16, []⟩),
   ("r50_L2com_i16", ⟨.i, 16, []⟩), ("r50_com_i16", ⟨.i, 16, []⟩), ("r67_L2com_i16", ⟨.i, 16, []⟩),
   ("r67_com_i16", ⟨.i, 16, []⟩), ("r75_L2com_i16", ⟨.i, 16, []⟩), ("r75_com_i16", ⟨.i, 16, []⟩),
   ("r90_L2com_i16", ⟨.i, 16, []⟩), ("r90_com_i16", ⟨.i, 16, []⟩), ("r95_L2com_i16", ⟨.i, 16, []⟩),
   ("r95_com_i16", ⟨.i, 16, []⟩), ("r98_L2com_i16", ⟨.i, 16, []⟩), ("r98_com_i16", ⟨.i, 16, []⟩),
   ("rvcirc_max_L2com_i16", ⟨.i, 16, []⟩), ("rvcirc_max_com_i16", ⟨.i, 16, []⟩),
   ("sigman_L2com_i16", ⟨.i, 16, [3]⟩), ("sigman_com_i16", ⟨.i, 16, [3]⟩),
   ("sigman_eigenvecs_L2com_u16", ⟨.u, 16, []⟩), ("sigman_eigenvecs_com_u16", ⟨.u, 16, []⟩),
   ("sigmar_L2com_i16", ⟨.i, 16, [3]⟩), ("sigmar_com_i16", ⟨.i, 16, [3]⟩),
   ("sigmar_eigenvecs_L2com_u16", ⟨.u, 16, []⟩), ("sigmar_eigenvecs_com_u16", ⟨.u, 16, []⟩),
   ("sigmav3d_L2com", ⟨.f, 32, []⟩), ("sigmav3d_com", ⟨.f, 32, []⟩), ("sigmav3d_r50_L2com", ⟨.f, 32, []⟩),
   ("sigmav3d_r50_com", ⟨.f, 32, []⟩), ("sigmavMax_to_sigmav3d_L2com_i16", ⟨.i, 16, []⟩),
   ("sigmavMax_to_sigmav3d_com_i16", ⟨.i, 16, []⟩), ("sigmavMin_to_sigmav3d_L2com_i16", ⟨.i, 16, []⟩),
   ("sigmavMin_to_sigmav3d_com_i16", ⟨.i, 16, []⟩), ("sigmav_eigenvecs_L2com_u16", ⟨.u, 16, []⟩),
   ("sigmav_eigenvecs_com_u16", ⟨.u, 16, []⟩), ("sigmavrad_to_sigmav3d_L2com_i16", ⟨.i, 16, []⟩),
   ("sigmavrad_to_sigmav3d_com_i16", ⟨.i, 16, []⟩), ("sigmavtan_to_sigmav3d_L2com_i16", ⟨.i, 16, []⟩),
   ("sigmavtan_to_sigmav3d_com_i16", ⟨.i, 16, []⟩), ("v_L2com", ⟨.f, 32, [3]⟩), ("v_com", ⟨.f, 32, [3]⟩),
   ("vcirc_max_L2com", ⟨.f, 32, []⟩), ("vcirc_max_com", ⟨.f, 32, []⟩), ("x_L2com", ⟨.f, 32, [3]⟩),
   ("x_com", ⟨.f, 32, [3]⟩)]

/-- the matching `cleaned_halo_info` file -/
def ptCleanFile : List (String × Dt) :=
  [("N_mainprog", ⟨.u, 32, [3]⟩), ("N_merge", ⟨.u, 32, []⟩), ("N_total", ⟨.u, 32, []⟩),
   ("haloindex", ⟨.u, 64, []⟩), ("haloindex_mainprog", ⟨.i, 64, []⟩), ("is_merged_to", ⟨.i, 64, []⟩),
   ("npoutA_merge", ⟨.u, 32, []⟩), ("npoutB_merge", ⟨.u, 32, []⟩), ("npstartA_merge", ⟨.i, 64, []⟩),
   ("npstartB_merge", ⟨.i, 64, []⟩), ("sigmav3d_L2com_mainprog", ⟨.f, 32, [3]⟩),
   ("v_L2com_mainprog", ⟨.f, 32, [3]⟩), ("vcirc_max_L2com_mainprog", ⟨.f, 32, [3]⟩)]

/-- the data-model files satisfy the file hypotheses of the passthrough theorems -/
theorem pt_datamodel_files : ptFilesOK Spec.generated ptRawFile ptCleanFile false = true ∧
    ptFilesOK Spec.generated ptRawFile ptCleanFile true = true := by
  refine ⟨by decide +kernel, by decide +kernel⟩

/-- non-vacuity: the request repaired in 7d0940d — `fields=['N']`, `passthrough=True`, subsample A (and A+B on
the cleaned catalog) — satisfies the hypotheses, so it constructs; the model's table has the index columns
re-inserted at the end and keeps `N_total` (no rename in this mode). -/
example (O : ValOps V) :
    (∃ r, constructPT Spec.generated O ptRawFile ptCleanFile (.list ["N"]) false ["A"] = .ok r) ∧
    (∃ r, constructPT Spec.generated O ptRawFile ptCleanFile (.list ["x_com", "foo", "haloindex", "x_com"]) true ["A", "B"] = .ok r) :=
  ⟨passthrough_no_request_dependent_failure _ O _ _ _ _ _ (by decide) pt_datamodel_files.1 (by decide +kernel),
   passthrough_no_request_dependent_failure _ O _ _ _ _ _ (by decide) pt_datamodel_files.2 (by decide +kernel)⟩

example :
    (constructPT Spec.generated strOps ptRawFile ptCleanFile (.list ["N"]) true ["A"]).toOption.map
        (fun r => r.table.cols.map (fun p => (p.1, r.table.val p.1))) =
      some [("N", "<u32>raw:N()"), ("N_total", "<u32>raw:N_total()"),
            ("npstartA", "new:npstartA()"), ("npoutA", "new:npoutA()")] ∧
    -- an empty resolved field list is rejected (the real reader raises UnboundLocalError)
    (constructPT Spec.generated strOps ptRawFile ptCleanFile (.list ["haloindex"]) false []).toOption.isNone = true := by
  decide +kernel

/-! ### non-vacuity on the generated tables -/

/-- the worked example of the defect fixed in 5c0e0ca / 8516542: an uncleaned catalog, subsample A,
`fields = ['sigmavMid_com', 'N']` loads; `sigmavMin_com`, `sigmavMaj_com` are temporary columns and are
loaded before `sigmavMid_com`; the value of `sigmavMid_com` is its direct evaluation with float32
temporaries. -/
example :
    (construct Spec.generated strOps 3
      ["N", "npstartA", "npoutA", "sigmav3d_com", "sigmavMax_to_sigmav3d_com_i16", "sigmavMin_to_sigmav3d_com_i16"] []
      (.list ["sigmavMid_com", "N"]) false ["A"] false).toOption.map
        (fun r => (r.deps.fieldsWithDeps, r.deps.extra, r.table.val "sigmavMid_com")) =
    some (["sigmavMin_com", "sigmavMaj_com", "npoutA", "npstartA", "N", "sigmavMid_com"],
          ["sigmavMin_com", "sigmavMaj_com"],
          "<f32>sigmavMid_com(<f32>sigmavMaj_com(),<f32>sigmavMin_com())") := by
  decide +kernel

/-- the hypotheses of the theorems hold for the tables generated from the current source, and the request
`['sigmavMid_com', 'N']` satisfies the validity hypothesis of `no_request_dependent_failure_partial` -/
example : groupOK Spec.generated = true ∧ dtypesOK Spec.generated = true ∧
    selfInGroup Spec.generated = true ∧ depsDeclared Spec.generated = true ∧
    (∀ f ∈ ["sigmavMid_com", "N"], resolvesS Spec.generated (Spec.generated.loaders.length + 1) f = true) := by
  refine ⟨generated_wf.1, generated_wf.2.1, generated_wf2.1, generated_wf2.2, by decide +kernel⟩

end AbacusVerif.Fields
