/-
  C02 — a halo column's values do not depend on what else was requested.

  Property theorems about the model of `_setup_fields` / `_read_halo_info` /
  `_get_halo_fields_dependencies` / `_load_halo_field` in Model/C02.lean.  They hold for every `Spec`
  (loader table + dtype tables) that satisfies two decidable well-formedness checks, which the kernel
  evaluates on the tables generated from the current source (`generated_wf`), for every request
  (defaults / 'all' / any list in any order, duplicates included), cleaned on/off, every subsample
  selection, light cone or not, and every interpretation of column values (`ValOps`).
-/
import AbacusVerif.Lemmas.C02

namespace AbacusVerif.Fields
open AbacusVerif AbacusVerif.Units

variable {V : Type}

/-! ### dependency order -/

/-- **deps_order.**  Whenever the dependency worklist terminates (any table without a dependency cycle
deeper than the table is long), in `fields_with_deps` every captured halo dependency of a field precedes
that field, and every requested field is in `fields_with_deps`. -/
theorem deps_order (S : Spec) (fields : List String) (D : Deps) (h : deps S fields = .ok D) :
    SortedFrom S [] D.fieldsWithDeps ∧ (∀ f ∈ fields, f ∈ D.fieldsWithDeps) := by
  unfold deps at h
  cases hl : levels S (S.loaders.length + 1) fields with
  | error e => simp [hl] at h
  | ok lv =>
    simp only [hl] at h
    cases h
    obtain ⟨hs, hm⟩ := levels_sorted _ _ _ hl
    exact ⟨hs, fun f hf => by simpa [mem_dedup] using hm f hf⟩

/-- every dependency chain of `f` ends within `n` steps inside the table -/
def resolvesS (S : Spec) : Nat → String → Bool
  | 0, _ => false
  | n + 1, f =>
    match findLoader S f with
    | none => false
    | some ld => ld.haloDeps.all (resolvesS S n)

theorem nextLevel_ok (S : Spec) (n : Nat) : ∀ (l : List String), (∀ f ∈ l, resolvesS S (n + 1) f = true) →
    ∃ next, nextLevel S l = .ok next ∧ ∀ d ∈ next, resolvesS S n d = true
  | [], _ => ⟨[], rfl, by simp⟩
  | f :: fs, h => by
    have hf := h f List.mem_cons_self
    obtain ⟨r, hr, hrr⟩ := nextLevel_ok S n fs (fun g hg => h g (List.mem_cons_of_mem _ hg))
    unfold resolvesS at hf
    cases hl : findLoader S f with
    | none => simp [hl] at hf
    | some ld =>
      simp only [hl] at hf
      refine ⟨ld.haloDeps ++ r, by simp [nextLevel, hl, hr], ?_⟩
      intro d hd
      rcases List.mem_append.mp hd with hd | hd
      · exact List.all_eq_true.mp hf d hd
      · exact hrr d hd

theorem levels_ok (S : Spec) : ∀ (n : Nat) (l : List String), (∀ f ∈ l, resolvesS S n f = true) →
    ∃ lv, levels S n l = .ok lv
  | 0, l, h => by
    cases l with
    | nil => exact ⟨[], by simp [levels]⟩
    | cons f fs => have := h f List.mem_cons_self; simp [resolvesS] at this
  | n + 1, l, h => by
    cases l with
    | nil => exact ⟨[], by simp [levels]⟩
    | cons f fs =>
      obtain ⟨next, hn, hnr⟩ := nextLevel_ok S n (f :: fs) h
      obtain ⟨rest, hr⟩ := levels_ok S n next hnr
      exact ⟨(f :: fs) :: rest, by simp [levels, hn, hr]⟩

/-- the dependency capture never fails on fields of a table whose chains are shorter than the fuel -/
theorem deps_ok (S : Spec) (fields : List String)
    (h : ∀ f ∈ fields, resolvesS S (S.loaders.length + 1) f = true) : ∃ D, deps S fields = .ok D := by
  obtain ⟨lv, hlv⟩ := levels_ok S _ fields h
  unfold deps
  rw [hlv]
  exact ⟨_, rfl⟩

/-! ### what a loaded column must be -/

def base (d : Dt) : BaseKind × Nat := (d.kind, d.bits)

/-- the base type a column is declared with (`clean_dt_progen`, else `halo_lc_dt`, else `user_dt`) -/
def declaredBase (S : Spec) (n : String) : Option (BaseKind × Nat) :=
  match dtLookup S.clean_dt_progen n with
  | some d => some (base d)
  | none =>
    match dtLookup S.halo_lc_dt n with
    | some d => some (base d)
    | none => (dtLookup S.user_dt n).map base

/-- `Denotes c v`: `v` is the direct evaluation of column `c` — its loader applied to the direct
evaluations of the halo columns it reads, each cast to *its own* declared type, then cast to the
declared type of `c`.  Nothing in it refers to a request. -/
inductive Denotes (S : Spec) (O : ValOps V) : String → V → Prop where
  | mk (c : String) (ld : Loader) (k : BaseKind) (b : Nat) (val : String → V) :
      findLoader S c = some ld → declaredBase S c = some (k, b) →
      (∀ d ∈ ld.haloDeps, Denotes S O d (val d)) →
      Denotes S O c (O.cast k b (O.app c (ld.haloDeps.map val)))

/-- the direct evaluation is unique: `denote c` is a function of the catalog alone -/
theorem Denotes.unique {S : Spec} {O : ValOps V} {c : String} {v : V} (h : Denotes S O c v) :
    ∀ {v'}, Denotes S O c v' → v = v' := by
  induction h with
  | mk c ld k b val hl hd _ ih =>
    intro v' h'
    cases h' with
    | mk _ ld' k' b' val' hl' hd' hdeps' =>
      rw [hl] at hl'; cases hl'
      rw [hd] at hd'; cases hd'
      have : ld.haloDeps.map val = ld.haloDeps.map val' :=
        List.map_congr_left (fun d hdm => ih d hdm (hdeps' d hdm))
      rw [this]

/-! ### well-formedness of the tables (decidable; checked on the generated tables) -/

/-- group loaders only produce columns that have a loader of their own and read no halo column -/
def groupOK (S : Spec) : Bool :=
  S.loaders.all (fun ld => ld.group.all (fun g =>
    match findLoader S g with
    | some lg => lg.haloDeps.isEmpty
    | none => false))

/-- the dtype tables agree where they overlap: cleaning columns are disjoint from the others, and a
column declared in both `halo_lc_dt` and `user_dt` has the same base type -/
def dtypesOK (S : Spec) : Bool :=
  (names S.clean_dt_progen).all (fun n => !(n ∈ names S.user_dt) && !(n ∈ names S.halo_lc_dt)) &&
  S.halo_lc_dt.all (fun p =>
    match dtLookup S.user_dt p.1 with
    | some d => base d == base p.2
    | none => true)

theorem generated_wf : groupOK Spec.generated = true ∧ dtypesOK Spec.generated = true ∧
    Spec.generated.loaders.all (fun l => resolvesS Spec.generated (Spec.generated.loaders.length + 1) l.name) = true := by
  refine ⟨by decide +kernel, by decide +kernel, by decide +kernel⟩

/-! ### small facts about the tables -/

theorem dtLookup_mem {t : List (String × Dt)} {n : String} {d : Dt} (h : dtLookup t n = some d) :
    (n, d) ∈ t := by
  unfold dtLookup at h
  cases hf : t.find? (fun p => p.1 == n) with
  | none => simp [hf] at h
  | some p =>
    simp only [hf, Option.map_some, Option.some.injEq] at h
    have h1 := List.mem_of_find?_eq_some hf
    have h2 := List.find?_some hf
    have : p.1 = n := by simpa using h2
    subst h; subst this; exact h1

theorem dtLookup_none {t : List (String × Dt)} {n : String} (h : ¬ n ∈ names t) : dtLookup t n = none := by
  unfold dtLookup
  cases hf : t.find? (fun p => p.1 == n) with
  | none => rfl
  | some p =>
    exfalso
    have h1 := List.mem_of_find?_eq_some hf
    have h2 : p.1 = n := by simpa using List.find?_some hf
    exact h (by subst h2; exact List.mem_map_of_mem h1)

theorem dtLookup_names {t : List (String × Dt)} {n : String} {d : Dt} (h : dtLookup t n = some d) : n ∈ names t := by
  have := dtLookup_mem h
  exact List.mem_map.mpr ⟨(n, d), this, rfl⟩

theorem findLoader_mem {S : Spec} {n : String} {ld : Loader} (h : findLoader S n = some ld) :
    ld ∈ S.loaders ∧ ld.name = n := by
  unfold findLoader at h
  exact ⟨List.mem_of_find?_eq_some h, by simpa using List.find?_some h⟩

section DeclaredFacts
set_option linter.unusedSectionVars false
variable {S : Spec} (hd : dtypesOK S = true)
include hd

theorem clean_disjoint {n : String} (h : n ∈ names S.clean_dt_progen) :
    ¬ n ∈ names S.user_dt ∧ ¬ n ∈ names S.halo_lc_dt := by
  unfold dtypesOK at hd
  have := List.all_eq_true.mp (Bool.and_eq_true _ _ ▸ hd).1 n h
  simpa using this

theorem declared_clean {n : String} {d : Dt} (h : dtLookup S.clean_dt_progen n = some d) :
    declaredBase S n = some (base d) := by
  simp [declaredBase, h]

theorem declared_lc {n : String} {d : Dt} (h : dtLookup S.halo_lc_dt n = some d) :
    declaredBase S n = some (base d) := by
  have hn : ¬ n ∈ names S.clean_dt_progen := fun hc => (clean_disjoint hd hc).2 (dtLookup_names h)
  simp [declaredBase, dtLookup_none hn, h]

theorem declared_user {n : String} {d : Dt} (h : dtLookup S.user_dt n = some d) :
    declaredBase S n = some (base d) := by
  have hn : ¬ n ∈ names S.clean_dt_progen := fun hc => (clean_disjoint hd hc).1 (dtLookup_names h)
  cases hl : dtLookup S.halo_lc_dt n with
  | none => simp [declaredBase, dtLookup_none hn, hl, h]
  | some d' =>
    have hmem := dtLookup_mem hl
    unfold dtypesOK at hd
    have := List.all_eq_true.mp (Bool.and_eq_true _ _ ▸ hd).2 (n, d') hmem
    simp only [h] at this
    have hb : base d = base d' := by simpa using this
    simp [declaredBase, dtLookup_none hn, hl, hb]

end DeclaredFacts

/-! ### the table of one file has the declared types -/

/-- every column of the table has the base type it is declared with -/
def ColsOK (S : Spec) (cols : List (String × Dt)) : Prop :=
  ∀ p ∈ cols, declaredBase S p.1 = some (base p.2)

theorem insertCol_mem {cols : List (String × Dt)} {n : String} {d : Dt} {p : String × Dt}
    (h : p ∈ insertCol cols n d) : p ∈ cols ∨ p = (n, d) := by
  unfold insertCol at h
  split at h
  · obtain ⟨q, hq, hqp⟩ := List.mem_map.mp h
    split at hqp
    · exact Or.inr hqp.symm
    · exact Or.inl (hqp ▸ hq)
  · rcases List.mem_append.mp h with h | h
    · exact Or.inl h
    · exact Or.inr (by simpa using h)

theorem foldlM_inv {α β : Type} (f : β → α → Except Fault β) (P : β → Prop)
    (hstep : ∀ b a b', P b → f b a = .ok b' → P b') :
    ∀ (l : List α) (b b' : β), P b → l.foldlM f b = .ok b' → P b'
  | [], b, b', hb, h => by simp [List.foldlM, pure, Except.pure] at h; exact h ▸ hb
  | a :: l, b, b', hb, h => by
    simp only [List.foldlM, bind, Except.bind] at h
    cases hf : f b a with
    | error e => simp [hf] at h
    | ok b1 =>
      simp only [hf] at h
      exact foldlM_inv f P hstep l b1 b' (hstep b a b1 hb hf) h

theorem allocate_ok {S : Spec} (hd : dtypesOK S = true) {fields cleanedFields : List String}
    {cols : List (String × Dt)} (h : allocate S fields cleanedFields = .ok cols) : ColsOK S cols := by
  unfold allocate at h
  simp only [bind, Except.bind] at h
  split at h
  · cases h
  · rename_i cols1 h1
    have hc1 : ColsOK S cols1 := by
      refine foldlM_inv _ (ColsOK S) ?_ fields [] cols1 (by intro p hp; simp at hp) h1
      intro b c b' hb hf
      split at hf
      · rename_i d hdt
        cases hf
        intro p hp
        rcases insertCol_mem hp with hp | rfl
        · exact hb p hp
        · split at hdt
          · exact declared_lc hd hdt
          · exact declared_user hd hdt
      · cases hf
    refine foldlM_inv _ (ColsOK S) ?_ cleanedFields cols1 cols hc1 h
    intro b c b' hb hf
    split at hf
    · rename_i d hdt
      cases hf
      intro p hp
      rcases insertCol_mem hp with hp | rfl
      · exact hb p hp
      · exact declared_clean hd hdt
    · cases hf

theorem reshape_ok {S : Spec} {nprev : Nat} {cf : List String} {cols : List (String × Dt)} (h : ColsOK S cols) :
    ColsOK S (reshapeMainprog nprev cf cols) := by
  intro p hp
  obtain ⟨q, hq, hqp⟩ := List.mem_map.mp hp
  have := h q hq
  split at hqp
  · subst hqp; simpa [base] using this
  · subst hqp; exact this

theorem extraCols_ok {S : Spec} (hd : dtypesOK S = true) : ∀ {l : List String} {ex : List (String × Dt)},
    extraCols S l = .ok ex → ColsOK S ex
  | [], ex, h => by simp [extraCols] at h; subst h; intro p hp; simp at hp
  | f :: fs, ex, h => by
    unfold extraCols at h
    split at h
    · rename_i d r hdt hr
      cases h
      intro p hp
      rcases List.mem_cons.mp hp with rfl | hp
      · by_cases hc : f ∈ names S.clean_dt_progen
        · simp only [hc, if_true] at hdt; exact declared_clean hd hdt
        · simp only [hc, if_false] at hdt; exact declared_user hd hdt
      · exact extraCols_ok hd hr p hp
    · cases h
    · cases h

/-! ### the loop invariant of `loadAll` -/

/-- the table has the declared types and everything loaded so far holds its direct evaluation -/
def Inv (S : Spec) (O : ValOps V) (h : Halos V) (loaded : List String) : Prop :=
  ColsOK S h.cols ∧ ∀ x ∈ loaded, Denotes S O x (h.val x)

theorem readAll_ok {h : Halos V} : ∀ {ns : List String} {vs : List V}, readAll h ns = .ok vs → vs = ns.map h.val
  | [], vs, hr => by simp [readAll] at hr; subst hr; rfl
  | n :: ns, vs, hr => by
    unfold readAll at hr
    split at hr
    · rename_i v vs' hv hvs
      cases hr
      unfold Halos.read at hv
      split at hv
      · cases hv; rw [readAll_ok hvs]; rfl
      · cases hv
    · cases hr
    · cases hr

theorem writeMember_inv {S : Spec} {O : ValOps V} {rawAvail : List String} {h h' : Halos V} {g : String}
    {loaded : List String} (hinv : Inv S O h loaded) (hdeps : ∀ d ∈ depsOfField S g, d ∈ loaded)
    (hw : writeMember S O rawAvail h g = .ok h') : Inv S O h' (g :: loaded) ∧ h'.cols = h.cols := by
  unfold writeMember at hw
  cases hl : findLoader S g with
  | none => simp [hl] at hw
  | some lg =>
    simp only [hl] at hw
    split at hw
    · cases hw
    · cases hr : readAll h lg.haloDeps with
      | error e => simp [hr] at hw
      | ok args =>
        simp only [hr] at hw
        have hargs := readAll_ok hr
        unfold Halos.write at hw
        cases hdt : dtLookup h.cols g with
        | none => simp [hdt] at hw
        | some d =>
          simp only [hdt] at hw
          cases hw
          refine ⟨⟨hinv.1, ?_⟩, rfl⟩
          have hdecl := hinv.1 (g, d) (dtLookup_mem hdt)
          have hnew : Denotes S O g (O.cast d.kind d.bits (O.app g args)) := by
            rw [hargs]
            refine Denotes.mk g lg d.kind d.bits h.val hl hdecl ?_
            intro x hx
            have : x ∈ depsOfField S g := by simpa [depsOfField, hl] using hx
            exact hinv.2 x (hdeps x this)
          intro x hx
          by_cases hxg : x = g
          · subst hxg; simpa using hnew
          · have hx' : x ∈ loaded := by
              rcases List.mem_cons.mp hx with h1 | h1
              · exact absurd h1 hxg
              · exact h1
            simpa [hxg] using hinv.2 x hx'

theorem writeMembers_inv {S : Spec} {O : ValOps V} {rawAvail : List String} :
    ∀ {ms : List String} {h h' : Halos V} {loaded : List String}, Inv S O h loaded →
      (∀ m ∈ ms, depsOfField S m = []) → writeMembers S O rawAvail h ms = .ok h' →
      Inv S O h' (loaded ++ ms) ∧ h'.cols = h.cols
  | [], h, h', loaded, hinv, _, hw => by
    simp [writeMembers] at hw; subst hw; simpa using hinv
  | m :: ms, h, h', loaded, hinv, hnd, hw => by
    unfold writeMembers at hw
    cases h1 : writeMember S O rawAvail h m with
    | error e => simp [h1] at hw
    | ok hm =>
      simp only [h1] at hw
      have hm0 : depsOfField S m = [] := hnd m List.mem_cons_self
      obtain ⟨i1, c1⟩ := writeMember_inv hinv (by intro d hd; simp [hm0] at hd) h1
      obtain ⟨i2, c2⟩ := writeMembers_inv (loaded := m :: loaded) i1
        (fun x hx => hnd x (List.mem_cons_of_mem _ hx)) hw
      refine ⟨⟨i2.1, ?_⟩, c2.trans c1⟩
      intro x hx
      apply i2.2 x
      rcases List.mem_append.mp hx with hx | hx
      · exact List.mem_append_left _ (List.mem_cons_of_mem _ hx)
      · rcases List.mem_cons.mp hx with rfl | hx
        · exact List.mem_append_left _ List.mem_cons_self
        · exact List.mem_append_right _ hx

theorem loadField_inv {S : Spec} {O : ValOps V} (hg : groupOK S = true) {rawAvail : List String}
    {h h' : Halos V} {f : String} {loaded l : List String} (hinv : Inv S O h loaded)
    (hdeps : ∀ d ∈ depsOfField S f, d ∈ loaded) (hl : loadField S O rawAvail h f = .ok (h', l)) :
    Inv S O h' (loaded ++ l) ∧ f ∈ l ∧ h'.cols = h.cols := by
  unfold loadField at hl
  cases hf : findLoader S f with
  | none => simp [hf] at hl
  | some ld =>
    simp only [hf] at hl
    split at hl
    · -- plain loader
      cases hw : writeMember S O rawAvail h f with
      | error e => simp [hw] at hl
      | ok h1 =>
        simp only [hw, Except.ok.injEq, Prod.mk.injEq] at hl
        obtain ⟨rfl, rfl⟩ := hl
        obtain ⟨i1, c1⟩ := writeMember_inv hinv hdeps hw
        refine ⟨⟨i1.1, ?_⟩, by simp, c1⟩
        intro x hx
        apply i1.2 x
        rcases List.mem_append.mp hx with hx | hx
        · exact List.mem_cons_of_mem _ hx
        · have : x = f := by simpa using hx
          subst this; exact List.mem_cons_self
    · -- group loader
      split at hl
      · cases hl
      · split at hl
        · cases hl
        · rename_i hmem
          cases hw : writeMembers S O rawAvail h
              (ld.group.filter (fun g => h.has g || (ld.selfAlways && g == f))) with
          | error e => simp [hw] at hl
          | ok h1 =>
            simp only [hw, Except.ok.injEq, Prod.mk.injEq] at hl
            obtain ⟨rfl, rfl⟩ := hl
            have hnd : ∀ m ∈ ld.group.filter (fun g => h.has g || (ld.selfAlways && g == f)),
                depsOfField S m = [] := by
              intro m hm
              have hmg : m ∈ ld.group := (List.mem_filter.mp hm).1
              have hld := (findLoader_mem hf).1
              have := List.all_eq_true.mp (List.all_eq_true.mp hg ld hld) m hmg
              unfold depsOfField
              cases hm' : findLoader S m with
              | none => rfl
              | some lg => simp only [hm'] at this ⊢; simpa using this
            obtain ⟨i1, c1⟩ := writeMembers_inv hinv hnd hw
            refine ⟨i1, ?_, c1⟩
            exact Decidable.byContradiction
              (fun hc => hmem (by simp only [hc, decide_false, Bool.not_false]))

theorem loadAll_inv {S : Spec} {O : ValOps V} (hg : groupOK S = true) {rawAvail : List String} :
    ∀ {order : List String} {st st' : Halos V × List String} {seen : List String},
      Inv S O st.1 st.2 → SortedFrom S seen order → (∀ x ∈ seen, x ∈ st.2) →
      loadAll S O rawAvail order st = .ok st' →
      Inv S O st'.1 st'.2 ∧ (∀ x ∈ order, x ∈ st'.2) ∧ (∀ x ∈ st.2, x ∈ st'.2) ∧ st'.1.cols = st.1.cols
  | [], st, st', seen, hinv, _, _, hl => by
    simp [loadAll] at hl; subst hl; exact ⟨hinv, by simp, fun _ h => h, rfl⟩
  | f :: fs, st, st', seen, hinv, hs, hseen, hl => by
    unfold loadAll at hl
    split at hl
    · rename_i hmem
      obtain ⟨i, ho, hk, hc⟩ := loadAll_inv hg (seen := f :: seen) hinv hs.2
        (by
          intro x hx
          rcases List.mem_cons.mp hx with rfl | hx
          · exact hmem
          · exact hseen x hx) hl
      refine ⟨i, ?_, hk, hc⟩
      intro x hx
      rcases List.mem_cons.mp hx with rfl | hx
      · exact hk _ hmem
      · exact ho x hx
    · cases hf : loadField S O rawAvail st.1 f with
      | error e => simp [hf] at hl
      | ok r =>
        obtain ⟨h1, l⟩ := r
        simp only [hf] at hl
        obtain ⟨i1, hfl, c1⟩ := loadField_inv hg hinv (fun d hd => hseen d (hs.1 d hd)) hf
        obtain ⟨i, ho, hk, hc⟩ := loadAll_inv hg (st := (h1, st.2 ++ l)) (seen := f :: seen) i1 hs.2
          (by
            intro x hx
            rcases List.mem_cons.mp hx with rfl | hx
            · exact List.mem_append_right _ hfl
            · exact List.mem_append_left _ (hseen x hx)) hl
        refine ⟨i, ?_, fun x hx => hk x (List.mem_append_left _ hx), hc.trans c1⟩
        intro x hx
        rcases List.mem_cons.mp hx with rfl | hx
        · exact hk _ (List.mem_append_right _ hfl)
        · exact ho x hx

/-! ### the property -/

/-- **column_independent.**  For every well-formed table, every request (defaults, 'all', any list in any
order), cleaned on/off, any subsample selection, light cone or not: if `_read_halo_info` returns, the
value of *every* column `c` of the returned table is `Denotes c` — the direct evaluation of `c`'s loader
with each dependency cast to its own declared type — which does not mention the request. -/
theorem column_independent (S : Spec) (O : ValOps V) (hg : groupOK S = true) (hd : dtypesOK S = true)
    (nprev : Nat) (rawCols cleanCols : List String) (req : Req) (cleaned : Bool) (loadAB : List String)
    (haloLc : Bool) (r : Loaded V)
    (h : readHaloInfo S O nprev rawCols cleanCols req cleaned loadAB haloLc = .ok r) :
    ∀ p ∈ r.table.cols, Denotes S O p.1 (r.table.val p.1) := by
  unfold readHaloInfo at h
  simp only at h
  cases ha : allocate S (setupFields S req cleaned loadAB haloLc).1 (setupFields S req cleaned loadAB haloLc).2 with
  | error e => simp [ha] at h
  | ok cols0 =>
    simp only [ha] at h
    cases hdp : deps S (cols0.map (·.1)) with
    | error e => simp [hdp] at h
    | ok d =>
      simp only [hdp] at h
      split at h
      · cases h
      · cases hex : extraCols S d.extra with
        | error e => simp [hex] at h
        | ok ex =>
          simp only [hex] at h
          cases hla : loadAll S O d.raw d.fieldsWithDeps
              ({ cols := reshapeMainprog nprev (setupFields S req cleaned loadAB haloLc).2 cols0 ++ ex,
                 val := fun _ => O.uninit }, []) with
          | error e => simp [hla] at h
          | ok st =>
            obtain ⟨hh, ll⟩ := st
            simp only [hla, Except.ok.injEq] at h
            subst h
            obtain ⟨hsort, hmem⟩ := deps_order S _ d hdp
            have hcols : ColsOK S (reshapeMainprog nprev (setupFields S req cleaned loadAB haloLc).2 cols0 ++ ex) := by
              intro p hp
              rcases List.mem_append.mp hp with hp | hp
              · exact reshape_ok (allocate_ok hd ha) p hp
              · exact extraCols_ok hd hex p hp
            obtain ⟨i, ho, _, _⟩ := loadAll_inv hg (seen := [])
              (st := ({ cols := _, val := fun _ => O.uninit }, [])) ⟨hcols, by simp⟩ hsort (by simp) hla
            intro p hp
            simp only at hp ⊢
            apply i.2
            apply ho
            apply hmem
            obtain ⟨q, hq, hqp⟩ := List.mem_map.mp hp
            have : p.1 = q.1 := by
              split at hqp <;> (subst hqp; rfl)
            rw [this]
            exact List.mem_map_of_mem hq

/-- the form in the statement: two loads of the same catalog — any two requests, orders, cleaning flags
that both load `c`, any subsample selections — return identical values for `c`. -/
theorem column_independent_pair (S : Spec) (O : ValOps V) (hg : groupOK S = true) (hd : dtypesOK S = true)
    (nprev : Nat) (rawCols cleanCols : List String)
    (req₁ req₂ : Req) (cleaned₁ cleaned₂ : Bool) (ab₁ ab₂ : List String) (lc : Bool) (r₁ r₂ : Loaded V)
    (h₁ : readHaloInfo S O nprev rawCols cleanCols req₁ cleaned₁ ab₁ lc = .ok r₁)
    (h₂ : readHaloInfo S O nprev rawCols cleanCols req₂ cleaned₂ ab₂ lc = .ok r₂)
    (c : String) (hc₁ : c ∈ r₁.table.cols.map (·.1)) (hc₂ : c ∈ r₂.table.cols.map (·.1)) :
    r₁.table.val c = r₂.table.val c := by
  obtain ⟨p₁, hp₁, rfl⟩ := List.mem_map.mp hc₁
  obtain ⟨p₂, hp₂, he⟩ := List.mem_map.mp hc₂
  have d₁ := column_independent S O hg hd nprev rawCols cleanCols req₁ cleaned₁ ab₁ lc r₁ h₁ p₁ hp₁
  have d₂ := column_independent S O hg hd nprev rawCols cleanCols req₂ cleaned₂ ab₂ lc r₂ h₂ p₂ hp₂
  rw [he] at d₂
  exact d₁.unique d₂

end AbacusVerif.Fields
