/-
  C10 — the galaxy catalogue is identical for every thread count.

  Property theorems about the two-pass model `AbacusVerif.TwoPass.twoPass`, `fastConcatWith` and
  `searchsortedPar` (Model/C10.lean), for every table, every keep-code assignment, every thread count and
  every monotone block sequence.  `Cls c` is `c = 1 ∨ c = 2 ∨ c = 3` (the three tracers' keep codes).
-/
import AbacusVerif.Lemmas.C10

namespace AbacusVerif.TwoPass
open AbacusVerif

/-- both passes on a block sequence: the facts every theorem below is read off from -/
theorem twoPass_run (keep b : List Nat) (T H : Nat) (hT : 1 ≤ T) (hb : BlockSeq b T H)
    (hk : keep.length = H) :
    ∃ o, twoPass keep b T = .ok o ∧
      o.nout.length = T ∧ o.gstart.length = T + 1 ∧
      o.fills.map (·.1) = o.gstart.tail ∧
      (∀ c, Cls c → o.N.get c = (rowsOf keep c).length) ∧
      (∀ c, Cls c → proj c o.writes = place 0 (rowsOf keep c)) ∧
      (∀ w ∈ o.writes, Cls w.1) := by
  obtain ⟨b', rfl, hlen, hlast, hp, hle⟩ := hb.decomp
  subst hk
  have hle' : ∀ x ∈ 0 :: b', x ≤ keep.length := hle
  have hT0 : T ≠ 0 := by omega
  have hcount := count_ok keep b' 0 hle'
  rw [hlen] at hcount
  have hNget : ∀ c, Cls c →
      ((prefixSums Cur.zero (countsOf keep 0 b')).getLast (prefixSums_ne_nil _ _)).get c =
        (rowsOf keep c).length := by
    intro c hc
    rw [prefixSums_last keep b' 0 Cur.zero hp c hc, hlast, rowsOf_eq_sel]
    rcases hc with rfl | rfl | rfl <;> simp [Cur.zero, Cur.get]
  obtain ⟨fills, hf1, hf2, hf3, hf4⟩ := fill_ok keep
    ((prefixSums Cur.zero (countsOf keep 0 b')).getLast (prefixSums_ne_nil _ _)) b' 0 Cur.zero hp hle'
    (fun c hc => by
      rw [hNget c hc, hlast, rowsOf_eq_sel]
      rcases hc with rfl | rfl | rfl <;> simp [Cur.zero, Cur.get])
  rw [hlen] at hf1
  refine ⟨{ nout := countsOf keep 0 b', gstart := prefixSums Cur.zero (countsOf keep 0 b'),
            N := (prefixSums Cur.zero (countsOf keep 0 b')).getLast (prefixSums_ne_nil _ _),
            fills := fills }, ?_, ?_, ?_, hf3, hNget, ?_, ?_⟩
  · unfold twoPass
    simp only [hT0, if_false, hcount, readAt_neg_one _ (prefixSums_ne_nil _ _), hf1]
  · simp [countsOf_length, hlen]
  · simp [prefixSums_length, countsOf_length, hlen]
  · intro c hc
    have := hf2 c hc
    rw [hlast, ← rowsOf_eq_sel] at this
    rw [Out.writes, this]
    rcases hc with rfl | rfl | rfl <;> simp [Cur.zero, Cur.get]
  · intro w hw
    simp only [Out.writes, List.mem_flatMap] at hw
    obtain ⟨f, hf, hw⟩ := hw
    exact hf4 f hf w hw

/-- **fill_is_filter.**  For every thread count `T ≥ 1`, every monotone block sequence `b` from 0 to `H`
(in particular `T > H`, `H = 0`, `H` not divisible by `T`) and every tracer class `c`: neither pass faults,
the allocated length `N_c` is the number of rows of class `c`, the cells written for class `c` are exactly
`0, 1, …, N_c − 1` — each once (no cell left unwritten, none written twice) — and the resulting array is the
rows of class `c` in table order, i.e. the sequential answer `(range H).filter (κ · = c)`. -/
theorem fill_is_filter (keep b : List Nat) (T H : Nat) (hT : 1 ≤ T) (hb : BlockSeq b T H)
    (hk : keep.length = H) :
    ∃ o, twoPass keep b T = .ok o ∧ ∀ c, Cls c →
      o.N.get c = (rowsOf keep c).length ∧
      (proj c o.writes).map (·.1) = List.range (o.N.get c) ∧
      ((proj c o.writes).map (·.1)).Perm (List.range (o.N.get c)) ∧
      ((proj c o.writes).map (·.1)).Nodup ∧
      arrayOf o.N c o.writes = (rowsOf keep c).map some := by
  obtain ⟨o, ho, _, _, _, hN, hproj, _⟩ := twoPass_run keep b T H hT hb hk
  refine ⟨o, ho, ?_⟩
  intro c hc
  have hidx : (proj c o.writes).map (·.1) = List.range (o.N.get c) := by
    rw [hproj c hc, place_fst, hN c hc, List.range_eq_range']
  refine ⟨hN c hc, hidx, by rw [hidx], by rw [hidx]; exact List.nodup_range, ?_⟩
  unfold arrayOf
  rw [hproj c hc, hN c hc]
  exact applyWrites_place_full _

/-- **thread_count_independent.**  Two runs on the same table with any two thread counts and any two block
sequences produce the same arrays and the same lengths (`Ncent`). -/
theorem thread_count_independent (keep b b' : List Nat) (T T' H : Nat) (hT : 1 ≤ T) (hT' : 1 ≤ T')
    (hb : BlockSeq b T H) (hb' : BlockSeq b' T' H) (hk : keep.length = H) :
    ∃ o o', twoPass keep b T = .ok o ∧ twoPass keep b' T' = .ok o' ∧ ∀ c, Cls c →
      o.N.get c = o'.N.get c ∧ arrayOf o.N c o.writes = arrayOf o'.N c o'.writes := by
  obtain ⟨o, ho, h⟩ := fill_is_filter keep b T H hT hb hk
  obtain ⟨o', ho', h'⟩ := fill_is_filter keep b' T' H hT' hb' hk
  refine ⟨o, o', ho, ho', ?_⟩
  intro c hc
  obtain ⟨a1, _, _, _, a5⟩ := h c hc
  obtain ⟨b1, _, _, _, b5⟩ := h' c hc
  exact ⟨by rw [a1, b1], by rw [a5, b5]⟩

/-- **count_fill_agree.**  The count pass and the fill pass agree: thread `t`'s cursors end exactly at
`gstart[t+1]`, the start of thread `t+1` (and the last thread's at the allocated lengths). -/
theorem count_fill_agree (keep b : List Nat) (T H : Nat) (hT : 1 ≤ T) (hb : BlockSeq b T H)
    (hk : keep.length = H) :
    ∃ o, twoPass keep b T = .ok o ∧ o.nout.length = T ∧ o.gstart.length = T + 1 ∧
      o.fills.map (·.1) = o.gstart.tail ∧ o.gstart.getLast? = some o.N := by
  obtain ⟨o, ho, h1, h2, h3, _⟩ := twoPass_run keep b T H hT hb hk
  refine ⟨o, ho, h1, h2, h3, ?_⟩
  -- `N` is read from `gstart[-1]`
  unfold twoPass at ho
  have hT0 : T ≠ 0 := by omega
  simp only [hT0, if_false] at ho
  cases hc : countPass keep b T with
  | error e => simp [hc] at ho
  | ok nout =>
    simp only [hc, readAt_neg_one _ (prefixSums_ne_nil _ _)] at ho
    cases hf : fillPass keep b T (prefixSums Cur.zero nout)
        ((prefixSums Cur.zero nout).getLast (prefixSums_ne_nil _ _)) with
    | error e => simp [hf] at ho
    | ok fills =>
      simp only [hf] at ho
      cases ho
      exact List.getLast?_eq_some_getLast _

/-- **schedule_independent.**  All writes of the fill pass that go to the arrays of one tracer hit pairwise
distinct cells; hence every permutation of the write list — every order in which the threads' stores can
reach memory — yields the same arrays as the canonical order. -/
theorem schedule_independent (keep b : List Nat) (T H : Nat) (hT : 1 ≤ T) (hb : BlockSeq b T H)
    (hk : keep.length = H) :
    ∃ o, twoPass keep b T = .ok o ∧ ∀ ws', ws'.Perm o.writes → ∀ c, Cls c →
      ((proj c o.writes).map (·.1)).Nodup ∧
      arrayOf o.N c ws' = arrayOf o.N c o.writes := by
  obtain ⟨o, ho, h⟩ := fill_is_filter keep b T H hT hb hk
  refine ⟨o, ho, ?_⟩
  intro ws' hperm c hc
  obtain ⟨_, _, _, hnd, _⟩ := h c hc
  refine ⟨hnd, ?_⟩
  unfold arrayOf
  have hp : (proj c ws').Perm (proj c o.writes) := by
    unfold proj; exact hperm.filterMap _
  exact (applyWrites_perm hp.symm hnd _).symm

/-- **schedule_independent_all.**  The joint statement over the three tracers: tagged with (tracer, index), the
cells written by the whole fill pass are pairwise distinct, every write goes to one of the three tracers'
arrays at an index inside the allocated length, and therefore every permutation of the *whole* write list
yields, for every array (every `c`, no projection to one class needed in the hypothesis), the same contents as
the canonical order.  (The count pass writes only `keep` and `Nout`, the fill pass only the galaxy arrays;
that the two passes' stores and the threads' stores are to disjoint cells of one address space is
`count_interleave` / `fill_interleave` in Props/C10Conc.lean.) -/
theorem schedule_independent_all (keep b : List Nat) (T H : Nat) (hT : 1 ≤ T) (hb : BlockSeq b T H)
    (hk : keep.length = H) :
    ∃ o, twoPass keep b T = .ok o ∧ (o.writes.map cellOf).Nodup ∧
      (∀ w ∈ o.writes, Cls w.1 ∧ w.2.1 < o.N.get w.1) ∧
      ∀ ws', ws'.Perm o.writes → ∀ c, arrayOf o.N c ws' = arrayOf o.N c o.writes := by
  obtain ⟨o, ho, _, _, _, _, _, hcls⟩ := twoPass_run keep b T H hT hb hk
  obtain ⟨o', ho', h⟩ := fill_is_filter keep b T H hT hb hk
  have : o' = o := by rw [ho] at ho'; cases ho'; rfl
  subst this
  have hfib : ∀ c, (((o'.writes.map cellOf).filter (fun p => p.1 = c)).map (·.2)).Nodup := by
    intro c
    rw [← proj_fst_eq]
    by_cases hc : Cls c
    · exact (h c hc).2.2.2.1
    · have : proj c o'.writes = [] := by
        unfold proj
        rw [List.filterMap_eq_nil_iff]
        intro w hw
        have := hcls w hw
        have hne : w.1 ≠ c := fun e => hc (e ▸ this)
        simp [hne]
      rw [this]; exact List.nodup_nil
  refine ⟨o', ho, nodup_of_fibres _ hfib, ?_, ?_⟩
  · intro w hw
    have hc := hcls w hw
    refine ⟨hc, ?_⟩
    have hm : w.2.1 ∈ (proj w.1 o'.writes).map (·.1) := by
      apply List.mem_map.mpr
      refine ⟨(w.2.1, some w.2.2), ?_, rfl⟩
      unfold proj
      exact List.mem_filterMap.mpr ⟨w, hw, by simp⟩
    rw [(h w.1 hc).2.1] at hm
    exact List.mem_range.mp hm
  · intro ws' hperm c
    by_cases hc : Cls c
    · obtain ⟨_, _, _, hnd, _⟩ := h c hc
      unfold arrayOf
      have hp : (proj c ws').Perm (proj c o'.writes) := by
        unfold proj; exact hperm.filterMap _
      exact (applyWrites_perm hp.symm hnd _).symm
    · have e : ∀ ws : List W, (∀ w ∈ ws, Cls w.1) → proj c ws = [] := by
        intro ws hws
        unfold proj
        rw [List.filterMap_eq_nil_iff]
        intro w hw
        have hne : w.1 ≠ c := fun e => hc (e ▸ hws w hw)
        simp [hne]
      unfold arrayOf
      rw [e _ hcls, e ws' (fun w hw => hcls w (hperm.mem_iff.mp hw))]

/-- **blocks_partition.**  The threads' row ranges, concatenated in thread order, are exactly `0, 1, …, H − 1`:
every row is visited by exactly one thread, exactly once — in the count pass (where `keep[i]` is written and
`Nout[tid]` is private to thread `tid`) and in the fill pass alike. -/
theorem blocks_partition (b : List Nat) (T H : Nat) (hb : BlockSeq b T H) :
    ∃ b', b = 0 :: b' ∧ blockRows 0 b' = List.range H ∧ (blockRows 0 b').Nodup := by
  obtain ⟨b', rfl, _, hlast, hp, _⟩ := hb.decomp
  have h : blockRows 0 b' = List.range H := by
    rw [blockRows_eq 0 b' hp, hlast]
    simp [pyRange, List.range_eq_range']
  exact ⟨b', rfl, h, by rw [h]; exact List.nodup_range⟩

/-! ### non-vacuity -/

-- a table of 7 rows, 3 threads with uneven blocks, all four keep codes
example : BlockSeq [0, 2, 5, 7] 3 7 := by decide
-- more threads than rows, and an empty table
example : BlockSeq [0, 0, 1, 1, 2] 4 2 := by decide
example : BlockSeq [0, 0, 0] 2 0 := by decide
example : (twoPass [1, 0, 2, 1, 3, 1, 2] [0, 2, 5, 7] 3).toOption.map (fun o => arrayOf o.N 1 o.writes) =
    some [some 0, some 3, some 5] := by decide
example : rowsOf [1, 0, 2, 1, 3, 1, 2] 1 = [0, 3, 5] := by decide
example : (twoPass [1, 0, 2, 1, 3, 1, 2] [0, 2, 5, 7] 3).toOption.map (fun o => o.fills.map (·.1)) =
    (twoPass [1, 0, 2, 1, 3, 1, 2] [0, 2, 5, 7] 3).toOption.map (fun o => o.gstart.tail) := by decide
example : blockRows 0 [2, 5, 7] = List.range 7 := by decide
-- the hypotheses matter: boundaries that are not a block sequence of the table fault …
example : (match twoPass [1, 2] [0, 1, 3] 2 with | .error f => some f | .ok _ => none) = some .oob := by decide
-- … and writes that collide are order dependent (the model can exhibit a lost write)
example : applyWrites [0] [(0, 1), (0, 2)] ≠ applyWrites [0] [(0, 2), (0, 1)] := by decide

/-! ### fast_concatenate -/

/-- the per-thread form of `fastConcat_spec`: thread `tid`'s writes are `wss[tid]` -/
theorem fastConcat_threads {α} (blocks : Nat → Nat → List Nat) (a1 a2 : List α) (T : Nat)
    (h1 : 0 < a1.length) (h2 : 0 < a2.length) (hT : 2 ≤ T)
    (hb1 : BlockSeq (blocks a1.length (threadSplit a1.length a2.length T).1)
      (threadSplit a1.length a2.length T).1 a1.length)
    (hb2 : BlockSeq (blocks a2.length (T - (threadSplit a1.length a2.length T).1))
      (T - (threadSplit a1.length a2.length T).1) a2.length) :
    ∃ wss : List (List (Nat × α)), wss.length = T ∧
      fastConcatWith blocks a1 a2 T = .ok (.fresh (a1.length + a2.length) wss.flatten) ∧
      optW wss.flatten = (List.range (a1.length + a2.length)).map (fun i => (i, (a1 ++ a2)[i]?)) := by
  obtain ⟨t1, t2, t3, t4⟩ := threadSplit_bounds a1.length a2.length T h1 h2 hT
  generalize hT1 : (threadSplit a1.length a2.length T).1 = T1 at *
  obtain ⟨p1, e1, l1, la1, pw1, _⟩ := hb1.decomp
  obtain ⟨p2, e2, l2, la2, pw2, _⟩ := hb2.decomp
  -- first half: threads 0 .. T1-1 copy array1
  obtain ⟨wss1, c1, len1, d1⟩ := blockCopy_all a1 (a1.length + a2.length) 0 p1 0 pw1 (fun i _ hi => by
    rw [la1] at hi
    refine ⟨by omega, ?_, by omega⟩
    simp; omega)
  -- second half: threads T1 .. T-1 copy array2 behind it
  have pw2' : ((0 + a1.length) :: p2.map (· + a1.length)).Pairwise (· ≤ ·) := by
    have := List.Pairwise.map (· + a1.length) (fun a b (h : a ≤ b) => Nat.add_le_add_right h _) pw2
    simpa using this
  obtain ⟨wss2, c2, len2, d2⟩ := blockCopy_all a2 (a1.length + a2.length) (-(a1.length : Int))
    (p2.map (· + a1.length)) (0 + a1.length) pw2' (fun i hlo hi => by
      rw [lastB_map_add, la2] at hi
      refine ⟨by omega, ?_, by omega⟩
      omega)
  rw [lastB_map_add, la2, Nat.zero_add, Nat.add_comm a2.length] at d2
  rw [la1] at d1
  rw [List.length_map, l2] at c2
  rw [l1] at c1
  have hsplit : List.range T = List.range T1 ++ (List.range (T - T1)).map (T1 + ·) := by
    rw [← List.range_add]; congr 1; omega
  have hbody1 : mapE (fcBody a1 a2 T1 (blocks a1.length T1) ((blocks a2.length (T - T1)).map (· + a1.length)))
      (List.range T1) = .ok wss1 := by
    rw [← c1]
    apply mapE_congr
    intro t ht
    have : t < T1 := List.mem_range.mp ht
    simp only [fcBody, this, if_true, e1]
  have hbody2 : mapE (fcBody a1 a2 T1 (blocks a1.length T1) ((blocks a2.length (T - T1)).map (· + a1.length)))
      ((List.range (T - T1)).map (T1 + ·)) = .ok wss2 := by
    rw [← c2, mapE_map]
    apply mapE_congr
    intro t _
    have hn : ¬ (T1 + t < T1) := by omega
    have hi : ((T1 + t : Nat) : Int) - (T1 : Int) = (t : Int) := by omega
    simp only [fcBody, hn, if_false, hi, e2, List.map_cons]
  have hall := mapE_append _ _ _ _ _ hbody1 hbody2
  rw [← hsplit] at hall
  have hcells : optW (wss1 ++ wss2).flatten =
      (List.range (a1.length + a2.length)).map (fun i => (i, (a1 ++ a2)[i]?)) := by
    rw [List.flatten_append, optW_append, d1, d2, ← concat_cells]
  refine ⟨wss1 ++ wss2, ?_, ?_, hcells⟩
  · rw [List.length_append, len1, len2, List.length_map, l1, l2]; omega
  unfold fastConcatWith
  have n1 : a1.length ≠ 0 := by omega
  have n2 : a2.length ≠ 0 := by omega
  have nT1 : T ≠ 1 := by omega
  have nT0 : T ≠ 0 := by omega
  have nneg : ¬ ((T - T1 : Nat) : Int) < 0 := by omega
  simp only [n1, n2, nT1, nT0, if_false, hT1, t3, nneg, Int.toNat_natCast, hall]

/-- **fastConcat_spec.**  Both inputs non-empty and `T ≥ 2` threads: the split gives each input at least one
thread (`1 ≤ T1 ≤ T − 1`, `T2 = T − T1 ≥ 1`), no access is out of range, and for any block sequences
`blocks N1 T1`, `blocks N2 T2` the threads together write every cell `0 … N1+N2−1` of the fresh array exactly
once — cell `i` with `(array1 ++ array2)[i]` — so the result is the concatenation. -/
theorem fastConcat_spec {α} (blocks : Nat → Nat → List Nat) (a1 a2 : List α) (T : Nat)
    (h1 : 0 < a1.length) (h2 : 0 < a2.length) (hT : 2 ≤ T)
    (hb1 : BlockSeq (blocks a1.length (threadSplit a1.length a2.length T).1)
      (threadSplit a1.length a2.length T).1 a1.length)
    (hb2 : BlockSeq (blocks a2.length (T - (threadSplit a1.length a2.length T).1))
      (T - (threadSplit a1.length a2.length T).1) a2.length) :
    1 ≤ (threadSplit a1.length a2.length T).1 ∧ (threadSplit a1.length a2.length T).1 ≤ T - 1 ∧
    (threadSplit a1.length a2.length T).2 = ((T - (threadSplit a1.length a2.length T).1 : Nat) : Int) ∧
    ∃ ws, fastConcatWith blocks a1 a2 T = .ok (.fresh (a1.length + a2.length) ws) ∧
      optW ws = (List.range (a1.length + a2.length)).map (fun i => (i, (a1 ++ a2)[i]?)) ∧
      ws.map (·.1) = List.range (a1.length + a2.length) ∧
      (FC.fresh (a1.length + a2.length) ws).result a1 a2 = (a1 ++ a2).map some := by
  obtain ⟨t1, t2, t3, _⟩ := threadSplit_bounds a1.length a2.length T h1 h2 hT
  obtain ⟨wss, _, hw, hcells⟩ := fastConcat_threads blocks a1 a2 T h1 h2 hT hb1 hb2
  exact ⟨t1, t2, t3, wss.flatten, hw, hcells, result_of_cells a1 a2 _ hcells⟩

/-- **fastConcat_branches.**  The three special branches: an empty first (second) input returns the other
input itself; with one thread the two sequential loops write every cell exactly once with the right element. -/
theorem fastConcat_branches {α} (blocks : Nat → Nat → List Nat) (a1 a2 : List α) (T : Nat) :
    (a1.length = 0 → fastConcatWith blocks a1 a2 T = .ok .same2 ∧
      (FC.same2 : FC α).result a1 a2 = (a1 ++ a2).map some) ∧
    (a1.length ≠ 0 → a2.length = 0 → fastConcatWith blocks a1 a2 T = .ok .same1 ∧
      (FC.same1 : FC α).result a1 a2 = (a1 ++ a2).map some) ∧
    (a1.length ≠ 0 → a2.length ≠ 0 → T = 1 →
      ∃ ws, fastConcatWith blocks a1 a2 T = .ok (.fresh (a1.length + a2.length) ws) ∧
        optW ws = (List.range (a1.length + a2.length)).map (fun i => (i, (a1 ++ a2)[i]?)) ∧
        ws.map (·.1) = List.range (a1.length + a2.length) ∧
        (FC.fresh (a1.length + a2.length) ws).result a1 a2 = (a1 ++ a2).map some) := by
  refine ⟨?_, ?_, ?_⟩
  · intro h
    have : a1 = [] := List.length_eq_zero_iff.mp h
    subst this
    exact ⟨by simp [fastConcatWith], by simp [FC.result]⟩
  · intro h1 h2
    have : a2 = [] := List.length_eq_zero_iff.mp h2
    subst this
    exact ⟨by simp [fastConcatWith, h1], by simp [FC.result]⟩
  · intro h1 h2 hT
    subst hT
    obtain ⟨w1, c1, d1⟩ := copyLoop_ok a1 (a1.length + a2.length) 0 0 (pyRange 0 a1.length) (fun i hi => by
      have := pyRange_mem hi
      refine ⟨by omega, ?_, by omega⟩
      simp; omega)
    obtain ⟨w2, c2, d2⟩ := copyLoop_ok a2 (a1.length + a2.length) 0 a1.length (pyRange 0 a2.length) (fun i hi => by
      have := pyRange_mem hi
      refine ⟨by omega, ?_, by omega⟩
      simp; omega)
    have hcells : optW (w1 ++ w2) =
        (List.range (a1.length + a2.length)).map (fun i => (i, (a1 ++ a2)[i]?)) := by
      rw [optW_append, d1, d2, ← concat_cells]
      congr 1
      have : pyRange a1.length (a1.length + a2.length) = (pyRange 0 a2.length).map (a1.length + ·) := by
        simp [pyRange, List.map_add_range']
      rw [this, List.map_map]
      apply List.map_congr_left
      intro j _
      simp only [Function.comp]
      refine Prod.ext (by simp; omega) ?_
      simp only
      congr 2
      omega
    refine ⟨w1 ++ w2, ?_, hcells, result_of_cells a1 a2 _ hcells⟩
    unfold fastConcatWith
    simp only [h1, h2, if_false, if_true, c1, c2]

/-- **fastConcat_schedule_independent.**  The cells written by the threads are pairwise distinct, so every
order of the writes gives the concatenation. -/
theorem fastConcat_schedule_independent {α} (a1 a2 : List α) (ws ws' : List (Nat × α))
    (h : optW ws = (List.range (a1.length + a2.length)).map (fun i => (i, (a1 ++ a2)[i]?)))
    (hperm : ws'.Perm ws) :
    (ws.map (·.1)).Nodup ∧
    (FC.fresh (a1.length + a2.length) ws').result a1 a2 = (a1 ++ a2).map some := by
  obtain ⟨hi, hr⟩ := result_of_cells a1 a2 ws h
  have hnd : (ws.map (·.1)).Nodup := by rw [hi]; exact List.nodup_range
  refine ⟨hnd, ?_⟩
  rw [← hr]
  show applyWrites _ (optW ws') = applyWrites _ (optW ws)
  have hp : (optW ws).Perm (optW ws') := (hperm.map _).symm
  have hnd' : ((optW ws).map (·.1)).Nodup := by
    have : (optW ws).map (·.1) = ws.map (·.1) := by simp [optW]
    rw [this]; exact hnd
  exact (applyWrites_perm hp hnd' _).symm

-- non-vacuity: 3 + 2 elements on 4 threads (split 2 + 2), on 16 threads with a single-element first input
example : BlockSeq (rintLinspace 3 (threadSplit 3 2 4).1) (threadSplit 3 2 4).1 3 := by decide +kernel
example : BlockSeq (rintLinspace 2 (4 - (threadSplit 3 2 4).1)) (4 - (threadSplit 3 2 4).1) 2 := by decide +kernel
example : (match fastConcat [1, 2, 3] [10, 20] 4 with | .ok r => r.result [1, 2, 3] [10, 20] | .error _ => []) =
    [some 1, some 2, some 3, some 10, some 20] := by decide +kernel
example : threadSplit 1 3 16 = (4, 12) := by decide
example : threadSplit 1 100 16 = (1, 15) := by decide

/-! ### _searchsorted_parallel -/

/-- **searchsorted_pointwise.**  For every table `a` and every query list `b` (any lengths, `a` sorted or not):
no binary search and no store is out of range, iteration `i` writes cell `i` and nothing else, with
`searchsorted a b[i]` (a value `≤ len a`); every cell `0 … len b − 1` is written exactly once, so the result is
the pointwise search and does not depend on how `prange` distributes or orders the iterations. -/
theorem searchsorted_pointwise (a b : List Int) :
    ∃ rs ws, mapE (searchsorted a) b = .ok rs ∧ searchsortedPar a b = .ok ws ∧
      ws = (List.range b.length).zip rs ∧ rs.length = b.length ∧ (∀ r ∈ rs, r ≤ a.length) ∧
      ws.map (·.1) = List.range b.length ∧
      (∀ ws' : List (Nat × Nat), ws'.Perm ws →
        applyWrites (List.replicate b.length (none : Option Nat)) (ws'.map (fun w => (w.1, some w.2))) =
          rs.map some) := by
  have hws : ((List.range b.length).zip (b.map (ssVal a))).map (·.1) = List.range b.length := by
    rw [List.map_fst_zip]; simp
  refine ⟨b.map (ssVal a), (List.range b.length).zip (b.map (ssVal a)),
    mapE_ok _ _ _ (fun v _ => searchsorted_eq a v), searchsortedPar_ok a b, rfl, by simp, ?_, hws, ?_⟩
  · intro r hr
    obtain ⟨v, _, rfl⟩ := List.mem_map.mp hr
    exact ssVal_le a v
  · intro ws' hperm
    have hnd : ((((List.range b.length).zip (b.map (ssVal a))).map (fun w => (w.1, some w.2))).map (·.1)).Nodup := by
      rw [List.map_map]
      have : ((fun (x : Nat × Option Nat) => x.1) ∘ fun (w : Nat × Nat) => (w.1, some w.2)) = (·.1) := rfl
      rw [this, hws]
      exact List.nodup_range
    rw [← applyWrites_perm ((hperm.map _).symm) hnd]
    have hz : ((List.range b.length).zip (b.map (ssVal a))).map (fun w => (w.1, some w.2)) =
        (List.range b.length).map (fun i => (i, ((b.map (ssVal a)).map some)[i]?.join)) := by
      apply List.ext_getElem
      · simp
      · intro i h1 h2
        simp at h1
        simp [List.getElem?_eq_getElem h1]
    rw [hz, applyWrites_range _ _ _ (by simp)]
    apply List.ext_getElem
    · simp
    · intro i h1 h2
      simp at h1
      simp [List.getElem?_eq_getElem h1]

/-- **searchsorted_spec.**  On a sorted (non-decreasing) table the binary search returns the left insertion
point `#{x ∈ a | x < v}` (`numpy.searchsorted(a, v, side='left')`), so `_searchsorted_parallel` writes for each
`b[i]` its left insertion point into cell `i`; and whenever `b[i]` occurs in `a`, the returned index points at
an entry equal to `b[i]` (what `pinds` in the HOD staging relies on). -/
theorem searchsorted_spec (a b : List Int) (hs : a.Pairwise (· ≤ ·)) :
    (∀ v, searchsorted a v = .ok (a.countP (fun x => decide (x < v)))) ∧
    searchsortedPar a b =
      .ok ((List.range b.length).zip (b.map (fun v => a.countP (fun x => decide (x < v))))) ∧
    (∀ v ∈ b, v ∈ a → a[a.countP (fun x => decide (x < v))]? = some v) := by
  refine ⟨fun v => (searchsorted_sorted a v hs).1, ?_, fun v _ hv => (searchsorted_sorted a v hs).2 hv⟩
  rw [searchsortedPar_ok]
  congr 2
  apply List.map_congr_left
  intro v _
  exact ssVal_sorted a v hs

example : ([1, 3, 3, 5] : List Int).Pairwise (· ≤ ·) := by decide
example : ([1, 3, 3, 5] : List Int).countP (fun x => decide (x < 3)) = 1 := by decide
-- the hypothesis matters: on an unsorted table the binary search is not the count of smaller entries
example : searchsorted [5, 1, 0] 2 = .ok 3 ∧ ([5, 1, 0] : List Int).countP (fun x => decide (x < 2)) = 2 := by decide

/-! ### the concrete boundaries -/

/-- **rint_linspace_blocks.**  `np.rint(np.linspace(0, H, T + 1))` over exact rationals (round half to even of
`i·H/T`) is a block sequence for every table size and every `T ≥ 1`: it starts at 0, ends at `H` and never
decreases — the premise of all theorems above.  (The float64 evaluation may round a tie `i·H/T = k + 1/2` to the
other neighbour; the harness checks for all `H ≤ 300`, `T ≤ 64` that it still is a block sequence.) -/
theorem rint_linspace_blocks (H T : Nat) (hT : 1 ≤ T) : BlockSeq (rintLinspace H T) T H :=
  rintLinspace_blockSeq H T hT

/-- the real routine (`fastConcat` = `fastConcatWith rintLinspace`) meets the hypotheses of `fastConcat_spec` -/
theorem fastConcat_concrete {α} (a1 a2 : List α) (T : Nat) (h1 : 0 < a1.length) (h2 : 0 < a2.length) (hT : 2 ≤ T) :
    ∃ ws, fastConcat a1 a2 T = .ok (.fresh (a1.length + a2.length) ws) ∧
      ws.map (·.1) = List.range (a1.length + a2.length) ∧
      (FC.fresh (a1.length + a2.length) ws).result a1 a2 = (a1 ++ a2).map some := by
  obtain ⟨t1, _, _, t4⟩ := threadSplit_bounds a1.length a2.length T h1 h2 hT
  obtain ⟨_, _, _, ws, hw, _, hi, hr⟩ := fastConcat_spec rintLinspace a1 a2 T h1 h2 hT
    (rint_linspace_blocks _ _ t1) (rint_linspace_blocks _ _ t4)
  exact ⟨ws, hw, hi, hr⟩

/-- the real boundaries in the two-pass generators: the catalogue arrays are the filter for every thread count -/
theorem twoPass_concrete (keep : List Nat) (T : Nat) (hT : 1 ≤ T) :
    ∃ o, twoPass keep (rintLinspace keep.length T) T = .ok o ∧ ∀ c, Cls c →
      arrayOf o.N c o.writes = (rowsOf keep c).map some := by
  obtain ⟨o, ho, h⟩ := fill_is_filter keep _ T keep.length hT (rint_linspace_blocks _ _ hT) rfl
  exact ⟨o, ho, fun c hc => (h c hc).2.2.2.2⟩

example : rintLinspace 7 3 = [0, 2, 5, 7] := by decide +kernel
example : rintLinspace 3 2 = [0, 2, 3] := by decide +kernel     -- the tie 3/2 rounds to even
example : rintLinspace 2 5 = [0, 0, 1, 1, 2, 2] := by decide +kernel
example : searchsortedPar [1, 3, 3, 5] [0, 1, 2, 3, 4, 5, 6] =
    .ok [(0, 0), (1, 0), (2, 1), (3, 1), (4, 3), (5, 3), (6, 4)] := by decide

end AbacusVerif.TwoPass
