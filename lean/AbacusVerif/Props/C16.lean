/-
  C16 — read_asdf returns exactly the requested particle columns.

  Property theorems about the model of `read_abacus.read_asdf` / `_resolve_columns` (Model/C16.lean), for every
  file (any presence pattern of the raw keys, any lengths), every `load` list (any order, duplicates, unknown
  names), every explicit `colname` and all deprecated flag values.  Vocabulary (`numPresent`, `loadable`,
  `supported`, `canonical`, `defaults`, `particles`) is in Lemmas/C16.lean.
-/
import AbacusVerif.Lemmas.C16
import AbacusVerif.Lemmas.C16Values

namespace AbacusVerif.ReadAsdf
open AbacusVerif

/-! ### detection of the raw column -/

/-- an explicitly named column is taken as is, whatever the file contains -/
theorem detect_explicit (present : RawKey → Bool) (c : ColName) : detect present (some c) = .ok c := rfl

/-- **detect_spec.**  Without an explicit name: no known key → the "could not find" error; two or more → the
"more than one" error; exactly one → that key. -/
theorem detect_spec (present : RawKey → Bool) :
    (numPresent present = 0 → detect present none = .error .noneFound) ∧
    (2 ≤ numPresent present → detect present none = .error .moreThanOne) ∧
    (numPresent present = 1 → ∀ k, present k = true → detect present none = .ok (.known k)) := by
  rw [present_eq present]
  generalize present .rvint = a
  generalize present .pack9 = b
  generalize present .packedpid = c
  generalize present .pid = d
  refine ⟨?_, ?_, ?_⟩
  · cases a <;> cases b <;> cases c <;> cases d <;> decide
  · cases a <;> cases b <;> cases c <;> cases d <;> decide
  · intro h k
    cases a <;> cases b <;> cases c <;> cases d <;> cases k <;> revert h <;> decide

/-- an error is raised by the detection iff no name was given and the number of known keys is not one -/
theorem detect_error_iff (present : RawKey → Bool) (colname : Option ColName) :
    (detect present colname).isOk = false ↔ (colname = none ∧ numPresent present ≠ 1) := by
  cases colname with
  | some c => simp [detect, Except.isOk, Except.toBool]
  | none =>
    rw [present_eq present]
    generalize present .rvint = a
    generalize present .pack9 = b
    generalize present .packedpid = c
    generalize present .pid = d
    cases a <;> cases b <;> cases c <;> cases d <;> decide

example : numPresent (presentOf true false true false) = 2 := by decide
example : numPresent (presentOf false false false false) = 0 := by decide
example : numPresent (presentOf false true false false) = 1 ∧ presentOf false true false false .pack9 = true := by decide

/-! ### which columns are requested -/

/-- an explicit `load` is returned unchanged whatever the deprecated flags say -/
theorem resolve_load_wins (cn : ColName) (l : List Col) (lp lv : Option Bool) :
    (resolve cn (some l) lp lv).1 = l := by
  cases lp <;> cases lv <;> rfl

/-- without `load` and without flags: positions and velocities for rvint/pack9, the PID for packedpid/pid -/
theorem resolve_defaults (k : RawKey) : resolve (.known k) none none none = (defaults k, none) := by
  cases k <;> rfl

/-- with deprecated flags and no `load`, whatever the raw column is: `pos` is requested iff `load_pos` is true, or is
not given while `load_vel` is false; symmetrically for `vel`; nothing else is requested -/
theorem resolve_flags (cn : ColName) (lp lv : Option Bool) (h : lp ≠ none ∨ lv ≠ none) :
    (Col.pos ∈ (resolve cn none lp lv).1 ↔ (lp = some true ∨ (lp = none ∧ lv = some false))) ∧
    (Col.vel ∈ (resolve cn none lp lv).1 ↔ (lv = some true ∨ (lv = none ∧ lp = some false))) ∧
    (∀ c ∈ (resolve cn none lp lv).1, c = .pos ∨ c = .vel) := by
  cases lp with
  | none =>
    cases lv with
    | none => simp at h
    | some b => cases b <;> simp [resolve]
  | some a =>
    cases lv with
    | none => cases a <;> simp [resolve]
    | some b => cases a <;> cases b <;> simp [resolve]

/-- **resolve_spec.**  The whole option space: the resolved request is `load` when given; else the flag table when a
flag is given; else the defaults of the raw column; and the warning says which of these happened. -/
theorem resolve_spec (cn : ColName) (load : Option (List Col)) (lp lv : Option Bool) :
    let r := resolve cn load lp lv
    (∀ l, load = some l → r.1 = l) ∧
    (load = none → lp = none → lv = none →
      r.1 = (if cn.isRV then [Col.pos, Col.vel] else []) ++ (if cn.hasPid then [Col.pid] else [])) ∧
    (load = none → (lp ≠ none ∨ lv ≠ none) →
      r.1 = (if lp = some true ∨ (lp = none ∧ lv = some false) then [Col.pos] else []) ++
            (if lv = some true ∨ (lv = none ∧ lp = some false) then [Col.vel] else [])) ∧
    (r.2 = none ↔ (lp = none ∧ lv = none)) ∧
    (r.2 = some .future ↔ ((lp ≠ none ∨ lv ≠ none) ∧ load = none)) ∧
    (r.2 = some .ignored ↔ ((lp ≠ none ∨ lv ≠ none) ∧ load ≠ none)) := by
  cases load <;> cases lp <;> cases lv <;>
    (try rename_i a; cases a) <;> (try rename_i b; cases b) <;>
    cases hr : cn.isRV <;> cases hp : cn.hasPid <;> simp [resolve, hr, hp]

/-- the table of the nine flag combinations, for each of the six kinds of raw column name (finite, by evaluation) -/
theorem resolve_table :
    ∀ cn ∈ [ColName.known .rvint, .known .pack9, .known .packedpid, .known .pid, .other true, .other false],
      [(resolve cn none (some true) none).1, (resolve cn none (some false) none).1,
       (resolve cn none none (some true)).1, (resolve cn none none (some false)).1,
       (resolve cn none (some true) (some true)).1, (resolve cn none (some true) (some false)).1,
       (resolve cn none (some false) (some true)).1, (resolve cn none (some false) (some false)).1] =
      [[Col.pos], [.vel], [.vel], [.pos], [.pos, .vel], [.pos], [.vel], []] := by
  decide

example : (resolve (.known .pid) none (some true) none) = ([.pos], some .future) := by decide


/-! ### the table: exactly the requested columns, one row per particle -/

/-- **columns_general.**  Whatever is requested (any order, duplicates, unknown names): the table's columns are, in the
fixed order pos, vel, aux, pid, lagr_pos, lagr_idx, tagged, density, exactly the requested names that the raw column
supports, each once. -/
theorem columns_general (cn : ColName) (load : List Col) (nmax npart : Nat) (t : Table)
    (h : assemble cn load nmax npart = .ok t) :
    t.cols = canonical.filter (fun c => decide (c ∈ load) && decide (c ∈ supported cn)) := by
  have hpid : cn.hasPid = true →
      pidOrder.filter (· ∈ load) =
        pidOrder.filter (fun c => decide (c ∈ load) && decide (c ∈ supported cn)) := by
    intro hp
    apply List.filter_congr
    intro c hc
    have : c ∈ supported cn := by
      simp only [supported, hp, if_true]
      simp only [pidOrder, List.mem_cons, List.not_mem_nil, or_false] at hc
      rcases hc with rfl | rfl | rfl | rfl | rfl <;> decide
    simp [this]
  have split : canonical = [Col.pos, Col.vel, Col.aux] ++ pidOrder := rfl
  by_cases hpos : Col.pos ∈ load <;> by_cases hvel : Col.vel ∈ load <;> by_cases haux : Col.aux ∈ load <;>
    (cases cn with
     | known k =>
       cases k <;>
         simp [assemble, hpos, hvel, haux, ColName.hasPid] at h <;>
         (try (subst h; rw [split, List.filter_append];
               first
               | (simp [hpos, hvel, haux, supported, ColName.hasPid, pidOrder]; done)
               | (rw [← hpid rfl]; simp [hpos, hvel, haux, supported, ColName.hasPid])))
     | other b =>
       cases b <;>
         simp [assemble, hpos, hvel, haux, ColName.hasPid] at h <;>
         (try (subst h; rw [split, List.filter_append, ← hpid rfl];
               simp [hpos, hvel, haux, supported, ColName.hasPid])))

/-- **columns_exact.**  For a request inside the loadable columns of the raw column the table has exactly the
requested columns: every requested name is a column, every column was requested, none appears twice. -/
theorem columns_exact (cn : ColName) (load : List Col) (nmax npart : Nat) (t : Table)
    (hsub : ∀ c ∈ load, c ∈ loadable cn)
    (h : assemble cn load nmax npart = .ok t) :
    (∀ c, c ∈ t.cols ↔ c ∈ load) ∧ t.cols.Nodup := by
  rw [columns_general cn load nmax npart t h]
  have hcan : canonical.Nodup := by decide
  refine ⟨?_, hcan.filter _⟩
  intro c
  simp only [List.mem_filter, Bool.and_eq_true, decide_eq_true_eq]
  constructor
  · intro hc; exact hc.2.1
  · intro hc
    have hl := hsub c hc
    have hsup : c ∈ supported cn := by
      unfold loadable at hl
      unfold supported
      cases hr : cn.isRV <;> cases hp : cn.hasPid <;> simp [hr, hp] at hl ⊢
      · rcases hl with rfl | rfl | rfl | rfl | rfl | rfl <;> simp
      · rcases hl with rfl | rfl <;> simp
      · rcases hl with rfl | rfl <;> simp
    have hcanon : c ∈ canonical := by
      unfold supported at hsup
      cases hp : cn.hasPid <;> simp [hp] at hsup <;> rcases hsup with rfl | rfl | rfl | rfl | rfl | rfl | rfl | rfl <;> decide
    exact ⟨hcanon, hc, hsup⟩

example : ∀ c ∈ [Col.density, Col.aux, Col.pid], c ∈ loadable (.known .packedpid) := by decide
example : assemble (.known .packedpid) [.density, .aux, .pid] 5 0 = .ok ⟨[.aux, .pid, .density], 5⟩ := by decide

/-- with `load=None` and no flags the table has the documented default columns of the detected raw column -/
theorem columns_default (k : RawKey) (nmax npart : Nat) :
    ∃ t, assemble (.known k) (resolve (.known k) none none none).1 nmax npart = .ok t ∧ t.cols = defaults k := by
  cases k <;> exact ⟨_, rfl, rfl⟩

/-- **rows_spec.**  For a non-empty request inside the loadable columns the table has one row per particle:
`len(data)` for rvint and PID columns, the number of non-header records for pack9. -/
theorem rows_spec (k : RawKey) (load : List Col) (nmax npart : Nat) (t : Table)
    (hsub : ∀ c ∈ load, c ∈ loadable (.known k)) (hne : load ≠ [])
    (h : assemble (.known k) load nmax npart = .ok t) :
    t.rows = (match k with | .pack9 => npart | _ => nmax) := by
  obtain ⟨hex, -⟩ := columns_exact (.known k) load nmax npart t hsub h
  have hcols : t.cols ≠ [] := by
    intro he
    cases load with
    | nil => exact hne rfl
    | cons c rest =>
      have := (hex c).mpr (List.mem_cons_self)
      rw [he] at this; cases this
  have hempty : t.cols.isEmpty = false := by
    cases hc : t.cols with
    | nil => exact absurd hc hcols
    | cons _ _ => rfl
  -- in an rvint/pack9 request at least one of pos, vel is present
  have hrv : (k = .rvint ∨ k = .pack9) → Col.pos ∈ load ∨ Col.vel ∈ load := by
    intro hk
    cases load with
    | nil => exact absurd rfl hne
    | cons c rest =>
      have hc := hsub c (List.mem_cons_self)
      rcases hk with rfl | rfl <;> simp [loadable, ColName.isRV] at hc <;> rcases hc with rfl | rfl <;> simp
  cases k with
  | rvint =>
    simp only [assemble] at h
    cases h
    simp only at hempty
    simp only [hempty]
    have := hrv (Or.inl rfl)
    by_cases hp : Col.pos ∈ load <;> by_cases hv : Col.vel ∈ load <;> simp [hp, hv] at this ⊢
  | pack9 =>
    simp only [assemble] at h
    cases h
    simp only at hempty
    simp only [hempty]
    have := hrv (Or.inr rfl)
    by_cases hp : Col.pos ∈ load <;> by_cases hv : Col.vel ∈ load <;> simp [hp, hv] at this ⊢
  | packedpid =>
    simp only [assemble, ColName.hasPid, if_true] at h
    cases h
    simp only at hempty
    simp only [hempty]
    simp
  | pid =>
    simp only [assemble, ColName.hasPid, if_true] at h
    cases h
    simp only at hempty
    simp only [hempty]
    simp

example : assemble (.known .pack9) [.vel] 20 13 = .ok ⟨[.vel], 13⟩ := by decide

/-- **read_spec.**  End to end: a file with exactly one known raw column `k`, no explicit `colname`, and a non-empty
`load` inside the loadable columns of `k` — for every value of the deprecated flags the call succeeds, reads column `k`,
returns exactly the requested columns with one row per particle, and adds `SubsampleFraction` to the metadata exactly
for AbacusSummit light cones. -/
theorem read_spec (f : FileDesc) (k : RawKey) (l : List Col) (lp lv : Option Bool)
    (h1 : numPresent f.present = 1) (hk : f.present k = true)
    (hsub : ∀ c ∈ l, c ∈ loadable (.known k)) (hne : l ≠ []) :
    ∃ o, readAsdf f none (some l) lp lv = .ok o ∧ o.colname = .known k ∧
      (∀ c, c ∈ o.table.cols ↔ c ∈ l) ∧ o.table.cols.Nodup ∧ o.table.rows = particles f k ∧
      o.addsSubsample = (f.lightcone && f.summit) ∧
      (o.warn = none ↔ (lp = none ∧ lv = none)) := by
  have hd := (detect_spec f.present).2.2 h1 k hk
  have hr := resolve_load_wins (.known k) l lp lv
  have hw := (resolve_spec (.known k) (some l) lp lv).2.2.2.1
  have hasm : ∃ t, assemble (.known k) l (f.len (.known k)) f.npart = .ok t := by
    cases k <;> exact ⟨_, rfl⟩
  obtain ⟨t, ht⟩ := hasm
  obtain ⟨hc1, hc2⟩ := columns_exact _ _ _ _ t hsub ht
  have hrows := rows_spec k l _ _ t hsub hne ht
  refine ⟨{ colname := .known k, table := t, warn := (resolve (.known k) (some l) lp lv).2,
            addsSubsample := f.lightcone && f.summit }, ?_, rfl, hc1, hc2, ?_, rfl, hw⟩
  · have hres : resolve (.known k) (some l) lp lv = (l, (resolve (.known k) (some l) lp lv).2) :=
      Prod.ext hr rfl
    simp only [readAsdf, hd, bind, Except.bind]
    rw [hres]
    simp [FileDesc.has, hk, ht]
  · rw [hrows]; cases k <;> rfl


/-! ### column values (Model/C16Values.lean): the C04 / C15 model decoders applied to the raw column -/

/-- **values_are_direct_decoding.**  Whenever the table is built (any raw column name, any `load`, any header
values, any float rounding `cast`), the direct call of the model decoder on the raw column with *all* outputs
requested and freshly allocated (`unpack_rvint(data, box)`, `unpack_pack9(data, box, velz)`,
`unpack_pids(data, box, ppd, pid=True, …)`, plus the raw column as `aux` for PID files) succeeds as well, names each
column once, and every loadable column of the table — name and complete value list, after the `[:nread]`
truncation — is one of its columns. -/
theorem values_are_direct_decoding (cn : ColName) (raw : Raw) (load : List Col) (h : HdrVals) (cast : Rat → Rat)
    (cols : List Column) (hok : assembleV cn raw load h cast = .ok cols) :
    ∃ all, directAll cn raw h cast = .ok all ∧ (all.map Prod.fst).Nodup ∧
      ∀ c v, (c, v) ∈ cols → c ∈ loadable cn → (c, v) ∈ all := by
  cases raw with
  | rvint rows =>
    cases cn with
    | known k =>
      cases k with
      | rvint =>
        refine ⟨_, directAll_rvint rows h cast, by simp, ?_⟩
        intro c v hm hl
        exact direct_rvint rows load h cast cols hok c v hm (by simpa [loadable, ColName.isRV] using hl)
      | pack9 => simp [assembleV] at hok
      | packedpid => simp [assembleV] at hok
      | pid => simp [assembleV] at hok
    | other b => cases b <;> simp [assembleV] at hok
  | pack9 recs =>
    cases cn with
    | known k =>
      cases k with
      | pack9 =>
        obtain ⟨all, h1, h2, h3⟩ := direct_pack9 recs load h cast cols hok
        refine ⟨all, h1, by rw [h2]; decide, ?_⟩
        intro c v hm hl
        exact h3 c v hm (by simpa [loadable, ColName.isRV] using hl)
      | rvint => simp [assembleV] at hok
      | packedpid => simp [assembleV] at hok
      | pid => simp [assembleV] at hok
    | other b => cases b <;> simp [assembleV] at hok
  | pids packed =>
    by_cases hcn : cn.hasPid = true
    · obtain ⟨P, h1, h2⟩ := direct_pids cn hcn packed load h cast cols hok
      refine ⟨_, h1, by simp [pidCols, optCol, allPidCols], ?_⟩
      intro c v hm hl
      have hrv : cn.isRV = false := by
        cases cn with
        | known k => cases k <;> simp [ColName.hasPid] at hcn <;> rfl
        | other b => rfl
      have hl' : c ∈ [Col.pid, .lagr_pos, .tagged, .density, .lagr_idx, .aux] := by
        simpa [loadable, hrv, hcn] using hl
      refine h2 c v hm ?_ ?_ <;> (intro hc; subst hc; simp at hl')
    · cases cn with
      | known k => cases k <;> simp [ColName.hasPid] at hcn <;> simp [assembleV, ColName.hasPid] at hok
      | other b => cases b <;> simp [ColName.hasPid] at hcn; simp [assembleV, ColName.hasPid] at hok

/-- **values_independent_of_selection.**  For any two requests on the same raw column that both produce the loadable
column `c`, the value list of `c` is the same — whatever else was requested alongside. -/
theorem values_independent_of_selection (cn : ColName) (raw : Raw) (l1 l2 : List Col) (h : HdrVals)
    (cast : Rat → Rat) (cols1 cols2 : List Column)
    (h1 : assembleV cn raw l1 h cast = .ok cols1) (h2 : assembleV cn raw l2 h cast = .ok cols2)
    (c : Col) (v1 v2 : List Cell) (m1 : (c, v1) ∈ cols1) (m2 : (c, v2) ∈ cols2) (hl : c ∈ loadable cn) :
    v1 = v2 := by
  obtain ⟨all, ha, hnd, hin⟩ := values_are_direct_decoding cn raw l1 h cast cols1 h1
  obtain ⟨all', ha', -, hin'⟩ := values_are_direct_decoding cn raw l2 h cast cols2 h2
  rw [ha] at ha'
  cases ha'
  have a1 := hin c v1 m1 hl
  have a2 := hin' c v2 m2 hl
  -- the names of `all` are pairwise distinct
  clear hin hin' ha
  induction all with
  | nil => cases a1
  | cons e rest ih =>
    simp only [List.map_cons, List.nodup_cons] at hnd
    rcases List.mem_cons.mp a1 with rfl | r1
    · rcases List.mem_cons.mp a2 with e2 | r2
      · exact (Prod.mk.inj e2).2.symm ▸ rfl
      · exact absurd (List.mem_map_of_mem (f := Prod.fst) r2) hnd.1
    · rcases List.mem_cons.mp a2 with rfl | r2
      · exact absurd (List.mem_map_of_mem (f := Prod.fst) r1) hnd.1
      · exact ih hnd.2 r1 r2

/-- The raw pass-through: a PID file's table has the column `aux` iff it was requested, and then it is the complete,
unmodified raw column. -/
theorem aux_passthrough (cn : ColName) (hcn : cn.hasPid = true) (packed : List (BitVec 64)) (load : List Col)
    (h : HdrVals) (cast : Rat → Rat) (cols : List Column)
    (hok : assembleV cn (.pids packed) load h cast = .ok cols) :
    (Col.aux ∈ load → (Col.aux, packed.map Cell.raw64) ∈ cols) ∧
    (∀ v, (Col.aux, v) ∈ cols → Col.aux ∈ load ∧ v = packed.map Cell.raw64) := by
  rw [assembleV_pids cn hcn] at hok
  cases hq : Bitpacked.ppdOf (some ((rhe h.ppd : Int) : Rat)) with
  | none => rw [hq] at hok; cases hok
  | some P =>
    rw [hq] at hok
    by_cases hP : P = 0
    · simp [hP] at hok
    · simp only [hP, if_false] at hok
      cases hok
      constructor
      · intro ha
        refine (mem_truncate _ _ _ _).mpr ⟨packed.map .raw64, ?_, by simp⟩
        simp [mem_optCol, ha]
      · intro v hm
        obtain ⟨v', hm', rfl⟩ := (mem_truncate _ _ _ _).mp hm
        simp only [List.mem_append, mem_optCol] at hm'
        rcases hm' with ((⟨_, hc, _⟩ | ⟨_, hc, _⟩) | ⟨ha, _, rfl⟩) | hm'
        · cases hc
        · cases hc
        · exact ⟨ha, by simp⟩
        · simp only [pidCols, List.mem_append, mem_optCol] at hm'
          rcases hm' with (((⟨_, hc, _⟩ | ⟨_, hc, _⟩) | ⟨_, hc, _⟩) | ⟨_, hc, _⟩) | ⟨_, hc, _⟩ <;> cases hc

/-- The metadata rule, for both models: `SubsampleFraction` is added exactly for AbacusSummit light cones, whatever
is read or requested. -/
theorem subsample_rule (f : FileData) (cast : Rat → Rat) (colname : Option ColName) (load : Option (List Col))
    (lp lv : Option Bool) :
    (∀ o, readAsdfV f cast colname load lp lv = .ok o → o.addsSubsample = (f.lightcone && f.summit)) ∧
    (∀ o, readAsdf f.toDesc colname load lp lv = .ok o → o.addsSubsample = (f.lightcone && f.summit)) := by
  constructor
  · intro o ho
    simp only [readAsdfV, bind, Except.bind] at ho
    cases hd : detect f.toDesc.present colname with
    | error e => rw [hd] at ho; cases ho
    | ok cn =>
      rw [hd] at ho
      simp only at ho
      cases hr : f.raw cn with
      | none => rw [hr] at ho; cases ho
      | some raw =>
        rw [hr] at ho
        simp only at ho
        cases ha : assembleV cn raw (resolve cn load lp lv).1 f.hdr cast with
        | error e => rw [ha] at ho; cases ho
        | ok cols => rw [ha] at ho; cases ho; rfl
  · intro o ho
    simp only [readAsdf, bind, Except.bind] at ho
    cases hd : detect f.toDesc.present colname with
    | error e => rw [hd] at ho; cases ho
    | ok cn =>
      rw [hd] at ho
      simp only at ho
      split at ho
      · cases ho
      · cases ha : assemble cn (resolve cn load lp lv).1 (f.toDesc.len cn) f.toDesc.npart with
        | error e => rw [ha] at ho; cases ho
        | ok t => rw [ha] at ho; cases ho; rfl

/-- **read_values_independent.**  Through the whole function: two successful `read_asdf` calls on the same file with
the same `colname` argument — any two `load` lists, any deprecated flags — read the same raw column, and every
loadable column they both return has the same values. -/
theorem read_values_independent (f : FileData) (cast : Rat → Rat) (colname : Option ColName)
    (load load' : Option (List Col)) (lp lv lp' lv' : Option Bool) (o o' : OutcomeV)
    (h : readAsdfV f cast colname load lp lv = .ok o) (h' : readAsdfV f cast colname load' lp' lv' = .ok o') :
    o.colname = o'.colname ∧
    ∀ c v v', (c, v) ∈ o.cols → (c, v') ∈ o'.cols → c ∈ loadable o.colname → v = v' := by
  simp only [readAsdfV, bind, Except.bind] at h h'
  cases hd : detect f.toDesc.present colname with
  | error e => rw [hd] at h; cases h
  | ok cn =>
    rw [hd] at h h'
    simp only at h h'
    cases hr : f.raw cn with
    | none => rw [hr] at h; cases h
    | some raw =>
      rw [hr] at h h'
      simp only at h h'
      cases ha : assembleV cn raw (resolve cn load lp lv).1 f.hdr cast with
      | error e => rw [ha] at h; cases h
      | ok cols =>
      cases ha' : assembleV cn raw (resolve cn load' lp' lv').1 f.hdr cast with
      | error e => rw [ha'] at h'; cases h'
      | ok cols' =>
        rw [ha] at h; rw [ha'] at h'
        cases h; cases h'
        refine ⟨rfl, ?_⟩
        intro c v v' m m' hl
        exact values_independent_of_selection cn raw _ _ f.hdr cast cols cols' ha ha' c v v' m m' hl

/-- **values_shape.**  The value model refines the shape model: whenever `read_asdf` with values returns, the shape
model (`readAsdf` on the file description, about which `columns_exact`, `rows_spec`, `read_spec` speak) returns too,
with the same raw column, warning and metadata flag, the same column names in the same order, and every value list
has exactly `rows` entries. -/
theorem values_shape (f : FileData) (cast : Rat → Rat) (colname : Option ColName) (load : Option (List Col))
    (lp lv : Option Bool) (ov : OutcomeV) (hv : readAsdfV f cast colname load lp lv = .ok ov) :
    ∃ o, readAsdf f.toDesc colname load lp lv = .ok o ∧ o.colname = ov.colname ∧ o.warn = ov.warn ∧
      o.addsSubsample = ov.addsSubsample ∧ ov.cols.map Prod.fst = o.table.cols ∧
      ∀ c v, (c, v) ∈ ov.cols → v.length = o.table.rows := by
  simp only [readAsdfV, bind, Except.bind] at hv
  cases hd : detect f.toDesc.present colname with
  | error e => rw [hd] at hv; cases hv
  | ok cn =>
    rw [hd] at hv
    simp only at hv
    cases hr : f.raw cn with
    | none => rw [hr] at hv; cases hv
    | some raw =>
      rw [hr] at hv
      simp only at hv
      cases ha : assembleV cn raw (resolve cn load lp lv).1 f.hdr cast with
      | error e => rw [ha] at hv; cases hv
      | ok cols =>
        rw [ha] at hv
        cases hv
        have hhas : f.toDesc.has cn = true := by
          cases cn with
          | known k => simp [FileDesc.has, FileData.toDesc, hr]
          | other b => cases b <;> simp [FileDesc.has, FileData.toDesc, hr]
        have hlen : f.toDesc.len cn = raw.len := by simp [FileData.toDesc, hr]
        -- the table of the shape model
        have key : ∃ t, assemble cn (resolve cn load lp lv).1 (f.toDesc.len cn) f.toDesc.npart = .ok t ∧
            Shape cols t.cols t.rows := by
          rw [hlen]
          cases raw with
          | rvint rows =>
            cases cn with
            | known k =>
              cases k with
              | rvint => exact shape_rvint rows _ _ cast _ cols ha
              | pack9 => simp [assembleV] at ha
              | packedpid => simp [assembleV] at ha
              | pid => simp [assembleV] at ha
            | other b => cases b <;> simp [assembleV] at ha
          | pack9 recs =>
            cases cn with
            | known k =>
              cases k with
              | pack9 =>
                have : f.toDesc.npart = (Pack9.nonHeaders recs).length := by
                  simp [FileData.toDesc, hr, pack9Particles, Pack9.nonHeaders]
                rw [this]
                exact shape_pack9 recs _ _ cast cols ha
              | rvint => simp [assembleV] at ha
              | packedpid => simp [assembleV] at ha
              | pid => simp [assembleV] at ha
            | other b => cases b <;> simp [assembleV] at ha
          | pids packed =>
            by_cases hcn : cn.hasPid = true
            · exact shape_pids cn hcn packed _ _ cast _ cols ha
            · cases cn with
              | known k => cases k <;> simp [ColName.hasPid] at hcn <;> simp [assembleV, ColName.hasPid] at ha
              | other b => cases b <;> simp [ColName.hasPid] at hcn; simp [assembleV, ColName.hasPid] at ha
        obtain ⟨t, ht, hs1, hs2⟩ := key
        refine ⟨{ colname := cn, table := t, warn := (resolve cn load lp lv).2,
                  addsSubsample := f.toDesc.lightcone && f.toDesc.summit }, ?_, rfl, rfl, rfl, hs1, hs2⟩
        simp only [readAsdf, hd, bind, Except.bind, hhas, Bool.not_true, Bool.false_eq_true, if_false, ht]


/-! non-vacuity: a two-particle PID column, a pack9 stream and an rvint column, each read with two different requests -/

def exPids : Raw := .pids [0x0001000200030004#64, 0x0003000000050006#64]
def exHdr : HdrVals := ⟨1000, 5/2, 64⟩

example : assembleV (.known .packedpid) exPids [.pid, .aux] exHdr id =
    .ok [(.aux, [.raw64 0x0001000200030004#64, .raw64 0x0003000000050006#64]),
         (.pid, [.bp (.int 0x000200030004), .bp (.int 0x000000050006)])] := by decide +kernel

example : (assembleV (.known .packedpid) exPids [.density, .pid, .lagr_pos] exHdr id).toOption.map
      (fun cols => cols.filter (fun c => c.1 == Col.pid)) =
    some [(.pid, [.bp (.int 0x000200030004), .bp (.int 0x000000050006)])] := by decide +kernel

example : (assembleV (.known .pack9) (.pack9 Pack9.exStream) [.vel] exHdr id).toOption.map
      (fun cols => cols.map (fun c => (c.1, c.2.length))) = some [(Col.vel, 3)] ∧
    (assembleV (.known .pack9) (.pack9 Pack9.exStream) [.pos, .vel] exHdr id).toOption.map
      (fun cols => cols.map (fun c => (c.1, c.2.length))) = some [(Col.pos, 3), (Col.vel, 3)] := by
  constructor <;> decide +kernel

example : Col.pid ∈ loadable (.known .packedpid) ∧ Col.vel ∈ loadable (.known .pack9) := by decide

/-- a file with one raw column, for the theorems about `readAsdfV` -/
def exFile : FileData :=
  { raw := fun c => if c = .known .packedpid then some exPids else none, hdr := exHdr, lightcone := true, summit := true }

example : (readAsdfV exFile id none (some [.aux, .pid]) none none).toOption.map (fun o => (o.cols.map Prod.fst, o.addsSubsample)) =
    some ([.aux, .pid], true) := by decide +kernel
example : (readAsdfV exFile id none none (some false) none).toOption.map (fun o => (o.cols.map Prod.fst, o.warn)) =
    some ([.vel], some .future) := by decide +kernel

end AbacusVerif.ReadAsdf
