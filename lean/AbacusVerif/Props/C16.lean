/-
  C16 — read_asdf returns exactly the requested particle columns.

  Property theorems about the model of `read_abacus.read_asdf` / `_resolve_columns` (Model/C16.lean), for every
  file (any presence pattern of the raw keys, any lengths), every `load` list (any order, duplicates, unknown
  names), every explicit `colname` and all deprecated flag values.  Vocabulary (`numPresent`, `loadable`,
  `supported`, `canonical`, `defaults`, `particles`) is in Lemmas/C16.lean.
-/
import AbacusVerif.Lemmas.C16

namespace AbacusVerif.ReadAsdf
open AbacusVerif

/-! ### detection of the raw column -/

/-- an explicitly named column is taken as is, whatever the file contains -/
theorem detect_explicit (present : RawKey → Bool) (c : ColName) : detect present (some c) = .ok c := rfl

/-- **detect_spec.**  Without an explicit name: no known key → the "could not find" error; two or more → the
"more than one" error; exactly one → that key. -/
theorem detect_spec (present : RawKey → Bool) :
    (numPresent present = 0 → detect present none = .error .noneFound) ∧
    (2 ≤ numPresent present → detect present none = .error .moreThanOne) ∧
    (numPresent present = 1 → ∀ k, present k = true → detect present none = .ok (.known k)) := by
  rw [present_eq present]
  generalize present .rvint = a
  generalize present .pack9 = b
  generalize present .packedpid = c
  generalize present .pid = d
  refine ⟨?_, ?_, ?_⟩
  · cases a <;> cases b <;> cases c <;> cases d <;> decide
  · cases a <;> cases b <;> cases c <;> cases d <;> decide
  · intro h k
    cases a <;> cases b <;> cases c <;> cases d <;> cases k <;> revert h <;> decide

/-- an error is raised by the detection iff no name was given and the number of known keys is not one -/
theorem detect_error_iff (present : RawKey → Bool) (colname : Option ColName) :
    (detect present colname).isOk = false ↔ (colname = none ∧ numPresent present ≠ 1) := by
  cases colname with
  | some c => simp [detect, Except.isOk, Except.toBool]
  | none =>
    rw [present_eq present]
    generalize present .rvint = a
    generalize present .pack9 = b
    generalize present .packedpid = c
    generalize present .pid = d
    cases a <;> cases b <;> cases c <;> cases d <;> decide

example : numPresent (presentOf true false true false) = 2 := by decide
example : numPresent (presentOf false false false false) = 0 := by decide
example : numPresent (presentOf false true false false) = 1 ∧ presentOf false true false false .pack9 = true := by decide

/-! ### which columns are requested -/

/-- an explicit `load` is returned unchanged whatever the deprecated flags say -/
theorem resolve_load_wins (cn : ColName) (l : List Col) (lp lv : Option Bool) :
    (resolve cn (some l) lp lv).1 = l := by
  cases lp <;> cases lv <;> rfl

/-- without `load` and without flags: positions and velocities for rvint/pack9, the PID for packedpid/pid -/
theorem resolve_defaults (k : RawKey) : resolve (.known k) none none none = (defaults k, none) := by
  cases k <;> rfl

/-- with deprecated flags and no `load`, whatever the raw column is: `pos` is requested iff `load_pos` is true, or is
not given while `load_vel` is false; symmetrically for `vel`; nothing else is requested -/
theorem resolve_flags (cn : ColName) (lp lv : Option Bool) (h : lp ≠ none ∨ lv ≠ none) :
    (Col.pos ∈ (resolve cn none lp lv).1 ↔ (lp = some true ∨ (lp = none ∧ lv = some false))) ∧
    (Col.vel ∈ (resolve cn none lp lv).1 ↔ (lv = some true ∨ (lv = none ∧ lp = some false))) ∧
    (∀ c ∈ (resolve cn none lp lv).1, c = .pos ∨ c = .vel) := by
  cases lp with
  | none =>
    cases lv with
    | none => simp at h
    | some b => cases b <;> simp [resolve]
  | some a =>
    cases lv with
    | none => cases a <;> simp [resolve]
    | some b => cases a <;> cases b <;> simp [resolve]

/-- **resolve_spec.**  The whole option space: the resolved request is `load` when given; else the flag table when a
flag is given; else the defaults of the raw column; and the warning says which of these happened. -/
theorem resolve_spec (cn : ColName) (load : Option (List Col)) (lp lv : Option Bool) :
    let r := resolve cn load lp lv
    (∀ l, load = some l → r.1 = l) ∧
    (load = none → lp = none → lv = none →
      r.1 = (if cn.isRV then [Col.pos, Col.vel] else []) ++ (if cn.hasPid then [Col.pid] else [])) ∧
    (load = none → (lp ≠ none ∨ lv ≠ none) →
      r.1 = (if lp = some true ∨ (lp = none ∧ lv = some false) then [Col.pos] else []) ++
            (if lv = some true ∨ (lv = none ∧ lp = some false) then [Col.vel] else [])) ∧
    (r.2 = none ↔ (lp = none ∧ lv = none)) ∧
    (r.2 = some .future ↔ ((lp ≠ none ∨ lv ≠ none) ∧ load = none)) ∧
    (r.2 = some .ignored ↔ ((lp ≠ none ∨ lv ≠ none) ∧ load ≠ none)) := by
  cases load <;> cases lp <;> cases lv <;>
    (try rename_i a; cases a) <;> (try rename_i b; cases b) <;>
    cases hr : cn.isRV <;> cases hp : cn.hasPid <;> simp [resolve, hr, hp]

/-- the table of the nine flag combinations, for each of the six kinds of raw column name (finite, by evaluation) -/
theorem resolve_table :
    ∀ cn ∈ [ColName.known .rvint, .known .pack9, .known .packedpid, .known .pid, .other true, .other false],
      [(resolve cn none (some true) none).1, (resolve cn none (some false) none).1,
       (resolve cn none none (some true)).1, (resolve cn none none (some false)).1,
       (resolve cn none (some true) (some true)).1, (resolve cn none (some true) (some false)).1,
       (resolve cn none (some false) (some true)).1, (resolve cn none (some false) (some false)).1] =
      [[Col.pos], [.vel], [.vel], [.pos], [.pos, .vel], [.pos], [.vel], []] := by
  decide

example : (resolve (.known .pid) none (some true) none) = ([.pos], some .future) := by decide


/-! ### the table: exactly the requested columns, one row per particle -/

/-- **columns_general.**  Whatever is requested (any order, duplicates, unknown names): the table's columns are, in the
fixed order pos, vel, aux, pid, lagr_pos, lagr_idx, tagged, density, exactly the requested names that the raw column
supports, each once. -/
theorem columns_general (cn : ColName) (load : List Col) (nmax npart : Nat) (t : Table)
    (h : assemble cn load nmax npart = .ok t) :
    t.cols = canonical.filter (fun c => decide (c ∈ load) && decide (c ∈ supported cn)) := by
  have hpid : cn.hasPid = true →
      pidOrder.filter (· ∈ load) =
        pidOrder.filter (fun c => decide (c ∈ load) && decide (c ∈ supported cn)) := by
    intro hp
    apply List.filter_congr
    intro c hc
    have : c ∈ supported cn := by
      simp only [supported, hp, if_true]
      simp only [pidOrder, List.mem_cons, List.not_mem_nil, or_false] at hc
      rcases hc with rfl | rfl | rfl | rfl | rfl <;> decide
    simp [this]
  have split : canonical = [Col.pos, Col.vel, Col.aux] ++ pidOrder := rfl
  by_cases hpos : Col.pos ∈ load <;> by_cases hvel : Col.vel ∈ load <;> by_cases haux : Col.aux ∈ load <;>
    (cases cn with
     | known k =>
       cases k <;>
         simp [assemble, hpos, hvel, haux, ColName.hasPid] at h <;>
         (try (subst h; rw [split, List.filter_append];
               first
               | (simp [hpos, hvel, haux, supported, ColName.hasPid, pidOrder]; done)
               | (rw [← hpid rfl]; simp [hpos, hvel, haux, supported, ColName.hasPid])))
     | other b =>
       cases b <;>
         simp [assemble, hpos, hvel, haux, ColName.hasPid] at h <;>
         (try (subst h; rw [split, List.filter_append, ← hpid rfl];
               simp [hpos, hvel, haux, supported, ColName.hasPid])))

/-- **columns_exact.**  For a request inside the loadable columns of the raw column the table has exactly the
requested columns: every requested name is a column, every column was requested, none appears twice. -/
theorem columns_exact (cn : ColName) (load : List Col) (nmax npart : Nat) (t : Table)
    (hsub : ∀ c ∈ load, c ∈ loadable cn)
    (h : assemble cn load nmax npart = .ok t) :
    (∀ c, c ∈ t.cols ↔ c ∈ load) ∧ t.cols.Nodup := by
  rw [columns_general cn load nmax npart t h]
  have hcan : canonical.Nodup := by decide
  refine ⟨?_, hcan.filter _⟩
  intro c
  simp only [List.mem_filter, Bool.and_eq_true, decide_eq_true_eq]
  constructor
  · intro hc; exact hc.2.1
  · intro hc
    have hl := hsub c hc
    have hsup : c ∈ supported cn := by
      unfold loadable at hl
      unfold supported
      cases hr : cn.isRV <;> cases hp : cn.hasPid <;> simp [hr, hp] at hl ⊢
      · rcases hl with rfl | rfl | rfl | rfl | rfl | rfl <;> simp
      · rcases hl with rfl | rfl <;> simp
      · rcases hl with rfl | rfl <;> simp
    have hcanon : c ∈ canonical := by
      unfold supported at hsup
      cases hp : cn.hasPid <;> simp [hp] at hsup <;> rcases hsup with rfl | rfl | rfl | rfl | rfl | rfl | rfl | rfl <;> decide
    exact ⟨hcanon, hc, hsup⟩

example : ∀ c ∈ [Col.density, Col.aux, Col.pid], c ∈ loadable (.known .packedpid) := by decide
example : assemble (.known .packedpid) [.density, .aux, .pid] 5 0 = .ok ⟨[.aux, .pid, .density], 5⟩ := by decide

/-- with `load=None` and no flags the table has the documented default columns of the detected raw column -/
theorem columns_default (k : RawKey) (nmax npart : Nat) :
    ∃ t, assemble (.known k) (resolve (.known k) none none none).1 nmax npart = .ok t ∧ t.cols = defaults k := by
  cases k <;> exact ⟨_, rfl, rfl⟩

/-- **rows_spec.**  For a non-empty request inside the loadable columns the table has one row per particle:
`len(data)` for rvint and PID columns, the number of non-header records for pack9. -/
theorem rows_spec (k : RawKey) (load : List Col) (nmax npart : Nat) (t : Table)
    (hsub : ∀ c ∈ load, c ∈ loadable (.known k)) (hne : load ≠ [])
    (h : assemble (.known k) load nmax npart = .ok t) :
    t.rows = (match k with | .pack9 => npart | _ => nmax) := by
  obtain ⟨hex, -⟩ := columns_exact (.known k) load nmax npart t hsub h
  have hcols : t.cols ≠ [] := by
    intro he
    cases load with
    | nil => exact hne rfl
    | cons c rest =>
      have := (hex c).mpr (List.mem_cons_self)
      rw [he] at this; cases this
  have hempty : t.cols.isEmpty = false := by
    cases hc : t.cols with
    | nil => exact absurd hc hcols
    | cons _ _ => rfl
  -- in an rvint/pack9 request at least one of pos, vel is present
  have hrv : (k = .rvint ∨ k = .pack9) → Col.pos ∈ load ∨ Col.vel ∈ load := by
    intro hk
    cases load with
    | nil => exact absurd rfl hne
    | cons c rest =>
      have hc := hsub c (List.mem_cons_self)
      rcases hk with rfl | rfl <;> simp [loadable, ColName.isRV] at hc <;> rcases hc with rfl | rfl <;> simp
  cases k with
  | rvint =>
    simp only [assemble] at h
    cases h
    simp only at hempty
    simp only [hempty]
    have := hrv (Or.inl rfl)
    by_cases hp : Col.pos ∈ load <;> by_cases hv : Col.vel ∈ load <;> simp [hp, hv] at this ⊢
  | pack9 =>
    simp only [assemble] at h
    cases h
    simp only at hempty
    simp only [hempty]
    have := hrv (Or.inr rfl)
    by_cases hp : Col.pos ∈ load <;> by_cases hv : Col.vel ∈ load <;> simp [hp, hv] at this ⊢
  | packedpid =>
    simp only [assemble, ColName.hasPid, if_true] at h
    cases h
    simp only at hempty
    simp only [hempty]
    simp
  | pid =>
    simp only [assemble, ColName.hasPid, if_true] at h
    cases h
    simp only at hempty
    simp only [hempty]
    simp

example : assemble (.known .pack9) [.vel] 20 13 = .ok ⟨[.vel], 13⟩ := by decide

/-- **read_spec.**  End to end: a file with exactly one known raw column `k`, no explicit `colname`, and a non-empty
`load` inside the loadable columns of `k` — for every value of the deprecated flags the call succeeds, reads column `k`,
returns exactly the requested columns with one row per particle, and adds `SubsampleFraction` to the metadata exactly
for AbacusSummit light cones. -/
theorem read_spec (f : FileDesc) (k : RawKey) (l : List Col) (lp lv : Option Bool)
    (h1 : numPresent f.present = 1) (hk : f.present k = true)
    (hsub : ∀ c ∈ l, c ∈ loadable (.known k)) (hne : l ≠ []) :
    ∃ o, readAsdf f none (some l) lp lv = .ok o ∧ o.colname = .known k ∧
      (∀ c, c ∈ o.table.cols ↔ c ∈ l) ∧ o.table.cols.Nodup ∧ o.table.rows = particles f k ∧
      o.addsSubsample = (f.lightcone && f.summit) ∧
      (o.warn = none ↔ (lp = none ∧ lv = none)) := by
  have hd := (detect_spec f.present).2.2 h1 k hk
  have hr := resolve_load_wins (.known k) l lp lv
  have hw := (resolve_spec (.known k) (some l) lp lv).2.2.2.1
  have hasm : ∃ t, assemble (.known k) l (f.len (.known k)) f.npart = .ok t := by
    cases k <;> exact ⟨_, rfl⟩
  obtain ⟨t, ht⟩ := hasm
  obtain ⟨hc1, hc2⟩ := columns_exact _ _ _ _ t hsub ht
  have hrows := rows_spec k l _ _ t hsub hne ht
  refine ⟨{ colname := .known k, table := t, warn := (resolve (.known k) (some l) lp lv).2,
            addsSubsample := f.lightcone && f.summit }, ?_, rfl, hc1, hc2, ?_, rfl, hw⟩
  · have hres : resolve (.known k) (some l) lp lv = (l, (resolve (.known k) (some l) lp lv).2) :=
      Prod.ext hr rfl
    simp only [readAsdf, hd, bind, Except.bind]
    rw [hres]
    simp [FileDesc.has, hk, ht]
  · rw [hrows]; cases k <;> rfl

end AbacusVerif.ReadAsdf
