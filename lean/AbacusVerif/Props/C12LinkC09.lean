/-
  C12 → C09: the tables that `staging` hands to `gen_gal_cat`.

  The HOD pipeline is `staging` (C12) → `gen_gal_cat` (C09 decision + inheritance, C10 threading).  C09's
  catalogue model `genGalCat cfg aC aS hosts parts` (Model/C09.lean) takes the halo table `hosts` and the
  particle table `parts` as given; each particle row carries `kc = pinds[j]`, the row of its host in `hosts`,
  which `gen_gals` uses for `keep_cent[pinds]` (numpy fancy indexing: `.oob` when out of range).  C12's model
  (Model/C12.lean) produces exactly those tables: named parallel per-halo arrays, re-sorted by halo id when the
  slab files are not in id order, per-particle arrays left in file order, and
  `pinds = searchsorted(hid, phid)`.

  This file composes the two:
  * `staged_pinds_in_range` — on any staging input in which every particle's recorded halo id occurs among
    the halo ids (`hostsPresent`, the file invariant of `prepare_sim`; needed: `hostsPresent_needed`), the staged
    `pinds` are valid rows and `hid[pinds[j]] = phid[j]`;
  * the adapter `hostsOfCols` / `partsOfCols` decodes the staged named parallel arrays *positionally* (row `i`
    of every array, the id being `hid[i]` — C12's reading of a row as "belongs to halo id `hid[i]`") into C09's
    `Host` / `Part` rows; `View` holds what C09 takes as given per row (value decoding, occupation widths);
  * `staged_tables_feed_c09` — `genGalCat` on the adapted tables does not fault, and the host row it reads
    through `pinds` for a particle is the staged image of an input halo record, unmodified, whose id is the id
    the particle's record names; every satellite carries that halo's id and (with the particle files' recorded
    host mass consistent, `massConsistent`) its mass — also when the slabs' id ranges are not monotone and the
    halo arrays were re-sorted while the particles stayed in file order.
-/
import AbacusVerif.Props.C12
import AbacusVerif.Props.C09

namespace AbacusVerif.StagingLink
open AbacusVerif AbacusVerif.Staging AbacusVerif.Hod
open AbacusVerif.Generated.StagingCols (Entry byFlags)

variable {Val : Type}

/-! ### (1) the staged host indices are valid rows -/

/-- the file invariant: every particle's recorded halo id occurs among the halo ids of the loaded slabs -/
def hostsPresent (hid phid : List Nat) : Bool := phid.all (fun h => hid.contains h)

/-- **staged_pinds_in_range.**  For every flag subset, any number of slabs, any slab contents and any order of
the ids: if every particle's recorded halo id occurs among the halo ids, the halo side of `staging` succeeds
with the arrays of a permutation `recs'` of the input records, `pinds` has one entry per particle, every
`pinds[j]` is a row of the staged halo table, and the id at that row is the id the particle records. -/
theorem staged_pinds_in_range (e : Entry) (he : e ∈ byFlags) (slabs : List (List (HaloRec Val)))
    (phid : List Nat) (hinv : hostsPresent ((slabs.flatten).map (·.id)) phid = true) :
    ∃ recs', stageHalos e.permuted (haloNames e) (slabs.map (toCols (haloNames e)))
        = .ok (toCols (haloNames e) recs') ∧
      recs'.Perm slabs.flatten ∧
      (pinds (recs'.map (·.id)) phid).length = phid.length ∧
      ∀ (j host : Nat), phid[j]? = some host →
        ∃ i : Nat, (pinds (recs'.map (·.id)) phid)[j]? = some i ∧ i < recs'.length ∧
          (recs'.map (·.id))[i]? = some host := by
  obtain ⟨recs', h1, h2, _, h4⟩ := staging_rows_aligned e he slabs
  refine ⟨recs', h1, h2, by simp [pinds], ?_⟩
  intro j host hj
  have hmem : host ∈ phid := List.mem_of_getElem? hj
  have hin0 : host ∈ (slabs.flatten).map (·.id) := by
    have := List.all_eq_true.mp hinv host hmem
    simpa using this
  have hin : host ∈ recs'.map (·.id) := ((h2.map (·.id)).mem_iff).mpr hin0
  obtain ⟨_, i, hi, hh⟩ := pinds_points_to_host (recs'.map (·.id)) phid h4 j host hj hin
  refine ⟨i, hi, ?_, hh⟩
  have := (List.getElem?_eq_some_iff.mp hh).1
  simpa using this

/-- The invariant is needed: a particle whose recorded halo id is larger than every halo id gets
`pinds = len(hid)`, one past the last row; one whose id falls between two halo ids points to another halo. -/
theorem hostsPresent_needed :
    hostsPresent [2, 7, 9] [10] = false ∧ pinds [2, 7, 9] [10] = [3] ∧
    hostsPresent [2, 7, 9] [5] = false ∧ pinds [2, 7, 9] [5] = [1] ∧ ([2, 7, 9] : List Nat)[1]? = some 7 := by
  decide

/-! ### (2) the adapter: staged named parallel arrays → C09's `hosts` / `parts` -/

/-- `mapM` in `Option`, written out -/
def mapO {α β : Type} (f : α → Option β) : List α → Option (List β)
  | [] => some []
  | a :: as =>
    match f a with
    | none => none
    | some b =>
      match mapO f as with
      | none => none
      | some bs => some (b :: bs)

theorem mapO_map_some {ι α β : Type} (f : α → Option β) (a : ι → α) (b : ι → β) (l : List ι)
    (h : ∀ x ∈ l, f (a x) = some (b x)) : mapO f (l.map a) = some (l.map b) := by
  induction l with
  | nil => rfl
  | cons x xs ih =>
    have hx := h x (by simp)
    have ih' := ih (fun y hy => h y (by simp [hy]))
    simp [mapO, hx, ih']

/-- first element of a named column -/
def headOf (c : String × List Val) : Option (String × Val) :=
  match c.2 with
  | v :: _ => some (c.1, v)
  | [] => none

/-- row 0 of the named arrays / the arrays without row 0 -/
def heads (cols : NamedCols Val) : Option (List (String × Val)) := mapO headOf cols
def tails (cols : NamedCols Val) : NamedCols Val := cols.map (fun c => (c.1, c.2.tail))

/-- the rows of named parallel arrays, read positionally: row `i` is `ids[i]` with element `i` of every array
(`none` when an array is shorter than the id array) -/
def rowsOf : List Nat → NamedCols Val → Option (List (Nat × List (String × Val)))
  | [], _ => some []
  | id :: ids, cols =>
    match heads cols with
    | none => none
    | some h =>
      match rowsOf ids (tails cols) with
      | none => none
      | some rest => some ((id, h) :: rest)

/-- what C09 takes as given about a row: how a stored value reads as a number / a 3-vector, and the
per-row quantities `gen_gal_cat` computes before the decision (occupation widths from the HOD parameters and the
row's mass / concentration / environment, the line-of-sight normalisation) -/
structure View (Val : Type) where
  rat : Val → Rat
  v3 : Val → V3
  hostWidths : Nat → List (String × Val) → Widths
  hostInvn : Nat → List (String × Val) → Rat
  /-- `(wL, wE0, wE1, wE2, wQ)` of a particle row -/
  partWidths : Nat → List (String × Val) → Rat × Rat × Rat × Rat × Rat
  partInvn : Nat → List (String × Val) → Rat

/-- one staged halo row as C09's `Host`: the id is the row's `hid`, mass / position / velocity / velocity
deviates / random number are the row's `hmass`, `hpos`, `hvel`, `hveldev`, `hrandoms` -/
def hostOfRow (view : View Val) (row : Nat × List (String × Val)) : Option Host :=
  match row.2.lookup "hmass", row.2.lookup "hpos", row.2.lookup "hvel", row.2.lookup "hveldev",
        row.2.lookup "hrandoms" with
  | some m, some p, some v, some d, some r =>
    some { id := (row.1 : Int), mass := view.rat m, pos := view.v3 p, vel := view.v3 v, vdev := view.v3 d,
           r := view.rat r, w := view.hostWidths row.1 row.2, invn := view.hostInvn row.1 row.2 }
  | _, _, _, _, _ => none

/-- one staged particle row, with its `pinds` entry, as C09's `Part`: `hid`/`hmass` are the row's `phid`
(the id column) and `phmass`, `kc` is `pinds[j]` -/
def partOfRow (view : View Val) (rk : (Nat × List (String × Val)) × Nat) : Option Part :=
  match rk.1.2.lookup "phmass", rk.1.2.lookup "ppos", rk.1.2.lookup "pvel", rk.1.2.lookup "phvel",
        rk.1.2.lookup "prandoms" with
  | some m, some p, some v, some hv, some r =>
    let w := view.partWidths rk.1.1 rk.1.2
    some { hid := (rk.1.1 : Int), hmass := view.rat m, ppos := view.v3 p, pvel := view.v3 v, hvel := view.v3 hv,
           r := view.rat r, wL := w.1, wE0 := w.2.1, wE1 := w.2.2.1, wE2 := w.2.2.2.1, wQ := w.2.2.2.2,
           invn := view.partInvn rk.1.1 rk.1.2, kc := (rk.2 : Int) }
  | _, _, _, _, _ => none

/-- the staged halo arrays as C09's `hosts` -/
def hostsOfCols (view : View Val) (t : HaloCols Val) : Option (List Host) :=
  match rowsOf t.hid t.cols with
  | none => none
  | some rows => mapO (hostOfRow view) rows

/-- the staged particle arrays (id column = `phid`) and `pinds` as C09's `parts` -/
def partsOfCols (view : View Val) (pt : HaloCols Val) (pinds : List Nat) : Option (List Part) :=
  if pinds.length = pt.hid.length then
    match rowsOf pt.hid pt.cols with
    | none => none
    | some rows => mapO (partOfRow view) (rows.zip pinds)
  else none

/-- the arrays the adapter reads -/
def neededHalo : List String := ["hmass", "hpos", "hvel", "hveldev", "hrandoms"]
def neededPart : List String := ["phmass", "ppos", "pvel", "phvel", "prandoms"]

/-- the per-particle arrays `staging` returns with a source under a flag subset (the id array apart) -/
def partNames (e : Entry) : List String := (e.partSources.map (·.1)).filter (· ≠ "phid")

/-- Under every flag subset `staging` returns the arrays the adapter reads. -/
theorem needed_cols_returned :
    ∀ e ∈ byFlags, (∀ n ∈ neededHalo, n ∈ haloNames e) ∧ (∀ n ∈ neededPart, n ∈ partNames e) := by
  decide +kernel

/-! #### the adapter on the arrays of a list of records -/

/-- a record as a positional row of the arrays `names` -/
def namedRow (names : List String) (r : HaloRec Val) : Nat × List (String × Val) :=
  (r.id, names.map (fun n => (n, r.attr n)))

/-- the `Host` of a halo record -/
def recHost (view : View Val) (names : List String) (r : HaloRec Val) : Host :=
  { id := (r.id : Int), mass := view.rat (r.attr "hmass"), pos := view.v3 (r.attr "hpos"),
    vel := view.v3 (r.attr "hvel"), vdev := view.v3 (r.attr "hveldev"), r := view.rat (r.attr "hrandoms"),
    w := view.hostWidths r.id (namedRow names r).2, invn := view.hostInvn r.id (namedRow names r).2 }

/-- the `Part` of a particle record (`id` = the halo id it records) with host row `k` -/
def recPart (view : View Val) (names : List String) (q : HaloRec Val) (k : Nat) : Part :=
  let w := view.partWidths q.id (namedRow names q).2
  { hid := (q.id : Int), hmass := view.rat (q.attr "phmass"), ppos := view.v3 (q.attr "ppos"),
    pvel := view.v3 (q.attr "pvel"), hvel := view.v3 (q.attr "phvel"), r := view.rat (q.attr "prandoms"),
    wL := w.1, wE0 := w.2.1, wE1 := w.2.2.1, wE2 := w.2.2.2.1, wQ := w.2.2.2.2,
    invn := view.partInvn q.id (namedRow names q).2, kc := (k : Int) }

theorem rowsOf_toCols (names : List String) (recs : List (HaloRec Val)) :
    rowsOf (toCols names recs).hid (toCols names recs).cols = some (recs.map (namedRow names)) := by
  simp only [toCols]
  induction recs with
  | nil => rfl
  | cons r rs ih =>
    have hh : heads (names.map (fun n => (n, (r :: rs).map (·.attr n)))) = some (names.map (fun n => (n, r.attr n))) := by
      unfold heads
      apply mapO_map_some
      intro n _; rfl
    have ht : tails (names.map (fun n => (n, (r :: rs).map (·.attr n)))) = names.map (fun n => (n, rs.map (·.attr n))) := by
      simp [tails, List.map_map, Function.comp_def]
    simp only [List.map_cons, rowsOf]
    rw [show (names.map (fun n => (n, r.attr n :: rs.map (·.attr n)))) =
      names.map (fun n => (n, (r :: rs).map (·.attr n))) from rfl, hh, ht, ih]
    rfl

theorem hostOfRow_namedRow (view : View Val) (names : List String) (r : HaloRec Val)
    (hn : ∀ n ∈ neededHalo, n ∈ names) :
    hostOfRow view (namedRow names r) = some (recHost view names r) := by
  unfold hostOfRow
  simp only [namedRow]
  rw [lookup_names names (fun m => r.attr m) "hmass" (hn _ (by simp [neededHalo])),
    lookup_names names (fun m => r.attr m) "hpos" (hn _ (by simp [neededHalo])),
    lookup_names names (fun m => r.attr m) "hvel" (hn _ (by simp [neededHalo])),
    lookup_names names (fun m => r.attr m) "hveldev" (hn _ (by simp [neededHalo])),
    lookup_names names (fun m => r.attr m) "hrandoms" (hn _ (by simp [neededHalo]))]
  rfl

theorem partOfRow_namedRow (view : View Val) (names : List String) (q : HaloRec Val) (k : Nat)
    (hn : ∀ n ∈ neededPart, n ∈ names) :
    partOfRow view (namedRow names q, k) = some (recPart view names q k) := by
  unfold partOfRow
  simp only [namedRow]
  rw [lookup_names names (fun m => q.attr m) "phmass" (hn _ (by simp [neededPart])),
    lookup_names names (fun m => q.attr m) "ppos" (hn _ (by simp [neededPart])),
    lookup_names names (fun m => q.attr m) "pvel" (hn _ (by simp [neededPart])),
    lookup_names names (fun m => q.attr m) "phvel" (hn _ (by simp [neededPart])),
    lookup_names names (fun m => q.attr m) "prandoms" (hn _ (by simp [neededPart]))]
  rfl

/-- on the arrays of a list of records the adapter is the record-wise image -/
theorem hostsOfCols_toCols (view : View Val) (names : List String) (recs : List (HaloRec Val))
    (hn : ∀ n ∈ neededHalo, n ∈ names) :
    hostsOfCols view (toCols names recs) = some (recs.map (recHost view names)) := by
  unfold hostsOfCols
  rw [rowsOf_toCols]
  exact mapO_map_some _ _ _ _ (fun r _ => hostOfRow_namedRow view names r hn)

theorem partsOfCols_toCols (view : View Val) (names : List String) (qs : List (HaloRec Val)) (ks : List Nat)
    (hk : ks.length = qs.length) (hn : ∀ n ∈ neededPart, n ∈ names) :
    partsOfCols view (toCols names qs) ks =
      some ((qs.zip ks).map (fun qk => recPart view names qk.1 qk.2)) := by
  unfold partsOfCols
  have hl : ks.length = (toCols names qs).hid.length := by simp [toCols, hk]
  rw [if_pos hl, rowsOf_toCols]
  have hz : (qs.map (namedRow names)).zip ks = (qs.zip ks).map (fun qk => (namedRow names qk.1, qk.2)) := by
    rw [List.zip_map_left]
    rfl
  show mapO (partOfRow view) ((qs.map (namedRow names)).zip ks) = _
  rw [hz]
  exact mapO_map_some _ _ _ _ (fun qk _ => partOfRow_namedRow view names qk.1 qk.2 hn)

/-! #### no fault, and the host read through `pinds` is the particle's host -/

theorem gatherOne_ok (keep : List Nat) (i : Nat) (h : i < keep.length) :
    gatherOne keep (i : Int) = .ok ((keep[i] : Nat) : Int) := by
  unfold gatherOne
  rw [pyIndex_nonneg h]
  simp [List.getElem?_eq_getElem h]

/-- `keep_cent[pinds]` does not fault when every index is a row -/
theorem gatherKeep_ok (keep : List Nat) (ks : List Nat) (h : ∀ k ∈ ks, k < keep.length) :
    ∃ kcs, gatherKeep keep (ks.map (fun (k : Nat) => (k : Int))) = .ok kcs := by
  induction ks with
  | nil => exact ⟨[], rfl⟩
  | cons k ks ih =>
    obtain ⟨kcs, hk⟩ := ih (fun x hx => h x (by simp [hx]))
    refine ⟨((keep[k]'(h k (by simp)) : Nat) : Int) :: kcs, ?_⟩
    rw [List.map_cons, gatherKeep_cons, gatherOne_ok keep k (h k (by simp)), hk]

/-- the particle files record their host's mass: every halo with the id a particle records has the mass the
particle records (and there is one) -/
def massConsistent [DecidableEq Val] (hs qs : List (HaloRec Val)) : Bool :=
  qs.all (fun q => hs.any (fun h => h.id == q.id) &&
    hs.all (fun h => h.id != q.id || decide (h.attr "hmass" = q.attr "phmass")))

/-- **staged_tables_feed_c09.**  Under every flag subset, for any halo slabs `hslabs` and particle slabs `pslabs`
(records; a particle record's `id` is the halo id it records) in which every recorded halo id occurs among the
halo ids: `staging`'s halo side and particle side succeed, the adapter turns the staged arrays and
`pinds = searchsorted(hid, phid)` into C09 tables, `genGalCat` on them returns a catalogue (no `.oob` fault, for
any configuration and velocity-bias parameters), and for every tracer every satellite it returns sits on a
particle row `p` such that the host row `hosts[p.kc]` that `gen_gals` reads through `pinds` exists, is the
adapter's image of one of the *input* halo records (unmodified, whatever the order of the ids in the files), has
the id the particle records — which is the satellite's id — and, when the recorded host masses are consistent,
the satellite's mass. -/
theorem staged_tables_feed_c09 [DecidableEq Val] (e : Entry) (he : e ∈ byFlags) (view : View Val)
    (hslabs pslabs : List (List (HaloRec Val)))
    (hinv : hostsPresent ((hslabs.flatten).map (·.id)) ((pslabs.flatten).map (·.id)) = true)
    (cfg : Cfg) (aC aS : Tri Rat) :
    ∃ (t pt : HaloCols Val) (hosts : List Host) (parts : List Part) (o : CatOut),
      stageHalos e.permuted (haloNames e) (hslabs.map (toCols (haloNames e))) = .ok t ∧
      concatCols (partNames e) (pslabs.map (toCols (partNames e))) = .ok pt ∧
      hostsOfCols view t = some hosts ∧
      partsOfCols view pt (pinds t.hid pt.hid) = some parts ∧
      hosts.length = (hslabs.flatten).length ∧ parts.length = (pslabs.flatten).length ∧
      genGalCat cfg aC aS hosts parts = .ok o ∧
      ∀ T tr, o.cat T = some tr → ∀ g ∈ tr.gals.drop tr.ncent,
        ∃ p ∈ parts, ∃ (k : Nat) (h : Host) (r : HaloRec Val),
          p.kc = (k : Int) ∧ hosts[k]? = some h ∧ r ∈ hslabs.flatten ∧ h = recHost view (haloNames e) r ∧
          h.id = p.hid ∧ g.id = h.id ∧
          (massConsistent hslabs.flatten pslabs.flatten = true → g.mass = h.mass) := by
  obtain ⟨hnH, hnP⟩ := needed_cols_returned e he
  obtain ⟨recs', hst, hperm, hlen, hpt⟩ := staged_pinds_in_range e he hslabs _ hinv
  let qs := pslabs.flatten
  let ks := pinds (recs'.map (·.id)) (qs.map (·.id))
  have hks : ks.length = qs.length := by simp [ks, pinds]
  have hkeep : (genCent cfg aC (recs'.map (recHost view (haloNames e)))).keep.length = recs'.length := by
    simp [genCent]
  have hkr : ∀ k ∈ ks, k < (genCent cfg aC (recs'.map (recHost view (haloNames e)))).keep.length := by
    intro k hk
    obtain ⟨j, hj, hjk⟩ := List.getElem_of_mem hk
    have hjq : j < (qs.map (·.id)).length := by simpa [hks] using hj
    obtain ⟨i, hi, hil, _⟩ := hpt j _ (List.getElem?_eq_getElem hjq)
    rw [List.getElem?_eq_getElem hj, hjk] at hi
    cases hi
    rw [hkeep]; exact hil
  let parts := (qs.zip ks).map (fun qk => recPart view (partNames e) qk.1 qk.2)
  have hkc : parts.map (·.kc) = ks.map (fun (k : Nat) => (k : Int)) := by
    simp only [parts, List.map_map]
    have : ((fun p : Part => p.kc) ∘ fun qk : HaloRec Val × Nat => recPart view (partNames e) qk.1 qk.2) =
        (fun k : Nat => (k : Int)) ∘ Prod.snd := by
      funext qk; rfl
    rw [this, ← List.map_map, List.map_snd_zip]
    omega
  obtain ⟨kcs, hg⟩ := gatherKeep_ok _ ks hkr
  have hgen : ∃ o, genGalCat cfg aC aS (recs'.map (recHost view (haloNames e))) parts = .ok o := by
    unfold genGalCat
    simp only [bind, Except.bind, pure, Except.pure, hkc, hg]
    exact ⟨_, rfl⟩
  obtain ⟨o, ho⟩ := hgen
  refine ⟨toCols (haloNames e) recs', toCols (partNames e) qs, recs'.map (recHost view (haloNames e)), parts, o,
    hst, concatCols_toCols _ _, hostsOfCols_toCols view _ _ hnH, ?_, ?_, ?_, ho, ?_⟩
  · exact partsOfCols_toCols view _ qs ks hks hnP
  · simp [hperm.length_eq]
  · show ((qs.zip ks).map _).length = qs.length
    rw [List.length_map, List.length_zip, hks]
    exact Nat.min_self _
  · intro T tr hT g hgm
    have hen : cfg.en.get T = true := by
      unfold genGalCat at ho
      simp only [bind, Except.bind, pure, Except.pure, hkc, hg] at ho
      cases ho
      by_cases hb : cfg.en.get T = true
      · exact hb
      · simp [hb] at hT
    obtain ⟨t', kcs', ht', _, _, _, _, _, _, hdrop, _, _⟩ :=
      order_and_ncent cfg aC aS _ parts o T hen ho
    rw [hT] at ht'
    cases ht'
    rw [hdrop] at hgm
    obtain ⟨pk, hpk, _, hgpk⟩ := (inherits_host_catalogue cfg aC aS
      (recs'.map (recHost view (haloNames e))) (parts.zip kcs') T).2 g hgm
    have hp : pk.1 ∈ parts := (List.of_mem_zip hpk).1
    obtain ⟨qk, hqk, hpq⟩ := List.mem_map.mp hp
    -- the particle record `qk.1` at file position `j`, with `qk.2 = pinds[j]`
    obtain ⟨j, hj, hjq⟩ := List.getElem_of_mem hqk
    have hjl : j < qs.length := by
      have : j < (qs.zip ks).length := hj
      simp at this; omega
    have hjk : j < ks.length := by omega
    have hq1 : qk.1 = qs[j] := by rw [← hjq]; simp
    have hq2 : qk.2 = ks[j] := by rw [← hjq]; simp
    have hqid : (qs.map (·.id))[j]? = some qs[j].id := by
      rw [List.getElem?_map, List.getElem?_eq_getElem hjl]; rfl
    obtain ⟨i, hi, hil, hid⟩ := hpt j qs[j].id hqid
    rw [List.getElem?_eq_getElem hjk] at hi
    have hki : ks[j] = i := by cases hi; rfl
    have hrec : recs'[i]? = some recs'[i] := List.getElem?_eq_getElem hil
    have hidr : recs'[i].id = qs[j].id := by
      rw [List.getElem?_map, hrec] at hid
      simpa using hid
    have hrin : recs'[i] ∈ hslabs.flatten := hperm.mem_iff.mp (List.getElem_mem hil)
    refine ⟨pk.1, hp, i, recHost view (haloNames e) recs'[i], recs'[i], ?_, ?_, hrin, rfl, ?_, ?_, ?_⟩
    · rw [← hpq]; show ((qk.2 : Nat) : Int) = (i : Int); rw [hq2, hki]
    · rw [List.getElem?_map, hrec]; rfl
    · rw [← hpq]; show ((recs'[i].id : Nat) : Int) = ((qk.1.id : Nat) : Int); rw [hidr, hq1]
    · rw [hgpk, ← hpq]; show ((qk.1.id : Nat) : Int) = ((recs'[i].id : Nat) : Int); rw [hidr, hq1]
    · intro hm
      rw [hgpk, ← hpq]
      show view.rat (qk.1.attr "phmass") = view.rat (recs'[i].attr "hmass")
      have hq : qs[j] ∈ qs := List.getElem_mem hjl
      have := List.all_eq_true.mp hm qs[j] hq
      simp only [Bool.and_eq_true, List.all_eq_true, Bool.or_eq_true, bne_iff_ne, ne_eq,
        decide_eq_true_eq] at this
      rcases this.2 recs'[i] hrin with h | h
      · exact absurd hidr h
      · rw [hq1, h]

/-! ### (3) non-vacuity: two slab files with DEcreasing ids, 3 halos, 4 particles, LRG + ELG

  slab 0 holds halos 7, 9 (random numbers 1/8 → LRG central, 3/8 → ELG central), slab 1 holds halo 2 (7/8 → no
  central): the concatenated ids 7, 9, 2 are not sorted, so the halo arrays are re-sorted to 2, 7, 9 while the
  particles (hosts 7, 9, 9 | 2) stay in file order and `pinds = [1, 2, 2, 0]`.  Halo `h` has mass `100 + h`.
  Particle widths `wL = 1/8`, `wE0 = wE1 = 1/16`, `wE2 = 1/4`: particle 0 (host 7, r = 1/16) → LRG satellite,
  particle 1 (host 9 — an ELG central, so the conformity width `wE2` applies — r = 5/16) → ELG satellite,
  particle 2 (r = 15/16) → dropped, particle 3 (host 2, r = 1/8) → LRG satellite. -/

section NonVacuity

abbrev V := Rat × Rat × Rat

def exView : View V :=
  { rat := (·.1), v3 := fun v => ⟨v.1, v.2.1, v.2.2⟩,
    hostWidths := fun _ _ => ⟨1/4, 1/4, 0⟩, hostInvn := fun _ _ => 0,
    partWidths := fun _ _ => (1/8, 1/16, 1/16, 1/4, 0), partInvn := fun _ _ => 0 }

def exHalo (id : Nat) (r : Rat) : HaloRec V :=
  { id := id
    attr := fun n => if n = "hmass" then (100 + id, 0, 0) else if n = "hrandoms" then (r, 0, 0)
                     else (id, id + 1, id + 2) }

def exPartRec (host serial : Nat) (r : Rat) : HaloRec V :=
  { id := host
    attr := fun n => if n = "phmass" then (100 + host, 0, 0) else if n = "prandoms" then (r, 0, 0)
                     else if n = "phvel" then (host, host + 1, host + 2) else (serial, serial + 1, serial + 2) }

def exHSlabs : List (List (HaloRec V)) := [[exHalo 7 (1/8), exHalo 9 (3/8)], [exHalo 2 (7/8)]]
def exPSlabs : List (List (HaloRec V)) :=
  [[exPartRec 7 0 (1/16), exPartRec 9 1 (5/16), exPartRec 9 2 (15/16)], [exPartRec 2 3 (1/8)]]

def exCfg : Cfg := ⟨⟨true, true, false⟩, false, none, 1/2, 100⟩

/-- `Ncent` and the (id, mass) column of a tracer -/
def idMass (o : CatOut) (T : Tracer) : Option (Nat × List (Int × Rat)) :=
  (o.cat T).map (fun tr => (tr.ncent, tr.gals.map (fun g => (g.id, g.mass))))

/-- the whole chain, run: staged ids, `pinds`, the adapted host ids, and the catalogue per tracer -/
def exRun : Option (List Nat × List Nat × List Int × Option (Nat × List (Int × Rat)) ×
    Option (Nat × List (Int × Rat)) × Option (Nat × List (Int × Rat))) := do
  let e ← AbacusVerif.Generated.StagingCols.entryOf []
  let t ← (stageHalos e.permuted (haloNames e) (exHSlabs.map (toCols (haloNames e)))).toOption
  let pt ← (concatCols (partNames e) (exPSlabs.map (toCols (partNames e)))).toOption
  let hosts ← hostsOfCols exView t
  let parts ← partsOfCols exView pt (pinds t.hid pt.hid)
  let o ← (genGalCat exCfg ⟨0, 0, 0⟩ ⟨1, 1, 1⟩ hosts parts).toOption
  pure (t.hid, pinds t.hid pt.hid, hosts.map (·.id), idMass o .LRG, idMass o .ELG, idMass o .QSO)

-- the hypotheses of the theorems hold on this input
example : ((exHSlabs.flatten).map (·.id)) = [7, 9, 2] ∧ sortedB ((exHSlabs.flatten).map (·.id)) = false ∧
    hostsPresent ((exHSlabs.flatten).map (·.id)) ((exPSlabs.flatten).map (·.id)) = true ∧
    massConsistent exHSlabs.flatten exPSlabs.flatten = true := by
  refine ⟨?_, ?_, ?_, ?_⟩ <;> decide +kernel
example : (AbacusVerif.Generated.StagingCols.entryOf []).isSome = true ∧
    ∀ e, AbacusVerif.Generated.StagingCols.entryOf [] = some e → e ∈ byFlags :=
  ⟨by decide +kernel, fun _ h => List.mem_of_find?_eq_some h⟩
-- and the chain runs: halos re-sorted to 2, 7, 9; particles in file order point to rows 1, 2, 2, 0; the LRG
-- catalogue is the central of halo 7 followed by the satellites on particles 0 and 3 with the ids and masses of
-- halos 7 and 2; the ELG catalogue is the central of halo 9 and the satellite on particle 1; QSO is disabled
example : exRun.map (fun x => (x.1, x.2.1, x.2.2.1)) = some ([2, 7, 9], [1, 2, 2, 0], [2, 7, 9]) := by
  decide +kernel
example : exRun.map (fun x => x.2.2.2.1) = some (some (1, [(7, 107), (7, 107), (2, 102)])) := by
  decide +kernel
example : exRun.map (fun x => x.2.2.2.2.1) = some (some (1, [(9, 109), (9, 109)])) := by
  decide +kernel
example : exRun.map (fun x => x.2.2.2.2.2) = some none := by
  decide +kernel

end NonVacuity

end AbacusVerif.StagingLink
