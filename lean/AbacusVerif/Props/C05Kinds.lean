/-
  C05 — the *specification* table: which physical kind every halo column has.

  Written from the property statement and the comments of the `HaloStat` struct (bottom of
  compaso_halo_catalog.py), NOT from the loaders: lengths are stored in unit-box units, velocities
  in unit-box velocity units, everything else is dimensionless or a count.  `sigman_*` is not classified
  by the statement; its stored value is a unit-box length (DESIGN.md §7 C05 R).
  A column that is not listed has no kind, so `units_table` stops checking when a column is added
  upstream until it is classified here.
-/
import AbacusVerif.Model.C05Expr

namespace AbacusVerif.Units

inductive Kind where
  | length | velocity | unchanged
  deriving Repr, DecidableEq

/-- degree in (`BoxSize`, `VelZSpace_to_kms`) -/
def Kind.deg : Kind → Int × Int
  | .length => (1, 0)
  | .velocity => (0, 1)
  | .unchanged => (0, 0)

def coms : List String := ["_com", "_L2com"]

def percentRadii : List String := ["r10", "r25", "r33", "r50", "r67", "r75", "r90", "r95", "r98"]

def lengthStems : List String := ["x", "r100"] ++ percentRadii ++ ["rvcirc_max", "sigmar", "sigman"]

def velocityStems : List String :=
  ["v", "sigmav3d", "meanSpeed", "sigmav3d_r50", "meanSpeed_r50", "vcirc_max",
   "sigmavMin", "sigmavMid", "sigmavMaj", "sigmavrad", "sigmavtan"]

def withComs (stems : List String) : List String := stems.flatMap (fun s => coms.map (fun c => s ++ c))

def lengthCols : List String :=
  withComs lengthStems ++
    ["SO_radius", "SO_central_particle", "SO_L2max_radius", "SO_L2max_central_particle"]

def velocityCols : List String := withComs velocityStems

def eigenvecCols : List String :=
  withComs (["sigmar", "sigmav", "sigman"].flatMap (fun s =>
    ["Min", "Mid", "Maj"].map (fun w => s ++ "_eigenvecs" ++ w)))

def unchangedCols : List String :=
  -- counts and indices
  ["id", "npstartA", "npstartB", "npoutA", "npoutB", "ntaggedA", "ntaggedB", "N", "L2_N", "L0_N",
  -- densities
   "SO_central_density", "SO_L2max_central_density"] ++
  -- unit eigenvectors
  eigenvecCols ++
  -- products of the cleaning pipeline (already in physical units)
  ["npstartA_merge", "npstartB_merge", "npoutA_merge", "npoutB_merge", "N_total", "N_merge",
   "haloindex", "is_merged_to", "N_mainprog", "vcirc_max_L2com_mainprog", "sigmav3d_L2com_mainprog",
   "haloindex_mainprog", "v_L2com_mainprog"] ++
  -- light-cone columns
  ["N_interp", "index_halo", "origin", "pos_avg", "pos_interp", "vel_avg", "vel_interp", "redshift_interp"]

def kind (n : String) : Option Kind :=
  if n ∈ lengthCols then some .length
  else if n ∈ velocityCols then some .velocity
  else if n ∈ unchangedCols then some .unchanged
  else none

/-- the spec degree of a loaded halo column -/
def specDeg (n : String) : Option (Int × Int) := (kind n).map Kind.deg

/-- compressed ratio columns: (column, its int16 raw column, the column it is relative to) —
"Expressed as ratios of r100, and scaled to 32000 to store as int16s", "Min(sigmav_eigenvalue) / sigmav3d, compressed" -/
def ratioCols : List (String × String × String) :=
  coms.flatMap (fun c =>
    ((percentRadii ++ ["rvcirc_max", "sigmar"]).map (fun s => (s ++ c, s ++ c ++ "_i16", "r100" ++ c))) ++
    [("sigmavMin" ++ c, "sigmavMin_to_sigmav3d" ++ c ++ "_i16", "sigmav3d" ++ c),
     ("sigmavMaj" ++ c, "sigmavMax_to_sigmav3d" ++ c ++ "_i16", "sigmav3d" ++ c),
     ("sigmavrad" ++ c, "sigmavrad_to_sigmav3d" ++ c ++ "_i16", "sigmav3d" ++ c),
     ("sigmavtan" ++ c, "sigmavtan_to_sigmav3d" ++ c ++ "_i16", "sigmav3d" ++ c)])

/-- compressed unit-box lengths that are not relative to another column: (column, its int16 raw column) —
"sqrt( Eigenvalues of the weighted moment of inertia tensor )", stored as int16 scaled to 32000 -/
def scaledLengthCols : List (String × String) :=
  coms.map (fun c => ("sigman" ++ c, "sigman" ++ c ++ "_i16"))

/-- the documented int16 scale -/
def int16Scale : Nat := 32000

end AbacusVerif.Units
