/-
  C13 — the power-spectrum estimate has the symmetries of the estimator.

  Property theorems about the exact-arithmetic estimator of `Lemmas/C13.lean` (deposit → normalise →
  3-D DFT → optional interlacing → optional compensation → |·|² or Re(conj · ) → binning) on the index
  set (ZMod n)³, for every mesh size `n ≥ 1`, every particle list, every whole-cell shift, every
  per-mode phase and real window, every binning and every assignment of rows to threads.

  *Partial* claim: ℂ-arithmetic is exact here; IEEE rounding and `scipy.fft.rfftn` are not modelled
  (the correspondence `harness/props/c13.py` checks that the real code computes this estimator on the
  explored inputs and has the symmetries to rounding).  The deposit enters through the hypotheses
  `IsDeposit` (additive, roll-equivariant), which are C06's theorems about the TSC/CIC model.
-/
import AbacusVerif.Lemmas.C13

namespace AbacusVerif.Power
open scoped BigOperators
open Complex

variable {n : ℕ} [NeZero n]

/-! ### the DFT -/

/-- **dft_shift.**  The DFT of a grid rolled by `s` cells is the DFT times the unit phase
`exp(−2πi (k·s)/n)` (`kern n j = exp(−2πi j/n)`). -/
theorem dft_shift (s : Idx n) (Φ : Grid n) (k : Idx n) :
    dft3 (roll s Φ) k = kern n (dot k s) * dft3 Φ k := by
  unfold dft3 roll
  rw [Finset.mul_sum]
  apply Fintype.sum_equiv (Equiv.subRight s)
  intro x
  simp only [Equiv.subRight_apply]
  have h : dot k x = dot k (x - s) + dot k s := by rw [← dot_add, sub_add_cancel]
  rw [h, kern_add]
  ring

example : dft3 (n := 2) (roll (1, 0, 0) (fun x => if x = 0 then 1 else 0)) (1, 0, 0) = -1 := by
  rw [dft_shift]
  have h1 : dft3 (n := 2) (fun x => if x = 0 then 1 else 0) (1, 0, 0) = 1 := by
    simp [dft3, dot_zero, kern_zero]
  have h2 : kern 2 (dot ((1, 0, 0) : Idx 2) (1, 0, 0)) = -1 := by
    have : dot ((1, 0, 0) : Idx 2) (1, 0, 0) = ((1 : ℤ) : ZMod 2) := by simp [dot]
    rw [this, kern_intCast]
    have : -(2 * (Real.pi : ℂ) * Complex.I * ((1 : ℤ) : ℂ) / ((2 : ℕ) : ℂ)) = -((Real.pi : ℂ) * Complex.I) := by
      push_cast; ring
    rw [this, Complex.exp_neg, Complex.exp_pi_mul_I]
    norm_num
  rw [h1, h2]; ring

/-- the kernel in integer representatives: `exp(−2πi (a x + b y + c z)/n)` — exp's periodicity makes the
reduction modulo `n` in `dot`/`kern` invisible -/
theorem dft_kernel_int (a b c x y z : ℤ) :
    kern n (dot ((a : ZMod n), (b : ZMod n), (c : ZMod n)) ((x : ZMod n), (y : ZMod n), (z : ZMod n))) =
      Complex.exp (-(2 * (Real.pi : ℂ) * Complex.I * ((a * x + b * y + c * z : ℤ) : ℂ) / (n : ℂ))) := by
  rw [← kern_intCast]
  congr 1
  simp only [dot]
  push_cast
  ring

example : kern 3 (dot (((2 : ℤ) : ZMod 3), ((1 : ℤ) : ZMod 3), ((0 : ℤ) : ZMod 3))
      (((2 : ℤ) : ZMod 3), ((2 : ℤ) : ZMod 3), ((1 : ℤ) : ZMod 3))) =
    Complex.exp (-(2 * (Real.pi : ℂ) * Complex.I * ((2 * 2 + 1 * 2 + 0 * 1 : ℤ) : ℂ) / ((3 : ℕ) : ℂ))) :=
  dft_kernel_int 2 1 0 2 2 1

/-- **dft_const.**  The DFT of a constant grid vanishes at every mode but `k = 0`; so the `− 1` of
`normalize_field` only touches the `k = 0` mode. -/
theorem dft_const (c : ℂ) (k : Idx n) (hk : k ≠ 0) : dft3 (fun _ => c) k = 0 := by
  unfold dft3
  rw [← Finset.mul_sum]
  let ψ : AddChar (Idx n) ℂ :=
    { toFun := fun x => kern n (dot k x)
      map_zero_eq_one' := by simp [dot_zero, kern_zero]
      map_add_eq_mul' := fun x y => by simp [dot_add, kern_add] }
  have hψ : ψ ≠ 1 := by
    intro h
    apply hk
    have h1 : ∀ x, kern n (dot k x) = 1 := fun x => by
      have := DFunLike.congr_fun h x
      simpa [ψ] using this
    have e1 := (kern_eq_one_iff _).1 (h1 (1, 0, 0))
    have e2 := (kern_eq_one_iff _).1 (h1 (0, 1, 0))
    have e3 := (kern_eq_one_iff _).1 (h1 (0, 0, 1))
    simp only [dot, mul_one, mul_zero, add_zero, zero_add] at e1 e2 e3
    ext
    · simpa using e1
    · simpa using e2
    · simpa using e3
  have hs : ∑ x : Idx n, kern n (dot k x) = 0 := AddChar.sum_eq_zero_of_ne_one hψ
  rw [hs, mul_zero]

/-- at `k = 0` the DFT of a constant is `n³` times it -/
theorem dft_const_zero (c : ℂ) : dft3 (n := n) (fun _ => c) 0 = (n : ℂ) ^ 3 * c := by
  have h : ∀ x : Idx n, dot (0 : Idx n) x = 0 := fun x => by simp [dot]
  simp only [dft3, h, kern_zero, mul_one, Finset.sum_const, Finset.card_univ, Fintype.card_prod,
    ZMod.card, nsmul_eq_mul]
  push_cast; ring

example : dft3 (n := 2) (fun _ => (3 : ℂ)) 0 = 24 := by
  rw [dft_const_zero]; norm_num

example : dft3 (n := 3) (fun _ => (5 : ℂ)) (0, 2, 0) = 0 :=
  dft_const 5 (0, 2, 0) (by decide)

/-! ### permutations -/

omit [NeZero n] in
/-- an additive deposit does not see the order of the particles (C06 `perm_invariant`) -/
theorem deposit_perm_invariant {Part : Type} {shift : Idx n → Part → Part} {D : List Part → Grid n}
    (hD : IsDeposit shift D) {P Q : List Part} (hp : P.Perm Q) : D P = D Q :=
  deposit_perm hD hp

example : ngp (n := 3) [((0, 1, 2), 1), ((2, 2, 0), 3)] = ngp (n := 3) [((2, 2, 0), 3), ((0, 1, 2), 1)] :=
  deposit_perm_invariant ngp_isDeposit (List.Perm.swap _ _ _)

/-- **power_perm_invariant.**  Permuting the particles (weights travel with their particle: a particle
is a `Part`) leaves the Fourier field, hence every `|δ_k|²` and every binned output, unchanged — with or
without interlacing, for every phase and window. -/
theorem power_perm_invariant {Part β γ ι : Type} [DecidableEq β] [DecidableEq γ]
    {shift : Idx n → Part → Part} {D D' : List Part → Grid n}
    (hD : IsDeposit shift D) (hD' : IsDeposit shift D') (interlaced : Bool) (phase : Idx n → ℂ)
    (W : Idx n → ℝ) (B : Binning n β γ ι) {P Q : List Part} (hp : P.Perm Q) :
    fourierField D D' interlaced phase W P = fourierField D D' interlaced phase W Q ∧
    binTable B (autoPower (fourierField D D' interlaced phase W P)) =
      binTable B (autoPower (fourierField D D' interlaced phase W Q)) := by
  have h : fourierField D D' interlaced phase W P = fourierField D D' interlaced phase W Q := by
    have hd : delta D P = delta D Q := by
      funext x; simp only [delta]; rw [deposit_perm hD hp, hp.length_eq]
    have hd' : delta D' P = delta D' Q := by
      funext x; simp only [delta]; rw [deposit_perm hD' hp, hp.length_eq]
    funext k
    simp only [fourierField, hd, hd']
  exact ⟨h, by rw [h]⟩

example :
    fourierField (n := 3) ngp ngp true (codedPhase 3) (fun _ => 1)
        [((0, 1, 2), 1), ((2, 2, 0), 3), ((1, 0, 0), 2)] =
      fourierField (n := 3) ngp ngp true (codedPhase 3) (fun _ => 1)
        [((1, 0, 0), 2), ((0, 1, 2), 1), ((2, 2, 0), 3)] :=
  (power_perm_invariant (β := Unit) (γ := Unit) (ι := Unit) ngp_isDeposit ngp_isDeposit true (codedPhase 3)
    (fun _ => 1) ⟨∅, fun _ => none, fun _ => none, fun _ => 1, fun _ => 0, fun _ _ => 0⟩
    (List.perm_append_comm (l₁ := [(((0 : ZMod 3), (1 : ZMod 3), (2 : ZMod 3)), (1 : ℂ)), ((2, 2, 0), 3)])
      (l₂ := [((1, 0, 0), 2)]))).1

/-! ### translations -/

/-- translating all particles by `s` whole cells multiplies the Fourier field, mode by mode, by the unit
phase `exp(−2πi (k·s)/n)` — interlaced or not (the half-cell-offset deposit `D'` is roll-equivariant
too), whatever the phase and the window -/
theorem fourierField_translate {Part : Type} {shift : Idx n → Part → Part} {D D' : List Part → Grid n}
    (hD : IsDeposit shift D) (hD' : IsDeposit shift D') (interlaced : Bool) (phase : Idx n → ℂ)
    (W : Idx n → ℝ) (s : Idx n) (P : List Part) (k : Idx n) :
    fourierField D D' interlaced phase W (P.map (shift s)) k =
      kern n (dot k s) * fourierField D D' interlaced phase W P k := by
  simp only [fourierField, roll_delta hD, roll_delta hD', dft_shift]
  cases interlaced
  · simp only [Bool.false_eq_true, if_false]; ring
  · simp only [if_true]; ring

example (k : Idx 2) :
    fourierField (n := 2) ngp ngp false (codedPhase 2) (fun _ => 1) ([((0, 0, 0), 1), ((1, 0, 1), 2)].map (ngpShift (1, 1, 0))) k =
      kern 2 (dot k (1, 1, 0)) * fourierField (n := 2) ngp ngp false (codedPhase 2) (fun _ => 1) [((0, 0, 0), 1), ((1, 0, 1), 2)] k :=
  fourierField_translate ngp_isDeposit ngp_isDeposit _ _ _ _ _ _

/-- **power_translation_invariant.**  Translating all particles by whole cells along any axes, wrapped
periodically, leaves every `|δ_k|²` unchanged, with and without interlacing and compensation. -/
theorem power_translation_invariant {Part : Type} {shift : Idx n → Part → Part} {D D' : List Part → Grid n}
    (hD : IsDeposit shift D) (hD' : IsDeposit shift D') (interlaced : Bool) (phase : Idx n → ℂ)
    (W : Idx n → ℝ) (s : Idx n) (P : List Part) :
    autoPower (fourierField D D' interlaced phase W (P.map (shift s))) =
      autoPower (fourierField D D' interlaced phase W P) := by
  funext k
  simp only [autoPower, fourierField_translate hD hD']
  exact normSq_unit_mul (kern_normSq _)

/-- the same for the cross power of two particle sets translated together -/
theorem cross_power_translation_invariant {Part : Type} {shift : Idx n → Part → Part}
    {D D' : List Part → Grid n} (hD : IsDeposit shift D) (hD' : IsDeposit shift D') (interlaced : Bool)
    (phase : Idx n → ℂ) (W : Idx n → ℝ) (s : Idx n) (P Q : List Part) :
    crossPower (fourierField D D' interlaced phase W (P.map (shift s)))
        (fourierField D D' interlaced phase W (Q.map (shift s))) =
      crossPower (fourierField D D' interlaced phase W P) (fourierField D D' interlaced phase W Q) := by
  funext k
  simp only [crossPower, fourierField_translate hD hD', map_mul]
  have h := kern_conj_mul (n := n) (dot k s)
  have : ∀ a b : ℂ, (starRingEnd ℂ) (kern n (dot k s)) * (starRingEnd ℂ) a * (kern n (dot k s) * b) =
      ((starRingEnd ℂ) (kern n (dot k s)) * kern n (dot k s)) * ((starRingEnd ℂ) a * b) := fun a b => by ring
  rw [this, h, one_mul]

example :
    crossPower (fourierField (n := 2) ngp ngp true (codedPhase 2) (fun _ => 1) ([((0, 0, 0), 1)].map (ngpShift (0, 1, 1))))
        (fourierField (n := 2) ngp ngp true (codedPhase 2) (fun _ => 1) ([((1, 0, 1), 2), ((1, 1, 1), 1)].map (ngpShift (0, 1, 1)))) =
      crossPower (fourierField (n := 2) ngp ngp true (codedPhase 2) (fun _ => 1) [((0, 0, 0), 1)])
        (fourierField (n := 2) ngp ngp true (codedPhase 2) (fun _ => 1) [((1, 0, 1), 2), ((1, 1, 1), 1)]) :=
  cross_power_translation_invariant ngp_isDeposit ngp_isDeposit _ _ _ _ _ _

/-- … hence every binned output (`power`, `poles`, and trivially `N_mode`, `k_avg`) is unchanged -/
theorem table_translation_invariant {Part β γ ι : Type} [DecidableEq β] [DecidableEq γ]
    {shift : Idx n → Part → Part} {D D' : List Part → Grid n}
    (hD : IsDeposit shift D) (hD' : IsDeposit shift D') (interlaced : Bool) (phase : Idx n → ℂ)
    (W : Idx n → ℝ) (B : Binning n β γ ι) (s : Idx n) (P : List Part) :
    binTable B (autoPower (fourierField D D' interlaced phase W (P.map (shift s)))) =
      binTable B (autoPower (fourierField D D' interlaced phase W P)) := by
  rw [power_translation_invariant hD hD']

/-- non-vacuity: on the 2³ mesh the nearest-grid-point deposit satisfies the hypotheses, the shift by
`(1, 0, 1)` genuinely moves the grid, and the interlaced, "compensated" power is unchanged -/
example :
    ngp (n := 2) ([((0, 0, 0), 1), ((1, 0, 1), 2)].map (ngpShift (1, 0, 1))) (0, 0, 0) = 2 ∧
    ngp (n := 2) [((0, 0, 0), 1), ((1, 0, 1), 2)] (0, 0, 0) = 1 ∧
    autoPower (fourierField (n := 2) ngp ngp true (codedPhase 2) (fun _ => 1 / 2)
        ([((0, 0, 0), 1), ((1, 0, 1), 2)].map (ngpShift (1, 0, 1)))) =
      autoPower (fourierField (n := 2) ngp ngp true (codedPhase 2) (fun _ => 1 / 2)
        [((0, 0, 0), 1), ((1, 0, 1), 2)]) := by
  refine ⟨?_, ?_, power_translation_invariant ngp_isDeposit ngp_isDeposit _ _ _ _ _⟩
  · have h11 : (1 : ZMod 2) + 1 = 0 := by decide
    simp [ngp, ngpShift, h11]
  · simp [ngp]

/-! ### cross equals auto -/

omit [NeZero n] in
/-- **cross_eq_auto.**  `Re(conj z · z) = |z|²`: the cross power of a field with itself is its auto power. -/
theorem cross_eq_auto (F : Idx n → ℂ) : crossPower F F = autoPower F := by
  funext k
  simp only [crossPower, autoPower, Complex.normSq_apply, Complex.mul_re, Complex.conj_re, Complex.conj_im]
  ring

omit [NeZero n] in
theorem cross_table_eq_auto {β γ ι : Type} [DecidableEq β] [DecidableEq γ] (B : Binning n β γ ι)
    (F : Idx n → ℂ) : binTable B (crossPower F F) = binTable B (autoPower F) := by
  rw [cross_eq_auto]

example :
    binTable (⟨Finset.univ, fun k => some k.1, fun _ => some (), fun _ => 2, fun _ => 1, fun _ _ => 1⟩ :
        Binning 2 (ZMod 2) Unit Unit) (crossPower (fun k => if k.1 = 0 then ⟨3, 4⟩ else ⟨0, 1⟩) (fun k => if k.1 = 0 then ⟨3, 4⟩ else ⟨0, 1⟩)) =
      binTable ⟨Finset.univ, fun k => some k.1, fun _ => some (), fun _ => 2, fun _ => 1, fun _ _ => 1⟩
        (autoPower (fun k => if k.1 = 0 then ⟨3, 4⟩ else ⟨0, 1⟩)) :=
  cross_table_eq_auto _ _

example : crossPower (n := 2) (fun _ => ⟨3, 4⟩) (fun _ => ⟨3, 4⟩) (1, 0, 1) = 25 := by
  rw [cross_eq_auto]
  simp [autoPower, Complex.normSq_apply]
  norm_num

/-! ### what does not depend on the particles -/

omit [NeZero n] in
/-- **nmode_particle_free.**  `N_mode`, `N_mode_poles` and `k_avg` (and the bin index types, i.e. the
table shape) are functions of the binning — mesh size and edges — only: whatever two raw powers (two
particle sets, auto or cross) are binned, these columns coincide. -/
theorem nmode_particle_free {β γ ι : Type} [DecidableEq β] [DecidableEq γ] (B : Binning n β γ ι)
    (p q : Idx n → ℝ) :
    (binTable B p).N_mode = (binTable B q).N_mode ∧
    (binTable B p).N_mode_poles = (binTable B q).N_mode_poles ∧
    (binTable B p).k_avg = (binTable B q).k_avg ∧
    (binTable B p).N_mode = B.counts :=
  ⟨rfl, rfl, rfl, rfl⟩

/-- two different raw powers on the 2³ mesh, one bin per `kx`: the same `N_mode = 4·2` -/
example :
    let B : Binning 2 (ZMod 2) Unit Unit :=
      ⟨Finset.univ, fun k => some k.1, fun _ => some (), fun _ => 2, fun _ => 1, fun _ _ => 1⟩
    (binTable B (fun _ => 1)).N_mode = (binTable B (fun k => if k.2.2 = 0 then 7 else 0)).N_mode ∧
      (binTable B (fun _ => 1)).N_mode 1 = 8 := by
  intro B
  refine ⟨(nmode_particle_free B _ _).1, ?_⟩
  show B.counts 1 = 8
  decide

/-! ### threads -/

omit [NeZero n] in
/-- **thread_independent.**  However the rows `i` of the mesh are handed out to threads (`assign`), the
per-thread partial sums and partial counts of a bin add up to the sequential ones. -/
theorem thread_independent {β γ ι T : Type} [DecidableEq β] [DecidableEq γ] [Fintype T] [DecidableEq T]
    (B : Binning n β γ ι) (assign : ZMod n → T) (f : Idx n → ℝ) (b : β) :
    ∑ t, B.partialSum assign f t b = B.wsum f b ∧ ∑ t, B.partialCount assign t b = B.counts b := by
  have hf : ∀ t, B.modes.filter (fun k => assign k.1 = t ∧ B.cls k = some b) =
      (B.modes.filter (fun k => B.cls k = some b)).filter (fun k => assign k.1 = t) := by
    intro t
    rw [Finset.filter_filter]
    apply Finset.filter_congr
    intro k _
    exact and_comm
  constructor
  · simp only [Binning.partialSum, Binning.wsum, hf]
    exact Finset.sum_fiberwise _ (fun k : Idx n => assign k.1) _
  · simp only [Binning.partialCount, Binning.counts, hf]
    exact Finset.sum_fiberwise _ (fun k : Idx n => assign k.1) _

/-- a concrete binning of the 2³ mesh (half-plane `kz ∈ {0, 1}`, one bin holding the modes with
`kx = 1`), two threads, rows dealt out by parity -/
example :
    let B : Binning 2 Unit Unit Unit :=
      ⟨Finset.univ, fun k => if k.1 = 1 then some () else none, fun _ => some (), fun _ => 1,
        fun _ => 1, fun _ _ => 1⟩
    ∑ t : Fin 2, B.partialCount (fun i => (⟨i.val, i.val_lt⟩ : Fin 2)) t () = B.counts () ∧ B.counts () = 4 := by
  intro B
  refine ⟨(thread_independent B _ (fun _ => 0) ()).2, ?_⟩
  decide


/-! ### the coded window, and `calc_power` end to end -/

/-- the window `get_W_compensated` builds is strictly positive at every mode (TSC and CIC, interlaced or
not, every mesh): the compensation never divides by zero -/
theorem codedW_pos (paste : Paste) (interlaced : Bool) (k : Idx n) :
    0 < codedW n paste interlaced k :=
  mul_pos (mul_pos (codedW1_pos _ _ _) (codedW1_pos _ _ _)) (codedW1_pos _ _ _)

example : 0 < codedW 5 .tsc true (2, 3, 0) := codedW_pos _ _ _

/-- **calc_power_symmetries.**  The modelled `calc_power` (coded phase, coded window; `none` = the
`ZeroDivisionError` of an empty particle set) with a TSC/CIC-like deposit: (1) translating all particles —
of both fields, for a cross power — by whole cells leaves the outcome unchanged; (2) so does permuting the
particles of either field; (3) passing the same particles as the second field gives the auto outcome;
(4) `N_mode`, `N_mode_poles`, `k_avg` are the same for any two accepted inputs. -/
theorem calc_power_symmetries {Part β γ ι : Type} [DecidableEq β] [DecidableEq γ]
    {shift : Idx n → Part → Part} {D D' : List Part → Grid n}
    (hD : IsDeposit shift D) (hD' : IsDeposit shift D') (paste : Paste) (compensated interlaced : Bool)
    (B : Binning n β γ ι) (P : List Part) :
    (∀ s, calcPower D D' paste compensated interlaced B (P.map (shift s)) none =
        calcPower D D' paste compensated interlaced B P none) ∧
    (∀ s Q, calcPower D D' paste compensated interlaced B (P.map (shift s)) (some (Q.map (shift s))) =
        calcPower D D' paste compensated interlaced B P (some Q)) ∧
    (∀ P' Q Q', P.Perm P' → Q.Perm Q' →
        calcPower D D' paste compensated interlaced B P none =
          calcPower D D' paste compensated interlaced B P' none ∧
        calcPower D D' paste compensated interlaced B P (some Q) =
          calcPower D D' paste compensated interlaced B P' (some Q')) ∧
    calcPower D D' paste compensated interlaced B P (some P) =
      calcPower D D' paste compensated interlaced B P none ∧
    (∀ (P' : List Part) (Q Q' : Option (List Part)) (t t' : Table β γ ι),
        calcPower D D' paste compensated interlaced B P Q = some t →
        calcPower D D' paste compensated interlaced B P' Q' = some t' →
        t.N_mode = t'.N_mode ∧ t.N_mode_poles = t'.N_mode_poles ∧ t.k_avg = t'.k_avg) := by
  refine ⟨?_, ?_, ?_, ?_, ?_⟩
  · intro s
    simp only [calcPower, calcTable, rejects_map]
    rw [power_translation_invariant hD hD']
  · intro s Q
    simp only [calcPower, calcTable, rejects_map₂]
    rw [cross_power_translation_invariant hD hD']
  · intro P' Q Q' hp hq
    have h1 := fun W => (power_perm_invariant hD hD' interlaced (codedPhase n) W B hp).1
    have h2 := fun W => (power_perm_invariant hD hD' interlaced (codedPhase n) W B hq).1
    simp only [calcPower, calcTable, rejects, h1, h2, isEmpty_perm hp, isEmpty_perm hq]
    exact ⟨rfl, rfl⟩
  · simp only [calcPower, calcTable, rejects, Bool.or_self, Bool.or_false]
    rw [cross_eq_auto]
  · intro P' Q Q' t t' h h'
    simp only [calcPower] at h h'
    split at h
    · cases h
    · split at h'
      · cases h'
      · cases h; cases h'
        cases Q <;> cases Q' <;> exact ⟨rfl, rfl, rfl⟩

/-- non-vacuity: an accepted (non-empty) input on the 3³ mesh, interlaced and compensated -/
example :
    let B : Binning 3 (ZMod 3) Unit Unit :=
      ⟨Finset.univ, fun k => some k.1, fun _ => some (), fun _ => 2, fun _ => 1, fun _ _ => 1⟩
    calcPower (n := 3) ngp ngp .tsc true true B
        ([((0, 1, 2), 1), ((2, 2, 0), 3)].map (ngpShift (2, 0, 1))) none =
      calcPower (n := 3) ngp ngp .tsc true true B [((0, 1, 2), 1), ((2, 2, 0), 3)] none ∧
    (calcPower (n := 3) ngp ngp .tsc true true B [((0, 1, 2), 1), ((2, 2, 0), 3)] none).isSome = true ∧
    calcPower (n := 3) ngp ngp .tsc true true B [] none = none := by
  intro B
  refine ⟨(calc_power_symmetries ngp_isDeposit ngp_isDeposit .tsc true true _ _).1 _, ?_, ?_⟩
  · simp [calcPower, rejects]
  · simp [calcPower, rejects]

/-! ### the coded interlacing phase -/

omit [NeZero n] in
/-- the phase `shift_field_fft` applies is a unit complex number for every mode (whatever the folding) -/
theorem codedPhase_unit (k : Idx n) : Complex.normSq (codedPhase n k) = 1 := by
  rw [Complex.normSq_eq_norm_sq, codedPhase, mul_comm, Complex.norm_exp_ofReal_mul_I]
  norm_num

/-- the folding is the code's: on the 5-mesh row 2 gets the frequency −3 (`fftfreq` would say +2) -/
example : Complex.normSq (codedPhase 5 (2, 3, 1)) = 1 ∧ foldShift 5 2 = -3 ∧ fftfreqInt 5 2 = 2 :=
  ⟨codedPhase_unit _, by decide, by decide⟩

end AbacusVerif.Power
