/-
  C01 — each halo row indexes exactly its own subsample particles.

  Property theorems about `AbacusVerif.Catalog.load` (Model/C01.lean): for every list of superslabs (any
  number, any halos per superslab including none, arbitrary gaps between the particle ranges, zero-particle
  halos, cleaned-away halos, merged ranges), every option record (cleaned on/off, A / B / both / none, raw or
  decoded output columns, any per-superslab masks) and every particle type `α`, under the decidable
  well-formedness predicate `wf` (Model/C01.lean): the compaction succeeds (clean lists as long as halo lists,
  one mask of the right length per superslab) and, for every KEPT row and every LOADED subsample, the raw
  range lies inside the superslab's particle file unless the halo was cleaned away, and the merge range lies
  inside the cleaning file.

  Vocabulary (Lemmas/C01.lean): `ownParts X part clean row` is the specification of a halo's particles
  (original range, or nothing when `N_total = 0`, then the merged range); `ownCnt` its length;
  `partsOf X slabs kept` their concatenation in table order; `offOf o kept X` the start of block X
  (A at 0, B after all of A).
-/
import AbacusVerif.Lemmas.C01

namespace AbacusVerif.Catalog
open AbacusVerif

variable {α : Type}

/-- which superslab each output row comes from, with the row: the specification of the compaction -/
def owners (slabs : List (Slab α)) (kept : List (List Row)) : List (Slab α × Row) :=
  (slabs.zip kept).flatMap (fun p => p.2.map (fun r => (p.1, r)))

/-- **load_spec.**  On a well-formed input the load does not fault and returns exactly: the kept rows in file
order, the post-filter per-file counts, for every loaded subsample the contiguous starts
`offsets (offOf X) counts` (without their last element) and the counts, a table holding every halo's own
particles in row order with all of A before all of B, written by the write list `(k, table[k])`, `k = 0 … N-1`,
in increasing order. -/
theorem load_spec (o : Opts) (slabs : List (Slab α)) (h : wfE o slabs) :
    ∃ mks kept, masksFor o.masks slabs.length = .ok mks ∧ readAll o.cleaned slabs mks = .ok kept ∧
      loadW o slabs = .ok (specRes o slabs kept, specW o slabs kept) := by
  have h := (wf_iff o slabs).mpr h
  obtain ⟨mks, kept, h1, h2, _, h4⟩ := loadW_spec o slabs h
  exact ⟨mks, kept, h1, h2, h4⟩

theorem load_eq (o : Opts) (slabs : List (Slab α)) (h : wfE o slabs) :
    ∃ mks kept, masksFor o.masks slabs.length = .ok mks ∧ readAll o.cleaned slabs mks = .ok kept ∧
      keptWF o slabs kept ∧ load o slabs = .ok (specRes o slabs kept) := by
  have h := (wf_iff o slabs).mpr h
  obtain ⟨mks, kept, h1, h2, h3, h4⟩ := loadW_spec o slabs h
  exact ⟨mks, kept, h1, h2, h3, by unfold load; rw [h4]⟩

/-! ### slices -/

/-- slicing a concatenation of blocks at the running starts returns the blocks -/
theorem slice_blocks {β} (pre post : List β) :
    ∀ (L : List (List β)) (off : Nat) (r : Nat) (l : List β) (s : Nat), off = pre.length →
      L[r]? = some l → (offsets off (L.map List.length))[r]? = some s →
      pySlice (pre ++ L.flatten ++ post) s (s + l.length) = l := by
  intro L
  induction L generalizing pre with
  | nil => intro off r l s _ h; simp at h
  | cons x L ih =>
    intro off r l s hoff hl hs
    cases r with
    | zero =>
      simp only [List.getElem?_cons_zero, Option.some.injEq, List.map_cons, offsets_cons] at hl hs
      subst hl hs hoff
      simp only [List.flatten_cons]
      rw [show pre ++ (x ++ L.flatten) ++ post = pre ++ x ++ (L.flatten ++ post) by simp]
      exact pySlice_mid pre x _
    | succ r =>
      simp only [List.getElem?_cons_succ, List.map_cons, offsets_cons] at hl hs
      have := ih (pre ++ x) (off + x.length) r l s (by simp [hoff]) hl hs
      simpa [List.append_assoc] using this

theorem partsOf_eq_owners (X : Sub) (slabs : List (Slab α)) (kept : List (List Row)) :
    partsOf X slabs kept =
      ((owners slabs kept).map (fun p => ownParts X (p.1.part X) (p.1.cleanPart X) p.2)).flatten := by
  unfold partsOf owners
  induction slabs.zip kept with
  | nil => rfl
  | cons p ps ih =>
    simp only [List.flatMap_cons, List.map_append, List.flatten_append, ih]
    congr 1
    simp [List.flatMap_def, List.map_map, Function.comp_def]

theorem owners_rows (slabs : List (Slab α)) (kept : List (List Row)) (hl : slabs.length = kept.length) :
    (owners slabs kept).map (·.2) = kept.flatten := by
  unfold owners
  induction slabs generalizing kept with
  | nil => cases kept with
    | nil => rfl
    | cons _ _ => simp at hl
  | cons s ss ih =>
    cases kept with
    | nil => simp at hl
    | cons k ks =>
      simp only [List.zip_cons_cons, List.flatMap_cons, List.map_append, List.flatten_cons]
      rw [ih ks (by simpa using hl)]
      simp [List.map_map, Function.comp_def]

theorem owners_counts (o : Opts) (X : Sub) (hX : X ∈ loadList o) (slabs : List (Slab α))
    (kept : List (List Row)) (hk : keptWF o slabs kept) :
    ((owners slabs kept).map (fun p => ownParts X (p.1.part X) (p.1.cleanPart X) p.2)).map List.length =
      cntsOf X kept := by
  obtain ⟨hl, hin⟩ := hk
  unfold owners cntsOf
  induction slabs generalizing kept with
  | nil => cases kept with
    | nil => rfl
    | cons _ _ => simp at hl
  | cons s ss ih =>
    cases kept with
    | nil => simp at hl
    | cons k ks =>
      simp only [List.zip_cons_cons, List.flatMap_cons, List.map_append, List.flatten_cons]
      rw [ih ks (by simpa using hl) (fun p hp => hin p (by simp [hp]))]
      congr 1
      simp only [List.map_map]
      apply List.map_congr_left
      intro r hr
      have := ownParts_length o X hX (s.part X) (s.cleanPart X) [r]
        (fun r' h' => by
          simp at h'; subst h'
          exact hin (s, k) (by simp) r' hr X hX)
      simpa using this

/-- the subsample table of the specification, split into the part before block X, block X, and the rest -/
theorem allParts_split (o : Opts) (X : Sub) (hX : X ∈ loadList o) (slabs : List (Slab α))
    (kept : List (List Row)) (hk : keptWF o slabs kept) :
    ∃ pre post, allParts o slabs kept = pre ++ partsOf X slabs kept ++ post ∧
      pre.length = offOf o kept X := by
  have hlen := fun Y hY => partsOf_length o Y hY slabs kept hk
  cases ha : o.loadA <;> cases hb : o.loadB <;> cases X <;> simp [loadList, ha, hb] at hX
  · exact ⟨[], [], by simp [allParts, loadList, ha, hb], by simp [offOf, ha]⟩
  · exact ⟨[], [], by simp [allParts, loadList, ha, hb], by simp [offOf]⟩
  · exact ⟨[], partsOf .B slabs kept, by simp [allParts, loadList, ha, hb], by simp [offOf]⟩
  · refine ⟨partsOf .A slabs kept, [], by simp [allParts, loadList, ha, hb], ?_⟩
    simp [offOf, ha, hlen .A (by simp [loadList, ha])]

/-- **slices_correct.**  For every output row `r` (coming from superslab `s` with raw/cleaning columns `row`)
and every loaded subsample `X`, the slice `table[start_X r : start_X r + n_X r]` of the returned table is
exactly that halo's own particles: `part_X(s)[raw range]` (nothing if the halo was cleaned away) followed by
`clean_X(s)[merge range]`; and `n_X r` is their number. -/
theorem slices_correct (o : Opts) (slabs : List (Slab α)) (h : wfE o slabs) :
    ∃ mks kept res, masksFor o.masks slabs.length = .ok mks ∧ readAll o.cleaned slabs mks = .ok kept ∧
      load o slabs = .ok res ∧ res.rows = (owners slabs kept).map (·.2) ∧
      ∀ X ∈ loadList o, ∃ starts ns, idxOf X res.idx = some (starts, ns) ∧
        starts.length = res.rows.length ∧ ns.length = res.rows.length ∧
        ∀ (r : Nat) (s : Slab α) (row : Row) (st n : Nat),
          (owners slabs kept)[r]? = some (s, row) → starts[r]? = some st → ns[r]? = some n →
          n = ownCnt X row ∧
          pySlice res.sub st (st + n) = (ownParts X (s.part X) (s.cleanPart X) row).map some := by
  have h := (wf_iff o slabs).mpr h
  obtain ⟨mks, kept, h1, h2, hk, h4⟩ := load_eq o slabs ((wf_iff o slabs).mp h)
  refine ⟨mks, kept, _, h1, h2, h4, (owners_rows slabs kept hk.1).symm, ?_⟩
  intro X hX
  refine ⟨(offsets (offOf o kept X) (cntsOf X kept)).dropLast, cntsOf X kept, ?_, ?_, ?_, ?_⟩
  · unfold specRes
    cases ha : o.loadA <;> cases hb : o.loadB <;> cases X <;> simp [loadList, ha, hb] at hX <;>
      simp [loadList, ha, hb, idxOf]
  · simp only [specRes, cntsOf, List.length_dropLast, offsets_length, List.length_map, Nat.add_sub_cancel]
  · simp only [specRes, cntsOf, List.length_map]
  · intro r s row st n hown hst hn
    have hcounts := owners_counts o X hX slabs kept hk
    have hrows := owners_rows slabs kept hk.1
    have hrow : kept.flatten[r]? = some row := by
      rw [← hrows, List.getElem?_map, hown]; rfl
    have hn' : n = ownCnt X row := by
      unfold cntsOf at hn
      rw [List.getElem?_map, hrow] at hn
      simpa using hn.symm
    refine ⟨hn', ?_⟩
    obtain ⟨pre, post, hsplit, hpre⟩ := allParts_split o X hX slabs kept hk
    have hst' : (offsets (offOf o kept X) (cntsOf X kept))[r]? = some st := by
      have hlt : r < (offsets (offOf o kept X) (cntsOf X kept)).dropLast.length := by
        apply Nat.lt_of_not_le
        intro hc
        rw [List.getElem?_eq_none hc] at hst
        cases hst
      rw [List.getElem?_dropLast] at hst
      simp only [List.length_dropLast] at hlt
      rw [if_pos (by simpa using hlt)] at hst
      exact hst
    -- the blocks of X, as lists of `some`
    let blocks := (owners slabs kept).map (fun p => (ownParts X (p.1.part X) (p.1.cleanPart X) p.2).map some)
    have hb1 : blocks[r]? = some ((ownParts X (s.part X) (s.cleanPart X) row).map some) := by
      simp [blocks, List.getElem?_map, hown]
    have hb2 : blocks.map List.length = cntsOf X kept := by
      rw [← hcounts]; simp [blocks, List.map_map, Function.comp_def]
    have hb3 : blocks.flatten = (partsOf X slabs kept).map some := by
      rw [partsOf_eq_owners]; simp [blocks, List.map_flatten, List.map_map, Function.comp_def]
    have := slice_blocks (pre.map some) (post.map some) blocks (offOf o kept X) r _ st (by simp [hpre]) hb1
      (by rw [hb2]; exact hst')
    simp only [List.length_map] at this
    have hlenr : (ownParts X (s.part X) (s.cleanPart X) row).length = n := by
      have := congrArg (fun l => l[r]?) hcounts
      simp only [List.getElem?_map, hown, Option.map_some] at this
      rw [hn] at this
      simpa using this
    rw [hlenr] at this
    show pySlice (specRes o slabs kept).sub st (st + n) = _
    simp only [specRes, hsplit, List.map_append, ← hb3]
    exact this

/-! ### tiling -/

/-- where the block of subsample X starts according to a result's own `npout` columns -/
def blockStart (o : Opts) (res : Result α) : Sub → Nat
  | .A => 0
  | .B => if o.loadA then total (blockCounts res .A) else 0

/-- **tiling.**  The returned index columns tile the table: `start_A 0 = 0`, `start_B 0 = Σ n_A` (0 when A is
not loaded), `start_X (r+1) = start_X r + n_X r` (stated as: the starts are the running sums `offsets` of the
counts, minus the final total), the counts sum over all loaded subsamples to the table length, no cell is left
unwritten, and the write list touches cell `k` exactly once, in the order `k = 0, 1, …, N-1`. -/
theorem tiling (o : Opts) (slabs : List (Slab α)) (h : wfE o slabs) :
    ∃ res ws, loadW o slabs = .ok (res, ws) ∧
      (∀ X ∈ loadList o, ∃ starts ns, idxOf X res.idx = some (starts, ns) ∧
        starts ++ [blockStart o res X + total ns] = offsets (blockStart o res X) ns) ∧
      total ((loadList o).map (fun X => total (blockCounts res X))) = res.sub.length ∧
      ws.map (·.1) = List.range res.sub.length ∧
      res.sub = (ws.map (·.2)).map some := by
  have h := (wf_iff o slabs).mpr h
  obtain ⟨mks, kept, h1, h2, hk, h4⟩ := loadW_spec o slabs h
  refine ⟨_, _, h4, ?_, ?_, ?_, ?_⟩
  · intro X hX
    refine ⟨(offsets (offOf o kept X) (cntsOf X kept)).dropLast, cntsOf X kept, ?_, ?_⟩
    · unfold specRes
      cases ha : o.loadA <;> cases hb : o.loadB <;> cases X <;> simp [loadList, ha, hb] at hX <;>
        simp [loadList, ha, hb, idxOf]
    · have hoff : blockStart o (specRes o slabs kept) X = offOf o kept X := by
        cases X
        · rfl
        · cases ha : o.loadA
          · simp [blockStart, offOf, ha]
          · simp [blockStart, offOf, ha, blockCounts, specRes, loadList, idxOf]
      rw [hoff]
      have : ∀ (off : Nat) (l : List Nat), (offsets off l).dropLast ++ [off + total l] = offsets off l := by
        intro off l
        induction l generalizing off with
        | nil => simp
        | cons n l ih =>
          rw [offsets_cons, offsets_eq (off + n) l, List.dropLast_cons₂, ← offsets_eq, List.cons_append,
            total_cons, ← Nat.add_assoc, ih]
      exact this _ _
  · have hlen := fun X hX => partsOf_length o X hX slabs kept hk
    cases ha : o.loadA <;> cases hb : o.loadB <;>
      simp [specRes, allParts, loadList, ha, hb, blockCounts, idxOf] <;>
      simp [loadList, ha, hb] at hlen <;> simp [hlen]
  · simp only [specW, specRes, List.length_map]
    rw [List.map_fst_zip (by simp)]
    exact List.range_eq_range'.symm
  · simp only [specW, specRes]
    rw [List.map_snd_zip (by simp)]

/-! ### decoding commutes with loading -/

def Slab.mapParts {β} (d : α → β) (s : Slab α) : Slab β :=
  { halos := s.halos, clean := s.clean, partA := s.partA.map d, partB := s.partB.map d,
    cleanA := s.cleanA.map d, cleanB := s.cleanB.map d }

def Result.mapSub {β} (d : α → β) (r : Result α) : Result β :=
  { rows := r.rows, nPer := r.nPer, idx := r.idx, sub := r.sub.map (Option.map d) }

theorem pySlice_map {β γ} (d : β → γ) (a : List β) (lo hi : Nat) :
    pySlice (a.map d) lo hi = (pySlice a lo hi).map d := by
  simp [pySlice, List.map_drop, List.map_take]

theorem readAll_mapParts {β} (d : α → β) (cleaned : Bool) :
    ∀ (slabs : List (Slab α)) (mks : List (Option (List Bool))),
      readAll cleaned (slabs.map (Slab.mapParts d)) mks = readAll cleaned slabs mks := by
  intro slabs
  induction slabs with
  | nil => intro mks; rfl
  | cons s ss ih =>
    intro mks
    cases mks with
    | nil => rfl
    | cons m ms =>
      simp only [List.map_cons]
      unfold readAll
      rw [ih ms]
      rfl

theorem ownParts_mapParts {β} (d : α → β) (X : Sub) (s : Slab α) (r : Row) :
    ownParts X ((s.mapParts d).part X) ((s.mapParts d).cleanPart X) r =
      (ownParts X (s.part X) (s.cleanPart X) r).map d := by
  rcases r with ⟨h, _ | c⟩ <;> cases X <;>
    simp [ownParts, Slab.mapParts, Slab.part, Slab.cleanPart, pySlice_map] <;>
    split <;> simp

theorem partsOf_mapParts {β} (d : α → β) (X : Sub) (slabs : List (Slab α)) (kept : List (List Row)) :
    partsOf X (slabs.map (Slab.mapParts d)) kept = (partsOf X slabs kept).map d := by
  unfold partsOf
  induction slabs generalizing kept with
  | nil => rfl
  | cons s ss ih =>
    cases kept with
    | nil => rfl
    | cons k ks =>
      simp only [List.map_cons, List.zip_cons_cons, List.flatMap_cons, List.map_append, ih ks]
      congr 1
      induction k with
      | nil => rfl
      | cons r rs ih2 => simp only [List.flatMap_cons, List.map_append, ih2, ownParts_mapParts]

theorem rowWF_mapParts {β} (d : α → β) (X : Sub) (s : Slab α) (r : Row) :
    rowWF X ((s.mapParts d).part X) ((s.mapParts d).cleanPart X) r = rowWF X (s.part X) (s.cleanPart X) r := by
  rcases r with ⟨h, _ | c⟩ <;> cases X <;>
    simp only [rowWF, Slab.mapParts, Slab.part, Slab.cleanPart, List.length_map] <;> congr

theorem wf_mapParts {β} (d : α → β) (o : Opts) (slabs : List (Slab α)) :
    wf o (slabs.map (Slab.mapParts d)) = wf o slabs := by
  unfold wf
  simp only [List.length_map]
  cases masksFor o.masks slabs.length with
  | error e => rfl
  | ok mks =>
    simp only [readAll_mapParts]
    cases readAll o.cleaned slabs mks with
    | error e => rfl
    | ok kept =>
      simp only []
      rw [List.zip_map_left, List.all_map]
      congr 1
      funext p
      simp only [Function.comp_def, Prod.map_fst, Prod.map_snd, id_eq, rowWF_mapParts]

/-- **decode_commutes.**  For any per-word decoder `d` (the C04 decoders, any subset of output columns being a
tuple-valued `d`): loading the decoded particle files gives the decoded table — same rows, same index
columns, and every table cell is the decoding of the cell of the raw-word table. -/
theorem decode_commutes {β} (d : α → β) (o : Opts) (slabs : List (Slab α)) (h : wfE o slabs) :
    ∃ res, load o slabs = .ok res ∧ load o (slabs.map (Slab.mapParts d)) = .ok (res.mapSub d) := by
  have h := (wf_iff o slabs).mpr h
  obtain ⟨mks, kept, h1, h2, hk, h4⟩ := load_eq o slabs ((wf_iff _ _).mp h)
  obtain ⟨mks', kept', h1', h2', hk', h4'⟩ := load_eq o (slabs.map (Slab.mapParts d)) ((wf_iff _ _).mp (by rw [wf_mapParts]; exact h))
  simp only [List.length_map] at h1'
  rw [h1] at h1'
  cases h1'
  rw [readAll_mapParts, h2] at h2'
  cases h2'
  refine ⟨_, h4, ?_⟩
  rw [h4']
  have hall : allParts o (slabs.map (Slab.mapParts d)) kept = (allParts o slabs kept).map d := by
    unfold allParts
    rw [List.map_flatMap]
    apply flatMap_congr'
    intro X _
    exact partsOf_mapParts d X slabs kept
  simp only [specRes, Result.mapSub, hall, List.map_map]
  congr

/-! ### light cone, faults -/

/-- **lc_slices.**  In the light-cone layout the kept rows carry the STORED `(npstartA, npoutA)` unchanged
(they are the masked input rows) and the table is the single particle file, so a row's slice of the table is
the file's slice at the stored indices. -/
theorem lc_slices (halos : List (Nat × Nat)) (parts : List α) (mask : Option (List Bool))
    (hm : ∀ m, mask = some m → m.length = halos.length) :
    ∃ res, loadLc halos parts mask = .ok res ∧ res.sub = parts ∧
      res.rows = (match mask with | none => halos | some m => maskRows halos m) ∧
      ∀ row ∈ res.rows, row ∈ halos ∧ pySlice res.sub row.1 (row.1 + row.2) = pySlice parts row.1 (row.1 + row.2) := by
  cases mask with
  | none => exact ⟨_, rfl, rfl, rfl, fun row hr => ⟨hr, rfl⟩⟩
  | some m =>
    have := hm m rfl
    refine ⟨{ rows := maskRows halos m, sub := parts }, by simp [loadLc, this], rfl, rfl, ?_⟩
    intro row hr
    refine ⟨?_, rfl⟩
    simp only [maskRows, List.mem_map, List.mem_filter] at hr
    obtain ⟨p, ⟨hp, _⟩, rfl⟩ := hr
    exact (List.of_mem_zip hp).1

/-- **zipper_inbounds.**  A well-formed input never makes the reader index outside an array (nor trip a
length check): the load returns. -/
theorem zipper_inbounds (o : Opts) (slabs : List (Slab α)) (h : wfE o slabs) :
    load o slabs ≠ .error .oob ∧ load o slabs ≠ .error .badLength := by
  have h := (wf_iff o slabs).mpr h
  obtain ⟨_, kept, _, _, _, h4⟩ := load_eq o slabs ((wf_iff o slabs).mp h)
  rw [h4]
  exact ⟨fun hh => (by cases hh), fun hh => (by cases hh)⟩

/-! ### the loops as coded, the preallocated table, the uint32 sum -/

/-- **zipper_index_rule.**  The executable model reads `slab_read_offsets[i]`, `slab_write_offsets[i]`,
`slab_write_offsets[i+1]`, the superslab `i`, `halo_file_offsets[i]`, `halo_file_offsets[i+1]` through the
Python index rule inside `for i in range(N)` loops (`zipRowsI`, `zipSlabsI`, `zipAllI`).  For ALL inputs,
well-formed or not, these equal the structural recursions the proofs are written over — same writes, same
fault at the same iteration — so `zipper_inbounds` and the C11 corollary are about the index arithmetic as
coded. -/
theorem zipper_index_rule (rawCol : Bool) (nSub : Nat) (X : Sub) :
    (∀ (part cl : List α) (rows : List Row) (swo : List Nat),
      zipRowsI rawCol nSub X part cl rows swo = zipRows rawCol nSub X part cl rows swo) ∧
    (∀ (tbl : List Row) (new : List Nat) (slabs : List (Slab α)) (hfo : List Nat),
      zipSlabsI rawCol nSub X tbl new slabs hfo = zipSlabs rawCol nSub X tbl new slabs hfo) ∧
    (∀ (tbl : List Row) (slabs : List (Slab α)) (hfo : List Nat) (news : List (Sub × List Nat)),
      zipAllI rawCol nSub tbl slabs hfo news = zipAll rawCol nSub tbl slabs hfo news) :=
  ⟨fun part cl rows swo => zipRowsI_eq rawCol nSub X part cl rows swo,
   fun tbl new slabs hfo => zipSlabsI_eq rawCol nSub X tbl new slabs hfo,
   fun tbl slabs hfo news => zipAllI_eq rawCol nSub tbl slabs hfo news⟩

/-- **table_compaction.**  `_read_halo_info` on a well-formed request, as writes into the preallocated table of
`N_halos = Σ len(raw_i)` rows: all files open and assert (`allRowsOf`), the per-file loop (`compact`: unpack
file `i` into the window at `N_written`, `halos[:nmask] = halos[mask]`, `N_written += nmask`) succeeds, every
write lands inside the allocation, the final `N_written` is the number of kept rows, after the writes the
allocation is `kept rows in file order ++ leftover`, and the table handed on — the first `N_written` cells,
nothing past them — is exactly the kept rows in file order with `N_halo_per_file` their per-file numbers. -/
theorem table_compaction (o : Opts) (slabs : List (Slab α)) (h : wfE o slabs) :
    ∃ mks kept rowss ws leftover, masksFor o.masks slabs.length = .ok mks ∧
      readAll o.cleaned slabs mks = .ok kept ∧ allRowsOf o.cleaned slabs = .ok rowss ∧
      compact rowss mks 0 = .ok (ws, kept.flatten.length, kept.map List.length) ∧
      (∀ w ∈ ws, w.1 < total (rowss.map List.length)) ∧
      applyWrites (List.replicate (total (rowss.map List.length)) none) (ws.map (fun w => (w.1, some w.2))) =
        kept.flatten.map some ++ leftover ∧
      readTable o.cleaned slabs mks = .ok (kept.flatten, kept.map List.length) ∧
      kept.flatten = (owners slabs kept).map (·.2) := by
  obtain ⟨mks, kept, h1, h2, hk⟩ := wf_kept o slabs ((wf_iff o slabs).mpr h)
  obtain ⟨rowss, hrows, hrel⟩ := readAll_rel o.cleaned slabs mks kept h2
  obtain ⟨ws, free', hc, hidx, happ⟩ := compact_spec rowss mks kept hrel []
    (List.replicate (total (rowss.map List.length)) none) (by simp)
  simp only [List.length_nil, Nat.zero_add, List.nil_append] at hc hidx happ
  exact ⟨mks, kept, rowss, ws, free', h1, h2, hrows, hc, hidx, happ,
    readTable_eq o.cleaned slabs mks kept h2, (owners_rows slabs kept hk.1).symm⟩

/-- **uint32_sum_wraps.**  The hypothesis "fewer than 2^32 particles per halo and subsample" in `rowOK` is
needed: `npoutX + npoutX_merge` is a sum of two `uint32` columns, so for a halo with 2^32 or more particles the
count the reader feeds to `cumsum` (`cnt32`, after the zeroing step) is NOT the number of its particles. -/
theorem uint32_sum_wraps (X : Sub) (r : Row) (h : 2 ^ 32 ≤ ownCnt X r) :
    cnt32 X (zeroCleaned X r) ≠ ownCnt X r := by
  have : cnt32 X (zeroCleaned X r) < 2 ^ 32 := Nat.mod_lt _ (by decide)
  omega

/-! ### non-vacuity: a concrete catalog — two superslabs, an L0 gap before every range, a zero-particle halo,
a cleaned-away halo with non-zero raw counts, merged ranges, a mask dropping a row -/

def exSlabs : List (Slab Nat) :=
  [ { halos := [⟨1, 2, 1, 1, 50⟩, ⟨4, 1, 3, 2, 60⟩, ⟨5, 0, 5, 0, 7⟩],
      clean := [⟨0, 1, 0, 0, 70⟩, ⟨1, 1, 0, 1, 0⟩, ⟨2, 0, 1, 1, 9⟩],
      partA := [10, 11, 12, 13, 14, 15], partB := [20, 21, 22, 23, 24, 25],
      cleanA := [30, 31], cleanB := [40, 41] },
    { halos := [⟨2, 1, 0, 0, 5⟩], clean := [⟨0, 0, 0, 1, 9⟩],
      partA := [50, 51, 52, 53], partB := [60, 61], cleanA := [70], cleanB := [80] } ]

def exOpts : Opts :=
  { cleaned := true, loadA := true, loadB := true, rawCol := true, masks := some [[true, true, false], [true]] }

example : wf exOpts exSlabs = true := by decide
example : wfE exOpts exSlabs := (wf_iff _ _).mp (by decide)
example : wfE { exOpts with cleaned := false, masks := none } exSlabs := (wf_iff _ _).mp (by decide)
example : wf { exOpts with cleaned := false, masks := none } exSlabs = true := by decide
example : wf { exOpts with loadA := false } ([] : List (Slab Nat)) = false := by decide
example : (load exOpts exSlabs).toOption.map (·.sub) =
    some [some 11, some 12, some 30, some 31, some 52, some 21, some 40, some 80] := by decide
example : (load exOpts exSlabs).toOption.map (·.idx) =
    some [(.A, [0, 3, 4], [3, 1, 1]), (.B, [5, 6, 7], [1, 1, 1])] := by decide
-- a range that runs past the end of its particle file is rejected by `wf`
def exBad : List (Slab Nat) :=
  [ { halos := [⟨5, 3, 0, 0, 1⟩], clean := [⟨0, 0, 0, 0, 4⟩], partA := [1, 2, 3, 4, 5, 6],
      partB := [], cleanA := [], cleanB := [] } ]
example : ¬ wfE { exOpts with masks := none } exBad := fun h => absurd ((wf_iff _ _).mpr h) (by decide)
-- a halo whose two uint32 counts add up to 2^32: the reader's sum wraps to 0, the specification says 2^32
example : cnt32 .A (⟨0, 4294967295, 0, 0, 9⟩, some ⟨0, 1, 0, 0, 9⟩) = 0 ∧
    ownCnt .A (⟨0, 4294967295, 0, 0, 9⟩, some ⟨0, 1, 0, 0, 9⟩) = 4294967296 := by decide
example : ∃ res, loadLc [(0, 2), (3, 1)] [5, 6, 7, 8] (some [true, false]) = .ok res ∧ res.rows = [(0, 2)] :=
  ⟨_, rfl, rfl⟩

end AbacusVerif.Catalog
