/-
  C12 — HOD staging keeps every per-halo attribute on the same row.

  Property theorems about the model of `AbacusHOD.staging` (Model/C12.lean), over the tables that
  `harness/props/c12.py` regenerates on every run by observing the real code on probe files, once per flag
  subset (Generated/StagingCols.lean, part 1; part 2 is the optional reading of the source text): for every
  number of slabs, every slab content, every order of the ids and every flag set.

  Reading.  "Every per-halo array describes the same halo at the same row" = the returned named arrays are
  the arrays of *one* list of records (`toCols names recs'`), that list is a permutation of the records of
  the loaded slab files (each output row is an input record, unmodified, none lost or duplicated), its ids
  are non-decreasing (strictly increasing when duplicate-free), and `pinds[p]` is the row whose id is
  `phid[p]` whenever that id occurs.
-/
import AbacusVerif.Lemmas.C12

namespace AbacusVerif.Staging
open AbacusVerif
open AbacusVerif.Generated.StagingCols

variable {Val : Type}

/-! ### facts about the tables observed on the real code (Generated/StagingCols.lean, part 1) -/

/-- **Observation is complete.**  Every subset of the `want_*` flags has its entry, `hid` is returned under each,
the returned ids are in ascending order, `pinds` is the left insertion point and a 1-D velocity-deviate
column gives every halo its own deviate on the three axes. -/
theorem observed_complete :
    (subsets flagNames).all (fun fl => (entryOf fl).isSome) = true ∧ byFlags.length = 2 ^ flagNames.length ∧
    (∀ e ∈ byFlags, "hid" ∈ e.returned) ∧ sortKey = "hid" ∧ searchSide = "left" ∧ velDev1d = "stack-axis1" := by
  decide +kernel

/-- **The generated-table fact.**  Under every flag subset, every array that `staging` returns in `halo_data`
comes out in id order (it follows the permutation that sorts the ids) whenever the ids of the files are not
already sorted.  (`decide` over the regenerated table: a returned array that stays in file order breaks this
proof.) -/
theorem returned_cols_permuted : ∀ e ∈ byFlags, ∀ v ∈ e.returned, v ∈ e.permuted := by
  decide +kernel

/-- **Single source.**  Under every flag subset, every array returned in `halo_data` is reproduced by exactly one
expression over the columns of the slabs' `halos` datasets. -/
theorem returned_cols_single_source :
    ∀ e ∈ byFlags, ∀ v ∈ e.returned, (sourcesOf e.haloSources v).length = 1 := by
  decide +kernel

/-- Under every flag subset every key of `particle_data` (`pinds` apart) is either a constant or reproduced by
exactly one expression over the columns of the slabs' `particles` datasets, never both; the host ids are the
`halo_id` column and `pweights` has its expression. -/
theorem part_cols_single_source :
    ∀ e ∈ byFlags, (∀ s ∈ e.partSources, (sourcesOf e.partSources s.1).length = 1) ∧
      (∀ d ∈ e.partDefaults, sourcesOf e.partSources d.1 = []) ∧
      sourcesOf e.partSources "phid" = [.field "halo_id"] ∧ (sourcesOf e.partSources "pweights").length = 1 := by
  decide +kernel

/-- what each returned per-halo array is documented to hold (comments of `staging`, fields written by
`prepare_sim`): position, velocity, mass = particle count × particle mass, id, multiplicity, random number,
velocity deviates (exponential or Gaussian·vrms), 3-d dispersion, concentration r98/r25, radius r98,
the two assembly-bias ranks and the shear rank -/
def documentedHalo (expvel : Bool) : List (String × Src) :=
  [("hpos", .field "x_L2com"), ("hvel", .field "v_L2com"), ("hmass", .mulParam (.field "N") "Mpart"),
   ("hid", .field "id"), ("hmultis", .field "multi_halos"), ("hrandoms", .field "randoms"),
   ("hveldev", if expvel then .field "randoms_exp" else .field "randoms_gaus_vrms"),
   ("hsigma3d", .field "sigmav3d_L2com"),
   ("hc", .div (.field "r98_L2com") (.field "r25_L2com")), ("hrvir", .field "r98_L2com"),
   ("hdeltac", .field "deltac_rank"), ("hfenv", .field "fenv_rank"), ("hshear", .field "shear_rank")]

/-- the keys of `halo_data` under a flag set -/
def documentedHaloKeys (ab shear : Bool) : List String :=
  ["hpos", "hvel", "hmass", "hid", "hmultis", "hrandoms", "hveldev", "hsigma3d", "hc", "hrvir"] ++
  (if ab then ["hdeltac", "hfenv"] else []) ++ (if shear then ["hshear"] else [])

/-- the documented content of the per-particle arrays -/
def documentedPart : List (String × Src) :=
  [("ppos", .field "pos"), ("pvel", .field "vel"), ("phvel", .field "halo_vel"), ("phmass", .field "halo_mass"),
   ("phid", .field "halo_id"), ("pweights", .invProd (.field "Np") (.field "downsample_halo")),
   ("prandoms", .field "randoms"), ("pdeltac", .field "halo_deltac"), ("pfenv", .field "halo_fenv"),
   ("pshear", .field "halo_shear"), ("pranks", .field "ranks"), ("pranksv", .field "ranksv"),
   ("pranksp", .fieldOrZeros "ranksp"), ("pranksr", .fieldOrZeros "ranksr"), ("pranksc", .fieldOrZeros "ranksc")]

/-- without `want_ranks` the five rank arrays are all ones -/
def documentedDefaults (ranks : Bool) : List (String × String) :=
  if ranks then [] else ["pranks", "pranksv", "pranksp", "pranksr", "pranksc"].map (fun k => (k, "ones"))

/-- **Sources as documented.**  Under every flag subset the keys of `halo_data` are the documented ones, the one
expression that reproduces each returned array is the documented one, for the halo arrays and for the particle
arrays, and the constant particle arrays are the documented defaults.  An array filled from another dataset
column breaks this proof. -/
theorem sources_as_documented :
    ∀ e ∈ byFlags,
      e.returned = documentedHaloKeys (e.flags.contains "want_AB") (e.flags.contains "want_shear") ∧
      (∀ v ∈ e.returned,
        sourcesOf e.haloSources v = ((documentedHalo (e.flags.contains "want_expvel")).lookup v).toList) ∧
      (∀ s ∈ e.partSources, sourcesOf e.partSources s.1 = (documentedPart.lookup s.1).toList) ∧
      e.partDefaults = documentedDefaults (e.flags.contains "want_ranks") := by
  decide +kernel

/-! ### facts read from the source text (part 2; no obligation when the text could not be interpreted) -/

/-- According to the source text every returned array is allocated with the total halo count and filled slab by
slab under a compatible flag. -/
theorem returned_cols_filled :
    ∀ e ∈ astReturned, (∃ p ∈ astAllocated, p.1 = e.2.1 ∧ (p.2 = none ∨ p.2 = e.2.2)) ∧
                        (∃ p ∈ astFilled, p.1 = e.2.1 ∧ (p.2 = none ∨ p.2 = e.2.2)) := by
  decide +kernel

/-- **Text and observation agree.**  When the source text could be interpreted: under every flag subset it returns
the observed keys, its `X = X[sortind]` statements cover exactly the arrays observed in id order, every fill
expression it could translate is the observed one (halo and particle side), and it uses the observed
`searchsorted` side. -/
theorem ast_agrees_with_observed :
    astAvailable = true →
      astSearchSide = searchSide ∧
      ∀ e ∈ byFlags,
        astReturnedKeys e.flags = e.returned ∧
        (∀ k ∈ e.returned, (k ∈ astPermutedKeys e.flags ↔ k ∈ e.permuted)) ∧
        (∀ k ∈ e.returned, astHaloSourcesOf e.flags k = [] ∨ astHaloSourcesOf e.flags k = sourcesOf e.haloSources k) ∧
        (∀ s ∈ e.partSources, astPartSourcesOf e.flags s.1 = [] ∨ astPartSourcesOf e.flags s.1 = sourcesOf e.partSources s.1) := by
  decide +kernel

/-- the named arrays (all but the id array) returned under a flag subset -/
def haloNames (e : Entry) : List String := e.returned.filter (· ≠ "hid")

theorem haloNames_permuted (e : Entry) (he : e ∈ byFlags) : ∀ n ∈ haloNames e, n ∈ e.permuted := by
  intro n hn
  exact returned_cols_permuted e he n (List.mem_filter.mp hn).1

theorem hid_permuted (e : Entry) (he : e ∈ byFlags) : "hid" ∈ e.permuted :=
  returned_cols_permuted e he "hid" (observed_complete.2.2.1 e he)

/-! ### the sort index -/

/-- `argsort` returns every index `0 … n-1` exactly once. -/
theorem argsort_is_perm (hid : List Nat) : (argsort hid).Perm (List.range hid.length) :=
  argsort_perm_range hid

example : argsort [7, 3, 9, 1] = [3, 1, 0, 2] := by decide +kernel

/-! ### the sort block on named parallel arrays -/

/-- **Rows stay aligned (sort block).**  If every named array of the table has its `X = X[sortind]`
statement (`names ⊆ permuted`, and `hid` itself), the sort block does not fail and returns the named arrays
of a list of records `recs'` that is a permutation of the input records — every output row is one of the
input records with all its attributes, unmodified — with non-decreasing ids. -/
theorem sort_rows_aligned (permuted names : List String) (recs : List (HaloRec Val))
    (hall : ∀ n ∈ names, n ∈ permuted) (hhid : "hid" ∈ permuted) :
    ∃ recs', sortBlock permuted (toCols names recs) = .ok (toCols names recs') ∧
      recs'.Perm recs ∧ (∀ r ∈ recs', r ∈ recs) ∧ (recs'.map (·.id)).Pairwise (· ≤ ·) := by
  by_cases hs : sortedB (recs.map (·.id)) = true
  · refine ⟨recs, ?_, List.Perm.refl _, fun r h => h, (sortedB_iff _).mp hs⟩
    unfold sortBlock
    simp [toCols, hs]
  · have hσ : ∀ i ∈ argsort (recs.map (·.id)), i < recs.length := by
      intro i hi; simpa using argsort_lt _ i hi
    have hpw : ((pick recs (argsort (recs.map (·.id)))).map (·.id)).Pairwise (· ≤ ·) := by
      rw [← pick_map]; exact pick_argsort_pairwise _
    refine ⟨pick recs (argsort (recs.map (·.id))), ?_, ?_, ?_, hpw⟩
    · unfold sortBlock
      have h1 : (toCols names recs).hid = recs.map (·.id) := rfl
      rw [h1]
      simp only [hs, hhid, if_true]
      rw [gather_ok _ _ (by simpa using hσ), pick_map]
      simp only [Bool.false_eq_true, if_false]
      rw [permuteCols_toCols permuted names _ recs hσ hall]
      have h2 : sortedB (List.map (fun x => x.id) (pick recs (argsort (List.map (fun x => x.id) recs)))) = true :=
        (sortedB_iff _).mpr hpw
      simp [toCols, h2]
    · exact pick_perm recs _ (by simpa using argsort_perm_range (recs.map (·.id)))
    · intro r hr
      exact (pick_perm recs _ (by simpa using argsort_perm_range (recs.map (·.id)))).mem_iff.mp hr

/-- Filling the arrays slab after slab yields the arrays of the slabs' records in slab order. -/
theorem concat_rows (names : List String) (slabs : List (List (HaloRec Val))) :
    concatCols names (slabs.map (toCols names)) = .ok (toCols names slabs.flatten) :=
  concatCols_toCols names slabs

/-- **staging_rows_aligned.**  For the arrays the real `staging` was observed to return and to keep in id order,
under every flag subset, any number of slabs and any slab contents: the halo side of `staging` does not fail,
and what it returns are the named arrays of one list of records that is a permutation of the records of the
loaded slab files — each output row is an input record with every attribute unmodified — ordered by
non-decreasing id. -/
theorem staging_rows_aligned (e : Entry) (he : e ∈ byFlags) (slabs : List (List (HaloRec Val))) :
    ∃ recs', stageHalos e.permuted (haloNames e) (slabs.map (toCols (haloNames e)))
        = .ok (toCols (haloNames e) recs') ∧
      recs'.Perm slabs.flatten ∧ (∀ r ∈ recs', r ∈ slabs.flatten) ∧
      (recs'.map (·.id)).Pairwise (· ≤ ·) := by
  obtain ⟨recs', h1, h2, h3, h4⟩ := sort_rows_aligned e.permuted (haloNames e) slabs.flatten
    (haloNames_permuted e he) (hid_permuted e he)
  refine ⟨recs', ?_, h2, h3, h4⟩
  unfold stageHalos
  rw [concat_rows]
  exact h1

/-! ### ids -/

/-- **ids_sorted.**  Whatever the sort block returns has the ids of the input, each exactly once, in
non-decreasing order, and in strictly increasing order when the ids are duplicate-free. -/
theorem ids_sorted (permuted : List String) (t t' : HaloCols Val) (hhid : "hid" ∈ permuted)
    (h : sortBlock permuted t = .ok t') :
    t'.hid.Perm t.hid ∧ t'.hid.Pairwise (· ≤ ·) ∧ (t.hid.Nodup → t'.hid.Pairwise (· < ·)) := by
  have key : t'.hid.Perm t.hid ∧ t'.hid.Pairwise (· ≤ ·) := by
    unfold sortBlock at h
    by_cases hs : sortedB t.hid = true
    · simp only [hs, if_true] at h
      cases h
      exact ⟨List.Perm.refl _, (sortedB_iff _).mp hs⟩
    · simp only [hs, hhid, if_true, Bool.false_eq_true, if_false] at h
      rw [gather_ok _ _ (argsort_lt t.hid)] at h
      cases hp : permuteCols permuted (argsort t.hid) t.cols with
      | error e => simp [hp] at h
      | ok cols' =>
        simp only [hp] at h
        have h2 : sortedB (pick t.hid (argsort t.hid)) = true :=
          (sortedB_iff _).mpr (pick_argsort_pairwise t.hid)
        simp only [h2, if_true] at h
        cases h
        exact ⟨pick_perm _ _ (argsort_perm_range t.hid), pick_argsort_pairwise t.hid⟩
  refine ⟨key.1, key.2, ?_⟩
  intro hnd
  have hnd' : t'.hid.Nodup := (key.1.nodup_iff).mpr hnd
  have := List.Pairwise.and key.2 hnd'
  exact this.imp (by intro a b hab; omega)

/-- **already_sorted_noop.**  When the ids are already non-decreasing nothing is moved, whatever the list
of permuted arrays. -/
theorem already_sorted_noop (permuted : List String) (t : HaloCols Val) (hs : sortedB t.hid = true) :
    sortBlock permuted t = .ok t := by
  unfold sortBlock
  simp [hs]

/-! ### the particle host index -/

/-- **pinds_points_to_host.**  On non-decreasing ids, if the id recorded by particle `p` occurs among the
halo ids, then `pinds[p]` is a valid row and the id at that row is the particle's host id. -/
theorem pinds_points_to_host (hid phid : List Nat) (hs : hid.Pairwise (· ≤ ·)) (p : Nat) (host : Nat)
    (hp : phid[p]? = some host) (hin : host ∈ hid) :
    (pinds hid phid).length = phid.length ∧
    ∃ j, (pinds hid phid)[p]? = some j ∧ hid[j]? = some host := by
  refine ⟨by simp [pinds], searchsortedLeft hid host, by simp [pinds, hp], ?_⟩
  unfold searchsortedLeft
  have hlt : List.findIdx (fun x => decide (host ≤ x)) hid < hid.length :=
    List.findIdx_lt_length.mpr ⟨host, hin, by simp⟩
  have hge : host ≤ hid[List.findIdx (fun x => decide (host ≤ x)) hid] := by
    have := List.findIdx_getElem (p := fun x => decide (host ≤ x)) (xs := hid) (w := hlt)
    simpa using this
  obtain ⟨j, hj, hjv⟩ := List.getElem_of_mem hin
  have hle : hid[List.findIdx (fun x => decide (host ≤ x)) hid] ≤ host := by
    rcases Nat.lt_trichotomy (List.findIdx (fun x => decide (host ≤ x)) hid) j with h | h | h
    · have := (List.pairwise_iff_getElem.mp hs) _ j hlt hj h
      omega
    · simp only [h, hjv]; exact Nat.le_refl _
    · have := List.not_of_lt_findIdx (p := fun x => decide (host ≤ x)) (xs := hid) h
      simp [hjv] at this
  rw [List.getElem?_eq_getElem hlt]
  congr 1
  omega

/-- Combined with the sort block: after `staging`'s sort block (with `hid` among the permuted arrays), every
particle whose recorded host id is the id of a loaded halo points to the row carrying that id. -/
theorem staged_pinds_point_to_host (permuted : List String) (t t' : HaloCols Val) (hhid : "hid" ∈ permuted)
    (h : sortBlock permuted t = .ok t') (phid : List Nat) (p host : Nat)
    (hp : phid[p]? = some host) (hin : host ∈ t.hid) :
    ∃ j, (pinds t'.hid phid)[p]? = some j ∧ t'.hid[j]? = some host := by
  obtain ⟨hperm, hsorted, _⟩ := ids_sorted permuted t t' hhid h
  exact (pinds_points_to_host t'.hid phid hsorted p host hp (hperm.mem_iff.mpr hin)).2

/-! ### the fill loop -/

/-- **fill_is_concat.**  For any number of slabs of any sizes (empty ones included): with an array of
`sum(counts)` cells and the ticker advanced by each slab's own count, the fill loop raises nothing, its write
list addresses the cells `0, 1, …, total-1` in this order — every cell written exactly once, none outside the
array — with the values of the slabs in slab order, and the array read back is their concatenation. -/
theorem fill_is_concat {α : Type} (parts : List (List α)) :
    ∃ ws, fillArr (parts.map List.length).sum (parts.map List.length) parts = .ok ws ∧
      ws.map (·.1) = List.range (parts.map List.length).sum ∧
      ws.map (·.2) = parts.flatten ∧
      fillColumn (parts.map List.length) parts = .ok parts.flatten := by
  refine ⟨placed 0 parts.flatten, fillArr_ok parts, ?_, placed_snd 0 _, fillColumn_ok parts⟩
  rw [placed_fst, List.length_flatten, List.range_eq_range']

/-- The same for the named arrays of both sides: halo arrays (`halo_ticker`, `Nhalos`) and particle arrays
(`parts_ticker`, `Nparts`) go through the same `concatCols`; on slabs given as records the result is the
arrays of the concatenated records (this is `concat_rows`). -/
theorem fill_is_concat_cols (names : List String) (slabs : List (List (HaloRec Val))) :
    concatCols names (slabs.map (toCols names)) = .ok (toCols names slabs.flatten) :=
  concatCols_toCols names slabs

/-! ### what an array row is computed from -/

/-- **eval_rowwise.**  The values a slab contributes to array `v` are computed row by row: row `i` of the
array is the source expression evaluated on row `i` of the dataset (stacked three times for a 1-D
velocity-deviate column), so filling cannot mix rows. -/
theorem eval_rowwise (ops : Ops Val) (tab : List (String × Src)) (veldev1d : Bool)
    (fields : List String) (recs : List (HaloRec Val)) (v : String) (src : Src)
    (hsrc : sourcesOf tab v = [src]) (hf : ∀ f ∈ srcFields src, f ∈ fields) :
    slabArray ops tab veldev1d (toCols fields recs) v =
      .ok (v, recs.map (fun r => if veldev1d && v == "hveldev" then ops.triple (evalRec ops r src)
                                 else evalRec ops r src)) := by
  unfold slabArray singleSource
  rw [hsrc]
  simp only [evalSrc_toCols ops fields recs src hf]
  cases veldev1d && v == "hveldev" <;> simp

/-! ### duplicate ids -/

/-- **argsort_stable.**  The sort index orders by id and, among equal ids, by position in the file: it is the
stable argsort.  (None of the theorems above assumes duplicate-free ids; `np.argsort`'s default kind is not
stable, which is why the correspondence stays duplicate-free.) -/
theorem argsort_stable (hid : List Nat) :
    ∃ ps : List (Nat × Nat), argsort hid = ps.map (·.2) ∧ (∀ p ∈ ps, hid[p.2]? = some p.1) ∧
      ps.Pairwise (fun a b => a.1 < b.1 ∨ (a.1 = b.1 ∧ a.2 < b.2)) :=
  ⟨sortedPairs hid, argsort_eq hid, sortedPairs_spec hid, sortedPairs_lex hid⟩

/-- With duplicate ids `pinds[p]` is the *first* row carrying the host id: every earlier row has a smaller id. -/
theorem pinds_first_occurrence (hid : List Nat) (host i : Nat) (x : Nat)
    (hi : i < searchsortedLeft hid host) (hx : hid[i]? = some x) : x < host := by
  unfold searchsortedLeft at hi
  have hlt : i < hid.length := by
    rcases Nat.lt_or_ge i hid.length with h | h
    · exact h
    · rw [List.getElem?_eq_none h] at hx; cases hx
  have := List.not_of_lt_findIdx (p := fun x => decide (host ≤ x)) (xs := hid) hi
  rw [List.getElem?_eq_getElem hlt] at hx
  cases hx
  simpa using this

/-! ### non-vacuity: concrete, non-trivial instances -/

section NonVacuity

/-- three halos in two slab files, ids decreasing across the slabs; attribute `n` of halo `i` is `(n, i)` -/
def exRec (i : Nat) : HaloRec (String × Nat) := { id := i, attr := fun n => (n, i) }
def exSlabs : List (List (HaloRec (String × Nat))) := [[exRec 7, exRec 9], [exRec 2]]

-- the hypotheses of `sort_rows_aligned` on a concrete unsorted input, and what the model returns
example : ∀ n ∈ ["hc", "hrvir"], n ∈ ["hid", "hc", "hrvir"] := by decide
example : sortedB ((exSlabs.flatten).map (·.id)) = false := by decide
example : (sortBlock ["hid", "hc", "hrvir"] (toCols ["hc", "hrvir"] exSlabs.flatten)).toOption.map
      (fun t => (t.hid, t.cols)) =
    some ([2, 7, 9], [("hc", [("hc", 2), ("hc", 7), ("hc", 9)]), ("hrvir", [("hrvir", 2), ("hrvir", 7), ("hrvir", 9)])]) := by
  decide +kernel

-- the hypothesis is not decorative: with `hc` missing from the permuted list (the pre-fix code) the model
-- returns `hc` in file order next to sorted ids — row 0 has id 2 and the concentration of halo 7
example : (sortBlock ["hid", "hrvir"] (toCols ["hc", "hrvir"] exSlabs.flatten)).toOption.map
      (fun t => (t.hid, t.cols)) =
    some ([2, 7, 9], [("hc", [("hc", 7), ("hc", 9), ("hc", 2)]), ("hrvir", [("hrvir", 2), ("hrvir", 7), ("hrvir", 9)])]) := by
  decide +kernel

-- `hid` left out of the sort block: the assert fires
example : (sortBlock ["hc", "hrvir"] (toCols ["hc", "hrvir"] exSlabs.flatten)).toOption.map (·.hid) = none := by
  decide +kernel

-- staging_rows_aligned on the observed tables: the entry with every flag on has 12 named arrays + hid
example : ∃ e ∈ byFlags, e.flags = flagNames ∧ (haloNames e).length = 12 ∧ e.returned.length = 13 := by decide +kernel
example : ∀ e ∈ byFlags, 9 ≤ (haloNames e).length := by decide +kernel
example : ((entryOf ["want_AB"]).map (fun e => ((stageHalos e.permuted (haloNames e)
      (exSlabs.map (toCols (haloNames e)))).toOption.map (·.hid)))) = some (some [2, 7, 9]) := by
  decide +kernel

-- ids_sorted / already_sorted_noop / pinds_points_to_host
example : ([7, 9, 2] : List Nat).Nodup := by decide
example : sortedB [2, 7, 9] = true := by decide
example : ([2, 7, 9] : List Nat).Pairwise (· ≤ ·) := by decide
example : pinds [2, 7, 9] [7, 9, 9, 2] = [1, 2, 2, 0] := by decide
example : (9 : Nat) ∈ [2, 7, 9] ∧ ([7, 9, 9, 2] : List Nat)[2]? = some 9 := by decide

-- fill loop: three slabs, an empty one in the middle
example : fillColumn [2, 0, 1] [[10, 11], [], [12]] = .ok [10, 11, 12] := by rfl
example : (fillArr 3 [2, 0, 1] [[10, 11], [], [12]]).toOption = some [(0, 10), (1, 11), (2, 12)] := by decide
-- the ticker matters: advanced by slab 0's count every time, slab 2 lands on cell 2 and cell 3 never gets a value
example : fillColumnWith (fun _ => 0) [1, 2, 1] [[10], [11, 12], [13]] = .error .rejected := by rfl
-- … and a ticker that runs past the end makes the slice assignment fail (numpy: could not broadcast)
example : fillColumnWith (fun _ => 1) [1, 2, 2] [[10], [11, 12], [13, 14]] = .error .badLength := by rfl
-- duplicates: equal ids keep their file order
example : argsort [5, 3, 5, 3] = [1, 3, 0, 2] := by decide
example : pinds [3, 3, 5, 5] [5, 3] = [2, 0] := by decide
-- source expressions of the observed table
example : (entryOf ["want_expvel"]).map (fun e => sourcesOf e.haloSources "hveldev") = some [.field "randoms_exp"] := by
  decide +kernel
example : (entryOf []).map (fun e => sourcesOf e.haloSources "hveldev") = some [.field "randoms_gaus_vrms"] := by
  decide +kernel
example : (entryOf ["want_ranks", "want_AB"]).map (fun e => sourcesOf e.haloSources "hc") =
    some [.div (.field "r98_L2com") (.field "r25_L2com")] := by decide +kernel
example : 4 ≤ flagNames.length := by decide

end NonVacuity

end AbacusVerif.Staging
