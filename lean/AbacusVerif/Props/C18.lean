/-
  C18 — every eigenvector code decodes to a distinct orthonormal triad.

  Property theorems about the model of `_unpack_euler16` (Model/C18.lean) instantiated with `ℝ`
  (exact `sqrt`, `cos`, `sin`, `π`), with the constants of `Generated/EulerConsts.lean`.
-/
import AbacusVerif.Lemmas.C18
import AbacusVerif.Lemmas.C18Cover

namespace AbacusVerif.Euler16
open AbacusVerif AbacusVerif.EulerConsts

/-- the index set of the format: 12 caps × {(it, ir) : it < TBIN, ir ≤ 2·it} (= TBIN² cells) × ABIN
azimuth bins -/
def ValidSplit (s : Split) : Prop :=
  s.cap < NCAP ∧ s.it < EULER_TBIN ∧ s.ir ≤ 2 * s.it ∧ s.iaz < EULER_ABIN

instance (s : Split) : Decidable (ValidSplit s) := by unfold ValidSplit; infer_instance

/-- **split_bijective.**  The way the code takes the 16-bit value apart is a bijection from the valid
codes `[0, 12·TBIN²·ABIN)` onto the index set, with inverse `join`
(`((cap·TBIN² + it² + ir)·ABIN + iaz`). -/
theorem split_bijective :
    Set.BijOn split {c | c < NCODE} {s | ValidSplit s} ∧
      (∀ c, join (split c) = c) ∧ (∀ s, ValidSplit s → split (join s) = s) := by
  have hA : 0 < EULER_ABIN := by decide
  have hT : 0 < EULER_TBIN := by decide
  have hjs : ∀ c, join (split c) = c := fun c => joinWith_splitWith _ _ c
  have hsj : ∀ s, ValidSplit s → split (join s) = s :=
    fun s h => splitWith_joinWith _ _ s h.2.1 h.2.2.1 h.2.2.2
  refine ⟨⟨?_, ?_, ?_⟩, hjs, hsj⟩
  · intro c hc
    exact splitWith_valid EULER_ABIN EULER_TBIN NCAP c hA hT hc
  · intro c _ c' _ h
    rw [← hjs c, ← hjs c', h]
  · intro s hs
    refine ⟨join s, ?_, hsj s hs⟩
    obtain ⟨h1, h2, h3, h4⟩ := hs
    show joinWith _ _ s < NCODE
    unfold joinWith NCODE
    have h5 : s.it * s.it + s.ir < EULER_TBIN * EULER_TBIN := by
      have : (s.it + 1) * (s.it + 1) ≤ EULER_TBIN * EULER_TBIN := Nat.mul_le_mul h2 h2
      nlinarith
    have h6 : s.cap * (EULER_TBIN * EULER_TBIN) + s.it * s.it + s.ir + 1 ≤ NCAP * (EULER_TBIN * EULER_TBIN) := by
      have : (s.cap + 1) * (EULER_TBIN * EULER_TBIN) ≤ NCAP * (EULER_TBIN * EULER_TBIN) :=
        Nat.mul_le_mul_right _ h1
      nlinarith
    have h7 := Nat.mul_le_mul_right EULER_ABIN h6
    nlinarith

-- non-vacuity: the domain is the 65 340 codes of the format; a mid-range code and its fields
example : NCODE = 65340 := by decide
example : join ⟨2, 5, 7, 15⟩ = 12345 ∧ ValidSplit ⟨2, 5, 7, 15⟩ ∧ (12345 : Nat) < NCODE := by decide
example : split 12345 = ⟨2, 5, 7, 15⟩ :=
  split_bijective.2.2 ⟨2, 5, 7, 15⟩ (by decide)
-- the last valid code is the last cell of the last cap; the next value is outside the index set
example : split 65339 = ⟨11, 10, 20, 44⟩ ∧ ValidSplit ⟨11, 10, 20, 44⟩ :=
  ⟨split_bijective.2.2 ⟨11, 10, 20, 44⟩ (by decide), by decide⟩
example : ¬ ValidSplit (split 65340) := by
  have h : split (join ⟨12, 0, 0, 0⟩) = ⟨12, 0, 0, 0⟩ := splitWith_joinWith _ _ _ (by decide) (by decide) (by decide)
  have : join ⟨12, 0, 0, 0⟩ = 65340 := by decide
  rw [this] at h
  rw [h]; decide

/-- **triad_orthonormal.**  For every one of the twelve caps and for ALL real `xx`, `yy` (the
un-normalised in-cap coordinates, `zz = 1/√(1+xx²+yy²)` as the code defines it) and ALL real azimuths
`az` — hence in particular for the values every valid code produces — the three decoded vectors have
unit length, are mutually orthogonal, and `middle = minor × major`.
Uses only: `1 + xx² + yy² > 0`, and `cos² + sin² = 1`. -/
theorem triad_orthonormal (cap : Nat) (hcap : cap < NCAP) (xx yy az : ℝ) :
    let T := triadOf cap xx yy az
    dot T.major T.major = 1 ∧ dot T.minor T.minor = 1 ∧ dot T.middle T.middle = 1 ∧
      dot T.minor T.major = 0 ∧ dot T.minor T.middle = 0 ∧ dot T.middle T.major = 0 ∧
      T.middle = cross T.minor T.major := by
  obtain ⟨hu, hz, -, -⟩ := direction_unit xx yy
  have hcs : Real.cos az * Real.cos az + Real.sin az * Real.sin az = 1 := by
    have := Real.cos_sq_add_sin_sq az
    nlinarith
  simp only [triadOf, ofRat_real, Rat.cast_one, cos_real, sin_real]
  generalize direction xx yy = d at hu hz
  exact triad_finish _ _ (major_unit cap _ _ _ hcap (by linarith))
    (minorRaw_perp cap _ _ _ _ _ hcap hz.ne') (minorRaw_pos cap _ _ _ hcap hcs)

/-- every valid code decodes to an orthonormal right-handed triad -/
theorem decode_orthonormal (code : Nat) (hc : code < NCODE) :
    let T : Triad ℝ := decode code
    dot T.major T.major = 1 ∧ dot T.minor T.minor = 1 ∧ dot T.middle T.middle = 1 ∧
      dot T.minor T.major = 0 ∧ dot T.minor T.middle = 0 ∧ dot T.middle T.major = 0 ∧
      T.middle = cross T.minor T.major :=
  triad_orthonormal _ (split_bijective.1.1 hc).1 _ _ _

-- non-vacuity: cap 7 (a "−yy" branch of the middle group), a generic direction and azimuth
example : let T := triadOf 7 (-3/10 : ℝ) (4/5) 1
    dot T.minor T.major = 0 ∧ T.middle = cross T.minor T.major :=
  let h := triad_orthonormal 7 (by decide) (-3/10) (4/5) 1
  ⟨h.2.2.2.1, h.2.2.2.2.2.2⟩
example : (12345 : Nat) < NCODE := by decide

/-- the decoded major axis as a function of `(cap, it, ir)` — it does not depend on the azimuth bin -/
noncomputable def majorAt (cap it ir : Nat) : V3 ℝ :=
  majorOf cap (cellDir it ir).1 (cellDir it ir).2.1 (cellDir it ir).2.2

theorem decode_major (code : Nat) :
    (decode code : Triad ℝ).major = majorAt (split code).cap (split code).it (split code).ir := rfl

/-- **major_injective_in_cap.**  Within one cap, different cells `(it, ir)` decode to different
major axes. -/
theorem major_injective_in_cap (cap : Nat) (hcap : cap < NCAP) (it ir it' ir' : Nat)
    (hit : it < EULER_TBIN) (hit' : it' < EULER_TBIN)
    (h : majorAt cap it ir = majorAt cap it' ir') : it = it' ∧ ir = ir' := by
  obtain ⟨h1, h2, h3⟩ := majorOf_inj cap hcap h
  exact cellDir_inj hit hit' h1 h2 h3

-- non-vacuity: two neighbouring cells of cap 3 (same `it`, adjacent `ir`) have different major axes
example : majorAt 3 5 7 ≠ majorAt 3 5 8 := fun h =>
  absurd (major_injective_in_cap 3 (by decide) 5 7 5 8 (by decide) (by decide) h).2 (by decide)

/-- **caps_disjoint.**  Major axes decoded in different caps are different: in every cell
`|xx| < yy < zz`, and the twelve caps place `(xx, ±yy, zz)` in twelve different dominance patterns. -/
theorem caps_disjoint (cap cap' : Nat) (hcap : cap < NCAP) (hcap' : cap' < NCAP) (it ir it' ir' : Nat)
    (hit : it < EULER_TBIN) (hir : ir ≤ 2 * it) (hit' : it' < EULER_TBIN) (hir' : ir' ≤ 2 * it')
    (h : majorAt cap it ir = majorAt cap' it' ir') : cap = cap' := by
  obtain ⟨a1, a2, -, a4⟩ := cellDir_order it ir hit hir
  obtain ⟨b1, b2, -, b4⟩ := cellDir_order it' ir' hit' hir'
  exact majorOf_cap_inj cap cap' hcap hcap' a1 a2 a4 b1 b2 b4 h

-- non-vacuity: caps 0 and 1 differ only in the sign of `yy`; cells next to the shared edge
example : majorAt 0 10 20 ≠ majorAt 1 10 20 := fun h =>
  absurd (caps_disjoint 0 1 (by decide) (by decide) 10 20 10 20 (by decide) (by decide) (by decide) (by decide) h)
    (by decide)

/-- **minor_injective.**  Two valid codes whose caps belong to the same group of four (in particular
two codes with the same major axis) and that decode to the same minor axis have the same azimuth bin. -/
theorem minor_injective (c c' : Nat) (hc : c < NCODE) (hc' : c' < NCODE)
    (hg : (split c).cap / 4 = (split c').cap / 4)
    (h : (decode c : Triad ℝ).minor = (decode c' : Triad ℝ).minor) :
    (split c).iaz = (split c').iaz := by
  obtain ⟨v1, -, -, v4⟩ := split_bijective.1.1 hc
  obtain ⟨w1, -, -, w4⟩ := split_bijective.1.1 hc'
  have hcs : ∀ az : ℝ, Real.cos az * Real.cos az + Real.sin az * Real.sin az = 1 := fun az => by
    have := Real.cos_sq_add_sin_sq az
    nlinarith
  simp only [decode, triadOf, ofRat_real, Rat.cast_one, cos_real, sin_real] at h
  have hcos := minor_cos_inj _ _ v1 w1 hg _ _ (hcs _) (hcs _) h
  obtain ⟨p1, p2⟩ := azOf_range _ v4
  obtain ⟨q1, q2⟩ := azOf_range _ w4
  exact azOf_inj (Real.injOn_cos ⟨p1.le, p2.le⟩ ⟨q1.le, q2.le⟩ hcos)

-- non-vacuity: codes 12345 and 12346 differ only in the azimuth bin (15 vs 16)
example : (decode 12345 : Triad ℝ).minor ≠ (decode 12346 : Triad ℝ).minor := fun h => by
  have e1 : split 12345 = ⟨2, 5, 7, 15⟩ := split_bijective.2.2 ⟨2, 5, 7, 15⟩ (by decide)
  have e2 : split 12346 = ⟨2, 5, 7, 16⟩ := split_bijective.2.2 ⟨2, 5, 7, 16⟩ (by decide)
  have := minor_injective 12345 12346 (by decide) (by decide) (by rw [e1, e2]) h
  rw [e1, e2] at this
  exact absurd this (by decide)

/-- **decode_injective.**  Distinct valid codes decode to distinct triads. -/
theorem decode_injective (c c' : Nat) (hc : c < NCODE) (hc' : c' < NCODE)
    (h : (decode c : Triad ℝ) = decode c') : c = c' := by
  obtain ⟨v1, v2, v3, v4⟩ := split_bijective.1.1 hc
  obtain ⟨w1, w2, w3, w4⟩ := split_bijective.1.1 hc'
  have hM : majorAt (split c).cap (split c).it (split c).ir =
      majorAt (split c').cap (split c').it (split c').ir := by
    rw [← decode_major, ← decode_major, h]
  have e1 : (split c).cap = (split c').cap := caps_disjoint _ _ v1 w1 _ _ _ _ v2 v3 w2 w3 hM
  rw [← e1] at hM
  obtain ⟨e2, e3⟩ := major_injective_in_cap _ v1 _ _ _ _ v2 w2 hM
  have e4 : (split c).iaz = (split c').iaz :=
    minor_injective c c' hc hc' (by rw [e1]) (by rw [h])
  apply split_bijective.1.2.1 hc hc'
  cases hs : split c; cases hs' : split c'
  simp only [hs, hs'] at e1 e2 e3 e4
  subst e1 e2 e3 e4
  rfl

-- non-vacuity: first and last valid code
example : (decode 0 : Triad ℝ) ≠ decode 65339 := fun h =>
  absurd (decode_injective 0 65339 (by decide) (by decide) h) (by decide)

/-- **norm_cap_edge.**  The generated constant `EULER_NORM` is (to 10⁻¹⁴) the value documented in the
source, `1/√(1 − 1/√2)`: with `u = 1/EULER_NORM` — the rescaled parameter of the cap edge `t = 1` —
`2u⁴ − 4u² + 1` vanishes to 10⁻¹⁴, and by `gfun_eq_one_iff` that polynomial vanishes exactly when the
edge `t = 1` decodes to `yy/zz = 1`, i.e. when the twelve cap regions `|xx| ≤ yy ≤ zz` are filled
exactly up to their common boundaries. -/
theorem norm_cap_edge :
    |2 * (1 / EULER_NORM) ^ 4 - 4 * (1 / EULER_NORM) ^ 2 + 1| < 1 / 10 ^ 14 ∧
      (0 : ℚ) < 1 / EULER_NORM ∧ 1 / EULER_NORM < 1 := by
  unfold EULER_NORM
  refine ⟨?_, by norm_num, by norm_num⟩
  rw [abs_lt]
  constructor <;> norm_num

/-
  The coverage clause of the property ("the decoded major axes cover all directions, up to sign, to
  within the angular cell size of the format (about 4 degrees)") is proved below as `coverage`, with
  the explicit bound `1 − (v·major)² ≤ 0.00665`, i.e. an angle of at most arcsin √0.00665 = 4.678° to
  `±major`.  `coverage_partial` is its first layer and is kept as a theorem of its own:
    (1) up to sign, every vector lies in the closed region `|xx| ≤ yy ≤ zz` of one of the twelve cap
        arrangements `majorOf cap` (the 12 caps × 2 signs of `xx` × 2 overall signs are the 48 chambers
        of the octahedral group), so no direction is outside all caps;
    (2) inside a cap the cell centres form a net of the parameter square `(t, r) ∈ [0,1] × [-1,1]`
        (`t = (it+½)/TBIN`, `r = (ir+½)/(it+½) − 1`): every `t` is within `1/(2·TBIN)` of a bin centre and,
        in row `it`, every `r` is within `1/(2·it+1)` of a bin centre.
  What is NOT proved: the exact covering radius.  The bound of `coverage` is the radius of a cell seen
  from its own centre (the direction is compared with the centre of the cell whose bins contain it; for
  the single cell of row 0 that radius really is ≈ 4.54°), whereas the measured covering radius of the
  1452 decoded axes is 3.14° (harness/props/c18.py, a test) because a direction near a cell corner is
  closer to the centre of a neighbouring cell or cap.
-/
theorem coverage_partial :
    (∀ v : V3 ℝ, ∃ cap, cap < NCAP ∧ ∃ σ : ℝ, (σ = 1 ∨ σ = -1) ∧ ∃ x y z : ℝ,
        |x| ≤ y ∧ y ≤ z ∧ scale3 v σ = majorOf cap x y z) ∧
      (∀ t : ℝ, 0 ≤ t → t ≤ 1 → ∃ it, it < EULER_TBIN ∧
        |t - ((it : ℝ) + 1 / 2) / (EULER_TBIN : ℝ)| ≤ 1 / (2 * (EULER_TBIN : ℝ))) ∧
      (∀ (it : Nat) (r : ℝ), -1 ≤ r → r ≤ 1 → ∃ ir, ir ≤ 2 * it ∧
        |r - (rParam it ir : ℝ)| ≤ 1 / (2 * (it : ℝ) + 1)) := by
  refine ⟨fun v => ?_, fun t h0 h1 => ?_, fun it r h0 h1 => ?_⟩
  · obtain ⟨a, b, c⟩ := v
    exact caps_cover_aux a b c
  · exact tnet t h0 h1
  · exact rnet it r h0 h1

-- non-vacuity: a direction in none of the coordinate planes, dominated by its (negative) y component
example : ∃ cap, cap < NCAP ∧ ∃ σ : ℝ, (σ = 1 ∨ σ = -1) ∧ ∃ x y z : ℝ,
    |x| ≤ y ∧ y ≤ z ∧ scale3 (⟨1 / 3, -2 / 3, 2 / 3⟩ : V3 ℝ) σ = majorOf cap x y z :=
  coverage_partial.1 _

/-- **coverage.**  For every unit vector `v` there is a valid code whose decoded major axis `m`
satisfies `1 − (v·m)² ≤ 0.00665`: the angle between `v` and `+m` or `−m` is at most
`arcsin √0.00665 = 4.678°` ("about 4 degrees").  Proof (Lemmas/C18Cover.lean): up to sign `v` lies in
a cap region `|x| ≤ y ≤ z` (`coverage_partial`); there `v ∝ (ρ·q, q, s)` with `s = 1 − u²`,
`q = u·√(2 − u²)`, `0 ≤ u ≤ 0.5411962` (this interval contains the exact cap edge
`√(1 − 1/√2) = 0.54119610…` and the last bin edge `1/EULER_NORM` of the generated constant, so the
1e-16 gap between the two is covered whatever its sign), `|ρ| ≤ 1`; `u` is within `0.0246` of a bin
centre `uOf it` and `ρ` within `1/(2it+1)` of an `r` centre; the decoded centre is
`∝ (r·qc, qc, sc)`, and `sin² ≤ |A×B|² = (1+r²)σ² + 2rσ·e·sc + e²` with `σ = sin(φ − φc)`,
`|σ| ≤ 2·|u − uc|/1.3065`, `e = (ρ − r)·q`; each of the 11 rows is bounded numerically (`row_bound`). -/
theorem coverage (v : V3 ℝ) (hv : dot v v = 1) :
    ∃ code, code < NCODE ∧
      1 - (dot v (decode code : Triad ℝ).major) ^ 2 ≤ 665 / 100000 := by
  obtain ⟨cap, hcap, σ, hσ, x, y, z, hxy, hyz, hmaj⟩ := coverage_partial.1 v
  have hσ2 : σ ^ 2 = 1 := by rcases hσ with h | h <;> rw [h] <;> norm_num
  have hunit : x * x + y * y + z * z = 1 := by
    rw [← majorOf_dot cap hcap x y z x y z, ← hmaj, dot_scale_scale, hσ2, hv, mul_one]
  obtain ⟨it, ir, hit, hir, hb⟩ := cell_cover x y z hunit hxy hyz
  have hvalid : ValidSplit ⟨cap, it, ir, 0⟩ := ⟨hcap, hit, hir, (by decide : 0 < EULER_ABIN)⟩
  obtain ⟨hbij, -, hsj⟩ := split_bijective
  refine ⟨join ⟨cap, it, ir, 0⟩, ?_, ?_⟩
  · obtain ⟨c, hc, hcs⟩ := hbij.2.2 hvalid
    have : c = join ⟨cap, it, ir, 0⟩ := by
      have h2 := split_bijective.2.1 c
      rw [hcs] at h2; exact h2.symm
    rw [← this]; exact hc
  · rw [decode_major, hsj _ hvalid]
    show 1 - (dot v (majorOf cap (cellDir it ir).1 (cellDir it ir).2.1 (cellDir it ir).2.2)) ^ 2 ≤ _
    have e : (dot v (majorOf cap (cellDir it ir).1 (cellDir it ir).2.1 (cellDir it ir).2.2)) ^ 2 =
        (x * (cellDir it ir).1 + y * (cellDir it ir).2.1 + z * (cellDir it ir).2.2) ^ 2 := by
      rw [← majorOf_dot cap hcap, ← hmaj, dot_scale_left, mul_pow, hσ2, one_mul]
    rw [e]; exact hb


-- non-vacuity: a unit vector in none of the coordinate planes
example : ∃ code, code < NCODE ∧
    1 - (dot (⟨1 / 3, -2 / 3, 2 / 3⟩ : V3 ℝ) (decode code : Triad ℝ).major) ^ 2 ≤ 665 / 100000 :=
  coverage _ (by simp only [dot]; norm_num)

/-- **coverage_degrees.**  The same in degrees: the angle `arccos |v·m|` between a unit vector `v` and
the line of the nearest decoded major axis found by `coverage` is at most 4.7° (`|v·m| ≤ 1`, so the
`arccos` is the angle). -/
theorem coverage_degrees (v : V3 ℝ) (hv : dot v v = 1) :
    ∃ code, code < NCODE ∧ |dot v (decode code : Triad ℝ).major| ≤ 1 ∧
      Real.arccos |dot v (decode code : Triad ℝ).major| ≤ 47 / 10 * (Real.pi / 180) := by
  obtain ⟨code, hc, h⟩ := coverage v hv
  refine ⟨code, hc, ?_, arccos_le_of_sin2 (abs_nonneg _) (by rw [sq_abs]; exact h)⟩
  have hm := (decode_orthonormal code hc).1
  have hL := dot_cross_self v (decode code : Triad ℝ).major
  rw [hv, hm] at hL
  have h0 := dot_self_nonneg (cross v (decode code : Triad ℝ).major)
  rw [← sq_le_one_iff_abs_le_one]
  linarith

-- non-vacuity
example : ∃ code, code < NCODE ∧
    Real.arccos |dot (⟨2 / 7, 3 / 7, -6 / 7⟩ : V3 ℝ) (decode code : Triad ℝ).major|
      ≤ 47 / 10 * (Real.pi / 180) := by
  obtain ⟨c, h1, -, h2⟩ := coverage_degrees ⟨2 / 7, 3 / 7, -6 / 7⟩ (by simp only [dot]; norm_num)
  exact ⟨c, h1, h2⟩

end AbacusVerif.Euler16
