/-
  C08 — the source-level premise of the thread-schedule theorems: every store inside a `numba.prange`
  loop of the anchored kernels goes to memory owned by the iteration (or thread) that performs it.
  The table is regenerated from /repo by harness/extract/prange.py on every run; an edit that makes two
  iterations write the same cell shows up as a "shared" entry and this theorem stops checking.

  Why these kinds are private: every accumulation in `bin_kmu` / `bin_kppi` goes to the accumulator row of the executing thread (`tid = numba.get_thread_id()`), which is what `thread_independent` sums over.

  `loopvar`, `tid` (the executing thread's own row) and `local` (an array created inside the loop body) are
  unconditionally private and allowed everywhere; `block` / `cursor` kinds are allowed only where a theorem of this
  property proves the blocks / cursors disjoint.
-/
import AbacusVerif.Generated.PrangeC08

namespace AbacusVerif.PrangeC08

def allowedKinds : List String := ["tid", "loopvar", "local"]

/-- every store in every `prange` loop is of a private kind -/
theorem prange_writes_private : ∀ e ∈ prangeWrites, e.2.2 ∈ allowedKinds := by decide +kernel

/-- the table is not empty (the translator found the loops) -/
theorem prange_table_nonempty : prangeWrites ≠ [] := by decide +kernel

end AbacusVerif.PrangeC08
