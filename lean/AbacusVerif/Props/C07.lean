/-
  C07 — parallel TSC equals serial TSC under every thread schedule.

  Property theorems about the model of `tsc_parallel` / `_tsc_parallel` / `_tsc_scatter`'s row footprint
  (Model/C07.lean) and the generic interleaving model (Lemmas/Conc.lean).
-/
import AbacusVerif.Lemmas.C07Aux

namespace AbacusVerif.TscPar
open AbacusVerif AbacusVerif.Conc

/-- **rows_disjoint.**  Even number of stripes, each at least three cells wide, offset between 0 and one
cell: two particles of distinct stripes of equal parity (the stripes one loop of `_tsc_parallel` processes
concurrently) touch disjoint sets of rows, also across the periodic boundary and with the last stripe
closed at `g`.  (False at `off = -1/2` and `off = 3/2`, so the hypothesis on `off` is real.) -/
theorem rows_disjoint (g np : Nat) (hnp : 2 ∣ np) (hw : 3 * np ≤ g) (off : ℚ) (ho0 : 0 ≤ off) (ho1 : off ≤ 1)
    (p p' : ℚ) (hp0 : 0 ≤ p) (hpg : p ≤ g) (hp0' : 0 ≤ p') (hpg' : p' ≤ g)
    (hs : stripeOf np g p ≠ stripeOf np g p')
    (hpar : stripeOf np g p % 2 = stripeOf np g p' % 2) :
    ∃ r r', rowsOf g (p + off) = .ok r ∧ rowsOf g (p' + off) = .ok r' ∧ ∀ x ∈ r, x ∉ r' :=
  rows_disjoint_core g np hnp hw off ho0 ho1 p p' hp0 hpg hp0' hpg' hs hpar

-- g = 12, four stripes of three cells, half-cell offset: the top of stripe 0 and the bottom of stripe 2,
-- and the periodic neighbours stripe 1 (bottom) / stripe 3 (closed end p = g)
example : stripeOf 4 12 (47/16) = 0 ∧ stripeOf 4 12 6 = 2 ∧
    rowsOf 12 (47/16 + 1/2) = .ok [2, 3, 4] ∧ rowsOf 12 (6 + 1/2) = .ok [5, 6, 7] := by decide +kernel
example : stripeOf 4 12 3 = 1 ∧ stripeOf 4 12 12 = 3 ∧
    rowsOf 12 (3 + 1/2) = .ok [3, 4, 5] ∧ rowsOf 12 (12 + 1/2) = .ok [11, 0, 1] := by decide +kernel
-- the offset hypothesis is needed: at off = 3/2 the particle at the closed end reaches row 3 of stripe 1
example : rowsOf 12 (12 + 3/2) = .ok [1, 2, 3] ∧ rowsOf 12 (3 + 3/2) = .ok [3, 4, 5] := by decide +kernel

/-! ### the properties -/

/-- with two stripes each loop of `_tsc_parallel` has a single iteration: nothing runs concurrently -/
theorem two_stripes_safe (starts : List Nat) (h : starts.length = 3) :
    ∃ j1 j2, phases starts = .ok ([j1], [j2]) ∧ j1.stripe = 0 ∧ j2.stripe = 1 := by
  obtain ⟨p1, p2, e, _, s1, s2⟩ := phases_spec starts 2 (by omega) h
  have r1 : (List.range ((2 + 1) / 2)).map (fun i => 2 * i) = [0] := by decide
  have r2 : (List.range (2 / 2)).map (fun i => 2 * i + 1) = [1] := by decide
  rw [r1] at s1
  rw [r2] at s2
  have l1 : p1.length = 1 := by simpa using congrArg List.length s1
  have l2 : p2.length = 1 := by simpa using congrArg List.length s2
  obtain ⟨j1, rfl⟩ := List.length_eq_one_iff.1 l1
  obtain ⟨j2, rfl⟩ := List.length_eq_one_iff.1 l2
  exact ⟨j1, j2, e, by simpa using s1, by simpa using s2⟩


example : (phases [0,4,9]).toOption.map
    (fun p => (p.1.map (fun j => (j.stripe, j.lo, j.hi)), p.2.map (fun j => (j.stripe, j.lo, j.hi)))) =
    some ([(0,0,4)],[(1,4,9)]) := by decide

/-- whatever `tsc_parallel` accepts is a single stripe, a single thread, two stripes, or an even
number of stripes at least three cells wide -/
theorem accepted_is_safe (n1d nthread : Nat) (np? : Option Int) (k : Nat)
    (h : choosePartition n1d nthread np? = .ok k) :
    k = 1 ∨ nthread ≤ 1 ∨ k = 2 ∨ (2 ∣ k ∧ 3 * k ≤ n1d) := by
  unfold choosePartition at h
  by_cases hth : nthread ≤ 1
  · exact Or.inr (Or.inl hth)
  have hth0 : ¬ nthread = 0 := by omega
  have hth1 : ((nthread : Nat) : Int) > 1 := by omega
  simp only [hth0, if_false, hth1, and_true, if_true] at h
  have key : ∀ np : Int, (np = max (2 * (min ((n1d : Int) / 3) (2 * (nthread : Int)) / 2)) 1 ∨ np? = some np) →
      (if np > max ((n1d : Int) / 3) 2 then (Except.error Fault.rejected : Except Fault Nat)
       else if np > 1 ∧ np % 2 ≠ 0 then .error .rejected
       else if np > 1 then .ok np.toNat else .ok 1) = .ok k →
      k = 1 ∨ nthread ≤ 1 ∨ k = 2 ∨ (2 ∣ k ∧ 3 * k ≤ n1d) := by
    intro np _ h
    split at h
    · cases h
    split at h
    · cases h
    split at h
    · injection h with h
      subst h
      by_cases hk : np.toNat = 2
      · exact Or.inr (Or.inr (Or.inl hk))
      · refine Or.inr (Or.inr (Or.inr ⟨?_, ?_⟩))
        · apply Nat.dvd_of_mod_eq_zero
          omega
        · omega
    · injection h with h
      exact Or.inl h.symm
  cases np? with
  | none => exact key _ (Or.inl rfl) (by simpa using h)
  | some v =>
    by_cases hv : v = 0
    · subst hv
      exact key _ (Or.inl rfl) (by simpa using h)
    · exact key v (Or.inr rfl) (by simpa [hv] using h)

example : choosePartition 18 16 none = .ok 6 := by decide
example : choosePartition 12 4 (some 4) = .ok 4 := by decide
example : choosePartition 8 2 (some 4) = .error .rejected := by decide
example : choosePartition 12 4 (some 3) = .error .rejected := by decide

/-- for every number of stripes (odd ones too) both loops only read `starts[0 .. np]`; the first loop
processes exactly the even stripes, the second exactly the odd ones, each stripe `s` as the slice
`starts[s] : starts[s+1]` -/
theorem starts_index_inbounds (starts : List Nat) (np : Nat) (hnp : 1 ≤ np) (hl : starts.length = np + 1) :
    ∃ p1 p2, phases starts = .ok (p1, p2) ∧
      (∀ j ∈ p1 ++ p2, j.hiIdx ≤ np ∧ j.loIdx = j.stripe ∧ j.hiIdx = j.stripe + 1 ∧
        starts[j.loIdx]? = some j.lo ∧ starts[j.hiIdx]? = some j.hi) ∧
      p1.map (·.stripe) = (List.range ((np + 1) / 2)).map (fun i => 2 * i) ∧
      p2.map (·.stripe) = (List.range (np / 2)).map (fun i => 2 * i + 1) :=
  phases_spec starts np hnp hl

example : (phases [0,2,2,5,7,9]).toOption.map (fun p => (p.1.map (·.stripe), p.2.map (·.stripe))) =
    some ([0,2,4],[1,3]) := by decide
example : (phases [0,2,2,5,7]).toOption.map (fun p => (p.1.map (·.hiIdx), p.2.map (·.hiIdx))) =
    some ([1,3],[2,4]) := by decide

/-- **parallel_eq_serial.**  Particles of type `P` with grid coordinate `coord` along the partition axis;
`dep x` is the list of `cell += value` updates particle `x` performs, all inside the three rows
`rowsOf g (coord x + off)` (`rowOfCell` maps a grid cell to its row along the axis); `S s` are the
particles of stripe `s`.  Loop 1 runs one read-modify-write thread per even stripe, loop 2 one per odd
stripe, starting from loop 1's result.  For a safe stripe count, **every** interleaving of each loop
leaves the grid that the sequential deposit of the partitioned particle list leaves. -/
theorem parallel_eq_serial {P : Type} (g np : Nat) (off : ℚ)
    (hsafe : np ≤ 2 ∨ (2 ∣ np ∧ 3 * np ≤ g)) (ho0 : 0 ≤ off) (ho1 : off ≤ 1)
    (coord : P → ℚ) (dep : P → List (Nat × ℚ)) (rowOfCell : Nat → Nat) (S : Nat → List P)
    (hS : ∀ s, ∀ x ∈ S s, 0 ≤ coord x ∧ coord x ≤ g ∧ stripeOf np g (coord x) = s)
    (hdep : ∀ s, ∀ x ∈ S s, ∃ r, rowsOf g (coord x + off) = .ok r ∧ ∀ cv ∈ dep x, rowOfCell cv.1 ∈ r)
    (r0 : ℚ) (m : Mem ℚ) (sched1 sched2 : List Nat)
    (h1 : ((start r0 m (((List.range ((np + 1) / 2)).map (fun i => (S (2 * i)).flatMap dep)).map rmwProg)).run sched1).finished)
    (h2 : ((start r0 ((start r0 m (((List.range ((np + 1) / 2)).map (fun i => (S (2 * i)).flatMap dep)).map rmwProg)).run sched1).mem
        (((List.range (np / 2)).map (fun i => (S (2 * i + 1)).flatMap dep)).map rmwProg)).run sched2).finished) :
    ((start r0 ((start r0 m (((List.range ((np + 1) / 2)).map (fun i => (S (2 * i)).flatMap dep)).map rmwProg)).run sched1).mem
        (((List.range (np / 2)).map (fun i => (S (2 * i + 1)).flatMap dep)).map rmwProg)).run sched2).mem =
      applyAdds m (((List.range ((np + 1) / 2)).map (fun i => (S (2 * i)).flatMap dep)).flatten ++
        ((List.range (np / 2)).map (fun i => (S (2 * i + 1)).flatMap dep)).flatten) := by
  have hdA : ((List.range ((np + 1) / 2)).map (fun i => (S (2 * i)).flatMap dep)).Pairwise
      (fun a b => ∀ c ∈ a.map (·.1), c ∉ b.map (·.1)) := by
    apply pairwise_range_map
    intro i j hij hj
    rcases hsafe with hle | ⟨hnp, hw⟩
    · omega
    · exact stripe_cells_disjoint g np off hnp hw ho0 ho1 coord dep rowOfCell S hS hdep (2 * i) (2 * j)
        (by omega) (by omega)
  have hdB : ((List.range (np / 2)).map (fun i => (S (2 * i + 1)).flatMap dep)).Pairwise
      (fun a b => ∀ c ∈ a.map (·.1), c ∉ b.map (·.1)) := by
    apply pairwise_range_map
    intro i j hij hj
    rcases hsafe with hle | ⟨hnp, hw⟩
    · omega
    · exact stripe_cells_disjoint g np off hnp hw ho0 ho1 coord dep rowOfCell S hS hdep (2 * i + 1) (2 * j + 1)
        (by omega) (by omega)
  rw [rmw_interleave r0 _ _ hdB sched2 h2, rmw_interleave r0 m _ hdA sched1 h1]
  simp only [applyAdds, List.foldl_append]

/-- four stripes three cells wide on a 12-cell axis, offset 1/2, one particle in stripe 0 (at 1, cell 2)
and one in stripe 2 (at 7, cell 8): the hypotheses hold, and the schedule load₀ load₁ store₀ store₁
that loses an update on a shared cell is harmless here -/
example (m : Mem ℚ) :
    ((start 0 ((start 0 m [rmwProg [(2, 1)], rmwProg [(8, 1)]]).run [0, 1, 0, 1]).mem
      [rmwProg [], rmwProg []]).run []).mem = applyAdds m [(2, 1), (8, 1)] := by
  have hS : ∀ s, ∀ x ∈ (fun s : Nat => match s with | 0 => [(1 : ℚ)] | 2 => [7] | _ => []) s,
      0 ≤ id x ∧ id x ≤ ((12 : Nat) : ℚ) ∧ stripeOf 4 12 (id x) = s := by
    intro s x hx
    match s, hx with
    | 0, hx => simp only [List.mem_singleton] at hx; subst hx; exact ⟨by norm_num, by norm_num, by decide +kernel⟩
    | 2, hx => simp only [List.mem_singleton] at hx; subst hx; exact ⟨by norm_num, by norm_num, by decide +kernel⟩
    | 1, hx => simp at hx
    | (n + 3), hx => simp at hx
  have hdep : ∀ s, ∀ x ∈ (fun s : Nat => match s with | 0 => [(1 : ℚ)] | 2 => [7] | _ => []) s,
      ∃ r, rowsOf 12 (id x + 1/2) = .ok r ∧ ∀ cv ∈ (fun x : ℚ => [((rhe (x + 1/2)).toNat, (1 : ℚ))]) x, id cv.1 ∈ r := by
    intro s x hx
    match s, hx with
    | 0, hx => simp only [List.mem_singleton] at hx; subst hx; exact ⟨[1,2,3], by decide +kernel, by decide +kernel⟩
    | 2, hx => simp only [List.mem_singleton] at hx; subst hx; exact ⟨[7,8,9], by decide +kernel, by decide +kernel⟩
    | 1, hx => simp at hx
    | (n + 3), hx => simp at hx
  have e2 : (rhe ((1 : ℚ) + 1/2)).toNat = 2 := by decide +kernel
  have e8 : (rhe ((7 : ℚ) + 1/2)).toNat = 8 := by decide +kernel
  have := parallel_eq_serial 12 4 (1/2) (Or.inr ⟨by decide, by decide⟩) (by norm_num) (by norm_num)
    id (fun x : ℚ => [((rhe (x + 1/2)).toNat, (1 : ℚ))]) id
    (fun s : Nat => match s with | 0 => [(1 : ℚ)] | 2 => [7] | _ => []) hS hdep 0 m [0, 1, 0, 1] []
  simp only [show (4 + 1) / 2 = 2 from rfl, List.range_succ, List.range_zero,
    List.nil_append, List.cons_append, List.map_cons, List.map_nil, List.flatMap_cons, List.flatMap_nil,
    List.append_nil, Nat.mul_zero, Nat.mul_one, Nat.zero_add, e2, e8, List.flatten_cons, List.flatten_nil] at this
  apply this
  · simp [Config.run, Config.step, stepThread, start, rmwProg, rmw, Config.finished]
  · simp [Config.run, start, rmwProg, Config.finished]
/-- in exact arithmetic the order of the updates is irrelevant: the same grid as depositing stripe 0, 1, 2, … -/
theorem parallel_eq_serial_stripe_order {P : Type} (np : Nat) (dep : P → List (Nat × ℚ)) (S : Nat → List P) (m : Mem ℚ) :
    applyAdds m (((List.range ((np + 1) / 2)).map (fun i => (S (2 * i)).flatMap dep)).flatten ++
        ((List.range (np / 2)).map (fun i => (S (2 * i + 1)).flatMap dep)).flatten) =
      applyAdds m ((List.range np).flatMap (fun s => (S s).flatMap dep)) :=
  applyAdds_perm (even_odd_perm (fun s => (S s).flatMap dep) np) m

/-- the two orders are different lists (five stripes, stripe `s` holding the one update `(s, 1)`) -/
example : ((List.range ((5 + 1) / 2)).map (fun i => ([2 * i]).flatMap (fun s => [(s, (1 : ℚ))]))).flatten ++
      ((List.range (5 / 2)).map (fun i => ([2 * i + 1]).flatMap (fun s => [(s, (1 : ℚ))]))).flatten =
    [(0,1),(2,1),(4,1),(1,1),(3,1)] ∧
    (List.range 5).flatMap (fun s => ([s]).flatMap (fun s => [(s, (1 : ℚ))])) =
    [(0,1),(1,1),(2,1),(3,1),(4,1)] := by decide +kernel
/-- **narrow_stripe_races.**  With stripes two cells wide (`g = 2·np`, the width the pre-fix code accepted)
two particles of the even stripes 0 and 2 write the same row 3, and two read-modify-write threads
sharing a cell have a schedule that loses an update. -/
theorem narrow_stripe_races (np : Nat) (hnp : 4 ≤ np) :
    ∃ p p' : ℚ, 0 ≤ p ∧ p ≤ (2 * np : Nat) ∧ 0 ≤ p' ∧ p' ≤ (2 * np : Nat) ∧
      stripeOf np (2 * np) p = 0 ∧ stripeOf np (2 * np) p' = 2 ∧
      ∃ r r', rowsOf (2 * np) p = .ok r ∧ rowsOf (2 * np) p' = .ok r' ∧ 3 ∈ r ∧ 3 ∈ r' := by
  have hq : (4 : ℚ) ≤ (np : ℚ) := by exact_mod_cast hnp
  have half : ((np : ℚ) / ((2 * np : Nat) : ℚ)) = 1 / 2 := by
    push_cast
    field_simp
  have t0 : truncInt ((7 / 4 : ℚ) * (1 / 2)) = 0 := by decide +kernel
  have t2 : truncInt ((4 : ℚ) * (1 / 2)) = 2 := by decide +kernel
  have r2 : rhe (7 / 4 : ℚ) = ((2 : Nat) : Int) := by decide +kernel
  have r4 : rhe (4 : ℚ) = ((4 : Nat) : Int) := by decide +kernel
  refine ⟨7 / 4, 4, by norm_num, ?_, by norm_num, ?_, ?_, ?_, [1, 2, 3], [3, 4, 5], ?_, ?_, by simp, by simp⟩
  · push_cast; linarith
  · push_cast; linarith
  · unfold stripeOf; rw [half, t0]; omega
  · unfold stripeOf; rw [half, t2]; omega
  · exact rowsOf_interior (2 * np) (7 / 4) 2 r2 (by omega) (by omega)
  · exact rowsOf_interior (2 * np) 4 4 r4 (by omega) (by omega)

example : stripeOf 4 8 (7/4) = 0 ∧ stripeOf 4 8 4 = 2 ∧
    rowsOf 8 (7/4) = .ok [1,2,3] ∧ rowsOf 8 4 = .ok [3,4,5] := by decide +kernel
/-- and two threads sharing row 3's cell do lose an update under some schedule -/
example (m : Mem ℚ) : ∃ sched, ((start 0 m [rmwProg [(3, 1)], rmwProg [(3, 1)]]).run sched).finished ∧
    ((start 0 m [rmwProg [(3, 1)], rmwProg [(3, 1)]]).run sched).mem 3 ≠ (applyAdds m [(3, 1), (3, 1)]) 3 :=
  lost_update_witness 0 m 3 1 1 one_ne_zero
end AbacusVerif.TscPar

