/-
  C17 — the source-level premise of the thread-schedule theorems: every store inside a `numba.prange`
  loop of the anchored kernels goes to memory owned by the iteration (or thread) that performs it.
  The table is regenerated from /repo by harness/extract/prange.py on every run; an edit that makes two
  iterations write the same cell shows up as a "shared" entry and this theorem stops checking.

  Why these kinds are private: histogram row `counts[t]`, the thread's own block of `keys`, scatter through cursors `pointers[t, k]` (distinct slots: `scatter_indices_perm`), per-stripe sort on the stripe's own slice.

  `loopvar`, `tid` (the executing thread's own row) and `local` (an array created inside the loop body) are
  unconditionally private and allowed everywhere; `block` / `cursor` kinds are allowed only where a theorem of this
  property proves the blocks / cursors disjoint.
-/
import AbacusVerif.Generated.PrangeC17

namespace AbacusVerif.PrangeC17

def allowedKinds : List String := ["loopvar", "tid", "local", "block", "block-shifted", "cursor"]

/-- every store in every `prange` loop is of a private kind -/
theorem prange_writes_private : ∀ e ∈ prangeWrites, e.2.2 ∈ allowedKinds := by decide +kernel

/-- the table is not empty (the translator found the loops) -/
theorem prange_table_nonempty : prangeWrites ≠ [] := by decide +kernel

end AbacusVerif.PrangeC17
