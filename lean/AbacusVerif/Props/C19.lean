/-
  C19 — cumsum writes exactly the selected partial sums for every length.

  Property theorems about `AbacusVerif.Cumsum.cumsum` (Model/C19.lean), for every input list,
  every output length, both flags, every offset and every element type with `+`.
-/
import AbacusVerif.Lemmas.C19

namespace AbacusVerif.Cumsum
open AbacusVerif

variable {α : Type} [Add α]

/-- the documented output length `N - 1 + initial + final` (an integer: it is −1 for `N = 0` with no flag) -/
def expectedLen (n : Nat) (initial final : Bool) : Int :=
  (n : Int) - 1 + (b2n initial : Int) + (b2n final : Int)

/-- An output of the wrong length is rejected before anything is read or written. -/
theorem cumsum_bad_length (arr : List α) (outLen : Nat) (initial final : Bool) (off : α)
    (h : (outLen : Int) ≠ expectedLen arr.length initial final) :
    cumsum arr outLen initial final off = .error .badLength := by
  unfold cumsum
  simp only [expectedLen] at h
  simp [h]

/-- closed form of the selected sums: the `k`-th selected sum is `s_{k + (1 - initial)}` -/
theorem selected_eq (arr : List α) (outLen : Nat) (initial final : Bool) (off : α)
    (h : (outLen : Int) = expectedLen arr.length initial final) :
    selected off arr initial final =
      (List.range outLen).map (fun k => psum off arr (k + (1 - b2n initial))) := by
  unfold selected expectedLen at *
  apply List.ext_getElem
  · cases initial <;> cases final <;> simp [b2n] at h ⊢ <;> omega
  · intro i h1 h2
    cases initial <;> cases final <;>
      simp [b2n, List.getElem_dropLast] at h h1 h2 ⊢ <;> congr 1 <;> omega

/-- **cumsum_spec.**  With an output of the documented length the routine does not fault, returns the
grand total `s_N`, writes cell `k` exactly once, in increasing order of `k`, with the `k`-th selected
partial sum, and every element it reads from `arr` or writes to `out` is inside the array. -/
theorem cumsum_spec (arr : List α) (outLen : Nat) (initial final : Bool) (off : α)
    (h : (outLen : Int) = expectedLen arr.length initial final) :
    ∃ s, cumsum arr outLen initial final off = .ok s ∧
      s.total = psum off arr arr.length ∧
      s.writes = (List.range outLen).zip (selected off arr initial final) ∧
      (selected off arr initial final).length = outLen ∧
      (∀ a ∈ s.trace, match a with
        | .readArr i => i < arr.length
        | .writeOut i => i < outLen) := by
  have hsel := selected_eq arr outLen initial final off h
  have hlen : (selected off arr initial final).length = outLen := by rw [hsel]; simp
  have hzip : (List.range outLen).zip (selected off arr initial final) =
      (List.range outLen).map (fun k => (k, psum off arr (k + (1 - b2n initial)))) := by
    rw [hsel]
    apply List.ext_getElem <;> simp
  rw [hzip]
  unfold expectedLen at h
  unfold cumsum
  have hne : ¬ ((outLen : Int) ≠ (arr.length : Int) - 1 + (b2n initial : Int) + (b2n final : Int)) := by
    simp [h]
  simp only [hne, if_false]
  by_cases hN : arr.length = 0
  · -- empty input
    simp only [hN, if_true]
    cases initial <;> cases final <;> simp only [b2n, hN] at h
    · -- neither: the documented length is -1
      exfalso; simp at h
    · -- final only: outLen = 0
      have h : outLen = 0 := by simp at h; omega
      subst h
      exact ⟨_, rfl, by simp [psum], by simp, hlen, by simp⟩
    · -- initial only: outLen = 0
      have h : outLen = 0 := by simp at h; omega
      subst h
      exact ⟨_, rfl, by simp [psum], by simp, hlen, by simp⟩
    · -- both: outLen = 1, one write of the offset
      have h : outLen = 1 := by simp at h; omega
      subst h
      simp only [Bool.and_self, if_true]
      rw [show ((0 : Int)) = ((0 : Nat) : Int) from rfl, writeOut_ok 1 0 (by omega)]
      refine ⟨_, rfl, by simp [psum], ?_, hlen, by simp⟩
      simp [b2n, psum, List.range_succ]
  · -- non-empty input
    have hpos : 0 < arr.length := Nat.pos_of_ne_zero hN
    simp only [hN, if_false]
    cases initial
    · -- no initial element
      simp only [b2n, Bool.false_eq_true, if_false, bind, Except.bind, Int.natCast_zero, Int.natCast_one] at h ⊢ -- (one of the two casts is unused per branch)
      rw [loop_spec off arr outLen 0 _ rfl (arr.length - 1) (by omega) (by cases final <;> simp at h <;> omega)]
      simp only [afterLoop]
      rw [addArr_last arr hpos]
      have hps : psum off arr (arr.length - 1) + arr[arr.length - 1] = psum off arr arr.length := by
        rw [← psum_succ off arr (arr.length - 1) (by omega)]; congr 1; omega
      cases final
      · -- neither flag: outLen = N - 1
        simp only [Bool.false_eq_true, if_false] at h ⊢
        have ho : outLen = arr.length - 1 := by omega
        refine ⟨_, rfl, hps, ?_, hlen, ?_⟩
        · subst ho; simp
        · intro a ha
          simp only [List.nil_append, List.mem_append, List.mem_flatMap, List.mem_range,
            List.mem_cons, List.not_mem_nil, or_false] at ha
          rcases ha with ⟨i, hi, rfl | rfl⟩ | rfl <;> simp <;> omega
      · -- final only: outLen = N
        simp only [if_true] at h ⊢
        have ho : outLen = arr.length := by omega
        rw [writeOut_last outLen (by omega)]
        refine ⟨_, rfl, hps, ?_, hlen, ?_⟩
        · subst ho
          simp only [List.nil_append, hps]
          conv => rhs; rw [show arr.length = (arr.length - 1) + 1 by omega, List.range_succ]
          simp
          congr 1 <;> omega
        · intro a ha
          simp only [List.nil_append, List.mem_append, List.mem_flatMap, List.mem_range,
            List.mem_cons, List.not_mem_nil, or_false] at ha
          rcases ha with (⟨i, hi, rfl | rfl⟩ | rfl) | rfl <;> simp <;> omega
    · -- initial element written first
      simp only [b2n, if_true, bind, Except.bind, Int.natCast_zero, Int.natCast_one] at h ⊢ -- (one of the two casts is unused per branch)
      rw [show ((0 : Int)) = ((0 : Nat) : Int) from rfl,
        writeOut_ok outLen 0 (by cases final <;> simp at h <;> omega)]
      simp only
      rw [loop_spec off arr outLen 1 _ rfl (arr.length - 1) (by omega) (by cases final <;> simp at h <;> omega)]
      simp only [afterLoop]
      rw [addArr_last arr hpos]
      have hps : psum off arr (arr.length - 1) + arr[arr.length - 1] = psum off arr arr.length := by
        rw [← psum_succ off arr (arr.length - 1) (by omega)]; congr 1; omega
      cases final
      · -- initial only: outLen = N
        simp only [Bool.false_eq_true, if_false] at h ⊢
        have ho : outLen = arr.length := by omega
        refine ⟨_, rfl, hps, ?_, hlen, ?_⟩
        · subst ho
          conv => rhs; rw [show arr.length = (arr.length - 1) + 1 by omega, List.range_succ_eq_map]
          simp [psum]
        · intro a ha
          simp only [List.nil_append, List.mem_append, List.mem_flatMap, List.mem_range,
            List.mem_cons, List.not_mem_nil, or_false] at ha
          rcases ha with (rfl | ⟨i, hi, rfl | rfl⟩) | rfl <;> simp <;> omega
      · -- both flags: outLen = N + 1
        simp only [if_true] at h ⊢
        have ho : outLen = arr.length + 1 := by omega
        rw [writeOut_last outLen (by omega)]
        refine ⟨_, rfl, hps, ?_, hlen, ?_⟩
        · subst ho
          simp only [hps, List.nil_append, Nat.add_sub_cancel]
          conv => rhs; rw [List.range_succ, List.map_append,
            show arr.length = (arr.length - 1) + 1 by omega, List.range_succ_eq_map]
          simp [psum]
          refine ⟨by omega, ?_⟩
          rw [show arr.length - 1 + 1 = arr.length by omega, List.take_length]
        · intro a ha
          simp only [List.nil_append, List.mem_append, List.mem_flatMap, List.mem_range,
            List.mem_cons, List.not_mem_nil, or_false] at ha
          rcases ha with ((rfl | ⟨i, hi, rfl | rfl⟩) | rfl) | rfl <;> simp <;> omega

/-- Applied to **any** array of the documented length, the writes leave exactly the selected sums:
no cell keeps its old content and none is written with anything else. -/
theorem cumsum_output (arr : List α) (out : List α) (initial final : Bool) (off : α)
    (h : (out.length : Int) = expectedLen arr.length initial final) :
    ∃ s, cumsum arr out.length initial final off = .ok s ∧
      applyWrites out s.writes = selected off arr initial final := by
  obtain ⟨s, hs, _, hw, hl, _⟩ := cumsum_spec arr out.length initial final off h
  refine ⟨s, hs, ?_⟩
  rw [hw, selected_eq arr out.length initial final off h]
  have : (List.range out.length).zip ((List.range out.length).map
      (fun k => psum off arr (k + (1 - b2n initial)))) =
      (List.range out.length).map (fun k => (k, psum off arr (k + (1 - b2n initial)))) := by
    apply List.ext_getElem <;> simp
  rw [this]
  exact applyWrites_range _ _ out rfl

/-- With the defaults (`initial = False`, `final = True`) the output is `numpy.cumsum`:
the running sums `offset + arr[0]`, `offset + arr[0] + arr[1]`, … -/
theorem cumsum_matches_numpy (arr : List α) (off : α) :
    selected off arr false true = (List.range arr.length).map (fun k => psum off arr (k + 1)) := by
  have := selected_eq arr arr.length false true off (by simp [expectedLen, b2n])
  simpa [b2n] using this

/-- The routine never faults on an output of the documented length (used by C11). -/
theorem cumsum_inbounds (arr : List α) (outLen : Nat) (initial final : Bool) (off : α)
    (h : (outLen : Int) = expectedLen arr.length initial final) :
    cumsum arr outLen initial final off ≠ .error .oob := by
  obtain ⟨s, hs, _⟩ := cumsum_spec arr outLen initial final off h
  rw [hs]; intro hh; cases hh

/-! ### non-vacuity: the hypotheses are met by concrete inputs of length 0, 1 and 4 -/

example : ((1 : Nat) : Int) = expectedLen ([] : List Int).length true true := by decide
example : ((0 : Nat) : Int) = expectedLen ([] : List Int).length true false := by decide
example : ((1 : Nat) : Int) = expectedLen ([7] : List Int).length false true := by decide
example : ((5 : Nat) : Int) = expectedLen ([1, 2, 3, 4] : List Int).length true true := by decide
example : (cumsum ([1, 2, 3, 4] : List Int) 5 true true 10).toOption.map (·.writes) =
    some [(0, 10), (1, 11), (2, 13), (3, 16), (4, 20)] := by decide
example : (cumsum ([] : List Int) 1 true true 10).toOption.map (·.writes) = some [(0, 10)] := by decide
example : (cumsum ([] : List Int) 0 false true 10).toOption.map (·.total) = some 10 := by decide

end AbacusVerif.Cumsum
