/-
  C08 — every Fourier mode is binned exactly once into the right (k, mu) bin.

  Property theorems about the model of `bin_kmu` / `bin_kppi` / `P_n` (Model/C08.lean), for every
  mesh size `n ≥ 1` (odd and even), every edge list, every thread count and every assignment of
  rows to threads.  Bin convention (DESIGN §7 C08 **R**): a mode with squared dimensionless
  wavenumber `q` is in range iff `e_0 ≤ q < e_last`; its bin is the least `b` with `q ≤ e_{b+1}`
  (`classify`, `lead`); `mu²` is classified the same way against mu edges whose last is ≥ 1 (no
  range test: every `mu² ≤ 1`), `mu² := 0` for the zero mode; for `(k_perp, pi)`: `k_perp²` as `q`,
  `kz²` in range iff `kz² < pi_last`.  The full mesh is all `n³` triples of `numpy.fft.fftfreq`
  frequencies (`fftfreq`, `fullSumNat`, `fullCount`).
-/
import AbacusVerif.Lemmas.C08

namespace AbacusVerif.Binning
open AbacusVerif

/-! ### the convention -/

/-- `lead x l` is the *least* index whose edge is at or above `x`: bins are `(e_b, e_{b+1}]`. -/
theorem lead_is_least (x : Rat) (l : List Rat) (b : Nat) (hb : b < l.length) :
    lead x l = b ↔ x ≤ l[b] ∧ ∀ t, (ht : t < b) → l[t]'(by omega) < x := by
  constructor
  · rintro rfl
    exact ⟨lead_at x l hb, fun t ht => lead_before x l t ht (by omega)⟩
  · rintro ⟨h1, h2⟩
    have hle := lead_le_of_le x l b hb h1
    by_contra hne
    have hlt : lead x l < b := by omega
    have := lead_at x l (by omega)
    exact absurd this (not_le.mpr (h2 _ hlt))

example : lead 4 [1, 4, 9] = 1 ∧ lead (9 / 2) [1, 4, 9] = 2 ∧ classify [0, 1, 4, 9] 9 = none ∧
    classify [1, 4, 9] 1 = some 0 := by decide +kernel

/-! ### frequencies -/

/-- **fold_is_fftfreq.**  The signed mode numbers the loops assign to the mesh indices `0 … n-1`
are, index by index, `numpy.fft.fftfreq(n) * n` — for odd and even `n` (in particular as multisets). -/
theorem fold_is_fftfreq (n : Nat) : (List.range n).map (fold n) = fftfreq n :=
  fold_eq_fftfreq n

example : (List.range 5).map (fold 5) = [0, 1, 2, -2, -1] ∧ (List.range 4).map (fold 4) = [0, 1, -2, -1] ∧
    fftfreq 5 = [0, 1, 2, -2, -1] ∧ fftfreq 4 = [0, 1, -2, -1] := by decide

/-- **hermitian_reindex.**  For every quantity `G` of `|kz|`, the half axis `kz = 0 … n/2` with weight
1 on the self-conjugate planes `kz = 0` and (even `n`) `kz = n/2` and weight 2 elsewhere sums to the
sum over the `n` frequencies of the full axis. -/
theorem hermitian_reindex {R : Type} [CommSemiring R] (n : Nat) (hn : 1 ≤ n) (G : Nat → R) :
    ((List.range (n / 2 + 1)).map (fun k => ((hw n k : Nat) : R) * G k)).sum =
      ((fftfreq n).map (fun c => G c.natAbs)).sum :=
  hermitian_sum n hn G

example : ((List.range (4 / 2 + 1)).map (fun k => hw 4 k * (k + 10))).sum = 10 + 2 * 11 + 12 ∧
    ((fftfreq 4).map (fun c => c.natAbs + 10)).sum = 10 + 11 + 12 + 11 := by decide

/-! ### the searches stay inside the edge arrays -/

/-- **kmu_search_inbounds.**  For every mesh size, every non-empty `k` edge list (whatever its range:
modes beyond the last edge included), mu edges with at least one bin and last edge ≥ 1, and every
assignment of rows to `T` threads, `bin_kmu`'s loops never index outside `kedges2`, `muedges2`,
`counts` or `weights`; every accumulated cell has its bin inside the output arrays. -/
theorem kmu_search_inbounds (n T : Nat) (assign : Nat → Nat) (ek em : List Rat)
    (hek : ek ≠ []) (hem : em.tail ≠ []) (h1 : 1 ≤ em.tail.getLast hem) (hT : ∀ i < n, assign i < T) :
    ∃ ts, allThreads (kmuRow n ek em (halfShape n)) n T assign = .ok ts ∧
      ∀ cs ∈ ts, ∀ c ∈ cs, c.b + 1 < ek.length ∧ c.m + 1 < em.length ∧
        c.i < n ∧ c.j < n ∧ c.k < n / 2 + 1 := by
  obtain ⟨a, t, rfl⟩ := List.exists_cons_of_ne_nil hek
  obtain ⟨a', t', rfl⟩ : ∃ a' t', em = a' :: t' := by
    cases em with
    | nil => simp at hem
    | cons a' t' => exact ⟨a', t', rfl⟩
  have hmu := mu_ok t' hem h1
  refine ⟨_, allThreads_spec _ (rowSpec n (a :: t) (a' :: t')) n T assign
    (fun i hi => kmuRow_spec n a t a' t' hmu i hi) hT, ?_⟩
  intro cs hcs c hc
  obtain ⟨tt, _, rfl⟩ := List.mem_map.mp hcs
  obtain ⟨l, hl, hcl⟩ := List.mem_flatten.mp hc
  obtain ⟨i, hi, rfl⟩ := List.mem_map.mp hl
  have hi' := List.mem_range.mp (List.mem_filter.mp hi).1
  obtain ⟨h1, h2, h3, h4, h5, _⟩ := rowSpec_bounds n a t a' t' hmu i hi' c hcl
  exact ⟨h1, h2, h3, h4, h5⟩

example : ∃ ts, allThreads (kmuRow 5 [1, 2, 3] [0, 1 / 4, 1] (halfShape 5)) 5 3 (fun i => i % 3) = .ok ts :=
  (kmu_search_inbounds 5 3 (fun i => i % 3) [1, 2, 3] [0, 1 / 4, 1] (by simp) (by simp) (by decide +kernel)
    (fun i _ => Nat.mod_lt i (by omega))).imp fun _ h => h.1

/-- the hypothesis on the mu edges is not decorative: mu edges that stop short of 1 make the search
run past the end of `muedges2` (the model can exhibit the fault) -/
example : allThreads (kmuRow 3 [0, 1, 4] [0, 1 / 4] (halfShape 3)) 3 1 (fun _ => 0) = .error .oob := by
  decide +kernel

/-- **kppi_search_inbounds.**  Same for `bin_kppi` with at least one pi bin: neither the outer
`k_perp` search nor the inner `kz` search (range guard first) leaves an array, whatever `pimax`. -/
theorem kppi_search_inbounds (n T : Nat) (assign : Nat → Nat) (ek ep : List Rat)
    (hek : ek ≠ []) (hep : ep.tail ≠ []) (hT : ∀ i < n, assign i < T) :
    ∃ ts, allThreads (kppiRow n ek ep (halfShape n)) n T assign = .ok ts ∧
      ∀ cs ∈ ts, ∀ c ∈ cs, c.b + 1 < ek.length ∧ c.m + 1 < ep.length ∧
        c.i < n ∧ c.j < n ∧ c.k < n / 2 + 1 := by
  obtain ⟨a, t, rfl⟩ := List.exists_cons_of_ne_nil hek
  obtain ⟨a', t', rfl⟩ : ∃ a' t', ep = a' :: t' := by
    cases ep with
    | nil => simp at hep
    | cons a' t' => exact ⟨a', t', rfl⟩
  refine ⟨_, allThreads_spec _ (rowSpecPi n (a :: t) (a' :: t')) n T assign
    (fun i hi => kppiRow_spec n a t a' t' hep i hi) hT, ?_⟩
  intro cs hcs c hc
  obtain ⟨tt, _, rfl⟩ := List.mem_map.mp hcs
  obtain ⟨l, hl, hcl⟩ := List.mem_flatten.mp hc
  obtain ⟨i, hi, rfl⟩ := List.mem_map.mp hl
  have hi' := List.mem_range.mp (List.mem_filter.mp hi).1
  obtain ⟨h1, h2, h3, h4, h5, _⟩ := rowSpecPi_bounds n a t a' t' hep i hi' c hcl
  exact ⟨h1, h2, h3, h4, h5⟩

example : ∃ ts, allThreads (kppiRow 6 [0, 1, 2] [0, 1 / 2, 1] (halfShape 6)) 6 2 (fun i => i % 2) = .ok ts :=
  (kppi_search_inbounds 6 2 (fun i => i % 2) [0, 1, 2] [0, 1 / 2, 1] (by simp) (by simp)
    (fun i _ => Nat.mod_lt i (by omega))).imp fun _ h => h.1

/-! ### threads -/

/-- **thread_independent.**  For any per-row routine, any thread count and any assignment of the rows
to threads: if the sequential loop returns, the threaded one returns, and the reduced per-thread
accumulators equal the sequential ones — the integer mode counts exactly, the weighted sums as exact
rationals (in floating point: up to the order of summation). -/
theorem thread_independent (row : Nat → Except Fault (List Contrib)) (n T : Nat) (assign : Nat → Nat)
    (rs : List (List Contrib)) (hseq : (List.range n).mapM row = .ok rs) (hT : ∀ i < n, assign i < T) :
    ∃ ts, allThreads row n T assign = .ok ts ∧
      ∀ b m, cntT ts b m = cnt rs.flatten b m ∧ ∀ F, wsumT F ts b m = wsum F rs.flatten b m := by
  obtain ⟨hrow, hrs⟩ := mapM_ok_inv row (List.range n) rs hseq
  refine ⟨_, allThreads_spec row (fun i => okOr (row i)) n T assign
    (fun i hi => hrow i (List.mem_range.mpr hi)) hT, ?_⟩
  intro b m
  subst hrs
  constructor
  · exact accT_threads (fun c => c.w) _ n T assign hT b m
  · intro F
    exact accT_threads (fun c => (c.w : Rat) * F c.i c.j c.k) _ n T assign hT b m

example : (allThreads (kmuRow 4 [0, 2, 5] [0, 1 / 2, 1] (halfShape 4)) 4 3 (fun i => (i * 2) % 3)).toOption.map
      (fun ts => (ts.length, cntT ts 1 0, cntT ts 0 0)) = some (3, 10, 17) ∧
    (allThreads (kmuRow 4 [0, 2, 5] [0, 1 / 2, 1] (halfShape 4)) 4 1 (fun _ => 0)).toOption.map
      (fun ts => (ts.length, cntT ts 1 0, cntT ts 0 0)) = some (1, 10, 17) := by
  decide +kernel

/-! ### counts -/

/-- **kmu_counts_exact.**  For every `n ≥ 1`, every non-empty `k` edge list, mu edges with at least
one bin ending at or above 1, every thread count and row→thread assignment: `bin_kmu` returns (with no
multipoles requested), and whenever it returns — for any multipole list and any mesh values —
`counts[b][m]` is exactly the number of modes of the **full** `n³` mesh of `fftfreq` frequencies
whose `|k|²` and `mu²` classify to `(b, m)`, and `counts_poles[b]` is the row sum. -/
theorem kmu_counts_exact (n T : Nat) (hn : 1 ≤ n) (assign : Nat → Nat) (ek em : List Rat)
    (hek : ek ≠ []) (hem : em.tail ≠ []) (h1 : 1 ≤ em.tail.getLast hem) (hT : ∀ i < n, assign i < T)
    (F : Nat → Nat → Nat → Rat) :
    (∃ o, binKmu n (halfShape n) T assign ek em [] F = .ok o) ∧
    ∀ poles o, binKmu n (halfShape n) T assign ek em poles F = .ok o →
      o.counts = (List.range (ek.length - 1)).map (fun b =>
        (List.range (em.length - 1)).map (fun m => fullCount n (clsKmu ek em) b m)) ∧
      o.cpoles = (List.range (ek.length - 1)).map (fun b =>
        natSum ((List.range (em.length - 1)).map (fun m => fullCount n (clsKmu ek em) b m))) := by
  obtain ⟨ts, hts, _, hcnt⟩ := kmu_threads_counts n T hn assign ek em hek hem h1 hT
  have hlen : ¬ (ek.length = 0 ∨ em.length = 0) := by
    have h1 : ek.length ≠ 0 := by simpa using hek
    have h2 : em.length ≠ 0 := by
      intro h; rw [List.length_eq_zero_iff] at h; subst h; simp at hem
    omega
  constructor
  · unfold binKmu
    rw [if_neg hlen]
    simp only [hts]
    exact ⟨_, rfl⟩
  · intro poles o ho
    unfold binKmu at ho
    rw [if_neg hlen] at ho
    simp only [hts] at ho
    split at ho
    · cases ho
    · cases ho
      constructor <;> simp [hcnt, cpoleT]

example : (binKmu 3 (halfShape 3) 2 (fun i => i % 2) [0, 1, 4] [0, 1 / 2, 1] [] (fun _ _ _ => 1)).toOption.map
      (·.counts) = some [[5, 2], [20, 0]] ∧ fullCount 3 (clsKmu [0, 1, 4] [0, 1 / 2, 1]) 1 0 = 20 := by
  decide +kernel

/-- **kppi_counts_exact.**  Same for `bin_kppi` with at least one pi bin: `counts[b][p]` is exactly the
number of full-mesh modes whose `k_perp²` classifies to `b`, whose `kz²` is below the last pi edge and
whose `kz²` classifies to `p`. -/
theorem kppi_counts_exact (n T : Nat) (hn : 1 ≤ n) (assign : Nat → Nat) (ek ep : List Rat)
    (hek : ek ≠ []) (hep : ep.tail ≠ []) (hT : ∀ i < n, assign i < T) (F : Nat → Nat → Nat → Rat) :
    ∃ o, binKppi n (halfShape n) T assign ek ep F = .ok o ∧
      o.counts = (List.range (ek.length - 1)).map (fun b =>
        (List.range (ep.length - 1)).map (fun m => fullCount n (clsKppi ek ep) b m)) := by
  obtain ⟨a, t, rfl⟩ := List.exists_cons_of_ne_nil hek
  obtain ⟨a', t', rfl⟩ : ∃ a' t', ep = a' :: t' := by
    cases ep with
    | nil => simp at hep
    | cons a' t' => exact ⟨a', t', rfl⟩
  have hts : allThreads (kppiRow n (a :: t) (a' :: t') (halfShape n)) n T assign = _ :=
    allThreads_spec _ (rowSpecPi n (a :: t) (a' :: t')) n T assign
      (fun i hi => kppiRow_spec n a t a' t' hep i hi) hT
  have hcnt : ∀ b m, cntT ((List.range T).map (fun tt =>
      (((List.range n).filter (fun i => assign i == tt)).map (rowSpecPi n (a :: t) (a' :: t'))).flatten)) b m =
      fullCount n (clsKppi (a :: t) (a' :: t')) b m := by
    intro b m
    have := accT_threads (fun c => c.w) (rowSpecPi n (a :: t) (a' :: t')) n T assign hT b m
    unfold cntT
    rw [natSum_eq]
    simp only [cnt_eq_acc]
    rw [this, acc_flatten, List.map_map]
    exact seq_counts_pi n hn (a :: t) (a' :: t') b m
  unfold binKppi
  rw [if_neg (by simp)]
  simp only [hts]
  refine ⟨_, rfl, ?_⟩
  simp only [hcnt]

example : (binKppi 4 (halfShape 4) 1 (fun _ => 0) [0, 1, 3] [0, 1, 5] (fun _ _ _ => 1)).toOption.map (·.counts) =
    some [[15, 5], [12, 4]] := by
  decide +kernel

/-! ### means -/

/-- the per-mode quantity is conjugation symmetric: `F(-k) = F(k)` on mesh indices (`-i mod n`) -/
def ConjSymm (n : Nat) (Ff : Nat → Nat → Nat → Rat) : Prop :=
  ∀ i j l, i < n → j < n → l < n → Ff (negIdx n i) (negIdx n j) (negIdx n l) = Ff i j l

/-- `|k|²` of the mode at mesh indices `(i, j, l)` -/
def qOf (n i j l : Nat) : Nat := sq (fold n i) + sq (fold n j) + sq (fold n l)

/-- **kmu_means.**  Let `Ff` be any conjugation-symmetric per-mode quantity on the full mesh (the code
is handed its half `l ≤ n/2`).  For every bin the accumulated `weighted_counts[b][m]` is the sum of `Ff`
over exactly the full-mesh modes classified to `(b, m)`, so the reported `power[b][m]`
(`divIf (wsumT …) (cntT …)`) is their mean; and the content of `weighted_counts_k[b][m]` (the list `kqs` of
`(|k|², weight)`) sums, for every function `G` of `|k|²` (the code uses `sqrt(·)·dk`), to the sum of
`G(|k|²)` over exactly those modes, so `k_avg[b][m]` is the mean of `|k|` over them. -/
theorem kmu_means (n T : Nat) (hn : 1 ≤ n) (assign : Nat → Nat) (ek em : List Rat)
    (hek : ek ≠ []) (hem : em.tail ≠ []) (h1 : 1 ≤ em.tail.getLast hem) (hT : ∀ i < n, assign i < T)
    (Ff : Nat → Nat → Nat → Rat) (hsym : ConjSymm n Ff) :
    ∃ ts, allThreads (kmuRow n ek em (halfShape n)) n T assign = .ok ts ∧ ∀ b m,
      cntT ts b m = fullCount n (clsKmu ek em) b m ∧
      wsumT Ff ts b m = fullSumRat n (fun i j l =>
        if clsKmu ek em (fold n i) (fold n j) (fold n l) = some (b, m) then Ff i j l else 0) ∧
      divIf (wsumT Ff ts b m) (cntT ts b m) =
        divIf (fullSumRat n (fun i j l =>
          if clsKmu ek em (fold n i) (fold n j) (fold n l) = some (b, m) then Ff i j l else 0))
          (fullCount n (clsKmu ek em) b m) ∧
      ∀ G : Nat → Rat,
        ratSum ((ts.map (fun cs => kqs cs b m)).flatten.map (fun qw => (qw.2 : Rat) * G qw.1)) =
          fullSumRat n (fun i j l =>
            if clsKmu ek em (fold n i) (fold n j) (fold n l) = some (b, m) then G (qOf n i j l) else 0) := by
  obtain ⟨a, t, rfl⟩ := List.exists_cons_of_ne_nil hek
  obtain ⟨a', t', rfl⟩ : ∃ a' t', em = a' :: t' := by
    cases em with
    | nil => simp at hem
    | cons a' t' => exact ⟨a', t', rfl⟩
  have hmu := mu_ok t' hem h1
  have hts : allThreads (kmuRow n (a :: t) (a' :: t') (halfShape n)) n T assign = _ :=
    allThreads_spec _ (rowSpec n (a :: t) (a' :: t')) n T assign
      (fun i hi => kmuRow_spec n a t a' t' hmu i hi) hT
  refine ⟨_, hts, ?_⟩
  intro b m
  have hc : cntT ((List.range T).map (fun tt => (((List.range n).filter (fun i => assign i == tt)).map
      (rowSpec n (a :: t) (a' :: t'))).flatten)) b m = fullCount n (clsKmu (a :: t) (a' :: t')) b m := by
    have := accT_threads (fun c => c.w) (rowSpec n (a :: t) (a' :: t')) n T assign hT b m
    unfold cntT
    rw [natSum_eq]
    simp only [cnt_eq_acc]
    rw [this, acc_flatten, List.map_map]
    exact seq_counts n hn (a :: t) (a' :: t') b m
  have hw : ∀ F : Nat → Nat → Nat → Rat, ConjSymm n F →
      wsumT F ((List.range T).map (fun tt => (((List.range n).filter (fun i => assign i == tt)).map
        (rowSpec n (a :: t) (a' :: t'))).flatten)) b m = fullSumRat n (fun i j l =>
        if clsKmu (a :: t) (a' :: t') (fold n i) (fold n j) (fold n l) = some (b, m) then F i j l else 0) := by
    intro F hF
    have := accT_threads (fun c => (c.w : Rat) * F c.i c.j c.k) (rowSpec n (a :: t) (a' :: t')) n T assign hT b m
    unfold wsumT
    rw [ratSum_eq]
    simp only [wsum_eq_acc]
    rw [this, acc_flatten, List.map_map]
    exact seq_wsum n hn (a :: t) (a' :: t') F hF b m
  refine ⟨hc, hw Ff hsym, by rw [hc, hw Ff hsym], ?_⟩
  intro G
  -- the k-average content is the weighted sum of the symmetric quantity G(|k|²)
  have hGsym : ConjSymm n (fun i j l => G (qOf n i j l)) := by
    intro i j l hi hj hl
    simp only [qOf, sq, natAbs_fold_negIdx n i hi, natAbs_fold_negIdx n j hj, natAbs_fold_negIdx n l hl]
  rw [← hw _ hGsym]
  have hk : ∀ cs : List Contrib, (kqs cs b m).map (fun qw => (qw.2 : Rat) * G qw.1) =
      (cs.filter (inBin b m)).map (fun c => (c.w : Rat) * G c.q) := by
    intro cs; simp [kqs]
  rw [List.map_flatten, ratSum_eq, List.sum_flatten, List.map_map, List.map_map]
  unfold wsumT
  rw [ratSum_eq, List.map_map, List.map_map]
  congr 1
  apply List.map_congr_left
  intro tt _
  simp only [Function.comp_def, hk]
  change acc (fun c => (c.w : Rat) * G c.q) _ b m = acc (fun c => (c.w : Rat) * G (qOf n c.i c.j c.k)) _ b m
  rw [acc_flatten, acc_flatten, List.map_map, List.map_map]
  congr 1
  apply List.map_congr_left
  intro i _
  simp only [Function.comp_def]
  apply acc_rowSpec_congr
  intro j k b' m' hk
  have hkk : sq (fold n k) = k * k := by unfold sq; rw [natAbs_fold_half n k hk hn]
  simp only [qOf, hkk]

/-- `|k|²` itself is a conjugation-symmetric per-mode quantity -/
theorem conjSymm_qOf (n : Nat) : ConjSymm n (fun i j l => (qOf n i j l : Rat)) := by
  intro i j l hi hj hl
  simp only [qOf, sq, natAbs_fold_negIdx n i hi, natAbs_fold_negIdx n j hj, natAbs_fold_negIdx n l hl]

example : ∃ ts, allThreads (kmuRow 4 [0, 2, 5] [0, 1 / 2, 1] (halfShape 4)) 4 2 (fun i => i % 2) = .ok ts ∧
    cntT ts 1 0 = 10 ∧ wsumT (fun i j l => (qOf 4 i j l : Rat)) ts 1 0 = 32 := by
  obtain ⟨ts, hts, h⟩ := kmu_means 4 2 (by omega) (fun i => i % 2) [0, 2, 5] [0, 1 / 2, 1] (by simp) (by simp)
    (by decide +kernel) (fun i _ => Nat.mod_lt i (by omega)) _ (conjSymm_qOf 4)
  refine ⟨ts, hts, ?_, ?_⟩
  · rw [(h 1 0).1]; decide +kernel
  · rw [(h 1 0).2.1]; decide +kernel

/-- **kppi_means.**  Same for `bin_kppi`: for a conjugation-symmetric `Ff`, `counts[b][p]` is the full-mesh
count and the reported `weighted_counts[b][p]` is the mean of `Ff` over exactly the full-mesh modes
classified to `(b, p)`. -/
theorem kppi_means (n T : Nat) (hn : 1 ≤ n) (assign : Nat → Nat) (ek ep : List Rat)
    (hek : ek ≠ []) (hep : ep.tail ≠ []) (hT : ∀ i < n, assign i < T)
    (Ff : Nat → Nat → Nat → Rat) (hsym : ConjSymm n Ff) :
    ∃ ts, allThreads (kppiRow n ek ep (halfShape n)) n T assign = .ok ts ∧ ∀ b m,
      cntT ts b m = fullCount n (clsKppi ek ep) b m ∧
      divIf (wsumT Ff ts b m) (cntT ts b m) =
        divIf (fullSumRat n (fun i j l =>
          if clsKppi ek ep (fold n i) (fold n j) (fold n l) = some (b, m) then Ff i j l else 0))
          (fullCount n (clsKppi ek ep) b m) := by
  obtain ⟨a, t, rfl⟩ := List.exists_cons_of_ne_nil hek
  obtain ⟨a', t', rfl⟩ : ∃ a' t', ep = a' :: t' := by
    cases ep with
    | nil => simp at hep
    | cons a' t' => exact ⟨a', t', rfl⟩
  have hts : allThreads (kppiRow n (a :: t) (a' :: t') (halfShape n)) n T assign = _ :=
    allThreads_spec _ (rowSpecPi n (a :: t) (a' :: t')) n T assign
      (fun i hi => kppiRow_spec n a t a' t' hep i hi) hT
  refine ⟨_, hts, ?_⟩
  intro b m
  have hc : cntT ((List.range T).map (fun tt => (((List.range n).filter (fun i => assign i == tt)).map
      (rowSpecPi n (a :: t) (a' :: t'))).flatten)) b m = fullCount n (clsKppi (a :: t) (a' :: t')) b m := by
    have := accT_threads (fun c => c.w) (rowSpecPi n (a :: t) (a' :: t')) n T assign hT b m
    unfold cntT
    rw [natSum_eq]
    simp only [cnt_eq_acc]
    rw [this, acc_flatten, List.map_map]
    exact seq_counts_pi n hn (a :: t) (a' :: t') b m
  have hw : wsumT Ff ((List.range T).map (fun tt => (((List.range n).filter (fun i => assign i == tt)).map
        (rowSpecPi n (a :: t) (a' :: t'))).flatten)) b m = fullSumRat n (fun i j l =>
        if clsKppi (a :: t) (a' :: t') (fold n i) (fold n j) (fold n l) = some (b, m) then Ff i j l else 0) := by
    have := accT_threads (fun c => (c.w : Rat) * Ff c.i c.j c.k) (rowSpecPi n (a :: t) (a' :: t')) n T assign hT b m
    unfold wsumT
    rw [ratSum_eq]
    simp only [wsum_eq_acc]
    rw [this, acc_flatten, List.map_map]
    exact seq_wsum_pi n hn (a :: t) (a' :: t') Ff hsym b m
  exact ⟨hc, by rw [hc, hw]⟩

example : ∃ ts, allThreads (kppiRow 4 [0, 1, 3] [0, 1, 5] (halfShape 4)) 4 2 (fun i => i % 2) = .ok ts ∧
    cntT ts 1 1 = 4 ∧ divIf (wsumT (fun i j l => (qOf 4 i j l : Rat)) ts 1 1) (cntT ts 1 1) = 6 := by
  obtain ⟨ts, hts, h⟩ := kppi_means 4 2 (by omega) (fun i => i % 2) [0, 1, 3] [0, 1, 5] (by simp) (by simp)
    (fun i _ => Nat.mod_lt i (by omega)) _ (conjSymm_qOf 4)
  refine ⟨ts, hts, ?_, ?_⟩
  · rw [(h 1 1).1]; decide +kernel
  · rw [(h 1 1).2]; decide +kernel

/-! ### multipoles -/

/-- **monopole_is_mu_average.**  The `l = 0` row of `weighted_counts_poles` that `bin_kmu` reports
(`poleRow … 0`) is, for every `k` bin, the mode-count-weighted average over the mu bins of the reported
wedge means `power[b][m] = divIf (wsumT …) (cntT …)`:
`pole_0[b] = Σ_m counts[b][m] · power[b][m] / Σ_m counts[b][m]`. -/
theorem monopole_is_mu_average (n T : Nat) (hn : 1 ≤ n) (assign : Nat → Nat) (ek em : List Rat)
    (hek : ek ≠ []) (hem : em.tail ≠ []) (h1 : 1 ≤ em.tail.getLast hem) (hT : ∀ i < n, assign i < T)
    (F : Nat → Nat → Nat → Rat) (nb nm : Nat) :
    ∃ ts, allThreads (kmuRow n ek em (halfShape n)) n T assign = .ok ts ∧
      poleRow F ts nb nm 0 = .ok ((List.range nb).map (fun b =>
        divIf (ratSum ((List.range nm).map (fun m =>
          (cntT ts b m : Rat) * divIf (wsumT F ts b m) (cntT ts b m)))) (cpoleT ts nm b))) := by
  obtain ⟨ts, hts, hw1, _⟩ := kmu_threads_counts n T hn assign ek em hek hem h1 hT
  refine ⟨ts, hts, ?_⟩
  unfold poleRow
  apply mapM_ok
  intro b _
  rw [if_pos rfl]
  congr 3
  apply List.map_congr_left
  intro m _
  exact wsumT_eq_count_mul_mean F ts hw1 b m

example : (binKmu 3 (halfShape 3) 1 (fun _ => 0) [0, 1, 4] [0, 1 / 2, 1] [0]
      (fun i j k => (i + 3 * j + 9 * k : Nat))).toOption.map (fun o => (o.counts, o.power, o.poles)) =
    some ([[5, 2], [20, 0]], [[12 / 5, 9], [12, 0]], [[30 / 7, 12]]) ∧
    (5 * (12 / 5) + 2 * 9 : Rat) / (5 + 2) = 30 / 7 := by
  decide +kernel

/-- **legendre_table.**  For every even order `n ≤ 10`, `P_n` as coded (the binomial sum
`2^{-n} Σ_k (-1)^k C(n,k) C(2n-2k,n) x^{n/2-k}` in `x = mu²`, with the factorial table and the floor
division of `n_choose_k`) has exactly the coefficients of the Legendre polynomial `P_n(mu)` defined by
Bonnet's recursion — no table entry overflows or is rejected. -/
theorem legendre_table : ∀ n ∈ [0, 2, 4, 6, 8, 10],
    (pnCoeffs n).toOption.map (fun cs => interleave0 (cs.reverse.map (fun (c : Int) => (c : Rat) / 2 ^ n))) =
      some (legendre n) := by
  decide +kernel

/-- orders above 10 need `factorial(2n)` with `2n > 20`: the coded `P_n` raises -/
example : Pn (1 / 3) 12 = .error .rejected := by decide +kernel

/-- the loop of `P_n` evaluates those coefficients: closed forms for the orders `bin_kmu` is used with -/
theorem Pn_two (x : Rat) : Pn x 2 = .ok ((3 * x - 1) / 2) := by
  simp [Pn, PnLoop, pnFactor, nChooseK, factorial, factTable, pyIndex, List.range, List.range.loop,
    bind, Except.bind]
  ring

theorem Pn_four (x : Rat) : Pn x 4 = .ok ((35 * x ^ 2 - 30 * x + 3) / 8) := by
  simp [Pn, PnLoop, pnFactor, nChooseK, factorial, factTable, pyIndex, List.range, List.range.loop,
    bind, Except.bind]
  ring

theorem Pn_zero (x : Rat) : Pn x 0 = .ok 1 := by
  simp [Pn, PnLoop, pnFactor, nChooseK, factorial, factTable, pyIndex, List.range, List.range.loop,
    bind, Except.bind]

example : peval (legendre 4) (1 / 2) = (35 * (1 / 4 : Rat) ^ 2 - 30 * (1 / 4) + 3) / 8 := by decide +kernel

example (F : Nat → Nat → Nat → Rat) (cs : List Contrib) :
    poleSum F 2 0 cs = .ok (((cs.filter (fun c => c.b == 0)).map (fun c =>
      (c.w : Rat) * (F c.i c.j c.k * (((2 * 2 + 1 : Nat) : Rat) * ((3 * mu2 (c.q - c.k * c.k) c.k - 1) / 2))))).sum) :=
  poleSum_spec F 2 0 (fun x => (3 * x - 1) / 2) Pn_two cs

/-- the Legendre-weighted per-mode quantity `(2l+1) · P(mu²) · Ff` on mesh indices -/
def poleWeighted (n pole : Nat) (P : Rat → Rat) (Ff : Nat → Nat → Nat → Rat) (i j l : Nat) : Rat :=
  ((2 * pole + 1 : Nat) : Rat) * P (mu2 (sq (fold n i) + sq (fold n j)) (fold n l).natAbs) * Ff i j l

theorem conjSymm_poleWeighted (n pole : Nat) (P : Rat → Rat) (Ff : Nat → Nat → Nat → Rat)
    (hsym : ConjSymm n Ff) : ConjSymm n (poleWeighted n pole P Ff) := by
  intro i j l hi hj hl
  simp only [poleWeighted, sq, natAbs_fold_negIdx n i hi, natAbs_fold_negIdx n j hj,
    natAbs_fold_negIdx n l hl, hsym i j l hi hj hl]

/-- **kmu_pole_means.**  For a conjugation-symmetric `Ff` and an order whose coded `P_n` is the
polynomial `P` (orders 0, 2, 4: `Pn_zero`, `Pn_two`, `Pn_four`; `legendre_table` for the coefficients
up to 10), the accumulated `weighted_counts_poles[ip][b]` of a non-zero order is the sum of
`(2l+1) · P_l(mu) · Ff` over exactly the full-mesh modes whose `|k|²` classifies to `b` (all mu bins);
divided by `counts_poles[b]` (`kmu_counts_exact`) it is their mean. -/
theorem kmu_pole_means (n T : Nat) (hn : 1 ≤ n) (assign : Nat → Nat) (ek em : List Rat)
    (hek : ek ≠ []) (hem : em.tail ≠ []) (h1 : 1 ≤ em.tail.getLast hem) (hT : ∀ i < n, assign i < T)
    (Ff : Nat → Nat → Nat → Rat) (hsym : ConjSymm n Ff) (pole : Nat) (P : Rat → Rat)
    (hP : ∀ x, Pn x pole = .ok (P x)) :
    ∃ ts, allThreads (kmuRow n ek em (halfShape n)) n T assign = .ok ts ∧ ∀ b,
      poleSumT Ff pole b ts = .ok (ratSum ((List.range (em.length - 1)).map (fun m =>
        fullSumRat n (fun i j l =>
          if clsKmu ek em (fold n i) (fold n j) (fold n l) = some (b, m) then poleWeighted n pole P Ff i j l
          else 0)))) := by
  obtain ⟨a, t, rfl⟩ := List.exists_cons_of_ne_nil hek
  obtain ⟨a', t', rfl⟩ : ∃ a' t', em = a' :: t' := by
    cases em with
    | nil => simp at hem
    | cons a' t' => exact ⟨a', t', rfl⟩
  have hmu := mu_ok t' hem h1
  have hts : allThreads (kmuRow n (a :: t) (a' :: t') (halfShape n)) n T assign = _ :=
    allThreads_spec _ (rowSpec n (a :: t) (a' :: t')) n T assign
      (fun i hi => kmuRow_spec n a t a' t' hmu i hi) hT
  refine ⟨_, hts, ?_⟩
  intro b
  -- the per-cell quantity the code accumulates
  set h : Contrib → Rat := fun c =>
    (c.w : Rat) * (Ff c.i c.j c.k * (((2 * pole + 1 : Nat) : Rat) * P (mu2 (c.q - c.k * c.k) c.k))) with hh
  set thr : Nat → List Contrib := fun tt =>
    (((List.range n).filter (fun i => assign i == tt)).map (rowSpec n (a :: t) (a' :: t'))).flatten with hthr
  unfold poleSumT
  rw [mapM_ok _ (fun cs => accb h cs b) _ (fun cs _ => poleSum_spec Ff pole b P hP cs)]
  simp only [Except.map]
  congr 1
  rw [ratSum_eq, ratSum_eq, List.map_map, list_sum_range, list_sum_range]
  -- every accumulated cell has its mu bin inside the table
  have hm : ∀ tt, ∀ c ∈ thr tt, c.m < (a' :: t').length - 1 := by
    intro tt c hc
    obtain ⟨l, hl, hcl⟩ := List.mem_flatten.mp hc
    obtain ⟨i, hi, rfl⟩ := List.mem_map.mp hl
    have hi' := List.mem_range.mp (List.mem_filter.mp hi).1
    have := (rowSpec_bounds n a t a' t' hmu i hi' c hcl).2.1
    omega
  simp only [Function.comp_def]
  rw [Finset.sum_congr rfl (fun tt _ => accb_eq_sum_acc h (thr tt) b _ (hm tt)), Finset.sum_comm]
  apply Finset.sum_congr rfl
  intro m _
  -- threads → sequential → full mesh
  have h1 := accT_threads h (rowSpec n (a :: t) (a' :: t')) n T assign hT b m
  rw [List.map_map, list_sum_range] at h1
  simp only [Function.comp_def] at h1
  rw [h1, acc_flatten, List.map_map]
  have h2 := seq_wsum n hn (a :: t) (a' :: t') (poleWeighted n pole P Ff)
    (conjSymm_poleWeighted n pole P Ff hsym) b m
  rw [← h2]
  congr 1
  apply List.map_congr_left
  intro i _
  simp only [Function.comp_def, wsum_eq_acc]
  apply acc_rowSpec_congr
  intro j k b' m' hk
  simp only [hh, poleWeighted, natAbs_fold_half n k hk hn, Nat.add_sub_cancel]
  ring

example : ∃ ts, allThreads (kmuRow 4 [0, 2, 5] [0, 1 / 2, 1] (halfShape 4)) 4 2 (fun i => i % 2) = .ok ts ∧
    poleSumT (fun _ _ l => ((sq (fold 4 l) : Nat) : Rat)) 2 1 ts = .ok 20 := by
  have hs : ConjSymm 4 (fun _ _ l => ((sq (fold 4 l) : Nat) : Rat)) := by
    intro i j l _ _ hl
    simp only [sq, natAbs_fold_negIdx 4 l hl]
  obtain ⟨ts, hts, h⟩ := kmu_pole_means 4 2 (by omega) (fun i => i % 2) [0, 2, 5] [0, 1 / 2, 1] (by simp) (by simp)
    (by decide +kernel) (fun i _ => Nat.mod_lt i (by omega)) _ hs 2 _ Pn_two
  refine ⟨ts, hts, ?_⟩
  rw [h 1]
  congr 1
  decide +kernel

/-! ### every order the code supports -/

/-- **Pn_even_orders.**  For every even order `n ≤ 10` and every `x`, the coded `P_n(x, n)` returns the
value at `x = mu²` of the Legendre polynomial `P_n(mu)` (Bonnet's recursion; only even powers occur). -/
theorem Pn_even_orders : ∀ n ∈ [0, 2, 4, 6, 8, 10], ∀ x : Rat, Pn x n = .ok (peval (evens (legendre n)) x) := by
  intro n hn x
  simp only [List.mem_cons, List.not_mem_nil, or_false] at hn
  rcases hn with rfl | rfl | rfl | rfl | rfl | rfl
  · exact Pn_closed_0 x
  · exact Pn_closed_2 x
  · exact Pn_closed_4 x
  · exact Pn_closed_6 x
  · exact Pn_closed_8 x
  · exact Pn_closed_10 x

example : Pn (1 / 3) 6 = .ok (peval (evens (legendre 6)) (1 / 3)) ∧ peval (evens (legendre 6)) (1 / 3) = 2 / 9 :=
  ⟨Pn_even_orders 6 (by simp) _, by decide +kernel⟩

/-- **PnMu_all_orders.**  Odd orders included: given a rational `mu` with `mu * mu = x`, the coded
`P_n(x, n)` — whose `x ** (0.5 * (n - 2k))` is `mu ^ (n - 2k)` — returns the Legendre polynomial
`P_n(mu)` for every order `n ≤ 10`; for odd `n` that is `mu ·` (a polynomial in `mu²`) at the
non-negative root `mu = sqrt(mu²)`. -/
theorem PnMu_all_orders : ∀ n ∈ List.range 11, ∀ mu : Rat, PnMu mu n = .ok (peval (legendre n) mu) := by
  intro n hn mu
  rw [List.mem_range] at hn
  obtain rfl | rfl | rfl | rfl | rfl | rfl | rfl | rfl | rfl | rfl | rfl :
      n = 0 ∨ n = 1 ∨ n = 2 ∨ n = 3 ∨ n = 4 ∨ n = 5 ∨ n = 6 ∨ n = 7 ∨ n = 8 ∨ n = 9 ∨ n = 10 := by omega
  · exact PnMu_closed_0 mu
  · exact PnMu_closed_1 mu
  · exact PnMu_closed_2 mu
  · exact PnMu_closed_3 mu
  · exact PnMu_closed_4 mu
  · exact PnMu_closed_5 mu
  · exact PnMu_closed_6 mu
  · exact PnMu_closed_7 mu
  · exact PnMu_closed_8 mu
  · exact PnMu_closed_9 mu
  · exact PnMu_closed_10 mu

example : PnMu (1 / 2) 3 = .ok (-7 / 16) := by
  rw [PnMu_all_orders 3 (by decide) (1 / 2)]; congr 1; decide +kernel

/-- for even orders the `mu`-parametrised form is the coded `P_n` at `x = mu²` -/
theorem PnMu_even (mu : Rat) (n : Nat) (hn : n % 2 = 0) (cs : List Int) (hcs : pnCoeffs n = .ok cs) :
    PnMu mu n = Pn (mu * mu) n := by
  rw [PnMu_eq_eval mu n cs hcs, Pn_eq_eval (mu * mu) n hn cs hcs,
    evalTerms_sq mu n hn _ cs (fun k hk => by have := List.mem_range.mp hk; omega)]

/-- **Pn_rejects_above_ten.**  Every order above 10 needs `factorial(2n)` with `2n > 20` already in its
first term: the coded `P_n` raises `ValueError` (so does `bin_kmu` when such a pole is requested). -/
theorem Pn_rejects_above_ten (x : Rat) (n : Nat) (hn : 11 ≤ n) (he : n % 2 = 0) : Pn x n = .error .rejected := by
  unfold Pn
  rw [if_neg (by omega), List.range_succ_eq_map, PnLoop, pnFactor_zero_rejected n hn]

example : Pn (1 / 2) 14 = .error .rejected := Pn_rejects_above_ten _ 14 (by omega) (by omega)

/-- **kmu_pole_means_supported.**  `kmu_pole_means` with its hypothesis discharged: for every even order
`pole ≤ 10` — all the even orders for which the coded `P_n` does not raise — the accumulated
`weighted_counts_poles` row of `k` bin `b` is the sum of `(2l+1) · P_l(mu) · Ff` (Legendre polynomial of
Bonnet's recursion) over exactly the full-mesh modes whose `|k|²` classifies to `b`. -/
theorem kmu_pole_means_supported (n T : Nat) (hn : 1 ≤ n) (assign : Nat → Nat) (ek em : List Rat)
    (hek : ek ≠ []) (hem : em.tail ≠ []) (h1 : 1 ≤ em.tail.getLast hem) (hT : ∀ i < n, assign i < T)
    (Ff : Nat → Nat → Nat → Rat) (hsym : ConjSymm n Ff) (pole : Nat) (hp : pole ∈ [0, 2, 4, 6, 8, 10]) :
    ∃ ts, allThreads (kmuRow n ek em (halfShape n)) n T assign = .ok ts ∧ ∀ b,
      poleSumT Ff pole b ts = .ok (ratSum ((List.range (em.length - 1)).map (fun m =>
        fullSumRat n (fun i j l =>
          if clsKmu ek em (fold n i) (fold n j) (fold n l) = some (b, m) then
            poleWeighted n pole (peval (evens (legendre pole))) Ff i j l
          else 0)))) :=
  kmu_pole_means n T hn assign ek em hek hem h1 hT Ff hsym pole _ (Pn_even_orders pole hp)

example : ∃ ts, allThreads (kmuRow 4 [0, 2, 5] [0, 1 / 2, 1] (halfShape 4)) 4 2 (fun i => i % 2) = .ok ts ∧
    ∃ v, poleSumT (fun _ _ l => ((sq (fold 4 l) : Nat) : Rat)) 8 1 ts = .ok v := by
  have hs : ConjSymm 4 (fun _ _ l => ((sq (fold 4 l) : Nat) : Rat)) := by
    intro i j l _ _ hl
    simp only [sq, natAbs_fold_negIdx 4 l hl]
  obtain ⟨ts, hts, h⟩ := kmu_pole_means_supported 4 2 (by omega) (fun i => i % 2) [0, 2, 5] [0, 1 / 2, 1]
    (by simp) (by simp) (by decide +kernel) (fun i _ => Nat.mod_lt i (by omega)) _ hs 8 (by simp)
  exact ⟨ts, hts, _, h 1⟩

/-! ### configuration space (`fourier=False`): a full `(n, n, n)` real-space mesh -/

/-- **shape_irrelevant.**  On any mesh that contains the planes `k < n // 2 + 1` — in particular the full
real-space mesh `(n, n, n)` that `pk_to_xi` passes with `fourier=False` (`dk = L / n1d` only rescales the
edges, which the model receives already squared) — `bin_kmu` and `bin_kppi` touch the same cells, fault on
none, and return exactly what they return on the half mesh. -/
theorem shape_irrelevant (n T : Nat) (assign : Nat → Nat) (ek em : List Rat) (sh : Shape) (hsh : ShapeOk n sh)
    (hek : ek ≠ []) (hT : ∀ i < n, assign i < T) :
    (∀ (hem : em.tail ≠ []), 1 ≤ em.tail.getLast hem →
      allThreads (kmuRow n ek em sh) n T assign = allThreads (kmuRow n ek em (halfShape n)) n T assign ∧
      ∀ poles F, binKmu n sh T assign ek em poles F = binKmu n (halfShape n) T assign ek em poles F) ∧
    (em.tail ≠ [] →
      allThreads (kppiRow n ek em sh) n T assign = allThreads (kppiRow n ek em (halfShape n)) n T assign ∧
      ∀ F, binKppi n sh T assign ek em F = binKppi n (halfShape n) T assign ek em F) := by
  obtain ⟨a, t, rfl⟩ := List.exists_cons_of_ne_nil hek
  constructor
  · intro hem h1
    obtain ⟨a', t', rfl⟩ : ∃ a' t', em = a' :: t' := by
      cases em with
      | nil => simp at hem
      | cons a' t' => exact ⟨a', t', rfl⟩
    have hmu := mu_ok t' hem h1
    have h : allThreads (kmuRow n (a :: t) (a' :: t') sh) n T assign =
        allThreads (kmuRow n (a :: t) (a' :: t') (halfShape n)) n T assign := by
      rw [allThreads_spec _ (rowSpec n (a :: t) (a' :: t')) n T assign
          (fun i hi => kmuRow_spec_sh n a t a' t' hmu sh hsh i hi) hT,
        allThreads_spec _ (rowSpec n (a :: t) (a' :: t')) n T assign
          (fun i hi => kmuRow_spec_sh n a t a' t' hmu _ (shapeOk_half n) i hi) hT]
    refine ⟨h, ?_⟩
    intro poles F
    unfold binKmu
    rw [h]
  · intro hem
    obtain ⟨a', t', rfl⟩ : ∃ a' t', em = a' :: t' := by
      cases em with
      | nil => simp at hem
      | cons a' t' => exact ⟨a', t', rfl⟩
    have h : allThreads (kppiRow n (a :: t) (a' :: t') sh) n T assign =
        allThreads (kppiRow n (a :: t) (a' :: t') (halfShape n)) n T assign := by
      rw [allThreads_spec _ (rowSpecPi n (a :: t) (a' :: t')) n T assign
          (fun i hi => kppiRow_spec_sh n a t a' t' hem sh hsh i hi) hT,
        allThreads_spec _ (rowSpecPi n (a :: t) (a' :: t')) n T assign
          (fun i hi => kppiRow_spec_sh n a t a' t' hem _ (shapeOk_half n) i hi) hT]
    refine ⟨h, ?_⟩
    intro F
    unfold binKppi
    rw [h]

/-- **kmu_means_config_space.**  `fourier=False`: the mesh is a real-space field `Xi` on the full
`(n, n, n)` mesh with `Xi(-r) = Xi(r)` (it is the inverse transform of a real power spectrum).  The loop
reads only the planes `rz ≤ n/2`, doubles the non-self-conjugate ones, and its counts and means are the
full-mesh mode count and the mean of `Xi` itself over exactly the full-mesh cells whose `|r|²` and `mu²`
classify to `(b, m)`. -/
theorem kmu_means_config_space (n T : Nat) (hn : 1 ≤ n) (assign : Nat → Nat) (ek em : List Rat)
    (hek : ek ≠ []) (hem : em.tail ≠ []) (h1 : 1 ≤ em.tail.getLast hem) (hT : ∀ i < n, assign i < T)
    (Xi : Nat → Nat → Nat → Rat) (hsym : ConjSymm n Xi) :
    ∃ ts, allThreads (kmuRow n ek em (fullShape n)) n T assign = .ok ts ∧ ∀ b m,
      cntT ts b m = fullCount n (clsKmu ek em) b m ∧
      divIf (wsumT Xi ts b m) (cntT ts b m) =
        divIf (fullSumRat n (fun i j l =>
          if clsKmu ek em (fold n i) (fold n j) (fold n l) = some (b, m) then Xi i j l else 0))
          (fullCount n (clsKmu ek em) b m) := by
  obtain ⟨ts, hts, h⟩ := kmu_means n T hn assign ek em hek hem h1 hT Xi hsym
  refine ⟨ts, ?_, fun b m => ⟨(h b m).1, (h b m).2.2.1⟩⟩
  rw [((shape_irrelevant n T assign ek em (fullShape n) (shapeOk_full n hn) hek hT).1 hem h1).1, hts]

example : (binKmu 3 (fullShape 3) 2 (fun i => i % 2) [0, 1, 4] [0, 1 / 2, 1] [] (fun _ _ _ => 1)).toOption.map
      (·.counts) = some [[5, 2], [20, 0]] := by
  decide +kernel

/-! ### `get_k_mu_edges` produces binnings that satisfy the preconditions -/

/-- **get_k_mu_edges_wellformed.**  For integer `kbins ≥ 1`, `mubins ≥ 1`, `k_max > 0` (exact-rational
`np.linspace`): the linear `k` edges run strictly increasing from 0 to `k_max` in `kbins + 1` points, the mu
edges strictly increasing from 0 to 1 in `mubins + 1` points, and the squared dimensionless edges the
kernels compute from them are strictly increasing too, so the bins are the intervals `(e_b, e_{b+1}]`. -/
theorem get_k_mu_edges_wellformed (kmax dk : Rat) (hk : 0 < kmax) (hdk : 0 < dk) (kbins mubins : Nat)
    (hkb : 1 ≤ kbins) (hmb : 1 ≤ mubins) :
    (kEdgesLinear kmax kbins).length = kbins + 1 ∧ (kEdgesLinear kmax kbins).head? = some 0 ∧
    (kEdgesLinear kmax kbins).getLast? = some kmax ∧ (kEdgesLinear kmax kbins).Pairwise (· < ·) ∧
    (muEdgesLinear mubins).length = mubins + 1 ∧ (muEdgesLinear mubins).head? = some 0 ∧
    (muEdgesLinear mubins).getLast? = some 1 ∧ (muEdgesLinear mubins).Pairwise (· < ·) ∧
    (sqEdges dk (kEdgesLinear kmax kbins)).Pairwise (· < ·) ∧
    (sqEdges 1 (muEdgesLinear mubins)).Pairwise (· < ·) ∧
    (sqEdges 1 (muEdgesLinear mubins)).getLast? = some 1 := by
  unfold kEdgesLinear muEdgesLinear
  refine ⟨linspace_length _ _ _, linspace_head _ _ _ (by omega), linspace_getLast _ _ _ (by omega),
    linspace_pairwise _ _ hk _, linspace_length _ _ _, linspace_head _ _ _ (by omega),
    linspace_getLast _ _ _ (by omega), linspace_pairwise _ _ (by norm_num) _,
    sqEdges_pairwise dk hdk _ (linspace_ge 0 kmax (le_of_lt hk) _) (linspace_pairwise _ _ hk _),
    sqEdges_pairwise 1 (by norm_num) _ (linspace_ge 0 1 (by norm_num) _) (linspace_pairwise _ _ (by norm_num) _), ?_⟩
  unfold sqEdges
  rw [List.getLast?_map, linspace_getLast _ _ _ (by omega)]
  norm_num

example : kEdgesLinear 3 4 = [0, 3 / 4, 3 / 2, 9 / 4, 3] ∧ muEdgesLinear 2 = [0, 1 / 2, 1] ∧
    sqEdges (1 / 2) (kEdgesLinear 3 2) = [0, 9, 36] := by decide +kernel

/-- **calc_power_binnings_inbounds.**  With the binnings `get_k_mu_edges` builds from integers — `k` edges:
ANY list of `kbins + 1` values (linear or the `geomspace` of `logk=True`; only non-emptiness is needed),
mu edges: `linspace(0, 1, mubins + 1)` with `mubins ≥ 1`, squared as the kernel squares them — `bin_kmu`
never leaves an array and its counts are the full-mesh counts, on the half-complex and on the full mesh. -/
theorem calc_power_binnings_inbounds (n T : Nat) (hn : 1 ≤ n) (assign : Nat → Nat) (hT : ∀ i < n, assign i < T)
    (ek : List Rat) (kbins : Nat) (hlen : ek.length = kbins + 1) (mubins : Nat) (hmb : 1 ≤ mubins)
    (F : Nat → Nat → Nat → Rat) (sh : Shape) (hsh : ShapeOk n sh) :
    ∃ o, binKmu n sh T assign ek (sqEdges 1 (muEdgesLinear mubins)) [] F = .ok o ∧
      o.counts = (List.range kbins).map (fun b => (List.range mubins).map (fun m =>
        fullCount n (clsKmu ek (sqEdges 1 (muEdgesLinear mubins))) b m)) := by
  have hek : ek ≠ [] := by intro h; rw [h] at hlen; simp at hlen
  have hl : (sqEdges 1 (muEdgesLinear mubins)).length = mubins + 1 := by
    unfold sqEdges muEdgesLinear; rw [List.length_map, linspace_length]
  have hem : (sqEdges 1 (muEdgesLinear mubins)).tail ≠ [] := by
    intro h
    have := congrArg List.length h
    rw [List.length_tail, hl] at this
    simp at this; omega
  have hlast : (sqEdges 1 (muEdgesLinear mubins)).getLast? = some 1 :=
    (get_k_mu_edges_wellformed 1 1 (by norm_num) (by norm_num) 1 mubins (le_refl _) hmb).2.2.2.2.2.2.2.2.2.2
  have h1 : 1 ≤ (sqEdges 1 (muEdgesLinear mubins)).tail.getLast hem := by
    have h2 : (sqEdges 1 (muEdgesLinear mubins)).tail.getLast? = some 1 := by
      rw [List.getLast?_tail]
      simp [hlast, hl]
      omega
    rw [List.getLast?_eq_some_getLast hem] at h2
    exact le_of_eq (Option.some.inj h2).symm
  obtain ⟨⟨o, ho⟩, hall⟩ := kmu_counts_exact n T hn assign ek _ hek hem h1 hT F
  rw [((shape_irrelevant n T assign ek _ sh hsh hek hT).1 hem h1).2]
  refine ⟨o, ho, ?_⟩
  rw [(hall [] o ho).1, hlen, hl]
  rfl

example : (binKmu 4 (halfShape 4) 1 (fun _ => 0) (sqEdges 1 (kEdgesLinear 2 2)) (sqEdges 1 (muEdgesLinear 2)) []
    (fun _ _ _ => 1)).toOption.map (·.counts) = some [[5, 2], [4, 16]] := by decide +kernel

/-! ### the sibling loops still fold with `i < n1d // 2` (observation, outside the property) -/

/-- **sibling_fold_differs_only_odd_middle.**  The fold coded in `expand_poles_to_3d`, `get_smoothing`,
`get_delta_mu2` agrees with `numpy.fft.fftfreq` (and with `bin_kmu`) on every index of every even mesh and on
every index of an odd mesh except the middle one `i = (n-1)/2`, which it sends to `-(n+1)/2` instead of
`(n-1)/2` (so `|k|²` is computed with `((n+1)/2)²` instead of `((n-1)/2)²` on that row / column). -/
theorem sibling_fold_differs_only_odd_middle (n i : Nat) :
    (¬ (n % 2 = 1 ∧ i = n / 2) → foldOld n i = fold n i) ∧
    (n % 2 = 1 → fold n (n / 2) = ((n / 2 : Nat) : Int) ∧ foldOld n (n / 2) = -((n / 2 : Nat) : Int) - 1) :=
  ⟨foldOld_eq_fold n i, foldOld_odd_middle n⟩

example : (List.range 5).map (foldOld 5) = [0, 1, -3, -2, -1] ∧ (List.range 5).map (fold 5) = [0, 1, 2, -2, -1] ∧
    (List.range 4).map (foldOld 4) = (List.range 4).map (fold 4) := by decide

end AbacusVerif.Binning
