/-
  Machine integer width of the grid indices of `_tsc_scatter` (C06 / C07 / C11).

  The model of `_tsc_scatter` computes with unbounded integers; the code holds the grid shape and the indices in
  `itype` (`int32`; `int16` before repo commit 5d39ef7, which hung for axes of 32768 cells).
  `tsc_indices_fit_int32`: for a grid coordinate in `[0, g + 1]` (positions in `[0, Box]`, offset at most one cell) the
  rounded index and its two neighbours lie in `[-1, g + 2]`, inside `int32` whenever `g + 2 < 2^31`;
  `tsc_indices_overflow_int16`: they do not fit 16 signed bits from `g = 32767` on, and `g = 32768` is not an `int16`.
-/
import AbacusVerif.Lemmas.Num
import Mathlib.Tactic.Linarith

namespace AbacusVerif.Widths
open AbacusVerif

/-- `ix = itype(round(p))`, `ix - 1`, `ix + 1` for a grid coordinate `p ∈ [0, g + 1]` -/
theorem tsc_indices_fit_int32 (g : Nat) (p : ℚ) (hg : g + 2 < 2 ^ 31) (hp0 : 0 ≤ p) (hp1 : p ≤ (g : ℚ) + 1) :
    -1 ≤ rhe p - 1 ∧ rhe p + 1 ≤ (g : ℤ) + 2 ∧ -(2 : ℤ) ^ 31 ≤ rhe p - 1 ∧ rhe p + 1 < 2 ^ 31 := by
  have h0 : rhe (0 : ℚ) ≤ rhe p := rhe_mono hp0
  have h1 : rhe p ≤ rhe (((g + 1 : ℕ) : ℤ) : ℚ) := by
    apply rhe_mono
    push_cast
    exact hp1
  have e0 : rhe (0 : ℚ) = 0 := by simpa using rhe_int 0
  rw [rhe_int] at h1
  rw [e0] at h0
  have : ((g : ℤ)) + 2 < 2 ^ 31 := by exact_mod_cast hg
  push_cast at h1
  omega

/-- from 32767 cells on, `ix + 1` can reach 2^15: a particle in the last cell of a 32767-cell axis (numba widens the
sum, so this is still fine) — and `g = 32768` itself is not an `int16`: the axis length turned negative -/
theorem tsc_indices_overflow_int16 : rhe ((32767 : ℚ)) + 1 = 2 ^ 15 ∧ ¬ ((32768 : ℤ) < 2 ^ 15) := by
  constructor
  · have := rhe_int 32767
    simp only [Int.cast_ofNat] at this
    rw [this]; norm_num
  · norm_num

end AbacusVerif.Widths
