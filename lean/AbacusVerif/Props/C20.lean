/-
  C20 — pipe_asdf emits count, width and the concatenated raw bytes per field.

  Property theorems about `AbacusVerif.Pipe.emit` / `.parse` (Model/C20.lean), for every list of
  files (existing or not), every data dictionary, every list of requested fields.
-/
import AbacusVerif.Lemmas.C20

namespace AbacusVerif.Pipe
open AbacusVerif

/-- **emit_error_writes_nothing.**  If some path is not a file, or all are files but some requested
field is absent from some file, the call fails with an error that names a genuine offender (the
first missing file; otherwise a file/field pair that is really absent), **no byte has been written**
and the pipe has not been closed. -/
theorem emit_error_writes_nothing (files : List (Option Tree)) (fields : List String)
    (h : none ∈ files ∨ ∃ t ∈ openAll files, ∃ f ∈ fields, t.lookup f = none) :
    ∃ e, emit false files fields = { written := [], err := some e, closed := false } ∧
      ((∃ k, e = .missingFile k ∧ files[k]? = some none ∧
          ∀ j, j < k → ∃ t, files[j]? = some (some t)) ∨
       ((∀ f ∈ files, f ≠ none) ∧ ∃ k f t, e = .missingField k f ∧ f ∈ fields ∧
          (openAll files)[k]? = some t ∧ t.lookup f = none)) := by
  unfold emit
  simp only [Bool.false_eq_true, if_false]
  cases hm : firstMissingFile files 0 with
  | some k =>
    obtain ⟨_, h2, h3⟩ := firstMissingFile_some hm
    exact ⟨.missingFile k, rfl, Or.inl ⟨k, rfl, by simpa using h2, by simpa using h3⟩⟩
  | none =>
    have hall := firstMissingFile_none.mp hm
    rcases h with h | ⟨t, ht, f, hf, hl⟩
    · exact absurd rfl (hall none h)
    · cases hv : validateFields (openAll files) 0 fields with
      | none =>
        have := validateFields_none.mp hv t ht f hf
        rw [hl] at this
        cases this
      | some e =>
        obtain ⟨k, g, u, he, _, hg, hu, hlu⟩ := validateFields_some hv
        exact ⟨e, rfl, Or.inr ⟨hall, k, g, u, he, hg, by simpa using hu, hlu⟩⟩

-- non-vacuity: second path missing; field `vel` absent from the second file
example : emit false [some [("pos", ⟨[1], 1, [7]⟩)], none] ["pos"] =
    { written := [], err := some (.missingFile 1), closed := false } := by decide
example : emit false [some [("pos", ⟨[1], 1, [7]⟩), ("vel", ⟨[1], 1, [8]⟩)],
      some [("pos", ⟨[1], 1, [9]⟩)]] ["pos", "vel"] =
    { written := [], err := some (.missingField 1 "vel"), closed := false } := by decide

/-- **emit_validation_complete.**  Conversely, whenever the call reports a terminal, a missing file
or a missing field — for whatever input — nothing has been written and the pipe is not closed: the
IO loop itself never raises these, validation is finished before the first `pipe.write`. -/
theorem emit_validation_complete (tty : Bool) (files : List (Option Tree)) (fields : List String)
    (e : Err) (he : (emit tty files fields).err = some e)
    (hk : e = .tty ∨ (∃ k, e = .missingFile k) ∨ ∃ k f, e = .missingField k f) :
    (emit tty files fields).written = [] ∧ (emit tty files fields).closed = false := by
  unfold emit at he ⊢
  cases tty with
  | true => simp
  | false =>
    simp only [Bool.false_eq_true, if_false] at he ⊢
    cases hm : firstMissingFile files 0 with
    | some k => simp
    | none =>
      rw [hm] at he
      cases hv : validateFields (openAll files) 0 fields with
      | some e' => simp
      | none =>
        rw [hv] at he
        simp only [] at he
        rcases emitFields_err he with h | h | h <;> subst h <;>
          rcases hk with hk | ⟨_, hk⟩ | ⟨_, _, hk⟩ <;> cases hk

/-- **parse_emit.**  For every valid request (`Valid`: ≥ 1 file, all exist, every requested field in
every file, columns at least 1-D with `count · itemsize` raw bytes, one item width per field, count
and width fit their headers) the call succeeds, closes the pipe, and the documented client — read an
int64 and an int32, then their product many bytes, repeat per requested field, expect end of file —
recovers from the bytes written, per field **in request order**, exactly (total element count over
the files, item width, the per-file raw bytes concatenated in file order), each payload being
`count · width` bytes long. -/
theorem parse_emit (files : List (Option Tree)) (fields : List String) (w : String → Nat)
    (hv : Valid files fields w) :
    ∃ bytes, emit false files fields = { written := bytes, err := none, closed := true } ∧
      parse fields.length bytes = some (fields.map (record (openAll files) w)) ∧
      ∀ f ∈ fields, (record (openAll files) w f).2.2.length =
        (record (openAll files) w f).1 * (record (openAll files) w f).2.1 := by
  obtain ⟨bytes, he, hp⟩ := emitFields_parse fields hv
  refine ⟨bytes, ?_, hp, fun f hf => record_length hv hf⟩
  unfold emit
  simp only [Bool.false_eq_true, if_false, firstMissingFile_none.mpr hv.allExist,
    validateFields_none.mpr hv.present, he]

-- non-vacuity: two files, an (N,3) int16 column and a 1-D byte column (empty in the first file),
-- requested in the order opposite to the first file's
def exFiles : List (Option Tree) :=
  [some [("pos", ⟨[1, 3], 2, [1, 0, 2, 0, 3, 0]⟩), ("id", ⟨[0], 1, []⟩)],
   some [("id", ⟨[2], 1, [0xaa, 0xbb]⟩), ("pos", ⟨[2, 3], 2, [4, 0, 5, 0, 6, 0, 7, 0, 8, 0, 9, 0]⟩)]]
def exW : String → Nat := fun f => if f = "pos" then 2 else 1

example : Valid exFiles ["id", "pos"] exW :=
  { nonempty := by decide, allExist := by decide, present := by decide, shaped := by decide,
    width := by decide, widthFits := by decide, countFits := by decide }
example : (emit false exFiles ["id", "pos"]).written =
    [2, 0, 0, 0, 0, 0, 0, 0, 1, 0, 0, 0, 0xaa, 0xbb,
     9, 0, 0, 0, 0, 0, 0, 0, 2, 0, 0, 0, 1, 0, 2, 0, 3, 0, 4, 0, 5, 0, 6, 0, 7, 0, 8, 0, 9, 0] := by
  decide
example : parse 2 (emit false exFiles ["id", "pos"]).written =
    some [(2, 1, [0xaa, 0xbb]), (9, 2, [1, 0, 2, 0, 3, 0, 4, 0, 5, 0, 6, 0, 7, 0, 8, 0, 9, 0])] := by
  decide

/-- **parse_unambiguous.**  The framing determines the data: two valid requests with the same number
of fields that put the same bytes on the pipe carry the same records (counts, widths, payloads),
field by field. -/
theorem parse_unambiguous (files₁ files₂ : List (Option Tree)) (fields₁ fields₂ : List String)
    (w₁ w₂ : String → Nat) (hv₁ : Valid files₁ fields₁ w₁) (hv₂ : Valid files₂ fields₂ w₂)
    (hn : fields₁.length = fields₂.length)
    (hb : (emit false files₁ fields₁).written = (emit false files₂ fields₂).written) :
    fields₁.map (record (openAll files₁) w₁) = fields₂.map (record (openAll files₂) w₂) := by
  obtain ⟨b₁, he₁, hp₁, _⟩ := parse_emit files₁ fields₁ w₁ hv₁
  obtain ⟨b₂, he₂, hp₂, _⟩ := parse_emit files₂ fields₂ w₂ hv₂
  rw [he₁, he₂] at hb
  simp only at hb
  subst hb
  rw [hn, hp₂] at hp₁
  exact (Option.some.inj hp₁).symm

end AbacusVerif.Pipe
