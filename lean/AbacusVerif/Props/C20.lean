/-
  C20 — pipe_asdf emits count, width and the concatenated raw bytes per field.

  Property theorems about `AbacusVerif.Pipe.emit` / `.parse` (Model/C20.lean), for every list of
  files (existing or not), every data dictionary, every list of requested fields.
-/
import AbacusVerif.Lemmas.C20

namespace AbacusVerif.Pipe
open AbacusVerif

/-- **emit_error_writes_nothing.**  If some path is not a file, or all are files but some requested
field is absent from some file, the call fails with an error that names a genuine offender (the
first missing file; otherwise a file/field pair that is really absent), **no byte has been written**
and the pipe has not been closed. -/
theorem emit_error_writes_nothing (files : List (Option Tree)) (fields : List String)
    (h : none ∈ files ∨ ∃ t ∈ openAll files, ∃ f ∈ fields, t.lookup f = none) :
    ∃ e, emit false files fields = { written := [], err := some e, closed := false } ∧
      ((∃ k, e = .missingFile k ∧ files[k]? = some none ∧
          ∀ j, j < k → ∃ t, files[j]? = some (some t)) ∨
       ((∀ f ∈ files, f ≠ none) ∧ ∃ k f t, e = .missingField k f ∧ f ∈ fields ∧
          (openAll files)[k]? = some t ∧ t.lookup f = none)) := by
  unfold emit
  simp only [Bool.false_eq_true, if_false]
  cases hm : firstMissingFile files 0 with
  | some k =>
    obtain ⟨_, h2, h3⟩ := firstMissingFile_some hm
    exact ⟨.missingFile k, rfl, Or.inl ⟨k, rfl, by simpa using h2, by simpa using h3⟩⟩
  | none =>
    have hall := firstMissingFile_none.mp hm
    rcases h with h | ⟨t, ht, f, hf, hl⟩
    · exact absurd rfl (hall none h)
    · cases hv : validateFields (openAll files) 0 fields with
      | none =>
        have := validateFields_none.mp hv t ht f hf
        rw [hl] at this
        cases this
      | some e =>
        obtain ⟨k, g, u, he, _, hg, hu, hlu⟩ := validateFields_some hv
        exact ⟨e, rfl, Or.inr ⟨hall, k, g, u, he, hg, by simpa using hu, hlu⟩⟩

-- non-vacuity: second path missing; field `vel` absent from the second file
example : emit false [some [("pos", ⟨[1], 1, [7]⟩)], none] ["pos"] =
    { written := [], err := some (.missingFile 1), closed := false } := by decide
example : emit false [some [("pos", ⟨[1], 1, [7]⟩), ("vel", ⟨[1], 1, [8]⟩)],
      some [("pos", ⟨[1], 1, [9]⟩)]] ["pos", "vel"] =
    { written := [], err := some (.missingField 1 "vel"), closed := false } := by decide

/-- **emit_validation_complete.**  Conversely, whenever the call reports a terminal, a missing file
or a missing field — for whatever input — nothing has been written and the pipe is not closed: the
IO loop itself never raises these, validation is finished before the first `pipe.write`. -/
theorem emit_validation_complete (tty : Bool) (files : List (Option Tree)) (fields : List String)
    (e : Err) (he : (emit tty files fields).err = some e)
    (hk : e = .tty ∨ (∃ k, e = .missingFile k) ∨ ∃ k f, e = .missingField k f) :
    (emit tty files fields).written = [] ∧ (emit tty files fields).closed = false := by
  unfold emit at he ⊢
  cases tty with
  | true => simp
  | false =>
    simp only [Bool.false_eq_true, if_false] at he ⊢
    cases hm : firstMissingFile files 0 with
    | some k => simp
    | none =>
      rw [hm] at he
      cases hv : validateFields (openAll files) 0 fields with
      | some e' => simp
      | none =>
        rw [hv] at he
        simp only [] at he
        rcases emitFields_err he with h | h | h <;> subst h <;>
          rcases hk with hk | ⟨_, hk⟩ | ⟨_, _, hk⟩ <;> cases hk

/-- **parse_emit.**  For every valid request (`Valid`: ≥ 1 file, all exist, every requested field in
every file, columns at least 1-D with `count · itemsize` raw bytes, one item width per field, count
and width fit their headers) the call succeeds, closes the pipe, and the documented client — read an
int64 and an int32, then their product many bytes, repeat per requested field, expect end of file —
recovers from the bytes written, per field **in request order**, exactly (total element count over
the files, item width, the per-file raw bytes concatenated in file order), each payload being
`count · width` bytes long. -/
theorem parse_emit (files : List (Option Tree)) (fields : List String) (w : String → Nat)
    (hv : Valid files fields w) :
    ∃ bytes, emit false files fields = { written := bytes, err := none, closed := true } ∧
      parse fields.length bytes = some (fields.map (record (openAll files) w)) ∧
      ∀ f ∈ fields, (record (openAll files) w f).2.2.length =
        (record (openAll files) w f).1 * (record (openAll files) w f).2.1 := by
  obtain ⟨bytes, he, hp⟩ := emitFields_parse fields hv
  refine ⟨bytes, ?_, hp, fun f hf => record_length hv hf⟩
  unfold emit
  simp only [Bool.false_eq_true, if_false, firstMissingFile_none.mpr hv.allExist,
    validateFields_none.mpr hv.present, he]

-- non-vacuity: two files, an (N,3) int16 column and a 1-D byte column (empty in the first file),
-- requested in the order opposite to the first file's
def exFiles : List (Option Tree) :=
  [some [("pos", ⟨[1, 3], 2, [1, 0, 2, 0, 3, 0]⟩), ("id", ⟨[0], 1, []⟩)],
   some [("id", ⟨[2], 1, [0xaa, 0xbb]⟩), ("pos", ⟨[2, 3], 2, [4, 0, 5, 0, 6, 0, 7, 0, 8, 0, 9, 0]⟩)]]
def exW : String → Nat := fun f => if f = "pos" then 2 else 1

example : Valid exFiles ["id", "pos"] exW :=
  { nonempty := by decide, allExist := by decide, present := by decide, shaped := by decide,
    width := by decide, widthFits := by decide, countFits := by decide }
example : (emit false exFiles ["id", "pos"]).written =
    [2, 0, 0, 0, 0, 0, 0, 0, 1, 0, 0, 0, 0xaa, 0xbb,
     9, 0, 0, 0, 0, 0, 0, 0, 2, 0, 0, 0, 1, 0, 2, 0, 3, 0, 4, 0, 5, 0, 6, 0, 7, 0, 8, 0, 9, 0] := by
  decide
example : parse 2 (emit false exFiles ["id", "pos"]).written =
    some [(2, 1, [0xaa, 0xbb]), (9, 2, [1, 0, 2, 0, 3, 0, 4, 0, 5, 0, 6, 0, 7, 0, 8, 0, 9, 0])] := by
  decide

/-- **parse_unambiguous.**  The framing determines the data: two valid requests with the same number
of fields that put the same bytes on the pipe carry the same records (counts, widths, payloads),
field by field. -/
theorem parse_unambiguous (files₁ files₂ : List (Option Tree)) (fields₁ fields₂ : List String)
    (w₁ w₂ : String → Nat) (hv₁ : Valid files₁ fields₁ w₁) (hv₂ : Valid files₂ fields₂ w₂)
    (hn : fields₁.length = fields₂.length)
    (hb : (emit false files₁ fields₁).written = (emit false files₂ fields₂).written) :
    fields₁.map (record (openAll files₁) w₁) = fields₂.map (record (openAll files₂) w₂) := by
  obtain ⟨b₁, he₁, hp₁, _⟩ := parse_emit files₁ fields₁ w₁ hv₁
  obtain ⟨b₂, he₂, hp₂, _⟩ := parse_emit files₂ fields₂ w₂ hv₂
  rw [he₁, he₂] at hb
  simp only at hb
  subst hb
  rw [hn, hp₂] at hp₁
  exact (Option.some.inj hp₁).symm

/-! ### inputs outside the property's quantifier: the model follows the code there too -/

/-- no input file (the command line forbids it, a direct call does not): the count `0` of the first
requested field is written, then `field_width` is unbound — 8 bytes and an `UnboundLocalError` -/
theorem emit_no_files (f : String) (fs : List String) :
    emit false [] (f :: fs) = { written := le64 0, err := some .unboundWidth, closed := false } := rfl

/-- a request for one field that is a 0-d array in some file: validation passes, then the count is
written **as a float64** (`np.prod(())` is `1.0`), the width of the last file, the arrays of the
files before the first 0-d one, and `[:]` raises `IndexError` — bytes have been written before the
error (this is neither a missing file nor a missing field) -/
theorem emit_zero_dim (files : List (Option Tree)) (f : String)
    (hall : ∀ x ∈ files, x ≠ none) (hpres : ∀ t ∈ openAll files, (t.lookup f).isSome)
    (h0 : ∃ c ∈ colsTotal (openAll files) f, c.shape = []) :
    ∃ last, (colsTotal (openAll files) f).getLast? = some last ∧
      emit false files [f] =
        { written := f64le ((colsTotal (openAll files) f).map Column.count).sum ++
            (le32 last.itemsize ++
              (((colsTotal (openAll files) f).takeWhile (fun c => !c.shape.isEmpty)).map (·.raw)).flatten),
          err := some .indexError, closed := false } := by
  obtain ⟨c, hc, hs⟩ := h0
  have hne : colsTotal (openAll files) f ≠ [] := List.ne_nil_of_mem hc
  obtain ⟨last, hlast⟩ : ∃ last, (colsTotal (openAll files) f).getLast? = some last := by
    cases h : (colsTotal (openAll files) f).getLast? with
    | none => exact absurd (List.getLast?_eq_none_iff.mp h) hne
    | some l => exact ⟨l, rfl⟩
  have hany : (colsTotal (openAll files) f).any (fun c => c.shape.isEmpty) = true := by
    rw [List.any_eq_true]
    exact ⟨c, hc, by simp [hs]⟩
  have hv : validateFields (openAll files) 0 [f] = none :=
    validateFields_none.mpr (fun t ht g hg => by
      simp only [List.mem_singleton] at hg; subst hg; exact hpres t ht)
  refine ⟨last, hlast, ?_⟩
  unfold emit
  simp only [Bool.false_eq_true, if_false, firstMissingFile_none.mpr hall, hv, emitFields, fieldRecord,
    columnsOf_eq hpres, hany, if_true, hlast]

example : emit false [some [("a", ⟨[2], 1, [1, 2]⟩)], some [("a", ⟨[], 1, [7]⟩)]] ["a"] =
    { written := [0, 0, 0, 0, 0, 0, 8, 0x40, 1, 0, 0, 0, 1, 2], err := some .indexError,
      closed := false } := by decide

/-! ### the command line -/

/-- **cli_run.**  When the arguments parse, the bytes on stdout are exactly those of
`unpack_to_pipe(files, fields)` and the exit status is 0 iff no exception; `--nthread` (and
`verbose`, which only writes to stderr) do not influence them. -/
theorem cli_run (fs : List (String × Tree)) (tty : Bool) (argv : List String)
    (fields files : List String) (n : Nat) (h : parseArgv argv = .run ⟨some fields, files, n⟩) :
    cli fs tty argv =
      ((emit tty (files.map (fun fn => fs.lookup fn)) fields).written,
       if (emit tty (files.map (fun fn => fs.lookup fn)) fields).err.isNone then 0 else 1) := by
  simp only [cli, h]

/-- a usage error, or a call without any `-f` (`fields=None`: `TypeError` before the first write),
puts nothing on stdout -/
theorem cli_error_writes_nothing (fs : List (String × Tree)) (tty : Bool) (argv : List String)
    (h : parseArgv argv = .usage ∨ ∃ files n, parseArgv argv = .run ⟨none, files, n⟩) :
    (cli fs tty argv).1 = [] ∧ (cli fs tty argv).2 ≠ 0 := by
  rcases h with h | ⟨files, n, h⟩ <;> simp [cli, h]

theorem parseLoop_nil (fuel : Nat) (st : PState) :
    parseLoop fuel st [] =
      if st.files.isEmpty then .usage else .run ⟨st.fields, st.files, st.nthread⟩ := by
  cases fuel <;> rfl

theorem parseLoop_files : ∀ (files : List String) (fuel : Nat) (st : PState),
    st.raw = false → st.closed = false → (∀ f ∈ files, classify f = .plain f) →
    files.length ≤ fuel →
    parseLoop fuel st files =
      if (st.files ++ files).isEmpty then .usage
      else .run ⟨st.fields, st.files ++ files, st.nthread⟩ := by
  intro files
  induction files with
  | nil => intro fuel st _ _ _ _; simp [parseLoop_nil]
  | cons t rest ih =>
    intro fuel st hraw hclosed hplain hlen
    obtain ⟨flds, nt, fls, cl, rw⟩ := st
    simp only at hraw hclosed
    subst hraw hclosed
    cases fuel with
    | zero => simp at hlen
    | succ fuel =>
      have ht := hplain t (by simp)
      have := ih fuel ⟨flds, nt, fls ++ [t], false, false⟩ rfl rfl
        (fun f hf => hplain f (by simp [hf])) (by simpa using hlen)
      simp only [parseLoop, Bool.false_eq_true, if_false, ht, PState.addFile, this]
      simp

/-- **parseArgv_canonical.**  The documented invocation `-f F₁ … -f Fₖ FILE₁ … FILEₘ` (k, m ≥ 1,
names that do not look like options) is understood as fields `F₁ … Fₖ` **in the order given** (repeats
kept) and files in the order given, `nthread = 4`. -/
theorem parseArgv_canonical (fields files : List String) (hf : fields ≠ []) (hfiles : files ≠ [])
    (hval : ∀ f ∈ fields, isValue f = true) (hplain : ∀ f ∈ files, classify f = .plain f) :
    parseArgv (fields.flatMap (fun f => ["-f", f]) ++ files) = .run ⟨some fields, files, 4⟩ := by
  have key : ∀ (fields : List String) (fuel : Nat) (st : PState), st.raw = false →
      st.closed = false → st.files = [] → (∀ f ∈ fields, isValue f = true) →
      2 * fields.length + files.length ≤ fuel →
      parseLoop fuel st (fields.flatMap (fun f => ["-f", f]) ++ files) =
        .run ⟨if fields = [] then st.fields else some (st.fields.getD [] ++ fields), files, st.nthread⟩ := by
    intro fields
    induction fields with
    | nil =>
      intro fuel st hraw hclosed hfs _ hlen
      have := parseLoop_files files fuel st hraw hclosed hplain (by simpa using hlen)
      simp only [List.flatMap_nil, List.nil_append, this, hfs, if_true]
      simp [hfiles]
    | cons f fs ih =>
      intro fuel st hraw hclosed hfs hval hlen
      obtain ⟨flds, nt, fls, cl, rw⟩ := st
      simp only at hraw hclosed hfs
      subst hraw hclosed hfs
      cases fuel with
      | zero => simp at hlen
      | succ fuel =>
        have hv := hval f (by simp)
        have hcl : classify "-f" = .optF none := by decide +kernel
        have := ih fuel (PState.addField ⟨flds, nt, [], false, false⟩ f) rfl rfl rfl
          (fun g hg => hval g (by simp [hg]))
          (by simp only [List.length_cons] at hlen; omega)
        simp only [List.flatMap_cons, List.cons_append, List.nil_append, parseLoop,
          Bool.false_eq_true, if_false, hcl, hv, if_true, this]
        by_cases hnil : fs = []
        · simp [hnil, PState.addField]
        · simp [hnil, PState.addField, List.append_assoc]
  have hlen : ∀ l : List String, (l.flatMap (fun f => ["-f", f])).length = 2 * l.length := by
    intro l
    induction l with
    | nil => rfl
    | cons a l ih => simp only [List.flatMap_cons, List.length_append, ih, List.length_cons,
        List.length_nil]; omega
  have := key fields (fields.flatMap (fun f => ["-f", f]) ++ files).length {} rfl rfl rfl hval
    (by rw [List.length_append, hlen]; omega)
  simp only [parseArgv, this, hf, if_false]
  rfl

example : classify "a.asdf" = .plain "a.asdf" ∧ classify "/data/b.asdf" = .plain "/data/b.asdf" ∧
    isValue "pos" = true := by decide +kernel
example : parseArgv ["-f", "pos", "-f", "vel", "-f", "pos", "a.asdf", "b.asdf"] =
    .run ⟨some ["pos", "vel", "pos"], ["a.asdf", "b.asdf"], 4⟩ := by decide +kernel
example : parseArgv ["--nthread=2", "-fpos", "--fie", "vel", "--", "a.asdf"] =
    .run ⟨some ["pos", "vel"], ["a.asdf"], 2⟩ := by decide +kernel
example : parseArgv ["a.asdf", "-f", "pos", "b.asdf"] = .usage := by decide
example : parseArgv ["a.asdf"] = .run ⟨none, ["a.asdf"], 4⟩ := by decide +kernel

end AbacusVerif.Pipe
