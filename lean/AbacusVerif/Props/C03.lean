/-
  C03 — superslab concatenation and filter_func commute with loading.

  Same model as C01 (`Catalog.load`, Model/C01.lean); `glue`, `applyMask`, `filterView`, `setupPaths` are in
  Model/C03.lean.  `wf` is C01's decidable well-formedness predicate.
-/
import AbacusVerif.Model.C03
import AbacusVerif.Props.C01

namespace AbacusVerif.Catalog
open AbacusVerif

variable {α : Type}

/-! ### which N the filter sees -/

/-- **filter_sees_N.**  In a cleaned, non-passthrough load every row of the per-superslab table handed to the
filter function carries the CLEANED count `N_total` under the name `N` (and there is no other `N`); in a
cleaned passthrough load `N` is the raw count and `N_total` is a separate column; in an uncleaned load `N` is
the raw count. -/
theorem filter_sees_N (s : Slab α) :
    (∀ rows, rowsOf true s = .ok rows → ∀ p ∈ s.halos.zip s.clean,
        (p.1, some p.2) ∈ rows ∧
        lookupCol "N" (filterView false (p.1, some p.2)) = some p.2.nTotal ∧
        lookupCol "N" (filterView true (p.1, some p.2)) = some p.1.n ∧
        lookupCol "N_total" (filterView true (p.1, some p.2)) = some p.2.nTotal) ∧
    (∀ rows, rowsOf false s = .ok rows → ∀ h ∈ s.halos,
        (h, none) ∈ rows ∧ ∀ pt, lookupCol "N" (filterView pt (h, none)) = some h.n) := by
  constructor
  · intro rows hr p hp
    unfold rowsOf at hr
    simp only [if_true] at hr
    split at hr
    · cases hr
    · cases hr
      refine ⟨?_, by simp [filterView, lookupCol], by simp [filterView, lookupCol],
        by simp [filterView, lookupCol]⟩
      rw [List.zip_map_right]
      exact List.mem_map.mpr ⟨p, hp, rfl⟩
  · intro rows hr h hh
    unfold rowsOf at hr
    simp only [Bool.false_eq_true, if_false] at hr
    cases hr
    exact ⟨List.mem_map.mpr ⟨h, hh, rfl⟩, fun pt => by simp [filterView, lookupCol]⟩

/-! ### masks: none, everything, nothing -/

def allMasks (b : Bool) (slabs : List (Slab α)) : List (List Bool) :=
  slabs.map (fun s => List.replicate s.halos.length b)

theorem maskRows_true {β} (rows : List β) : maskRows rows (List.replicate rows.length true) = rows := by
  induction rows with
  | nil => rfl
  | cons r rs ih =>
    simp only [maskRows] at ih ⊢
    simp [List.replicate_succ, ih]

theorem maskRows_false {β} (rows : List β) (n : Nat) : maskRows rows (List.replicate n false) = [] := by
  induction rows generalizing n with
  | nil => simp [maskRows]
  | cons r rs ih =>
    cases n with
    | zero => simp [maskRows]
    | succ n =>
      simp only [maskRows] at ih ⊢
      simp [List.replicate_succ, ih]

theorem rowsOf_length (cleaned : Bool) (s : Slab α) (rows : List Row) (h : rowsOf cleaned s = .ok rows) :
    rows.length = s.halos.length := by
  unfold rowsOf at h
  cases cleaned with
  | false => simp at h; subst h; simp
  | true =>
    simp only [if_true] at h
    split at h
    · cases h
    · rename_i hlen
      cases h
      simp only [List.length_zip, List.length_map]
      have : s.clean.length = s.halos.length := Classical.byContradiction (fun hc => hlen hc)
      omega

theorem readFile_true (cleaned : Bool) (s : Slab α) :
    readFile cleaned s (some (List.replicate s.halos.length true)) = readFile cleaned s none := by
  unfold readFile
  cases h : rowsOf cleaned s with
  | error e => rfl
  | ok rows =>
    have hl := rowsOf_length cleaned s rows h
    simp only [List.length_replicate, hl, ne_eq, not_true_eq_false, if_false]
    rw [← hl, maskRows_true]

theorem readAll_true (cleaned : Bool) (slabs : List (Slab α)) :
    readAll cleaned slabs ((allMasks true slabs).map some) =
      readAll cleaned slabs (List.replicate slabs.length none) := by
  induction slabs with
  | nil => rfl
  | cons s ss ih =>
    simp only [allMasks, List.map_cons, List.length_cons, List.replicate_succ] at ih ⊢
    unfold readAll
    rw [readFile_true, ih]

theorem readAll_none_ok (cleaned : Bool) (slabs : List (Slab α))
    (hc : cleaned = true → ∀ s ∈ slabs, s.clean.length = s.halos.length) :
    ∃ kept, readAll cleaned slabs (List.replicate slabs.length none) = .ok kept := by
  induction slabs with
  | nil => exact ⟨[], rfl⟩
  | cons s ss ih =>
    obtain ⟨ks, hks⟩ := ih (fun h s' hs' => hc h s' (by simp [hs']))
    have hrows : ∃ rows, rowsOf cleaned s = .ok rows := by
      unfold rowsOf
      cases cleaned with
      | false => exact ⟨_, rfl⟩
      | true => simp [hc rfl s (by simp)]
    obtain ⟨rows, hr⟩ := hrows
    refine ⟨rows :: ks, ?_⟩
    simp only [List.length_cons, List.replicate_succ]
    unfold readAll
    simp only [readFile, hr, hks]

/-- **load_filter_none.**  Loading without a filter function is loading with the all-true mask on every
superslab (for a catalog whose cleaning tables match their halo tables; nothing else is assumed, so the two
loads also fault together downstream). -/
theorem load_filter_none (o : Opts) (slabs : List (Slab α))
    (hc : o.cleaned = true → ∀ s ∈ slabs, s.clean.length = s.halos.length) :
    load { o with masks := some (allMasks true slabs) } slabs = load { o with masks := none } slabs := by
  obtain ⟨kept, hk⟩ := readAll_none_ok o.cleaned slabs hc
  have hk' := (readAll_true o.cleaned slabs).trans hk
  unfold load loadW
  simp only [masksFor, allMasks, List.length_map, ne_eq, not_true_eq_false, if_false]
  simp only [allMasks] at hk'
  rw [readTable_eq _ _ _ kept hk', readTable_eq _ _ _ kept hk]
  rfl

theorem readAll_false (cleaned : Bool) (slabs : List (Slab α))
    (hc : cleaned = true → ∀ s ∈ slabs, s.clean.length = s.halos.length) :
    readAll cleaned slabs ((allMasks false slabs).map some) = .ok (slabs.map (fun _ => [])) := by
  induction slabs with
  | nil => rfl
  | cons s ss ih =>
    simp only [allMasks, List.map_cons] at ih ⊢
    unfold readAll
    rw [ih (fun h s' hs' => hc h s' (by simp [hs']))]
    have hrows : ∃ rows, rowsOf cleaned s = .ok rows := by
      unfold rowsOf
      cases cleaned with
      | false => exact ⟨_, rfl⟩
      | true => simp [hc rfl s (by simp)]
    obtain ⟨rows, hr⟩ := hrows
    have hl := rowsOf_length cleaned s rows hr
    unfold readFile
    simp only [hr, List.length_replicate, hl, ne_eq, not_true_eq_false, if_false, maskRows_false]

/-- **load_filter_nothing.**  A filter that keeps nothing (on a catalog whose cleaning tables match their halo
tables) loads: no rows, zero halos per file, empty index columns for every loaded subsample, and an empty
subsample table — this is the `N = 0` case of `cumsum` (C19), once per loaded subsample and once for the
per-file offsets. -/
theorem load_filter_nothing (o : Opts) (slabs : List (Slab α))
    (hc : o.cleaned = true → ∀ s ∈ slabs, s.clean.length = s.halos.length) :
    load { o with masks := some (allMasks false slabs) } slabs =
      .ok { rows := [], nPer := slabs.map (fun _ => 0),
            idx := (loadList o).map (fun X => (X, [], [])), sub := [] } := by
  let o' : Opts := { o with masks := some (allMasks false slabs) }
  have hread := readAll_false o.cleaned slabs hc
  have hmask : masksFor o'.masks slabs.length = .ok ((allMasks false slabs).map some) := by
    simp [o', masksFor, allMasks]
  have hflat : ∀ (l : List (Slab α)), (l.map (fun _ => ([] : List Row))).flatten = [] := by
    intro l; induction l with
    | nil => rfl
    | cons _ _ ih => simpa using ih
  have hzip : ∀ (l : List (Slab α)) (f : Slab α × List Row → List α),
      (∀ s, f (s, []) = []) → ((l.zip (l.map (fun _ => ([] : List Row)))).flatMap f) = [] := by
    intro l f hf; induction l with
    | nil => rfl
    | cons s ss ih => simp [hf, ih]
  have hwf : wf o' slabs = true := by
    unfold wf
    rw [hmask]
    show (match readAll o.cleaned slabs ((allMasks false slabs).map some) with
      | .error _ => false
      | .ok kept => _) = true
    rw [hread]
    simp only [List.all_eq_true]
    intro p hp
    rw [List.zip_map_right] at hp
    obtain ⟨q, _, rfl⟩ := List.mem_map.mp hp
    simp
  obtain ⟨mks, kept, h1, h2, _, h4⟩ := load_eq o' slabs ((wf_iff _ _).mp hwf)
  rw [hmask] at h1
  cases h1
  have h2' : readAll o.cleaned slabs ((allMasks false slabs).map some) = .ok kept := h2
  rw [hread] at h2'
  cases h2'
  show load o' slabs = _
  rw [h4]
  congr 1
  have hl : loadList o' = loadList o := rfl
  have hparts : ∀ X, ((slabs.zip (slabs.map (fun _ => ([] : List Row)))).flatMap
      (fun p => p.2.flatMap (ownParts X (p.1.part X) (p.1.cleanPart X)))) = [] :=
    fun X => hzip slabs _ (fun s => rfl)
  simp only [specRes, allParts, partsOf, cntsOf, hflat, hl, hparts, List.map_nil, offsets_nil,
    List.dropLast_singleton, List.length_nil, List.map_map]
  simp [Function.comp_def]

/-! ### concatenation of superslab lists -/

theorem readAll_append (cleaned : Bool) :
    ∀ (s1 s2 : List (Slab α)) (mk1 mk2 : List (Option (List Bool))) (k1 k2 : List (List Row)),
      s1.length = mk1.length → readAll cleaned s1 mk1 = .ok k1 → readAll cleaned s2 mk2 = .ok k2 →
      readAll cleaned (s1 ++ s2) (mk1 ++ mk2) = .ok (k1 ++ k2) := by
  intro s1
  induction s1 with
  | nil =>
    intro s2 mk1 mk2 k1 k2 hl h1 h2
    cases mk1 with
    | nil => simp [readAll] at h1; subst h1; simpa using h2
    | cons _ _ => simp at hl
  | cons s ss ih =>
    intro s2 mk1 mk2 k1 k2 hl h1 h2
    cases mk1 with
    | nil => simp at hl
    | cons m ms =>
      unfold readAll at h1
      simp only [List.cons_append]
      unfold readAll
      cases hf : readFile cleaned s m with
      | error e => simp [hf] at h1
      | ok k =>
        cases hr : readAll cleaned ss ms with
        | error e => simp [hf, hr] at h1
        | ok ks =>
          simp only [hf, hr, Except.ok.injEq] at h1
          subst h1
          rw [ih s2 ms mk2 ks k2 (by simpa using hl) hr h2]
          rfl

theorem idxOf_specRes (o : Opts) (X : Sub) (hX : X ∈ loadList o) (slabs : List (Slab α))
    (kept : List (List Row)) :
    idxOf X (specRes o slabs kept).idx =
      some ((offsets (offOf o kept X) (cntsOf X kept)).dropLast, cntsOf X kept) := by
  unfold specRes
  cases ha : o.loadA <;> cases hb : o.loadB <;> cases X <;> simp [loadList, ha, hb] at hX <;>
    simp [loadList, ha, hb, idxOf]

theorem take_len_map {β γ} (f : β → γ) (l : List β) : (l.map f).take l.length = l.map f := by
  rw [← List.map_take, List.take_length]

theorem block_specRes (o : Opts) (X : Sub) (hX : X ∈ loadList o) (slabs : List (Slab α))
    (kept : List (List Row)) (hk : keptWF o slabs kept) :
    block (specRes o slabs kept) X = (partsOf X slabs kept).map some := by
  have hlen := fun Y hY => partsOf_length o Y hY slabs kept hk
  cases ha : o.loadA <;> cases hb : o.loadB <;> cases X <;> simp [loadList, ha, hb] at hX
  · have h := hlen .B (by simp [loadList, ha, hb])
    simp [block, blockLen, specRes, allParts, loadList, ha, hb, idxOf, ← h, take_len_map]
  · have h := hlen .A (by simp [loadList, ha, hb])
    simp [block, blockLen, specRes, allParts, loadList, ha, hb, idxOf, ← h, take_len_map]
  · have h := hlen .A (by simp [loadList, ha, hb])
    simp [block, blockLen, specRes, allParts, loadList, ha, hb, idxOf, ← h, take_len_map]
  · have hA := hlen .A (by simp [loadList, ha, hb])
    have hB := hlen .B (by simp [loadList, ha, hb])
    simp [block, blockLen, specRes, allParts, loadList, ha, hb, idxOf, ← hA, ← hB, take_len_map]

theorem partsOf_append (X : Sub) (s1 s2 : List (Slab α)) (k1 k2 : List (List Row))
    (hl : s1.length = k1.length) :
    partsOf X (s1 ++ s2) (k1 ++ k2) = partsOf X s1 k1 ++ partsOf X s2 k2 := by
  unfold partsOf
  rw [List.zip_append hl, List.flatMap_append]

theorem cntsOf_append (X : Sub) (k1 k2 : List (List Row)) :
    cntsOf X (k1 ++ k2) = cntsOf X k1 ++ cntsOf X k2 := by
  simp [cntsOf]

/-- the closed forms glue -/
theorem specRes_append (o : Opts) (s1 s2 : List (Slab α)) (k1 k2 : List (List Row))
    (hk1 : keptWF o s1 k1) (hk2 : keptWF o s2 k2) :
    specRes o (s1 ++ s2) (k1 ++ k2) = glue (specRes o s1 k1) (specRes o s2 k2) := by
  have hb1 := fun X hX => block_specRes o X hX s1 k1 hk1
  have hb2 := fun X hX => block_specRes o X hX s2 k2 hk2
  have hi1 := fun X hX => idxOf_specRes o X hX s1 k1
  have hi2 := fun X hX => idxOf_specRes o X hX s2 k2
  have hsubs : (specRes o s1 k1).idx.map (·.1) = loadList o := by
    simp [specRes, List.map_map, Function.comp_def]
  unfold glue rebuild
  simp only [hsubs]
  cases ha : o.loadA <;> cases hb : o.loadB
  · simp [specRes, allParts, loadList, ha, hb]
  · have hB : Sub.B ∈ loadList o := by simp [loadList, ha, hb]
    simp only [loadList, ha, hb, if_true, if_false, Bool.false_eq_true, List.nil_append, List.append_nil,
      List.map_cons, List.map_nil, List.flatMap_cons, List.flatMap_nil]
    rw [hi1 .B hB, hi2 .B hB, hb1 .B hB, hb2 .B hB]
    simp [specRes, allParts, loadList, ha, hb, partsOf_append .B s1 s2 k1 k2 hk1.1, cntsOf_append, offOf]
  · have hA : Sub.A ∈ loadList o := by simp [loadList, ha, hb]
    simp only [loadList, ha, hb, if_true, if_false, Bool.false_eq_true, List.nil_append, List.append_nil,
      List.map_cons, List.map_nil, List.flatMap_cons, List.flatMap_nil]
    rw [hi1 .A hA, hi2 .A hA, hb1 .A hA, hb2 .A hA]
    simp [specRes, allParts, loadList, ha, hb, partsOf_append .A s1 s2 k1 k2 hk1.1, cntsOf_append, offOf]
  · have hA : Sub.A ∈ loadList o := by simp [loadList, ha, hb]
    have hB : Sub.B ∈ loadList o := by simp [loadList, ha, hb]
    simp only [loadList, ha, hb, if_true, if_false, Bool.false_eq_true, List.nil_append, List.append_nil,
      List.cons_append, List.map_cons, List.map_nil, List.flatMap_cons, List.flatMap_nil]
    rw [hi1 .A hA, hi2 .A hA, hb1 .A hA, hb2 .A hA, hi1 .B hB, hi2 .B hB, hb1 .B hB, hb2 .B hB]
    simp [specRes, allParts, loadList, ha, hb, partsOf_append _ s1 s2 k1 k2 hk1.1, cntsOf_append, offOf,
      total_append]

theorem keptWF_masks (o : Opts) (m : Option (List (List Bool))) (slabs : List (Slab α))
    (kept : List (List Row)) : keptWF { o with masks := m } slabs kept ↔ keptWF o slabs kept := Iff.rfl

theorem specRes_masks (o : Opts) (m : Option (List (List Bool))) (slabs : List (Slab α))
    (kept : List (List Row)) : specRes { o with masks := m } slabs kept = specRes o slabs kept := rfl

/-- **load_append.**  Loading the concatenation of two lists of superslabs (each with its own per-superslab
masks) is the `glue` of the two loads: rows and per-file counts appended, the index columns re-based by the A
and B totals, the table `A₁ ++ A₂ ++ B₁ ++ B₂`.  By induction this is "a load of any list of files is the
concatenation, in list order, of the single-file loads". -/
theorem load_append (o : Opts) (s1 s2 : List (Slab α)) (m1 m2 : List (List Bool))
    (h1 : wfE { o with masks := some m1 } s1) (h2 : wfE { o with masks := some m2 } s2) :
    ∃ r1 r2, load { o with masks := some m1 } s1 = .ok r1 ∧ load { o with masks := some m2 } s2 = .ok r2 ∧
      load { o with masks := some (m1 ++ m2) } (s1 ++ s2) = .ok (glue r1 r2) ∧
      wfE { o with masks := some (m1 ++ m2) } (s1 ++ s2) := by
  obtain ⟨mk1, k1, hm1, hr1, hk1, hl1⟩ := load_eq _ s1 h1
  obtain ⟨mk2, k2, hm2, hr2, hk2, hl2⟩ := load_eq _ s2 h2
  have e1 : mk1 = m1.map some ∧ m1.length = s1.length := by
    simp only [masksFor] at hm1
    split at hm1
    · cases hm1
    · rename_i hne
      cases hm1
      exact ⟨rfl, Classical.byContradiction (fun hc => hne hc)⟩
  have e2 : mk2 = m2.map some ∧ m2.length = s2.length := by
    simp only [masksFor] at hm2
    split at hm2
    · cases hm2
    · rename_i hne
      cases hm2
      exact ⟨rfl, Classical.byContradiction (fun hc => hne hc)⟩
  obtain ⟨rfl, hlen1⟩ := e1
  obtain ⟨rfl, hlen2⟩ := e2
  have hmask : masksFor (some (m1 ++ m2)) (s1 ++ s2).length = .ok ((m1 ++ m2).map some) := by
    simp [masksFor, hlen1, hlen2]
  have hread : readAll o.cleaned (s1 ++ s2) ((m1 ++ m2).map some) = .ok (k1 ++ k2) := by
    rw [List.map_append]
    exact readAll_append o.cleaned s1 s2 _ _ k1 k2 (by simp [hlen1]) hr1 hr2
  have hk12 : keptWF o (s1 ++ s2) (k1 ++ k2) := by
    refine ⟨by simp [hk1.1, hk2.1], ?_⟩
    intro p hp
    rw [List.zip_append hk1.1, List.mem_append] at hp
    rcases hp with hp | hp
    · exact hk1.2 p hp
    · exact hk2.2 p hp
  have hwf : wf { o with masks := some (m1 ++ m2) } (s1 ++ s2) = true := by
    unfold wf
    simp only [hmask]
    show (match readAll o.cleaned (s1 ++ s2) ((m1 ++ m2).map some) with
      | .error _ => false
      | .ok kept => _) = true
    rw [hread]
    simp only [List.all_eq_true]
    intro p hp r hr X hX
    exact hk12.2 p hp r hr X hX
  obtain ⟨mk, k, hm, hr, _, hl⟩ := load_eq _ (s1 ++ s2) ((wf_iff _ _).mp hwf)
  have hm' : masksFor (some (m1 ++ m2)) (s1 ++ s2).length = .ok mk := hm
  rw [hmask] at hm'
  cases hm'
  have hr' : readAll o.cleaned (s1 ++ s2) ((m1 ++ m2).map some) = .ok k := hr
  rw [hread] at hr'
  cases hr'
  refine ⟨_, _, hl1, hl2, ?_, (wf_iff _ _).mp hwf⟩
  rw [hl, specRes_masks, specRes_masks, specRes_masks]
  congr 1
  exact specRes_append o s1 s2 k1 k2 hk1 hk2

theorem mem_zip_of_mem_left {β γ} : ∀ (l1 : List β) (l2 : List γ) (a : β),
    l1.length = l2.length → a ∈ l1 → ∃ b, (a, b) ∈ l1.zip l2 := by
  intro l1
  induction l1 with
  | nil => intro l2 a _ ha; cases ha
  | cons x l1 ih =>
    intro l2 a hl ha
    cases l2 with
    | nil => simp at hl
    | cons y l2 =>
      rcases List.mem_cons.mp ha with rfl | ha'
      · exact ⟨y, by simp⟩
      · obtain ⟨b, hb⟩ := ih l2 a (by simpa using hl) ha'
        exact ⟨b, by simp [hb]⟩

theorem allMasks_append (b : Bool) (s1 s2 : List (Slab α)) :
    allMasks b (s1 ++ s2) = allMasks b s1 ++ allMasks b s2 := by simp [allMasks]

/-- `load_append` without a filter function -/
theorem load_append_nofilter (o : Opts) (s1 s2 : List (Slab α))
    (h1 : wfE { o with masks := some (allMasks true s1) } s1)
    (h2 : wfE { o with masks := some (allMasks true s2) } s2) :
    ∃ r1 r2, load { o with masks := none } s1 = .ok r1 ∧ load { o with masks := none } s2 = .ok r2 ∧
      load { o with masks := none } (s1 ++ s2) = .ok (glue r1 r2) := by
  obtain ⟨r1, r2, e1, e2, e3, _⟩ := load_append o s1 s2 _ _ h1 h2
  rw [← allMasks_append] at e3
  have c1 : o.cleaned = true → ∀ s ∈ s1, s.clean.length = s.halos.length := by
    intro hc s hs
    obtain ⟨m, hm⟩ := mem_zip_of_mem_left s1 (allMasks true s1) s (by simp [allMasks]) hs
    exact (h1.2 (s, m) hm).1 hc
  have c2 : o.cleaned = true → ∀ s ∈ s2, s.clean.length = s.halos.length := by
    intro hc s hs
    obtain ⟨m, hm⟩ := mem_zip_of_mem_left s2 (allMasks true s2) s (by simp [allMasks]) hs
    exact (h2.2 (s, m) hm).1 hc
  have c12 : o.cleaned = true → ∀ s ∈ s1 ++ s2, s.clean.length = s.halos.length := by
    intro hc s hs
    rcases List.mem_append.mp hs with hs | hs
    · exact c1 hc s hs
    · exact c2 hc s hs
  exact ⟨r1, r2, (load_filter_none o s1 c1).symm.trans e1, (load_filter_none o s2 c2).symm.trans e2,
    (load_filter_none o (s1 ++ s2) c12).symm.trans e3⟩

/-! ### general masks -/

theorem maskRows_nil {β} (m : List Bool) : maskRows ([] : List β) m = [] := by simp [maskRows]

theorem maskRows_cons {β} (r : β) (rs : List β) (b : Bool) (m : List Bool) :
    maskRows (r :: rs) (b :: m) = (if b then [r] else []) ++ maskRows rs m := by
  cases b <;> simp [maskRows]

theorem maskRows_append {β} (a b : List β) (ma mb : List Bool) (h : a.length = ma.length) :
    maskRows (a ++ b) (ma ++ mb) = maskRows a ma ++ maskRows b mb := by
  induction a generalizing ma with
  | nil => cases ma with
    | nil => simp [maskRows_nil]
    | cons _ _ => simp at h
  | cons x a ih =>
    cases ma with
    | nil => simp at h
    | cons y ma =>
      simp only [List.cons_append, maskRows_cons, List.append_assoc]
      rw [ih ma (by simpa using h)]

theorem maskRows_map {β γ} (f : β → γ) (l : List β) (m : List Bool) :
    maskRows (l.map f) m = (maskRows l m).map f := by
  induction l generalizing m with
  | nil => simp [maskRows_nil]
  | cons x l ih =>
    cases m with
    | nil => simp [maskRows]
    | cons b m => rw [List.map_cons, maskRows_cons, maskRows_cons, ih]; cases b <;> simp

theorem mem_maskRows {β} (r : β) (l : List β) (m : List Bool) (h : r ∈ maskRows l m) : r ∈ l := by
  simp only [maskRows, List.mem_map, List.mem_filter] at h
  obtain ⟨p, ⟨hp, _⟩, rfl⟩ := h
  exact (List.of_mem_zip hp).1

/-- the per-superslab masked rows -/
def maskKept : List (List Row) → List (List Bool) → List (List Row)
  | k :: ks, m :: ms => maskRows k m :: maskKept ks ms
  | _, _ => []

theorem readAll_masked (cleaned : Bool) :
    ∀ (slabs : List (Slab α)) (ms : List (List Bool)) (kAll : List (List Row)),
      readAll cleaned slabs ((allMasks true slabs).map some) = .ok kAll →
      ms.length = slabs.length → (∀ p ∈ ms.zip slabs, p.1.length = p.2.halos.length) →
      readAll cleaned slabs (ms.map some) = .ok (maskKept kAll ms) ∧
      maskRows kAll.flatten ms.flatten = (maskKept kAll ms).flatten ∧
      (∀ p ∈ kAll.zip ms, p.1.length = p.2.length) ∧ kAll.length = ms.length := by
  intro slabs
  induction slabs with
  | nil =>
    intro ms kAll h hl _
    cases ms with
    | nil => simp [readAll, allMasks] at h; subst h; simp [readAll, maskKept, maskRows_nil]
    | cons _ _ => simp at hl
  | cons s ss ih =>
    intro ms kAll h hl hshape
    cases ms with
    | nil => simp at hl
    | cons m ms' =>
      simp only [allMasks, List.map_cons] at h
      unfold readAll at h
      rw [readFile_true] at h
      cases hf : readFile cleaned s none with
      | error e => simp [hf] at h
      | ok k =>
        cases hr : readAll cleaned ss ((allMasks true ss).map some) with
        | error e =>
          have hr' : readAll cleaned ss (List.map some (List.map (fun s => List.replicate s.halos.length true) ss)) =
              .error e := hr
          simp only [hf, hr'] at h
          cases h
        | ok ks =>
          have hr' : readAll cleaned ss (List.map some (List.map (fun s => List.replicate s.halos.length true) ss)) =
              .ok ks := hr
          simp only [hf, hr', Except.ok.injEq] at h
          subst h
          obtain ⟨i1, i2, i3, i4⟩ := ih ms' ks hr (by simpa using hl)
            (fun p hp => hshape p (by simp [hp]))
          have hm : m.length = s.halos.length := hshape (m, s) (by simp)
          have hk : k.length = s.halos.length := by
            unfold readFile at hf
            cases hrows : rowsOf cleaned s with
            | error e => simp [hrows] at hf
            | ok rows =>
              simp only [hrows, Except.ok.injEq] at hf
              subst hf
              exact rowsOf_length cleaned s _ hrows
          refine ⟨?_, ?_, ?_, by simp [i4]⟩
          · simp only [List.map_cons]
            unfold readAll
            rw [i1]
            unfold readFile at hf ⊢
            cases hrows : rowsOf cleaned s with
            | error e => simp [hrows] at hf
            | ok rows =>
              simp only [hrows, Except.ok.injEq] at hf
              subst hf
              simp [hm, ← hk, maskKept]
          · simp only [List.flatten_cons, maskKept]
            rw [maskRows_append _ _ _ _ (by omega), i2]
          · intro p hp
            simp only [List.zip_cons_cons, List.mem_cons] at hp
            rcases hp with rfl | hp
            · simp; omega
            · exact i3 p hp

theorem keptWF_masked (o : Opts) :
    ∀ (slabs : List (Slab α)) (kAll : List (List Row)) (ms : List (List Bool)),
      keptWF o slabs kAll → kAll.length = ms.length → keptWF o slabs (maskKept kAll ms) := by
  intro slabs
  induction slabs with
  | nil =>
    intro kAll ms hk hl
    cases kAll with
    | nil => exact ⟨by simp [maskKept], by simp⟩
    | cons _ _ => have := hk.1; simp at this
  | cons s ss ih =>
    intro kAll ms hk hl
    cases kAll with
    | nil => have := hk.1; simp at this
    | cons k ks =>
      cases ms with
      | nil => simp at hl
      | cons m ms' =>
        have hrest : keptWF o ss ks :=
          ⟨by simpa using hk.1, fun p hp => hk.2 p (by simp [hp])⟩
        obtain ⟨l1, l2⟩ := ih ks ms' hrest (by simpa using hl)
        refine ⟨by simp [maskKept, l1], ?_⟩
        intro p hp
        simp only [maskKept, List.zip_cons_cons, List.mem_cons] at hp
        rcases hp with rfl | hp
        · intro r hr
          exact hk.2 (s, k) (by simp) r (mem_maskRows r k m hr)
        · exact l2 p hp

theorem owners_masked :
    ∀ (slabs : List (Slab α)) (kAll : List (List Row)) (ms : List (List Bool)),
      slabs.length = kAll.length → kAll.length = ms.length → (∀ p ∈ kAll.zip ms, p.1.length = p.2.length) →
      owners slabs (maskKept kAll ms) = maskRows (owners slabs kAll) ms.flatten := by
  intro slabs
  induction slabs with
  | nil => intro kAll ms _ _ _; simp [owners, maskRows_nil]
  | cons s ss ih =>
    intro kAll ms h1 h2 h3
    cases kAll with
    | nil => simp at h1
    | cons k ks =>
      cases ms with
      | nil => simp at h2
      | cons m ms' =>
        have := ih ks ms' (by simpa using h1) (by simpa using h2) (fun p hp => h3 p (by simp [hp]))
        have hkm : k.length = m.length := h3 (k, m) (by simp)
        unfold owners at this ⊢
        simp only [maskKept, List.zip_cons_cons, List.flatMap_cons, List.flatten_cons]
        rw [maskRows_append _ _ _ _ (by simpa using hkm), this, maskRows_map]

theorem slicesOf_blocks {β} (post : List β) :
    ∀ (L : List (List β)) (pre : List β),
      slicesOf (pre ++ L.flatten ++ post) (offsets pre.length (L.map List.length)).dropLast (L.map List.length) = L := by
  intro L
  induction L with
  | nil => intro pre; simp [slicesOf]
  | cons x L ih =>
    intro pre
    rw [List.map_cons, offsets_cons, offsets_eq (pre.length + x.length), List.dropLast_cons₂, ← offsets_eq]
    simp only [slicesOf, List.flatten_cons]
    congr 1
    · rw [show pre ++ (x ++ L.flatten) ++ post = pre ++ x ++ (L.flatten ++ post) by simp]
      exact pySlice_mid pre x _
    · have := ih (pre ++ x)
      simp only [List.length_append, List.append_assoc] at this ⊢
      exact this

theorem splitBy_flatten {β} : ∀ (ms : List (List β)), splitBy (ms.map List.length) ms.flatten = ms := by
  intro ms
  induction ms with
  | nil => rfl
  | cons m ms ih => simp [splitBy, ih]

theorem maskKept_lengths :
    ∀ (kAll : List (List Row)) (ms : List (List Bool)), kAll.length = ms.length →
      (∀ p ∈ kAll.zip ms, p.1.length = p.2.length) →
      (maskKept kAll ms).map List.length = ms.map (fun m => (m.filter id).length) ∧
      kAll.map List.length = ms.map List.length := by
  intro kAll
  induction kAll with
  | nil => intro ms hl _; cases ms with
    | nil => simp [maskKept]
    | cons _ _ => simp at hl
  | cons k ks ih =>
    intro ms hl h
    cases ms with
    | nil => simp at hl
    | cons m ms' =>
      obtain ⟨i1, i2⟩ := ih ms' (by simpa using hl) (fun p hp => h p (by simp [hp]))
      have hkm : k.length = m.length := h (k, m) (by simp)
      refine ⟨?_, by simp [i2, hkm]⟩
      simp only [maskKept, List.map_cons, i1]
      congr 1
      clear ih i1 i2 h hl
      induction k generalizing m with
      | nil => cases m with
        | nil => rfl
        | cons _ _ => simp at hkm
      | cons r rs ih2 =>
        cases m with
        | nil => simp at hkm
        | cons b m =>
          rw [maskRows_cons, List.length_append, ih2 m (by simpa using hkm)]
          cases b <;> simp <;> omega

theorem slicesOf_specRes (o : Opts) (X : Sub) (hX : X ∈ loadList o) (slabs : List (Slab α))
    (kept : List (List Row)) (hk : keptWF o slabs kept) :
    slicesOf (specRes o slabs kept).sub (offsets (offOf o kept X) (cntsOf X kept)).dropLast (cntsOf X kept) =
      (owners slabs kept).map (fun p => (ownParts X (p.1.part X) (p.1.cleanPart X) p.2).map some) := by
  obtain ⟨pre, post, hsplit, hpre⟩ := allParts_split o X hX slabs kept hk
  have hcounts := owners_counts o X hX slabs kept hk
  let blocks := (owners slabs kept).map (fun p => (ownParts X (p.1.part X) (p.1.cleanPart X) p.2).map some)
  have hb2 : blocks.map List.length = cntsOf X kept := by
    rw [← hcounts]; simp [blocks, List.map_map, Function.comp_def]
  have hb3 : blocks.flatten = (partsOf X slabs kept).map some := by
    rw [partsOf_eq_owners]; simp [blocks, List.map_flatten, List.map_map, Function.comp_def]
  have := slicesOf_blocks (post.map some) blocks (pre.map some)
  rw [hb2, hb3, List.length_map, hpre] at this
  simp only [specRes, hsplit, List.map_append]
  exact this

theorem partsOf_masked (o : Opts) (X : Sub) (hX : X ∈ loadList o) (slabs : List (Slab α))
    (kAll : List (List Row)) (ms : List (List Bool)) (hk : keptWF o slabs kAll)
    (hl : kAll.length = ms.length) (hlen : ∀ p ∈ kAll.zip ms, p.1.length = p.2.length) :
    (maskRows (slicesOf (specRes o slabs kAll).sub (offsets (offOf o kAll X) (cntsOf X kAll)).dropLast
        (cntsOf X kAll)) ms.flatten).flatten = (partsOf X slabs (maskKept kAll ms)).map some := by
  rw [slicesOf_specRes o X hX slabs kAll hk, maskRows_map, ← owners_masked slabs kAll ms hk.1 hl hlen,
    partsOf_eq_owners]
  simp [List.map_flatten, List.map_map, Function.comp_def]

theorem cntsOf_masked (X : Sub) (kAll : List (List Row)) (ms : List (List Bool))
    (hflat : maskRows kAll.flatten ms.flatten = (maskKept kAll ms).flatten) :
    maskRows (cntsOf X kAll) ms.flatten = cntsOf X (maskKept kAll ms) := by
  unfold cntsOf
  rw [maskRows_map, hflat]

theorem specRes_masked (o : Opts) (slabs : List (Slab α)) (kAll : List (List Row)) (ms : List (List Bool))
    (hk : keptWF o slabs kAll) (hl : kAll.length = ms.length)
    (hlen : ∀ p ∈ kAll.zip ms, p.1.length = p.2.length)
    (hflat : maskRows kAll.flatten ms.flatten = (maskKept kAll ms).flatten) :
    specRes o slabs (maskKept kAll ms) = applyMask ms.flatten (specRes o slabs kAll) := by
  have hi := fun X hX => idxOf_specRes o X hX slabs kAll
  have hp := fun X hX => partsOf_masked o X hX slabs kAll ms hk hl hlen
  have hc := fun X => cntsOf_masked X kAll ms hflat
  obtain ⟨hn1, hn2⟩ := maskKept_lengths kAll ms hl hlen
  have hsubs : (specRes o slabs kAll).idx.map (·.1) = loadList o := by
    simp [specRes, List.map_map, Function.comp_def]
  have hnper : (splitBy (specRes o slabs kAll).nPer ms.flatten).map (fun piece => (piece.filter id).length) =
      (maskKept kAll ms).map List.length := by
    simp only [specRes, hn2, splitBy_flatten, hn1]
  have hrows : maskRows (specRes o slabs kAll).rows ms.flatten = (maskKept kAll ms).flatten := hflat
  unfold applyMask rebuild
  simp only [hsubs, hnper, hrows]
  cases ha : o.loadA <;> cases hb : o.loadB
  · simp [specRes, allParts, loadList, ha, hb]
  · have hB : Sub.B ∈ loadList o := by simp [loadList, ha, hb]
    simp only [loadList, ha, hb, if_true, if_false, Bool.false_eq_true, List.nil_append, List.append_nil,
      List.map_cons, List.map_nil, List.flatMap_cons, List.flatMap_nil]
    rw [hi .B hB]
    simp only []
    rw [hp .B hB, hc .B]
    simp [specRes, allParts, loadList, ha, hb, offOf]
  · have hA : Sub.A ∈ loadList o := by simp [loadList, ha, hb]
    simp only [loadList, ha, hb, if_true, if_false, Bool.false_eq_true, List.nil_append, List.append_nil,
      List.map_cons, List.map_nil, List.flatMap_cons, List.flatMap_nil]
    rw [hi .A hA]
    simp only []
    rw [hp .A hA, hc .A]
    simp [specRes, allParts, loadList, ha, hb, offOf]
  · have hA : Sub.A ∈ loadList o := by simp [loadList, ha, hb]
    have hB : Sub.B ∈ loadList o := by simp [loadList, ha, hb]
    simp only [loadList, ha, hb, if_true, if_false, Bool.false_eq_true, List.nil_append, List.append_nil,
      List.cons_append, List.map_cons, List.map_nil, List.flatMap_cons, List.flatMap_nil]
    rw [hi .A hA, hi .B hB]
    simp only []
    rw [hp .A hA, hp .B hB, hc .A, hc .B]
    simp [specRes, allParts, loadList, ha, hb, offOf]

/-- **load_filter.**  For any per-superslab masks `ms` of the right shape, loading with them as the filter
results yields exactly `applyMask` of the unfiltered load (all-true masks, equivalently no filter —
`load_filter_none`): the kept rows, per-file kept counts, and their particle slices re-indexed
contiguously, A before B.  `load_filter_nothing` is the all-false instance in closed form. -/
theorem load_filter (o : Opts) (slabs : List (Slab α)) (ms : List (List Bool))
    (hall : wfE { o with masks := some (allMasks true slabs) } slabs)
    (hl : ms.length = slabs.length) (hshape : ∀ p ∈ ms.zip slabs, p.1.length = p.2.halos.length) :
    ∃ rAll, load { o with masks := some (allMasks true slabs) } slabs = .ok rAll ∧
      load { o with masks := some ms } slabs = .ok (applyMask ms.flatten rAll) ∧
      wfE { o with masks := some ms } slabs := by
  obtain ⟨mk, kAll, hm, hr, hk, hload⟩ := load_eq _ slabs hall
  have hm' : mk = (allMasks true slabs).map some := by
    simp only [masksFor, allMasks, List.length_map, ne_eq, not_true_eq_false, if_false] at hm
    cases hm; rfl
  subst hm'
  obtain ⟨r1, r2, r3, r4⟩ := readAll_masked o.cleaned slabs ms kAll hr hl hshape
  have hkM : keptWF o slabs (maskKept kAll ms) := keptWF_masked o slabs kAll ms hk r4
  have hmask : masksFor (some ms) slabs.length = .ok (ms.map some) := by simp [masksFor, hl]
  have hwf : wf { o with masks := some ms } slabs = true := by
    unfold wf
    simp only [hmask]
    show (match readAll o.cleaned slabs (ms.map some) with
      | .error _ => false
      | .ok kept => _) = true
    rw [r1]
    simp only [List.all_eq_true]
    intro p hp r hr X hX
    exact hkM.2 p hp r hr X hX
  obtain ⟨mk', kM, hm2, hr2, _, hload2⟩ := load_eq _ slabs ((wf_iff _ _).mp hwf)
  have hm2' : masksFor (some ms) slabs.length = .ok mk' := hm2
  rw [hmask] at hm2'
  cases hm2'
  have hr2' : readAll o.cleaned slabs (ms.map some) = .ok kM := hr2
  rw [r1] at hr2'
  cases hr2'
  refine ⟨_, hload, ?_, (wf_iff _ _).mp hwf⟩
  rw [hload2, specRes_masks, specRes_masks]
  congr 1
  exact specRes_masked o slabs kAll ms hk r4 r3 r2

/-! ### file lists -/

variable {σ : Type} [DecidableEq σ]

theorem hasDup_false_iff (ps : List (PathIn σ)) : hasDup ps = false ↔ ps.Nodup := by
  induction ps with
  | nil => simp [hasDup]
  | cons p rest ih =>
    simp only [hasDup, Bool.or_eq_false_iff, List.nodup_cons, ih]
    constructor
    · intro ⟨h1, h2⟩
      exact ⟨by simpa using h1, h2⟩
    · intro ⟨h1, h2⟩
      exact ⟨by simpa using h1, h2⟩

omit [DecidableEq σ] in
theorem parseAll_ok_iff (parse : σ → Option Nat) (ps : List (PathIn σ)) (is : List Nat) :
    parseAll parse ps = .ok is ↔ ps.map (fun p => parse p.stem) = is.map some := by
  induction ps generalizing is with
  | nil => cases is <;> simp [parseAll]
  | cons p rest ih =>
    unfold parseAll
    cases hp : parse p.stem with
    | none => cases is <;> simp [hp]
    | some i =>
      cases hr : parseAll parse rest with
      | error e =>
        have : ∀ js : List Nat, ¬ (rest.map (fun p => parse p.stem) = js.map some) := by
          intro js hjs
          have := (ih js).mpr hjs
          rw [hr] at this
          cases this
        cases is with
        | nil => simp [hp]
        | cons j js => simp [hp]; intro _; exact this js
      | ok js =>
        have hjs := (ih js).mp hr
        cases is with
        | nil => simp [hp]
        | cons j js' =>
          simp only [hp, List.map_cons, List.cons.injEq, Option.some.injEq, Except.ok.injEq]
          constructor
          · rintro ⟨rfl, rfl⟩; exact ⟨rfl, hjs⟩
          · rintro ⟨rfl, h2⟩
            refine ⟨rfl, ?_⟩
            rw [hjs] at h2
            exact (List.map_inj_right (fun a b h => Option.some.inj h)).mp h2

/-- **paths_spec.**  A list of files is accepted, with superslab indices `is`, exactly when it is non-empty,
every file belongs to the catalog directory of the first one, no file occurs twice, and `is` are the numbers
parsed from each file name (`parse` = `int(stem.split('_')[-1])`, `parseIndex` in the driver), in list order.
Otherwise it is rejected. -/
theorem paths_spec (parse : σ → Option Nat) (ps : List (PathIn σ)) (is : List Nat) :
    setupPaths parse ps = .ok is ↔
      (∃ p0, ps.head? = some p0 ∧ ∀ p ∈ ps, p.group = p0.group) ∧ ps.Nodup ∧
        ps.map (fun p => parse p.stem) = is.map some := by
  cases ps with
  | nil => simp [setupPaths]
  | cons p0 rest =>
    simp only [setupPaths, List.head?_cons, Option.some.injEq, exists_eq_left']
    by_cases hmix : (p0 :: rest).any (fun p => decide (p.group ≠ p0.group)) = true
    · rw [if_pos hmix]
      simp only [List.any_eq_true, decide_eq_true_eq] at hmix
      obtain ⟨p, hp, hne⟩ := hmix
      constructor
      · intro h; cases h
      · intro ⟨hall, _, _⟩; exact absurd (hall p hp) hne
    · rw [if_neg hmix]
      have hall : ∀ p ∈ p0 :: rest, p.group = p0.group := by
        intro p hp
        apply Classical.byContradiction
        intro hne
        exact hmix (List.any_eq_true.mpr ⟨p, hp, by simpa using hne⟩)
      cases hd : hasDup (p0 :: rest) with
      | true =>
        simp only [if_true]
        constructor
        · intro h; cases h
        · intro ⟨_, hnd, _⟩
          have := (hasDup_false_iff (p0 :: rest)).mpr hnd
          rw [hd] at this; cases this
      | false =>
        simp only [Bool.false_eq_true, if_false]
        rw [parseAll_ok_iff]
        exact ⟨fun h => ⟨hall, (hasDup_false_iff _).mp hd, h⟩, fun ⟨_, _, h⟩ => h⟩

/-- a foreign-catalog file is reported before a duplicate, a duplicate before an unparsable name -/
theorem paths_mixed_first (parse : σ → Option Nat) (ps : List (PathIn σ)) (p0 p : PathIn σ)
    (h0 : ps.head? = some p0) (hp : p ∈ ps) (hne : p.group ≠ p0.group) :
    setupPaths parse ps = .error .mixed := by
  cases ps with
  | nil => cases h0
  | cons q rest =>
    simp only [List.head?_cons, Option.some.injEq] at h0
    subst h0
    simp only [setupPaths]
    rw [if_pos (List.any_eq_true.mpr ⟨p, hp, by simpa using hne⟩)]

/-! ### non-vacuity of the load theorems: C01's example catalog (two superslabs, gaps, a zero-particle halo, a
cleaned-away halo, merged ranges) -/

example : wfE { exOpts with masks := some (allMasks true exSlabs) } exSlabs := (wf_iff _ _).mp (by decide)
example : ([[true, true, false], [true]] : List (List Bool)).length = exSlabs.length := by decide
example : ∀ p ∈ ([[true, true, false], [true]] : List (List Bool)).zip exSlabs, p.1.length = p.2.halos.length := by
  decide
example : wfE { exOpts with masks := some [[true, false, true]] } (exSlabs.take 1) := (wf_iff _ _).mp (by decide)
example : wfE { exOpts with masks := some [[true]] } (exSlabs.drop 1) := (wf_iff _ _).mp (by decide)
-- the masked unfiltered load, computed: row 2 of superslab 0 dropped, the rest re-indexed contiguously
example : ((load { exOpts with masks := some (allMasks true exSlabs) } exSlabs).toOption.map
    (fun r => (applyMask [true, true, false, true] r).sub)) =
    (load exOpts exSlabs).toOption.map (·.sub) := by decide
example : ((load { exOpts with masks := some (allMasks true exSlabs) } exSlabs).toOption.map
    (fun r => (applyMask [true, true, false, true] r).idx)) =
    some [(.A, [0, 3, 4], [3, 1, 1]), (.B, [5, 6, 7], [1, 1, 1])] := by decide
example : (load { exOpts with masks := some (allMasks false exSlabs) } exSlabs).toOption.map (·.sub) = some [] := by
  decide

/-! ### non-vacuity (stems are (prefix, number) pairs here; the driver uses strings and `parseIndex`) -/

def exParse (s : Nat × Option Nat) : Option Nat := s.2

example : setupPaths exParse [⟨1, (0, some 3)⟩, ⟨1, (0, some 12)⟩, ⟨1, (5, some 7)⟩] = .ok [3, 12, 7] := rfl
example : setupPaths exParse [⟨1, (0, some 3)⟩, ⟨2, (0, some 3)⟩, ⟨1, (0, some 3)⟩] = .error .mixed := rfl
example : setupPaths exParse [⟨1, (0, some 3)⟩, ⟨1, (0, some 4)⟩, ⟨1, (0, some 3)⟩] = .error .duplicate := rfl
example : setupPaths exParse [⟨1, (0, none)⟩] = .error .badIndex := rfl
example : lookupCol "N" (filterView false (⟨0, 1, 0, 1, 50⟩, some ⟨0, 0, 0, 0, 70⟩)) = some 70 := by decide

end AbacusVerif.Catalog
