/-
  C13 ← C06 + C08: `calc_power` modelled end to end with the C06 deposit (`Props/C13Link.lean`) and C08's
  `bin_kmu` (`Props/C13LinkC08.lean`) — no deposit or binning hypothesis left.
-/
import AbacusVerif.Props.C13Link
import AbacusVerif.Props.C13LinkC08

namespace AbacusVerif.Power
open AbacusVerif

variable {n : ℕ} [NeZero n]

omit [NeZero n] in
/-- the C06 deposit is real -/
theorem c06Deposit_real (c : Mass.Cfg) (Dom : Mass.Particle → Prop) (P : List {pt : Mass.Particle // Dom pt})
    (x : Idx n) : (starRingEnd ℂ) (c06Deposit c Dom P x) = c06Deposit c Dom P x := by
  unfold c06Deposit
  exact map_ratCast (starRingEnd ℂ) _

/-- **calc_power_symmetries_c06_c08.**  `calc_power` modelled end to end with the TSC/CIC deposit of the
C06 model (cubic mesh `n ≥ 2`, offset 0 and `off'`) and C08's `bin_kmu`: translation by whole cells,
permutation and `pos2 = pos` leave the outcome unchanged, and the not-interlaced, not-compensated per-mode
power is conjugation symmetric (so the binned means are full-mesh means, `c08_wsum_full_mesh`). -/
theorem calc_power_symmetries_c06_c08 (hn : 2 ≤ n) (kind : Mass.Kind) (box off' : ℚ) (hb : 0 < box)
    (ho : 0 ≤ off') (paste : Paste) (compensated interlaced : Bool) (T : ℕ) (assign : ℕ → ℕ)
    (ek em : List ℚ) (P : List {pt : Mass.Particle // NonnegPos pt}) :
    let c : Mass.Cfg := { kind := kind, gx := n, gy := n, gz := n, box := box, off := 0 }
    let c' : Mass.Cfg := { kind := kind, gx := n, gy := n, gz := n, box := box, off := off' }
    let D := c06Deposit (n := n) c NonnegPos
    let D' := c06Deposit (n := n) c' NonnegPos
    let shift := fun (s : Idx n) (pt : {pt : Mass.Particle // NonnegPos pt}) =>
      (⟨movePt box s pt.1, (cubic_of_nonneg hn kind box 0 hb le_rfl).dom_move s pt.1 pt.2⟩ :
        {pt : Mass.Particle // NonnegPos pt})
    (∀ s, calcPowerC08 D D' paste compensated interlaced T assign ek em (P.map (shift s)) none =
        calcPowerC08 D D' paste compensated interlaced T assign ek em P none) ∧
    (∀ P', P.Perm P' → calcPowerC08 D D' paste compensated interlaced T assign ek em P none =
        calcPowerC08 D D' paste compensated interlaced T assign ek em P' none) ∧
    calcPowerC08 D D' paste compensated interlaced T assign ek em P (some P) =
      calcPowerC08 D D' paste compensated interlaced T assign ek em P none ∧
    (∀ k, rawPowerOf D D' paste false false P none (-k) = rawPowerOf D D' paste false false P none k) := by
  intro c c' D D' shift
  have hD : IsDeposit shift D := c06_isDeposit (cubic_of_nonneg hn kind box 0 hb le_rfl)
  have hD' : IsDeposit shift D' := c06_isDeposit (cubic_of_nonneg hn kind box off' hb ho)
  obtain ⟨h1, _, h3, h4, _⟩ := calc_power_symmetries_c08 hD hD' paste compensated interlaced T assign ek em P
  refine ⟨h1, h3, h4, ?_⟩
  intro k
  simp only [rawPowerOf, Bool.false_eq_true, if_false]
  exact autoPower_conj_symm D D' (c06Deposit_real c NonnegPos) (c06Deposit_real c' NonnegPos) false _ _
    (fun h => by cases h) (fun _ => rfl) P k

/-- non-vacuity: the 2³ TSC mesh on a box of 4 (cell 2, interlacing offset 1), two weighted particles, shift
by `(1, 0, 1)` cells, C08 binning with `k²` edges `[0, 1, 4]`, one mu bin, two threads -/
example :
    let P : List {pt : Mass.Particle // NonnegPos pt} :=
      [⟨{ x := 1, y := 0, z := 7/2, w := 3/2 }, by unfold NonnegPos; norm_num⟩,
       ⟨{ x := 3, y := 1/2, z := 0, w := 1/4 }, by unfold NonnegPos; norm_num⟩]
    let c : Mass.Cfg := { kind := .tsc, gx := 2, gy := 2, gz := 2, box := 4, off := 0 }
    let c' : Mass.Cfg := { kind := .tsc, gx := 2, gy := 2, gz := 2, box := 4, off := 1 }
    calcPowerC08 (n := 2) (c06Deposit c NonnegPos) (c06Deposit c' NonnegPos) .tsc true true 2 (fun i => i % 2)
        [0, 1, 4] [0, 1]
        (P.map (fun pt => ⟨movePt 4 ((1, 0, 1) : Idx 2) pt.1,
          (cubic_of_nonneg (n := 2) le_rfl .tsc 4 0 (by norm_num) le_rfl).dom_move (1, 0, 1) pt.1 pt.2⟩)) none =
      calcPowerC08 (n := 2) (c06Deposit c NonnegPos) (c06Deposit c' NonnegPos) .tsc true true 2 (fun i => i % 2)
        [0, 1, 4] [0, 1] P none := by
  intro P c c'
  exact (calc_power_symmetries_c06_c08 (n := 2) le_rfl .tsc 4 1 (by norm_num) (by norm_num) .tsc true true 2
    (fun i => i % 2) [0, 1, 4] [0, 1] P).1 (1, 0, 1)

end AbacusVerif.Power
