/-
  C11 — compiled kernels never access memory outside their arrays.

  In-bounds theorems for the kernels modelled in Model/C11.lean, and the collection of the in-bounds
  corollaries proved with the models of the other properties (each routes every array access through
  the Python index rule, so "no `Fault.oob`" is a statement about every element access).
-/
import AbacusVerif.Model.C11
import AbacusVerif.Props.C19
import Mathlib.Data.Rat.Floor
import Mathlib.Tactic.Linarith

namespace AbacusVerif.Inbounds
open AbacusVerif

theorem rd_ok {len : Nat} {k : Nat} (mk : Nat → Access) (h : k < len) :
    rd len (k : Int) mk = .ok [mk k] := by
  unfold rd; rw [pyIndex_nonneg h]

theorem rd_last {len : Nat} (mk : Nat → Access) (h : 0 < len) :
    rd len (-1) mk = .ok [mk (len - 1)] := by
  unfold rd; rw [pyIndex_neg_one h]

theorem rd_zero {len : Nat} (mk : Nat → Access) (h : 0 < len) : rd len 0 mk = .ok [mk 0] :=
  rd_ok mk h

theorem rd_one {len : Nat} (mk : Nat → Access) (h : 1 < len) : rd len 1 mk = .ok [mk 1] :=
  rd_ok mk h

theorem truncInt_nonneg {f : ℚ} (h : 0 ≤ f) : 0 ≤ truncInt f := by
  unfold truncInt
  simp only [h, if_true]
  exact Int.floor_nonneg.mpr h

/-- **interp_reads_spec.**  With at least two grid points and `len y = len x`, for EVERY outcome of the
two comparisons and EVERY non-negative value `f` of the floating-point quotient, `linear_interp` does not
fault and reads exactly: `x[0]`, `y[0]` on the left; `x[0]`, `x[n-1]`, `y[n-1]` on the right; otherwise
`y[fl]`, `y[fl+1]` with `fl = min(⌊f⌋, n-2)`. -/
theorem interp_reads_spec (n : Nat) (hn : 2 ≤ n) (le ge : Bool) (f : ℚ) (hf : 0 ≤ f) :
    ∃ l, linearInterp n n le ge f = .ok l ∧
      l = (if le then [.x 0, .y 0]
           else if ge then [.x 0, .x (n - 1), .y (n - 1)]
           else
             let fl := (min (truncInt f) ((n : Int) - 2)).toNat
             [.x 0, .x (n - 1), .x 1, .x 0, .x 0, .y fl, .y (fl + 1), .y fl]) := by
  unfold linearInterp
  rw [rd_zero Access.x (by omega : 0 < n)]
  simp only [bind, Except.bind]
  cases le
  · simp only [Bool.false_eq_true, if_false]
    rw [rd_last Access.x (by omega : 0 < n)]
    simp only
    cases ge
    · simp only [Bool.false_eq_true, if_false]
      rw [rd_one Access.x (by omega : 1 < n)]
      simp only
      have ht := truncInt_nonneg hf
      have hfl0 : 0 ≤ min (truncInt f) ((n : Int) - 2) := by omega
      have hfl1 : min (truncInt f) ((n : Int) - 2) ≤ (n : Int) - 2 := by omega
      obtain ⟨k, hk⟩ := Int.eq_ofNat_of_zero_le hfl0
      rw [hk]
      have hk2 : k + 2 ≤ n := by omega
      rw [rd_ok Access.y (by omega : k < n)]
      simp only
      rw [show ((k : Int) + 1) = ((k + 1 : Nat) : Int) by push_cast; rfl,
        rd_ok Access.y (by omega : k + 1 < n)]
      simp only
      refine ⟨_, rfl, ?_⟩
      simp
    · simp only [if_true]
      rw [rd_last Access.y (by omega : 0 < n)]
      exact ⟨_, rfl, by simp⟩
  · simp only [if_true]
    rw [rd_zero Access.y (by omega : 0 < n)]
    exact ⟨_, rfl, by simp⟩

/-- **interp_inbounds.**  `linear_interp` never reads outside `x` or `y`, whatever the floating-point
quotient rounded to (the clamp `min(⌊f⌋, n-2)` is what makes this independent of rounding). -/
theorem interp_inbounds (n : Nat) (hn : 2 ≤ n) (le ge : Bool) (f : ℚ) (hf : 0 ≤ f) :
    linearInterp n n le ge f ≠ .error .oob := by
  obtain ⟨l, hl, _⟩ := interp_reads_spec n hn le ge f hf
  rw [hl]; intro h; cases h

/-- Without the clamp the same routine faults as soon as rounding makes `⌊f⌋ = n − 1`
(the defect repaired in /repo by "fix: linear_interp could read one element past the end of y"):
the index `⌊f⌋ + 1 = n` is outside `y`. -/
theorem unclamped_would_fault (n : Nat) (_hn : 2 ≤ n) : pyIndex n (((n : Int) - 1) + 1) = none := by
  unfold pyIndex
  have h : (0 : Int) ≤ ((n : Int) - 1) + 1 := by omega
  simp only [h, if_true]
  have : ¬ ((((n : Int) - 1) + 1).toNat < n) := by omega
  simp

/-- **rowLoop_inbounds.**  An element-wise kernel `for i in range(N): … a[i, c] …` stays inside an array
with at least `N` rows and more columns than every column index it uses; it touches exactly the pairs
`(i, c)`, `i < N`. -/
theorem rowLoop_inbounds (N rows ncol : Nat) (cols : List Nat) (hr : N ≤ rows) (hc : ∀ c ∈ cols, c < ncol) :
    rowLoop N rows ncol cols = .ok ((List.range N).flatMap (fun i => cols.map (fun c => (i, c)))) := by
  have idx_nat : ∀ {len k : Nat}, k < len → idx len (k : Int) = Except.ok k := by
    intro len k h; unfold idx; rw [pyIndex_nonneg h]
  have hcols : cols.mapM (fun (c : Nat) => idx ncol (c : Int)) = Except.ok cols := by
    induction cols with
    | nil => rfl
    | cons c cs ih =>
      have hc' : c < ncol := hc c (by simp)
      have ih' := ih (fun d hd => hc d (by simp [hd]))
      rw [List.mapM_cons, idx_nat hc', ih']
      rfl
  unfold rowLoop
  induction N with
  | zero => rfl
  | succ m ih =>
    rw [List.range_succ, List.foldlM_append, ih (by omega)]
    rw [List.flatMap_append]
    simp only [List.foldlM_cons, List.foldlM_nil, bind, Except.bind]
    rw [idx_nat (by omega : m < rows), hcols]
    simp [pure, Except.pure]

/-- cumsum (C19): for every input length including 0 and an output of the documented length -/
theorem cumsum_inbounds {α : Type} [Add α] (arr : List α) (outLen : Nat) (initial final : Bool) (off : α)
    (h : (outLen : Int) = Cumsum.expectedLen arr.length initial final) :
    Cumsum.cumsum arr outLen initial final off ≠ .error .oob :=
  Cumsum.cumsum_inbounds arr outLen initial final off h

/-! non-vacuity -/
example : linearInterp 5 5 false false (7/2) = .ok [.x 0, .x 4, .x 1, .x 0, .x 0, .y 3, .y 4, .y 3] := by
  decide +kernel
example : linearInterp 5 5 false false 4 = .ok [.x 0, .x 4, .x 1, .x 0, .x 0, .y 3, .y 4, .y 3] := by
  decide +kernel   -- f rounded up to n-1: clamped to the last interval
example : rowLoop 2 2 3 [0, 1, 2] = .ok [(0, 0), (0, 1), (0, 2), (1, 0), (1, 1), (1, 2)] := by
  decide +kernel

end AbacusVerif.Inbounds
