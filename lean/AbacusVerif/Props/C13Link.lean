/-
  C13 ← C06: the deposit hypotheses of the C13 theorems (`IsDeposit`: additive over the particle list,
  roll-equivariant under whole-cell shifts) are discharged from the C06 theorems about the TSC/CIC model
  (`Props/C06.lean`: `deposit_superposition`, `roll_equivariant`), for a cubic mesh with `n ≥ 2` cells a
  side.

  The grid of the C13 model is the C06 deposit onto a zero grid, cell `(x, y, z) ↦ flat index
  `(x·n + y)·n + z`, cast from ℚ to ℂ (`c06Deposit`, `c06Deposit_eq_scatter`); a particle is shifted by
  `s` whole cells by adding `s·(box/n)` to each coordinate (no wrap is needed in the C06 model: its domain
  has no upper limit; the real `tsc_parallel` wraps first, `wrap_inplace_spec`).
-/
import AbacusVerif.Props.C13
import AbacusVerif.Props.C06

namespace AbacusVerif.Power
open AbacusVerif AbacusVerif.Mass

variable {n : ℕ} [NeZero n]

/-- flat (row-major) index of a cell of the `n³` mesh -/
def flatIdx (x : Idx n) : ℕ := flat n n x.1.val x.2.1.val x.2.2.val

/-- move a particle by `s` whole cells along each axis (cell size `box / n`) -/
def movePt (box : ℚ) (s : Idx n) (pt : Particle) : Particle :=
  { x := pt.x + ((s.1.val : ℤ) : ℚ) * (box / n)
    y := pt.y + ((s.2.1.val : ℤ) : ℚ) * (box / n)
    z := pt.z + ((s.2.2.val : ℤ) : ℚ) * (box / n)
    w := pt.w }

/-- a cubic `n³` configuration together with a set `Dom` of admissible particles that lies inside C06's
domain and is closed under whole-cell moves -/
structure Cubic (n : ℕ) [NeZero n] (c : Cfg) (Dom : Particle → Prop) : Prop where
  good : GoodCfg c
  gx : c.gx = n
  gy : c.gy = n
  gz : c.gz = n
  three : c.gz ≠ 1
  dom : ∀ pt, Dom pt → InDomain c pt
  dom_move : ∀ (s : Idx n) pt, Dom pt → Dom (movePt c.box s pt)

/-- the C13 grid of a C06 configuration: per cell, the sum of the single-particle deposits `Mass.dep` -/
def c06Deposit (c : Cfg) (Dom : Particle → Prop) (P : List {pt : Particle // Dom pt}) : Grid n :=
  fun x => (((P.map (fun pt => dep c pt.1 (flatIdx x))).sum : ℚ) : ℂ)

omit [NeZero n] in
/-- … which is what `scatter` onto a zero grid leaves in that cell (C06 `deposit_superposition`) -/
theorem c06Deposit_eq_scatter (c : Cfg) (Dom : Particle → Prop) (P : List {pt : Particle // Dom pt})
    (N : ℕ) (r : List ℚ) (h : scatter c (List.replicate N 0) (P.map (·.1)) = .ok r) (x : Idx n)
    (hx : flatIdx x < N) :
    r[flatIdx x]? = some ((P.map (fun pt => dep c pt.1 (flatIdx x))).sum) := by
  rw [deposit_superposition c _ r _ h (flatIdx x)]
  simp [hx]

theorem val_sub_add_val (a b : ZMod n) :
    ((((a - b).val : ℕ) : ℤ) + ((b.val : ℕ) : ℤ)) % ((n : ℕ) : ℤ) = ((a.val : ℕ) : ℤ) := by
  have h : ((a - b) + b).val = ((a - b).val + b.val) % n := ZMod.val_add _ _
  rw [sub_add_cancel] at h
  rw [h]
  push_cast
  rfl

theorem c06_isDeposit {c : Cfg} {Dom : Particle → Prop} (hc : Cubic n c Dom) :
    IsDeposit (n := n) (fun s (pt : {pt : Particle // Dom pt}) => ⟨movePt c.box s pt.1, hc.dom_move s pt.1 pt.2⟩)
      (c06Deposit c Dom) where
  additive P Q := by
    funext x
    simp only [c06Deposit, List.map_append, List.sum_append, Pi.add_apply]
    push_cast
    rfl
  roll_equivariant s P := by
    funext x
    simp only [c06Deposit, roll, List.map_map]
    congr 2
    apply List.map_congr_left
    intro pt _
    simp only [Function.comp]
    -- one particle: C06 `roll_equivariant` with no wrap (`m = 0`)
    have hmove := hc.dom_move s pt.1 pt.2
    obtain ⟨ws, ws', h1, h2, h3⟩ := Mass.roll_equivariant (c := c) hc.good hc.three (pt := pt.1)
      (pt' := movePt c.box s pt.1) (s.1.val : ℤ) (s.2.1.val : ℤ) (s.2.2.val : ℤ) 0 0 0
      (by simp [movePt, hc.gx]) (by simp [movePt, hc.gy]) (by simp [movePt, hc.gz]) rfl
      (hc.dom _ pt.2) (hc.dom _ hmove)
    have hlt : ∀ a : ZMod n, a.val < n := fun a => ZMod.val_lt a
    have h3' := h3 (x - s).1.val (x - s).2.1.val (x - s).2.2.val
      (by rw [hc.gx]; exact hlt _) (by rw [hc.gy]; exact hlt _) (by rw [hc.gz]; exact hlt _)
    simp only [hc.gx, hc.gy, hc.gz, Prod.fst_sub, Prod.snd_sub, val_sub_add_val, Int.toNat_natCast] at h3'
    unfold dep
    rw [h1, h2]
    simp only [flatIdx, Prod.fst_sub, Prod.snd_sub]
    exact h3'

/-! ### a concrete family: positions `≥ 0`, positive box, non-negative offset -/

/-- the particles `get_field` hands to the kernels after the periodic wrap: all coordinates `≥ 0` -/
def NonnegPos (pt : Particle) : Prop := 0 ≤ pt.x ∧ 0 ≤ pt.y ∧ 0 ≤ pt.z

theorem gridCoord_nonneg {c : Cfg} (hb : 0 < c.box) (ho : 0 ≤ c.off) {x : ℚ} (hx : 0 ≤ x) (g : ℕ) :
    0 ≤ gridCoord c x g := by
  unfold gridCoord
  have hg : (0 : ℚ) ≤ g := Nat.cast_nonneg g
  split
  · exact mul_nonneg (add_nonneg hx ho) (div_nonneg hg hb.le)
  · exact mul_nonneg (div_nonneg hx hb.le) hg

/-- every cubic mesh with `n ≥ 2`, positive box and non-negative offset (TSC with offset 0 or half a
cell, CIC) is an instance -/
theorem cubic_of_nonneg (hn : 2 ≤ n) (kind : Kind) (box off : ℚ) (hb : 0 < box) (ho : 0 ≤ off) :
    Cubic n { kind := kind, gx := n, gy := n, gz := n, box := box, off := off } NonnegPos where
  good := ⟨ne_of_gt hb, by show 1 ≤ n; omega, by show 1 ≤ n; omega, by show 1 ≤ n; omega⟩
  gx := rfl
  gy := rfl
  gz := rfl
  three := by simp only; omega
  dom pt h := by
    have hn' : (2 : ℚ) ≤ n := by exact_mod_cast hn
    refine ⟨?_, ?_, fun _ => ?_⟩
    · have := gridCoord_nonneg (c := { kind := kind, gx := n, gy := n, gz := n, box := box, off := off }) hb ho h.1 n
      simp only; linarith
    · have := gridCoord_nonneg (c := { kind := kind, gx := n, gy := n, gz := n, box := box, off := off }) hb ho h.2.1 n
      simp only; linarith
    · have := gridCoord_nonneg (c := { kind := kind, gx := n, gy := n, gz := n, box := box, off := off }) hb ho h.2.2 n
      simp only; linarith
  dom_move s pt h := by
    have hcell : (0 : ℚ) ≤ box / n := div_nonneg hb.le (Nat.cast_nonneg n)
    have hv : ∀ a : ZMod n, (0 : ℚ) ≤ ((a.val : ℤ) : ℚ) := fun a => by positivity
    exact ⟨add_nonneg h.1 (mul_nonneg (hv _) hcell), add_nonneg h.2.1 (mul_nonneg (hv _) hcell),
      add_nonneg h.2.2 (mul_nonneg (hv _) hcell)⟩

/-- **C13 on the C06 model.**  `calc_power` as modelled in C13, with the TSC (or CIC) deposit of the C06
model at offset 0 and the same deposit at offset `off'` (half a cell for interlacing), has all the
symmetries of `calc_power_symmetries` — no deposit hypothesis left. -/
theorem calc_power_symmetries_c06 {β γ ι : Type} [DecidableEq β] [DecidableEq γ] (hn : 2 ≤ n)
    (kind : Kind) (box off' : ℚ) (hb : 0 < box) (ho : 0 ≤ off') (paste : Paste)
    (compensated interlaced : Bool) (B : Binning n β γ ι) (P : List {pt : Particle // NonnegPos pt}) :
    let c : Cfg := { kind := kind, gx := n, gy := n, gz := n, box := box, off := 0 }
    let c' : Cfg := { kind := kind, gx := n, gy := n, gz := n, box := box, off := off' }
    let D := c06Deposit (n := n) c NonnegPos
    let D' := c06Deposit (n := n) c' NonnegPos
    let shift := fun (s : Idx n) (pt : {pt : Particle // NonnegPos pt}) =>
      (⟨movePt box s pt.1, (cubic_of_nonneg hn kind box 0 hb le_rfl).dom_move s pt.1 pt.2⟩ :
        {pt : Particle // NonnegPos pt})
    (∀ s, calcPower D D' paste compensated interlaced B (P.map (shift s)) none =
        calcPower D D' paste compensated interlaced B P none) ∧
    (∀ P', P.Perm P' → calcPower D D' paste compensated interlaced B P none =
        calcPower D D' paste compensated interlaced B P' none) ∧
    calcPower D D' paste compensated interlaced B P (some P) =
      calcPower D D' paste compensated interlaced B P none := by
  intro c c' D D' shift
  have hD : IsDeposit shift D := c06_isDeposit (cubic_of_nonneg hn kind box 0 hb le_rfl)
  have hD' : IsDeposit shift D' := c06_isDeposit (cubic_of_nonneg hn kind box off' hb ho)
  obtain ⟨h1, _, h3, h4, _⟩ := calc_power_symmetries hD hD' paste compensated interlaced B P
  exact ⟨h1, fun P' hp => (h3 P' P P hp (List.Perm.refl _)).1, h4⟩

/-- non-vacuity: the 2³ TSC mesh on a box of 4 (cell 2, interlacing offset 1), two weighted particles,
shift by `(1, 0, 1)` cells -/
example :
    let P : List {pt : Particle // NonnegPos pt} :=
      [⟨{ x := 1, y := 0, z := 7/2, w := 3/2 }, by unfold NonnegPos; norm_num⟩,
       ⟨{ x := 3, y := 1/2, z := 0, w := 1/4 }, by unfold NonnegPos; norm_num⟩]
    let B : Binning 2 (ZMod 2) Unit Unit :=
      ⟨Finset.univ, fun k => some k.1, fun _ => some (), fun _ => 2, fun _ => 1, fun _ _ => 1⟩
    let c : Cfg := { kind := .tsc, gx := 2, gy := 2, gz := 2, box := 4, off := 0 }
    let c' : Cfg := { kind := .tsc, gx := 2, gy := 2, gz := 2, box := 4, off := 1 }
    calcPower (n := 2) (c06Deposit c NonnegPos) (c06Deposit c' NonnegPos) .tsc true true B
        (P.map (fun pt => ⟨movePt 4 ((1, 0, 1) : Idx 2) pt.1,
          (cubic_of_nonneg (n := 2) le_rfl .tsc 4 0 (by norm_num) le_rfl).dom_move (1, 0, 1) pt.1 pt.2⟩)) none =
      calcPower (n := 2) (c06Deposit c NonnegPos) (c06Deposit c' NonnegPos) .tsc true true B P none := by
  intro P B c c'
  exact (calc_power_symmetries_c06 (n := 2) le_rfl .tsc 4 1 (by norm_num) (by norm_num) .tsc true true B P).1 (1, 0, 1)

end AbacusVerif.Power
