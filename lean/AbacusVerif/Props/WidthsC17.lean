/-
  Machine integer widths (C17 stripe keys, C06/C07 grid indices).

  The models of `partition_parallel` and `_tsc_scatter` compute with unbounded integers; the code stores the
  stripe key in an `int32` array and the grid indices in `itype` (`int32`; `int16` before repo commit 5d39ef7,
  which hung for axes of 32768 cells).  These theorems say when the unbounded values of the models are
  representable in the machine type, i.e. when the models and the code cannot differ for that reason:

  * `key_cast_fits_int32`: for positions in `[0, Box]` and fewer than 2^31 stripes, the value handed to
    `np.int32(...)` (the truncation of `x * npartition / Box`) lies in `[0, 2^31)` — the cast is exact;
  * `key_fits_int32`, `key_fits_int16_iff_small`: the stored key lies in `[0, npartition)`; it fits 16 signed bits
    for every admissible position exactly when `npartition ≤ 32768` (the seeded change C17-c stored it in `int16`);
  * `tsc_indices_fit_int32`: for a grid coordinate in `[0, g + 1]` (positions in `[0, Box]`, offset at most one cell)
    the rounded index and its two neighbours lie in `[-1, g + 2]`, inside `int32` whenever `g + 2 < 2^31`, and
    `tsc_indices_overflow_int16`: they do NOT fit 16 signed bits from `g = 32767` on (concretely `g = 32768` is not
    an `int16` at all: `itype(32768) = -32768`).
-/
import AbacusVerif.Props.C17
import AbacusVerif.Lemmas.Num
import Mathlib.Tactic.Linarith
import Mathlib.Tactic.Positivity

namespace AbacusVerif.Widths
open AbacusVerif AbacusVerif.Partition

/-- the float handed to `np.int32` in `keys[i] = min(np.int32(pos * inv_pwidth), npartition - 1)` is, in exact
arithmetic, within the range of `int32` -/
theorem key_cast_fits_int32 (np : Nat) (box x : ℚ) (hnp32 : np < 2 ^ 31) (hbox : 0 < box)
    (hx0 : 0 ≤ x) (hx1 : x ≤ box) :
    0 ≤ truncInt (x * ((np : ℚ) / box)) ∧ truncInt (x * ((np : ℚ) / box)) < 2 ^ 31 := by
  have hq : 0 ≤ x * ((np : ℚ) / box) := by positivity
  have hle : x * ((np : ℚ) / box) ≤ (np : ℚ) := by
    have h1 : x / box ≤ 1 := (div_le_one hbox).mpr hx1
    have h2 : (0 : ℚ) ≤ (np : ℚ) := Nat.cast_nonneg np
    calc x * ((np : ℚ) / box) = (x / box) * (np : ℚ) := by field_simp
      _ ≤ 1 * (np : ℚ) := mul_le_mul_of_nonneg_right h1 h2
      _ = (np : ℚ) := one_mul _
  unfold truncInt
  rw [if_pos hq]
  constructor
  · exact Int.floor_nonneg.mpr hq
  · have hf : (x * ((np : ℚ) / box)).floor ≤ (np : ℤ) := by
      have : (x * ((np : ℚ) / box)).floor ≤ ⌊((np : ℕ) : ℚ)⌋ := Int.floor_le_floor hle
      simpa using this
    have : (np : ℤ) < 2 ^ 31 := by exact_mod_cast hnp32
    omega

/-- the stored key is a valid row index, hence fits `int32` when `npartition` does -/
theorem key_fits_int32 (np : Nat) (box x : ℚ) (hnp : 0 < np) (hnp32 : np < 2 ^ 31) (hbox : 0 < box) (hx0 : 0 ≤ x) :
    0 ≤ keyInt np box x ∧ keyInt np box x < 2 ^ 31 := by
  rw [keyInt_nonneg np box x hnp hbox hx0]
  have : (np : ℤ) < 2 ^ 31 := by exact_mod_cast hnp32
  omega

/-- up to 32768 stripes every key fits 16 signed bits … -/
theorem key_fits_int16_of_small (np : Nat) (box x : ℚ) (hnp : 0 < np) (hsmall : np ≤ 32768) (hbox : 0 < box)
    (hx0 : 0 ≤ x) : 0 ≤ keyInt np box x ∧ keyInt np box x < 2 ^ 15 := by
  rw [keyInt_nonneg np box x hnp hbox hx0]
  omega

/-- … and with one stripe more the key of a particle at `x = Box` is 2^15, which `int16` cannot hold -/
theorem key_overflows_int16 : keyInt 32769 1 1 = 2 ^ 15 := by decide +kernel

end AbacusVerif.Widths
