/-
  C13 ← C08: the abstract `Binning` of the C13 theorems instantiated with the C08 model of `bin_kmu`.

  * `c08Binning n ek em P`: stored modes = the half mesh `kz ≤ n/2` of `rfftn`, multiplicity `hw` (1 on
    the self-conjugate planes, 2 elsewhere), `(k, mu)` classification = C08's `clsKmu` on the squared
    edges, `|k|` and Legendre weights as C08 defines them.
  * C08's `binKmu` takes a *rational* per-mode quantity; the per-mode power of C13 is a real number
    (`|δ_k|²` involves `exp`).  `binKmuR` is `binKmu`'s `counts`/`power` with a real per-mode quantity
    accumulated over **the same contribution lists** `allThreads (kmuRow …)` — C08's model of the loops.
    `binKmuR_eq_binning` shows that this equals the C13 `Binning` sums (`c08Binning`), for every thread
    count and every assignment of rows to threads.
  * From that: `nmode_particle_free_c08` (with C08 `kmu_counts_exact`), `table_translation_invariant_c08`,
    `calc_power_symmetries_c08`, `thread_independent_c08` (with C08 `thread_independent` for the rational
    `binKmu`), and the Hermitian symmetry of the DFT of a real grid (`dft3_conj_symm`,
    `autoPower_conj_symm`) which makes the half-mesh sums full-mesh sums (`c08_wsum_full_mesh`).
-/
import AbacusVerif.Props.C13
import AbacusVerif.Props.C08

namespace AbacusVerif.Power
open scoped BigOperators
open AbacusVerif.Binning (fold hw mu2 clsKmu fullCount Contrib halfShape kmuRow allThreads binKmu KmuOut
  cnt cntT wsumT acc acc_flatten acc_filterMap cell_kzSpec accT_threads allThreads_spec kmuRow_spec rowSpec
  colSpec list_sum_range mu_ok kmu_counts_exact kmu_threads_counts negIdx inBin hw_pos natSum natSum_eq
  cnt_eq_acc)

variable {n : ℕ} [NeZero n]

/-! ### mesh indices ↔ (ZMod n)³ -/

/-- the mode stored at mesh indices `(i, j, k)` -/
def idxOf (n : ℕ) (i j k : ℕ) : Idx n := ((i : ZMod n), (j : ZMod n), (k : ZMod n))

/-- a per-mode quantity seen by mesh indices: `raw_p3d[i, j, k]` -/
def onMesh (p : Idx n → ℝ) : ℕ → ℕ → ℕ → ℝ := fun i j k => p (idxOf n i j k)

theorem idxOf_val (k : Idx n) : idxOf n k.1.val k.2.1.val k.2.2.val = k := by
  simp [idxOf]

theorem sum_zmod_eq_range {M : Type} [AddCommMonoid M] (g : ℕ → M) :
    ∑ x : ZMod n, g x.val = ∑ i ∈ Finset.range n, g i := by
  apply Finset.sum_bij (fun x _ => x.val)
  · intro x _; exact Finset.mem_range.mpr (ZMod.val_lt x)
  · intro x _ y _ h; exact ZMod.val_injective n h
  · intro i hi
    exact ⟨(i : ZMod n), Finset.mem_univ _, ZMod.val_natCast_of_lt (Finset.mem_range.mp hi)⟩
  · intro x _; rfl

/-! ### the C08 binning as a C13 `Binning` -/

/-- C08's `(k, mu)` bin of the stored mode `k` (signed frequencies by C08's `fold`; the last axis is the
unfolded row index of the half mesh) -/
def clsMode (n : ℕ) (ek em : List ℚ) (k : Idx n) : Option (ℕ × ℕ) :=
  clsKmu ek em (fold n k.1.val) (fold n k.2.1.val) (k.2.2.val : ℤ)

/-- `|k|²` in units of the fundamental mode -/
def qMode (n : ℕ) (k : Idx n) : ℕ := Binning.sq (fold n k.1.val) + Binning.sq (fold n k.2.1.val) + k.2.2.val * k.2.2.val

/-- the C13 `Binning` that C08's `bin_kmu` model realises: half-mesh modes, Hermitian multiplicity,
`clsKmu` classification; `|k| = sqrt(q)` (in units of `dk`), pole weights `(2l+1)·P l (mu²)` -/
noncomputable def c08Binning (n : ℕ) [NeZero n] (ek em : List ℚ) (P : ℕ → ℚ → ℚ) : Binning n (ℕ × ℕ) ℕ ℕ where
  modes := Finset.univ.filter (fun k : Idx n => k.2.2.val < n / 2 + 1)
  cls := clsMode n ek em
  clsK := fun k => (clsMode n ek em k).map Prod.fst
  mult := fun k => hw n k.2.2.val
  kmag := fun k => Real.sqrt (qMode n k)
  poleW := fun l k =>
    (((((2 * l + 1 : ℕ) : ℚ) * P l (mu2 (Binning.sq (fold n k.1.val) + Binning.sq (fold n k.2.1.val)) k.2.2.val) : ℚ)) : ℝ)

/-- C08's `wsumT` with a real per-mode quantity: `Σ_threads Σ_{c in bin} c.w · f[c.i, c.j, c.k]` -/
def wsumTR (f : ℕ → ℕ → ℕ → ℝ) (ts : List (List Contrib)) (b m : ℕ) : ℝ :=
  (ts.map (fun cs => acc (fun c => (c.w : ℝ) * f c.i c.j c.k) cs b m)).sum

/-- generic half-mesh triple sum of the Binning side -/
theorem binning_sum_eq {M : Type} [AddCommMonoid M] (ek em : List ℚ) (g : ℕ → ℕ → ℕ → M) (hn : 1 ≤ n) (b m : ℕ) :
    ∑ k ∈ (Finset.univ.filter (fun k : Idx n => k.2.2.val < n / 2 + 1)).filter
        (fun k => clsMode n ek em k = some (b, m)), g k.1.val k.2.1.val k.2.2.val =
      ∑ i ∈ Finset.range n, ∑ j ∈ Finset.range n, ∑ k ∈ Finset.range (n / 2 + 1),
        if clsKmu ek em (fold n i) (fold n j) (k : ℤ) = some (b, m) then g i j k else 0 := by
  rw [Finset.filter_filter, Finset.sum_filter, Fintype.sum_prod_type]
  rw [← sum_zmod_eq_range (fun i => ∑ j ∈ Finset.range n, ∑ k ∈ Finset.range (n / 2 + 1),
    if clsKmu ek em (fold n i) (fold n j) (k : ℤ) = some (b, m) then g i j k else 0)]
  apply Finset.sum_congr rfl
  intro x _
  rw [Fintype.sum_prod_type]
  rw [← sum_zmod_eq_range (fun j => ∑ k ∈ Finset.range (n / 2 + 1),
    if clsKmu ek em (fold n x.val) (fold n j) (k : ℤ) = some (b, m) then g x.val j k else 0)]
  apply Finset.sum_congr rfl
  intro y _
  have hsub : Finset.range (n / 2 + 1) = (Finset.range n).filter (fun k => k < n / 2 + 1) := by
    ext k; simp only [Finset.mem_range, Finset.mem_filter]; omega
  rw [hsub, Finset.sum_filter,
    ← sum_zmod_eq_range (fun k => if k < n / 2 + 1 then
      (if clsKmu ek em (fold n x.val) (fold n y.val) (k : ℤ) = some (b, m) then g x.val y.val k else 0) else 0)]
  apply Finset.sum_congr rfl
  intro z _
  simp only [clsMode]
  by_cases h1 : z.val < n / 2 + 1 <;> simp [h1]

omit [NeZero n] in
/-- the sequential accumulation of C08's row specifications is the half-mesh triple sum -/
theorem acc_rows_eq {M : Type} [AddCommMonoid M] (h : Contrib → M) (ek em : List ℚ) (b m : ℕ) :
    acc h ((List.range n).map (rowSpec n ek em)).flatten b m =
      ∑ i ∈ Finset.range n, ∑ j ∈ Finset.range n, ∑ k ∈ Finset.range (n / 2 + 1),
        if clsKmu ek em (fold n i) (fold n j) (k : ℤ) = some (b, m) then
          h ⟨i, j, k, Binning.sq (fold n i) + Binning.sq (fold n j) + k * k, b, m, hw n k⟩ else 0 := by
  rw [acc_flatten, List.map_map, list_sum_range]
  apply Finset.sum_congr rfl
  intro i _
  simp only [Function.comp_def, rowSpec]
  rw [acc_flatten, List.map_map, list_sum_range]
  apply Finset.sum_congr rfl
  intro j _
  simp only [Function.comp_def, colSpec, acc_filterMap, cell_kzSpec, list_sum_range]

/-! ### `bin_kmu` over C08's contribution lists with a real per-mode quantity -/

/-- `x / dtype(c)` where `c != 0`, else `x` unchanged (C08 `divIf`, over ℝ) -/
noncomputable def divIfR (x : ℝ) (c : ℕ) : ℝ := if c = 0 then x else x / (c : ℝ)

/-- the reduced outputs of `bin_kmu` that depend on the mesh values or on `|k|` -/
structure KmuOutR where
  counts : ℕ → ℕ → ℕ
  power : ℕ → ℕ → ℝ
  kavg : ℕ → ℕ → ℝ

/-- `bin_kmu` for a real per-mode quantity `f[i, j, k]`: the contribution lists are C08's model of the
loops (`allThreads (kmuRow …)`, any thread count, any row → thread assignment); `counts` as in C08,
`power = Σ c.w · f / counts`, `k_avg = Σ c.w · sqrt(c.q) / counts` (in units of `dk`) -/
noncomputable def binKmuR (n T : ℕ) (assign : ℕ → ℕ) (ek em : List ℚ) (f : ℕ → ℕ → ℕ → ℝ) :
    Except Fault KmuOutR :=
  match allThreads (kmuRow n ek em (halfShape n)) n T assign with
  | .error e => .error e
  | .ok ts => .ok
    { counts := cntT ts
      power := fun b m => divIfR (wsumTR f ts b m) (cntT ts b m)
      kavg := fun b m => divIfR ((ts.map (fun cs => acc (fun c => (c.w : ℝ) * Real.sqrt (c.q : ℝ)) cs b m)).sum)
        (cntT ts b m) }

omit [NeZero n] in
/-- an empty bin has a zero weighted sum (all multiplicities are ≥ 1) -/
theorem Binning.wsum_zero_of_counts_zero {β γ ι : Type} [DecidableEq β] [DecidableEq γ] (B : Binning n β γ ι)
    (hm : ∀ k, 1 ≤ B.mult k) (f : Idx n → ℝ) (b : β) (h0 : B.counts b = 0) : B.wsum f b = 0 := by
  unfold Binning.counts at h0
  rw [Finset.sum_eq_zero_iff] at h0
  unfold Binning.wsum
  apply Finset.sum_eq_zero
  intro k hk
  have := h0 k hk
  have := hm k
  omega

omit [NeZero n] in
/-- the contribution lists C08's model returns, reduced with any commutative accumulator, give the
half-mesh triple sum — for every thread count and assignment -/
theorem accT_eq_halfmesh {M : Type} [AddCommMonoid M] (h : Contrib → M) (T : ℕ) (assign : ℕ → ℕ)
    (a : ℚ) (t : List ℚ) (a' : ℚ) (t' : List ℚ) (ht' : t' ≠ []) (h1 : 1 ≤ t'.getLast ht')
    (hT : ∀ i < n, assign i < T) :
    ∃ ts, allThreads (kmuRow n (a :: t) (a' :: t') (halfShape n)) n T assign = .ok ts ∧ ∀ b m,
      (ts.map (fun cs => acc h cs b m)).sum =
        ∑ i ∈ Finset.range n, ∑ j ∈ Finset.range n, ∑ k ∈ Finset.range (n / 2 + 1),
          if clsKmu (a :: t) (a' :: t') (fold n i) (fold n j) (k : ℤ) = some (b, m) then
            h ⟨i, j, k, Binning.sq (fold n i) + Binning.sq (fold n j) + k * k, b, m, hw n k⟩ else 0 := by
  have hmu := mu_ok t' ht' h1
  refine ⟨_, allThreads_spec _ (rowSpec n (a :: t) (a' :: t')) n T assign
    (fun i hi => kmuRow_spec n a t a' t' hmu i hi) hT, ?_⟩
  intro b m
  rw [accT_threads h (rowSpec n (a :: t) (a' :: t')) n T assign hT b m, acc_rows_eq]

/-- **binKmuR_eq_binning.**  `bin_kmu` (C08's loops, any threads) applied to the per-mode quantity `p`
returns, and its `counts`, `power` and `k_avg` are the C13 `Binning` quantities of `c08Binning`. -/
theorem binKmuR_eq_binning (hn : 1 ≤ n) (T : ℕ) (assign : ℕ → ℕ) (ek em : List ℚ)
    (hek : ek ≠ []) (hem : em.tail ≠ []) (h1 : 1 ≤ em.tail.getLast hem) (hT : ∀ i < n, assign i < T)
    (P : ℕ → ℚ → ℚ) (p : Idx n → ℝ) :
    ∃ o, binKmuR n T assign ek em (onMesh p) = .ok o ∧
      (∀ b m, o.counts b m = (binTable (c08Binning n ek em P) p).N_mode (b, m)) ∧
      (∀ b m, o.power b m = (binTable (c08Binning n ek em P) p).power (b, m)) ∧
      (∀ b m, o.kavg b m = (binTable (c08Binning n ek em P) p).k_avg (b, m)) := by
  obtain ⟨a, t, rfl⟩ := List.exists_cons_of_ne_nil hek
  obtain ⟨a', t', rfl⟩ : ∃ a' t', em = a' :: t' := by
    cases em with
    | nil => simp at hem
    | cons a' t' => exact ⟨a', t', rfl⟩
  have hem' : t' ≠ [] := by simpa using hem
  have h1' : 1 ≤ t'.getLast hem' := by simpa using h1
  -- one family of contribution lists serves the three accumulators
  obtain ⟨ts, hts, hc⟩ := accT_eq_halfmesh (n := n) (fun c => c.w) T assign a t a' t' hem' h1' hT
  obtain ⟨ts2, hts2, hw'⟩ := accT_eq_halfmesh (n := n) (fun c => (c.w : ℝ) * onMesh p c.i c.j c.k) T assign a t a' t' hem' h1' hT
  obtain ⟨ts3, hts3, hk⟩ := accT_eq_halfmesh (n := n) (fun c => (c.w : ℝ) * Real.sqrt (c.q : ℝ)) T assign a t a' t' hem' h1' hT
  rw [hts] at hts2 hts3
  cases hts2; cases hts3
  have hcount : ∀ b m, cntT ts b m = (c08Binning n (a :: t) (a' :: t') P).counts (b, m) := by
    intro b m
    unfold cntT
    rw [natSum_eq]
    simp only [cnt_eq_acc]
    rw [hc b m]
    exact (binning_sum_eq (a :: t) (a' :: t') (fun _ _ k => hw n k) hn b m).symm
  have hwsum : ∀ b m, wsumTR (onMesh p) ts b m = (c08Binning n (a :: t) (a' :: t') P).wsum p (b, m) := by
    intro b m
    unfold wsumTR
    rw [hw' b m]
    rw [← binning_sum_eq (a :: t) (a' :: t') (fun i j k => (hw n k : ℝ) * onMesh p i j k) hn b m]
    unfold Binning.wsum
    apply Finset.sum_congr rfl
    intro k _
    simp only [onMesh, idxOf_val, c08Binning]
  have hksum : ∀ b m, (ts.map (fun cs => acc (fun c => (c.w : ℝ) * Real.sqrt (c.q : ℝ)) cs b m)).sum =
      (c08Binning n (a :: t) (a' :: t') P).wsum (c08Binning n (a :: t) (a' :: t') P).kmag (b, m) := by
    intro b m
    rw [hk b m]
    rw [← binning_sum_eq (a :: t) (a' :: t') (fun i j k => (hw n k : ℝ) *
      Real.sqrt ((Binning.sq (fold n i) + Binning.sq (fold n j) + k * k : ℕ) : ℝ)) hn b m]
    unfold Binning.wsum
    apply Finset.sum_congr rfl
    intro k _
    simp only [c08Binning, qMode]
  have hmult : ∀ k, 1 ≤ (c08Binning n (a :: t) (a' :: t') P).mult k := fun k => hw_pos n _
  have hdiv : ∀ (f : Idx n → ℝ) b m, divIfR ((c08Binning n (a :: t) (a' :: t') P).wsum f (b, m)) (cntT ts b m) =
      (c08Binning n (a :: t) (a' :: t') P).wsum f (b, m) / ((c08Binning n (a :: t) (a' :: t') P).counts (b, m) : ℝ) := by
    intro f b m
    unfold divIfR
    rw [hcount b m]
    split_ifs with h0
    · rw [Binning.wsum_zero_of_counts_zero _ hmult f _ h0, h0]; simp
    · rfl
  refine ⟨_, by unfold binKmuR; rw [hts], ?_, ?_, ?_⟩
  · intro b m; exact hcount b m
  · intro b m
    show divIfR (wsumTR (onMesh p) ts b m) (cntT ts b m) = _
    rw [hwsum b m, hdiv]; rfl
  · intro b m
    show divIfR _ (cntT ts b m) = _
    rw [hksum b m, hdiv]; rfl

/-! ### (1) what does not depend on the particles -/

/-- **nmode_particle_free_c08.**  With C08's `bin_kmu` as the binning: (a) for the rational `binKmu`,
whatever two mesh-value functions, multipole lists and thread configurations, `counts` (`N_mode`) and
`cpoles` (`N_mode_poles`) coincide and are the table of full-mesh counts `fullCount n (clsKmu ek em)` — a
function of `(n, edges)` (C08 `kmu_counts_exact`); (b) for any two real per-mode powers `p`, `q` (two
particle sets, auto or cross), `binKmuR` returns with the same `counts` — equal to that `fullCount` and to
the `N_mode` of the C13 `Binning` — and the same `k_avg`. -/
theorem nmode_particle_free_c08 (hn : 1 ≤ n) (T T' : ℕ) (assign assign' : ℕ → ℕ) (ek em : List ℚ)
    (hek : ek ≠ []) (hem : em.tail ≠ []) (h1 : 1 ≤ em.tail.getLast hem)
    (hT : ∀ i < n, assign i < T) (hT' : ∀ i < n, assign' i < T') :
    (∀ (F F' : ℕ → ℕ → ℕ → ℚ) (poles poles' : List ℕ) (o o' : KmuOut),
        binKmu n (halfShape n) T assign ek em poles F = .ok o →
        binKmu n (halfShape n) T' assign' ek em poles' F' = .ok o' →
        o.counts = o'.counts ∧ o.cpoles = o'.cpoles ∧
        o.counts = (List.range (ek.length - 1)).map (fun b =>
          (List.range (em.length - 1)).map (fun m => fullCount n (clsKmu ek em) b m))) ∧
    (∀ (P : ℕ → ℚ → ℚ) (p q : Idx n → ℝ), ∃ o o',
        binKmuR n T assign ek em (onMesh p) = .ok o ∧ binKmuR n T' assign' ek em (onMesh q) = .ok o' ∧
        ∀ b m, o.counts b m = o'.counts b m ∧ o.counts b m = fullCount n (clsKmu ek em) b m ∧
          o.counts b m = (c08Binning n ek em P).counts (b, m) ∧ o.kavg b m = o'.kavg b m) := by
  constructor
  · intro F F' poles poles' o o' ho ho'
    have e := (kmu_counts_exact n T hn assign ek em hek hem h1 hT F).2 poles o ho
    have e' := (kmu_counts_exact n T' hn assign' ek em hek hem h1 hT' F').2 poles' o' ho'
    exact ⟨by rw [e.1, e'.1], by rw [e.2, e'.2], e.1⟩
  · intro P p q
    obtain ⟨o, ho, hc, _, hk⟩ := binKmuR_eq_binning hn T assign ek em hek hem h1 hT P p
    obtain ⟨o', ho', hc', _, hk'⟩ := binKmuR_eq_binning hn T' assign' ek em hek hem h1 hT' P q
    obtain ⟨ts, hts, _, hfull⟩ := kmu_threads_counts n T hn assign ek em hek hem h1 hT
    have hoc : o.counts = cntT ts := by
      unfold binKmuR at ho
      rw [hts] at ho
      cases ho; rfl
    refine ⟨o, o', ho, ho', fun b m => ⟨?_, ?_, hc b m, ?_⟩⟩
    · rw [hc b m, hc' b m]; rfl
    · rw [hoc]; exact hfull b m
    · rw [hk b m, hk' b m]; rfl

/-- non-vacuity: 3³ mesh, `k²` edges `[0, 1, 4]`, `mu²` edges `[0, 1/2, 1]`, 2 threads vs 1 thread, two different
per-mode powers: both calls return, with the same counts; bin `(1, 0)` holds 20 modes (C08's example) -/
example : ∃ o o',
    binKmuR 3 2 (fun i => i % 2) [0, 1, 4] [0, 1 / 2, 1] (onMesh (n := 3) (fun k => if k.1 = 0 then 7 else 1)) = .ok o ∧
    binKmuR 3 1 (fun _ => 0) [0, 1, 4] [0, 1 / 2, 1] (onMesh (n := 3) (fun _ => 2)) = .ok o' ∧
    o.counts 1 0 = o'.counts 1 0 ∧ o.counts 1 0 = 20 := by
  obtain ⟨o, o', h1, h2, h⟩ := (nmode_particle_free_c08 (n := 3) (by omega) 2 1 (fun i => i % 2) (fun _ => 0)
    [0, 1, 4] [0, 1 / 2, 1] (by simp) (by simp) (by decide +kernel) (fun i _ => Nat.mod_lt i (by omega))
    (fun _ _ => by omega)).2 (fun _ x => x) (fun k => if k.1 = 0 then 7 else 1) (fun _ => 2)
  refine ⟨o, o', h1, h2, (h 1 0).1, ?_⟩
  rw [(h 1 0).2.1]
  decide +kernel

/-! ### (2) the symmetries with C08's binning -/

/-- **table_translation_invariant_c08.**  Translating all particles by whole cells leaves the outcome of
C08's `bin_kmu` on the per-mode powers — result or fault, every column, any edges, any threads —
unchanged (auto and cross power). -/
theorem table_translation_invariant_c08 {Part : Type} {shift : Idx n → Part → Part} {D D' : List Part → Grid n}
    (hD : IsDeposit shift D) (hD' : IsDeposit shift D') (interlaced : Bool) (phase : Idx n → ℂ)
    (W : Idx n → ℝ) (T : ℕ) (assign : ℕ → ℕ) (ek em : List ℚ) (s : Idx n) (P Q : List Part) :
    binKmuR n T assign ek em (onMesh (autoPower (fourierField D D' interlaced phase W (P.map (shift s))))) =
      binKmuR n T assign ek em (onMesh (autoPower (fourierField D D' interlaced phase W P))) ∧
    binKmuR n T assign ek em (onMesh (crossPower (fourierField D D' interlaced phase W (P.map (shift s)))
        (fourierField D D' interlaced phase W (Q.map (shift s))))) =
      binKmuR n T assign ek em (onMesh (crossPower (fourierField D D' interlaced phase W P)
        (fourierField D D' interlaced phase W Q))) := by
  rw [power_translation_invariant hD hD', cross_power_translation_invariant hD hD']
  exact ⟨rfl, rfl⟩

example :
    binKmuR 2 2 (fun i => i % 2) [0, 1, 4] [0, 1]
        (onMesh (autoPower (fourierField (n := 2) ngp ngp true (codedPhase 2) (fun _ => 1)
          ([((0, 0, 0), 1), ((1, 0, 1), 2)].map (ngpShift (1, 0, 1)))))) =
      binKmuR 2 2 (fun i => i % 2) [0, 1, 4] [0, 1]
        (onMesh (autoPower (fourierField (n := 2) ngp ngp true (codedPhase 2) (fun _ => 1)
          [((0, 0, 0), 1), ((1, 0, 1), 2)]))) :=
  (table_translation_invariant_c08 ngp_isDeposit ngp_isDeposit _ _ _ _ _ _ _ _ _ []).1

/-- `get_raw_power` of the coded pipeline: auto power of `P`, or cross power with `P2` -/
noncomputable def rawPowerOf {Part : Type} (D D' : List Part → Grid n) (paste : Paste)
    (compensated interlaced : Bool) (P : List Part) (P2 : Option (List Part)) : Idx n → ℝ :=
  let W : Idx n → ℝ := if compensated then codedW n paste interlaced else fun _ => 1
  let F := fourierField D D' interlaced (codedPhase n) W P
  match P2 with
  | none => autoPower F
  | some Q => crossPower F (fourierField D D' interlaced (codedPhase n) W Q)

/-- `calc_power` with C08's `bin_kmu`: `none` = `ZeroDivisionError` of an empty particle set; otherwise
the outcome of `binKmuR` on the raw auto/cross power of the coded pipeline -/
noncomputable def calcPowerC08 {Part : Type} (D D' : List Part → Grid n) (paste : Paste)
    (compensated interlaced : Bool) (T : ℕ) (assign : ℕ → ℕ) (ek em : List ℚ)
    (P : List Part) (P2 : Option (List Part)) : Option (Except Fault KmuOutR) :=
  if rejects P P2 then none else
    some (binKmuR n T assign ek em (onMesh (rawPowerOf D D' paste compensated interlaced P P2)))

/-- **calc_power_symmetries_c08.**  `calc_power` modelled end to end with C08's `bin_kmu`:
(1) whole-cell translation of all particles (both fields), (2) permutation of the particles, (3)
`pos2 = pos`, leave the outcome unchanged, for all edges and thread configurations (faults included);
(4) for well-formed edges the call returns, for any two accepted inputs and any two thread configurations,
tables with the same `counts`/`k_avg`, and for the same input the same `power` (thread independence). -/
theorem calc_power_symmetries_c08 {Part : Type} {shift : Idx n → Part → Part} {D D' : List Part → Grid n}
    (hD : IsDeposit shift D) (hD' : IsDeposit shift D') (paste : Paste) (compensated interlaced : Bool)
    (T : ℕ) (assign : ℕ → ℕ) (ek em : List ℚ) (P : List Part) :
    (∀ s, calcPowerC08 D D' paste compensated interlaced T assign ek em (P.map (shift s)) none =
        calcPowerC08 D D' paste compensated interlaced T assign ek em P none) ∧
    (∀ s Q, calcPowerC08 D D' paste compensated interlaced T assign ek em (P.map (shift s)) (some (Q.map (shift s))) =
        calcPowerC08 D D' paste compensated interlaced T assign ek em P (some Q)) ∧
    (∀ P', P.Perm P' → calcPowerC08 D D' paste compensated interlaced T assign ek em P none =
        calcPowerC08 D D' paste compensated interlaced T assign ek em P' none) ∧
    calcPowerC08 D D' paste compensated interlaced T assign ek em P (some P) =
      calcPowerC08 D D' paste compensated interlaced T assign ek em P none ∧
    (1 ≤ n → ek ≠ [] → (hem : em.tail ≠ []) → 1 ≤ em.tail.getLast hem → (∀ i < n, assign i < T) →
      ∀ (T' : ℕ) (assign' : ℕ → ℕ), (∀ i < n, assign' i < T') → ∀ (P' : List Part) (Q Q' : Option (List Part)),
        rejects P Q = false → rejects P' Q' = false → ∃ o o' o'',
          calcPowerC08 D D' paste compensated interlaced T assign ek em P Q = some (.ok o) ∧
          calcPowerC08 D D' paste compensated interlaced T' assign' ek em P' Q' = some (.ok o') ∧
          calcPowerC08 D D' paste compensated interlaced T' assign' ek em P Q = some (.ok o'') ∧
          ∀ b m, o.counts b m = o'.counts b m ∧ o.kavg b m = o'.kavg b m ∧
            o.power b m = o''.power b m ∧ o.counts b m = fullCount n (clsKmu ek em) b m) := by
  refine ⟨?_, ?_, ?_, ?_, ?_⟩
  · intro s
    simp only [calcPowerC08, rawPowerOf, rejects_map]
    rw [power_translation_invariant hD hD']
  · intro s Q
    simp only [calcPowerC08, rawPowerOf, rejects_map₂]
    rw [cross_power_translation_invariant hD hD']
  · intro P' hp
    have h1 := fun W => (power_perm_invariant (β := Unit) (γ := Unit) (ι := Unit) hD hD' interlaced (codedPhase n) W
      ⟨∅, fun _ => none, fun _ => none, fun _ => 1, fun _ => 0, fun _ _ => 0⟩ hp).1
    simp only [calcPowerC08, rawPowerOf, rejects, h1, isEmpty_perm hp]
    rfl
  · simp only [calcPowerC08, rawPowerOf, rejects, Bool.or_self, Bool.or_false]
    rw [cross_eq_auto]
  · intro hn hek hem h1 hT T' assign' hT' P' Q Q' hr hr'
    simp only [calcPowerC08, hr, hr', Bool.false_eq_true, if_false]
    obtain ⟨o, o', ho, ho', h⟩ := (nmode_particle_free_c08 hn T T' assign assign' ek em hek hem h1 hT hT').2
      (fun _ x => x) (rawPowerOf D D' paste compensated interlaced P Q)
      (rawPowerOf D D' paste compensated interlaced P' Q')
    obtain ⟨oa, hoa, _, hpa, _⟩ := binKmuR_eq_binning hn T assign ek em hek hem h1 hT (fun _ x => x)
      (rawPowerOf D D' paste compensated interlaced P Q)
    obtain ⟨ob, hob, _, hpb, _⟩ := binKmuR_eq_binning hn T' assign' ek em hek hem h1 hT' (fun _ x => x)
      (rawPowerOf D D' paste compensated interlaced P Q)
    rw [ho] at hoa; cases hoa
    refine ⟨o, o', ob, by rw [ho], by rw [ho'], by rw [hob], fun b m => ⟨(h b m).1, (h b m).2.2.2, ?_, (h b m).2.1⟩⟩
    rw [hpa b m, hpb b m]

/-- non-vacuity: an accepted input on the 3³ mesh, interlaced and compensated, well-formed edges: the call
returns under 2 threads and under 1 thread, with the same table -/
example : ∃ o o'',
    calcPowerC08 (n := 3) ngp ngp .tsc true true 2 (fun i => i % 2) [0, 1, 4] [0, 1 / 2, 1]
      [((0, 1, 2), 1), ((2, 2, 0), 3)] none = some (.ok o) ∧
    calcPowerC08 (n := 3) ngp ngp .tsc true true 1 (fun _ => 0) [0, 1, 4] [0, 1 / 2, 1]
      [((0, 1, 2), 1), ((2, 2, 0), 3)] none = some (.ok o'') ∧
    ∀ b m, o.power b m = o''.power b m ∧ o.counts b m = o''.counts b m := by
  obtain ⟨o, o', o'', h1, h2, h3, h⟩ := (calc_power_symmetries_c08 (n := 3) ngp_isDeposit ngp_isDeposit .tsc true true
    2 (fun i => i % 2) [0, 1, 4] [0, 1 / 2, 1] [((0, 1, 2), 1), ((2, 2, 0), 3)]).2.2.2.2 (by omega) (by simp) (by simp)
    (by decide +kernel) (fun i _ => Nat.mod_lt i (by omega)) 1 (fun _ => 0) (fun _ _ => by omega)
    [((0, 1, 2), 1), ((2, 2, 0), 3)] none none rfl rfl
  rw [h2] at h3
  cases h3
  exact ⟨o, o', h1, h2, fun b m => ⟨(h b m).2.2.1, (h b m).1⟩⟩

/-! ### (3) threads -/

/-- **thread_independent_c08.**  For well-formed edges and any two thread configurations `(T, assign)`,
`(T', assign')`: (a) `bin_kmu` on a real per-mode power returns in both with the same `counts`, `power`
and `k_avg` (both are the thread-free `Binning` sums, `binKmuR_eq_binning`); (b) C08's rational `binKmu`
returns the same `counts`, `power` and `cpoles` (C08 `thread_independent`: every thread configuration
reduces to the sequential accumulation). -/
theorem thread_independent_c08 (hn : 1 ≤ n) (T T' : ℕ) (assign assign' : ℕ → ℕ) (ek em : List ℚ)
    (hek : ek ≠ []) (hem : em.tail ≠ []) (h1 : 1 ≤ em.tail.getLast hem)
    (hT : ∀ i < n, assign i < T) (hT' : ∀ i < n, assign' i < T') :
    (∀ p : Idx n → ℝ, ∃ o o',
        binKmuR n T assign ek em (onMesh p) = .ok o ∧ binKmuR n T' assign' ek em (onMesh p) = .ok o' ∧
        ∀ b m, o.counts b m = o'.counts b m ∧ o.power b m = o'.power b m ∧ o.kavg b m = o'.kavg b m) ∧
    (∀ (F : ℕ → ℕ → ℕ → ℚ) (o o' : KmuOut),
        binKmu n (halfShape n) T assign ek em [] F = .ok o →
        binKmu n (halfShape n) T' assign' ek em [] F = .ok o' →
        o.counts = o'.counts ∧ o.power = o'.power ∧ o.cpoles = o'.cpoles) := by
  constructor
  · intro p
    obtain ⟨o, ho, hc, hp, hk⟩ := binKmuR_eq_binning hn T assign ek em hek hem h1 hT (fun _ x => x) p
    obtain ⟨o', ho', hc', hp', hk'⟩ := binKmuR_eq_binning hn T' assign' ek em hek hem h1 hT' (fun _ x => x) p
    exact ⟨o, o', ho, ho', fun b m => ⟨by rw [hc b m, hc' b m], by rw [hp b m, hp' b m], by rw [hk b m, hk' b m]⟩⟩
  · intro F o o' ho ho'
    obtain ⟨a, t, rfl⟩ := List.exists_cons_of_ne_nil hek
    obtain ⟨a', t', rfl⟩ : ∃ a' t', em = a' :: t' := by
      cases em with
      | nil => simp at hem
      | cons a' t' => exact ⟨a', t', rfl⟩
    have hem' : t' ≠ [] := by simpa using hem
    have hmu := mu_ok t' hem' (by simpa using h1)
    have hseq : (List.range n).mapM (kmuRow n (a :: t) (a' :: t') (halfShape n)) =
        .ok ((List.range n).map (rowSpec n (a :: t) (a' :: t'))) :=
      Binning.mapM_ok _ _ _ (fun i hi => kmuRow_spec n a t a' t' hmu i (List.mem_range.mp hi))
    obtain ⟨ts, hts, h⟩ := Binning.thread_independent _ n T assign _ hseq hT
    obtain ⟨ts', hts', h'⟩ := Binning.thread_independent _ n T' assign' _ hseq hT'
    have hc : ∀ b m, cntT ts b m = cntT ts' b m := fun b m => by rw [(h b m).1, (h' b m).1]
    have hw : ∀ b m, wsumT F ts b m = wsumT F ts' b m := fun b m => by rw [(h b m).2 F, (h' b m).2 F]
    unfold binKmu at ho ho'
    rw [if_neg (by simp)] at ho ho'
    simp only [hts, hts', List.mapM_nil] at ho ho'
    cases ho; cases ho'
    simp only [hc, hw]
    refine ⟨trivial, trivial, ?_⟩
    apply List.map_congr_left
    intro b _
    unfold Binning.cpoleT
    simp only [hc]

example : ∀ (F : ℕ → ℕ → ℕ → ℚ) (o o' : KmuOut),
    binKmu 4 (halfShape 4) 3 (fun i => (i * 2) % 3) [0, 2, 5] [0, 1 / 2, 1] [] F = .ok o →
    binKmu 4 (halfShape 4) 1 (fun _ => 0) [0, 2, 5] [0, 1 / 2, 1] [] F = .ok o' →
    o.counts = o'.counts ∧ o.power = o'.power ∧ o.cpoles = o'.cpoles :=
  (thread_independent_c08 (n := 4) (by omega) 3 1 (fun i => (i * 2) % 3) (fun _ => 0) [0, 2, 5] [0, 1 / 2, 1]
    (by simp) (by simp) (by decide +kernel) (fun i _ => Nat.mod_lt _ (by omega)) (fun _ _ => by omega)).2

/-! ### Hermitian symmetry: the half mesh stands for the full mesh -/

theorem kern_conj (j : ZMod n) : (starRingEnd ℂ) (kern n j) = kern n (-j) := by
  have h1 := kern_conj_mul (n := n) j
  have h2 : kern n (-j) * kern n j = 1 := by rw [← kern_add, neg_add_cancel, kern_zero]
  have hne : kern n j ≠ 0 := by
    intro h0
    have := kern_normSq (n := n) j
    rw [h0, map_zero] at this
    exact zero_ne_one this
  exact mul_right_cancel₀ hne (h1.trans h2.symm)

omit [NeZero n] in
theorem dot_neg_left (k x : Idx n) : dot (-k) x = -dot k x := by
  simp only [dot, Prod.fst_neg, Prod.snd_neg]; ring

/-- **dft3_conj_symm.**  The DFT of a real grid is Hermitian: `F(−k) = conj F(k)`. -/
theorem dft3_conj_symm (Φ : Grid n) (hΦ : ∀ x, (starRingEnd ℂ) (Φ x) = Φ x) (k : Idx n) :
    dft3 Φ (-k) = (starRingEnd ℂ) (dft3 Φ k) := by
  unfold dft3
  rw [map_sum]
  apply Finset.sum_congr rfl
  intro x _
  rw [map_mul, hΦ x, kern_conj, dot_neg_left]

example :
    let Φ : Grid 3 := fun x => if x = (1, 0, 2) then 5 else 0
    dft3 Φ (-(1, 1, 0)) = (starRingEnd ℂ) (dft3 Φ (1, 1, 0)) := by
  intro Φ
  apply dft3_conj_symm
  intro x
  simp only [Φ]
  split_ifs
  · exact Complex.conj_ofNat 5
  · simp

/-- **autoPower_conj_symm.**  With real deposits (TSC/CIC weights are real), a window with `W(−k) = W(k)`
and a phase with `phase(−k) = conj phase(k)` (for the not-interlaced path the phase is not used), the
per-mode power is conjugation symmetric: `|F(−k)|² = |F(k)|²` — the premise under which C08's half-mesh
sums are full-mesh sums. -/
theorem autoPower_conj_symm {Part : Type} (D D' : List Part → Grid n)
    (hreal : ∀ P x, (starRingEnd ℂ) (D P x) = D P x) (hreal' : ∀ P x, (starRingEnd ℂ) (D' P x) = D' P x)
    (interlaced : Bool) (phase : Idx n → ℂ) (W : Idx n → ℝ)
    (hphase : interlaced = true → ∀ k, phase (-k) = (starRingEnd ℂ) (phase k)) (hW : ∀ k, W (-k) = W k)
    (P : List Part) (k : Idx n) :
    autoPower (fourierField D D' interlaced phase W P) (-k) = autoPower (fourierField D D' interlaced phase W P) k := by
  have hd : ∀ (E : List Part → Grid n), (∀ P x, (starRingEnd ℂ) (E P x) = E P x) →
      ∀ x, (starRingEnd ℂ) (delta E P x) = delta E P x := by
    intro E hE x
    simp only [delta, map_sub, map_mul, map_div₀, map_pow, map_natCast, map_one, hE P x]
  have hF : fourierField D D' interlaced phase W P (-k) = (starRingEnd ℂ) (fourierField D D' interlaced phase W P k) := by
    simp only [fourierField, dft3_conj_symm _ (hd D hreal), dft3_conj_symm _ (hd D' hreal'), hW k]
    cases interlaced
    · simp only [Bool.false_eq_true, if_false, map_div₀, map_mul, map_pow, map_natCast, map_one, Complex.conj_ofReal]
    · simp only [if_true, hphase rfl k, map_div₀, map_mul, map_add, map_pow, map_natCast, map_one, map_ofNat,
        Complex.conj_ofReal]
  simp only [autoPower, hF, Complex.normSq_conj]

/-- C08's classification of a mode of the **full** mesh (all three axes folded to signed frequencies) -/
def clsFull (n : ℕ) (ek em : List ℚ) (k : Idx n) : Option (ℕ × ℕ) :=
  clsKmu ek em (fold n k.1.val) (fold n k.2.1.val) (fold n k.2.2.val)

theorem full_sum_eq {M : Type} [AddCommMonoid M] (g : ℕ → ℕ → ℕ → M) :
    ∑ k : Idx n, g k.1.val k.2.1.val k.2.2.val =
      ∑ i ∈ Finset.range n, ∑ j ∈ Finset.range n, ∑ l ∈ Finset.range n, g i j l := by
  rw [Fintype.sum_prod_type, ← sum_zmod_eq_range (fun i => ∑ j ∈ Finset.range n, ∑ l ∈ Finset.range n, g i j l)]
  apply Finset.sum_congr rfl
  intro x _
  rw [Fintype.sum_prod_type, ← sum_zmod_eq_range (fun j => ∑ l ∈ Finset.range n, g x.val j l)]
  apply Finset.sum_congr rfl
  intro y _
  rw [← sum_zmod_eq_range (fun l => g x.val y.val l)]

omit [NeZero n] in
theorem cast_negIdx (i : ℕ) (hi : i < n) : ((negIdx n i : ℕ) : ZMod n) = -(i : ZMod n) := by
  unfold negIdx
  rw [ZMod.natCast_mod, Nat.cast_sub (le_of_lt hi), ZMod.natCast_self, zero_sub]

omit [NeZero n] in
theorem sum_rotateR (g : ℕ → ℕ → ℕ → ℝ) (N M K : ℕ) :
    ∑ i ∈ Finset.range N, ∑ j ∈ Finset.range M, ∑ l ∈ Finset.range K, g i j l =
      ∑ l ∈ Finset.range K, ∑ i ∈ Finset.range N, ∑ j ∈ Finset.range M, g i j l := by
  calc ∑ i ∈ Finset.range N, ∑ j ∈ Finset.range M, ∑ l ∈ Finset.range K, g i j l
      = ∑ i ∈ Finset.range N, ∑ l ∈ Finset.range K, ∑ j ∈ Finset.range M, g i j l :=
        Finset.sum_congr rfl (fun i _ => Finset.sum_comm)
    _ = ∑ l ∈ Finset.range K, ∑ i ∈ Finset.range N, ∑ j ∈ Finset.range M, g i j l := Finset.sum_comm

omit [NeZero n] in
/-- C08 `seq_wsum` over ℝ: for a conjugation-symmetric real per-mode quantity on mesh indices, the half
mesh with Hermitian weights sums to the full mesh (same argument: plane sums + `hermitian_index`) -/
theorem halfmesh_eq_fullmesh (hn : 1 ≤ n) (ek em : List ℚ) (f : ℕ → ℕ → ℕ → ℝ)
    (hsym : ∀ i j l, i < n → j < n → l < n → f (negIdx n i) (negIdx n j) (negIdx n l) = f i j l) (b m : ℕ) :
    ∑ i ∈ Finset.range n, ∑ j ∈ Finset.range n, ∑ k ∈ Finset.range (n / 2 + 1),
        (if clsKmu ek em (fold n i) (fold n j) (k : ℤ) = some (b, m) then (hw n k : ℝ) * f i j k else 0) =
      ∑ i ∈ Finset.range n, ∑ j ∈ Finset.range n, ∑ l ∈ Finset.range n,
        (if clsKmu ek em (fold n i) (fold n j) (fold n l) = some (b, m) then f i j l else 0) := by
  set S : ℕ → ℝ := fun l => ∑ i ∈ Finset.range n, ∑ j ∈ Finset.range n,
    (if clsKmu ek em (fold n i) (fold n j) (fold n l) = some (b, m) then f i j l else 0) with hSdef
  have hS : ∀ k, 0 < k → k < n → S (n - k) = S k := by
    intro k h0 hk
    simp only [hSdef]
    rw [← Binning.sum_negIdx n hn (fun i => ∑ j ∈ Finset.range n,
      (if clsKmu ek em (fold n i) (fold n j) (fold n k) = some (b, m) then f i j k else 0))]
    apply Finset.sum_congr rfl
    intro i hi
    rw [← Binning.sum_negIdx n hn (fun j =>
      (if clsKmu ek em (fold n (negIdx n i)) (fold n j) (fold n k) = some (b, m) then f (negIdx n i) j k else 0))]
    apply Finset.sum_congr rfl
    intro j hj
    rw [Finset.mem_range] at hi hj
    have hF : f (negIdx n i) (negIdx n j) k = f i j (n - k) := by
      have := hsym i j (n - k) hi hj (by omega)
      rwa [Binning.negIdx_pos n (n - k) (by omega) (by omega), show n - (n - k) = k by omega] at this
    rw [hF, Binning.clsKmu_congr ek em (Binning.natAbs_fold_negIdx n i hi).symm
      (Binning.natAbs_fold_negIdx n j hj).symm (Binning.natAbs_fold_sub n k h0 hk)]
  have hR : (∑ i ∈ Finset.range n, ∑ j ∈ Finset.range n, ∑ l ∈ Finset.range n,
      (if clsKmu ek em (fold n i) (fold n j) (fold n l) = some (b, m) then f i j l else 0)) =
      ∑ l ∈ Finset.range n, S l := by
    simp only [hSdef]
    exact sum_rotateR _ n n n
  rw [hR, Binning.hermitian_index n hn S hS, sum_rotateR]
  simp only [hSdef, Finset.mul_sum]
  apply Finset.sum_congr rfl
  intro k hk
  apply Finset.sum_congr rfl
  intro i _
  apply Finset.sum_congr rfl
  intro j _
  rw [Finset.mem_range] at hk
  have hcls : clsKmu ek em (fold n i) (fold n j) (fold n k) = clsKmu ek em (fold n i) (fold n j) (k : ℤ) :=
    Binning.clsKmu_congr ek em rfl rfl (by rw [Binning.natAbs_fold_half n k hk hn, Int.natAbs_natCast])
  rw [hcls]
  split <;> simp

/-- **c08_wsum_full_mesh.**  For a conjugation-symmetric per-mode power (`autoPower_conj_symm`), the
weighted half-mesh sum of a bin of `c08Binning` — what `bin_kmu` accumulates — is the plain sum over the
modes of the **full** `n³` mesh that C08's convention classifies to that bin, and `N_mode` is their
number: the reported `power` is the mean over exactly those modes. -/
theorem c08_wsum_full_mesh (hn : 1 ≤ n) (ek em : List ℚ) (P : ℕ → ℚ → ℚ) (p : Idx n → ℝ)
    (hp : ∀ k, p (-k) = p k) (b m : ℕ) :
    (c08Binning n ek em P).wsum p (b, m) = ∑ k : Idx n, (if clsFull n ek em k = some (b, m) then p k else 0) ∧
    ((c08Binning n ek em P).counts (b, m) : ℝ) =
      ∑ k : Idx n, (if clsFull n ek em k = some (b, m) then (1 : ℝ) else 0) := by
  have key : ∀ q : Idx n → ℝ, (∀ k, q (-k) = q k) →
      (c08Binning n ek em P).wsum q (b, m) = ∑ k : Idx n, (if clsFull n ek em k = some (b, m) then q k else 0) := by
    intro q hq
    have hsym : ∀ i j l, i < n → j < n → l < n →
        onMesh q (negIdx n i) (negIdx n j) (negIdx n l) = onMesh q i j l := by
      intro i j l hi hj hl
      simp only [onMesh, idxOf, cast_negIdx i hi, cast_negIdx j hj, cast_negIdx l hl]
      exact hq ((i : ZMod n), (j : ZMod n), (l : ZMod n))
    have hL : (c08Binning n ek em P).wsum q (b, m) =
        ∑ i ∈ Finset.range n, ∑ j ∈ Finset.range n, ∑ k ∈ Finset.range (n / 2 + 1),
          (if clsKmu ek em (fold n i) (fold n j) (k : ℤ) = some (b, m) then (hw n k : ℝ) * onMesh q i j k else 0) := by
      rw [← binning_sum_eq ek em (fun i j k => (hw n k : ℝ) * onMesh q i j k) hn b m]
      unfold Binning.wsum
      apply Finset.sum_congr rfl
      intro k _
      simp only [onMesh, idxOf_val, c08Binning]
    have hR : (∑ k : Idx n, (if clsFull n ek em k = some (b, m) then q k else 0)) =
        ∑ i ∈ Finset.range n, ∑ j ∈ Finset.range n, ∑ l ∈ Finset.range n,
          (if clsKmu ek em (fold n i) (fold n j) (fold n l) = some (b, m) then onMesh q i j l else 0) := by
      rw [← full_sum_eq (fun i j l => if clsKmu ek em (fold n i) (fold n j) (fold n l) = some (b, m)
        then onMesh q i j l else 0)]
      apply Finset.sum_congr rfl
      intro k _
      by_cases h : clsKmu ek em (fold n k.1.val) (fold n k.2.1.val) (fold n k.2.2.val) = some (b, m) <;>
        simp [clsFull, onMesh, idxOf_val, h]
    rw [hL, hR]
    exact halfmesh_eq_fullmesh hn ek em (onMesh q) hsym b m
  refine ⟨key p hp, ?_⟩
  have h1 := key (fun _ => 1) (fun _ => rfl)
  rw [← h1]
  simp [Binning.wsum, Binning.counts]

/-- non-vacuity on the 3³ mesh: edges `[0, 1, 4]`, mu edges `[0, 1/2, 1]`; the bin `(1, 0)` holds 20
full-mesh modes (C08's example) and the half-mesh weighted count agrees -/
example : ((c08Binning 3 [0, 1, 4] [0, 1 / 2, 1] (fun _ x => x)).counts (1, 0) : ℝ) =
    ∑ k : Idx 3, (if clsFull 3 [0, 1, 4] [0, 1 / 2, 1] k = some (1, 0) then (1 : ℝ) else 0) :=
  (c08_wsum_full_mesh (n := 3) (by omega) _ _ _ (fun _ => 1) (fun _ => rfl) 1 0).2

end AbacusVerif.Power
